"""Oracle-only release / silence families for C02 and C03 (operator instances of the C05/C06 and C10-C13
tables in situations the machine correspondence of those checks does not generate):

  multi-source (comb_table generators, harness/k2m.py:run_multi)
    sync    sources that emit a prefix of their sequence and/or terminate INSIDE their own subscribe()
            (the subscription is handed to an already stopped observer: it must be released when assigned)
    tail    a take(n) / first() stage appended to the operator (early termination of a COMPOSITION)
    inner   dispose() issued by the subscriber from INSIDE its k-th on_next
    prio    dispose() ordered BEFORE the source events of its instant / before the first event
            (this one is also rendered for the machine correspondence: the delivered input sequence has the
            IDispose at that position)
  single-source (C05/C06 tables, harness/k2.py:run_hot)
    sub_raises, sync prefix, dispose inside the k-th on_next

Every case is generated from ONE integer (`case_seed`) and a small option dict, so a replay file holding
(family, operator name, case_seed, options) re-creates it exactly.

The judgements are direct readings of the statements of C02/C03 on the implementation's boundary log:
  * comb_oracle.common -- grammar; in the step of the subscriber's terminal / of a dispose between inputs every
    source is released by the END of that step and nothing is emitted or subscribed in any later step;
  * for a dispose issued inside a callback the log POSITION at which dispose() returned is known: behind it
    there is no notification, no user-callback invocation (callback spies / sources created by mappers) and no
    new source subscription that is still open when the step ends; when the step ends every source is closed.
    (A subscription opened before dispose() returned whose subscribe() call was still running at that moment is
    released when it is assigned to the disposed container -- DESIGN section 7/C02-C03 "Reading" -- hence "by
    the end of the step" and not "at the log position".)
"""
from __future__ import annotations

import random
import re

import comb_oracle
import comb_table
import k2
import k2m
import lib

GRAMMAR = re.compile(r"^N*[EC]?$")
_T = {}


def multi_table():
    if "multi" not in _T:
        _T["multi"] = comb_table.table()
    return _T["multi"]


def single_tables():
    if "single" not in _T:
        from props import C05, C06
        out = {}
        for mod in (C05, C06):
            pool, T = mod.ops_table()
            for name, g in T.items():
                out[name] = (mod, pool, g)
        _T["single"] = out
    return _T["single"]


# ---------------------------------------------------------------------------------------------------------
# multi-source
# ---------------------------------------------------------------------------------------------------------

TAILS = [("take", 0), ("take", 1), ("take", 1), ("take", 2), ("take", 3), ("first",)]


def gen_multi(name, case_seed, opts):
    """-> case dict (python objects; everything derived from case_seed)"""
    rng = random.Random(case_seed)
    inst = multi_table()[name](rng)
    nsrc = inst["n_static"] + (3 if inst.get("dynamic") else 0)
    if opts.get("values"):
        evs = k2m.gen_events(rng, nsrc, maxlen=4, values=opts["values"], nonconforming=opts.get("nonconforming", 0.15))
    else:
        evs = k2m.gen_events(rng, nsrc, maxlen=4)
    case = {"name": name, "inst": inst, "nsrc": nsrc, "sync": None, "tail": None, "disp": None, "prio": 2,
            "inner": None, "sraise": False, "stages": []}
    if rng.random() < opts.get("p_sync", 0.0):
        sync = {}
        for k in range(opts.get("sync_from", 0), nsrc):
            mine = [e for e in evs if e[1] == k]
            if mine and rng.random() < 0.6:
                j = len(mine) if rng.random() < 0.5 else rng.randint(1, len(mine))
                sync[k] = [e[2] for e in mine[:j]]
                drop = set(id(e) for e in mine[:j])
                evs = [e for e in evs if id(e) not in drop]
        case["sync"] = sync or None
    if rng.random() < opts.get("p_tail", 0.0):
        case["tail"] = rng.choice(TAILS)
    if inst["ty"] == "Z" and rng.random() < opts.get("p_stages", 0.0):
        # 1-2 single-source stages of the C05/C06 tables (those defined on pool values) behind the operator
        cand = sorted(single_tables())
        while len(case["stages"]) < rng.choice([1, 1, 2]):
            nm = rng.choice(cand)
            st = single_tables()[nm][2](rng)
            if st.get("poolvals") and st.get("pool") is None and not st.get("find_enc"):
                case["stages"].append((nm, st))
    case["sraise"] = rng.random() < opts.get("p_sub_raises", 0.0)
    mode = opts.get("dispose", "none")
    if mode == "event":
        if evs and rng.random() < opts.get("p_dispose", 1.0):
            case["disp"] = rng.choice(evs)[0]
    elif mode == "prio":
        times = sorted({e[0] for e in evs})
        case["disp"] = rng.choice([-1] + times + times)
        case["prio"] = rng.choice([-1, -1, 2])
    elif mode == "inner":
        case["inner"] = "pending"
    case["evs"] = evs
    case["rng"] = rng
    return case


def _build(case):
    inst, tail = case["inst"], case["tail"]
    if tail is None and not case.get("stages"):
        return inst["build"]
    from reactivex import operators as ops
    more = []
    if tail is not None:
        more.append(ops.take(tail[1]) if tail[0] == "take" else ops.first())
    more += [st["py"] for (_, st) in case.get("stages", [])]
    return lambda env, ss: inst["build"](env, ss).pipe(*more)


def run_multi_case(case):
    inst = case["inst"]
    kw = dict(dispose_at=case["disp"], dispose_prio=case["prio"], subscriber_raises=case["sraise"],
              sync=case["sync"])
    if case["inner"] == "pending":
        # how many elements does the undisturbed run deliver?  choose k among them
        dry = k2m.run_multi(_build(case), inst["n_static"], case["evs"], **kw)
        nexts = [e for e in dry["log"] if e[1] == "emit" and e[2] == "N"] if dry["build_error"] is None else []
        if inst.get("reset"):
            inst["reset"]()
        # only an element delivered after subscribe() returned can be answered with a dispose of the subscription
        cands = [j + 1 for j, e in enumerate(nexts) if e[0] > 0]
        # ... half of the time one that arrives in a step in which a source was subscribed before it (an
        # element a source delivers inside its own subscribe(): the operator is in the middle of switching sources)
        subbed = {e[0] for e in dry["log"] if e[1] == "sub"} if cands else set()
        first_emit = {}
        for pos, e in enumerate(dry["log"] if cands else []):
            if e[1] == "sub":
                first_emit.setdefault(e[0], pos)
        hot = [j + 1 for j, e in enumerate(nexts) if e[0] > 0 and e[0] in subbed
               and dry["log"].index(e) > first_emit[e[0]]]
        pick = hot if (hot and case["rng"].random() < 0.5) else cands
        case["inner"] = case["rng"].choice(pick) if pick else None
        case["dry_nexts"] = len(nexts)
    return k2m.run_multi(_build(case), inst["n_static"], case["evs"], dispose_in_on_next=case["inner"], **kw)


def inner_dispose_verdict(res):
    """C03 for a dispose() issued inside the subscriber's on_next; None = holds / not applicable"""
    m = res.get("inner_dispose")
    if m is None:
        return None
    log = res["log"]
    after = log[m["pos"]:]
    late = [(t, a) for (t, kind, a, b) in after if kind == "emit"]
    if late:
        return f"notification {late[0][1]} (input {late[0][0]}) after dispose() had returned inside on_next (input {m['tag']})"
    if len(res["env"].sources) > m["n_sources"]:
        return (f"a user callback (mapper/handler creating source {m['n_sources']}) ran after dispose() had "
                f"returned inside on_next (input {m['tag']})")
    eff = [(t, a) for (t, kind, a, b) in after if kind == "effect"]
    if eff:
        return (f"a user callback of the operator instance ran (visible side effect {eff[0][1]}, input {eff[0][0]}) "
                f"after dispose() had returned inside on_next (input {m['tag']})")
    # when the step ends, every source is closed -- and stays so
    live = comb_oracle.Live()
    for (t, kind, a, b) in log:
        if t > m["tag"]:
            if kind == "sub":
                return f"source {a} subscribed at input {t}, after the dispose() of input {m['tag']}"
            continue
        if kind == "sub":
            live.add(a)
        elif kind == "unsub":
            live.discard(a)
    if live:
        return (f"sources {sorted(live)} still subscribed at the end of the step (input {m['tag']}) in which "
                f"dispose() was called from inside on_next")
    return None


def inner_dispose_notes(res):
    """observations that are NOT judged (the statement of C03 is silent): a source subscribed after dispose()
    had returned, in the same step, and released again before the step ended"""
    m = res.get("inner_dispose")
    if m is None:
        return []
    return ["subscribed_after_dispose_returned_and_released_within_the_step"
            for (t, kind, a, b) in res["log"][m["pos"]:] if kind == "sub" and t == m["tag"]][:1]


def judge_multi(case, res, judge="release"):
    if res["build_error"] is not None:
        return f"build error {res['build_error']!r}"
    if judge == "grammar":          # C01: only what the subscriber saw
        kinds = "".join(a for (t, kind, a, b) in res["log"] if kind == "emit")
        if not GRAMMAR.match(kinds):
            return f"grammar violated: {kinds}"
        if res["escapes"]:
            return f"exception escaped into the emitter: {[repr(e) for _, e in res['escapes']]}"
        return None
    v = comb_oracle.common(res, comb_oracle.timeline(res))
    if not v and res["escapes"]:
        v = f"exception escaped into the emitter: {[repr(e) for _, e in res['escapes']]}"
    return v or inner_dispose_verdict(res)


def describe_multi(case, res):
    inst = case["inst"]
    d = {"operator": case["name"], "machine": inst["coq"], "tail_stage": case["tail"],
         "further_stages": [st["coq"] for (_, st) in case.get("stages", [])],
         "sources_emitting_inside_subscribe": {str(k): [_ev(e) for e in v] for k, v in (case["sync"] or {}).items()},
         "dispose_at": case["disp"], "dispose_before_same_instant_events": case["prio"] == -1,
         "dispose_inside_kth_on_next": case["inner"], "subscriber_terminal_callbacks_raise": case["sraise"]}
    if res is not None and res.get("build_error") is None:
        d["inputs (now, event)"] = k2m.g_inputs(res["inputs"])
        d["boundary log (input position, what)"] = [(t, kind, a, _pv(b)) for (t, kind, a, b) in res["log"]]
        d["dispose() returned at log position"] = (res.get("inner_dispose") or {}).get("pos")
    return d


def _pv(b):
    return k2.err_id(b) if isinstance(b, Exception) else b


def _ev(e):
    return [e[0]] + ([_pv(e[1])] if len(e) > 1 else [])


def multi_family(chk, pid, family, names, ncase, opts, rng, correspond=False):
    """runs `ncase` cases per operator; -> (histogram, set of non-trivial signatures)"""
    hist = {"cases": 0, "sync_sources": 0, "terminated_or_emitted_inside_subscribe": 0, "tail_stage": 0,
            "disposed_between_inputs": 0, "dispose_before_same_instant_events": 0, "dispose_before_first_event": 0,
            "dispose_inside_on_next_applied": 0, "subscriber_raises": 0, "saw_terminal": 0,
            "not_judged:subscribed_after_dispose_returned_and_released_within_the_step": 0}
    nontrivial = set()
    gal = {}
    for name in names:
        for _ in range(ncase):
            seed = rng.getrandbits(48)
            case = gen_multi(name, seed, opts)
            res = run_multi_case(case)
            chk.cov["evaluations"] += 1
            hist["cases"] += 1
            v = judge_multi(case, res, opts.get("judge", "release"))
            if res["build_error"] is None:
                log = res["log"]
                if case["stages"]:
                    hist["further_stages"] = hist.get("further_stages", 0) + 1
                hist["sync_sources"] += 1 if case["sync"] else 0
                hist["terminated_or_emitted_inside_subscribe"] += 1 if any(t == 0 and k == "emit" for (t, k, a, b) in log) else 0
                hist["tail_stage"] += 1 if case["tail"] else 0
                hist["subscriber_raises"] += 1 if case["sraise"] else 0
                hist["saw_terminal"] += 1 if any(k == "emit" and a in "EC" for (t, k, a, b) in log) else 0
                if any(i[1][0] == "dispose" for i in res["inputs"]):
                    hist["disposed_between_inputs"] += 1
                    if case["prio"] == -1:
                        hist["dispose_before_same_instant_events"] += 1
                    if case["disp"] == -1:
                        hist["dispose_before_first_event"] += 1
                if res.get("inner_dispose"):
                    hist["dispose_inside_on_next_applied"] += 1
                    for nt in inner_dispose_notes(res):
                        hist["not_judged:" + nt] += 1
            if v:
                chk.violation(f"{pid}|{family}|{name}|{v[:50]}",
                              dict(describe_multi(case, res), family=family, case_seed=seed, opts=opts, what=v),
                              size=len(res.get("inputs") or []) + 5 * bool(case["sync"]) + 3 * bool(case["tail"]))
            elif res["build_error"] is None:
                subs = sum(1 for e in res["log"] if e[1] == "sub")
                unsubs = sum(1 for e in res["log"] if e[1] == "unsub")
                if subs and subs == unsubs:
                    nontrivial.add((name, seed))
            if correspond and res["build_error"] is None:
                inst = case["inst"]
                gal.setdefault((inst["ty"], inst["eqb"]), []).append(
                    (f"({inst['coq']}, {k2m.g_inputs(res['inputs'])})", k2m.g_trace(res, inst["enc"])))
    for (ty, eqb), cases in gal.items():
        prelude = f"Definition model (c : machine Z {ty} * list (Z * inp Z)) := run_canon (fst c) (snd c).\n"
        bad, logs = lib.correspondence(pid, f"{family}_" + str(abs(hash((ty, eqb))) % 10**6), comb_table.IMPORTS,
                                       f"(machine Z {ty} * list (Z * inp Z)) * list (nat * obs {ty})",
                                       "model", f"(trace_eqb {eqb})", cases, prelude=prelude)
        chk.cov["traces_validated_against_impl"] += len(cases)
        chk.cov["disagreements_checked"] += len(cases)
        if bad:
            firsts = [cases[i] for i in bad if i >= 0][:3]
            d = {"n": len(bad), "first (machine+inputs, implementation trace)": firsts, "logs": logs[:1]}
            if firsts:
                d["model_says"] = lib.coq_show(pid, comb_table.IMPORTS, f"model {firsts[0][0]}", prelude)
            chk.tie_broken(f"correspondence K2 multi-source ({ty}), family {family}: machine vs implementation", d)
    return hist, nontrivial


# ---------------------------------------------------------------------------------------------------------
# single-source
# ---------------------------------------------------------------------------------------------------------

def gen_single(name, case_seed, opts):
    from props import C06
    rng = random.Random(case_seed)
    mod, pool, g = single_tables()[name]
    inst = g(rng)
    ipool = inst.get("pool", pool)
    ins = (C06.num_inputs(rng, ipool) if inst.get("pool") is not None else k2.gen_inputs(rng, ipool, maxlen=5))
    case = {"name": name, "inst": inst, "ipool": ipool, "ins": ins, "sraise": bool(opts.get("sub_raises")),
            "sync_prefix": 0, "inner": None, "rng": rng}
    if opts.get("sync") and ins:
        case["sync_prefix"] = rng.randint(1, len(ins))
    if opts.get("inner"):
        case["inner"] = "pending"
    return case


def run_single_case(case):
    inst = case["inst"]
    build = lambda s: s.pipe(inst["py"])
    kw = dict(subscriber_raises=case["sraise"], sync_prefix=case["sync_prefix"])
    if case["inner"] == "pending":
        dry = k2.run_hot(build, case["ins"], **kw)
        nexts = [t for (t, k, p) in dry["out"] if k == "N"] if dry["build_error"] is None else []
        # only an element delivered after subscribe() returned can be answered with a dispose of the subscription
        cands = [j + 1 for j, t in enumerate(nexts) if t > case["sync_prefix"]]
        case["inner"] = case["rng"].choice(cands) if cands else None
        case["dry_nexts"] = len(nexts)
    return k2.run_hot(build, case["ins"], dispose_in_on_next=case["inner"], **kw)


def judge_single(case, res):
    if res["build_error"] is not None:
        return None
    if res["escapes"]:
        return f"exception escaped: {[repr(e) for _, e in res['escapes']]}"
    kinds = "".join(k for (_, k, _) in res["out"])
    if not GRAMMAR.match(kinds):
        return f"grammar violated: {kinds}"
    subs = [t for (w, i, t) in res["sublog"] if w == "sub"]
    unsubs = [t for (w, i, t) in res["sublog"] if w == "unsub"]
    term_tag = next((t for (t, k, p) in res["out"] if k in "EC"), None)
    if term_tag is not None and subs:
        # released by the end of the step of the terminal (a terminal delivered inside the source's subscribe()
        # is released when subscribe() returns: the log entry then carries the position of the last input
        # delivered inside subscribe())
        if len(unsubs) < len(subs):
            return f"terminal at input {term_tag} but {len(subs) - len(unsubs)} source subscription(s) never released"
        if max(unsubs) > max(term_tag, case["sync_prefix"]):
            return f"terminal at input {term_tag} but the source was unsubscribed at {unsubs}"
        if any(t > term_tag for t in subs):
            return f"source subscribed (inputs {subs}) after the terminal of input {term_tag}"
    m = res.get("inner_dispose")
    if m is not None:
        late = res["out"][m["out"]:]
        if late:
            return (f"notification {late[0][1]} (input {late[0][0]}) after dispose() had returned inside on_next "
                    f"(input {m['tag']})")
        if res["calls"][m["calls"]:]:
            return (f"user callback invoked (inputs {res['calls'][m['calls']:]}) after dispose() had returned inside "
                    f"on_next (input {m['tag']})")
        if any(w == "sub" for (w, i, t) in res["sublog"][m["sublog"]:]):
            return f"source subscribed after dispose() had returned inside on_next (input {m['tag']})"
        if len(unsubs) < len(subs) or (unsubs and max(unsubs) > m["tag"]):
            return (f"dispose() inside on_next at input {m['tag']}: subscribed at {subs}, unsubscribed at {unsubs} "
                    f"(not all closed by the end of that step)")
    return None


def describe_single(case, res):
    inst = case["inst"]
    d = {"operator": case["name"], "instance": inst["coq"], "inputs": k2.g_inputs(case["ins"], case["ipool"]),
         "delivered_inside_subscribe": case["sync_prefix"], "dispose_inside_kth_on_next": case["inner"],
         "subscriber_terminal_callbacks_raise": case["sraise"]}
    if res is not None and res.get("build_error") is None:
        d["emissions (input position, kind)"] = [(t, k) for (t, k, p) in res["out"]]
        d["source log"] = res["sublog"]
        d["user callback invocations (input positions)"] = res["calls"]
        d["log lengths when dispose() returned"] = res.get("inner_dispose")
    return d


def single_family(chk, pid, family, ncase, opts, rng, names=None):
    hist = {"cases": 0, "saw_terminal": 0, "terminal_inside_subscribe": 0, "dispose_inside_on_next_applied": 0,
            "skipped_build_error": 0}
    nontrivial = set()
    for name in (names or list(single_tables())):
        for _ in range(ncase):
            seed = rng.getrandbits(48)
            case = gen_single(name, seed, opts)
            res = run_single_case(case)
            chk.cov["evaluations"] += 1
            hist["cases"] += 1
            if res["build_error"] is not None:
                hist["skipped_build_error"] += 1
                continue
            v = judge_single(case, res)
            term = next((t for (t, k, p) in res["out"] if k in "EC"), None)
            hist["saw_terminal"] += 1 if term is not None else 0
            hist["terminal_inside_subscribe"] += 1 if (term is not None and 0 < term <= case["sync_prefix"]) else 0
            hist["dispose_inside_on_next_applied"] += 1 if res.get("inner_dispose") else 0
            if v:
                chk.violation(f"{pid}|{family}|{name}|{v[:50]}",
                              dict(describe_single(case, res), family=family, case_seed=seed, opts=opts, what=v),
                              size=len(case["ins"]))
            elif any(w == "unsub" for (w, i, t) in res["sublog"]):
                nontrivial.add((name, seed))
    return hist, nontrivial


# ---------------------------------------------------------------------------------------------------------
# replay
# ---------------------------------------------------------------------------------------------------------

def is_replay(d):
    return isinstance(d, dict) and "case_seed" in d and "family" in d and "opts" in d


def replay_main(pid, path):
    """`./check Cxx --replay file` for a case of this module: 1 (+ VIOLATION line) if it still fails, else 0"""
    import json
    d = json.load(open(path))
    v, desc = replay(pid, d)
    print(json.dumps(dict(desc, what=v), indent=1, default=repr))
    if v:
        print(f"VIOLATION property={pid} replay={path}")
        return 1
    print(f"[{pid}] replay: the case no longer fails")
    return 0


def replay(pid, d):
    """re-run the case of a replay dict written by multi_family / single_family; -> verdict string or None"""
    lib.import_repo()
    name, seed, opts = d["operator"], d["case_seed"], d["opts"]
    if d["family"].startswith("single"):
        case = gen_single(name, seed, opts)
        res = run_single_case(case)
        return judge_single(case, res), describe_single(case, res)
    case = gen_multi(name, seed, opts)
    res = run_multi_case(case)
    return judge_multi(case, res, opts.get("judge", "release")), describe_multi(case, res)
