import argparse
import importlib
import os
import sys
import traceback

HERE = os.path.dirname(os.path.abspath(__file__))
sys.path.insert(0, HERE)
import lib  # noqa: E402


def main():
    ap = argparse.ArgumentParser()
    ap.add_argument("pid")
    ap.add_argument("--tier", default=os.environ.get("VERIF_TIER", "quick"), choices=["quick", "thorough"])
    ap.add_argument("--replay", default=None)
    ap.add_argument("--seed", type=int, default=int(os.environ.get("VERIF_SEED") or "20260922"))
    a = ap.parse_args()
    lib.import_repo()
    mod = importlib.import_module(f"props.{a.pid}")
    chk = lib.Check(a.pid, a.tier, a.seed, keep_replays=bool(a.replay))
    try:
        if a.replay:
            rc = mod.replay(chk, a.replay)
        else:
            rc = mod.run(chk)
    except BaseException as e:
        if type(e).__name__ != "ControllerError":
            if not isinstance(e, Exception):
                raise
            traceback.print_exc()
            repo = os.path.realpath(os.environ.get("VERIF_REPO", "/repo")) + os.sep
            frames = [f.filename for f in traceback.extract_tb(e.__traceback__)]
            if any(os.path.realpath(f).startswith(repo) for f in frames):
                # an exception came out of the LIBRARY into a driver that does not expect one (it never does on the
                # tree the driver was written for): the implementation can no longer be run through the scenarios
                # the correspondence is made of
                chk.tie_broken("driver: an exception escaped from the library into the harness",
                               {"error": repr(e), "traceback": traceback.format_exc()[-3000:]})
                for k in ("obligations", "discharged", "evaluations"):
                    chk.cov.setdefault(k, 0)
                sys.exit(chk.finish())
            # machinery failure: not evidence of anything; fail loudly without a VIOLATION line
            print(f"[{a.pid}] CHECK-ERROR (machinery failure, no verdict)")
            sys.exit(2)
        # the thread controller could not drive the implementation through a schedule (a thread hung in an
        # uncontrolled wait, blocked with a controlled lock held, ...).  That never happens on the tree the
        # controller was built for: the schedule-level correspondence no longer checks.
        traceback.print_exc()
        chk.tie_broken("controller: the implementation could not be driven through a controlled schedule",
                       {"error": repr(e), "traceback": traceback.format_exc()[-3000:]})
        chk.cov.setdefault("obligations", 0)
        chk.cov.setdefault("discharged", 0)
        chk.cov.setdefault("evaluations", 0)
        rc = chk.finish()
        sys.exit(rc)
    sys.exit(rc)


main()
