(* C24, replay(): what a subscriber of a multicast observable built on a ReplaySubject receives.
   The subject's side of a run of Subjects/Connectable.v's machine (engine state, the engine
   instructions pending on the continuation stack, the calls and callbacks of the log) is a
   configuration of the ReplaySubject engine of Subjects/Replay.v that satisfies the C22 invariant
   K = Inv /\ J /\ Qq of ReplayTreeFacts / ReplayLiveFacts: a [KS] instruction is one [rstep], and a
   call made by the connectable layer pushes one [RIOp] in FRONT of whatever is pending -- which K
   tolerates at any moment, because K is the invariant of arbitrary call trees.  Hence the
   statement holds for EVERY call tree of the connectable machine (subscribers that subscribe,
   unsubscribe, connect, disconnect, emit from inside their callbacks), every mode, cold prefix,
   buffer size and window. *)
From RxVerif Require Import Base.Prelude Ops.Machine Subjects.Subject Subjects.Behavior Subjects.Async
  Subjects.Family Subjects.Replay Subjects.ReplaySpec Subjects.Connectable Subjects.ConnectableFacts
  Subjects.SubjectFacts Subjects.ReplayFacts Subjects.ReplayTreeFacts Subjects.ReplayLiveFacts.
Require Import Lia.
Local Open Scope nat_scope.

Section Frame.
Context {A : Type}.
Notation sil := (fun (_ _ : nat) => @nil (@rop A)).

(* one instruction of the ReplaySubject engine looks neither at the rest of the continuation nor
   at the log *)
Lemma rstep_frame (i : @rinstr A) s m k l :
  rstep sil (RCfg s m (i :: k) l) =
  let c := rstep sil (RCfg s m [i] []) in RCfg (rc_st c) (rc_obs c) (rc_k c ++ k) (rc_rlog c ++ l).
Proof.
  unfold rstep. cbn [rc_k rc_st rc_obs rc_rlog].
  destruct i as [p|o n|o|o|o|].
  - unfold rstep_op. destruct p as [o|o|v|e| | |d].
    + destruct (m o); [reflexivity|]. destruct (r_disposed s); [reflexivity|].
      cbv zeta. destruct (ensure_active _ _ _). reflexivity.
    + destruct (m o) as [os|]; [|reflexivity]. destruct (r_handle os); [|reflexivity].
      destruct (rado_dispose s os o). reflexivity.
    + destruct (r_disposed s); [reflexivity|]. destruct (r_stopped s); [reflexivity|]. cbv zeta.
      repeat match goal with |- context [so_each ?f ?a ?bb ?c] => destruct (so_each f a bb c) end. reflexivity.
    + destruct (r_disposed s); [reflexivity|]. destruct (r_stopped s); [reflexivity|]. cbv zeta.
      repeat match goal with |- context [so_each ?f ?a ?bb ?c] => destruct (so_each f a bb c) end. reflexivity.
    + destruct (r_disposed s); [reflexivity|]. destruct (r_stopped s); [reflexivity|]. cbv zeta.
      repeat match goal with |- context [so_each ?f ?a ?bb ?c] => destruct (so_each f a bb c) end. reflexivity.
    + reflexivity.
    + destruct (d <? 0)%Z; reflexivity.
  - destruct (m o) as [os|]; [|reflexivity]. destruct (ra_stopped os); [reflexivity|]. destruct n; reflexivity.
  - destruct (m o) as [os|]; [|reflexivity]. destruct (rado_dispose s os o). reflexivity.
  - reflexivity.
  - destruct (m o); reflexivity.
  - destruct (r_sched s) as [|[[it o] c] rest]; [reflexivity|]. destruct c; [reflexivity|].
    destruct (m o) as [os|]; [|reflexivity]. destruct (so_queue (r_so os)); reflexivity.
Qed.
End Frame.

Section ReplayView.
Context {A : Type} (b : Z) (w : option Z).
Context (md : mode) (reach : bool) (cold : list (ev A)) (react : nat -> nat -> list (@cop A)).
Notation sil := (fun (_ _ : nat) => @nil (@rop A)).
Notation kinstr := (@kinstr A (@rinstr A)).
Notation kcfg := (@kcfg A (@replay_st A) (@rinstr A) (@rop A)).
Notation cevent := (@cevent A (@rop A)).
Notation stepk := (kstep replay_exec replay_call md reach cold react).
Notation runk := (krun replay_exec replay_call md reach cold react).

(* ---- the subject's side of a configuration ---- *)
Definition pk (k : list kinstr) : list (@rinstr A) :=
  flat_map (fun i => match i with KS ei => [ei] | _ => [] end) k.
Definition pl (l : list cevent) : list (@revent A) :=
  flat_map (fun e => match e with CECall p => [REOp p] | CEGot o n => [REGot o n] | _ => [] end) l.
Definition proj (c : kcfg) : @rcfg A :=
  RCfg (fst (k_eng c)) (snd (k_eng c)) (pk (k_k c)) (pl (k_log c)).

Lemma pk_app k1 k2 : pk (k1 ++ k2) = pk k1 ++ pk k2.
Proof. apply flat_map_app. Qed.
Lemma pl_app l1 l2 : pl (l1 ++ l2) = pl l1 ++ pl l2.
Proof. apply flat_map_app. Qed.
Lemma pk_KS l : pk (map (@KS A _) l) = l.
Proof. induction l; cbn; [reflexivity|]. now f_equal. Qed.
Lemma pk_KOp l : pk (map (@KOp A (@rinstr A)) l) = [].
Proof. induction l; cbn; auto. Qed.
Lemma pk_KSrc cid l : pk (map (@KSrc A (@rinstr A) cid) l) = [].
Proof. induction l; cbn; auto. Qed.
Lemma pk_srcs n l : pk (map (fun cid => @KSrc A (@rinstr A) cid n) l) = [].
Proof. induction l; cbn; auto. Qed.
Lemma pk_cons i k : pk (i :: k) = (match i with KS ei => [ei] | _ => [] end) ++ pk k.
Proof. reflexivity. Qed.
Lemma pl_rev (l : list cevent) : pl (rev l) = rev (pl l).
Proof.
  induction l as [|e l IH]; [reflexivity|]. cbn [rev]. rewrite pl_app, IH.
  change (e :: l) with ([e] ++ l). rewrite pl_app, rev_app_distr. f_equal. destruct e; reflexivity.
Qed.

Lemma pl_sado cid c : pl (rev (snd (@sado_dispose A (@rop A) cid c))) = [].
Proof.
  unfold sado_dispose, src_dispose. cbn [s_sad_disposed s_sad_set s_live].
  destruct (s_sad_disposed c); [reflexivity|]. destruct (s_sad_set c); [|reflexivity].
  destruct (s_live c); reflexivity.
Qed.
Lemma pl_comp cid bk : pl (rev (snd (@comp_dispose A (@rop A) cid bk))) = [].
Proof.
  unfold comp_dispose. destruct (comp_disposed (get_conn bk cid)); [reflexivity|].
  match goal with |- context [sado_dispose cid ?c] => pose proof (pl_sado cid c) as H;
    destruct (sado_dispose cid c) as [c2 evs] end. exact H.
Qed.

(* every method of the subject is one engine instruction *)
Definition rop_of (p : @sop A) : @rop A :=
  match p with
  | SSub o => RSub o | SUnsub o => RUnsub o | SNext v => RNext v | SErr e => RErr e
  | SDone => RDone | SAdv d => RAdvance d
  end.
Lemma replay_call_one p : replay_call p = [RIOp (rop_of p)].
Proof. destruct p; reflexivity. Qed.

(* the log of the engine, as the connectable machine records it *)
Definition noraise (l : list (@revent A)) : list (@revent A) :=
  filter (fun e => match e with RERaised _ => false | _ => true end) l.
Lemma pl_engine (r : list (@revent A)) :
  pl (rev (map (fun e => match e with
                         | VOp p => CECall p | VGot o n => CEGot o n | VRaised x => CERaised x
                         end) (map replay_ev (rev r)))) = noraise r.
Proof.
  rewrite map_map, <- map_rev, rev_involutive.
  induction r as [|e r IH]; [reflexivity|]. cbn [map]. change (?x :: ?l) with ([x] ++ l) at 1.
  rewrite pl_app, IH. destruct e; reflexivity.
Qed.

Lemma ops_of_noraise (l : list (@revent A)) : ops_of (noraise l) = ops_of l.
Proof. unfold ops_of, noraise. induction l as [|e l IH]; [reflexivity|]. destruct e; cbn; rewrite ?IH; reflexivity. Qed.
Lemma rview_noraise o (l : list (@revent A)) : rview o (noraise l) = rview o l.
Proof. unfold noraise. induction l as [|e l IH]; [reflexivity|]. destruct e; cbn; rewrite ?IH; reflexivity. Qed.
Lemma noraise_app l1 l2 : noraise (l1 ++ l2) = noraise l1 ++ noraise l2.
Proof. apply filter_app. Qed.
Lemma noraise_rev (l : list (@revent A)) : noraise (rev l) = rev (noraise l).
Proof.
  unfold noraise. induction l as [|e l IH]; [reflexivity|]. cbn [rev]. rewrite filter_app, IH.
  destruct e; cbn; rewrite ?app_nil_r; reflexivity.
Qed.
Lemma rview_app o (l1 l2 : list (@revent A)) : rview o (l1 ++ l2) = rview o l1 ++ rview o l2.
Proof.
  induction l1 as [|e l1 IH]; [reflexivity|]. destruct e; cbn [app rview]; try exact IH.
  destruct (Nat.eqb o0 o); [cbn; now rewrite IH|exact IH].
Qed.

(* ---- K does not look at the exceptions of the log, and tolerates a call at any moment ---- *)
Lemma K_log (s : @rstate A) m k l l' :
  K b w (RCfg s m k l) -> ops_of (rev l') = ops_of (rev l) ->
  (forall o, rview o (rev l') = rview o (rev l)) -> K b w (RCfg s m k l').
Proof.
  intros [HI [HJ HQ]] Ho Hv. split; [|split; assumption].
  destruct HI as [h1 h2 h3 h4 h5 h6].
  unfold cg, cx, cops, rlog_of in *. cbn [rc_st rc_obs rc_k rc_rlog] in *.
  constructor; unfold cg, cx, cops, rlog_of; cbn [rc_st rc_obs rc_k rc_rlog]; rewrite ?Ho; try assumption.
  - intros o Hn. rewrite Hv. apply h4. exact Hn.
  - intros o os Hs. rewrite Hv. apply h5. exact Hs.
Qed.

Lemma K_call (s : @rstate A) m k l p : K b w (RCfg s m k l) -> K b w (RCfg s m (RIOp p :: k) l).
Proof.
  intros [HI [HJ HQ]]. split; [|split; [|exact HQ]].
  - destruct HI as [h1 h2 h3 h4 h5 h6]. constructor; assumption.
  - cbn [rc_st rc_obs rc_k] in *. eapply J_k_mono; [|exact HJ]. intros o H. right. exact H.
Qed.

Definition P (c : kcfg) : Prop := K b w (proj c).

Lemma P_same st bk m k l bk' m' k' l' :
  P (KCfg st bk m k l) -> pk k' = pk k -> pl l' = pl l -> P (KCfg st bk' m' k' l').
Proof. unfold P, proj. cbn [k_eng k_k k_log]. intros H -> ->. exact H. Qed.

Lemma P_call st bk m k l bk' m' k' l' p :
  P (KCfg st bk m k l) -> pk k' = RIOp p :: pk k -> pl l' = pl l -> P (KCfg st bk' m' k' l').
Proof. unfold P, proj. cbn [k_eng k_k k_log]. intros H -> ->. apply K_call. exact H. Qed.

Ltac pks := repeat first [rewrite pk_app | rewrite pk_KS | rewrite pk_KOp | rewrite pk_KSrc | rewrite pk_srcs
                          | rewrite pk_cons | rewrite replay_call_one]; cbn [app map].

Theorem P_step c : P c -> P (stepk c).
Proof.
  destruct c as [st bk m k l]. unfold kstep. cbn [k_k k_bk k_log k_out k_eng].
  destruct k as [|i k]; [auto|]. intros H.
  destruct i as [p|ei|o|o|o|o u| |x|cid x|cid n|cid].
  - (* KOp *)
    destruct p as [o|o| |j|v|e| |d].
    + destruct (m o); [eapply P_same; [exact H|reflexivity|reflexivity]|].
      destruct md.
      * eapply (P_call _ _ _ _ _ _ _ _ _ (RSub o)); [exact H| |reflexivity]. pks. reflexivity.
      * eapply P_same; [exact H|reflexivity|reflexivity].
      * eapply P_same; [exact H|reflexivity|reflexivity].
    + destruct (m o) as [y|]; [|eapply P_same; [exact H|reflexivity|reflexivity]].
      destruct (u_handle y); [|eapply P_same; [exact H|reflexivity|reflexivity]].
      destruct (is_outer_mode md); [eapply P_same; [exact H|reflexivity|reflexivity]|].
      eapply (P_call _ _ _ _ _ _ _ _ _ (RUnsub o)); [exact H| |reflexivity]. pks. reflexivity.
    + destruct reach; eapply P_same; try exact H; reflexivity.
    + destruct (nth_error (handles bk) j) as [[cid|]|].
      * pose proof (pl_comp cid bk) as G. destruct (comp_dispose cid bk) as [b' evs].
        eapply P_same; [exact H|reflexivity|]. cbn [snd] in G. now rewrite pl_app, G.
      * eapply P_same; [exact H|reflexivity|reflexivity].
      * eapply P_same; [exact H|reflexivity|reflexivity].
    + eapply P_same; [exact H| |reflexivity]. pks. reflexivity.
    + eapply P_same; [exact H| |reflexivity]. pks. reflexivity.
    + eapply P_same; [exact H| |reflexivity]. pks. reflexivity.
    + eapply (P_call _ _ _ _ _ _ _ _ _ (RAdvance d)); [exact H| |reflexivity]. pks. reflexivity.
  - (* KS: one step of the engine *)
    unfold P, proj in H. cbn [k_eng k_k k_log] in H. rewrite pk_cons in H. cbn [app] in H.
    pose proof (K_step sil b w _ H) as G. rewrite rstep_frame in G. cbv zeta in G.
    unfold replay_exec.
    remember (rstep sil (RCfg (fst st) (snd st) [ei] [])) as c1 eqn:E1.
    cbn [rc_st rc_obs rc_k rc_rlog] in G.
    assert (G' : K b w (RCfg (rc_st c1) (rc_obs c1) (rc_k c1 ++ pk k) (noraise (rc_rlog c1) ++ pl l))).
    { apply (K_log _ _ _ _ _ G).
      - rewrite !rev_app_distr, !ops_of_app, <- noraise_rev, ops_of_noraise. reflexivity.
      - intros o. rewrite !rev_app_distr, !rview_app, <- noraise_rev, rview_noraise. reflexivity. }
    destruct (fold_left _ (map replay_ev (rev (rc_rlog c1))) None) as [[o n]|];
      unfold P, proj; cbn [k_eng k_k k_log fst snd].
    + rewrite pl_app, pl_engine. pks.
      assert (E : pk (if is_terminal n && is_outer_mode md then [@KOuter A (@rinstr A) o false] else []) = [])
        by (destruct (is_terminal n && is_outer_mode md); reflexivity).
      rewrite E. exact G'.
    + rewrite pl_app, pl_engine. pks. exact G'.
  - (* KInc *)
    eapply (P_call _ _ _ _ _ _ _ _ _ (RSub o)); [exact H| |reflexivity]. pks.
    match goal with |- context [if ?c then [KConnect ?w0] else []] => destruct c end; reflexivity.
  - (* KRet *)
    destruct (m o) as [y|]; [|eapply P_same; [exact H|reflexivity|reflexivity]].
    destruct (u_sad_disposed y); eapply P_same; try exact H; reflexivity.
  - (* KHandle *)
    destruct (m o) as [y|]; eapply P_same; try exact H; reflexivity.
  - (* KOuter *)
    destruct (m o) as [y|]; [|eapply P_same; [exact H|reflexivity|reflexivity]].
    destruct (u_sad_disposed y); [eapply P_same; [exact H|reflexivity|reflexivity]|].
    destruct (u_sad_set y); [|eapply P_same; [exact H|reflexivity|reflexivity]].
    destruct u.
    + eapply (P_call _ _ _ _ _ _ _ _ _ (RUnsub o)); [exact H| |reflexivity]. pks. reflexivity.
    + eapply P_same; [exact H|reflexivity|reflexivity].
  - (* KDec *)
    destruct md as [| |n]; [eapply P_same; [exact H|reflexivity|reflexivity]| |eapply P_same; [exact H|reflexivity|reflexivity]].
    match goal with |- context [if ?c then _ else _] => destruct c end; [|eapply P_same; [exact H|reflexivity|reflexivity]].
    destruct (rc_sub _) as [cid|]; [|eapply P_same; [exact H|reflexivity|reflexivity]].
    match goal with |- context [comp_dispose cid ?b1] => pose proof (pl_comp cid b1) as G;
      destruct (comp_dispose cid b1) as [b' evs] end.
    eapply P_same; [exact H|reflexivity|]. cbn [snd] in G. now rewrite pl_app, G.
  - (* KConnect *)
    destruct (has_sub bk); [eapply P_same; [exact H|reflexivity|reflexivity]|].
    eapply P_same; [exact H| |reflexivity]. pks. reflexivity.
  - (* KConnRet *)
    destruct (s_sad_disposed (get_conn bk cid)).
    + unfold src_dispose. destruct (s_live (get_conn bk cid)); eapply P_same; try exact H; reflexivity.
    + eapply P_same; [exact H|reflexivity|reflexivity].
  - (* KSrc *)
    destruct (negb (s_live (get_conn bk cid))); [eapply P_same; [exact H|reflexivity|reflexivity]|].
    destruct (s_stopped (get_conn bk cid)); [eapply P_same; [exact H|reflexivity|reflexivity]|].
    destruct n as [v|e|].
    + eapply (P_call _ _ _ _ _ _ _ _ _ (RNext v)); [exact H| |reflexivity]. pks. reflexivity.
    + eapply (P_call _ _ _ _ _ _ _ _ _ (RErr e)); [exact H| |reflexivity]. pks. reflexivity.
    + eapply (P_call _ _ _ _ _ _ _ _ _ RDone); [exact H| |reflexivity]. pks. reflexivity.
  - (* KSrcFin *)
    pose proof (pl_sado cid (get_conn bk cid)) as G.
    destruct (sado_dispose cid (get_conn bk cid)) as [c1 evs].
    eapply P_same; [exact H|reflexivity|]. cbn [snd] in G. now rewrite pl_app, G.
Qed.

(* ---- the driver's program ends with a drain, and when it is exhausted the scheduler is empty ---- *)
Definition Md (c : kcfg) : Prop :=
  (k_k c = [] -> r_sched (fst (k_eng c)) = []) /\
  (k_k c <> [] -> exists pre, k_k c = pre ++ [KS RIDrain]).

Lemma kstep_k_shape c i tail : k_k c = i :: tail -> exists pre, k_k (stepk c) = pre ++ tail.
Proof.
  destruct c as [st bk m k l]. cbn [k_k]. intros ->. unfold kstep. cbn [k_k k_bk k_log k_out k_eng].
  destruct i as [p|ei|o|o|o|o u| |x|cid x|cid n|cid].
  - destruct p as [o|o| |j|v|e| |d].
    + destruct (m o); [exists []; reflexivity|]. destruct md; cbn [k_k].
      * exists (map KS (replay_call (SSub o)) ++ [KHandle o]). now rewrite <- app_assoc.
      * exists [KInc o]. reflexivity.
      * exists [KInc o]. reflexivity.
    + destruct (m o) as [y|]; [|exists []; reflexivity]. destruct (u_handle y); [|exists []; reflexivity].
      destruct (is_outer_mode md); cbn [k_k]; [exists [KOuter o true]; reflexivity|eexists; reflexivity].
    + destruct reach; cbn [k_k]; [exists [KConnect ByDriver]; reflexivity|exists []; reflexivity].
    + destruct (nth_error (handles bk) j) as [[cid|]|]; try (exists []; reflexivity).
      destruct (comp_dispose cid bk). exists []. reflexivity.
    + cbn [k_k]. eexists; reflexivity.
    + cbn [k_k]. eexists; reflexivity.
    + cbn [k_k]. eexists; reflexivity.
    + cbn [k_k]. eexists; reflexivity.
  - destruct (replay_exec ei st) as [[st' pushed] evs].
    destruct (fold_left _ evs None) as [[o n]|]; cbn [k_k].
    + exists (map KOp (react o (u_calls match m o with Some u => u | None => fresh_outer end)) ++ map KS pushed ++
              (if is_terminal n && is_outer_mode md then [KOuter o false] else [])).
      now rewrite <- !app_assoc.
    + eexists; reflexivity.
  - cbn [k_k].
    match goal with |- context [if ?c then [KConnect ?w0] else []] =>
      exists (map KS (replay_call (SSub o)) ++ (if c then [KConnect w0] else []) ++ [KRet o]) end.
    now rewrite <- !app_assoc.
  - destruct (m o) as [y|]; [|exists []; reflexivity]. destruct (u_sad_disposed y); cbn [k_k];
      [exists [KDec]; reflexivity|exists []; reflexivity].
  - destruct (m o); exists []; reflexivity.
  - destruct (m o) as [y|]; [|exists []; reflexivity]. destruct (u_sad_disposed y); [exists []; reflexivity|].
    destruct (u_sad_set y); cbn [k_k]; [|exists []; reflexivity].
    exists ((if u then map KS (replay_call (SUnsub o)) else []) ++ [KDec]). now rewrite <- app_assoc.
  - destruct md as [| |n]; [exists []; reflexivity| |exists []; reflexivity].
    match goal with |- context [if ?c then _ else _] => destruct c end; [|exists []; reflexivity].
    destruct (rc_sub _) as [cid|]; [|exists []; reflexivity]. destruct (comp_dispose cid _). exists []. reflexivity.
  - destruct (has_sub bk); cbn [k_k]; [exists []; reflexivity|].
    exists (map (KSrc (length (conns bk))) cold ++ [KConnRet (length (conns bk)) x]). now rewrite <- app_assoc.
  - destruct (if s_sad_disposed (get_conn bk cid) then _ else _). exists []. reflexivity.
  - destruct (negb (s_live (get_conn bk cid))); [exists []; reflexivity|].
    destruct (s_stopped (get_conn bk cid)); [exists []; reflexivity|].
    destruct n; cbn [k_k].
    + eexists; reflexivity.
    + exists (map KS (replay_call (SErr e)) ++ [KSrcFin cid]). now rewrite <- app_assoc.
    + exists (map KS (replay_call SDone) ++ [KSrcFin cid]). now rewrite <- app_assoc.
  - destruct (sado_dispose cid (get_conn bk cid)). exists []. reflexivity.
Qed.

Lemma Md_step c : Md c -> Md (stepk c).
Proof.
  intros [M1 M2]. destruct (k_k c) as [|i tail] eqn:Ek.
  - assert (E : stepk c = c) by (destruct c as [st bk m k l]; cbn [k_k] in Ek; subst k; reflexivity).
    rewrite E. unfold Md. rewrite Ek. split; [intros _; exact (M1 eq_refl)|intros H; contradiction].
  - destruct (M2 ltac:(discriminate)) as [pre Hpre].
    destruct tail as [|j tail'].
    + (* the last instruction is the drain loop *)
      assert (i = KS RIDrain).
      { destruct pre as [|x pre']; cbn in Hpre; [now injection Hpre|].
        injection Hpre as _ H. destruct pre'; discriminate. }
      subst i. destruct c as [st bk m k l]. cbn [k_k k_eng] in *. subst k.
      unfold kstep. cbn [k_k k_bk k_log k_out k_eng]. unfold replay_exec, rstep. cbn [rc_k rc_st rc_obs rc_rlog].
      destruct (r_sched (fst st)) as [|[[it o] cc] rest] eqn:Es; cbn [rc_k rc_st rc_obs rc_rlog rev map fold_left k_k k_eng fst].
      * split; [intros _; exact Es|intros H; exfalso; apply H; reflexivity].
      * destruct cc; cbn [rc_k rc_st rc_obs rc_rlog rev map fold_left k_k k_eng fst app].
        { split; [discriminate|intros _; exists []; reflexivity]. }
        destruct (snd st o) as [os|]; cbn [rc_k rc_st rc_obs rc_rlog rev map fold_left k_k k_eng fst app];
          [|split; [discriminate|intros _; exists []; reflexivity]].
        destruct (so_queue (r_so os)); cbn [rc_k rc_st rc_obs rc_rlog rev map fold_left k_k k_eng fst app].
        -- split; [discriminate|intros _; exists []; reflexivity].
        -- split; [discriminate|intros _; exists [KS (RIDeliver o e); KS (RIResched o)]; reflexivity].
    + destruct (kstep_k_shape c i (j :: tail') Ek) as [pre2 Hk2].
      assert (Htail : exists pre3, j :: tail' = pre3 ++ [KS RIDrain]).
      { destruct pre as [|x pre']; cbn in Hpre; [discriminate|]. injection Hpre as _ H. eauto. }
      destruct Htail as [pre3 Hp3]. split.
      * rewrite Hk2. intros H. apply app_eq_nil in H. destruct H as [_ H]. discriminate.
      * intros _. exists (pre2 ++ pre3). rewrite Hk2, Hp3. now rewrite app_assoc.
Qed.

(* ---- a configuration in which nothing is pending ---- *)
Lemma cview_pl o (l : list cevent) : rview o (pl l) = cview o l.
Proof.
  induction l as [|e l IH]; [reflexivity|]. destruct e; cbn [pl flat_map app rview cview]; try exact IH.
  fold (pl l). rewrite IH. reflexivity.
Qed.
Lemma calls_pl (l : list cevent) : ops_of (pl l) = calls_of l.
Proof.
  unfold ops_of, calls_of, pl. induction l as [|e l IH]; [reflexivity|].
  cbn [flat_map]. rewrite flat_map_app, IH. destruct e; reflexivity.
Qed.

Lemma proj_view c o : rview o (rlog_of (proj c)) = cview o (klog_of c).
Proof. unfold rlog_of, proj, klog_of. cbn [rc_rlog]. rewrite <- pl_rev. apply cview_pl. Qed.
Lemma proj_calls c : ops_of (rlog_of (proj c)) = calls_of (klog_of c).
Proof. unfold rlog_of, proj, klog_of. cbn [rc_rlog]. rewrite <- pl_rev. apply calls_pl. Qed.

Lemma finished_view c o os :
  P c -> Md c -> k_k c = [] -> snd (k_eng c) o = Some os ->
  (ra_stopped os = false \/ has_term (cview o (klog_of c)) = true) ->
  cview o (klog_of c) = xview b w o false rg_init (calls_of (klog_of c)).
Proof.
  intros HP [M1 _] Hk Hm Hcase. rewrite <- proj_view, <- proj_calls. rewrite <- proj_view in Hcase.
  set (c' := proj c) in *.
  assert (Hk' : rc_k c' = []) by (unfold c', proj; cbn [rc_k]; now rewrite Hk).
  assert (Hm' : rc_obs c' o = Some os) by exact Hm.
  destruct HP as (I & HJ & HQ). fold c' in I, HJ, HQ.
  destruct (ra_stopped os) eqn:Hs.
  - destruct Hcase as [|Ht]; [discriminate|].
    apply prefix_with_terminal_is_all; [|exact Ht].
    exact (Inv_prefix sil b w c' o I).
  - destruct (inv_some _ _ _ I o os Hm') as [_ Hok]. unfold obs_ok in Hok. rewrite Hs in Hok.
    destruct Hok as [Heq _]. rewrite Hk' in Heq. cbn [inflight app] in Heq.
    assert (Hq : so_queue (r_so os) = []).
    { apply (HQ o os Hm' Hs). destruct (so_acquired (r_so os)) eqn:Ha; [|reflexivity]. exfalso.
      destruct (proj2 HJ o os Hm') as (_ & _ & Lv). destruct (Lv Hs) as [_ R].
      destruct (R Ha) as [[i Hi]|Hin].
      - unfold c', proj in Hi. cbn [rc_st] in Hi. rewrite (M1 Hk) in Hi. destruct Hi.
      - rewrite Hk' in Hin. destruct Hin. }
    rewrite Hq, app_nil_r in Heq. exact Heq.
Qed.

(* ---- the run ---- *)
Context (bs : option Z) (Hb : b = bufsize_of bs).

Lemma pk_prog top : exists n, pk (prog [RIDrain] md top) = repeat (@RIDrain A) n.
Proof.
  unfold prog.
  assert (E : pk (match md with MAuto 0 => [@KConnect A (@rinstr A) ByAuto] | _ => [] end) = []).
  { destruct md as [| |[|n]]; reflexivity. }
  rewrite pk_app, E, pk_app, pk_KS. cbn [app].
  assert (G : exists n, pk (flat_map (fun p : @cop A => KOp p :: map (@KS A (@rinstr A)) [RIDrain]) top)
                        = repeat (@RIDrain A) n).
  { induction top as [|p t [n IH]]; [exists 0; reflexivity|]. exists (S n).
    cbn [flat_map app]. rewrite pk_cons, pk_app, pk_KS, IH. reflexivity. }
  destruct G as [n ->]. exists (S n). reflexivity.
Qed.

Lemma K_drains : forall n, K b w (RCfg (rinit_state bs w) (fun _ => None) (repeat (@RIDrain A) n) []).
Proof.
  intros n. subst b.
  (* the initial configuration of a history of n advances by 0 ... simpler: check the invariant directly *)
  split; [|split].
  - constructor; cbn [rc_st rc_obs rc_k rc_rlog rinit_state r_observers].
    + pose proof (inv_st _ _ _ (Inv_init bs w (@nil (@rop A)))) as H. exact H.
    + constructor.
    + intros o [].
    + intros o _. repeat split. induction n; [reflexivity|exact IHn].
    + intros o os H. discriminate.
    + destruct n; [exact I|]. cbn [repeat clean]. intros o. induction n; [reflexivity|exact IHn].
  - split; [split; cbn; [constructor|intros i []]|]. intros o os H. discriminate.
  - intros o os H. discriminate.
Qed.

Lemma P_init top : P (kinit [RIDrain] md (replay_init bs w) top).
Proof.
  unfold P, proj, kinit, replay_init. cbn [k_eng k_k k_log fst snd pl flat_map].
  destruct (pk_prog top) as [n ->]. apply K_drains.
Qed.

Lemma Md_init top : Md (kinit [RIDrain] md (replay_init bs w) top : kcfg).
Proof.
  unfold kinit. split; cbn [k_k k_eng].
  - unfold prog. intros H. apply app_eq_nil in H. destruct H as [_ H]. discriminate.
  - intros _. unfold prog. cbn [map].
    assert (G : exists pre, [@KS A (@rinstr A) RIDrain] ++
                  flat_map (fun p : @cop A => [KOp p; KS RIDrain]) top = pre ++ [KS RIDrain]).
    { induction top as [|p t [pre IH]]; [exists []; reflexivity|].
      exists ([KS RIDrain; KOp p] ++ pre). cbn [flat_map app] in *. rewrite IH. reflexivity. }
    destruct G as [pre G].
    exists (match md with MAuto 0 => [@KConnect A (@rinstr A) ByAuto] | _ => [] end ++ pre).
    rewrite G. now rewrite app_assoc.
Qed.

Theorem reachable_P top fuel : P (runk fuel (kinit [RIDrain] md (replay_init bs w) top)).
Proof. apply krun_ind; [apply P_step|apply P_init]. Qed.
Theorem reachable_Md top fuel : Md (runk fuel (kinit [RIDrain] md (replay_init bs w) top)).
Proof. apply krun_ind; [apply Md_step|apply Md_init]. Qed.
End ReplayView.

(* P1 of the audit, for EVERY call tree: when the run is finished, a subscriber whose wrapper is
   still live, or which was stopped by a terminal notification, has received EXACTLY the C22
   entitlement computed from the calls made on the shared ReplaySubject (its own subscribe call,
   the replayed values retained at that moment, the terminal notification if the subject had ended,
   then every later notification that came through the connection) *)
Theorem multicast_view_replay {A} (bs w : option Z) (md : mode) (reach : bool) (cold : list (ev A))
        (react : nat -> nat -> list (@cop A)) (top : list (@cop A)) (fuel o : nat) (os : @rostate A) :
  let c := krun replay_exec replay_call md reach cold react fuel
                (kinit [RIDrain] md (replay_init bs w) top) in
  k_k c = [] -> snd (k_eng c) o = Some os ->
  (ra_stopped os = false \/ has_term (cview o (klog_of c)) = true) ->
  cview o (klog_of c) = xview (bufsize_of bs) w o false rg_init (calls_of (klog_of c)).
Proof.
  intros c Hk Hm Hcase.
  apply finished_view with (os := os); try assumption.
  - unfold c. apply reachable_P. reflexivity.
  - unfold c. apply reachable_Md.
Qed.

(* ... and at EVERY moment of every run what a subscriber has received is a prefix of it: nothing
   duplicated, reordered or invented by the multicast layer *)
Theorem multicast_prefix_replay {A} (bs w : option Z) (md : mode) (reach : bool) (cold : list (ev A))
        (react : nat -> nat -> list (@cop A)) (top : list (@cop A)) (fuel o : nat) :
  let c := krun replay_exec replay_call md reach cold react fuel
                (kinit [RIDrain] md (replay_init bs w) top) in
  prefix (cview o (klog_of c)) (xview (bufsize_of bs) w o false rg_init (calls_of (klog_of c))).
Proof.
  intros c.
  assert (HP : P (bufsize_of bs) w c) by (unfold c; apply reachable_P; reflexivity).
  destruct HP as [I _].
  pose proof (Inv_prefix (fun _ _ => []) (bufsize_of bs) w (proj c) o I) as H.
  unfold cx, cops in H. rewrite proj_view, proj_calls in H. exact H.
Qed.
