(* ConnectableObservable, ref_count / share, auto_connect, publish, publish_value,
   replay, multicast (C24).  Executable model, no proofs.

   A connectable observable is "a subject + a connection".  The SUBJECT is not
   re-modelled: the machine below drives the engines of Subjects/Subject.v
   (Subject, BehaviorSubject, AsyncSubject) and Subjects/Replay.v
   (ReplaySubject on a virtual-time scheduler) one instruction at a time
   through the interface [e_exec] (one instruction of the engine, executed with
   an empty continuation and an empty log: it returns the instructions it
   pushes and the events it logs), [e_call] (the instruction that calls a
   subject method) and [e_drain] (what the driver runs after every top-level
   operation).  Everything pending -- the engine's instructions, the
   connectable layer's own instructions, the operations a subscriber performs
   from inside a callback -- lives on ONE continuation stack ([k_k]); Python
   calls are synchronous and depth first.

   The SOURCE is hand driven (harness/conn.py Source): subscribe() numbers the
   subscription ([cid] = how many were made before), logs [CESSub cid], emits
   the cold prefix [cold] synchronously to the new observer and returns a
   disposable that logs [CESUnsub cid] the first time it is disposed; an
   emission goes to a snapshot of the subscriptions, skipping the disposed ones.

   Wrappers.  The engine models ONE AutoDetachObserver per subscriber, holding
   the subject's InnerSubscription.  The real chain has one more per layer
   (ConnectableObservable.subscribe; ref_count's / auto_connect's
   Observable(subscribe)); they all stop and dispose together, so they are
   collapsed into the engine's wrapper -- EXCEPT the SingleAssignmentDisposable of
   the outermost one in ref_count / auto_connect, which holds
   `Disposable(dispose)` (count -= 1 ...) and decides when that body runs
   ([outer]): at the subscriber's dispose(), at the `finally: self.dispose()`
   after a terminal notification, or -- when that happened before subscribe()
   returned -- at the assignment.  The body's first statement
   `subscription.dispose()` is the engine's disposal of the subscriber.

   The driver (harness/conn.py, mirrored here) wraps every operation in
   try/except; [CSub o] for an id used before, [CUnsub o] without handle,
   [CDisc j] without j-th handle and [CConnect] on an unreachable connectable
   (share) are skipped. *)
From RxVerif Require Import Base.Prelude Ops.Machine Subjects.Subject Subjects.Behavior Subjects.Async
  Subjects.Family Subjects.Replay.

Definition attribute_exn : Z := -7.   (* k2.LIB_ERRORS["AttributeError"] *)

Inductive mode :=
| MPlain                 (* the ConnectableObservable itself *)
| MRefCount              (* .pipe(ref_count()), and share() = publish() + ref_count() *)
| MAuto (n : nat).       (* .auto_connect(n) *)

Section Conn.
Context {A : Type}.

(* operations of a history *)
Inductive cop :=
| CSub (o : nat)          (* h[o] = obs.subscribe(LogObserver(o)) *)
| CUnsub (o : nat)        (* h[o].dispose() *)
| CConnect                (* ch.append(connectable.connect()) *)
| CDisc (j : nat)         (* ch[j].dispose() *)
| CNext (v : A)           (* the source emits *)
| CErr (e : Z)
| CDone
| CAdv (d : Z).           (* scheduler.sleep(d) (replay flavours) *)

(* the subject methods the connectable layer calls *)
Inductive sop :=
| SSub (o : nat)          (* subject.subscribe(observer of o) *)
| SUnsub (o : nat)        (* the disposable it returned .dispose() *)
| SNext (v : A) | SErr (e : Z) | SDone
| SAdv (d : Z).

Section Machine.
(* the subject engine *)
Context {E_st E_in E_op : Type}.
Inductive sev := VOp (p : E_op) | VGot (o : nat) (n : ev A) | VRaised (e : Z).
Context (e_exec : E_in -> E_st -> E_st * list E_in * list sev).   (* events oldest first *)
Context (e_call : sop -> list E_in).
Context (e_drain : list E_in).

Context (md : mode).
Context (reach : bool).                      (* the driver holds the ConnectableObservable *)
Context (cold : list (ev A)).                (* emitted by the source inside every subscribe() *)
Context (react : nat -> nat -> list cop).    (* what subscriber o does inside its k-th callback *)

Inductive cevent :=
| CEOp (p : cop)                  (* the driver starts operation p *)
| CEGot (o : nat) (n : ev A)      (* subscriber o's callback is invoked with n *)
| CERaised (e : Z)                (* the operation raised e to its caller *)
| CESSub (cid : nat)              (* the source is subscribed (its cid-th subscription) *)
| CESUnsub (cid : nat)            (* that subscription is disposed *)
| CECall (p : E_op).              (* a method of the subject is called (not observable from outside) *)

(* who called connect() *)
Inductive caller := ByDriver | ByRefCount | ByAuto.

Inductive kinstr :=
| KOp (p : cop)
| KS (i : E_in)                   (* one instruction of the subject engine *)
| KInc (o : nat)                  (* ref_count / auto_connect: subscribe(observer) starts *)
| KRet (o : nat)                  (* ... returns Disposable(dispose) *)
| KHandle (o : nat)               (* the driver stores the handle *)
| KOuter (o : nat) (unsub : bool) (* the outermost wrapper's dispose(); unsub: the body's subscription.dispose()
                                     still has to reach the subject *)
| KDec                            (* the rest of the body of dispose() *)
| KConnect (w : caller)           (* ConnectableObservable.connect() *)
| KConnRet (cid : nat) (w : caller)  (* source.subscribe(self.subject) returned *)
| KSrc (cid : nat) (n : ev A)     (* the source notifies the observer of its cid-th subscription *)
| KSrcFin (cid : nat).            (* `finally: self.dispose()` of that observer's AutoDetachObserver *)

(* one subscription of the source = one connection: the AutoDetachObserver that
   Observable.subscribe put around the subject, its SingleAssignmentDisposable,
   the source's record, and the CompositeDisposable connect() built *)
Record sconn := SConn {
  s_stopped : bool;                (* AutoDetachObserver.is_stopped *)
  s_sad_disposed : bool;           (* _subscription.is_disposed *)
  s_sad_set : bool;                (* _subscription.current is the source's disposable *)
  s_live : bool;                   (* Source: rec[1] *)
  comp_disposed : bool }.          (* CompositeDisposable.is_disposed *)
Definition fresh_sconn := SConn false false false true false.

(* reactivex/observable/connectableobservable.py __init__ (has_subscription, subscription),
   connectable/_refcount.py ref_count (count, connectable_subscription),
   auto_connect (count, is_connected), and the driver's list of connect() results *)
Record book := Book {
  has_sub : bool;
  cur : option nat;                (* self.subscription: the composite of connection cid; None = None *)
  conns : list sconn;
  count : Z;
  rc_sub : option nat;             (* connectable_subscription *)
  ac_conn : bool;                  (* is_connected[0] *)
  handles : list (option nat) }.
Definition fresh_book := Book false None [] 0 None false [].

Definition set_has (b : bool) (k : book) := Book b (cur k) (conns k) (count k) (rc_sub k) (ac_conn k) (handles k).
Definition set_cur (c : option nat) (k : book) := Book (has_sub k) c (conns k) (count k) (rc_sub k) (ac_conn k) (handles k).
Definition set_conns (l : list sconn) (k : book) := Book (has_sub k) (cur k) l (count k) (rc_sub k) (ac_conn k) (handles k).
Definition set_count (n : Z) (k : book) := Book (has_sub k) (cur k) (conns k) n (rc_sub k) (ac_conn k) (handles k).
Definition set_rc (c : option nat) (k : book) := Book (has_sub k) (cur k) (conns k) (count k) c (ac_conn k) (handles k).
Definition set_ac (b : bool) (k : book) := Book (has_sub k) (cur k) (conns k) (count k) (rc_sub k) b (handles k).
Definition set_handles (l : list (option nat)) (k : book) :=
  Book (has_sub k) (cur k) (conns k) (count k) (rc_sub k) (ac_conn k) l.

Fixpoint set_nth {X} (n : nat) (x : X) (l : list X) : list X :=
  match l, n with
  | [], _ => []
  | _ :: t, O => x :: t
  | y :: t, S n' => y :: set_nth n' x t
  end.
Definition get_conn (k : book) (cid : nat) : sconn := nth cid (conns k) fresh_sconn.
Definition put_conn (cid : nat) (c : sconn) (k : book) : book := set_conns (set_nth cid c (conns k)) k.

(* the SingleAssignmentDisposable of the outermost wrapper in ref_count / auto_connect + driver bookkeeping *)
Record outer := Outer {
  u_sad_disposed : bool;
  u_sad_set : bool;                (* subscribe() returned: Disposable(dispose) is assigned *)
  u_handle : bool;                 (* the driver holds the handle *)
  u_calls : nat }.                 (* callbacks received so far *)
Definition fresh_outer := Outer false false false 0.
Definition outmap := nat -> option outer.
Definition oupd (m : outmap) (o : nat) (x : outer) : outmap :=
  fun o' => if Nat.eqb o' o then Some x else m o'.

Record kcfg := KCfg { k_eng : E_st; k_bk : book; k_out : outmap; k_k : list kinstr; k_log : list cevent }.

(* harness/conn.py Source.subscribe.dispose *)
Definition src_dispose (cid : nat) (c : sconn) : sconn * list cevent :=
  if s_live c then (SConn (s_stopped c) (s_sad_disposed c) (s_sad_set c) false (comp_disposed c), [CESUnsub cid])
  else (c, []).

(* AutoDetachObserver.dispose of connection cid: is_stopped = True; SingleAssignmentDisposable.dispose *)
Definition sado_dispose (cid : nat) (c : sconn) : sconn * list cevent :=
  let c1 := SConn true (s_sad_disposed c) (s_sad_set c) (s_live c) (comp_disposed c) in
  if s_sad_disposed c1 then (c1, [])
  else
    let c2 := SConn true true false (s_live c1) (comp_disposed c1) in
    if s_sad_set c1 then src_dispose cid c2 else (c2, []).

(* CompositeDisposable(subscription, Disposable(dispose)).dispose() of connection cid:
   subscription = Disposable(auto_detach_observer.dispose); dispose: self.has_subscription = False *)
Definition comp_dispose (cid : nat) (k : book) : book * list cevent :=
  let c := get_conn k cid in
  if comp_disposed c then (k, [])
  else
    let c1 := SConn (s_stopped c) (s_sad_disposed c) (s_sad_set c) (s_live c) true in
    let '(c2, evs) := sado_dispose cid c1 in
    (set_has false (put_conn cid c2 k), evs).

(* bool(CompositeDisposable) = len(self.disposable) != 0: dispose() empties the list *)
Definition truthy (k : book) (c : option nat) : bool :=
  match c with Some cid => negb (comp_disposed (get_conn k cid)) | None => false end.

(* what connect() hands back to its caller *)
Definition conn_return (w : caller) (r : option nat) (k : book) : book :=
  match w with
  | ByDriver => set_handles (handles k ++ [r]) k
  | ByRefCount => set_rc r k
  | ByAuto => set_ac true k            (* connectable_subscription[0] = ...; is_connected[0] = True *)
  end.

Definition is_outer_mode : bool := match md with MPlain => false | _ => true end.

Definition kstep (c : kcfg) : kcfg :=
  match k_k c with
  | [] => c
  | i :: k =>
      let st := k_eng c in let b := k_bk c in let m := k_out c in let l := k_log c in
      match i with
      | KOp p =>
          let l := CEOp p :: l in
          match p with
          | CSub o =>
              match m o with
              | Some _ => KCfg st b m k l                                 (* driver: id already used *)
              | None =>
                  let m' := oupd m o fresh_outer in
                  match md with
                  | MPlain =>
                      (* ConnectableObservable._subscribe_core: self.subject.subscribe(observer) *)
                      KCfg st b m' (map KS (e_call (SSub o)) ++ KHandle o :: k) l
                  | _ => KCfg st b m' (KInc o :: k) l
                  end
              end
          | CUnsub o =>
              match m o with
              | Some u => if u_handle u
                          then if is_outer_mode then KCfg st b m (KOuter o true :: k) l
                               else KCfg st b m (map KS (e_call (SUnsub o)) ++ k) l
                          else KCfg st b m k l
              | None => KCfg st b m k l
              end
          | CConnect => if reach then KCfg st b m (KConnect ByDriver :: k) l else KCfg st b m k l
          | CDisc j =>
              match nth_error (handles b) j with
              | None => KCfg st b m k l
              | Some None => KCfg st b m k (CERaised attribute_exn :: l)  (* None.dispose() *)
              | Some (Some cid) => let '(b', evs) := comp_dispose cid b in KCfg st b' m k (rev evs ++ l)
              end
          | CNext v =>
              (* Source.push: for rec in list(self.recs) *)
              KCfg st b m (map (fun cid => KSrc cid (Next v)) (seq 0 (length (conns b))) ++ k) l
          | CErr e => KCfg st b m (map (fun cid => KSrc cid (Err e)) (seq 0 (length (conns b))) ++ k) l
          | CDone => KCfg st b m (map (fun cid => KSrc cid Done) (seq 0 (length (conns b))) ++ k) l
          | CAdv d => KCfg st b m (map KS (e_call (SAdv d)) ++ k) l
          end
      | KS ei =>
          let '(st', pushed, evs) := e_exec ei st in
          (* at most one callback per instruction *)
          let got := fold_left (fun acc e => match e with VGot o n => Some (o, n) | _ => acc end) evs None in
          let l' := rev (map (fun e => match e with
                                       | VOp p => CECall p | VGot o n => CEGot o n | VRaised x => CERaised x
                                       end) evs) ++ l in
          match got with
          | None => KCfg st' b m (map KS pushed ++ k) l'
          | Some (o, n) =>
              let u := match m o with Some u => u | None => fresh_outer end in
              let m' := oupd m o (Outer (u_sad_disposed u) (u_sad_set u) (u_handle u) (S (u_calls u))) in
              (* LogObserver callback: the script; then the engine's continuation (for a terminal:
                 the wrapper's `finally: self.dispose()`), then what that dispose() means one layer up *)
              KCfg st' b m'
                   (map KOp (react o (u_calls u)) ++ map KS pushed ++
                    (if is_terminal n && is_outer_mode then [KOuter o false] else []) ++ k) l'
          end
      | KInc o =>
          (* _refcount.py subscribe: count += 1; should_connect = count == 1;
             subscription = source.subscribe(observer); if should_connect: ... = source.connect(scheduler)
             connectableobservable.py auto_connect subscribe: count[0] += 1;
             should_connect = count[0] == subscriber_count and not is_connected[0]; ... *)
          let b' := set_count (count b + 1) b in
          let should := match md with
                        | MRefCount => count b' =? 1
                        | MAuto n => (count b' =? Z.of_nat n) && negb (ac_conn b')
                        | MPlain => false
                        end in
          let w := match md with MAuto _ => ByAuto | _ => ByRefCount end in
          KCfg st b' m (map KS (e_call (SSub o)) ++ (if should then [KConnect w] else []) ++ KRet o :: k) l
      | KRet o =>
          (* Observable.subscribe: auto_detach_observer.subscription = Disposable(dispose);
             SingleAssignmentDisposable.set_disposable: disposed already -> dispose it now *)
          match m o with
          | None => KCfg st b m k l
          | Some u =>
              if u_sad_disposed u
              then KCfg st b (oupd m o (Outer true false true (u_calls u))) (KDec :: k) l
              else KCfg st b (oupd m o (Outer false true true (u_calls u))) k l
          end
      | KHandle o =>
          match m o with
          | None => KCfg st b m k l
          | Some u => KCfg st b (oupd m o (Outer (u_sad_disposed u) (u_sad_set u) true (u_calls u))) k l
          end
      | KOuter o unsub =>
          (* AutoDetachObserver.dispose -> SingleAssignmentDisposable.dispose -> Disposable(dispose).dispose() *)
          match m o with
          | None => KCfg st b m k l
          | Some u =>
              if u_sad_disposed u then KCfg st b m k l
              else
                let m' := oupd m o (Outer true false (u_handle u) (u_calls u)) in
                if u_sad_set u
                then KCfg st b m' ((if unsub then map KS (e_call (SUnsub o)) else []) ++ KDec :: k) l
                else KCfg st b m' k l
          end
      | KDec =>
          match md with
          | MRefCount =>
              (* count -= 1; if not count and connectable_subscription: connectable_subscription.dispose() *)
              let b1 := set_count (count b - 1) b in
              if (count b1 =? 0) && truthy b1 (rc_sub b1)
              then match rc_sub b1 with
                   | Some cid => let '(b2, evs) := comp_dispose cid b1 in KCfg st b2 m k (rev evs ++ l)
                   | None => KCfg st b1 m k l
                   end
              else KCfg st b1 m k l
          | MAuto _ =>
              (* is_connected[0] = False   (count[0] counts arrivals: it is never decremented) *)
              KCfg st (set_ac false b) m k l
          | MPlain => KCfg st b m k l
          end
      | KConnect w =>
          (* ConnectableObservable.connect *)
          if has_sub b then KCfg st (conn_return w (cur b) b) m k l
          else
            let cid := length (conns b) in
            (* self.has_subscription = True; self.source.subscribe(self.subject): Source.subscribe *)
            let b1 := set_conns (conns b ++ [fresh_sconn]) (set_has true b) in
            KCfg st b1 m (map (KSrc cid) cold ++ KConnRet cid w :: k) (CESSub cid :: l)
      | KConnRet cid w =>
          (* auto_detach_observer.subscription = <the source's disposable>;
             self.subscription = CompositeDisposable(subscription, Disposable(dispose)); return it *)
          let c := get_conn b cid in
          let '(c1, evs) := if s_sad_disposed c then src_dispose cid c
                            else (SConn (s_stopped c) false true (s_live c) (comp_disposed c), []) in
          let b1 := set_cur (Some cid) (put_conn cid c1 b) in
          KCfg st (conn_return w (Some cid) b1) m k (rev evs ++ l)
      | KSrc cid n =>
          let c := get_conn b cid in
          if negb (s_live c) then KCfg st b m k l               (* Source.push: `if rec[1]` *)
          else if s_stopped c then KCfg st b m k l              (* AutoDetachObserver: `if self.is_stopped: return` *)
          else match n with
               | Next v => KCfg st b m (map KS (e_call (SNext v)) ++ k) l
               | Err e =>
                   let c1 := SConn true (s_sad_disposed c) (s_sad_set c) (s_live c) (comp_disposed c) in
                   KCfg st (put_conn cid c1 b) m (map KS (e_call (SErr e)) ++ KSrcFin cid :: k) l
               | Done =>
                   let c1 := SConn true (s_sad_disposed c) (s_sad_set c) (s_live c) (comp_disposed c) in
                   KCfg st (put_conn cid c1 b) m (map KS (e_call SDone) ++ KSrcFin cid :: k) l
               end
      | KSrcFin cid =>
          let '(c1, evs) := sado_dispose cid (get_conn b cid) in
          KCfg st (put_conn cid c1 b) m k (rev evs ++ l)
      end
  end.

Fixpoint krun (fuel : nat) (c : kcfg) : kcfg :=
  match fuel with
  | O => c
  | S f => match k_k c with [] => c | _ => krun f (kstep c) end
  end.

(* the driver: (auto_connect(0) connects when the observable is built), then every
   operation followed by a drain of the scheduler *)
Definition prog (top : list cop) : list kinstr :=
  (match md with MAuto O => [KConnect ByAuto] | _ => [] end) ++ map KS e_drain ++
  flat_map (fun p => KOp p :: map KS e_drain) top.

Definition kinit (st0 : E_st) (top : list cop) : kcfg :=
  KCfg st0 fresh_book (fun _ => None) (prog top) [].

Definition klog_of (c : kcfg) : list cevent := rev (k_log c).
Definition kfinished (c : kcfg) : bool := match k_k c with [] => true | _ => false end.

(* what is observable from outside: everything but the calls on the subject *)
Definition observable (l : list cevent) : list cevent :=
  filter (fun e => match e with CECall _ => false | _ => true end) l.

(* the calls made on the subject, in order *)
Definition calls_of (l : list cevent) : list E_op :=
  flat_map (fun e => match e with CECall p => [p] | _ => [] end) l.

(* what subscriber o received *)
Fixpoint cview (o : nat) (l : list cevent) : list (ev A) :=
  match l with
  | [] => []
  | CEGot o' n :: t => if Nat.eqb o' o then n :: cview o t else cview o t
  | _ :: t => cview o t
  end.

(* the source's subscription log *)
Definition src_log (l : list cevent) : list (bool * nat) :=
  flat_map (fun e => match e with CESSub c => [(true, c)] | CESUnsub c => [(false, c)] | _ => [] end) l.
End Machine.
End Conn.

Arguments CSub {A} o. Arguments CUnsub {A} o. Arguments CConnect {A}. Arguments CDisc {A} j.
Arguments CNext {A} v. Arguments CErr {A} e. Arguments CDone {A}. Arguments CAdv {A} d.
Arguments SSub {A} o. Arguments SUnsub {A} o. Arguments SNext {A} v. Arguments SErr {A} e.
Arguments SDone {A}. Arguments SAdv {A} d.

(* ---- instance 1: Subject / BehaviorSubject / AsyncSubject ------------------ *)
Section SyncEngine.
Context {A : Type} (C : @cls A).

Definition sync_st : Type := (@sstate A * @omap)%type.

Definition sync_ev (e : @event A) : @sev A (@op A) :=
  match e with EOp p => VOp p | EGot o n => VGot o n | ERaised x => VRaised x end.

(* one instruction of Subjects/Subject.v [step], observers silent (their scripts are run by [kstep]) *)
Definition sync_exec (i : @instr A) (st : sync_st) : sync_st * list (@instr A) * list (@sev A (@op A)) :=
  let c := step C (fun _ _ => []) (Cfg (fst st) (snd st) [i] []) in
  ((c_st c, c_obs c), c_k c, map sync_ev (rev (c_rlog c))).

Definition sync_call (p : @sop A) : list (@instr A) :=
  match p with
  | SSub o => [IOp (OSub o)]
  | SUnsub o => [IOp (OUnsub o)]
  | SNext v => [IOp (ONext v)]
  | SErr e => [IOp (OErr e)]
  | SDone => [IOp ODone]
  | SAdv _ => []
  end.

Definition sync_init (v0 : A) : sync_st := (init_state v0, fun _ => None).
End SyncEngine.

(* ---- instance 2: ReplaySubject on a virtual-time scheduler ------------------ *)
Section ReplayEngine.
Context {A : Type}.

Definition replay_st : Type := (@rstate A * @romap A)%type.

Definition replay_ev (e : @revent A) : @sev A (@rop A) :=
  match e with REOp p => VOp p | REGot o n => VGot o n | RERaised x => VRaised x end.

Definition replay_exec (i : @rinstr A) (st : replay_st) : replay_st * list (@rinstr A) * list (@sev A (@rop A)) :=
  let c := rstep (fun _ _ => []) (RCfg (fst st) (snd st) [i] []) in
  ((rc_st c, rc_obs c), rc_k c, map replay_ev (rev (rc_rlog c))).

Definition replay_call (p : @sop A) : list (@rinstr A) :=
  match p with
  | SSub o => [RIOp (RSub o)]
  | SUnsub o => [RIOp (RUnsub o)]
  | SNext v => [RIOp (RNext v)]
  | SErr e => [RIOp (RErr e)]
  | SDone => [RIOp RDone]
  | SAdv d => [RIOp (RAdvance d)]
  end.

Definition replay_init (bs w : option Z) : replay_st := (rinit_state bs w, fun _ => None).
End ReplayEngine.

(* ---- the operators ---------------------------------------------------------- *)
(* reactivex/operators/_multicast.py multicast(subject=...): ConnectableObservable(source, subject);
   _publish.py publish = multicast(Subject()), share = publish + ref_count;
   _publishvalue.py publish_value(v0) = multicast(BehaviorSubject(v0));
   _replay.py replay(buffer_size, window, scheduler) = multicast(ReplaySubject(...)) *)
Inductive flavour (A : Type) :=
| FSync (K : kind) (v0 : A)        (* KSubject: publish / share; KBehavior: publish_value v0; KAsync: multicast(AsyncSubject()) *)
| FReplay (bs w : option Z).
Arguments FSync {A} K v0. Arguments FReplay {A} bs w.

Definition history (A : Type) := (list (@cop A) * list (nat * list (list (@cop A))))%type.

Fixpoint creact_tbl {A} (t : list (nat * list (list (@cop A)))) (o k : nat) : list (@cop A) :=
  match t with
  | [] => []
  | (o', sc) :: r => if Nat.eqb o' o then nth k sc [] else creact_tbl r o k
  end.

(* the observable log, uniform in the flavour *)
Inductive xevent (A : Type) :=
| XOp (p : @cop A) | XGot (o : nat) (n : ev A) | XRaised (e : Z) | XSSub (cid : nat) | XSUnsub (cid : nat).
Arguments XOp {A} p. Arguments XGot {A} o n. Arguments XRaised {A} e. Arguments XSSub {A} cid.
Arguments XSUnsub {A} cid.

Definition xlog {A E_op} (l : list (@cevent A E_op)) : list (xevent A) :=
  flat_map (fun e => match e with
                     | CEOp p => [XOp p] | CEGot o n => [XGot o n] | CERaised x => [XRaised x]
                     | CESSub c => [XSSub c] | CESUnsub c => [XSUnsub c] | CECall _ => []
                     end) l.

Record config (A : Type) := Config {
  cf_flavour : flavour A; cf_mode : mode; cf_reach : bool; cf_cold : list (ev A) }.
Arguments Config {A}. Arguments cf_flavour {A}. Arguments cf_mode {A}. Arguments cf_reach {A}.
Arguments cf_cold {A}.

Definition run_config {A} (pynone : A) (cf : config A) (fuel : nat) (h : history A)
  : list (xevent A) * bool :=
  match cf_flavour cf with
  | FSync K v0 =>
      let c := krun (sync_exec (cls_of pynone K)) sync_call (cf_mode cf) (cf_reach cf) (cf_cold cf)
                    (creact_tbl (snd h)) fuel
                    (kinit [] (cf_mode cf) (sync_init v0) (fst h)) in
      (xlog (klog_of c), kfinished c)
  | FReplay bs w =>
      let c := krun replay_exec replay_call (cf_mode cf) (cf_reach cf) (cf_cold cf)
                    (creact_tbl (snd h)) fuel
                    (kinit [RIDrain] (cf_mode cf) (replay_init bs w) (fst h)) in
      (xlog (klog_of c), kfinished c)
  end.

(* ---- helpers for generated correspondence cases (A := Z) -------------------- *)
Definition cop_eqb (a b : @cop Z) : bool :=
  match a, b with
  | CSub x, CSub y | CUnsub x, CUnsub y | CDisc x, CDisc y => Nat.eqb x y
  | CNext x, CNext y | CErr x, CErr y | CAdv x, CAdv y => x =? y
  | CConnect, CConnect | CDone, CDone => true
  | _, _ => false
  end.

Definition xevent_eqb (a b : xevent Z) : bool :=
  match a, b with
  | XOp p, XOp q => cop_eqb p q
  | XGot o n, XGot o' n' => Nat.eqb o o' && evz_eqb n n'
  | XRaised e, XRaised f => e =? f
  | XSSub c, XSSub d | XSUnsub c, XSUnsub d => Nat.eqb c d
  | _, _ => false
  end.

(* ---- multicast(subject_factory=..., mapper=...) (and publish / publish_value / replay with a
        mapper).  reactivex/operators/_multicast.py: EVERY subscribe() builds its own
        ConnectableObservable on a fresh subject, subscribes the observer to mapper(connectable),
        then connects, and returns CompositeDisposable(subscription, connectable.connect()).
        Modelled for the identity mapper and histories of top-level calls: one instance of the
        plain machine per subscriber, created by `sub o` (= [CSub o; CConnect] in the instance),
        disposed by `unsub o` (= [CUnsub o; CDisc 0]); a source notification is handed to the
        instances in creation order (Source.push); the instance's source subscription gets the
        global number = its rank.  Tied to the code for the synchronous subject kinds (ReplaySubject
        instances would share one scheduler, drained once per operation). ---- *)
Section Mapper.
Context {A E_st E_in E_op : Type}.
Context (e_exec : E_in -> E_st -> E_st * list E_in * list (@sev A E_op)).
Context (e_call : @sop A -> list E_in).
Context (e_drain : list E_in).
Context (cold : list (ev A)) (st0 : E_st) (fuel : nat).
Notation kc := (@kcfg A E_st E_in E_op).

Definition feed (c : kc) (ops : list (@cop A)) : kc :=
  krun e_exec e_call MPlain true cold (fun _ _ => []) fuel
       (KCfg (k_eng c) (k_bk c) (k_out c)
             (k_k c ++ flat_map (fun p => KOp p :: map (@KS A E_in) e_drain) ops) (k_log c)).

(* what the instance logged since [old], oldest first; its own operations are not the driver's *)
Definition delta (rank : nat) (old new : kc) : list (xevent A) :=
  flat_map (fun e => match e with
                     | XOp _ => [] | XSSub _ => [XSSub rank] | XSUnsub _ => [XSUnsub rank] | x => [x]
                     end)
           (xlog (skipn (length (k_log old)) (klog_of new))).

Fixpoint mall (sel : nat -> list (@cop A)) (rank : nat) (insts : list (nat * kc))
  : list (nat * kc) * list (xevent A) :=
  match insts with
  | [] => ([], [])
  | (o, c) :: t =>
      let c' := match sel o with [] => c | ops => feed c ops end in
      let '(t', evs) := mall sel (S rank) t in
      ((o, c') :: t', delta rank c c' ++ evs)
  end.

Definition mstep (insts : list (nat * kc)) (p : @cop A) : list (nat * kc) * list (xevent A) :=
  match p with
  | CSub o =>
      if existsb (fun x => Nat.eqb (fst x) o) insts then (insts, [])
      else let c0 := KCfg st0 fresh_book (fun _ => None) [] [] in
           let c1 := feed c0 [CSub o; CConnect] in
           (insts ++ [(o, c1)], delta (length insts) c0 c1)
  | CUnsub o => mall (fun o' => if Nat.eqb o' o then [CUnsub o; CDisc 0] else []) 0 insts
  | CConnect | CDisc _ => (insts, [])          (* the connectables are not reachable from outside *)
  | _ => mall (fun _ => [p]) 0 insts
  end.

Fixpoint mrun (insts : list (nat * kc)) (top : list (@cop A)) : list (nat * kc) * list (xevent A) :=
  match top with
  | [] => (insts, [])
  | p :: t => let '(i1, e1) := mstep insts p in
              let '(i2, e2) := mrun i1 t in (i2, XOp p :: e1 ++ e2)
  end.
End Mapper.

Definition run_mapper {A} (pynone : A) (fl : flavour A) (cold : list (ev A)) (fuel : nat) (top : list (@cop A))
  : list (xevent A) * bool :=
  match fl with
  | FSync K v0 =>
      let '(insts, evs) := mrun (sync_exec (cls_of pynone K)) sync_call [] cold (sync_init v0) fuel [] top in
      (evs, forallb (fun x => kfinished (snd x)) insts)
  | FReplay bs w =>
      let '(insts, evs) := mrun replay_exec replay_call [RIDrain] cold (replay_init bs w) fuel [] top in
      (evs, forallb (fun x => kfinished (snd x)) insts)
  end.
