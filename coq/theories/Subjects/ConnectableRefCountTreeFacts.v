(* C24: ref_count / share on CALL TREES.  ConnectableCountFacts proves the counting invariants for
   histories of top-level calls (the continuation is body ++ mid ++ tail).  Here the subscribers
   may call back into ref_count from inside their callbacks (subscribe, unsubscribe, make the source
   emit -- re-entrantly, while a subscribe() or a connect() further down the stack is still in
   progress); only manual connect() / dispose of the connection next to the operator stay
   excluded.  The continuation is then an arbitrary stack of suspended frames; what is kept is
     - structure: every pending connect() (and every pending return of source.subscribe) is
       immediately followed by the pending return of the subscribe() that made it ([wf]);
     - counting: count = armed subscribers + subscribe() in progress + dispose() in progress;
     - connection: connected  <=>  count > 0 and no connect() is pending
   (on a history of top-level calls the pending connect() sits in the one subscribe() in progress,
   whose count is 1: the formula of the flat theorem; on trees the count may already be larger). *)
From RxVerif Require Import Base.Prelude Ops.Machine Subjects.Subject Subjects.Behavior Subjects.Async
  Subjects.Family Subjects.Replay Subjects.Connectable Subjects.ConnectableFacts Subjects.ConnectableCountFacts.
Require Import Lia.
Local Open Scope nat_scope.

Section RcTree.
Context {A E_st E_in E_op : Type}.
Context (e_exec : E_in -> E_st -> E_st * list E_in * list (@sev A E_op)).
Context (e_call : @sop A -> list E_in).
Context (reach : bool) (cold : list (ev A)) (react : nat -> nat -> list (@cop A)).
Context (Hreact : forall o k, Forall nomanual (react o k)).
Notation kinstr := (@kinstr A E_in).
Notation kcfg := (@kcfg A E_st E_in E_op).
Notation stepk := (kstep e_exec e_call MRefCount reach cold react).
Notation runk := (krun e_exec e_call MRefCount reach cold react).

(* ---- census of the continuation ---- *)
Definition connrets (k : list kinstr) : list nat :=
  flat_map (fun i => match i with KConnRet cid _ => [cid] | _ => [] end) k.
Definition pendsubs (k : list kinstr) : list nat :=
  flat_map (fun i => match i with KInc o | KRet o => [o] | _ => [] end) k.

Lemma connrets_app k1 k2 : connrets (k1 ++ k2) = connrets k1 ++ connrets k2.
Proof. apply flat_map_app. Qed.
Lemma pendsubs_app k1 k2 : pendsubs (k1 ++ k2) = pendsubs k1 ++ pendsubs k2.
Proof. apply flat_map_app. Qed.
Lemma nret_app (k1 k2 : list kinstr) : nret (k1 ++ k2) = nret k1 + nret k2.
Proof. apply count_app. Qed.
Lemma nconnect_app (k1 k2 : list kinstr) : nconnect (k1 ++ k2) = nconnect k1 + nconnect k2.
Proof. apply count_app. Qed.
Lemma nret_cons i (k : list kinstr) : nret (i :: k) = (match i with KRet _ => 1 | _ => 0 end) + nret k.
Proof. unfold nret. cbn [filter]. destruct i; reflexivity. Qed.
Lemma ndec_cons i (k : list kinstr) : ndec (i :: k) = (match i with KDec => 1 | _ => 0 end) + ndec k.
Proof. unfold ndec. cbn [filter]. destruct i; reflexivity. Qed.
Lemma nconnect_cons i (k : list kinstr) : nconnect (i :: k) = (match i with KConnect _ => 1 | _ => 0 end) + nconnect k.
Proof. unfold nconnect. cbn [filter]. destruct i; reflexivity. Qed.
Lemma connrets_cons i (k : list kinstr) :
  connrets (i :: k) = (match i with KConnRet cid _ => [cid] | _ => [] end) ++ connrets k.
Proof. reflexivity. Qed.
Lemma pendsubs_cons i (k : list kinstr) :
  pendsubs (i :: k) = (match i with KInc o | KRet o => [o] | _ => [] end) ++ pendsubs k.
Proof. reflexivity. Qed.
Lemma nret_nil : nret (@nil kinstr) = 0. Proof. reflexivity. Qed.
Lemma ndec_nil : ndec (@nil kinstr) = 0. Proof. reflexivity. Qed.
Lemma nconnect_nil : nconnect (@nil kinstr) = 0. Proof. reflexivity. Qed.
Lemma connrets_nil : connrets [] = []. Proof. reflexivity. Qed.
Lemma pendsubs_nil : pendsubs [] = []. Proof. reflexivity. Qed.
Ltac census := rewrite ?nret_cons, ?ndec_cons, ?nconnect_cons, ?connrets_cons, ?pendsubs_cons,
                       ?nret_nil, ?ndec_nil, ?nconnect_nil, ?connrets_nil, ?pendsubs_nil; cbn [app plus length].
Ltac census_all := rewrite ?nret_cons, ?ndec_cons, ?nconnect_cons, ?connrets_cons, ?pendsubs_cons,
                       ?nret_nil, ?ndec_nil, ?nconnect_nil, ?connrets_nil, ?pendsubs_nil in *; cbn [app plus length] in *.

(* instructions that are neither a subscribe()/dispose()/connect() in progress nor a manual operation *)
Definition neutral (i : kinstr) : Prop :=
  match i with
  | KS _ | KSrc _ _ | KSrcFin _ | KHandle _ | KOuter _ _ => True
  | KOp p => nomanual p
  | _ => False
  end.

Lemma neutral_census p : Forall neutral p ->
  nret p = 0 /\ ndec p = 0 /\ nconnect p = 0 /\ connrets p = [] /\ pendsubs p = [].
Proof.
  induction 1 as [|i p Hi _ IH]; [repeat split|].
  destruct IH as (I1 & I2 & I3 & I4 & I5).
  destruct i; try contradiction; cbn in *; repeat split; assumption.
Qed.

Lemma neutral_KS l : Forall neutral (map (@KS A E_in) l).
Proof. induction l; constructor; cbn; auto. Qed.
Lemma neutral_KSrc cid l : Forall neutral (map (@KSrc A E_in cid) l).
Proof. induction l; constructor; cbn; auto. Qed.
Lemma neutral_srcs n l : Forall neutral (map (fun cid => @KSrc A E_in cid n) l).
Proof. induction l; constructor; cbn; auto. Qed.
Lemma neutral_KOp l : Forall nomanual l -> Forall neutral (map (@KOp A E_in) l).
Proof. induction 1; constructor; cbn; auto. Qed.

(* ---- the structure of the stack ---- *)
Fixpoint wf (k : list kinstr) : Prop :=
  match k with
  | [] => True
  | KConnect w :: r => w = ByRefCount /\ (exists o r', r = KRet o :: r') /\ wf r
  | KConnRet _ w :: r => w = ByRefCount /\ (exists o r', r = KRet o :: r') /\ wf r
  | KOp p :: r => nomanual p /\ wf r
  | _ :: r => wf r
  end.

Lemma wf_tail i k : wf (i :: k) -> wf k.
Proof. destruct i; cbn; tauto. Qed.
Lemma wf_neutral_app p k : Forall neutral p -> wf k -> wf (p ++ k).
Proof.
  induction 1 as [|i p Hi _ IH]; intros Hk; [exact Hk|].
  destruct i; try contradiction; cbn [app wf]; auto.
Qed.

(* every pending connect / return of source.subscribe has its own pending KRet behind it *)
Lemma wf_census k : wf k ->
  nconnect k + length (connrets k) <= nret k /\
  match k with KRet _ :: _ => nconnect k + length (connrets k) + 1 <= nret k | _ => True end.
Proof.
  induction k as [|i k IH]; intros H; [cbn; auto|].
  pose proof (IH (wf_tail i k H)) as [I1 I2].
  destruct i; cbn [wf] in H; cbn [nconnect nret connrets flat_map filter length app] in *;
    fold (nconnect k) (nret k) (connrets k) in *; try (split; [lia|exact I]).
  - split; lia.
  - destruct H as (_ & (o & r' & ->) & _). cbn [length] in *. split; [lia|exact I].
  - destruct H as (_ & (o & r' & ->) & _). cbn [length] in *. split; [lia|exact I].
Qed.

(* ---- the invariant ---- *)
Record TI (b : book) (m : outmap) (k : list kinstr) (L : list nat) : Prop := {
  t_wf : wf k;
  t_nodup : NoDup L;
  t_dom : dom m L;
  t_flag : forall o, oflag m o = true -> In o L;
  t_count : count b = Z.of_nat (nact m L + nret k + ndec k);
  t_one : nconnect k + length (connrets k) <= 1;
  t_has : has_sub b = (0 <? count b)%Z && (nconnect k =? 0);
  t_truthy : has_sub b = true -> connrets k = [] ->
             exists cid, rc_sub b = Some cid /\ comp_disposed (get_conn b cid) = false;
  t_pend : forall cid, In cid (connrets k) -> comp_disposed (get_conn b cid) = false;
  t_psnd : NoDup (pendsubs k);
  t_ps : forall o, In o (pendsubs k) -> In o L /\ oflag m o = false }.

Definition TIc (c : kcfg) : Prop := exists L, TI (k_bk c) (k_out c) (k_k c) L.

(* a step that touches neither the counters nor the armed flags *)
Lemma TI_frame b m i k L b' m' pushed :
  TI b m (i :: k) L -> neutral i -> Forall neutral pushed -> bsame b b' ->
  (forall o, oflag m' o = oflag m o) -> dom m' L -> TI b' m' (pushed ++ k) L.
Proof.
  intros [h1 h2 h3 h4 h5 h6 h7 h8 h9 h10 h11] Hi Hp [B1 [B2 [B3 [B4 B5]]]] Hf Hdom.
  destruct (neutral_census [i] (Forall_cons _ Hi (Forall_nil _))) as (C1 & C2 & C3 & C4 & C5).
  destruct (neutral_census pushed Hp) as (D1 & D2 & D3 & D4 & D5).
  change (i :: k) with ([i] ++ k) in *.
  rewrite ?nret_app, ?ndec_app, ?nconnect_app, ?connrets_app, ?pendsubs_app, ?C1, ?C2, ?C3, ?C4, ?C5 in *.
  cbn [app plus] in *.
  assert (Hn : nact m' L = nact m L) by (unfold nact; f_equal; apply filter_ext; exact Hf).
  constructor; rewrite ?nret_app, ?ndec_app, ?nconnect_app, ?connrets_app, ?pendsubs_app, ?D1, ?D2, ?D3, ?D4, ?D5;
    cbn [app plus]; rewrite ?B1, ?B2, ?B3, ?Hn; try assumption.
  - apply wf_neutral_app; [exact Hp|]. apply (wf_tail i k h1).
  - intros o Ho. apply h4. now rewrite <- Hf.
  - intros G1 G2. destruct (h8 G1 G2) as [cid [G3 G4]]. exists cid. now rewrite B5.
  - intros cid Hc. rewrite B5. apply h9. exact Hc.
  - intros o Ho. rewrite Hf. apply h11. exact Ho.
Qed.

Theorem TI_step c : TIc c -> TIc (stepk c).
Proof.
  destruct c as [st b m k l]. intros [L H]. cbn [k_k k_bk k_out] in H. unfold TIc, kstep. cbn [k_k k_bk k_log k_out k_eng].
  destruct k as [|i k]; [exists L; exact H|].
  destruct i as [p|ei|o|o|o|o u| |w|cid w|cid n|cid].
  - (* KOp *)
    pose proof (t_wf _ _ _ _ H) as Hwf. cbn [wf] in Hwf. destruct Hwf as [Hnm Hwf].
    destruct p as [o|o| |j|v|e| |d]; try contradiction.
    + (* CSub *)
      destruct (m o) as [u0|] eqn:Em; cbn [k_k k_bk k_out].
      { exists L. change k with ([] ++ k). eapply TI_frame; [exact H|exact I|constructor|apply bsame_refl|reflexivity|exact (t_dom _ _ _ _ H)]. }
      exists (L ++ [o]).
      destruct H as [h1 h2 h3 h4 h5 h6 h7 h8 h9 h10 h11].
      assert (Hno : ~ In o L) by (intros G; apply (h3 o G); exact Em).
      assert (Hf0 : oflag (oupd m o fresh_outer) o = false) by (rewrite oflag_upd_same; reflexivity).
      census_all.
      constructor; census; cbn [wf]; try assumption.
      * apply NoDup_snoc; assumption.
      * apply dom_upd_new. exact h3.
      * intros x Hx. destruct (Nat.eq_dec x o) as [->|N]; [congruence|].
        rewrite oflag_upd_other in Hx by exact N. apply in_or_app. left. auto.
      * rewrite nact_app, Hf0, nact_notin by exact Hno. rewrite h5. f_equal. lia.
      * constructor; [|exact h10]. intros G. apply Hno. apply (h11 o G).
      * intros x [<-|Hx]; [split; [apply in_or_app; right; left; reflexivity|exact Hf0]|].
        destruct (h11 x Hx) as [G1 G2]. split; [apply in_or_app; left; exact G1|].
        rewrite oflag_upd_other; [exact G2|]. intros ->. contradiction.
    + (* CUnsub *)
      destruct (m o) as [u0|]; [|exists L; change k with ([] ++ k); eapply TI_frame; [exact H|exact I|constructor|apply bsame_refl|reflexivity|exact (t_dom _ _ _ _ H)]].
      destruct (u_handle u0); cbn [is_outer_mode];
        [|exists L; change k with ([] ++ k); eapply TI_frame; [exact H|exact I|constructor|apply bsame_refl|reflexivity|exact (t_dom _ _ _ _ H)]].
      exists L. change (KOuter o true :: k) with ([KOuter o true] ++ k).
      eapply TI_frame; [exact H|exact I|repeat constructor|apply bsame_refl|reflexivity|exact (t_dom _ _ _ _ H)].
    + exists L. eapply TI_frame; [exact H|exact I|apply neutral_srcs|apply bsame_refl|reflexivity|exact (t_dom _ _ _ _ H)].
    + exists L. eapply TI_frame; [exact H|exact I|apply neutral_srcs|apply bsame_refl|reflexivity|exact (t_dom _ _ _ _ H)].
    + exists L. eapply TI_frame; [exact H|exact I|apply neutral_srcs|apply bsame_refl|reflexivity|exact (t_dom _ _ _ _ H)].
    + exists L. eapply TI_frame; [exact H|exact I|apply neutral_KS|apply bsame_refl|reflexivity|exact (t_dom _ _ _ _ H)].
  - (* KS *)
    destruct (e_exec ei st) as [[st' pushed] evs].
    destruct (fold_left _ evs None) as [[o n]|]; cbn [k_k k_bk k_out]; exists L.
    + rewrite !app_assoc. eapply TI_frame; [exact H|exact I| |apply bsame_refl| |apply dom_upd; exact (t_dom _ _ _ _ H)].
      * apply Forall_app. split; [apply Forall_app; split; [apply neutral_KOp; apply Hreact|apply neutral_KS]|].
        destruct (is_terminal n && is_outer_mode MRefCount); repeat constructor.
      * apply oflag_calls. reflexivity.
    + eapply TI_frame; [exact H|exact I|apply neutral_KS|apply bsame_refl|reflexivity|exact (t_dom _ _ _ _ H)].
  - (* KInc *)
    exists L. destruct H as [h1 h2 h3 h4 h5 h6 h7 h8 h9 h10 h11].
    census_all. cbn [wf] in *.
    destruct (wf_census k h1) as [W1 _].
    cbn [count set_count k_k k_bk k_out].
    destruct (neutral_census _ (neutral_KS (e_call (SSub o)))) as (C1 & C2 & C3 & C4 & C5).
    destruct (Z.eqb_spec (count b + 1) 1) as [E|E].
    + (* 0 -> 1: the connect is pushed *)
      assert (E0 : count b = 0%Z) by lia.
      assert (Z0 : nact m L = 0 /\ nret k = 0 /\ ndec k = 0) by lia. destruct Z0 as (Z1 & Z2 & Z3).
      assert (Z4 : nconnect k = 0 /\ connrets k = []) by (split; [lia|destruct (connrets k); [reflexivity|cbn in W1; lia]]).
      destruct Z4 as [Z4 Z5].
      constructor; cbn [has_sub count rc_sub set_count];
        rewrite ?nret_app, ?ndec_app, ?nconnect_app, ?connrets_app, ?pendsubs_app, ?C1, ?C2, ?C3, ?C4, ?C5;
        census; try assumption.
      * apply wf_neutral_app; [apply neutral_KS|]. cbn [app wf]. split; [reflexivity|]. split; [eauto|exact h1].
      * lia.
      * rewrite Z4, Z5. cbn. lia.
      * rewrite h7, E0. cbn. reflexivity.
    + assert (Hpos : (0 < count b)%Z) by lia.
      constructor; cbn [has_sub count rc_sub set_count];
        rewrite ?nret_app, ?ndec_app, ?nconnect_app, ?connrets_app, ?pendsubs_app, ?C1, ?C2, ?C3, ?C4, ?C5;
        census; try assumption.
      * apply wf_neutral_app; [apply neutral_KS|]. cbn [app wf]. exact h1.
      * rewrite h5. lia.
      * rewrite h7. f_equal. destruct (Z.ltb_spec 0 (count b)), (Z.ltb_spec 0 (count b + 1)); try reflexivity; lia.
  - (* KRet *)
    destruct H as [h1 h2 h3 h4 h5 h6 h7 h8 h9 h10 h11].
    census_all. cbn [wf] in *.
    destruct (h11 o (or_introl eq_refl)) as [HoL Hof].
    inversion h10 as [|? ? Hnp Hnd]; subst.
    destruct (m o) as [u0|] eqn:Em; [|exfalso; exact (h3 o HoL Em)].
    assert (Hflag0 : oflag m o = false) by exact Hof.
    destruct (u_sad_disposed u0); cbn [k_k k_bk k_out]; exists L.
    + (* disposed before subscribe() returned: the body of dispose() runs now *)
      pose proof (nact_upd m o (Outer true false true (u_calls u0)) L h2 HoL) as Hn.
      rewrite Hflag0 in Hn. cbn [u_sad_set] in Hn.
      constructor; census; cbn [wf]; try assumption.
      * apply dom_upd. exact h3.
      * intros x Hx. destruct (Nat.eq_dec x o) as [->|N]; [rewrite oflag_upd_same in Hx; discriminate|].
        rewrite oflag_upd_other in Hx by exact N. auto.
      * rewrite h5. f_equal. lia.
      * intros x Hx. destruct (h11 x (or_intror Hx)) as [G1 G2]. split; [exact G1|].
        rewrite oflag_upd_other; [exact G2|]. intros ->. contradiction.
    + (* armed *)
      pose proof (nact_upd m o (Outer false true true (u_calls u0)) L h2 HoL) as Hn.
      rewrite Hflag0 in Hn. cbn [u_sad_set] in Hn.
      constructor; census; cbn [wf]; try assumption.
      * apply dom_upd. exact h3.
      * intros x Hx. destruct (Nat.eq_dec x o) as [->|N]; [exact HoL|].
        rewrite oflag_upd_other in Hx by exact N. auto.
      * rewrite h5. f_equal. lia.
      * intros x Hx. destruct (h11 x (or_intror Hx)) as [G1 G2]. split; [exact G1|].
        rewrite oflag_upd_other; [exact G2|]. intros ->. contradiction.
  - (* KHandle *)
    destruct (m o) as [u0|] eqn:Em; cbn [k_k k_bk k_out]; exists L; change k with ([] ++ k).
    + eapply TI_frame; [exact H|exact I|constructor|apply bsame_refl| |apply dom_upd; exact (t_dom _ _ _ _ H)].
      intros y. destruct (Nat.eq_dec y o) as [->|N]; [|now apply oflag_upd_other].
      rewrite oflag_upd_same. cbn. unfold oflag. now rewrite Em.
    + eapply TI_frame; [exact H|exact I|constructor|apply bsame_refl|reflexivity|exact (t_dom _ _ _ _ H)].
  - (* KOuter *)
    assert (Hsame : TI b m k L).
    { change k with ([] ++ k). eapply TI_frame; [exact H|exact I|constructor|apply bsame_refl|reflexivity|exact (t_dom _ _ _ _ H)]. }
    destruct (m o) as [u0|] eqn:Em; [|exists L; exact Hsame].
    destruct (u_sad_disposed u0) eqn:Ed; [exists L; exact Hsame|].
    destruct (u_sad_set u0) eqn:Es; cbn [k_k k_bk k_out]; exists L.
    + (* armed: the body of dispose() will run *)
      assert (Hf : oflag m o = true) by (unfold oflag; now rewrite Em).
      destruct H as [h1 h2 h3 h4 h5 h6 h7 h8 h9 h10 h11].
      pose proof (h4 o Hf) as Hin.
      pose proof (nact_upd m o (Outer true false (u_handle u0) (u_calls u0)) L h2 Hin) as Hn.
      rewrite Hf in Hn. cbn [u_sad_set] in Hn.
      census_all. cbn [wf] in *.
      assert (Hpre : Forall neutral (if u then map (@KS A E_in) (e_call (SUnsub o)) else []))
        by (destruct u; [apply neutral_KS|constructor]).
      destruct (neutral_census _ Hpre) as (C1 & C2 & C3 & C4 & C5).
      constructor; rewrite ?nret_app, ?ndec_app, ?nconnect_app, ?connrets_app, ?pendsubs_app, ?C1, ?C2, ?C3, ?C4, ?C5;
        census; cbn [wf]; try assumption.
      * apply wf_neutral_app; [exact Hpre|]. cbn [wf]. exact h1.
      * apply dom_upd. exact h3.
      * intros y Hy. destruct (Nat.eq_dec y o) as [->|N]; [rewrite oflag_upd_same in Hy; discriminate|].
        rewrite oflag_upd_other in Hy by exact N. auto.
      * rewrite h5. f_equal. lia.
      * intros x Hx. destruct (h11 x Hx) as [G1 G2]. split; [exact G1|].
        rewrite oflag_upd_other; [exact G2|]. intros ->. congruence.
    + (* not armed yet (subscribe() has not returned): only marked *)
      change k with ([] ++ k). eapply TI_frame; [exact H|exact I|constructor|apply bsame_refl| |apply dom_upd; exact (t_dom _ _ _ _ H)].
      intros y. destruct (Nat.eq_dec y o) as [->|N]; [|now apply oflag_upd_other].
      rewrite oflag_upd_same. cbn. unfold oflag. now rewrite Em, Es.
  - (* KDec *)
    exists L. destruct H as [h1 h2 h3 h4 h5 h6 h7 h8 h9 h10 h11].
    census_all. cbn [wf] in *.
    destruct (wf_census k h1) as [W1 _].
    cbn [count rc_sub set_count].
    destruct (Z.eqb_spec (count b - 1) 0) as [E0|E0].
    + (* the last subscriber leaves *)
      assert (Z0 : nact m L = 0 /\ nret k = 0 /\ ndec k = 0) by lia. destruct Z0 as (Z1 & Z2 & Z3).
      assert (Z4 : nconnect k = 0 /\ connrets k = []) by (split; [lia|destruct (connrets k); [reflexivity|cbn in W1; lia]]).
      destruct Z4 as [Z4 Z5].
      assert (Hht : has_sub b = true).
      { rewrite h7, Z4. replace (count b) with 1%Z by lia. reflexivity. }
      destruct (h8 Hht Z5) as [cid [Hr Hcd]].
      unfold truthy. rewrite Hr.
      change (get_conn (set_count (count b - 1) b) cid) with (get_conn b cid). rewrite Hcd. cbn [negb andb].
      assert (Hcd' : comp_disposed (get_conn (set_count (count b - 1) b) cid) = false) by exact Hcd.
      destruct (comp_dispose_fields (A:=A) (E_op:=E_op) cid (set_count (count b - 1) b) Hcd') as [F1 [F2 F3]].
      destruct (Connectable.comp_dispose cid (set_count (count b - 1) b)) as [b2 evs]. cbn [fst] in F1, F2, F3.
      cbn [k_k k_bk k_out].
      constructor; try assumption.
      * rewrite F2. cbn [count set_count]. lia.
      * rewrite F1, F2. cbn [count set_count]. rewrite E0. reflexivity.
      * rewrite F1. discriminate.
      * rewrite Z5. intros x [].
    + assert (Hpos : (0 < count b - 1)%Z) by lia.
      cbn [andb k_k k_bk k_out].
      constructor; cbn [has_sub count rc_sub set_count]; try assumption.
      * rewrite h5. lia.
      * rewrite h7. f_equal. destruct (Z.ltb_spec 0 (count b)), (Z.ltb_spec 0 (count b - 1)); try reflexivity; lia.
  - (* KConnect *)
    exists L. destruct H as [h1 h2 h3 h4 h5 h6 h7 h8 h9 h10 h11].
    census_all. cbn [wf] in *.
    destruct h1 as (Hw & (o & r' & Hk) & h1).
    assert (Hhs : has_sub b = false) by (rewrite h7; cbn; apply Bool.andb_false_r).
    rewrite Hhs. cbn [k_k k_bk k_out].
    assert (Z4 : nconnect k = 0 /\ connrets k = []) by (split; [lia|destruct (connrets k); [reflexivity|cbn in h6; lia]]).
    destruct Z4 as [Z4 Z5].
    destruct (neutral_census _ (neutral_KSrc (length (conns b)) cold)) as (C1 & C2 & C3 & C4 & C5).
    assert (Hpos : (0 < count b)%Z) by (rewrite h5, Hk; cbn [nret filter length]; lia).
    constructor; cbn [has_sub count rc_sub set_conns set_has];
      rewrite ?nret_app, ?ndec_app, ?nconnect_app, ?connrets_app, ?pendsubs_app, ?C1, ?C2, ?C3, ?C4, ?C5;
      census; cbn [wf]; try assumption.
    + apply wf_neutral_app; [apply neutral_KSrc|]. cbn [wf]. split; [exact Hw|]. split; [eauto|exact h1].
    + rewrite Z4, Z5. cbn. lia.
    + rewrite Z4. destruct (Z.ltb_spec 0 (count b)); [reflexivity|lia].
    + discriminate.
    + rewrite Z5. intros x [<-|[]].
      change (length (conns b)) with (blen b).
      change (get_conn (set_conns (conns b ++ [fresh_sconn]) (set_has true b)) (blen b))
        with (get_conn (set_conns (conns (set_has true b) ++ [fresh_sconn]) (set_has true b)) (blen (set_has true b))).
      rewrite get_conn_app_new. reflexivity.
  - (* KConnRet *)
    exists L. destruct H as [h1 h2 h3 h4 h5 h6 h7 h8 h9 h10 h11].
    census_all. cbn [wf] in *.
    destruct h1 as (Hw & (o & r' & Hk) & h1). subst w.
    assert (Z4 : nconnect k = 0 /\ connrets k = []) by (split; [lia|destruct (connrets k); [reflexivity|cbn in h6; lia]]).
    destruct Z4 as [Z4 Z5].
    pose proof (h9 cid (or_introl eq_refl)) as Hcd.
    set (c0 := get_conn b cid) in *.
    assert (Hc1 : comp_disposed (fst (if s_sad_disposed c0 then src_dispose (A:=A) (E_op:=E_op) cid c0
                                      else (SConn (s_stopped c0) false true (s_live c0) (comp_disposed c0), []))) = false).
    { destruct (s_sad_disposed c0); [|exact Hcd]. unfold src_dispose. destruct (s_live c0); exact Hcd. }
    destruct (if s_sad_disposed c0 then src_dispose cid c0
              else (SConn (s_stopped c0) false true (s_live c0) (comp_disposed c0), [])) as [c1 evs].
    cbn [fst] in Hc1. cbn [k_k k_bk k_out conn_return].
    assert (Hg : forall x, comp_disposed (get_conn (put_conn cid c1 b) x) = comp_disposed (get_conn b x)).
    { intros x. rewrite get_put. destruct (Nat.eqb x cid && (cid <? blen b)) eqn:E; [|reflexivity].
      apply andb_prop in E. destruct E as [E _]. apply Nat.eqb_eq in E. subst x. fold c0. congruence. }
    constructor; cbn [has_sub count rc_sub set_rc set_cur put_conn set_conns]; try assumption.
    + lia.
    + intros _ _. exists cid. split; [reflexivity|].
      change (get_conn (set_rc (Some cid) (set_cur (Some cid) (put_conn cid c1 b))) cid)
        with (get_conn (put_conn cid c1 b) cid). rewrite Hg. exact Hcd.
    + rewrite Z5. intros x [].
  - (* KSrc *)
    destruct (negb (s_live (get_conn b cid))); [|destruct (s_stopped (get_conn b cid))]; cbn [k_k k_bk k_out].
    + exists L. change k with ([] ++ k). eapply TI_frame; [exact H|exact I|constructor|apply bsame_refl|reflexivity|exact (t_dom _ _ _ _ H)].
    + exists L. change k with ([] ++ k). eapply TI_frame; [exact H|exact I|constructor|apply bsame_refl|reflexivity|exact (t_dom _ _ _ _ H)].
    + destruct n as [v|e|]; cbn [k_k k_bk k_out]; exists L.
      * eapply TI_frame; [exact H|exact I|apply neutral_KS|apply bsame_refl|reflexivity|exact (t_dom _ _ _ _ H)].
      * change (map KS (e_call (SErr e)) ++ KSrcFin cid :: k) with (map KS (e_call (SErr e)) ++ [KSrcFin cid] ++ k).
        rewrite app_assoc. eapply TI_frame; [exact H|exact I| |apply bsame_put; reflexivity|reflexivity|exact (t_dom _ _ _ _ H)].
        apply Forall_app. split; [apply neutral_KS|repeat constructor].
      * change (map KS (e_call SDone) ++ KSrcFin cid :: k) with (map KS (e_call SDone) ++ [KSrcFin cid] ++ k).
        rewrite app_assoc. eapply TI_frame; [exact H|exact I| |apply bsame_put; reflexivity|reflexivity|exact (t_dom _ _ _ _ H)].
        apply Forall_app. split; [apply neutral_KS|repeat constructor].
  - (* KSrcFin *)
    pose proof (comp_sado (A:=A) (E_op:=E_op) cid (get_conn b cid)) as G.
    destruct (sado_dispose cid (get_conn b cid)) as [c1 evs]. cbn [fst] in G. cbn [k_k k_bk k_out].
    exists L. change k with ([] ++ k).
    eapply TI_frame; [exact H|exact I|constructor|apply bsame_put; exact G|reflexivity|exact (t_dom _ _ _ _ H)].
Qed.

(* ---- the driver's program ---- *)
Context (e_drain : list E_in).

Lemma neutral_prog top : Forall nomanual top -> Forall neutral (prog e_drain MRefCount top).
Proof.
  intros H. unfold prog. cbn [app]. apply Forall_app. split; [apply neutral_KS|].
  induction H as [|p t Hp _ IH]; [constructor|]. cbn [flat_map]. constructor; [exact Hp|].
  apply Forall_app. split; [apply neutral_KS|exact IH].
Qed.

Lemma TI_init st0 top : Forall nomanual top -> TIc (kinit e_drain MRefCount st0 top : kcfg).
Proof.
  intros H. exists []. unfold kinit. cbn [k_bk k_out k_k].
  pose proof (neutral_prog top H) as Hn.
  destruct (neutral_census _ Hn) as (C1 & C2 & C3 & C4 & C5).
  assert (Hwf : wf (prog e_drain MRefCount top)).
  { rewrite <- (app_nil_r (prog e_drain MRefCount top)). apply wf_neutral_app; [exact Hn|exact I]. }
  constructor; rewrite ?C1, ?C2, ?C3, ?C4, ?C5; try exact Hwf.
  - constructor.
  - intros o [].
  - intros o Ho. unfold oflag in Ho. discriminate.
  - reflexivity.
  - cbn. lia.
  - reflexivity.
  - intros G. discriminate.
  - intros cid [].
  - constructor.
  - intros o [].
Qed.

Theorem TI_reachable st0 top fuel :
  Forall nomanual top -> TIc (runk fuel (kinit e_drain MRefCount st0 top)).
Proof. intros H. apply krun_ind; [apply TI_step|apply TI_init; exact H]. Qed.

(* ---- C24, ref_count / share on call trees ---- *)

(* connected  <=>  the subscriber count is positive and no connect() is pending *)
Theorem rc_tree_connected_iff st0 top fuel :
  Forall nomanual top ->
  let c := runk fuel (kinit e_drain MRefCount st0 top) in
  has_sub (k_bk c) = (0 <? count (k_bk c))%Z && (nconnect (k_k c) =? 0).
Proof. intros H c. destruct (TI_reachable st0 top fuel H) as [L HT]. exact (t_has _ _ _ _ HT). Qed.

(* the count is the number of subscribers whose dispose has not run yet *)
Theorem rc_tree_count_is_subscribers st0 top fuel :
  Forall nomanual top ->
  let c := runk fuel (kinit e_drain MRefCount st0 top) in
  exists L, NoDup L /\ (forall o, oflag (k_out c) o = true -> In o L) /\
            count (k_bk c) = Z.of_nat (nact (k_out c) L + nret (k_k c) + ndec (k_k c)).
Proof.
  intros H c. destruct (TI_reachable st0 top fuel H) as [L HT]. exists L.
  split; [exact (t_nodup _ _ _ _ HT)|]. split; [exact (t_flag _ _ _ _ HT)|exact (t_count _ _ _ _ HT)].
Qed.

(* at most one connect() is in progress at any time; it belongs to the subscribe() that found the
   count at 0, finds the connectable disconnected (so it subscribes the source), and the count it
   sees is at least 1 (exactly 1 on a history of top-level calls) *)
Theorem rc_tree_connect_at_first_subscriber st0 top fuel w k :
  Forall nomanual top ->
  let c := runk fuel (kinit e_drain MRefCount st0 top) in
  k_k c = KConnect w :: k ->
  w = ByRefCount /\ has_sub (k_bk c) = false /\ (1 <= count (k_bk c))%Z /\ nconnect k = 0.
Proof.
  intros H c Hk. destruct (TI_reachable st0 top fuel H) as [L HT]. fold c in HT. rewrite Hk in HT.
  destruct HT as [h1 h2 h3 h4 h5 h6 h7 h8 h9 h10 h11].
  census_all. cbn [wf] in *.
  destruct h1 as (Hw & (o & r' & Hr) & _). split; [exact Hw|]. split; [rewrite h7; apply Bool.andb_false_r|].
  split; [rewrite h5, Hr; cbn [nret filter length]; lia|lia].
Qed.

(* the subscribe() that pushes the connect is the one that moves the count from 0 to 1, and
   there the connectable is disconnected with no connect pending: "connects on the first" *)
Theorem rc_tree_first_subscriber_connects st0 top fuel o k :
  Forall nomanual top ->
  let c := runk fuel (kinit e_drain MRefCount st0 top) in
  k_k c = KInc o :: k ->
  (count (k_bk c) = 0%Z <-> has_sub (k_bk c) = false /\ nconnect k = 0) /\
  (count (k_bk c) = 0%Z -> nconnect (k_k (stepk c)) = 1 /\ count (k_bk (stepk c)) = 1%Z) /\
  (count (k_bk c) <> 0%Z -> nconnect (k_k (stepk c)) = nconnect k).
Proof.
  intros H c Hk. destruct (TI_reachable st0 top fuel H) as [L HT]. fold c in HT.
  destruct c as [st b m k0 l]. cbn [k_k k_bk] in *. subst k0.
  destruct HT as [h1 h2 h3 h4 h5 h6 h7 h8 h9 h10 h11].
  census_all. cbn [wf] in *.
  destruct (wf_census k h1) as [W1 _].
  destruct (neutral_census _ (neutral_KS (e_call (SSub o)))) as (C1 & C2 & C3 & C4 & C5).
  split; [|split].
  - split.
    + intros E. rewrite h7, E. split; [reflexivity|lia].
    + intros [G1 G2]. rewrite h7, G2 in G1. cbn in G1. rewrite Bool.andb_true_r in G1.
      destruct (Z.ltb_spec 0 (count b)); [discriminate|lia].
  - intros E. unfold kstep. cbn [k_k k_bk k_log k_out k_eng count set_count]. rewrite E. cbn [Z.add Z.eqb Pos.eqb].
    rewrite nconnect_app, C3. cbn [app nconnect filter length]. fold (nconnect k). split; [lia|reflexivity].
  - intros E. unfold kstep. cbn [k_k k_bk k_log k_out k_eng count set_count].
    destruct (Z.eqb_spec (count b + 1) 1); [lia|]. rewrite nconnect_app, C3. reflexivity.
Qed.

(* "disconnects on the last": when dispose() moves the count from 1 to 0 the connection is
   disposed in that very step *)
Theorem rc_tree_last_subscriber_disconnects st0 top fuel k :
  Forall nomanual top ->
  let c := runk fuel (kinit e_drain MRefCount st0 top) in
  k_k c = KDec :: k ->
  (count (k_bk c) = 1%Z ->
     has_sub (k_bk c) = true /\ has_sub (k_bk (stepk c)) = false /\ count (k_bk (stepk c)) = 0%Z) /\
  (count (k_bk c) <> 1%Z ->
     has_sub (k_bk (stepk c)) = has_sub (k_bk c) /\ (0 < count (k_bk (stepk c)))%Z).
Proof.
  intros H c Hk. pose proof (TI_reachable st0 top fuel H) as HT. fold c in HT.
  pose proof (TI_step c HT) as [L' HT'].
  destruct HT as [L HT]. rewrite Hk in HT.
  pose proof (t_has _ _ _ _ HT') as Hh'. pose proof (t_count _ _ _ _ HT') as Hc'.
  destruct HT as [h1 h2 h3 h4 h5 h6 h7 h8 h9 h10 h11].
  census_all. cbn [wf] in *.
  destruct (wf_census k h1) as [W1 _].
  assert (Hcnt : count (k_bk (stepk c)) = (count (k_bk c) - 1)%Z).
  { destruct c as [st b m k0 l]. cbn [k_k k_bk] in *. subst k0. unfold kstep. cbn [k_k k_bk k_log k_out k_eng].
    destruct ((count (set_count (count b - 1) b) =? 0)%Z && truthy (set_count (count b - 1) b) (rc_sub (set_count (count b - 1) b))) eqn:E;
      [|reflexivity].
    destruct (rc_sub (set_count (count b - 1) b)) as [cid|] eqn:Er; [|reflexivity].
    unfold truthy in E. apply andb_prop in E. destruct E as [_ E].
    apply Bool.negb_true_iff in E.
    destruct (comp_dispose_fields (A:=A) (E_op:=E_op) cid _ E) as [_ [F2 _]].
    destruct (Connectable.comp_dispose cid (set_count (count b - 1) b)) as [b2 evs]. cbn [k_bk fst] in *. exact F2. }
  assert (Hnc : nconnect (k_k (stepk c)) = nconnect k).
  { destruct c as [st b m k0 l]. cbn [k_k k_bk] in *. subst k0. unfold kstep. cbn [k_k k_bk k_log k_out k_eng].
    destruct ((count (set_count (count b - 1) b) =? 0)%Z && truthy (set_count (count b - 1) b) (rc_sub (set_count (count b - 1) b)));
      [|reflexivity].
    destruct (rc_sub (set_count (count b - 1) b)) as [cid|]; [|reflexivity].
    destruct (Connectable.comp_dispose cid (set_count (count b - 1) b)). reflexivity. }
  assert (Hpos : (1 <= count (k_bk c))%Z) by lia.
  split.
  - intros E. assert (Hn0 : nconnect k = 0) by lia.
    split; [rewrite h7, Hn0, E; reflexivity|]. rewrite Hh', Hcnt, E. split; reflexivity.
  - intros E. rewrite Hh', Hcnt, Hnc, h7. split; [|lia]. f_equal.
    destruct (Z.ltb_spec 0 (count (k_bk c) - 1)), (Z.ltb_spec 0 (count (k_bk c))); try reflexivity; lia.
Qed.

(* run-level corollaries in terms of the source's own log *)
Theorem rc_tree_no_subscriber_no_source_subscription st0 top fuel :
  Forall nomanual top ->
  let c := runk fuel (kinit e_drain MRefCount st0 top) in
  count (k_bk c) = 0%Z -> src_state (src_log (klog_of c)) = Some None.
Proof.
  intros H c E. pose proof (rc_tree_connected_iff st0 top fuel H) as G. cbv zeta in G. fold c in G.
  apply (no_source_subscription_while_disconnected e_exec e_call MRefCount reach cold react e_drain st0 top fuel).
  fold c. rewrite G, E. reflexivity.
Qed.
End RcTree.
