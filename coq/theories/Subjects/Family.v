(* The three synchronous subject classes as one family, and the ABSTRACT
   broadcast specification they are proved to refine on histories of top-level
   calls (Subjects/FamilyFacts.v).  Definitions only.

   The specification never mentions wrappers, disposables or flags:
     [g_step]  how a call changes the subject's status (live / ended / disposed,
               last value) -- independent of who is subscribed;
     [greet]   what a NEW subscriber receives inside subscribe();
     [bcast]   what each CURRENT subscriber receives from a call;
     [spec]    the whole log: every call, in call order, answered to the
               current subscribers in subscription order;
     [oview]   the same seen by one observer: it is [Before] its subscribe call,
               [Active] until it unsubscribes / the subject ends or is disposed,
               then [Gone] for good. *)
From RxVerif Require Import Base.Prelude Ops.Machine Subjects.Subject Subjects.Behavior Subjects.Async.

Inductive kind := KSubject | KBehavior | KAsync.

Definition cls_of {A} (pynone : A) (K : kind) : @cls A :=
  match K with
  | KSubject => subject_cls
  | KBehavior => behavior_cls pynone
  | KAsync => async_cls pynone
  end.

Section Spec.
Context {A : Type}.

Inductive status := Live | Ended (t : ev A) | Disposed.

Record gstate := G { g_status : status; g_cur : A; g_has : bool }.

Definition live (g : gstate) : bool := match g_status g with Live => true | _ => false end.

Definition g_step (g : gstate) (p : @op A) : gstate :=
  match p with
  | ODispose => G Disposed (g_cur g) (g_has g)
  | ONext v => if live g then G Live v true else g
  | OErr e => if live g then G (Ended (Err e)) (g_cur g) (g_has g) else g
  | ODone => if live g then G (Ended Done) (g_cur g) (g_has g) else g
  | _ => g
  end.

(* the last value followed by completion (AsyncSubject) *)
Definition final (g : gstate) : list (ev A) :=
  if g_has g then [Next (g_cur g); Done] else [Done].

Definition greet (K : kind) (g : gstate) : list (ev A) :=
  match g_status g with
  | Disposed => [Err disposed_exn]
  | Ended Done => match K with KAsync => final g | _ => [Done] end
  | Ended t => [t]
  | Live => match K with KBehavior => [Next (g_cur g)] | _ => [] end
  end.

Definition bcast (K : kind) (g : gstate) (p : @op A) : list (ev A) :=
  if live g then
    match p with
    | ONext v => match K with KAsync => [] | _ => [Next v] end
    | OErr e => [Err e]
    | ODone => match K with KAsync => final g | _ => [Done] end
    | _ => []
    end
  else [].

Definition is_emission (p : @op A) : bool :=
  match p with ONext _ | OErr _ | ODone => true | _ => false end.

(* ---- the global specification ---- *)
Record abs := Abs { ab_subs : list nat; ab_used : list nat; ab_g : gstate }.

Definition spec_op (K : kind) (a : abs) (p : @op A) : abs * list (@event A) :=
  let g := ab_g a in
  let g' := g_step g p in
  match p with
  | OSub o =>
      if mem o (ab_used a) then (a, [])
      else (Abs (if live g then ab_subs a ++ [o] else ab_subs a) (o :: ab_used a) g,
            map (EGot o) (greet K g))
  | OUnsub o => (Abs (remove1 o (ab_subs a)) (ab_used a) g, [])
  | ODispose => (Abs [] (ab_used a) g', [])
  | _ =>
      (Abs (if live g' then ab_subs a else []) (ab_used a) g',
       (match g_status g with Disposed => [ERaised disposed_exn] | _ => [] end) ++
       flat_map (fun o => map (EGot o) (bcast K g p)) (ab_subs a))
  end.

Fixpoint spec_from (K : kind) (a : abs) (h : list (@op A)) : list (@event A) :=
  match h with
  | [] => []
  | p :: t => let '(a', out) := spec_op K a p in EOp p :: out ++ spec_from K a' t
  end.

Definition g_init (v0 : A) : gstate := G Live v0 false.
Definition spec (K : kind) (v0 : A) (h : list (@op A)) : list (@event A) :=
  spec_from K (Abs [] [] (g_init v0)) h.

(* ---- the same, seen by one observer ---- *)
Inductive phase := Before | Active | Gone.

Fixpoint oview (K : kind) (o : nat) (ph : phase) (g : gstate) (h : list (@op A)) : list (ev A) :=
  match h with
  | [] => []
  | p :: t =>
      let g' := g_step g p in
      match ph with
      | Gone => []
      | Before =>
          match p with
          | OSub o' => if Nat.eqb o' o then greet K g ++ oview K o (if live g then Active else Gone) g' t
                       else oview K o Before g' t
          | _ => oview K o Before g' t
          end
      | Active =>
          match p with
          | OUnsub o' => if Nat.eqb o' o then [] else oview K o Active g' t
          | _ => bcast K g p ++ (if live g' then oview K o Active g' t else [])
          end
      end
  end.
End Spec.
