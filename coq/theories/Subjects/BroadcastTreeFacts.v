(* C20 / C21 on ARBITRARY call trees: who receives WHICH NOTIFICATIONS (values, the greeting of a
   BehaviorSubject, terminal notifications), for Subject and BehaviorSubject at once.

   [tree_entitled K v0 o log] interprets the chronological log of calls (made by the driver or from
   inside any callback) with the functions of the abstract specification Subjects/Family.v:
     - the FIRST subscribe call of o is answered with [greet K g] where g is the subject's status
       after the calls logged before it (BehaviorSubject, live: the latest value; ended: the
       terminal notification; disposed: DisposedException);
     - every later call p is answered with [bcast K g p] (on_next v: [Next v] while live; the first
       on_error / on_completed on a live subject: the terminal; everything else: nothing).
   Unsubscription is deliberately NOT part of the entitlement.  At every moment of every run
        received ++ about to be handed to o's wrapper ++ dropped
   is a PERMUTATION of the entitlement; nothing is dropped while o's wrapper is live, and no
   TERMINAL notification is ever dropped unless an unsubscribe call for o was made. *)
From RxVerif Require Import Base.Prelude Ops.Machine Subjects.Subject Subjects.Behavior Subjects.Family
  Subjects.SubjectFacts Subjects.FamilyFacts Subjects.AsyncTreeFacts Subjects.SubjectTreeFacts.
Require Import Permutation Lia.

Section BroadcastTree.
Context {A : Type} (pynone : A) (K : kind) (HK : K <> KAsync).
Context (react : nat -> nat -> list (@op A)) (v0 : A).
Notation C := (cls_of pynone K).
Notation event := (@event A).
Notation is_sub_of := (@SubjectTreeFacts.is_sub_of A).
Notation is_end_op := (@SubjectTreeFacts.is_end_op A).

(* ---- the subject's abstract status after the calls of a log ---- *)
Fixpoint gev (g : @gstate A) (log : list event) : gstate :=      (* chronological *)
  match log with
  | [] => g
  | EOp p :: t => gev (g_step g p) t
  | _ :: t => gev g t
  end.

Fixpoint gof (l : list event) : @gstate A :=                     (* newest first *)
  match l with
  | [] => g_init v0
  | EOp p :: t => g_step (gof t) p
  | _ :: t => gof t
  end.

(* ---- the specification, on the chronological log ---- *)
Definition answer (o : nat) (sn : bool) (g : @gstate A) (p : @op A) : list (ev A) :=
  match p with
  | OSub o' => if Nat.eqb o' o && negb sn then greet K g else []
  | _ => if sn then bcast K g p else []
  end.

Fixpoint tent_from (o : nat) (sn : bool) (g : @gstate A) (log : list event) : list (ev A) :=
  match log with
  | [] => []
  | EOp p :: t => answer o sn g p ++ tent_from o (sn || is_sub_of o p) (g_step g p) t
  | _ :: t => tent_from o sn g t
  end.
Definition tree_entitled (o : nat) (log : list event) : list (ev A) := tent_from o false (g_init v0) log.

(* ---- the same on the machine's newest-first log ---- *)
Definition tentc (o : nat) (e : event) (t : list event) : list (ev A) :=
  match e with EOp p => answer o (seen o t) (gof t) p | _ => [] end.
Fixpoint tentl (o : nat) (l : list event) : list (ev A) :=
  match l with [] => [] | e :: t => tentl o t ++ tentc o e t end.

Definition rcvc (o : nat) (e : event) : list (ev A) :=
  match e with EGot o' n => if Nat.eqb o' o then [n] else [] | _ => [] end.
Fixpoint rcv (o : nat) (l : list event) : list (ev A) :=
  match l with [] => [] | e :: t => rcv o t ++ rcvc o e end.

Definition pdv (o : nat) (i : @instr A) : list (ev A) :=
  match i with IDeliver o' n => if Nat.eqb o' o then [n] else [] | _ => [] end.
Definition pend (o : nat) (k : list (@instr A)) : list (ev A) := flat_map (pdv o) k.

Definition unsub_ev (o : nat) (e : event) : bool := match e with EOp (OUnsub o') => Nat.eqb o' o | _ => false end.
Definition unsubbed (o : nat) (l : list event) : bool := existsb (unsub_ev o) l.

(* ---- conversions ---- *)
Lemma gev_app : forall a g b, gev g (a ++ b) = gev (gev g a) b.
Proof. induction a as [|x a IH]; intros g b; [reflexivity|]. destruct x; cbn [app gev]; apply IH. Qed.

Lemma gof_gev l : gof l = gev (g_init v0) (rev l).
Proof.
  induction l as [|e t IH]; [reflexivity|]. cbn [rev]. rewrite gev_app, <- IH.
  destruct e; reflexivity.
Qed.

Lemma tent_from_snoc o : forall a sn g e,
  tent_from o sn g (a ++ [e]) =
  tent_from o sn g a ++
  match e with EOp p => answer o (sn || existsb (sub_ev o) a) (gev g a) p | _ => [] end.
Proof.
  induction a as [|x a IH]; intros sn g e.
  - cbn [app tent_from existsb gev]. rewrite orb_false_r. destruct e; cbn [tent_from]; now rewrite ?app_nil_r.
  - cbn [app tent_from]. destruct x as [p|o' n|x]; cbn [existsb sub_ev gev].
    + rewrite IH, app_assoc. f_equal. destruct e as [q| |]; try reflexivity. now rewrite !orb_assoc.
    + rewrite IH. reflexivity.
    + rewrite IH. reflexivity.
Qed.

Lemma tentl_entitled o l : tentl o l = tree_entitled o (rev l).
Proof.
  unfold tree_entitled. induction l as [|e t IH]; [reflexivity|].
  cbn [tentl rev]. rewrite tent_from_snoc, <- IH. f_equal. unfold tentc, seen.
  rewrite existsb_rev, <- gof_gev. destruct e; reflexivity.
Qed.

Lemma rcv_view o l : rcv o l = view o (rev l).
Proof.
  induction l as [|e t IH]; [reflexivity|]. cbn [rcv rev]. rewrite view_app, <- IH. f_equal.
Qed.

Lemma pend_app o k1 k2 : pend o (k1 ++ k2) = pend o k1 ++ pend o k2.
Proof. unfold pend. apply flat_map_app. Qed.
Lemma pend_ops o (l : list (@op A)) : pend o (map IOp l) = [].
Proof. induction l; cbn; auto. Qed.

Lemma pend_snapshot_in o (n : ev A) : forall L, NoDup L -> In o L ->
  pend o (map (fun o' => IDeliver o' n) L) = [n].
Proof.
  induction L as [|x L IH]; intros Hn Hi; [destruct Hi|]. inversion Hn as [|? ? Hx Hn']; subst.
  cbn [map pend flat_map pdv]. fold (pend o (map (fun o' => IDeliver o' n) L)).
  destruct Hi as [->|Hi].
  - rewrite Nat.eqb_refl. cbn [app]. f_equal.
    clear IH Hn. induction L as [|y L IH2]; [reflexivity|]. cbn [map pend flat_map pdv].
    destruct (Nat.eqb y o) eqn:E; [apply Nat.eqb_eq in E; subst; exfalso; apply Hx; left; reflexivity|].
    cbn [app]. apply IH2; [intros H; apply Hx; right; exact H|inversion Hn'; assumption].
  - destruct (Nat.eqb x o) eqn:E; [apply Nat.eqb_eq in E; subst; contradiction|]. cbn [app]. apply IH; assumption.
Qed.
Lemma pend_snapshot_out o (n : ev A) : forall L, ~ In o L -> pend o (map (fun o' => IDeliver o' n) L) = [].
Proof.
  induction L as [|x L IH]; intros Hi; [reflexivity|]. cbn [map pend flat_map pdv].
  destruct (Nat.eqb x o) eqn:E; [apply Nat.eqb_eq in E; subst; exfalso; apply Hi; left; reflexivity|].
  cbn [app]. apply IH. intros H. apply Hi. right. exact H.
Qed.
Lemma pend_greet_same o (G : list (ev A)) : pend o (map (IDeliver o) G) = G.
Proof. induction G as [|n G IH]; [reflexivity|]. cbn [map pend flat_map pdv]. rewrite Nat.eqb_refl. cbn [app]. f_equal. exact IH. Qed.
Lemma pend_greet_other o o' (G : list (ev A)) : o' <> o -> pend o (map (IDeliver o') G) = [].
Proof.
  intros H. induction G as [|n G IH]; [reflexivity|]. cbn [map pend flat_map pdv].
  destruct (Nat.eqb o' o) eqn:E; [apply Nat.eqb_eq in E; contradiction|exact IH].
Qed.

Lemma seen_false_tentl o l : seen o l = false -> tentl o l = [].
Proof.
  induction l as [|e t IH]; intros H; [reflexivity|]. cbn [seen existsb] in H. apply orb_false_iff in H.
  destruct H as [He H]. cbn [tentl]. rewrite (IH H). fold (seen o t) in H. unfold tentc.
  destruct e as [p| |]; try reflexivity. rewrite H. destruct p; cbn [answer]; try reflexivity.
  cbn [sub_ev SubjectTreeFacts.is_sub_of] in He. now rewrite He.
Qed.

(* ---- status facts ---- *)
Lemma live_status (g : @gstate A) : live g = match g_status g with Live => true | _ => false end.
Proof. reflexivity. Qed.

Lemma g_step_live (g : @gstate A) p : live (g_step g p) = live g && negb (is_end_op p).
Proof. destruct g as [st cu ha]. destruct st, p; reflexivity. Qed.

(* ---- invariant 1: the subject's flags, exception and value mirror the abstract status of the log ---- *)
Definition AbsAt (s : @sstate A) (g : @gstate A) : Prop :=
  match g_status g with
  | Live => is_stopped s = false /\ is_disposed s = false /\ exception s = None /\
            (K = KBehavior -> value s = g_cur g)
  | Ended t => is_stopped s = true /\ is_disposed s = false /\
               ((exists e, t = Err e /\ exception s = Some e) \/ (t = Done /\ exception s = None))
  | Disposed => is_stopped s = true /\ is_disposed s = true
  end.
Definition AbsInv (c : @cfg A) : Prop := AbsAt (c_st c) (gof (c_rlog c)).

Definition same4 (s s' : @sstate A) : Prop :=
  is_stopped s' = is_stopped s /\ is_disposed s' = is_disposed s /\ exception s' = exception s /\ value s' = value s.

Lemma abs_same4 s s' g : AbsAt s g -> same4 s s' -> AbsAt s' g.
Proof. unfold AbsAt, same4. intros H (E1 & E2 & E3 & E4). rewrite E1, E2, E3, E4. exact H. Qed.

Lemma same4_refl s : same4 s s.
Proof. repeat split. Qed.

Lemma same4_cases (s s' : @sstate A) L : (s' = s \/ s' = set_observers L s) -> same4 s s'.
Proof. intros [->| ->]; repeat split. Qed.

Lemma sad_set_cases sb (s : @sstate A) os o :
  fst (sad_set sb s os o) = s \/ fst (sad_set sb s os o) = set_observers (remove1 o (observers s)) s.
Proof.
  unfold sad_set. destruct (sad_disposed os); [|now left].
  destruct sb; cbn [sub_dispose]; [apply inner_dispose_cases|now left].
Qed.

Lemma subscribe_same4 (s : @sstate A) o s' is sub : c_subscribe C s o = Some (s', is, sub) -> same4 s s'.
Proof.
  destruct K; cbn; unfold subj_subscribe, beh_subscribe, Async.async_subscribe;
    destruct (is_disposed s); try discriminate; destruct (negb (is_stopped s));
    try (intros [= <- _ _]; repeat split);
    destruct (exception s); try destruct (has_value s); intros [= <- _ _]; repeat split.
Qed.

(* what _subscribe_core hands to the new observer is the specification's greeting *)
Lemma subscribe_greets (s : @sstate A) g o :
  AbsAt s g ->
  match c_subscribe C s o with
  | Some (_, is, _) => g_status g <> Disposed /\ is = map (IDeliver o) (greet K g)
  | None => g_status g = Disposed
  end.
Proof.
  unfold AbsAt, greet. destruct K; [| |congruence]; cbn [cls_of c_subscribe subject_cls behavior_cls];
    unfold subj_subscribe, beh_subscribe; destruct (g_status g) as [|t|].
  all: try (intros (-> & -> & H3 & H4); cbn [negb]; split; [discriminate|]; try reflexivity;
            rewrite (H4 eq_refl); reflexivity).
  all: try (intros (-> & -> & [(e & -> & ->)|[-> ->]]); cbn [negb]; split; try discriminate; reflexivity).
  all: intros (-> & ->); reflexivity.
Qed.

Lemma abs_stopped s g : AbsAt s g -> is_stopped s = negb (live g).
Proof. unfold AbsAt, live. destruct (g_status g); intros H; cbn; tauto. Qed.
Lemma abs_disposed s g : AbsAt s g -> is_disposed s = true -> g_status g = Disposed.
Proof. unfold AbsAt. destruct (g_status g); intros H D; try reflexivity; destruct H as (_ & H & _); congruence. Qed.
Lemma abs_disposed_live s g : AbsAt s g -> is_disposed s = true -> live g = false.
Proof. intros H D. unfold live. now rewrite (abs_disposed s g H D). Qed.

Lemma abs_step c : AbsInv c -> AbsInv (step C react c).
Proof.
  destruct c as [s m k l]. unfold AbsInv. cbn [c_st c_rlog]. intros H.
  unfold step. cbn [c_k c_st c_obs c_rlog]. destruct k as [|i k]; [exact H|].
  destruct i as [p|o n|o|o sub].
  - unfold step_op. destruct p as [o|o|v|e| |].
    + destruct (m o); [exact H|].
      destruct (c_subscribe C s o) as [[[s' is] sub]|] eqn:Es; cbn [c_st c_rlog gof g_step].
      * exact (abs_same4 _ _ _ H (subscribe_same4 _ _ _ _ _ Es)).
      * exact H.
    + destruct (m o) as [os|]; [|exact H]. destruct (handle os); [|exact H].
      destruct (ado_dispose_cases s os o) as [Hs _]. destruct (ado_dispose s os o) as [s' os']. cbn [fst] in Hs.
      cbn [c_st c_rlog gof g_step]. exact (abs_same4 _ _ _ H (same4_cases _ _ _ Hs)).
    + pose proof (abs_stopped _ _ H) as Hst.
      destruct (is_disposed s) eqn:D.
      { cbn [c_st c_rlog gof]. rewrite g_step_dead; [exact H|exact (abs_disposed_live _ _ H D)|discriminate]. }
      destruct (is_stopped s) eqn:St.
      { cbn [c_st c_rlog gof]. rewrite g_step_dead; [exact H| |discriminate]. now destruct (live (gof l)). }
      assert (Hl : live (gof l) = true) by now destruct (live (gof l)).
      destruct (c_next C s v) as [s' is] eqn:En. cbn [c_st c_rlog gof g_step]. rewrite Hl.
      unfold AbsAt in H |- *. unfold live in Hl. destruct (g_status (gof l)); try discriminate Hl. cbn [g_status g_cur].
      destruct H as (H1 & H2 & H3 & H4).
      destruct K; [| |congruence]; cbn in En; injection En as <- <-; cbn; repeat split; auto; discriminate.
    + pose proof (abs_stopped _ _ H) as Hst.
      destruct (is_disposed s) eqn:D.
      { cbn [c_st c_rlog gof]. rewrite g_step_dead; [exact H|exact (abs_disposed_live _ _ H D)|discriminate]. }
      destruct (is_stopped s) eqn:St.
      { cbn [c_st c_rlog gof]. rewrite g_step_dead; [exact H| |discriminate]. now destruct (live (gof l)). }
      assert (Hl : live (gof l) = true) by now destruct (live (gof l)).
      destruct (c_error C (set_stopped true s) e) as [s' is] eqn:En. cbn [c_st c_rlog gof g_step]. rewrite Hl.
      unfold AbsAt. cbn [g_status].
      assert (s' = set_exception (Some e) (set_observers [] (set_stopped true s))) as -> by (destruct K; cbn in En; now injection En as <- <-).
      cbn. split; [reflexivity|]. split; [exact D|]. left. exists e. split; reflexivity.
    + pose proof (abs_stopped _ _ H) as Hst.
      destruct (is_disposed s) eqn:D.
      { cbn [c_st c_rlog gof]. rewrite g_step_dead; [exact H|exact (abs_disposed_live _ _ H D)|discriminate]. }
      destruct (is_stopped s) eqn:St.
      { cbn [c_st c_rlog gof]. rewrite g_step_dead; [exact H| |discriminate]. now destruct (live (gof l)). }
      assert (Hl : live (gof l) = true) by now destruct (live (gof l)).
      destruct (c_completed C (set_stopped true s)) as [s' is] eqn:En. cbn [c_st c_rlog gof g_step]. rewrite Hl.
      unfold AbsAt in H |- *. unfold live in Hl. destruct (g_status (gof l)); try discriminate Hl. cbn [g_status].
      destruct H as (H1 & H2 & H3 & H4).
      assert (s' = set_observers [] (set_stopped true s)) as ->
        by (destruct K; [| |congruence]; cbn in En; now injection En as <- <-).
      cbn. split; [reflexivity|]. split; [exact D|]. right. split; [reflexivity|exact H3].
    + cbn [c_st c_rlog gof g_step]. unfold AbsAt. cbn [g_status]. destruct K; cbn; split; reflexivity.
  - destruct (m o) as [os|]; [|exact H]. destruct (a_stopped os); [exact H|]. destruct n; exact H.
  - destruct (m o) as [os|]; [|exact H].
    destruct (ado_dispose_cases s os o) as [Hs _]. destruct (ado_dispose s os o) as [s' os']. cbn [fst] in Hs.
    cbn [c_st c_rlog]. exact (abs_same4 _ _ _ H (same4_cases _ _ _ Hs)).
  - destruct (m o) as [os|]; [|exact H]. destruct sub as [sb|]; [|exact H].
    pose proof (sad_set_cases sb s os o) as Hs. destruct (sad_set sb s os o) as [s' os']. cbn [fst] in Hs.
    cbn [c_st c_rlog]. exact (abs_same4 _ _ _ H (same4_cases _ _ _ Hs)).
Qed.

Lemma abs_init top : AbsInv (init_cfg v0 top).
Proof. unfold AbsInv, AbsAt. cbn. repeat split. Qed.

(* ---- invariant 2: an observer id is in the table iff its subscribe call is in the log ---- *)
Lemma dom_stepK c : DomInv c -> DomInv (step C react c).
Proof.
  destruct c as [s m k l]. intros HD.
  unfold step. cbn [c_k c_st c_obs c_rlog]. destruct k as [|i k]; [exact HD|].
  assert (Hupd : forall o os x s' k' pre, m o = Some os -> (forall o', existsb (sub_ev o') pre = false) ->
                 DomInv (Cfg s' (upd m o x) k' (pre ++ l))).
  { intros o os x s' k' pre Hm Hp. apply (dom_same s m (i :: k) l); [exact HD| |exact Hp].
    intros o'. apply (upd_none_iff react). congruence. }
  assert (Hid : forall s' k' pre, (forall o', existsb (sub_ev o') pre = false) -> DomInv (Cfg s' m k' (pre ++ l))).
  { intros s' k' pre Hp. apply (dom_same s m (i :: k) l); [exact HD|tauto|exact Hp]. }
  destruct i as [p|o n|o|o sub].
  - unfold step_op. destruct p as [o|o|v|e| |].
    + destruct (m o) as [os|] eqn:Em.
      { intros o'. cbn [c_obs c_rlog seen existsb sub_ev SubjectTreeFacts.is_sub_of]. destruct (Nat.eqb o o') eqn:E; cbn [orb]; [|exact (HD o')].
        apply Nat.eqb_eq in E. subst o'. rewrite Em. split; discriminate. }
      destruct (c_subscribe C s o) as [[[s' is] sub]|].
      * apply (dom_new s m (IOp (OSub o) :: k) l _ _ [EOp (OSub o)]); [exact HD|exact Em|].
        intros o'. cbn. now rewrite orb_false_r.
      * apply (dom_new s m (IOp (OSub o) :: k) l _ _ [EGot o (Err disposed_exn); EOp (OSub o)]); [exact HD|exact Em|].
        intros o'. cbn. now rewrite orb_false_r.
    + destruct (m o) as [os|] eqn:Em; [|apply (Hid _ _ [EOp (OUnsub o)]); reflexivity].
      destruct (handle os); [|apply (Hid _ _ [EOp (OUnsub o)]); reflexivity].
      destruct (ado_dispose s os o) as [s' os']. apply (Hupd o os os' _ _ [EOp (OUnsub o)] Em); reflexivity.
    + destruct (is_disposed s); [apply (Hid _ _ [ERaised disposed_exn; EOp (ONext v)]); reflexivity|].
      destruct (is_stopped s); [apply (Hid _ _ [EOp (ONext v)]); reflexivity|].
      destruct (c_next C s v) as [s' is]. apply (Hid _ _ [EOp (ONext v)]); reflexivity.
    + destruct (is_disposed s); [apply (Hid _ _ [ERaised disposed_exn; EOp (OErr e)]); reflexivity|].
      destruct (is_stopped s); [apply (Hid _ _ [EOp (OErr e)]); reflexivity|].
      destruct (c_error C (set_stopped true s) e) as [s' is]. apply (Hid _ _ [EOp (OErr e)]); reflexivity.
    + destruct (is_disposed s); [apply (Hid _ _ [ERaised disposed_exn; EOp ODone]); reflexivity|].
      destruct (is_stopped s); [apply (Hid _ _ [EOp ODone]); reflexivity|].
      destruct (c_completed C (set_stopped true s)) as [s' is]. apply (Hid _ _ [EOp ODone]); reflexivity.
    + apply (Hid _ _ [EOp ODispose]); reflexivity.
  - destruct (m o) as [os|] eqn:Em; [|apply (Hid _ _ []); reflexivity].
    destruct (a_stopped os); [apply (Hid _ _ []); reflexivity|].
    destruct n; [apply (Hupd o os _ _ _ [EGot o (Next a)] Em)|apply (Hupd o os _ _ _ [EGot o (Err e)] Em)
                |apply (Hupd o os _ _ _ [EGot o Done] Em)]; reflexivity.
  - destruct (m o) as [os|] eqn:Em; [|apply (Hid _ _ []); reflexivity].
    destruct (ado_dispose s os o) as [s' os']. apply (Hupd o os os' _ _ [] Em); reflexivity.
  - destruct (m o) as [os|] eqn:Em; [|apply (Hid _ _ []); reflexivity].
    destruct sub as [sb|]; [|apply (Hupd o os _ _ _ [] Em); reflexivity].
    destruct (sad_set sb s os o) as [s' os']. apply (Hupd o os _ _ _ [] Em); reflexivity.
Qed.

(* ---- the instructions the class methods push ---- *)
Lemma next_instrs (s : @sstate A) v : snd (c_next C s v) = map (fun o => IDeliver o (Next v)) (observers s).
Proof. destruct K; [reflexivity|reflexivity|congruence]. Qed.
Lemma error_instrs (s : @sstate A) e :
  snd (c_error C (set_stopped true s) e) = map (fun o => IDeliver o (Err e)) (observers s).
Proof. destruct K; reflexivity. Qed.
Lemma completed_instrs (s : @sstate A) :
  snd (c_completed C (set_stopped true s)) = map (fun o => IDeliver o Done) (observers s).
Proof. destruct K; [reflexivity|reflexivity|congruence]. Qed.

(* ---- invariant 3: a wrapper is stopped only by a terminal notification or by an unsubscribe call ---- *)
Definition noFin (k : list (@instr A)) (o : nat) : Prop := ~ In (IAdoFin o) k.

Definition CauseInv (c : @cfg A) : Prop :=
  (forall o os, c_obs c o = Some os -> a_stopped os = true ->
     has_term (rcv o (c_rlog c)) = true \/ unsubbed o (c_rlog c) = true) /\
  (forall o, In (IAdoFin o) (c_k c) -> has_term (rcv o (c_rlog c)) = true).

Lemma in_fin_ops o (r : list (@op A)) k : In (IAdoFin o) (map IOp r ++ k) -> In (IAdoFin o) k.
Proof. intros H. apply in_app_or in H. destruct H as [H|H]; [|exact H]. apply in_map_iff in H. destruct H as [x [E _]]. discriminate. Qed.
Lemma in_fin_delivers o (f : nat -> ev A) L k : In (IAdoFin o) (map (fun o' => IDeliver o' (f o')) L ++ k) -> In (IAdoFin o) k.
Proof. intros H. apply in_app_or in H. destruct H as [H|H]; [|exact H]. apply in_map_iff in H. destruct H as [x [E _]]. discriminate. Qed.
Lemma in_fin_greet o o' (G : list (ev A)) k : In (IAdoFin o) (map (IDeliver o') G ++ k) -> In (IAdoFin o) k.
Proof. intros H. apply in_app_or in H. destruct H as [H|H]; [|exact H]. apply in_map_iff in H. destruct H as [x [E _]]. discriminate. Qed.

Lemma has_term_rcv_mono o pre l : has_term (rcv o l) = true -> has_term (rcv o (pre ++ l)) = true.
Proof.
  intros H. induction pre as [|e pre IH]; [exact H|]. cbn [app rcv]. rewrite has_term_app, IH. reflexivity.
Qed.
Lemma unsubbed_mono o pre l : unsubbed o l = true -> unsubbed o (pre ++ l) = true.
Proof. intros H. unfold unsubbed in *. rewrite existsb_app, H. apply orb_true_r. Qed.

(* frame: the table changes at most at o0, whose new state is justified *)
Lemma cause_frame s m k l s' (m' : @omap) k' pre :
  CauseInv (Cfg s m k l) ->
  (forall o os', m' o = Some os' -> a_stopped os' = true ->
     (exists os, m o = Some os /\ a_stopped os = true) \/
     has_term (rcv o (pre ++ l)) = true \/ unsubbed o (pre ++ l) = true) ->
  (forall o, In (IAdoFin o) k' -> In (IAdoFin o) k \/ has_term (rcv o (pre ++ l)) = true) ->
  CauseInv (Cfg s' m' k' (pre ++ l)).
Proof.
  intros [H1 H2] Hm Hk. cbn [c_obs c_k c_rlog] in *. split; cbn [c_obs c_k c_rlog].
  - intros o os' Ho Hs. destruct (Hm o os' Ho Hs) as [[os [E1 E2]]|G]; [|exact G].
    destruct (H1 o os E1 E2) as [G|G]; [left; now apply has_term_rcv_mono|right; now apply unsubbed_mono].
  - intros o Hi. destruct (Hk o Hi) as [G|G]; [|exact G]. apply has_term_rcv_mono. now apply H2.
Qed.

Lemma upd_cases (m : @omap) o x o2 os2 : upd m o x o2 = Some os2 -> (o2 = o /\ os2 = x) \/ (o2 <> o /\ m o2 = Some os2).
Proof.
  unfold upd. destruct (Nat.eqb o2 o) eqn:E.
  - apply Nat.eqb_eq in E. intros [= <-]. now left.
  - apply Nat.eqb_neq in E. intros H. now right.
Qed.

Lemma cause_step c : AbsInv c -> CauseInv c -> CauseInv (step C react c).
Proof.
  destruct c as [s m k l]. intros HA HC. pose proof HC as [H1 H2]. cbn [c_obs c_k c_rlog] in H1, H2.
  unfold step. cbn [c_k c_st c_obs c_rlog]. destruct k as [|i k]; [exact HC|].
  (* no table change *)
  assert (Hid : forall s' k' pre, (forall o, In (IAdoFin o) k' -> In (IAdoFin o) k) -> CauseInv (Cfg s' m k' (pre ++ l))).
  { intros s' k' pre Hk. apply (cause_frame s m (i :: k) l); [exact HC| |].
    - intros o os' Ho Hs. left. eauto.
    - intros o Hi. left. right. now apply Hk. }
  (* o0's entry replaced by a state that is stopped only if the old one was *)
  assert (Hkeep : forall o0 os0 x s' k' pre, m o0 = Some os0 -> (a_stopped x = true -> a_stopped os0 = true) ->
            (forall o, In (IAdoFin o) k' -> In (IAdoFin o) k) -> CauseInv (Cfg s' (upd m o0 x) k' (pre ++ l))).
  { intros o0 os0 x s' k' pre Hm Hx Hk. apply (cause_frame s m (i :: k) l); [exact HC| |].
    - intros o os' Ho Hs. destruct (upd_cases _ _ _ _ _ Ho) as [[-> ->]|[_ E]]; left; eauto.
    - intros o Hi. left. right. now apply Hk. }
  destruct i as [p|o n|o|o sub].
  - unfold step_op. destruct p as [o|o|v|e| |].
    + destruct (m o) as [os|] eqn:Em; [apply (Hid _ _ [EOp (OSub o)]); auto|].
      pose proof (subscribe_greets s _ o HA) as HG. cbn [c_st c_rlog] in HG.
      destruct (c_subscribe C s o) as [[[s' is] sub]|].
      * destruct HG as [_ ->]. apply (cause_frame s m (IOp (OSub o) :: k) l _ _ _ [EOp (OSub o)]); [exact HC| |].
        -- intros o2 os2 Ho Hs. destruct (upd_cases _ _ _ _ _ Ho) as [[-> ->]|[_ E]]; [discriminate Hs|left; eauto].
        -- intros o2 Hi. left. right. apply in_fin_greet in Hi. destruct Hi as [Hi|Hi]; [discriminate|exact Hi].
      * apply (cause_frame s m (IOp (OSub o) :: k) l _ _ _ [EGot o (Err disposed_exn); EOp (OSub o)]); [exact HC| |].
        -- intros o2 os2 Ho Hs. destruct (upd_cases _ _ _ _ _ Ho) as [[-> ->]|[_ E]]; [|left; eauto].
           right. left. cbn [app rcv rcvc]. rewrite Nat.eqb_refl, !has_term_app. cbn. now rewrite orb_true_r.
        -- intros o2 Hi. left. right. apply in_fin_ops in Hi. destruct Hi as [Hi|Hi]; [discriminate|exact Hi].
    + destruct (m o) as [os|] eqn:Em; [|apply (Hid _ _ [EOp (OUnsub o)]); auto].
      destruct (handle os); [|apply (Hid _ _ [EOp (OUnsub o)]); auto].
      destruct (ado_dispose s os o) as [s' os'].
      apply (cause_frame s m (IOp (OUnsub o) :: k) l _ _ _ [EOp (OUnsub o)]); [exact HC| |].
      * intros o2 os2 Ho Hs. destruct (upd_cases _ _ _ _ _ Ho) as [[-> ->]|[_ E]]; [|left; eauto].
        right. right. cbn. now rewrite Nat.eqb_refl.
      * intros o2 Hi. left. right. exact Hi.
    + destruct (is_disposed s); [apply (Hid _ _ [ERaised disposed_exn; EOp (ONext v)]); auto|].
      destruct (is_stopped s); [apply (Hid _ _ [EOp (ONext v)]); auto|].
      pose proof (next_instrs s v) as Hn. destruct (c_next C s v) as [s' is]. cbn [snd] in Hn. subst is.
      apply (Hid _ _ [EOp (ONext v)]). intros o Hi. now apply in_fin_delivers in Hi.
    + destruct (is_disposed s); [apply (Hid _ _ [ERaised disposed_exn; EOp (OErr e)]); auto|].
      destruct (is_stopped s); [apply (Hid _ _ [EOp (OErr e)]); auto|].
      pose proof (error_instrs s e) as Hn. destruct (c_error C (set_stopped true s) e) as [s' is]. cbn [snd] in Hn. subst is.
      apply (Hid _ _ [EOp (OErr e)]). intros o Hi. now apply in_fin_delivers in Hi.
    + destruct (is_disposed s); [apply (Hid _ _ [ERaised disposed_exn; EOp ODone]); auto|].
      destruct (is_stopped s); [apply (Hid _ _ [EOp ODone]); auto|].
      pose proof (completed_instrs s) as Hn. destruct (c_completed C (set_stopped true s)) as [s' is]. cbn [snd] in Hn. subst is.
      apply (Hid _ _ [EOp ODone]). intros o Hi. now apply in_fin_delivers in Hi.
    + apply (Hid _ _ [EOp ODispose]); auto.
  - destruct (m o) as [os|] eqn:Em; [|apply (Hid _ _ []); auto].
    destruct (a_stopped os) eqn:St; [apply (Hid _ _ []); auto|].
    destruct n as [v|e|].
    + apply (Hkeep o os _ _ _ [EGot o (Next v)] Em); [cbn; rewrite St; discriminate|].
      intros o2 Hi. now apply in_fin_ops in Hi.
    + apply (cause_frame s m (IDeliver o (Err e) :: k) l _ _ _ [EGot o (Err e)]); [exact HC| |].
      * intros o2 os2 Ho Hs. destruct (upd_cases _ _ _ _ _ Ho) as [[-> ->]|[_ E]]; [|left; eauto].
        right. left. cbn [app rcv rcvc]. rewrite Nat.eqb_refl, has_term_app. cbn. now rewrite orb_true_r.
      * intros o2 Hi. apply in_fin_ops in Hi. destruct Hi as [Hi|Hi]; [|left; right; exact Hi].
        injection Hi as <-. right. cbn [app rcv rcvc]. rewrite Nat.eqb_refl, has_term_app. cbn. now rewrite orb_true_r.
    + apply (cause_frame s m (IDeliver o Done :: k) l _ _ _ [EGot o Done]); [exact HC| |].
      * intros o2 os2 Ho Hs. destruct (upd_cases _ _ _ _ _ Ho) as [[-> ->]|[_ E]]; [|left; eauto].
        right. left. cbn [app rcv rcvc]. rewrite Nat.eqb_refl, has_term_app. cbn. now rewrite orb_true_r.
      * intros o2 Hi. apply in_fin_ops in Hi. destruct Hi as [Hi|Hi]; [|left; right; exact Hi].
        injection Hi as <-. right. cbn [app rcv rcvc]. rewrite Nat.eqb_refl, has_term_app. cbn. now rewrite orb_true_r.
  - destruct (m o) as [os|] eqn:Em; [|apply (Hid _ _ []); auto].
    destruct (ado_dispose s os o) as [s' os'].
    apply (cause_frame s m (IAdoFin o :: k) l _ _ _ []); [exact HC| |].
    + intros o2 os2 Ho Hs. destruct (upd_cases _ _ _ _ _ Ho) as [[-> ->]|[_ E]]; [|left; eauto].
      right. left. apply H2. now left.
    + intros o2 Hi. left. right. exact Hi.
  - destruct (m o) as [os|] eqn:Em; [|apply (Hid _ _ []); auto].
    destruct sub as [sb|].
    + pose proof (sad_set_stopped sb s os o) as Hs. destruct (sad_set sb s os o) as [s' os']. cbn [snd] in Hs.
      apply (Hkeep o os _ _ _ [] Em); [cbn; congruence|auto].
    + apply (Hkeep o os _ _ _ [] Em); [cbn; congruence|auto].
Qed.

Lemma cause_init top : CauseInv (init_cfg v0 top).
Proof.
  split; cbn [init_cfg c_obs c_k c_rlog]; [discriminate|]. intros o Hi. apply in_map_iff in Hi. destruct Hi as [x [E _]]. discriminate.
Qed.

(* ---- an observer is entitled to AT MOST ONE terminal notification ---- *)
Definition tms (l : list (ev A)) : list (ev A) := flat_map (fun n => if is_terminal n then [n] else []) l.
Definition nterm (l : list (ev A)) : nat := length (tms l).

Lemma nterm_app l1 l2 : nterm (l1 ++ l2) = (nterm l1 + nterm l2)%nat.
Proof. unfold nterm, tms. now rewrite flat_map_app, app_length. Qed.
Lemma nterm_perm l1 l2 : Permutation l1 l2 -> nterm l1 = nterm l2.
Proof. intros H. unfold nterm, tms. apply Permutation_length. now apply Permutation_flat_map. Qed.
Lemma nterm_has_term l : has_term l = true -> (1 <= nterm l)%nat.
Proof.
  induction l as [|n l IH]; [discriminate|]. cbn [has_term existsb]. change (n :: l) with ([n] ++ l). rewrite nterm_app.
  destruct (is_terminal n) eqn:E; [intros _; unfold nterm, tms; cbn; rewrite E; cbn; lia|].
  cbn [orb]. intros H. specialize (IH H). lia.
Qed.
Lemma nterm_le1 (n : ev A) : (nterm [n] <= 1)%nat.
Proof. unfold nterm, tms. cbn. destruct (is_terminal n); cbn; lia. Qed.

Lemma greet_live_nterm (g : @gstate A) : live g = true -> nterm (greet K g) = 0%nat.
Proof.
  unfold live, greet. destruct (g_status g); try discriminate. intros _. destruct K; [reflexivity|reflexivity|congruence].
Qed.
Lemma greet_nterm_le (g : @gstate A) : (nterm (greet K g) <= 1)%nat.
Proof.
  unfold greet. destruct (g_status g) as [|t|]; [destruct K; cbn; lia| |apply nterm_le1].
  destruct t; try apply nterm_le1. destruct K; [apply nterm_le1|apply nterm_le1|congruence].
Qed.
Lemma bcast_live_next (g : @gstate A) v : live g = true -> bcast K g (ONext v) = [Next v].
Proof. unfold bcast. intros ->. destruct K; [reflexivity|reflexivity|congruence]. Qed.
Lemma bcast_live_err (g : @gstate A) e : live g = true -> bcast K g (OErr e) = [Err e].
Proof. unfold bcast. intros ->. reflexivity. Qed.
Lemma bcast_live_done (g : @gstate A) : live g = true -> bcast K g ODone = [Done].
Proof. unfold bcast. intros ->. destruct K; [reflexivity|reflexivity|congruence]. Qed.

Lemma term_once o : forall log sn g,
  (nterm (tent_from o sn g log) <= (if live g then 1 else if sn then 0 else 1))%nat.
Proof.
  induction log as [|x log IH]; intros sn g; [cbn; destruct (live g), sn; lia|].
  destruct x as [p|o' n|x]; cbn [tent_from]; [|apply IH|apply IH].
  rewrite nterm_app. specialize (IH (sn || is_sub_of o p) (g_step g p)). rewrite g_step_live in IH.
  destruct (live g) eqn:L.
  - destruct p as [o'|o'|v|e| |]; cbn [answer SubjectTreeFacts.is_sub_of SubjectTreeFacts.is_end_op negb andb] in *.
    + destruct (Nat.eqb o' o && negb sn); [rewrite (greet_live_nterm g L)|]; cbn [nterm tms flat_map length] in *; lia.
    + rewrite (bcast_nonemission K g (OUnsub o')) by reflexivity. destruct sn; cbn [nterm tms flat_map length] in *; lia.
    + rewrite (bcast_live_next g v L). rewrite orb_false_r in IH. destruct sn; cbn in *; lia.
    + rewrite (bcast_live_err g e L). rewrite orb_false_r in IH. destruct sn; cbn in *; lia.
    + rewrite (bcast_live_done g L). rewrite orb_false_r in IH. destruct sn; cbn in *; lia.
    + rewrite (bcast_nonemission K g ODispose) by reflexivity. rewrite orb_false_r in IH. destruct sn; cbn in *; lia.
  - cbn [andb] in IH. destruct p as [o'|o'|v|e| |]; cbn [answer SubjectTreeFacts.is_sub_of] in *;
      rewrite ?(bcast_dead K g _ L), ?orb_false_r in *.
    + pose proof (greet_nterm_le g) as HG. destruct (Nat.eqb o' o) eqn:E, sn; cbn [andb negb orb] in *; cbn [nterm tms flat_map length] in *; lia.
    + destruct sn; cbn [nterm tms flat_map length] in *; lia.
    + destruct sn; cbn [nterm tms flat_map length] in *; lia.
    + destruct sn; cbn [nterm tms flat_map length] in *; lia.
    + destruct sn; cbn [nterm tms flat_map length] in *; lia.
    + destruct sn; cbn [nterm tms flat_map length] in *; lia.
Qed.

Lemma tentl_term_once o l : (nterm (tentl o l) <= 1)%nat.
Proof. rewrite tentl_entitled. exact (term_once o (rev l) false (g_init v0)). Qed.

Lemma two_terms o l (rc pe : list (ev A)) :
  Permutation (rc ++ pe) (tentl o l) -> has_term rc = true -> has_term pe = true -> False.
Proof.
  intros HP H1 H2. pose proof (nterm_perm _ _ HP) as E. rewrite nterm_app in E.
  pose proof (tentl_term_once o l). apply nterm_has_term in H1. apply nterm_has_term in H2. lia.
Qed.

(* ---- invariant 4: received ++ pending ++ dropped is a permutation of the entitlement ---- *)
Definition PermAt (m : @omap) (k : list (@instr A)) (l : list event) (o : nat) : Prop :=
  exists dr, Permutation (rcv o l ++ pend o k ++ dr) (tentl o l) /\
             (forall os, m o = Some os -> a_stopped os = false -> dr = []) /\
             (unsubbed o l = false -> has_term dr = false).
Definition PermInv (c : @cfg A) : Prop := forall o, PermAt (c_obs c) (c_k c) (c_rlog c) o.

Lemma none_all_nil s m k l o (a b dr : list (ev A)) :
  DomInv (Cfg s m k l) -> m o = None -> Permutation (a ++ b ++ dr) (tentl o l) -> a = [] /\ b = [] /\ dr = [].
Proof.
  intros HD Hm HP. rewrite (seen_false_tentl o l) in HP by (apply (HD o); exact Hm).
  apply Permutation_sym, Permutation_nil in HP. apply app_eq_nil in HP. destruct HP as [-> HP].
  apply app_eq_nil in HP. tauto.
Qed.

Lemma dr_close s m k l (m' : @omap) o (a b dr : list (ev A)) :
  DomInv (Cfg s m k l) -> mono m m' -> Permutation (a ++ b ++ dr) (tentl o l) ->
  (forall os, m o = Some os -> a_stopped os = false -> dr = []) ->
  forall os', m' o = Some os' -> a_stopped os' = false -> dr = [].
Proof.
  intros HD Hmono HP Hd os' Hm' Hs'. destruct (m o) as [os|] eqn:Em; [|exact (proj2 (proj2 (none_all_nil s m k l o a b dr HD Em HP)))].
  destruct (Hmono o os Em) as [os'' [E1 E2]]. rewrite Hm' in E1. injection E1 as <-.
  apply (Hd os eq_refl). destruct (a_stopped os); [rewrite E2 in Hs' by reflexivity; discriminate|reflexivity].
Qed.

Lemma perm_keep s m i k l (m' : @omap) k' l' o :
  DomInv (Cfg s m (i :: k) l) -> mono m m' -> PermAt m (i :: k) l o ->
  rcv o l' = rcv o l -> tentl o l' = tentl o l -> pend o k' = pend o (i :: k) ->
  (unsubbed o l' = false -> unsubbed o l = false) ->
  PermAt m' k' l' o.
Proof.
  intros HD Hmono [dr [HP [Hd Ht]]] E1 E2 E3 E4. exists dr. rewrite E1, E2, E3. split; [exact HP|]. split.
  - exact (dr_close s m (i :: k) l m' o _ _ dr HD Hmono HP Hd).
  - intros H. apply Ht, E4, H.
Qed.

(* a delivery to a wrapper that is stopped (or unknown) is dropped *)
Lemma perm_drop s m o0 n k l o :
  DomInv (Cfg s m (IDeliver o0 n :: k) l) -> CauseInv (Cfg s m (IDeliver o0 n :: k) l) ->
  PermAt m (IDeliver o0 n :: k) l o ->
  (m o0 = None \/ exists os0, m o0 = Some os0 /\ a_stopped os0 = true) ->
  PermAt m k l o.
Proof.
  intros HD [HC _] [dr [HP [Hd Ht]]] Hst. cbn [c_obs c_rlog] in HC.
  cbn [pend flat_map] in HP. fold (pend o k) in HP.
  exists (pdv o (IDeliver o0 n) ++ dr). split; [|split].
  - eapply Permutation_trans; [|exact HP]. apply Permutation_app_head.
    rewrite <- app_assoc. rewrite !app_assoc. apply Permutation_app_tail. apply Permutation_app_comm.
  - intros os Hm Hs. rewrite (Hd os Hm Hs). cbn [pdv]. destruct (Nat.eqb o0 o) eqn:E; [|reflexivity].
    apply Nat.eqb_eq in E. subst o0. destruct Hst as [Hn|[os0 [E1 E2]]]; congruence.
  - intros Hu. cbn [pdv]. destruct (Nat.eqb o0 o) eqn:E; [|exact (Ht Hu)].
    apply Nat.eqb_eq in E. subst o0. cbn [pdv] in HP. rewrite Nat.eqb_refl in HP. cbn [app] in HP |- *.
    cbn [has_term existsb]. fold (has_term dr). rewrite (Ht Hu), orb_false_r.
    destruct (is_terminal n) eqn:Tn; [exfalso|reflexivity].
    destruct Hst as [Hn|[os0 [E1 E2]]].
    + destruct (none_all_nil s m _ l o (rcv o l) (n :: pend o k) dr HD Hn HP) as (_ & G & _). discriminate G.
    + destruct (HC o os0 E1 E2) as [G|G]; [|congruence].
      apply (two_terms o l (rcv o l) (n :: pend o k ++ dr) HP G). cbn [app has_term existsb]. now rewrite Tn.
Qed.

(* an emission on a live subject: every observer of the snapshot gets a pending delivery *)
Lemma perm_emit s m p k l o (n : ev A) :
  Reg (Cfg s m (IOp p :: k) l) -> DomInv (Cfg s m (IOp p :: k) l) -> CauseInv (Cfg s m (IOp p :: k) l) ->
  PermAt m (IOp p :: k) l o -> subject_live s ->
  tentc o (EOp p) l = (if seen o l then [n] else []) -> unsub_ev o (EOp p) = false ->
  PermAt m (map (fun o' => IDeliver o' n) (observers s) ++ k) (EOp p :: l) o.
Proof.
  intros HR HD [HC _] [dr [HPm [Hd Ht]]] Hlive Hte Hun. cbn [c_obs c_rlog] in HC.
  pose proof (reg_nodup _ HR) as Hnd. cbn [c_st] in Hnd.
  cbn [pend flat_map pdv app] in HPm. fold (pend o k) in HPm.
  unfold PermAt. cbn [rcv rcvc tentl unsubbed existsb]. rewrite Hte, Hun, app_nil_r, pend_app. cbn [orb]. fold (unsubbed o l).
  destruct (seen o l) eqn:Sn.
  - destruct (m o) as [os|] eqn:Em; [|apply (HD o) in Em; cbn [c_rlog] in Em; congruence].
    destruct (in_dec Nat.eq_dec o (observers s)) as [Hi|Hi].
    + rewrite (pend_snapshot_in o n _ Hnd Hi). exists dr. split; [|split; assumption].
      cbn [app]. eapply Permutation_trans; [apply Permutation_sym, Permutation_middle|].
      eapply Permutation_trans; [|apply Permutation_cons_append]. apply perm_skip. exact HPm.
    + rewrite (pend_snapshot_out o n _ Hi). cbn [app].
      assert (HP' : Permutation (rcv o l ++ pend o k ++ n :: dr) (tentl o l ++ [n])).
      { rewrite app_assoc. eapply Permutation_trans; [apply Permutation_sym, Permutation_middle|].
        eapply Permutation_trans; [|apply Permutation_cons_append]. apply perm_skip.
        rewrite <- app_assoc. exact HPm. }
      assert (Hst : a_stopped os = true).
      { destruct (a_stopped os) eqn:St; [reflexivity|]. exfalso. apply Hi. exact (reg_in _ HR o os Em St Hlive). }
      exists (n :: dr). split; [exact HP'|]. split.
      * intros os' Hos' Hs'. congruence.
      * intros Hu. cbn [has_term existsb]. fold (has_term dr). rewrite (Ht Hu), orb_false_r.
        destruct (is_terminal n) eqn:Tn; [exfalso|reflexivity].
        destruct (HC o os Em Hst) as [G|G]; [|congruence].
        assert (E : tentl o l ++ [n] = tentl o (EOp p :: l)) by (cbn [tentl]; now rewrite Hte).
        rewrite E in HP'. apply (two_terms o _ _ _ HP' G). rewrite has_term_app. cbn [has_term existsb]. rewrite Tn. apply orb_true_r.
  - assert (Em : m o = None) by (apply (HD o); exact Sn).
    assert (Hi : ~ In o (observers s)) by (intros Hi; exact (reg_dom _ HR o Hi Em)).
    rewrite (pend_snapshot_out o n _ Hi). cbn [app]. rewrite app_nil_r. exists dr. split; [exact HPm|]. split; assumption.
Qed.

Lemma answer_dead o sn (g : @gstate A) p :
  live g = false -> (forall o', p <> OSub o') -> answer o sn g p = [].
Proof. intros L Hp. destruct p; cbn [answer]; try (rewrite (bcast_dead K g _ L); now destruct sn). now destruct (Hp o0). Qed.

Lemma perm_step c : Reg c -> AbsInv c -> DomInv c -> CauseInv c -> PermInv c -> PermInv (step C react c).
Proof.
  destruct c as [s m k l]. intros HR HA HD HC HP. unfold AbsInv in HA. cbn [c_st c_rlog] in HA.
  pose proof (abs_stopped _ _ HA) as Hstop.
  pose proof (step_shape_holds C react (Cfg s m k l)) as [Hmono _].
  unfold step in Hmono |- *. cbn [c_k c_st c_obs c_rlog] in Hmono |- *. destruct k as [|i k]; [exact HP|].
  intros o. pose proof (HP o) as HPo. cbn [c_obs c_k c_rlog] in HPo.
  assert (Keep : forall s' (m' : @omap) k' l', mono m m' ->
            rcv o l' = rcv o l -> tentl o l' = tentl o l -> pend o k' = pend o (i :: k) ->
            (unsubbed o l' = false -> unsubbed o l = false) ->
            PermAt (c_obs (Cfg s' m' k' l')) (c_k (Cfg s' m' k' l')) (c_rlog (Cfg s' m' k' l')) o).
  { intros s' m' k' l' Hm E1 E2 E3 E4. cbn [c_obs c_k c_rlog]. exact (perm_keep s m i k l m' k' l' o HD Hm HPo E1 E2 E3 E4). }
  destruct i as [p|o0 n|o0|o0 sub].
  - unfold step_op in Hmono |- *. destruct p as [o0|o0|v|e| |].
    + (* OSub *)
      destruct (m o0) as [os|] eqn:Em.
      { apply Keep; [exact Hmono| | | |]; cbn [rcv rcvc tentl tentc answer pend flat_map pdv app unsubbed existsb unsub_ev orb];
          rewrite ?app_nil_r; try reflexivity; try tauto.
        destruct (Nat.eqb o0 o) eqn:E; [|now rewrite app_nil_r]. apply Nat.eqb_eq in E. subst o0.
        destruct (seen o l) eqn:Sn; [cbn; now rewrite app_nil_r|]. apply (HD o) in Sn. cbn [c_obs] in Sn. congruence. }
      pose proof (subscribe_greets s _ o0 HA) as HG.
      destruct (Nat.eqb o0 o) eqn:E.
      * apply Nat.eqb_eq in E. subst o0. destruct HPo as [dr [HPm _]].
        destruct (none_all_nil s m _ l o _ _ _ HD Em HPm) as (R1 & R2 & ->).
        cbn [pend flat_map pdv app] in R2. fold (pend o k) in R2.
        assert (Sn : seen o l = false) by (apply (HD o); exact Em).
        assert (Te : tentl o l = []) by (apply seen_false_tentl; exact Sn).
        destruct (c_subscribe C s o) as [[[s' is] sub]|].
        -- destruct HG as [_ ->]. cbn [c_obs c_k c_rlog]. exists []. split; [|split; reflexivity].
           cbn [rcv rcvc tentl tentc answer]. rewrite R1, Te, Sn, Nat.eqb_refl, pend_app, pend_greet_same. cbn [pend flat_map pdv app negb andb].
           fold (pend o k). rewrite R2, !app_nil_r. apply Permutation_refl.
        -- cbn [c_obs c_k c_rlog]. exists []. split; [|split; reflexivity].
           cbn [rcv rcvc tentl tentc answer]. rewrite R1, Te, Sn, Nat.eqb_refl, pend_app, pend_ops. cbn [pend flat_map pdv app negb andb].
           fold (pend o k). rewrite R2. unfold greet. rewrite HG. cbn [app]. apply Permutation_refl.
      * assert (Hne : o0 <> o) by (now apply Nat.eqb_neq).
        destruct (c_subscribe C s o0) as [[[s' is] sub]|].
        -- destruct HG as [_ ->]. apply Keep; [exact Hmono| | | |];
             cbn [rcv rcvc tentl tentc answer unsubbed existsb unsub_ev orb]; rewrite ?E, ?app_nil_r; try reflexivity; try tauto.
           rewrite pend_app, (pend_greet_other o o0 _ Hne). reflexivity.
        -- apply Keep; [exact Hmono| | | |];
             cbn [rcv rcvc tentl tentc answer unsubbed existsb unsub_ev orb]; rewrite ?E, ?app_nil_r; try reflexivity; try tauto.
           rewrite pend_app, pend_ops. reflexivity.
    + (* OUnsub *)
      assert (Hte : tentl o (EOp (OUnsub o0) :: l) = tentl o l).
      { cbn [tentl tentc answer]. rewrite (bcast_nonemission K _ (OUnsub o0)) by reflexivity. destruct (seen o l); now rewrite app_nil_r. }
      assert (Hun : unsubbed o (EOp (OUnsub o0) :: l) = false -> unsubbed o l = false).
      { cbn [unsubbed existsb]. intros H. apply orb_false_iff in H. tauto. }
      destruct (m o0) as [os|] eqn:Em; [|apply Keep; [exact Hmono| |exact Hte| |exact Hun]; cbn; rewrite ?app_nil_r; reflexivity].
      destruct (handle os); [|apply Keep; [exact Hmono| |exact Hte| |exact Hun]; cbn; rewrite ?app_nil_r; reflexivity].
      destruct (ado_dispose s os o0) as [s' os']. apply Keep; [exact Hmono| |exact Hte| |exact Hun]; cbn; rewrite ?app_nil_r; reflexivity.
    + (* ONext *)
      destruct (is_disposed s) eqn:D.
      { apply Keep; [exact Hmono| | | |]; cbn [rcv rcvc tentl tentc pend flat_map pdv app unsubbed existsb unsub_ev orb];
          rewrite ?app_nil_r; try reflexivity; try tauto.
        rewrite answer_dead; [now rewrite app_nil_r|exact (abs_disposed_live _ _ HA D)|discriminate]. }
      destruct (is_stopped s) eqn:St.
      { apply Keep; [exact Hmono| | | |]; cbn [rcv rcvc tentl tentc pend flat_map pdv app unsubbed existsb unsub_ev orb];
          rewrite ?app_nil_r; try reflexivity; try tauto.
        rewrite answer_dead; [now rewrite app_nil_r|now destruct (live (gof l))|discriminate]. }
      assert (Hl : live (gof l) = true) by now destruct (live (gof l)).
      pose proof (next_instrs s v) as Hn. destruct (c_next C s v) as [s' is]. cbn [snd] in Hn. subst is.
      cbn [c_obs c_k c_rlog]. apply (perm_emit s m (ONext v) k l o (Next v) HR HD HC HPo); [split; assumption| |reflexivity].
      cbn [tentc answer]. now rewrite (bcast_live_next _ v Hl).
    + (* OErr *)
      destruct (is_disposed s) eqn:D.
      { apply Keep; [exact Hmono| | | |]; cbn [rcv rcvc tentl tentc pend flat_map pdv app unsubbed existsb unsub_ev orb];
          rewrite ?app_nil_r; try reflexivity; try tauto.
        rewrite answer_dead; [now rewrite app_nil_r|exact (abs_disposed_live _ _ HA D)|discriminate]. }
      destruct (is_stopped s) eqn:St.
      { apply Keep; [exact Hmono| | | |]; cbn [rcv rcvc tentl tentc pend flat_map pdv app unsubbed existsb unsub_ev orb];
          rewrite ?app_nil_r; try reflexivity; try tauto.
        rewrite answer_dead; [now rewrite app_nil_r|now destruct (live (gof l))|discriminate]. }
      assert (Hl : live (gof l) = true) by now destruct (live (gof l)).
      pose proof (error_instrs s e) as Hn. destruct (c_error C (set_stopped true s) e) as [s' is]. cbn [snd] in Hn. subst is.
      cbn [c_obs c_k c_rlog]. apply (perm_emit s m (OErr e) k l o (Err e) HR HD HC HPo); [split; assumption| |reflexivity].
      cbn [tentc answer]. now rewrite (bcast_live_err _ e Hl).
    + (* ODone *)
      destruct (is_disposed s) eqn:D.
      { apply Keep; [exact Hmono| | | |]; cbn [rcv rcvc tentl tentc pend flat_map pdv app unsubbed existsb unsub_ev orb];
          rewrite ?app_nil_r; try reflexivity; try tauto.
        rewrite answer_dead; [now rewrite app_nil_r|exact (abs_disposed_live _ _ HA D)|discriminate]. }
      destruct (is_stopped s) eqn:St.
      { apply Keep; [exact Hmono| | | |]; cbn [rcv rcvc tentl tentc pend flat_map pdv app unsubbed existsb unsub_ev orb];
          rewrite ?app_nil_r; try reflexivity; try tauto.
        rewrite answer_dead; [now rewrite app_nil_r|now destruct (live (gof l))|discriminate]. }
      assert (Hl : live (gof l) = true) by now destruct (live (gof l)).
      pose proof (completed_instrs s) as Hn. destruct (c_completed C (set_stopped true s)) as [s' is]. cbn [snd] in Hn. subst is.
      cbn [c_obs c_k c_rlog]. apply (perm_emit s m ODone k l o Done HR HD HC HPo); [split; assumption| |reflexivity].
      cbn [tentc answer]. now rewrite (bcast_live_done _ Hl).
    + (* ODispose *)
      apply Keep; [exact Hmono| | | |]; cbn [rcv rcvc tentl tentc answer pend flat_map pdv app unsubbed existsb unsub_ev orb];
        rewrite ?app_nil_r; try reflexivity; try tauto.
      rewrite (bcast_nonemission K _ ODispose) by reflexivity. destruct (seen o l); now rewrite app_nil_r.
  - (* IDeliver *)
    destruct (m o0) as [os0|] eqn:Em0.
    2: { cbn [c_obs c_k c_rlog]. apply (perm_drop s m o0 n k l o HD HC HPo). now left. }
    destruct (a_stopped os0) eqn:St0.
    { cbn [c_obs c_k c_rlog]. apply (perm_drop s m o0 n k l o HD HC HPo). right. eauto. }
    destruct (Nat.eqb o0 o) eqn:E.
    + apply Nat.eqb_eq in E. subst o0. destruct HPo as [dr [HPm [Hd Ht]]].
      cbn [pend flat_map pdv] in HPm. rewrite Nat.eqb_refl in HPm. fold (pend o k) in HPm. cbn [app] in HPm.
      assert (G : forall m' k' , mono m m' -> pend o k' = pend o k -> PermAt m' k' (EGot o n :: l) o).
      { intros m' k' Hm' Hk'. exists dr. cbn [rcv rcvc tentl tentc unsubbed existsb unsub_ev orb]. rewrite Nat.eqb_refl, app_nil_r, Hk'. split; [|split].
        - rewrite <- app_assoc. exact HPm.
        - exact (dr_close s m (IDeliver o n :: k) l m' o (rcv o l) (n :: pend o k) dr HD Hm' HPm Hd).
        - exact Ht. }
      destruct n as [v|e|]; cbn [c_obs c_k c_rlog]; apply G; try exact Hmono;
        rewrite pend_app, pend_ops; reflexivity.
    + destruct n as [v|e|]; apply Keep; try exact Hmono;
        cbn [rcv rcvc tentl tentc pend flat_map pdv app unsubbed existsb unsub_ev orb];
        rewrite ?E, ?app_nil_r, ?pend_app, ?pend_ops; try reflexivity; try tauto.
  - (* IAdoFin *)
    destruct (m o0) as [os|] eqn:Em; [|apply Keep; [exact Hmono| | | |]; try reflexivity; tauto].
    destruct (ado_dispose s os o0) as [s' os']. apply Keep; [exact Hmono| | | |]; try reflexivity; tauto.
  - (* ISubRet *)
    destruct (m o0) as [os|] eqn:Em; [|apply Keep; [exact Hmono| | | |]; try reflexivity; tauto].
    destruct sub as [sb|]; [|apply Keep; [exact Hmono| | | |]; try reflexivity; tauto].
    destruct (sad_set sb s os o0) as [s' os']. apply Keep; [exact Hmono| | | |]; try reflexivity; tauto.
Qed.

(* ---- invariant 5: a first subscribe call is answered AT ONCE -- the greeting is the very next
        entry of the log (nothing, not even a re-entrant call, comes in between) ---- *)
Definition LogInv (c : @cfg A) : Prop :=
  forall p2 p1 o n, c_rlog c = p2 ++ EOp (OSub o) :: p1 -> seen o p1 = false -> greet K (gof p1) = [n] ->
    (exists p2', p2 = p2' ++ [EGot o n]) \/
    (p2 = [] /\ exists k' os, c_k c = IDeliver o n :: k' /\ c_obs c o = Some os /\ a_stopped os = false).

Lemma app_split {X} (x : X) p1 l : forall pre p2, pre ++ l = p2 ++ x :: p1 ->
  (exists q, p2 = pre ++ q /\ l = q ++ x :: p1) \/ (exists q1 q2, pre = q1 ++ x :: q2 /\ p2 = q1 /\ p1 = q2 ++ l).
Proof.
  induction pre as [|a pre IH]; intros p2 E.
  - left. exists p2. split; [reflexivity|exact E].
  - destruct p2 as [|b p2]; cbn [app] in E.
    + injection E as -> E. right. exists [], pre. repeat split. now symmetry.
    + injection E as -> E. destruct (IH p2 E) as [[q [-> El]]|(q1 & q2 & -> & -> & ->)].
      * left. exists q. split; [reflexivity|exact El].
      * right. exists (b :: q1), q2. repeat split.
Qed.

Lemma log_old s m i k l (pre : list event) :
  LogInv (Cfg s m (i :: k) l) -> (forall o n, i <> IDeliver o n) ->
  forall q p1 o n, l = q ++ EOp (OSub o) :: p1 -> seen o p1 = false -> greet K (gof p1) = [n] ->
    exists p2', pre ++ q = p2' ++ [EGot o n].
Proof.
  intros HL Hi q p1 o n El Sn Hg. destruct (HL q p1 o n El Sn Hg) as [[p2' ->]|[-> (k' & os & Ek & _)]].
  - exists (pre ++ p2'). now rewrite app_assoc.
  - cbn [c_k] in Ek. injection Ek as -> _. now destruct (Hi o n).
Qed.

Lemma log_frame s m i k l s' (m' : @omap) k' pre :
  LogInv (Cfg s m (i :: k) l) -> (forall o n, i <> IDeliver o n) -> (forall o, ~ In (EOp (OSub o)) pre) ->
  LogInv (Cfg s' m' k' (pre ++ l)).
Proof.
  intros HL Hi Hp p2 p1 o n E Sn Hg. cbn [c_rlog] in E.
  destruct (app_split (EOp (OSub o)) p1 l _ p2 E) as [[q [-> El]]|(q1 & q2 & Ep & _)].
  - left. exact (log_old s m i k l pre HL Hi q p1 o n El Sn Hg).
  - exfalso. apply (Hp o). rewrite Ep. apply in_or_app. right. left. reflexivity.
Qed.

Lemma log_step c : AbsInv c -> DomInv c -> LogInv c -> LogInv (step C react c).
Proof.
  destruct c as [s m k l]. intros HA HD HL. unfold AbsInv in HA. cbn [c_st c_rlog] in HA.
  unfold step. cbn [c_k c_st c_obs c_rlog]. destruct k as [|i k]; [exact HL|].
  assert (F1 : forall s' m' k' p, (forall o, p <> OSub o) -> (forall o n, i <> IDeliver o n) -> LogInv (Cfg s' m' k' ([EOp p] ++ l))).
  { intros s' m' k' p Hp Hi. apply (log_frame s m i k l); [exact HL|exact Hi|].
    intros o [H|[]]. injection H as ->. now destruct (Hp o). }
  assert (F2 : forall s' m' k' p x, (forall o, p <> OSub o) -> (forall o n, i <> IDeliver o n) -> LogInv (Cfg s' m' k' ([ERaised x; EOp p] ++ l))).
  { intros s' m' k' p x Hp Hi. apply (log_frame s m i k l); [exact HL|exact Hi|].
    intros o [H|[H|[]]]; [discriminate|]. injection H as ->. now destruct (Hp o). }
  assert (F0 : forall s' m' k', (forall o n, i <> IDeliver o n) -> LogInv (Cfg s' m' k' ([] ++ l))).
  { intros s' m' k' Hi. apply (log_frame s m i k l); [exact HL|exact Hi|]. intros o []. }
  destruct i as [p|o0 n0|o0|o0 sub].
  - unfold step_op. destruct p as [o0|o0|v|e| |].
    + (* OSub *)
      destruct (m o0) as [os|] eqn:Em.
      { intros p2 p1 o n E Sn Hg. cbn [c_rlog] in E. change (EOp (OSub o0) :: l) with ([EOp (OSub o0)] ++ l) in E.
        destruct (app_split (EOp (OSub o)) p1 l _ p2 E) as [[q [-> El]]|(q1 & q2 & Ep & -> & ->)].
        - left. exact (log_old s m (IOp (OSub o0)) k l _ HL ltac:(intros; discriminate) q p1 o n El Sn Hg).
        - exfalso. destruct q1 as [|a [|b q1]]; try discriminate Ep. injection Ep as -> <-.
          cbn [app] in Sn. apply (HD o) in Sn. cbn [c_obs] in Sn. congruence. }
      pose proof (subscribe_greets s _ o0 HA) as HG.
      destruct (c_subscribe C s o0) as [[[s' is] sub]|].
      * destruct HG as [_ ->]. intros p2 p1 o n E Sn Hg. cbn [c_rlog] in E. change (EOp (OSub o0) :: l) with ([EOp (OSub o0)] ++ l) in E.
        destruct (app_split (EOp (OSub o)) p1 l _ p2 E) as [[q [-> El]]|(q1 & q2 & Ep & -> & ->)].
        -- left. exact (log_old s m (IOp (OSub o0)) k l _ HL ltac:(intros; discriminate) q p1 o n El Sn Hg).
        -- right. destruct q1 as [|a [|b q1]]; try discriminate Ep. injection Ep as -> <-. cbn [app] in Hg |- *.
           split; [reflexivity|]. rewrite Hg. cbn [map app c_k c_obs]. do 2 eexists. split; [reflexivity|]. split; [apply upd_same|reflexivity].
      * intros p2 p1 o n E Sn Hg. cbn [c_rlog] in E.
        change (EGot o0 (Err disposed_exn) :: EOp (OSub o0) :: l) with ([EGot o0 (Err disposed_exn); EOp (OSub o0)] ++ l) in E.
        destruct (app_split (EOp (OSub o)) p1 l _ p2 E) as [[q [-> El]]|(q1 & q2 & Ep & -> & ->)].
        -- left. exact (log_old s m (IOp (OSub o0)) k l _ HL ltac:(intros; discriminate) q p1 o n El Sn Hg).
        -- left. destruct q1 as [|a [|b [|c q1]]]; try discriminate Ep. injection Ep as <- -> <-. cbn [app] in Hg.
           unfold greet in Hg. rewrite HG in Hg. injection Hg as <-. exists []. reflexivity.
    + destruct (m o0) as [os|]; [|apply (F1 _ _ _ (OUnsub o0)); discriminate].
      destruct (handle os); [|apply (F1 _ _ _ (OUnsub o0)); discriminate].
      destruct (ado_dispose s os o0) as [s' os']. apply (F1 _ _ _ (OUnsub o0)); discriminate.
    + destruct (is_disposed s); [apply (F2 _ _ _ (ONext v)); discriminate|].
      destruct (is_stopped s); [apply (F1 _ _ _ (ONext v)); discriminate|].
      destruct (c_next C s v) as [s' is]. apply (F1 _ _ _ (ONext v)); discriminate.
    + destruct (is_disposed s); [apply (F2 _ _ _ (OErr e)); discriminate|].
      destruct (is_stopped s); [apply (F1 _ _ _ (OErr e)); discriminate|].
      destruct (c_error C (set_stopped true s) e) as [s' is]. apply (F1 _ _ _ (OErr e)); discriminate.
    + destruct (is_disposed s); [apply (F2 _ _ _ ODone); discriminate|].
      destruct (is_stopped s); [apply (F1 _ _ _ ODone); discriminate|].
      destruct (c_completed C (set_stopped true s)) as [s' is]. apply (F1 _ _ _ ODone); discriminate.
    + apply (F1 _ _ _ ODispose); discriminate.
  - (* IDeliver *)
    assert (Hdrop : (m o0 = None \/ exists os0, m o0 = Some os0 /\ a_stopped os0 = true) -> LogInv (Cfg s m k l)).
    { intros Hst p2 p1 o n E Sn Hg. destruct (HL p2 p1 o n E Sn Hg) as [G|[-> (k' & os & Ek & Eo & Es)]]; [left; exact G|].
      exfalso. cbn [c_k c_obs] in Ek, Eo. injection Ek as -> -> _. destruct Hst as [Hn|[os0 [E1 E2]]]; congruence. }
    assert (Hdel : forall m' k', LogInv (Cfg s m' k' ([EGot o0 n0] ++ l))).
    { intros m' k' p2 p1 o n E Sn Hg. cbn [c_rlog] in E. left.
      destruct (app_split (EOp (OSub o)) p1 l _ p2 E) as [[q [-> El]]|(q1 & q2 & Ep & -> & ->)].
      - destruct (HL q p1 o n El Sn Hg) as [[p2' ->]|[-> (k'' & os & Ek & _)]].
        + exists ([EGot o0 n0] ++ p2'). now rewrite app_assoc.
        + cbn [c_k] in Ek. injection Ek as -> -> _. exists []. reflexivity.
      - destruct q1 as [|a [|b q1]]; discriminate Ep. }
    destruct (m o0) as [os0|] eqn:Em0; [|apply Hdrop; now left].
    destruct (a_stopped os0) eqn:St0; [apply Hdrop; right; eauto|].
    destruct n0; apply Hdel.
  - destruct (m o0) as [os|]; [|apply F0; discriminate].
    destruct (ado_dispose s os o0) as [s' os']. apply F0; discriminate.
  - destruct (m o0) as [os|]; [|apply F0; discriminate].
    destruct sub as [sb|]; [|apply F0; discriminate].
    destruct (sad_set sb s os o0) as [s' os']. apply F0; discriminate.
Qed.

Lemma log_init top : LogInv (init_cfg v0 top).
Proof. intros p2 p1 o n E. cbn [init_cfg c_rlog] in E. destruct p2; discriminate E. Qed.

(* ---- all together, on every reachable configuration ---- *)
Record TreeInvK (c : @cfg A) : Prop := {
  tk_reg : Reg c; tk_abs : AbsInv c; tk_dom : DomInv c; tk_cause : CauseInv c; tk_perm : PermInv c; tk_log : LogInv c }.

Lemma tree_invK_step c : TreeInvK c -> TreeInvK (step C react c).
Proof.
  intros [H1 H2 H3 H4 H5 H6]. constructor.
  - exact (Reg_step pynone K react c H1).
  - apply abs_step, H2.
  - apply dom_stepK, H3.
  - apply cause_step; assumption.
  - apply perm_step; assumption.
  - apply log_step; assumption.
Qed.

Lemma tree_invK_init top : TreeInvK (init_cfg v0 top).
Proof.
  constructor.
  - apply Reg_init.
  - apply abs_init.
  - intros o. cbn. tauto.
  - apply cause_init.
  - intros o. exists []. cbn [init_cfg c_obs c_k c_rlog rcv tentl]. rewrite pend_ops. split; [constructor|split; reflexivity].
  - apply log_init.
Qed.

Lemma tree_invK_run top fuel : TreeInvK (run C react fuel (init_cfg v0 top)).
Proof. apply (run_ind C react TreeInvK); [apply tree_invK_step|apply tree_invK_init]. Qed.

(* ================= the theorems ================= *)

(* MAIN: received ++ pending ++ dropped is the entitlement; nothing is dropped for a live wrapper;
   no terminal notification is dropped unless an unsubscribe call for o was made *)
Theorem tree_notifications top fuel o :
  let c := run C react fuel (init_cfg v0 top) in
  exists dropped,
    Permutation (view o (log_of c) ++ pend o (c_k c) ++ dropped) (tree_entitled o (log_of c)) /\
    (forall os, c_obs c o = Some os -> a_stopped os = false -> dropped = []) /\
    (existsb (unsub_ev o) (log_of c) = false -> has_term dropped = false).
Proof.
  intros c. destruct (tk_perm _ (tree_invK_run top fuel) o) as [dr [HP [Hd Ht]]]. fold c in HP, Hd, Ht.
  exists dr. unfold log_of. rewrite <- rcv_view, <- tentl_entitled, existsb_rev. split; [exact HP|]. split; assumption.
Qed.

Corollary tree_finished_live top fuel o os :
  let c := run C react fuel (init_cfg v0 top) in
  c_k c = [] -> c_obs c o = Some os -> a_stopped os = false ->
  Permutation (view o (log_of c)) (tree_entitled o (log_of c)).
Proof.
  intros c Hk Hm Hs. destruct (tree_notifications top fuel o) as [dr [HP [Hd _]]]. fold c in HP, Hd.
  rewrite (Hd os Hm Hs), Hk in HP. cbn [pend flat_map] in HP. now rewrite !app_nil_r in HP.
Qed.

Corollary tree_sound top fuel o n :
  let c := run C react fuel (init_cfg v0 top) in
  In n (view o (log_of c)) -> In n (tree_entitled o (log_of c)).
Proof.
  intros c Hin. destruct (tree_notifications top fuel o) as [dr [HP _]]. fold c in HP.
  apply (Permutation_in n HP). apply in_or_app. left. exact Hin.
Qed.

Lemma has_term_in (l : list (ev A)) t : In t l -> is_terminal t = true -> has_term l = true.
Proof. intros Hi Ht. apply existsb_exists. exists t. split; assumption. Qed.

Lemma wellformed_term_last (l : list (ev A)) t :
  wellformed l = true -> In t l -> is_terminal t = true -> exists vs, l = map Next vs ++ [t].
Proof.
  induction l as [|x l IH]; intros Hw Hi Ht; [destruct Hi|].
  destruct x as [a|e|].
  - destruct Hi as [<-|Hi]; [discriminate Ht|]. destruct (IH Hw Hi Ht) as [vs ->]. exists (a :: vs). reflexivity.
  - cbn [wellformed] in Hw. destruct l; [|discriminate Hw]. destruct Hi as [<-|[]]. exists []. reflexivity.
  - cbn [wellformed] in Hw. destruct l; [|discriminate Hw]. destruct Hi as [<-|[]]. exists []. reflexivity.
Qed.

(* a terminal notification o is entitled to is never lost unless o was unsubscribed: it has been
   received or is about to be handed to o's wrapper *)
Theorem tree_terminal_not_lost top fuel o t :
  let c := run C react fuel (init_cfg v0 top) in
  existsb (unsub_ev o) (log_of c) = false ->
  In t (tree_entitled o (log_of c)) -> is_terminal t = true ->
  In t (view o (log_of c)) \/ In t (pend o (c_k c)).
Proof.
  intros c Hu Hi Ht. destruct (tree_notifications top fuel o) as [dr [HP [_ Hd]]]. fold c in HP, Hd.
  apply (Permutation_in t (Permutation_sym HP)) in Hi. apply in_app_or in Hi. destruct Hi as [Hi|Hi]; [now left|].
  apply in_app_or in Hi. destruct Hi as [Hi|Hi]; [now right|].
  rewrite (has_term_in dr t Hi Ht) in Hd. discriminate (Hd Hu).
Qed.

(* ... so when the run has finished it HAS been received: exactly once, and nothing after it *)
Theorem tree_terminal_received top fuel o t :
  let c := run C react fuel (init_cfg v0 top) in
  c_k c = [] -> existsb (unsub_ev o) (log_of c) = false ->
  In t (tree_entitled o (log_of c)) -> is_terminal t = true ->
  exists vs, view o (log_of c) = map Next vs ++ [t].
Proof.
  intros c Hk Hu Hi Ht. destruct (tree_terminal_not_lost top fuel o t Hu Hi Ht) as [G|G]; fold c in G.
  - exact (wellformed_term_last _ t (views_wellformed C react v0 top fuel o) G Ht).
  - rewrite Hk in G. destruct G.
Qed.

(* the first subscribe call of o is answered at once: the greeting is the next entry of the log *)
Theorem tree_answered_at_once top fuel o p1 rest n :
  let c := run C react fuel (init_cfg v0 top) in
  log_of c = p1 ++ EOp (OSub o) :: rest -> existsb (sub_ev o) p1 = false ->
  greet K (gev (g_init v0) p1) = [n] ->
  (rest = [] /\ c_k c <> []) \/ exists rest', rest = EGot o n :: rest'.
Proof.
  intros c E Sn Hg. pose proof (tk_log _ (tree_invK_run top fuel)) as HL. fold c in HL.
  assert (E' : c_rlog c = rev rest ++ EOp (OSub o) :: rev p1).
  { unfold log_of in E. apply (f_equal (@rev _)) in E. rewrite rev_involutive in E. rewrite E, rev_app_distr. cbn [rev].
    now rewrite <- app_assoc. }
  destruct (HL (rev rest) (rev p1) o n E') as [[p2' Ep]|[Ep (k' & os & Ek & _)]].
  - unfold seen. now rewrite existsb_rev.
  - now rewrite gof_gev, rev_involutive.
  - right. exists (rev p2'). apply (f_equal (@rev _)) in Ep. rewrite rev_involutive, rev_app_distr in Ep. exact Ep.
  - left. split; [|rewrite Ek; discriminate]. apply (f_equal (@rev _)) in Ep. now rewrite rev_involutive in Ep.
Qed.

(* ---- readings of [tree_entitled] ---- *)
(* whatever the log: at most one terminal notification *)
Lemma tree_entitled_term_once o log : (nterm (tree_entitled o log) <= 1)%nat.
Proof. exact (term_once o log false (g_init v0)). Qed.

Lemma tent_from_app o : forall a sn g b,
  tent_from o sn g (a ++ b) = tent_from o sn g a ++ tent_from o (sn || existsb (sub_ev o) a) (gev g a) b.
Proof.
  induction a as [|x a IH]; intros sn g b.
  - cbn [app tent_from existsb gev]. now rewrite orb_false_r.
  - cbn [app tent_from]. destruct x as [p|o' n|x]; cbn [existsb sub_ev gev orb].
    + rewrite IH, app_assoc, orb_assoc. reflexivity.
    + apply IH.
    + apply IH.
Qed.

Lemma tent_not_seen o : forall a g, existsb (sub_ev o) a = false -> tent_from o false g a = [].
Proof.
  induction a as [|x a IH]; intros g H; [reflexivity|]. cbn [existsb] in H. apply orb_false_iff in H. destruct H as [Hx H].
  destruct x as [p|o' n|x]; cbn [tent_from]; try (apply IH; exact H).
  cbn [sub_ev] in Hx. rewrite Hx. cbn [orb]. rewrite (IH _ H), app_nil_r.
  destruct p; cbn [answer]; try reflexivity. cbn [SubjectTreeFacts.is_sub_of] in Hx. now rewrite Hx.
Qed.

Lemma tent_dead_seen o : forall a g, live g = false -> tent_from o true g a = [].
Proof.
  induction a as [|x a IH]; intros g L; [reflexivity|]. destruct x as [p|o' n|x]; cbn [tent_from orb]; try (apply IH; exact L).
  rewrite IH by (rewrite g_step_live, L; reflexivity). rewrite app_nil_r.
  destruct p; cbn [answer]; rewrite ?andb_false_r; try reflexivity; apply (bcast_dead K g _ L).
Qed.

Lemma gev_live_no_end : forall a g, existsb end_ev a = false -> live (gev g a) = live g.
Proof.
  induction a as [|x a IH]; intros g H; [reflexivity|]. cbn [existsb] in H. apply orb_false_iff in H. destruct H as [Hx H].
  destruct x as [p|o' n|x]; cbn [gev]; try (apply IH; exact H).
  rewrite (IH _ H), g_step_live. cbn [end_ev] in Hx. rewrite Hx. apply andb_true_r.
Qed.

Definition gok (g : @gstate A) : Prop := forall v, g_status g <> Ended (Next v).
Lemma gok_step g p : gok g -> gok (g_step g p).
Proof. intros H v. destruct p; cbn [g_step]; try apply H; try (destruct (live g); cbn; [discriminate|apply H]). discriminate. Qed.
Lemma gok_gev : forall a g, gok g -> gok (gev g a).
Proof. induction a as [|x a IH]; intros g H; [exact H|]. destruct x; cbn [gev]; try (apply IH; exact H). apply IH, gok_step, H. Qed.
Lemma gok_init : gok (g_init v0).
Proof. intros v. discriminate. Qed.

Lemma greet_dead (g : @gstate A) : gok g -> live g = false -> exists n, greet K g = [n] /\ is_terminal n = true.
Proof.
  unfold gok, live, greet. intros Hk L. destruct (g_status g) as [|t|]; [discriminate| |eexists; split; reflexivity].
  destruct t as [v|e|]; [now destruct (Hk v)|eexists; split; reflexivity|].
  destruct K; [eexists; split; reflexivity|eexists; split; reflexivity|congruence].
Qed.

Definition is_term_call (p : @op A) (t : ev A) : Prop :=
  match p, t with OErr e, Err e' => e = e' | ODone, Done => True | _, _ => False end.

(* o subscribed, then -- before any terminating call -- on_error / on_completed is called (by the
   driver or from inside a callback): o is entitled to that terminal notification *)
Lemma entitled_terminal_call o p1 p2 p3 p t :
  existsb end_ev (p1 ++ EOp (OSub o) :: p2) = false -> is_term_call p t ->
  In t (tree_entitled o (p1 ++ EOp (OSub o) :: p2 ++ EOp p :: p3)).
Proof.
  intros He Hp. unfold tree_entitled.
  replace (p1 ++ EOp (OSub o) :: p2 ++ EOp p :: p3) with ((p1 ++ EOp (OSub o) :: p2) ++ EOp p :: p3)
    by (rewrite <- app_assoc; reflexivity).
  rewrite tent_from_app. apply in_or_app. right.
  assert (Hs : existsb (sub_ev o) (p1 ++ EOp (OSub o) :: p2) = true).
  { rewrite existsb_app. cbn [existsb sub_ev SubjectTreeFacts.is_sub_of]. rewrite Nat.eqb_refl. cbn. apply orb_true_r. }
  rewrite Hs. cbn [orb tent_from]. apply in_or_app. left.
  assert (L : live (gev (g_init v0) (p1 ++ EOp (OSub o) :: p2)) = true) by (rewrite gev_live_no_end; [reflexivity|exact He]).
  destruct p, t; cbn [is_term_call] in Hp; try destruct Hp; cbn [answer].
  - rewrite (bcast_live_err _ _ L). now left.
  - rewrite (bcast_live_done _ L). now left.
Qed.

(* o subscribes (first time) to a subject that is no longer live: its whole entitlement is the greeting *)
Lemma entitled_late o p1 rest :
  existsb (sub_ev o) p1 = false -> live (gev (g_init v0) p1) = false ->
  tree_entitled o (p1 ++ EOp (OSub o) :: rest) = greet K (gev (g_init v0) p1).
Proof.
  intros Hs L. unfold tree_entitled. rewrite tent_from_app, (tent_not_seen o p1 _ Hs), Hs. cbn [app orb tent_from answer].
  rewrite Nat.eqb_refl. cbn [andb negb orb SubjectTreeFacts.is_sub_of]. rewrite Nat.eqb_refl, tent_dead_seen, app_nil_r; [reflexivity|exact L].
Qed.

(* an observer arriving after termination / disposal receives the terminal notification (resp.
   DisposedException), at once, and nothing else -- ever *)
Theorem tree_late_subscriber top fuel o p1 rest :
  let c := run C react fuel (init_cfg v0 top) in
  log_of c = p1 ++ EOp (OSub o) :: rest -> existsb (sub_ev o) p1 = false ->
  live (gev (g_init v0) p1) = false ->
  exists n, greet K (gev (g_init v0) p1) = [n] /\ is_terminal n = true /\
    ((rest = [] /\ c_k c <> [] /\ view o (log_of c) = []) \/
     ((exists rest', rest = EGot o n :: rest') /\ view o (log_of c) = [n])).
Proof.
  intros c E Hs L. destruct (greet_dead _ (gok_gev p1 _ gok_init) L) as [n [Hg Ht]]. exists n. split; [exact Hg|]. split; [exact Ht|].
  destruct (tree_notifications top fuel o) as [dr [HP _]]. fold c in HP.
  rewrite E, (entitled_late o p1 rest Hs L), Hg in HP. rewrite <- E in HP.
  assert (Hv : view o (log_of c) = [] \/ view o (log_of c) = [n]).
  { apply Permutation_sym, Permutation_length_1_inv in HP. destruct (view o (log_of c)) as [|x [|y r]]; [now left| |].
    - injection HP as -> _. now right.
    - cbn [app] in HP. injection HP as _ HP. discriminate HP. }
  destruct (tree_answered_at_once top fuel o p1 rest n E Hs Hg) as [[-> Hk]|[rest' ->]].
  - fold c in Hk. left. split; [reflexivity|]. split; [exact Hk|]. rewrite E, view_app. cbn [view]. rewrite app_nil_r.
    destruct Hv as [Hv|Hv]; [rewrite E, view_app in Hv; cbn [view] in Hv; rewrite app_nil_r in Hv; exact Hv|].
    (* the view of p1 alone cannot already contain n: everything received is in the entitlement of the shorter log *)
    exfalso. rewrite E, view_app in Hv. cbn [view] in Hv. rewrite app_nil_r in Hv.
    pose proof (tk_dom _ (tree_invK_run top fuel) o) as HD. fold c in HD.
    pose proof (tk_perm _ (tree_invK_run top fuel) o) as [dr' [HP' _]]. fold c in HP'.
    rewrite rcv_view in HP'. fold (log_of c) in HP'. rewrite tentl_entitled in HP'. fold (log_of c) in HP'.
    rewrite E, (entitled_late o p1 [] Hs L), Hg in HP'. rewrite view_app in HP'. cbn [view] in HP'. rewrite app_nil_r, Hv in HP'.
    destruct (tk_log _ (tree_invK_run top fuel) [] (rev p1) o n) as [[p2' Ep]|[_ (k' & os & Ek & _)]].
    + fold c. unfold log_of in E. apply (f_equal (@rev _)) in E. rewrite rev_involutive in E. rewrite E, rev_app_distr. reflexivity.
    + unfold seen. now rewrite existsb_rev.
    + now rewrite gof_gev, rev_involutive.
    + destruct p2'; discriminate Ep.
    + fold c in Ek. rewrite Ek in HP'. cbn [pend flat_map pdv] in HP'. rewrite Nat.eqb_refl in HP'. cbn [app] in HP'.
      apply Permutation_length in HP'. cbn [length] in HP'. rewrite app_length in HP'. cbn in HP'. lia.
  - right. split; [eexists; reflexivity|]. destruct Hv as [Hv|Hv]; [|exact Hv].
    exfalso. rewrite E, view_app in Hv. cbn [view] in Hv. rewrite Nat.eqb_refl in Hv. destruct (view o p1); discriminate Hv.
Qed.

(* ================= ORDER, when callbacks do not emit =================
   On arbitrary call trees deliveries are depth first and an observer may receive values in another
   order than the calls were made (C20_witness_tree_order).  If the observers' callbacks only
   subscribe, unsubscribe and dispose (themselves or others) -- the re-entrancy C20 / C21 quantify
   over -- every emission is made at the top level, and then ORDER holds: what o received, followed by
   what is about to be handed to it, is an ordered SUBSEQUENCE of its entitlement (the missing
   notifications are the dropped ones), and for a live wrapper it IS the entitlement, in call order. *)
Inductive subseq {X : Type} : list X -> list X -> Prop :=
| subseq_nil : subseq [] []
| subseq_skip x l1 l2 : subseq l1 l2 -> subseq l1 (x :: l2)
| subseq_keep x l1 l2 : subseq l1 l2 -> subseq (x :: l1) (x :: l2).

Lemma subseq_refl {X} (l : list X) : subseq l l.
Proof. induction l; constructor; assumption. Qed.
Lemma subseq_nil_l {X} (l : list X) : subseq [] l.
Proof. induction l; constructor; assumption. Qed.
Lemma subseq_nil_r {X} (l : list X) : subseq l [] -> l = [].
Proof. intros H. inversion H. reflexivity. Qed.
Lemma subseq_app_tail {X} (l1 l2 r : list X) : subseq l1 l2 -> subseq (l1 ++ r) (l2 ++ r).
Proof. induction 1; cbn [app]; [apply subseq_refl|now apply subseq_skip|now apply subseq_keep]. Qed.
Lemma subseq_snoc_skip {X} (l1 l2 : list X) x : subseq l1 l2 -> subseq l1 (l2 ++ [x]).
Proof. induction 1; cbn [app]; [apply subseq_skip, subseq_nil|now apply subseq_skip|now apply subseq_keep]. Qed.
Lemma subseq_trans {X} (l2 l3 : list X) : subseq l2 l3 -> forall l1, subseq l1 l2 -> subseq l1 l3.
Proof.
  induction 1 as [|x l2 l3 H IH|x l2 l3 H IH]; intros l1 H1; [exact H1|apply subseq_skip, IH, H1|].
  inversion H1; subst; [apply subseq_skip, IH; assumption|apply subseq_keep, IH; assumption].
Qed.
Lemma subseq_drop_mid {X} (a b l : list X) x : subseq (a ++ x :: b) l -> subseq (a ++ b) l.
Proof.
  intros H. apply (subseq_trans _ _ H). clear H. induction a as [|y a IH]; cbn [app]; [apply subseq_skip, subseq_refl|apply subseq_keep, IH].
Qed.

Section Ordered.
Context (Hq : forall o j p, In p (react o j) -> is_emission p = false).

Definition NoDel (k : list (@instr A)) : Prop := forall o n, ~ In (IDeliver o n) k.
Definition EmitClean (k : list (@instr A)) : Prop :=
  forall k1 p k2, k = k1 ++ IOp p :: k2 -> is_emission p = true -> NoDel k2.

Lemma nodel_pend o k : NoDel k -> pend o k = [].
Proof.
  induction k as [|i k IH]; intros H; [reflexivity|]. cbn [pend flat_map]. fold (pend o k).
  rewrite IH by (intros o' n Hi; apply (H o' n); now right). rewrite app_nil_r.
  destruct i as [p|o' n| |]; try reflexivity. exfalso. apply (H o' n). now left.
Qed.

Lemma clean_push i k new :
  EmitClean (i :: k) -> (forall p, In (IOp p) new -> is_emission p = false) -> EmitClean (new ++ k).
Proof.
  intros H Hn k1 p k2 E Hp.
  destruct (app_split (IOp p) k2 k new k1 E) as [[q [-> Ek]]|(q1 & q2 & En & _)].
  - apply (H (i :: q) p k2); [now rewrite Ek|exact Hp].
  - rewrite (Hn p) in Hp; [discriminate|]. rewrite En. apply in_or_app. right. now left.
Qed.

Lemma new_ops_quiet o j (extra : list (@instr A)) :
  (forall p, ~ In (IOp p) extra) -> forall p, In (IOp p) (map IOp (react o j) ++ extra) -> is_emission p = false.
Proof.
  intros He p Hi. apply in_app_or in Hi. destruct Hi as [Hi|Hi]; [|now destruct (He p)].
  apply in_map_iff in Hi. destruct Hi as [x [[= ->] Hx]]. exact (Hq o j p Hx).
Qed.
Lemma new_delivers_quiet (f : nat -> @instr A) L (extra : list (@instr A)) :
  (forall o', exists n, f o' = IDeliver o' n) -> (forall p, ~ In (IOp p) extra) ->
  forall p, In (IOp p) (map f L ++ extra) -> is_emission p = false.
Proof.
  intros Hf He p Hi. apply in_app_or in Hi. destruct Hi as [Hi|Hi]; [|now destruct (He p)].
  apply in_map_iff in Hi. destruct Hi as [x [E _]]. destruct (Hf x) as [n En]. congruence.
Qed.

Lemma clean_step c : AbsInv c -> EmitClean (c_k c) -> EmitClean (c_k (step C react c)).
Proof.
  destruct c as [s m k l]. intros HA HE. unfold AbsInv in HA. cbn [c_st c_rlog c_k] in *.
  unfold step. cbn [c_k c_st c_obs c_rlog]. destruct k as [|i k]; [exact HE|].
  assert (Hpop : EmitClean k) by (apply (clean_push i k [] HE); intros p []).
  assert (Hops : forall o j extra, (forall p, ~ In (IOp p) extra) -> EmitClean ((map IOp (react o j) ++ extra) ++ k)).
  { intros o j extra He. apply (clean_push i k _ HE). now apply new_ops_quiet. }
  assert (Hdel : forall f L, (forall o', exists n, f o' = IDeliver o' n) -> EmitClean (map f L ++ k)).
  { intros f L Hf. rewrite <- (app_nil_r (map f L)). apply (clean_push i k _ HE). apply new_delivers_quiet; [exact Hf|intros p []]. }
  destruct i as [p|o n|o|o sub].
  - unfold step_op. destruct p as [o|o|v|e| |].
    + destruct (m o); [exact Hpop|].
      pose proof (subscribe_greets s _ o HA) as HG.
      destruct (c_subscribe C s o) as [[[s' is] sub]|]; cbn [c_k].
      * destruct HG as [_ ->]. change (map (IDeliver o) (greet K (gof l)) ++ ISubRet o (Some sub) :: k)
          with (map (IDeliver o) (greet K (gof l)) ++ [ISubRet o (Some sub)] ++ k). rewrite app_assoc.
        apply (clean_push _ k _ HE). intros p Hi. apply in_app_or in Hi. destruct Hi as [Hi|[Hi|[]]]; [|discriminate Hi].
        apply in_map_iff in Hi. destruct Hi as [x [E _]]. discriminate E.
      * change (map IOp (react o 0) ++ ISubRet o None :: k) with (map IOp (react o 0) ++ [ISubRet o None] ++ k). rewrite app_assoc.
        apply Hops. intros p [Hi|[]]. discriminate Hi.
    + destruct (m o) as [os|]; [|exact Hpop]. destruct (handle os); [|exact Hpop].
      destruct (ado_dispose s os o) as [s' os']. exact Hpop.
    + destruct (is_disposed s); [exact Hpop|]. destruct (is_stopped s); [exact Hpop|].
      pose proof (next_instrs s v) as Hn. destruct (c_next C s v) as [s' is]. cbn [snd] in Hn. subst is. cbn [c_k].
      apply Hdel. intros o'. eexists. reflexivity.
    + destruct (is_disposed s); [exact Hpop|]. destruct (is_stopped s); [exact Hpop|].
      pose proof (error_instrs s e) as Hn. destruct (c_error C (set_stopped true s) e) as [s' is]. cbn [snd] in Hn. subst is. cbn [c_k].
      apply Hdel. intros o'. eexists. reflexivity.
    + destruct (is_disposed s); [exact Hpop|]. destruct (is_stopped s); [exact Hpop|].
      pose proof (completed_instrs s) as Hn. destruct (c_completed C (set_stopped true s)) as [s' is]. cbn [snd] in Hn. subst is. cbn [c_k].
      apply Hdel. intros o'. eexists. reflexivity.
    + exact Hpop.
  - destruct (m o) as [os|]; [|exact Hpop]. destruct (a_stopped os); [exact Hpop|].
    destruct n; cbn [c_k].
    + rewrite <- (app_nil_r (map IOp (react o (calls os)))), <- app_assoc. rewrite app_assoc. apply Hops. intros p [].
    + change (map IOp (react o (calls os)) ++ IAdoFin o :: k) with (map IOp (react o (calls os)) ++ [IAdoFin o] ++ k). rewrite app_assoc.
      apply Hops. intros p [Hi|[]]. discriminate Hi.
    + change (map IOp (react o (calls os)) ++ IAdoFin o :: k) with (map IOp (react o (calls os)) ++ [IAdoFin o] ++ k). rewrite app_assoc.
      apply Hops. intros p [Hi|[]]. discriminate Hi.
  - destruct (m o) as [os|]; [|exact Hpop]. destruct (ado_dispose s os o) as [s' os']. exact Hpop.
  - destruct (m o) as [os|]; [|exact Hpop]. destruct sub as [sb|]; [|exact Hpop].
    destruct (sad_set sb s os o) as [s' os']. exact Hpop.
Qed.

Lemma clean_init top : EmitClean (c_k (init_cfg v0 top)).
Proof.
  intros k1 p k2 E _ o n Hi. cbn [init_cfg c_k] in E.
  assert (H : In (IDeliver o n) (map IOp top)) by (rewrite E; apply in_or_app; right; right; exact Hi).
  apply in_map_iff in H. destruct H as [x [Ex _]]. discriminate Ex.
Qed.

Definition OrdAt (m : @omap) (k : list (@instr A)) (l : list event) (o : nat) : Prop :=
  subseq (rcv o l ++ pend o k) (tentl o l) /\
  (forall os, m o = Some os -> a_stopped os = false -> rcv o l ++ pend o k = tentl o l).
Definition OrdInv (c : @cfg A) : Prop := forall o, OrdAt (c_obs c) (c_k c) (c_rlog c) o.

Lemma ord_close s m k l (m' : @omap) o (X : list (ev A)) :
  DomInv (Cfg s m k l) -> mono m m' -> subseq X (tentl o l) ->
  (forall os, m o = Some os -> a_stopped os = false -> X = tentl o l) ->
  forall os', m' o = Some os' -> a_stopped os' = false -> X = tentl o l.
Proof.
  intros HD Hmono Hs Hd os' Hm' Hs'. destruct (m o) as [os|] eqn:Em.
  - destruct (Hmono o os Em) as [os'' [E1 E2]]. rewrite Hm' in E1. injection E1 as <-.
    apply (Hd os eq_refl). destruct (a_stopped os); [rewrite E2 in Hs' by reflexivity; discriminate|reflexivity].
  - rewrite (seen_false_tentl o l) in * by (apply (HD o); exact Em). now apply subseq_nil_r.
Qed.

Lemma ord_keep s m i k l (m' : @omap) k' l' o :
  DomInv (Cfg s m (i :: k) l) -> mono m m' -> OrdAt m (i :: k) l o ->
  rcv o l' = rcv o l -> tentl o l' = tentl o l -> pend o k' = pend o (i :: k) ->
  OrdAt m' k' l' o.
Proof.
  intros HD Hmono [Hs Hd] E1 E2 E3. unfold OrdAt. rewrite E1, E2, E3. split; [exact Hs|].
  exact (ord_close s m (i :: k) l m' o _ HD Hmono Hs Hd).
Qed.

Lemma ord_emit s m p k l o (n : ev A) :
  Reg (Cfg s m (IOp p :: k) l) -> DomInv (Cfg s m (IOp p :: k) l) -> EmitClean (IOp p :: k) -> is_emission p = true ->
  OrdAt m (IOp p :: k) l o -> subject_live s ->
  tentc o (EOp p) l = (if seen o l then [n] else []) ->
  OrdAt m (map (fun o' => IDeliver o' n) (observers s) ++ k) (EOp p :: l) o.
Proof.
  intros HR HD HE Hp [Hs Hd] Hlive Hte.
  pose proof (reg_nodup _ HR) as Hnd. cbn [c_st] in Hnd.
  assert (Pk : pend o k = []) by (apply nodel_pend; exact (HE [] p k eq_refl Hp)).
  cbn [pend flat_map pdv app] in Hs, Hd. fold (pend o k) in Hs, Hd. rewrite Pk, app_nil_r in Hs, Hd.
  unfold OrdAt. cbn [rcv rcvc tentl]. rewrite Hte, app_nil_r, pend_app, Pk, app_nil_r.
  destruct (seen o l) eqn:Sn.
  - destruct (m o) as [os|] eqn:Em; [|apply (HD o) in Em; cbn [c_rlog] in Em; congruence].
    destruct (in_dec Nat.eq_dec o (observers s)) as [Hi|Hi].
    + rewrite (pend_snapshot_in o n _ Hnd Hi). split; [now apply subseq_app_tail|].
      intros os' Hos' Hs'. now rewrite (Hd os' Hos' Hs').
    + rewrite (pend_snapshot_out o n _ Hi), app_nil_r. split; [now apply subseq_snoc_skip|].
      intros os' Hos' Hs'. injection Hos' as <-. exfalso. apply Hi. exact (reg_in _ HR o os Em Hs' Hlive).
  - assert (Em : m o = None) by (apply (HD o); exact Sn).
    assert (Hi : ~ In o (observers s)) by (intros Hi; exact (reg_dom _ HR o Hi Em)).
    rewrite (pend_snapshot_out o n _ Hi), !app_nil_r. split; [exact Hs|]. intros os' Hos'. cbn [c_obs] in *. congruence.
Qed.

Lemma ord_step c : Reg c -> AbsInv c -> DomInv c -> EmitClean (c_k c) -> OrdInv c -> OrdInv (step C react c).
Proof.
  destruct c as [s m k l]. intros HR HA HD HE HP. unfold AbsInv in HA. cbn [c_st c_rlog c_k] in HA, HE.
  pose proof (abs_stopped _ _ HA) as Hstop.
  pose proof (step_shape_holds C react (Cfg s m k l)) as [Hmono _].
  unfold step in Hmono |- *. cbn [c_k c_st c_obs c_rlog] in Hmono |- *. destruct k as [|i k]; [exact HP|].
  intros o. pose proof (HP o) as HPo. cbn [c_obs c_k c_rlog] in HPo.
  assert (Keep : forall s' (m' : @omap) k' l', mono m m' ->
            rcv o l' = rcv o l -> tentl o l' = tentl o l -> pend o k' = pend o (i :: k) ->
            OrdAt (c_obs (Cfg s' m' k' l')) (c_k (Cfg s' m' k' l')) (c_rlog (Cfg s' m' k' l')) o).
  { intros s' m' k' l' Hm E1 E2 E3. cbn [c_obs c_k c_rlog]. exact (ord_keep s m i k l m' k' l' o HD Hm HPo E1 E2 E3). }
  destruct i as [p|o0 n|o0|o0 sub].
  - unfold step_op in Hmono |- *. destruct p as [o0|o0|v|e| |].
    + (* OSub *)
      destruct (m o0) as [os|] eqn:Em.
      { apply Keep; [exact Hmono| | |]; cbn [rcv rcvc tentl tentc answer pend flat_map pdv app];
          rewrite ?app_nil_r; try reflexivity.
        destruct (Nat.eqb o0 o) eqn:E; [|now rewrite app_nil_r]. apply Nat.eqb_eq in E. subst o0.
        destruct (seen o l) eqn:Sn; [cbn; now rewrite app_nil_r|]. apply (HD o) in Sn. cbn [c_obs] in Sn. congruence. }
      pose proof (subscribe_greets s _ o0 HA) as HG.
      destruct (Nat.eqb o0 o) eqn:E.
      * apply Nat.eqb_eq in E. subst o0. destruct HPo as [Hs _].
        assert (Sn : seen o l = false) by (apply (HD o); exact Em).
        assert (Te : tentl o l = []) by (apply seen_false_tentl; exact Sn).
        rewrite Te in Hs. apply subseq_nil_r in Hs. apply app_eq_nil in Hs. destruct Hs as [R1 R2].
        cbn [pend flat_map pdv app] in R2. fold (pend o k) in R2.
        destruct (c_subscribe C s o) as [[[s' is] sub]|].
        -- destruct HG as [_ ->]. cbn [c_obs c_k c_rlog]. unfold OrdAt.
           cbn [rcv rcvc tentl tentc answer]. rewrite R1, Te, Sn, Nat.eqb_refl, pend_app, pend_greet_same. cbn [pend flat_map pdv app negb andb].
           fold (pend o k). rewrite R2, !app_nil_r. split; [apply subseq_refl|reflexivity].
        -- cbn [c_obs c_k c_rlog]. unfold OrdAt.
           cbn [rcv rcvc tentl tentc answer]. rewrite R1, Te, Sn, Nat.eqb_refl, pend_app, pend_ops. cbn [pend flat_map pdv app negb andb].
           fold (pend o k). rewrite R2. unfold greet. rewrite HG. cbn [app]. split; [apply subseq_refl|reflexivity].
      * assert (Hne : o0 <> o) by (now apply Nat.eqb_neq).
        destruct (c_subscribe C s o0) as [[[s' is] sub]|].
        -- destruct HG as [_ ->]. apply Keep; [exact Hmono| | |];
             cbn [rcv rcvc tentl tentc answer]; rewrite ?E, ?app_nil_r; try reflexivity.
           rewrite pend_app, (pend_greet_other o o0 _ Hne). reflexivity.
        -- apply Keep; [exact Hmono| | |];
             cbn [rcv rcvc tentl tentc answer]; rewrite ?E, ?app_nil_r; try reflexivity.
           rewrite pend_app, pend_ops. reflexivity.
    + (* OUnsub *)
      assert (Hte : tentl o (EOp (OUnsub o0) :: l) = tentl o l).
      { cbn [tentl tentc answer]. rewrite (bcast_nonemission K _ (OUnsub o0)) by reflexivity. destruct (seen o l); now rewrite app_nil_r. }
      destruct (m o0) as [os|] eqn:Em; [|apply Keep; [exact Hmono| |exact Hte|]; cbn; rewrite ?app_nil_r; reflexivity].
      destruct (handle os); [|apply Keep; [exact Hmono| |exact Hte|]; cbn; rewrite ?app_nil_r; reflexivity].
      destruct (ado_dispose s os o0) as [s' os']. apply Keep; [exact Hmono| |exact Hte|]; cbn; rewrite ?app_nil_r; reflexivity.
    + (* ONext *)
      destruct (is_disposed s) eqn:D.
      { apply Keep; [exact Hmono| | |]; cbn [rcv rcvc tentl tentc pend flat_map pdv app]; rewrite ?app_nil_r; try reflexivity.
        rewrite answer_dead; [now rewrite app_nil_r|exact (abs_disposed_live _ _ HA D)|discriminate]. }
      destruct (is_stopped s) eqn:St.
      { apply Keep; [exact Hmono| | |]; cbn [rcv rcvc tentl tentc pend flat_map pdv app]; rewrite ?app_nil_r; try reflexivity.
        rewrite answer_dead; [now rewrite app_nil_r|now destruct (live (gof l))|discriminate]. }
      assert (Hl : live (gof l) = true) by now destruct (live (gof l)).
      pose proof (next_instrs s v) as Hn. destruct (c_next C s v) as [s' is]. cbn [snd] in Hn. subst is.
      cbn [c_obs c_k c_rlog]. apply (ord_emit s m (ONext v) k l o (Next v) HR HD HE eq_refl HPo); [split; assumption|].
      cbn [tentc answer]. now rewrite (bcast_live_next _ v Hl).
    + (* OErr *)
      destruct (is_disposed s) eqn:D.
      { apply Keep; [exact Hmono| | |]; cbn [rcv rcvc tentl tentc pend flat_map pdv app]; rewrite ?app_nil_r; try reflexivity.
        rewrite answer_dead; [now rewrite app_nil_r|exact (abs_disposed_live _ _ HA D)|discriminate]. }
      destruct (is_stopped s) eqn:St.
      { apply Keep; [exact Hmono| | |]; cbn [rcv rcvc tentl tentc pend flat_map pdv app]; rewrite ?app_nil_r; try reflexivity.
        rewrite answer_dead; [now rewrite app_nil_r|now destruct (live (gof l))|discriminate]. }
      assert (Hl : live (gof l) = true) by now destruct (live (gof l)).
      pose proof (error_instrs s e) as Hn. destruct (c_error C (set_stopped true s) e) as [s' is]. cbn [snd] in Hn. subst is.
      cbn [c_obs c_k c_rlog]. apply (ord_emit s m (OErr e) k l o (Err e) HR HD HE eq_refl HPo); [split; assumption|].
      cbn [tentc answer]. now rewrite (bcast_live_err _ e Hl).
    + (* ODone *)
      destruct (is_disposed s) eqn:D.
      { apply Keep; [exact Hmono| | |]; cbn [rcv rcvc tentl tentc pend flat_map pdv app]; rewrite ?app_nil_r; try reflexivity.
        rewrite answer_dead; [now rewrite app_nil_r|exact (abs_disposed_live _ _ HA D)|discriminate]. }
      destruct (is_stopped s) eqn:St.
      { apply Keep; [exact Hmono| | |]; cbn [rcv rcvc tentl tentc pend flat_map pdv app]; rewrite ?app_nil_r; try reflexivity.
        rewrite answer_dead; [now rewrite app_nil_r|now destruct (live (gof l))|discriminate]. }
      assert (Hl : live (gof l) = true) by now destruct (live (gof l)).
      pose proof (completed_instrs s) as Hn. destruct (c_completed C (set_stopped true s)) as [s' is]. cbn [snd] in Hn. subst is.
      cbn [c_obs c_k c_rlog]. apply (ord_emit s m ODone k l o Done HR HD HE eq_refl HPo); [split; assumption|].
      cbn [tentc answer]. now rewrite (bcast_live_done _ Hl).
    + (* ODispose *)
      apply Keep; [exact Hmono| | |]; cbn [rcv rcvc tentl tentc answer pend flat_map pdv app]; rewrite ?app_nil_r; try reflexivity.
      rewrite (bcast_nonemission K _ ODispose) by reflexivity. destruct (seen o l); now rewrite app_nil_r.
  - (* IDeliver *)
    assert (Hdrop : (m o0 = None \/ exists os0, m o0 = Some os0 /\ a_stopped os0 = true) -> OrdAt m k l o).
    { intros Hst. destruct HPo as [Hs Hd]. cbn [pend flat_map pdv] in Hs, Hd. fold (pend o k) in Hs, Hd.
      destruct (Nat.eqb o0 o) eqn:E; [|split; assumption].
      apply Nat.eqb_eq in E. subst o0. cbn [app] in Hs, Hd. split; [exact (subseq_drop_mid _ _ _ _ Hs)|].
      intros os Hm Hst'. destruct Hst as [Hn|[os0 [E1 E2]]]; congruence. }
    destruct (m o0) as [os0|] eqn:Em0; [|cbn [c_obs c_k c_rlog]; apply Hdrop; now left].
    destruct (a_stopped os0) eqn:St0; [cbn [c_obs c_k c_rlog]; apply Hdrop; right; eauto|].
    destruct (Nat.eqb o0 o) eqn:E.
    + apply Nat.eqb_eq in E. subst o0. destruct HPo as [Hs Hd].
      cbn [pend flat_map pdv] in Hs, Hd. rewrite Nat.eqb_refl in Hs, Hd. fold (pend o k) in Hs, Hd. cbn [app] in Hs, Hd.
      assert (G : forall m' k' , mono m m' -> pend o k' = pend o k -> OrdAt m' k' (EGot o n :: l) o).
      { intros m' k' Hm' Hk'. unfold OrdAt. cbn [rcv rcvc tentl tentc]. rewrite Nat.eqb_refl, app_nil_r, Hk', <- app_assoc. cbn [app].
        split; [exact Hs|]. exact (ord_close s m (IDeliver o n :: k) l m' o _ HD Hm' Hs Hd). }
      destruct n as [v|e|]; cbn [c_obs c_k c_rlog]; apply G; try exact Hmono; rewrite pend_app, pend_ops; reflexivity.
    + destruct n as [v|e|]; apply Keep; try exact Hmono;
        cbn [rcv rcvc tentl tentc pend flat_map pdv app]; rewrite ?E, ?app_nil_r, ?pend_app, ?pend_ops; reflexivity.
  - destruct (m o0) as [os|] eqn:Em; [|apply Keep; [exact Hmono| | |]; reflexivity].
    destruct (ado_dispose s os o0) as [s' os']. apply Keep; [exact Hmono| | |]; reflexivity.
  - destruct (m o0) as [os|] eqn:Em; [|apply Keep; [exact Hmono| | |]; reflexivity].
    destruct sub as [sb|]; [|apply Keep; [exact Hmono| | |]; reflexivity].
    destruct (sad_set sb s os o0) as [s' os']. apply Keep; [exact Hmono| | |]; reflexivity.
Qed.

Lemma ord_run top fuel :
  let c := run C react fuel (init_cfg v0 top) in EmitClean (c_k c) /\ OrdInv c.
Proof.
  cbv zeta.
  assert (H : (fun c => TreeInvK c /\ EmitClean (c_k c) /\ OrdInv c) (run C react fuel (init_cfg v0 top))).
  { apply (run_ind C react (fun c => TreeInvK c /\ EmitClean (c_k c) /\ OrdInv c)).
    - intros c (HT & HE & HO). split; [apply tree_invK_step, HT|]. split.
      + apply clean_step; [exact (tk_abs _ HT)|exact HE].
      + apply ord_step; [exact (tk_reg _ HT)|exact (tk_abs _ HT)|exact (tk_dom _ HT)|exact HE|exact HO].
    - split; [apply tree_invK_init|]. split; [apply clean_init|].
      intros o. unfold OrdAt. cbn [init_cfg c_obs c_k c_rlog rcv tentl]. rewrite pend_ops. split; [constructor|discriminate]. }
  exact (proj2 H).
Qed.

(* ORDER: callbacks that do not emit.  Received then pending is an ordered subsequence of the
   entitlement (call order); for a live wrapper it IS the entitlement *)
Theorem tree_ordered top fuel o :
  let c := run C react fuel (init_cfg v0 top) in
  subseq (view o (log_of c) ++ pend o (c_k c)) (tree_entitled o (log_of c)) /\
  (forall os, c_obs c o = Some os -> a_stopped os = false ->
     view o (log_of c) ++ pend o (c_k c) = tree_entitled o (log_of c)).
Proof.
  intros c. destruct (ord_run top fuel) as [_ HO]. destruct (HO o) as [Hs Hd]. fold c in Hs, Hd.
  unfold log_of. rewrite <- rcv_view, <- tentl_entitled. split; assumption.
Qed.

Corollary tree_ordered_finished top fuel o os :
  let c := run C react fuel (init_cfg v0 top) in
  c_k c = [] -> c_obs c o = Some os -> a_stopped os = false ->
  view o (log_of c) = tree_entitled o (log_of c).
Proof.
  intros c Hk Hm Hs. destruct (tree_ordered top fuel o) as [_ Hd]. fold c in Hd.
  rewrite <- (Hd os Hm Hs), Hk. cbn [pend flat_map]. now rewrite app_nil_r.
Qed.
End Ordered.
End BroadcastTree.

(* ================= BehaviorSubject: the VALUES an observer receives ================= *)
Section BehaviorValues.
Context {A : Type}.
Notation event := (@event A).
Notation is_sub_of := (@SubjectTreeFacts.is_sub_of A).
Notation is_end_op := (@SubjectTreeFacts.is_end_op A).

(* the greeting: the subject's current value at o's first subscribe call, if the subject is live *)
Fixpoint greet_from (o : nat) (sn : bool) (g : @gstate A) (log : list event) : list A :=
  match log with
  | [] => []
  | EOp p :: t =>
      (match p with OSub o' => if Nat.eqb o' o && negb sn && live g then [g_cur g] else [] | _ => [] end) ++
      greet_from o (sn || is_sub_of o p) (g_step g p) t
  | _ :: t => greet_from o sn g t
  end.
Definition greeting (v0 : A) (o : nat) (log : list event) : list A := greet_from o false (g_init v0) log.

(* the calls of a log *)
Definition calls_of (log : list event) : list (@op A) := flat_map (fun e => match e with EOp p => [p] | _ => [] end) log.

Lemma gev_g_run : forall log (g : @gstate A), gev g log = g_run g (calls_of log).
Proof. induction log as [|x log IH]; intros g; [reflexivity|]. destruct x; cbn [gev calls_of flat_map app g_run]; apply IH. Qed.

Lemma vals_greet_beh (g : @gstate A) : gok g -> vals (greet KBehavior g) = if live g then [g_cur g] else [].
Proof.
  unfold gok, greet, live. intros H. destruct (g_status g) as [|t|]; try reflexivity.
  destruct t as [v| |]; try reflexivity. now destruct (H v).
Qed.

Lemma vals_tent_split o : forall log sn (g : @gstate A) dead, gok g -> live g = negb dead ->
  Permutation (vals (tent_from KBehavior o sn g log)) (greet_from o sn g log ++ ent_from o sn dead log).
Proof.
  induction log as [|x log IH]; intros sn g dead Hk Hl; [constructor|].
  destruct x as [p|o' n|x]; cbn [tent_from greet_from ent_from]; [|apply IH; assumption|apply IH; assumption].
  rewrite vals_app.
  assert (IH' := IH (sn || is_sub_of o p) (g_step g p) (dead || is_end_op p) (gok_step g p Hk)).
  rewrite g_step_live, Hl, negb_orb in IH'. specialize (IH' eq_refl).
  destruct p as [o'|o'|v|e| |]; cbn [answer].
  - rewrite <- !app_assoc. cbn [app].
    destruct (Nat.eqb o' o && negb sn); cbn [andb]; [rewrite (vals_greet_beh g Hk)|cbn [vals flat_map]].
    + apply Permutation_app_head. exact IH'.
    + exact IH'.
  - rewrite (bcast_nonemission KBehavior g (OUnsub o')) by reflexivity. destruct sn; exact IH'.
  - unfold bcast. rewrite Hl. cbn [app].
    replace (vals (if sn then if negb dead then [Next v] else [] else [])) with (if sn && negb dead then [v] else [])
      by (destruct sn, dead; reflexivity).
    eapply Permutation_trans; [apply Permutation_app_head; exact IH'|]. apply Permutation_app_swap_app.
  - unfold bcast. replace (vals (if sn then if live g then [Err e] else [] else [])) with (@nil A) by (destruct sn, (live g); reflexivity).
    exact IH'.
  - unfold bcast. replace (vals (if sn then if live g then [Done] else [] else [])) with (@nil A) by (destruct sn, (live g); reflexivity).
    exact IH'.
  - rewrite (bcast_nonemission KBehavior g ODispose) by reflexivity. destruct sn; exact IH'.
Qed.

Lemma vals_entitled_behavior v0 o log :
  Permutation (vals (tree_entitled KBehavior v0 o log)) (greeting v0 o log ++ entitled o log).
Proof. apply vals_tent_split; [apply gok_init|reflexivity]. Qed.

(* for a Subject the values of the entitlement are exactly C20's [entitled] (same order) *)
Lemma vals_tent_subject o : forall log sn (g : @gstate A) dead, gok g -> live g = negb dead ->
  vals (tent_from KSubject o sn g log) = ent_from o sn dead log.
Proof.
  induction log as [|x log IH]; intros sn g dead Hk Hl; [reflexivity|].
  destruct x as [p|o' n|x]; cbn [tent_from ent_from]; [|apply IH; assumption|apply IH; assumption].
  rewrite vals_app.
  assert (IH' := IH (sn || is_sub_of o p) (g_step g p) (dead || is_end_op p) (gok_step g p Hk)).
  rewrite g_step_live, Hl, negb_orb in IH'. rewrite (IH' eq_refl). f_equal.
  destruct p as [o'|o'|v|e| |]; cbn [answer].
  - destruct (Nat.eqb o' o && negb sn); [|reflexivity].
    unfold gok, greet, live in *. destruct (g_status g) as [|t|]; try reflexivity.
    destruct t as [v| |]; try reflexivity. now destruct (Hk v).
  - rewrite (bcast_nonemission KSubject g (OUnsub o')) by reflexivity. now destruct sn.
  - unfold bcast. rewrite Hl. destruct sn, dead; reflexivity.
  - unfold bcast. destruct sn, (live g); reflexivity.
  - unfold bcast. destruct sn, (live g); reflexivity.
  - rewrite (bcast_nonemission KSubject g ODispose) by reflexivity. now destruct sn.
Qed.

Lemma vals_entitled_subject (v0 : A) o log : vals (tree_entitled KSubject v0 o log) = entitled o log.
Proof. apply vals_tent_subject; [apply gok_init|reflexivity]. Qed.

Lemma vals_pend o (k : list (@instr A)) : vals (pend o k) = pendn o k.
Proof.
  induction k as [|i k IH]; [reflexivity|]. cbn [pend flat_map pendn]. fold (pend o k). fold (pendn o k).
  rewrite vals_app, IH. f_equal. destruct i as [p|o' n| |]; try reflexivity. cbn [pdv pdc].
  destruct (Nat.eqb o' o); destruct n; reflexivity.
Qed.

Lemma gev_live : forall a (g : @gstate A), live (gev g a) = live g && negb (existsb end_ev a).
Proof.
  induction a as [|x a IH]; intros g; [cbn; now rewrite andb_true_r|].
  destruct x as [p|o' n|x]; cbn [gev existsb end_ev orb]; try apply IH.
  rewrite IH, g_step_live, negb_orb, andb_assoc. reflexivity.
Qed.

Lemma greet_from_in o v : forall log sn (g : @gstate A), In v (greet_from o sn g log) ->
  sn = false /\ exists p1 p3, log = p1 ++ EOp (OSub o) :: p3 /\ existsb (sub_ev o) p1 = false /\
                              live (gev g p1) = true /\ v = g_cur (gev g p1).
Proof.
  induction log as [|x log IH]; intros sn g Hin; [destruct Hin|].
  destruct x as [p|o' n|x]; cbn [greet_from] in Hin.
  - apply in_app_or in Hin. destruct Hin as [Hin|Hin].
    + destruct p as [o'|o'|w|e| |]; try (destruct Hin; fail).
      destruct (Nat.eqb o' o) eqn:E, sn, (live g) eqn:L; cbn in Hin; try (destruct Hin; fail). destruct Hin as [<-|[]].
      apply Nat.eqb_eq in E. subst o'. split; [reflexivity|]. exists [], log. repeat split. exact L.
    + destruct (IH _ _ Hin) as [Hs (p1 & p3 & -> & H1 & H2 & H3)]. apply orb_false_iff in Hs. destruct Hs as [-> Hs].
      split; [reflexivity|]. exists (EOp p :: p1), p3. repeat split; [|exact H2|exact H3].
      cbn [existsb sub_ev]. now rewrite Hs, H1.
  - destruct (IH _ _ Hin) as [Hs (p1 & p3 & -> & H1 & H2 & H3)]. split; [exact Hs|]. exists (EGot o' n :: p1), p3. repeat split; assumption.
  - destruct (IH _ _ Hin) as [Hs (p1 & p3 & -> & H1 & H2 & H3)]. split; [exact Hs|]. exists (ERaised x :: p1), p3. repeat split; assumption.
Qed.

Lemma greeting_in v0 o v log : In v (greeting v0 o log) ->
  exists p1 p3, log = p1 ++ EOp (OSub o) :: p3 /\ existsb (sub_ev o) p1 = false /\ existsb end_ev p1 = false /\
                v = last_next v0 (calls_of p1).
Proof.
  intros H. destruct (greet_from_in o v log false (g_init v0) H) as [_ (p1 & p3 & -> & H1 & H2 & ->)].
  exists p1, p3. repeat split; [exact H1| |].
  - rewrite gev_live in H2. cbn in H2. now destruct (existsb end_ev p1).
  - rewrite gev_g_run in H2 |- *. exact (proj2 (g_run_live_cur _ _ H2)).
Qed.
End BehaviorValues.

(* ================= the two classes ================= *)
Lemma subject_not_async : KSubject <> KAsync. Proof. discriminate. Qed.
Lemma behavior_not_async : KBehavior <> KAsync. Proof. discriminate. Qed.

Lemma is_term_call_terminal {A} (p : @op A) t : is_term_call p t -> is_terminal t = true.
Proof. destruct p, t; cbn; try tauto; reflexivity. Qed.

Section Classes.
Context {A : Type} (pynone : A) (K : kind) (HK : K <> KAsync) (react : nat -> nat -> list (@op A)) (v0 : A).
Notation C := (cls_of pynone K).

(* an observer subscribed when on_error / on_completed is called -- by the driver or from inside a
   callback -- and for which no unsubscribe call is ever made has, when the run has finished,
   received that terminal notification: exactly once, as the last thing it received *)
Theorem tree_terminal_call_reaches top fuel o p1 p2 p3 p t :
  let c := run C react fuel (init_cfg v0 top) in
  c_k c = [] ->
  log_of c = p1 ++ EOp (OSub o) :: p2 ++ EOp p :: p3 ->
  existsb end_ev (p1 ++ EOp (OSub o) :: p2) = false -> is_term_call p t ->
  existsb (unsub_ev o) (log_of c) = false ->
  exists vs, view o (log_of c) = map Next vs ++ [t].
Proof.
  intros c Hk E He Hp Hu. apply (tree_terminal_received pynone K HK react v0 top fuel o t Hk Hu).
  - fold c. rewrite E. exact (entitled_terminal_call K HK v0 o p1 p2 p3 p t He Hp).
  - exact (is_term_call_terminal p t Hp).
Qed.

(* the same while the run is still going on: received, or about to be handed to o's wrapper *)
Theorem tree_terminal_call_not_lost top fuel o p1 p2 p3 p t :
  let c := run C react fuel (init_cfg v0 top) in
  log_of c = p1 ++ EOp (OSub o) :: p2 ++ EOp p :: p3 ->
  existsb end_ev (p1 ++ EOp (OSub o) :: p2) = false -> is_term_call p t ->
  existsb (unsub_ev o) (log_of c) = false ->
  In t (view o (log_of c)) \/ In t (pend o (c_k c)).
Proof.
  intros c E He Hp Hu. apply (tree_terminal_not_lost pynone K HK react v0 top fuel o t Hu).
  - fold c. rewrite E. exact (entitled_terminal_call K HK v0 o p1 p2 p3 p t He Hp).
  - exact (is_term_call_terminal p t Hp).
Qed.
End Classes.

Section BehaviorClass.
Context {A : Type} (pynone : A) (react : nat -> nat -> list (@op A)) (v0 : A).
Notation C := (behavior_cls pynone).

Theorem behavior_tree_values top fuel o :
  let c := run C react fuel (init_cfg v0 top) in
  exists dropped,
    Permutation (vals (view o (log_of c)) ++ pendn o (c_k c) ++ dropped) (greeting v0 o (log_of c) ++ entitled o (log_of c)) /\
    (forall os, c_obs c o = Some os -> a_stopped os = false -> dropped = []).
Proof.
  intros c. destruct (tree_notifications pynone KBehavior behavior_not_async react v0 top fuel o) as [dr [HP [Hd _]]].
  fold c in HP, Hd. exists (vals dr). split.
  - eapply Permutation_trans; [|apply vals_entitled_behavior].
    rewrite <- vals_pend, <- !vals_app. unfold vals. apply Permutation_flat_map. exact HP.
  - intros os Hm Hs. now rewrite (Hd os Hm Hs).
Qed.

Corollary behavior_tree_finished top fuel o os :
  let c := run C react fuel (init_cfg v0 top) in
  c_k c = [] -> c_obs c o = Some os -> a_stopped os = false ->
  Permutation (vals (view o (log_of c))) (greeting v0 o (log_of c) ++ entitled o (log_of c)).
Proof.
  intros c Hk Hm Hs. destruct (behavior_tree_values top fuel o) as [dr [HP Hd]]. fold c in HP, Hd.
  rewrite (Hd os Hm Hs), Hk in HP. cbn [pendn flat_map] in HP. now rewrite !app_nil_r in HP.
Qed.

(* where a received value comes from: an on_next call made after o's subscribe call and before any
   terminating call, OR the greeting: the latest on_next value (the initial value if none) at the
   moment of o's first subscribe call, made before any terminating call *)
Theorem behavior_tree_value_origin top fuel o v :
  let c := run C react fuel (init_cfg v0 top) in
  In (Next v) (view o (log_of c)) ->
  (exists p1 p2 p3, log_of c = p1 ++ EOp (OSub o) :: p2 ++ EOp (ONext v) :: p3 /\
                    existsb end_ev (p1 ++ EOp (OSub o) :: p2) = false) \/
  (exists p1 p3, log_of c = p1 ++ EOp (OSub o) :: p3 /\ existsb (sub_ev o) p1 = false /\
                 existsb end_ev p1 = false /\ v = last_next v0 (calls_of p1)).
Proof.
  intros c Hin. destruct (behavior_tree_values top fuel o) as [dr [HP _]]. fold c in HP.
  assert (Hv : In v (vals (view o (log_of c)))).
  { unfold vals. apply in_flat_map. exists (Next v). split; [exact Hin|left; reflexivity]. }
  assert (H : In v (greeting v0 o (log_of c) ++ entitled o (log_of c))).
  { apply (Permutation_in v HP). apply in_or_app. left. exact Hv. }
  apply in_app_or in H. destruct H as [H|H]; [right; exact (greeting_in v0 o v _ H)|left; exact (entitled_in o v _ H)].
Qed.

(* the greeting comes AT ONCE: the entry of the log right after o's first subscribe call on a live
   BehaviorSubject is the delivery of the latest value to o *)
Theorem behavior_tree_greeting_at_once top fuel o p1 rest :
  let c := run C react fuel (init_cfg v0 top) in
  log_of c = p1 ++ EOp (OSub o) :: rest -> existsb (sub_ev o) p1 = false -> existsb end_ev p1 = false ->
  (rest = [] /\ c_k c <> []) \/ exists rest', rest = EGot o (Next (last_next v0 (calls_of p1))) :: rest'.
Proof.
  intros c E Hs He.
  assert (L : live (gev (g_init v0) p1) = true) by (rewrite gev_live, He; reflexivity).
  apply (tree_answered_at_once pynone KBehavior behavior_not_async react v0 top fuel o p1 rest _ E Hs).
  unfold greet. unfold live in L. destruct (g_status (gev (g_init v0) p1)) eqn:Eg; try discriminate L.
  rewrite gev_g_run in *. f_equal. f_equal.
  apply (proj2 (g_run_live_cur (calls_of p1) (g_init v0) ltac:(unfold live; now rewrite Eg))).
Qed.
End BehaviorClass.

(* a finite reaction table whose callbacks never emit *)
Definition quiet_tbl {A} (t : list (nat * list (list (@op A)))) : bool :=
  forallb (fun x => forallb (forallb (fun p => negb (is_emission p))) (snd x)) t.

Lemma quiet_tbl_sound {A} (t : list (nat * list (list (@op A)))) :
  quiet_tbl t = true -> forall o j p, In p (react_tbl t o j) -> is_emission p = false.
Proof.
  induction t as [|[o' sc] t IH]; intros H o j p Hi; [destruct Hi|].
  cbn [quiet_tbl forallb snd] in H. apply andb_true_iff in H. destruct H as [H1 H2].
  cbn [react_tbl] in Hi. destruct (Nat.eqb o' o); [|exact (IH H2 o j p Hi)].
  destruct (nth_in_or_default j sc []) as [Hn|Hn]; [|rewrite Hn in Hi; destruct Hi].
  rewrite forallb_forall in H1. specialize (H1 _ Hn). rewrite forallb_forall in H1. specialize (H1 _ Hi).
  now destruct (is_emission p).
Qed.
