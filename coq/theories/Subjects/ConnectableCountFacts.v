(* C24: ref_count / share and auto_connect.  Counting invariants of Subjects/Connectable.v's
   machine for EVERY subject engine, on histories of top-level calls (subscribers do not call back,
   no manual connect() next to the operator): the continuation is body ++ mid ++ tail where mid is
   the pending part of the one subscribe() in progress. *)
From RxVerif Require Import Base.Prelude Ops.Machine Subjects.Subject Subjects.Behavior Subjects.Async
  Subjects.Family Subjects.Replay Subjects.Connectable Subjects.ConnectableFacts.
Require Import Lia.
Local Open Scope nat_scope.

(* ---- counting the subscribers whose Disposable(dispose) is armed ---- *)
Definition oflag (m : outmap) (o : nat) : bool :=
  match m o with Some u => u_sad_set u | None => false end.
Definition nact (m : outmap) (L : list nat) : nat := length (filter (oflag m) L).

Lemma oflag_upd_same m o u : oflag (oupd m o u) o = u_sad_set u.
Proof. unfold oflag, oupd. now rewrite Nat.eqb_refl. Qed.
Lemma oflag_upd_other m o u x : x <> o -> oflag (oupd m o u) x = oflag m x.
Proof. intros H. unfold oflag, oupd. destruct (Nat.eqb x o) eqn:E; [apply Nat.eqb_eq in E; contradiction|reflexivity]. Qed.

Lemma nact_notin m o u L : ~ In o L -> nact (oupd m o u) L = nact m L.
Proof.
  unfold nact. induction L as [|x L IH]; intros H; [reflexivity|]. cbn [filter].
  rewrite oflag_upd_other by (intro; subst; apply H; left; reflexivity).
  assert (G : ~ In o L) by (intro; apply H; right; assumption).
  destruct (oflag m x); cbn [length]; rewrite (IH G); reflexivity.
Qed.

Lemma nact_upd m o u L :
  NoDup L -> In o L ->
  nact (oupd m o u) L + (if oflag m o then 1 else 0) = nact m L + (if u_sad_set u then 1 else 0).
Proof.
  unfold nact. induction L as [|x L IH]; intros Hn Hi; [destruct Hi|].
  inversion Hn as [|? ? Hx Hn']; subst. cbn [filter].
  destruct (Nat.eq_dec x o) as [->|N].
  - rewrite oflag_upd_same. pose proof (nact_notin m o u L Hx) as E. unfold nact in E.
    destruct (u_sad_set u), (oflag m o); cbn [length]; lia.
  - rewrite oflag_upd_other by exact N. destruct Hi as [Hi|Hi]; [contradiction|].
    specialize (IH Hn' Hi). destruct (oflag m x); cbn [length]; lia.
Qed.

Lemma nact_app m L o : nact m (L ++ [o]) = nact m L + (if oflag m o then 1 else 0).
Proof. unfold nact. rewrite filter_app, app_length. cbn. destruct (oflag m o); reflexivity. Qed.

Lemma NoDup_snoc (l : list nat) o : NoDup l -> ~ In o l -> NoDup (l ++ [o]).
Proof.
  induction l as [|x l IH]; intros Hn Hi; [repeat constructor; intros []|].
  inversion Hn; subst. cbn. constructor.
  - rewrite in_app_iff. intros [G|[G|[]]]; [contradiction|]. subst. apply Hi. left. reflexivity.
  - apply IH; [assumption|]. intros G. apply Hi. right. exact G.
Qed.

Lemma nact_pos m L o : In o L -> oflag m o = true -> 0 < nact m L.
Proof.
  unfold nact. induction L as [|x L IH]; intros Hi Hf; [destruct Hi|]. cbn.
  destruct Hi as [->|Hi]; [rewrite Hf; cbn; lia|]. destruct (oflag m x); cbn; [lia|auto].
Qed.

Section Outer.
Context {A E_st E_in E_op : Type}.
Context (e_exec : E_in -> E_st -> E_st * list E_in * list (@sev A E_op)).
Context (e_call : @sop A -> list E_in).
Context (md : mode) (reach : bool) (cold : list (ev A)).
Notation kinstr := (@kinstr A E_in).
Notation kcfg := (@kcfg A E_st E_in E_op).
Notation cevent := (@cevent A E_op).
Notation csil := (fun (_ _ : nat) => @nil (@cop A)).
Notation stepk := (kstep e_exec e_call md reach cold csil).
Notation runk := (krun e_exec e_call md reach cold csil).

(* the continuation of a run without call-backs and without manual connect():
   body ++ mid ++ tail *)
Definition isbody (i : kinstr) : Prop :=
  match i with KS _ | KOuter _ _ | KDec | KSrc _ _ | KSrcFin _ | KHandle _ => True | _ => False end.
Definition nomanual (p : @cop A) : Prop := match p with CConnect | CDisc _ => False | _ => True end.
Definition tail_ok (i : kinstr) : Prop :=
  match i with KS _ => True | KOp p => nomanual p | _ => False end.

Inductive mid :=
| MNone
| MInc (o : nat)
| MConn (w : caller) (r : list kinstr)
| MConnRet (cid : nat) (w : caller) (r : list kinstr)
| MRet (o : nat).
Definition mid_list (x : mid) : list kinstr :=
  match x with
  | MNone => []
  | MInc o => [KInc o]
  | MConn w r => KConnect w :: r
  | MConnRet cid w r => KConnRet cid w :: r
  | MRet o => [KRet o]
  end.

Definition ndec (k : list kinstr) : nat := length (filter (fun i => match i with KDec => true | _ => false end) k).
Lemma ndec_app k1 k2 : ndec (k1 ++ k2) = ndec k1 + ndec k2.
Proof. unfold ndec. now rewrite filter_app, app_length. Qed.
Lemma ndec_KS l : ndec (map (@KS A E_in) l) = 0.
Proof. induction l; cbn; auto. Qed.
Lemma ndec_KSrc cid l : ndec (map (@KSrc A E_in cid) l) = 0.
Proof. induction l; cbn; auto. Qed.
Lemma ndec_srcs n l : ndec (map (fun cid => @KSrc A E_in cid n) l) = 0.
Proof. induction l; cbn; auto. Qed.

Lemma body_KS l : Forall isbody (map (@KS A E_in) l).
Proof. induction l; constructor; cbn; auto. Qed.
Lemma body_KSrc cid l : Forall isbody (map (@KSrc A E_in cid) l).
Proof. induction l; constructor; cbn; auto. Qed.
Lemma body_srcs n l : Forall isbody (map (fun cid => @KSrc A E_in cid n) l).
Proof. induction l; constructor; cbn; auto. Qed.

Definition dom (m : outmap) (L : list nat) : Prop := forall o, In o L -> m o <> None.

Lemma dom_upd m L o u : dom m L -> dom (oupd m o u) L.
Proof.
  intros H x Hx. unfold oupd. destruct (Nat.eqb x o); [discriminate|apply H; exact Hx].
Qed.
Lemma dom_upd_new m L o u : dom m L -> dom (oupd m o u) (L ++ [o]).
Proof.
  intros H x Hx. unfold oupd. destruct (Nat.eqb x o) eqn:E; [discriminate|].
  apply in_app_or in Hx. destruct Hx as [Hx|[Hx|[]]]; [apply H; exact Hx|].
  subst. rewrite Nat.eqb_refl in E. discriminate.
Qed.

Definition inflight (x : mid) : nat := match x with MConn _ _ | MConnRet _ _ _ | MRet _ => 1 | _ => 0 end.
Definition connecting (x : mid) : Prop := match x with MConn _ _ | MConnRet _ _ _ => True | _ => False end.

(* books that differ only in what the counting invariants do not look at *)
Definition bsame (b b' : book) : Prop :=
  count b' = count b /\ has_sub b' = has_sub b /\ rc_sub b' = rc_sub b /\ ac_conn b' = ac_conn b /\
  forall cid, comp_disposed (get_conn b' cid) = comp_disposed (get_conn b cid).

Lemma bsame_refl b : bsame b b.
Proof. unfold bsame. tauto. Qed.

Lemma bsame_put b cid c' :
  comp_disposed c' = comp_disposed (get_conn b cid) -> bsame b (put_conn cid c' b).
Proof.
  intros H. unfold bsame. repeat split; try reflexivity. intros x.
  rewrite (get_put b cid c' x). destruct (Nat.eqb x cid && (cid <? blen b)) eqn:E; [|reflexivity].
  apply andb_prop in E. destruct E as [E _]. apply Nat.eqb_eq in E. now subst.
Qed.

Lemma comp_sado cid (c : sconn) :
  comp_disposed (fst (@sado_dispose A E_op cid c)) = comp_disposed c.
Proof.
  unfold sado_dispose, src_dispose. cbn [s_sad_disposed s_sad_set s_live comp_disposed].
  destruct (s_sad_disposed c); [reflexivity|]. destruct (s_sad_set c); [|reflexivity].
  destruct (s_live c); reflexivity.
Qed.
End Outer.

(* ---- ref_count / share ---- *)
Section RefCount.
Context {A E_st E_in E_op : Type}.
Context (e_exec : E_in -> E_st -> E_st * list E_in * list (@sev A E_op)).
Context (e_call : @sop A -> list E_in).
Context (reach : bool) (cold : list (ev A)).
Notation kinstr := (@kinstr A E_in).
Notation kcfg := (@kcfg A E_st E_in E_op).
Notation csil := (fun (_ _ : nat) => @nil (@cop A)).
Notation stepk := (kstep e_exec e_call MRefCount reach cold csil).
Notation runk := (krun e_exec e_call MRefCount reach cold csil).
Notation mid := (@mid A E_in).

Record RCI (b : book) (m : outmap) (body : list kinstr) (x : mid) (L : list nat) : Prop := {
  rc_body : Forall isbody body;
  rc_nodup : NoDup L;
  rc_dom : dom m L;
  rc_flag : forall o, oflag m o = true -> In o L;
  rc_count : count b = Z.of_nat (nact m L + inflight x + ndec body);
  rc_has : has_sub b = (0 <? count b - (match x with MConn _ _ => 1 | _ => 0 end))%Z;
  rc_conn : connecting x -> nact m L = 0 /\ ndec body = 0;
  rc_truthy : has_sub b = true -> ~ connecting x ->
              exists cid, rc_sub b = Some cid /\ comp_disposed (get_conn b cid) = false;
  rc_mid : match x with
           | MNone => True
           | MInc o => oflag m o = false /\ In o L
           | MConn w r => w = ByRefCount /\ exists o, r = [KRet o] /\ oflag m o = false /\ In o L
           | MConnRet cid w r => w = ByRefCount /\ comp_disposed (get_conn b cid) = false /\
                                 exists o, r = [KRet o] /\ oflag m o = false /\ In o L
           | MRet o => oflag m o = false /\ In o L
           end }.

(* a body instruction that touches neither the counters nor the armed flags *)
Lemma RCI_frame b m i body x L b' m' pushed :
  RCI b m (i :: body) x L -> ndec [i] = 0 -> Forall isbody pushed -> ndec pushed = 0 ->
  bsame b b' -> (forall o, oflag m' o = oflag m o) -> dom m' L ->
  RCI b' m' (pushed ++ body) x L.
Proof.
  intros [h1 h2 h3 hf h4 h5 h6 h7 h8] Hi Hp Hd [B1 [B2 [B3 [B4 B5]]]] Hf Hdom.
  assert (Hn : nact m' L = nact m L).
  { unfold nact. f_equal. apply filter_ext. exact Hf. }
  assert (Hb : ndec (i :: body) = ndec body).
  { change (i :: body) with ([i] ++ body). rewrite ndec_app, Hi. reflexivity. }
  constructor.
  - apply Forall_app. split; [exact Hp|]. inversion h1. assumption.
  - exact h2.
  - exact Hdom.
  - intros o Ho. apply hf. now rewrite <- Hf.
  - rewrite B1, h4, Hn, ndec_app, Hd, Hb. reflexivity.
  - rewrite B2, B1. exact h5.
  - intros G. destruct (h6 G) as [G1 G2]. rewrite Hn, ndec_app, Hd. rewrite Hb in G2. auto.
  - rewrite B2, B3. intros G1 G2. destruct (h7 G1 G2) as [cid [G3 G4]]. exists cid. now rewrite B5.
  - destruct x as [|o|w r|cid w r|o].
    + exact I.
    + rewrite Hf. exact h8.
    + destruct h8 as [G [o [G1 [G2 G3]]]]. split; [exact G|]. exists o. rewrite Hf. auto.
    + destruct h8 as [G [G0 [o [G1 [G2 G3]]]]]. split; [exact G|]. split; [now rewrite B5|]. exists o. rewrite Hf. auto.
    + rewrite Hf. exact h8.
Qed.

Lemma comp_dispose_fields cid (b : book) :
  comp_disposed (get_conn b cid) = false ->
  has_sub (fst (@comp_dispose A E_op cid b)) = false /\
  count (fst (@comp_dispose A E_op cid b)) = count b /\
  rc_sub (fst (@comp_dispose A E_op cid b)) = rc_sub b.
Proof.
  intros H. unfold comp_dispose. rewrite H.
  match goal with |- context [sado_dispose cid ?c] => destruct (sado_dispose cid c) as [c2 evs] end.
  cbn. auto.
Qed.

Definition SR (c' : kcfg) (tail : list kinstr) : Prop :=
  exists body' x' L', k_k c' = body' ++ mid_list x' ++ tail /\ RCI (k_bk c') (k_out c') body' x' L'.

Lemma oflag_calls m o u :
  (match m o with Some u0 => u0 | None => fresh_outer end) = u ->
  forall x, oflag (oupd m o (Outer (u_sad_disposed u) (u_sad_set u) (u_handle u) (S (u_calls u)))) x = oflag m x.
Proof.
  intros E x. destruct (Nat.eq_dec x o) as [->|N]; [|now apply oflag_upd_other].
  rewrite oflag_upd_same. cbn. unfold oflag. destruct (m o); subst; reflexivity.
Qed.

Lemma RCI_body_step st b m l i body x tail L :
  RCI b m (i :: body) x L ->
  SR (stepk (KCfg st b m (i :: body ++ mid_list x ++ tail) l)) tail.
Proof.
  intros H. pose proof (rc_body _ _ _ _ _ H) as Hb. inversion Hb as [|? ? Hi Hb']; subst.
  unfold SR, kstep. cbn [k_k k_bk k_log k_out k_eng].
  destruct i as [p|ei|o|o|o|o u| |w|cid w|cid n|cid]; try contradiction.
  - (* KS *)
    destruct (e_exec ei st) as [[st' pushed] evs].
    destruct (fold_left _ evs None) as [[o n]|]; cbn [k_k k_bk k_out].
    + exists (map KS pushed ++ (if is_terminal n && is_outer_mode MRefCount then [KOuter o false] else []) ++ body), x, L.
      split; [now rewrite <- !app_assoc|].
      rewrite app_assoc. eapply RCI_frame; [exact H|reflexivity| | |apply bsame_refl| |apply dom_upd; exact (rc_dom _ _ _ _ _ H)].
      * apply Forall_app. split; [apply body_KS|]. destruct (is_terminal n && _); repeat constructor.
      * rewrite ndec_app, ndec_KS. destruct (is_terminal n && _); reflexivity.
      * apply oflag_calls. reflexivity.
    + exists (map KS pushed ++ body), x, L. split; [now rewrite <- !app_assoc|].
      eapply RCI_frame; [exact H|reflexivity|apply body_KS|apply ndec_KS|apply bsame_refl|reflexivity|exact (rc_dom _ _ _ _ _ H)].
  - (* KHandle *)
    destruct (m o) as [u0|] eqn:Em; cbn [k_k k_bk k_out]; exists body, x, L; (split; [reflexivity|]);
      change body with ([] ++ body).
    + eapply RCI_frame; [exact H|reflexivity|constructor|reflexivity|apply bsame_refl| |apply dom_upd; exact (rc_dom _ _ _ _ _ H)].
      intros y. destruct (Nat.eq_dec y o) as [->|N]; [|now apply oflag_upd_other].
      rewrite oflag_upd_same. cbn. unfold oflag. now rewrite Em.
    + eapply RCI_frame; [exact H|reflexivity|constructor|reflexivity|apply bsame_refl|reflexivity|exact (rc_dom _ _ _ _ _ H)].
  - (* KOuter *)
    assert (Hsame : RCI b m body x L).
    { change body with ([] ++ body). eapply RCI_frame; [exact H|reflexivity|constructor|reflexivity|apply bsame_refl|reflexivity|exact (rc_dom _ _ _ _ _ H)]. }
    destruct (m o) as [u0|] eqn:Em; [|exists body, x, L; split; [reflexivity|exact Hsame]].
    destruct (u_sad_disposed u0) eqn:Ed; [exists body, x, L; split; [reflexivity|exact Hsame]|].
    destruct (u_sad_set u0) eqn:Es; cbn [k_k k_bk k_out].
    + (* armed: the body of dispose() will run *)
      assert (Hf : oflag m o = true) by (unfold oflag; now rewrite Em).
      pose proof (rc_flag _ _ _ _ _ H o Hf) as Hin.
      assert (Hnc : ~ connecting x).
      { intros G. destruct (rc_conn _ _ _ _ _ H G) as [G1 _]. pose proof (nact_pos m L o Hin Hf). lia. }
      pose proof (nact_upd m o (Outer true false (u_handle u0) (u_calls u0)) L (rc_nodup _ _ _ _ _ H) Hin) as Hn.
      rewrite Hf in Hn. cbn [u_sad_set] in Hn.
      exists ((if u then map KS (e_call (SUnsub o)) else []) ++ KDec :: body), x, L.
      split; [now rewrite <- !app_assoc|].
      destruct H as [h1 h2 h3 hf h4 h5 h6 h7 h8]. constructor.
      * apply Forall_app. split; [destruct u; [apply body_KS|constructor]|]. constructor; [exact I|exact Hb'].
      * exact h2.
      * apply dom_upd. exact h3.
      * intros y Hy. destruct (Nat.eq_dec y o) as [->|N]; [rewrite oflag_upd_same in Hy; discriminate|].
        rewrite oflag_upd_other in Hy by exact N. auto.
      * rewrite h4. f_equal. rewrite ndec_app. change (KOuter o u :: body) with ([KOuter o u] ++ body).
        change (KDec :: body) with ([KDec] ++ body). rewrite !ndec_app.
        assert (E : ndec (if u then map (@KS A E_in) (e_call (SUnsub o)) else []) = 0) by (destruct u; [apply ndec_KS|reflexivity]).
        rewrite E. cbn. lia.
      * exact h5.
      * intros G. contradiction.
      * exact h7.
      * destruct x as [|o'|w r|cid w r|o']; try exact I; try (exfalso; apply Hnc; exact I).
        -- destruct h8 as [G1 G2]. split; [|exact G2].
           destruct (Nat.eq_dec o' o) as [->|N]; [now rewrite oflag_upd_same|now rewrite oflag_upd_other].
        -- destruct h8 as [G1 G2]. split; [|exact G2].
           destruct (Nat.eq_dec o' o) as [->|N]; [now rewrite oflag_upd_same|now rewrite oflag_upd_other].
    + (* not armed yet (subscribe() has not returned): only marked *)
      exists body, x, L. split; [reflexivity|].
      change body with ([] ++ body). eapply RCI_frame; [exact H|reflexivity|constructor|reflexivity|apply bsame_refl| |apply dom_upd; exact (rc_dom _ _ _ _ _ H)].
      intros y. destruct (Nat.eq_dec y o) as [->|N]; [|now apply oflag_upd_other].
      rewrite oflag_upd_same. cbn. unfold oflag. now rewrite Em, Es.
  - (* KDec *)
    assert (Hnc : ~ connecting x).
    { intros G. destruct (rc_conn _ _ _ _ _ H G) as [_ G2]. cbn in G2. discriminate. }
    pose proof (rc_count _ _ _ _ _ H) as Hc. change (KDec :: body) with ([KDec] ++ body) in Hc.
    rewrite ndec_app in Hc. cbn [ndec filter length] in Hc.
    pose proof (rc_has _ _ _ _ _ H) as Hh.
    assert (Hx : (match x with MConn _ _ => 1 | _ => 0 end = 0)%Z).
    { destruct x; try reflexivity. exfalso. apply Hnc. exact I. }
    rewrite Hx, Z.sub_0_r in Hh.
    assert (Hht : has_sub b = true) by (rewrite Hh; apply Z.ltb_lt; lia).
    destruct (rc_truthy _ _ _ _ _ H Hht Hnc) as [cid [Hr Hcd]].
    cbn [count rc_sub set_count]. rewrite Hr. unfold truthy.
    change (get_conn (set_count (count b - 1) b) cid) with (get_conn b cid). rewrite Hcd. cbn [negb].
    rewrite Bool.andb_true_r.
    destruct H as [h1 h2 h3 hf h4 h5 h6 h7 h8].
    destruct (Z.eqb_spec (count b - 1) 0) as [E0|E0].
    + assert (Hcd' : comp_disposed (get_conn (set_count (count b - 1) b) cid) = false) by exact Hcd.
      destruct (comp_dispose_fields cid (set_count (count b - 1) b) Hcd') as [F1 [F2 F3]].
      destruct (Connectable.comp_dispose cid (set_count (count b - 1) b)) as [b2 evs]. cbn [fst] in F1, F2, F3.
      cbn [k_k k_bk k_out]. exists body, x, L. split; [reflexivity|]. constructor; auto.
      * rewrite F2. cbn [count set_count]. lia.
      * rewrite F1, F2, Hx. cbn [count set_count]. rewrite E0. reflexivity.
      * intros G. contradiction.
      * rewrite F1. discriminate.
      * destruct x as [|o'|w r|cid' w r|o']; try exact h8; exfalso; apply Hnc; exact I.
    + cbn [k_k k_bk k_out]. exists body, x, L. split; [reflexivity|]. constructor; auto.
      * cbn [count set_count]. lia.
      * cbn [count set_count has_sub]. rewrite Hx, Hht. symmetry. apply Z.ltb_lt. lia.
      * intros G. contradiction.
  - (* KSrc *)
    destruct (negb (s_live (get_conn b cid))); [|destruct (s_stopped (get_conn b cid))]; cbn [k_k k_bk k_out].
    + exists body, x, L. split; [reflexivity|]. change body with ([] ++ body).
      eapply RCI_frame; [exact H|reflexivity|constructor|reflexivity|apply bsame_refl|reflexivity|exact (rc_dom _ _ _ _ _ H)].
    + exists body, x, L. split; [reflexivity|]. change body with ([] ++ body).
      eapply RCI_frame; [exact H|reflexivity|constructor|reflexivity|apply bsame_refl|reflexivity|exact (rc_dom _ _ _ _ _ H)].
    + destruct n as [v|e|]; cbn [k_k k_bk k_out].
      * exists (map KS (e_call (SNext v)) ++ body), x, L. split; [now rewrite <- app_assoc|].
        eapply RCI_frame; [exact H|reflexivity|apply body_KS|apply ndec_KS|apply bsame_refl|reflexivity|exact (rc_dom _ _ _ _ _ H)].
      * exists ((map KS (e_call (SErr e)) ++ [KSrcFin cid]) ++ body), x, L.
        split; [rewrite <- !app_assoc; reflexivity|].
        eapply RCI_frame; [exact H|reflexivity| | |apply bsame_put; reflexivity|reflexivity|exact (rc_dom _ _ _ _ _ H)].
        -- apply Forall_app. split; [apply body_KS|repeat constructor].
        -- rewrite ndec_app, ndec_KS. reflexivity.
      * exists ((map KS (e_call SDone) ++ [KSrcFin cid]) ++ body), x, L.
        split; [rewrite <- !app_assoc; reflexivity|].
        eapply RCI_frame; [exact H|reflexivity| | |apply bsame_put; reflexivity|reflexivity|exact (rc_dom _ _ _ _ _ H)].
        -- apply Forall_app. split; [apply body_KS|repeat constructor].
        -- rewrite ndec_app, ndec_KS. reflexivity.
  - (* KSrcFin *)
    pose proof (comp_sado (A := A) (E_op := E_op) cid (get_conn b cid)) as G.
    destruct (Connectable.sado_dispose cid (get_conn b cid)) as [c1 evs]. cbn [fst] in G.
    cbn [k_k k_bk k_out]. exists body, x, L. split; [reflexivity|]. change body with ([] ++ body).
    eapply RCI_frame; [exact H|reflexivity|constructor|reflexivity|apply bsame_put; exact G|reflexivity|exact (rc_dom _ _ _ _ _ H)].
Qed.

Lemma ndec_nil : ndec (@nil kinstr) = 0.
Proof. reflexivity. Qed.

Lemma RCI_mid_step st b m l x tail L :
  x <> MNone -> RCI b m [] x L ->
  SR (stepk (KCfg st b m (mid_list x ++ tail) l)) tail.
Proof.
  intros Hx H. unfold SR, kstep. cbn [k_k k_bk k_log k_out k_eng].
  destruct H as [h1 h2 h3 hf h4 h5 h6 h7 h8]. rewrite ndec_nil, Nat.add_0_r in h4.
  destruct x as [|o|w r|cid w r|o]; [contradiction| | | |]; cbn [mid_list app inflight] in *.
  - (* KInc *)
    destruct h8 as [Hfo Hin]. rewrite Nat.add_0_r in h4. rewrite Z.sub_0_r in h5.
    cbn [count set_count ac_conn].
    destruct (Z.eqb_spec (count b + 1) 1) as [E|E]; cbn [k_k k_bk k_out app].
    + exists (map KS (e_call (SSub o))), (MConn ByRefCount [KRet o]), L.
      split; [reflexivity|]. assert (Hn : nact m L = 0) by lia.
      constructor.
      * apply body_KS.
      * exact h2.
      * exact h3.
      * exact hf.
      * cbn [count set_count inflight]. rewrite ndec_KS. lia.
      * cbn [count set_count has_sub]. rewrite h5. replace (count b + 1 - 1)%Z with (count b) by lia. reflexivity.
      * intros _. split; [exact Hn|apply ndec_KS].
      * intros _ G. exfalso. apply G. exact I.
      * split; [reflexivity|]. exists o. auto.
    + exists (map KS (e_call (SSub o))), (MRet o), L.
      split; [reflexivity|].
      constructor.
      * apply body_KS.
      * exact h2.
      * exact h3.
      * exact hf.
      * cbn [count set_count inflight]. rewrite ndec_KS. lia.
      * cbn [count set_count has_sub]. rewrite h5, Z.sub_0_r.
        assert (0 < count b)%Z by lia.
        transitivity true; [apply Z.ltb_lt; lia|symmetry; apply Z.ltb_lt; lia].
      * intros [].
      * cbn [has_sub set_count rc_sub]. intros G _. apply h7; [exact G|]. intros [].
      * split; assumption.
  - (* KConnect *)
    destruct h8 as [-> [o [-> [Hfo Hin]]]]. destruct (h6 I) as [Hn _].
    assert (Hc : count b = 1%Z) by lia.
    rewrite Hc in h5. cbn in h5. rewrite h5. cbn [k_k k_bk k_out].
    exists (map (KSrc (length (conns b))) cold), (MConnRet (length (conns b)) ByRefCount [KRet o]), L.
    split; [reflexivity|]. constructor.
    + apply body_KSrc.
    + exact h2.
    + exact h3.
    + exact hf.
    + cbn [count set_conns set_has inflight]. rewrite ndec_KSrc. lia.
    + cbn [count has_sub set_conns set_has]. rewrite Hc. reflexivity.
    + intros _. split; [exact Hn|apply ndec_KSrc].
    + intros _ G. exfalso. apply G. exact I.
    + split; [reflexivity|]. split; [|exists o; auto].
      pose proof (get_conn_app_new (set_has true b) fresh_sconn) as G. unfold blen in G. cbn [conns set_has] in G.
      rewrite G. reflexivity.
  - (* KConnRet *)
    destruct h8 as [-> [Hcd [o [-> [Hfo Hin]]]]].
    set (c := get_conn b cid) in *.
    assert (Hc1 : comp_disposed (fst (if s_sad_disposed c then @src_dispose A E_op cid c
                                     else (SConn (s_stopped c) false true (s_live c) (comp_disposed c), []))) = false).
    { destruct (s_sad_disposed c); [|exact Hcd]. unfold src_dispose. destruct (s_live c); exact Hcd. }
    destruct (if s_sad_disposed c then @src_dispose A E_op cid c
              else (SConn (s_stopped c) false true (s_live c) (comp_disposed c), [])) as [c1 evs].
    cbn [fst] in Hc1. cbn [k_k k_bk k_out conn_return].
    exists [], (MRet o), L. split; [reflexivity|].
    constructor.
    + constructor.
    + exact h2.
    + exact h3.
    + exact hf.
    + cbn [count inflight set_rc set_cur put_conn set_conns]. rewrite ndec_nil. lia.
    + exact h5.
    + intros [].
    + intros _ _. exists cid. split; [reflexivity|].
      change (get_conn (set_rc (Some cid) (set_cur (Some cid) (put_conn cid c1 b))) cid)
        with (get_conn (put_conn cid c1 b) cid).
      rewrite (get_put b cid c1 cid). destruct (Nat.eqb cid cid && (cid <? blen b)); [exact Hc1|exact Hcd].
    + split; assumption.
  - (* KRet *)
    destruct h8 as [Hfo Hin].
    destruct (m o) as [u|] eqn:Em; [|exfalso; exact (h3 o Hin Em)].
    assert (Hs : u_sad_set u = false) by (unfold oflag in Hfo; now rewrite Em in Hfo).
    destruct (u_sad_disposed u); cbn [k_k k_bk k_out].
    + exists [KDec], MNone, L. split; [reflexivity|].
      assert (Hn : nact (oupd m o (Outer true false true (u_calls u))) L = nact m L).
      { pose proof (nact_upd m o (Outer true false true (u_calls u)) L h2 Hin) as G.
        rewrite Hfo in G. cbn in G. lia. }
      constructor.
      * repeat constructor.
      * exact h2.
      * apply dom_upd. exact h3.
      * intros y Hy. destruct (Nat.eq_dec y o) as [->|N]; [rewrite oflag_upd_same in Hy; discriminate|].
        rewrite oflag_upd_other in Hy by exact N. auto.
      * rewrite Hn. cbn [inflight ndec filter length]. lia.
      * exact h5.
      * intros [].
      * intros G _. apply h7; [exact G|]. intros [].
      * exact I.
    + exists [], MNone, L. split; [reflexivity|].
      assert (Hn : nact (oupd m o (Outer false true true (u_calls u))) L = S (nact m L)).
      { pose proof (nact_upd m o (Outer false true true (u_calls u)) L h2 Hin) as G.
        rewrite Hfo in G. cbn in G. lia. }
      constructor.
      * constructor.
      * exact h2.
      * apply dom_upd. exact h3.
      * intros y Hy. destruct (Nat.eq_dec y o) as [->|N]; [exact Hin|].
        rewrite oflag_upd_other in Hy by exact N. auto.
      * rewrite Hn, ndec_nil. cbn [inflight]. lia.
      * exact h5.
      * intros [].
      * intros G _. apply h7; [exact G|]. intros [].
      * exact I.
Qed.

Lemma RCI_body_ext b m L body :
  RCI b m [] MNone L -> Forall isbody body -> ndec body = 0 -> RCI b m body MNone L.
Proof.
  intros [h1 h2 h3 hf h4 h5 h6 h7 h8] Hb Hd. constructor; auto.
  - rewrite Hd. exact h4.
  - intros [].
Qed.

Lemma RCI_tail_step st b m l i tail L :
  tail_ok i -> RCI b m [] MNone L ->
  SR (stepk (KCfg st b m (i :: tail) l)) tail.
Proof.
  intros Hi H. destruct i as [p|ei|o|o|o|o u| |w|cid w|cid n|cid]; try contradiction.
  - (* KOp *)
    unfold SR, kstep. cbn [k_k k_bk k_log k_out k_eng].
    destruct p as [o|o| |j|v|e| |d]; try contradiction.
    + destruct (m o) as [u|] eqn:Em; cbn [k_k k_bk k_out].
      * exists [], MNone, L. split; [reflexivity|exact H].
      * exists [], (MInc o), (L ++ [o]). split; [reflexivity|].
        destruct H as [h1 h2 h3 hf h4 h5 h6 h7 h8].
        assert (Hni : ~ In o L) by (intros G; exact (h3 o G Em)).
        assert (Hn : nact (oupd m o fresh_outer) (L ++ [o]) = nact m L).
        { rewrite nact_app, oflag_upd_same. cbn. rewrite nact_notin by exact Hni. lia. }
        constructor.
        -- constructor.
        -- apply NoDup_snoc; assumption.
        -- apply dom_upd_new. exact h3.
        -- intros y Hy. destruct (Nat.eq_dec y o) as [->|N]; [rewrite oflag_upd_same in Hy; discriminate|].
           rewrite oflag_upd_other in Hy by exact N. apply in_or_app. left. auto.
        -- rewrite Hn. exact h4.
        -- exact h5.
        -- intros [].
        -- intros G _. apply h7; [exact G|]. intros [].
        -- split; [apply oflag_upd_same|apply in_or_app; right; left; reflexivity].
    + destruct (m o) as [u|]; [|exists [], MNone, L; split; [reflexivity|exact H]].
      destruct (u_handle u); [|exists [], MNone, L; split; [reflexivity|exact H]].
      cbn [is_outer_mode k_k k_bk k_out].
      exists [KOuter o true], MNone, L. split; [reflexivity|].
      apply RCI_body_ext; [exact H|repeat constructor|reflexivity].
    + cbn [k_k k_bk k_out]. exists (map (fun cid => KSrc cid (Next v)) (seq 0 (length (conns b)))), MNone, L.
      split; [now rewrite app_nil_l|]. apply RCI_body_ext; [exact H|apply body_srcs|apply ndec_srcs].
    + cbn [k_k k_bk k_out]. exists (map (fun cid => KSrc cid (Err e)) (seq 0 (length (conns b)))), MNone, L.
      split; [now rewrite app_nil_l|]. apply RCI_body_ext; [exact H|apply body_srcs|apply ndec_srcs].
    + cbn [k_k k_bk k_out]. exists (map (fun cid => KSrc cid Done) (seq 0 (length (conns b)))), MNone, L.
      split; [now rewrite app_nil_l|]. apply RCI_body_ext; [exact H|apply body_srcs|apply ndec_srcs].
    + cbn [k_k k_bk k_out]. exists (map KS (e_call (SAdv d))), MNone, L.
      split; [now rewrite app_nil_l|]. apply RCI_body_ext; [exact H|apply body_KS|apply ndec_KS].
  - (* KS: a drain instruction *)
    apply (RCI_body_step st b m l (KS ei) [] MNone tail L).
    apply RCI_body_ext; [exact H|repeat constructor|reflexivity].
Qed.

(* the invariant of a whole configuration *)
Definition RCc (c : kcfg) : Prop :=
  exists body x tail L, k_k c = body ++ mid_list x ++ tail /\ Forall tail_ok tail /\
                        RCI (k_bk c) (k_out c) body x L.

Theorem RC_step c : RCc c -> RCc (stepk c).
Proof.
  intros [body [x [tail [L [Hk [Ht H]]]]]]. destruct c as [st b m k l]. cbn [k_k k_bk k_out] in *. subst k.
  destruct body as [|i body].
  - destruct x as [|o|w r|cid w r|o].
    + cbn [mid_list app]. destruct tail as [|i tail].
      * exists [], MNone, [], L. cbn. auto.
      * inversion Ht as [|? ? Hi Ht']; subst.
        destruct (RCI_tail_step st b m l i tail L Hi H) as [body' [x' [L' [G1 G2]]]].
        exists body', x', tail, L'. auto.
    + destruct (RCI_mid_step st b m l (MInc o) tail L ltac:(discriminate) H) as [body' [x' [L' [G1 G2]]]].
      exists body', x', tail, L'. auto.
    + destruct (RCI_mid_step st b m l (MConn w r) tail L ltac:(discriminate) H) as [body' [x' [L' [G1 G2]]]].
      exists body', x', tail, L'. auto.
    + destruct (RCI_mid_step st b m l (MConnRet cid w r) tail L ltac:(discriminate) H) as [body' [x' [L' [G1 G2]]]].
      exists body', x', tail, L'. auto.
    + destruct (RCI_mid_step st b m l (MRet o) tail L ltac:(discriminate) H) as [body' [x' [L' [G1 G2]]]].
      exists body', x', tail, L'. auto.
  - destruct (RCI_body_step st b m l i body x tail L H) as [body' [x' [L' [G1 G2]]]].
    exists body', x', tail, L'. auto.
Qed.

Context (e_drain : list E_in).

Lemma tail_prog top : Forall nomanual top ->
  Forall tail_ok (map (@KS A E_in) e_drain ++ flat_map (fun p => KOp p :: map (@KS A E_in) e_drain) top).
Proof.
  intros H. apply Forall_app. split; [apply Forall_forall; intros i Hi; apply in_map_iff in Hi; destruct Hi as [? [<- _]]; exact I|].
  induction H as [|p t Hp _ IH]; [constructor|]. cbn [flat_map]. constructor; [exact Hp|].
  apply Forall_app. split; [|exact IH].
  apply Forall_forall. intros i Hi. apply in_map_iff in Hi. destruct Hi as [? [<- _]]. exact I.
Qed.

Lemma RC_init st0 top : Forall nomanual top -> RCc (kinit e_drain MRefCount st0 top).
Proof.
  intros H. exists [], MNone, (prog e_drain MRefCount top), []. split; [reflexivity|]. split.
  - unfold prog. cbn [app]. apply tail_prog. exact H.
  - constructor; cbn; auto; try tauto.
    + constructor.
    + intros o [].
    + intros o G. discriminate.
    + discriminate.
Qed.

Theorem RC_reachable st0 top fuel :
  Forall nomanual top -> RCc (runk fuel (kinit e_drain MRefCount st0 top)).
Proof. intros H. apply krun_ind; [apply RC_step|apply RC_init; exact H]. Qed.

Definition nconnect (k : list kinstr) : nat :=
  length (filter (fun i => match i with KConnect _ => true | _ => false end) k).
Definition nret (k : list kinstr) : nat :=
  length (filter (fun i => match i with KRet _ => true | _ => false end) k).

Lemma count_app (f : kinstr -> bool) k1 k2 :
  length (filter f (k1 ++ k2)) = length (filter f k1) + length (filter f k2).
Proof. now rewrite filter_app, app_length. Qed.

Lemma count_zero (f : kinstr -> bool) (P : kinstr -> Prop) k :
  Forall P k -> (forall i, P i -> f i = false) -> length (filter f k) = 0.
Proof.
  intros H Hf. induction H as [|i k Hi _ IH]; [reflexivity|]. cbn. now rewrite (Hf i Hi).
Qed.

(* C24, ref_count / share on histories of top-level calls without manual connect():
   the connectable is connected exactly when the subscriber count is positive -- the one
   exception being the window inside subscribe() between `count += 1` and `source.connect()` *)
Theorem rc_connected_iff_count st0 top fuel :
  Forall nomanual top ->
  let c := runk fuel (kinit e_drain MRefCount st0 top) in
  has_sub (k_bk c) = (0 <? count (k_bk c) - Z.of_nat (nconnect (k_k c)))%Z.
Proof.
  intros Hm c. destruct (RC_reachable st0 top fuel Hm) as [body [x [tail [L [Hk [Ht H]]]]]]. fold c in Hk, H.
  rewrite (rc_has _ _ _ _ _ H), Hk. unfold nconnect. rewrite !count_app.
  rewrite (count_zero _ isbody body (rc_body _ _ _ _ _ H)) by (intros [] Hi; try contradiction; reflexivity).
  rewrite (count_zero _ tail_ok tail Ht) by (intros [] Hi; try contradiction; reflexivity).
  pose proof (rc_mid _ _ _ _ _ H) as G.
  destruct x as [|o|w r|cid w r|o]; cbn [mid_list filter length]; try reflexivity.
  - destruct G as [_ [o [-> _]]]. reflexivity.
  - destruct G as [_ [_ [o [-> _]]]]. reflexivity.
Qed.

(* ... and the count is the number of subscribers whose dispose has not run: those whose
   subscribe() returned (armed), the one inside subscribe(), those whose dispose() is running *)
Theorem rc_count_is_subscribers st0 top fuel :
  Forall nomanual top ->
  let c := runk fuel (kinit e_drain MRefCount st0 top) in
  exists L, NoDup L /\ (forall o, oflag (k_out c) o = true -> In o L) /\
            count (k_bk c) = Z.of_nat (nact (k_out c) L + nret (k_k c) + ndec (k_k c)).
Proof.
  intros Hm c. destruct (RC_reachable st0 top fuel Hm) as [body [x [tail [L [Hk [Ht H]]]]]]. fold c in Hk, H.
  exists L. split; [exact (rc_nodup _ _ _ _ _ H)|]. split; [exact (rc_flag _ _ _ _ _ H)|].
  rewrite (rc_count _ _ _ _ _ H), Hk. unfold nret, ndec. rewrite !count_app.
  rewrite (count_zero (fun i => match i with KRet _ => true | _ => false end) isbody body (rc_body _ _ _ _ _ H))
    by (intros [] Hi; try contradiction; reflexivity).
  rewrite (count_zero (fun i => match i with KRet _ => true | _ => false end) tail_ok tail Ht)
    by (intros [] Hi; try contradiction; reflexivity).
  rewrite (count_zero (fun i => match i with KDec => true | _ => false end) tail_ok tail Ht)
    by (intros [] Hi; try contradiction; reflexivity).
  pose proof (rc_mid _ _ _ _ _ H) as G. f_equal.
  destruct x as [|o|w r|cid w r|o]; cbn [mid_list filter length inflight]; try lia.
  - destruct G as [_ [o [-> _]]]. cbn. lia.
  - destruct G as [_ [_ [o [-> _]]]]. cbn. lia.
Qed.

(* every connect() made by ref_count finds the connectable disconnected: it subscribes the source *)
Theorem rc_connect_subscribes st0 top fuel w k :
  Forall nomanual top ->
  let c := runk fuel (kinit e_drain MRefCount st0 top) in
  k_k c = KConnect w :: k -> has_sub (k_bk c) = false /\ count (k_bk c) = 1%Z.
Proof.
  intros Hm c Hk. destruct (RC_reachable st0 top fuel Hm) as [body [x [tail [L [Hk' [Ht H]]]]]]. fold c in Hk', H.
  rewrite Hk in Hk'. destruct body as [|i body].
  - destruct x as [|o|w' r|cid w' r|o]; cbn [mid_list app] in Hk'.
    + destruct tail as [|i tail]; [discriminate|]. inversion Hk'; subst i. inversion Ht as [|? ? G _]. contradiction.
    + discriminate.
    + destruct (rc_conn _ _ _ _ _ H I) as [G1 G2]. pose proof (rc_count _ _ _ _ _ H) as Hc.
      rewrite G1, G2 in Hc. cbn in Hc. split; [|exact Hc]. rewrite (rc_has _ _ _ _ _ H), Hc. reflexivity.
    + discriminate.
    + discriminate.
  - inversion Hk'; subst i. pose proof (rc_body _ _ _ _ _ H) as G. inversion G as [|? ? G1 _]. contradiction.
Qed.
End RefCount.

(* ---- auto_connect(n) ---- *)
Section AutoConnect.
Context {A E_st E_in E_op : Type}.
Context (e_exec : E_in -> E_st -> E_st * list E_in * list (@sev A E_op)).
Context (e_call : @sop A -> list E_in).
Context (n : nat) (reach : bool) (cold : list (ev A)).
Notation kinstr := (@kinstr A E_in).
Notation kcfg := (@kcfg A E_st E_in E_op).
Notation cevent := (@cevent A E_op).
Notation csil := (fun (_ _ : nat) => @nil (@cop A)).
Notation stepk := (kstep e_exec e_call (MAuto n) reach cold csil).
Notation runk := (krun e_exec e_call (MAuto n) reach cold csil).
Notation mid := (@mid A E_in).

Definition isconn (x : mid) : Z := match x with MConn _ _ => 1 | _ => 0 end.
Definition rok (r : list kinstr) : Prop := r = [] \/ exists o, r = [KRet o].

Record ACI (b : book) (body : list kinstr) (x : mid) : Prop := {
  ac_body : Forall isbody body;
  ac_has : has_sub b = (Z.of_nat n <=? count b - isconn x)%Z;
  ac_at : (match x with MConn _ _ => True | _ => False end) -> count b = Z.of_nat n;
  ac_flag : ac_conn b = true -> (Z.of_nat n <= count b - isconn x)%Z;
  ac_mid : match x with
           | MConn w r => w = ByAuto /\ rok r
           | MConnRet _ w r => w = ByAuto /\ rok r /\ has_sub b = true
           | _ => True
           end }.

Definition ACc (c : kcfg) : Prop :=
  exists body x tail, k_k c = body ++ mid_list x ++ tail /\ Forall tail_ok tail /\ ACI (k_bk c) body x /\
                      nssub (k_log c) = (if has_sub (k_bk c) then 1 else 0).

(* books that agree on what ACI looks at *)
Definition asame (b b' : book) : Prop :=
  count b' = count b /\ has_sub b' = has_sub b /\ (ac_conn b' = true -> ac_conn b = true).

Lemma ACI_frame b b' i body x pushed :
  ACI b (i :: body) x -> Forall isbody pushed -> asame b b' -> ACI b' (pushed ++ body) x.
Proof.
  intros [h1 h2 h3 h4 h5] Hp [B1 [B2 B3]]. constructor.
  - apply Forall_app. split; [exact Hp|]. inversion h1. assumption.
  - now rewrite B1, B2.
  - now rewrite B1.
  - rewrite B1. auto.
  - destruct x; auto. rewrite B2. exact h5.
Qed.

Lemma asame_refl b : asame b b.
Proof. unfold asame. auto. Qed.

Lemma ACI_body b body' : ACI b [] MNone -> Forall isbody body' -> ACI b body' MNone.
Proof. intros [h1 h2 h3 h4 h5] Hb. constructor; auto. Qed.

Lemma ACI_inc b o : ACI b [] MNone -> ACI b [] (MInc o).
Proof. intros [h1 h2 h3 h4 h5]. constructor; auto. Qed.

Lemma AC_step c : ACc c -> ACc (stepk c).
Proof.
  intros [body [x [tail [Hk [Ht [H Hn]]]]]].
  pose proof (only_connect_subscribes e_exec e_call (MAuto n) reach cold csil c) as Hs.
  destruct c as [st b m k l]. cbn [k_k k_bk k_out k_log] in *. subst k.
  assert (Hgoal : forall body' x' tail',
            k_k (stepk (KCfg st b m (body ++ mid_list x ++ tail) l)) = body' ++ mid_list x' ++ tail' ->
            Forall tail_ok tail' ->
            ACI (k_bk (stepk (KCfg st b m (body ++ mid_list x ++ tail) l))) body' x' ->
            (match body ++ mid_list x ++ tail with
             | KConnect _ :: _ => has_sub b = false /\ has_sub (k_bk (stepk (KCfg st b m (body ++ mid_list x ++ tail) l))) = true
             | _ => has_sub (k_bk (stepk (KCfg st b m (body ++ mid_list x ++ tail) l))) = has_sub b
             end) ->
            ACc (stepk (KCfg st b m (body ++ mid_list x ++ tail) l))).
  { intros body' x' tail' G1 G2 G3 G4. exists body', x', tail'. split; [exact G1|]. split; [exact G2|]. split; [exact G3|].
    rewrite Hs, Hn. destruct (body ++ mid_list x ++ tail) as [|[] ?]; try (rewrite G4; destruct (has_sub b); lia).
    destruct G4 as [G4 G5]. rewrite G4, G5. reflexivity. }
  clear Hs Hn.
  destruct body as [|i body].
  - destruct x as [|o|w r|cid w r|o]; cbn [mid_list app] in *.
    + (* tail *)
      destruct tail as [|i tail]; [apply (Hgoal [] MNone []); [reflexivity|constructor|exact H|reflexivity]|].
      apply Forall_cons_iff in Ht. destruct Ht as [Hi Ht'].
      destruct i as [p|ei|o|o|o|o u| |w|cid w|cid nn|cid]; try contradiction.
      * destruct p as [o|o| |j|v|e| |d]; try contradiction; unfold kstep in *; cbn [k_k k_bk k_log k_out k_eng] in *.
        -- destruct (m o); cbn [k_k k_bk] in *.
           ++ apply (Hgoal [] MNone tail); [reflexivity|exact Ht'|exact H|reflexivity].
           ++ apply (Hgoal [] (MInc o) tail); [reflexivity|exact Ht'|apply ACI_inc; exact H|reflexivity].
        -- destruct (m o) as [u|]; [|apply (Hgoal [] MNone tail); [reflexivity|exact Ht'|exact H|reflexivity]].
           destruct (u_handle u); [|apply (Hgoal [] MNone tail); [reflexivity|exact Ht'|exact H|reflexivity]].
           cbn [is_outer_mode k_k k_bk] in *.
           apply (Hgoal [KOuter o true] MNone tail); [reflexivity|exact Ht'| |reflexivity].
           apply ACI_body; [exact H|repeat constructor].
        -- cbn [k_k k_bk] in *.
           apply (Hgoal (map (fun cid => KSrc cid (Next v)) (seq 0 (length (conns b)))) MNone tail);
             [reflexivity|exact Ht'|apply ACI_body; [exact H|apply body_srcs]|reflexivity].
        -- cbn [k_k k_bk] in *.
           apply (Hgoal (map (fun cid => KSrc cid (Err e)) (seq 0 (length (conns b)))) MNone tail);
             [reflexivity|exact Ht'|apply ACI_body; [exact H|apply body_srcs]|reflexivity].
        -- cbn [k_k k_bk] in *.
           apply (Hgoal (map (fun cid => KSrc cid Done) (seq 0 (length (conns b)))) MNone tail);
             [reflexivity|exact Ht'|apply ACI_body; [exact H|apply body_srcs]|reflexivity].
        -- cbn [k_k k_bk] in *.
           apply (Hgoal (map KS (e_call (SAdv d))) MNone tail);
             [reflexivity|exact Ht'|apply ACI_body; [exact H|apply body_KS]|reflexivity].
      * unfold kstep in *. cbn [k_k k_bk k_log k_out k_eng] in *.
        destruct (e_exec ei st) as [[st' pushed] evs].
        destruct (fold_left _ evs None) as [[o nn]|]; cbn [k_k k_bk] in *.
        -- apply (Hgoal (map KS pushed ++ (if is_terminal nn && is_outer_mode (MAuto n) then [KOuter o false] else [])) MNone tail);
             [now rewrite <- !app_assoc|exact Ht'| |reflexivity].
           apply ACI_body; [exact H|]. apply Forall_app. split; [apply body_KS|].
           destruct (is_terminal nn && _); repeat constructor.
        -- apply (Hgoal (map KS pushed) MNone tail); [reflexivity|exact Ht'|apply ACI_body; [exact H|apply body_KS]|reflexivity].
    + (* KInc *)
      unfold kstep in *. cbn [k_k k_bk k_log k_out k_eng] in *.
      destruct H as [h1 h2 h3 h4 h5]. cbn [isconn] in *. rewrite Z.sub_0_r in h2, h4.
      cbn [count set_count ac_conn] in *.
      destruct ((count b + 1 =? Z.of_nat n)%Z && negb (ac_conn b)) eqn:Esh; cbn [k_k k_bk app] in *.
      * apply andb_prop in Esh. destruct Esh as [E1 E2]. apply Z.eqb_eq in E1.
        apply (Hgoal (map KS (e_call (SSub o))) (MConn ByAuto [KRet o]) tail); [reflexivity|exact Ht| |reflexivity].
        constructor; cbn [count set_count has_sub ac_conn isconn].
        -- apply body_KS.
        -- rewrite h2. f_equal. lia.
        -- intros _. exact E1.
        -- intros G. rewrite G in E2. discriminate.
        -- split; [reflexivity|]. right. exists o. reflexivity.
      * apply (Hgoal (map KS (e_call (SSub o))) (MRet o) tail); [reflexivity|exact Ht| |reflexivity].
        constructor; cbn [count set_count has_sub ac_conn isconn].
        -- apply body_KS.
        -- rewrite h2, Z.sub_0_r.
           apply Bool.andb_false_iff in Esh. destruct Esh as [E|E].
           ++ apply Z.eqb_neq in E. destruct (Z.leb_spec (Z.of_nat n) (count b)), (Z.leb_spec (Z.of_nat n) (count b + 1)); try reflexivity; lia.
           ++ apply Bool.negb_false_iff in E. specialize (h4 E).
              destruct (Z.leb_spec (Z.of_nat n) (count b)), (Z.leb_spec (Z.of_nat n) (count b + 1)); try reflexivity; lia.
        -- intros [].
        -- intros G. specialize (h4 G). lia.
        -- exact I.
    + (* KConnect *)
      unfold kstep in *. cbn [k_k k_bk k_log k_out k_eng] in *.
      destruct H as [h1 h2 h3 h4 [-> Hr]]. cbn [isconn] in *. specialize (h3 I).
      assert (Hf : has_sub b = false).
      { rewrite h2, h3. apply Z.leb_gt. lia. }
      rewrite Hf in *. cbn [k_k k_bk] in *.
      apply (Hgoal (map (KSrc (length (conns b))) cold) (MConnRet (length (conns b)) ByAuto r) tail);
        [reflexivity|exact Ht| |split; reflexivity].
      constructor; cbn [count has_sub set_conns set_has ac_conn isconn].
      * apply body_KSrc.
      * rewrite h3, Z.sub_0_r. symmetry. apply Z.leb_le. lia.
      * intros [].
      * intros _. lia.
      * auto.
    + (* KConnRet *)
      unfold kstep in *. cbn [k_k k_bk k_log k_out k_eng] in *.
      destruct H as [h1 h2 h3 h4 [-> [Hr Hh]]]. cbn [isconn] in *.
      destruct (if s_sad_disposed (get_conn b cid) then _ else _) as [c1 evs]. cbn [k_k k_bk conn_return] in *.
      assert (Hle : (Z.of_nat n <= count b)%Z).
      { rewrite Hh in h2. symmetry in h2. apply Z.leb_le in h2. lia. }
      destruct Hr as [->|[o ->]].
      * apply (Hgoal [] MNone tail); [reflexivity|exact Ht| |reflexivity].
        constructor; cbn [count has_sub ac_conn isconn set_ac set_cur put_conn set_conns]; auto.
        intros _. lia.
      * apply (Hgoal [] (MRet o) tail); [reflexivity|exact Ht| |reflexivity].
        constructor; cbn [count has_sub ac_conn isconn set_ac set_cur put_conn set_conns]; auto.
        intros _. lia.
    + (* KRet *)
      unfold kstep in *. cbn [k_k k_bk k_log k_out k_eng] in *.
      assert (H0 : ACI b [] MNone).
      { destruct H as [h1 h2 h3 h4 h5]. constructor; auto. }
      destruct (m o) as [u|]; [|apply (Hgoal [] MNone tail); [reflexivity|exact Ht|exact H0|reflexivity]].
      destruct (u_sad_disposed u); cbn [k_k k_bk] in *.
      * apply (Hgoal [KDec] MNone tail); [reflexivity|exact Ht|apply ACI_body; [exact H0|repeat constructor]|reflexivity].
      * apply (Hgoal [] MNone tail); [reflexivity|exact Ht|exact H0|reflexivity].
  - (* body *)
    pose proof (ac_body _ _ _ H) as Hb. apply Forall_cons_iff in Hb. destruct Hb as [Hi Hb'].
    unfold kstep in *. cbn [k_k k_bk k_log k_out k_eng app] in *.
    destruct i as [p|ei|o|o|o|o u| |w|cid w|cid nn|cid]; try contradiction.
    + destruct (e_exec ei st) as [[st' pushed] evs].
      destruct (fold_left _ evs None) as [[o nn]|]; cbn [k_k k_bk] in *.
      * apply (Hgoal ((map KS pushed ++ (if is_terminal nn && is_outer_mode (MAuto n) then [KOuter o false] else [])) ++ body) x tail);
          [now rewrite <- !app_assoc|exact Ht| |reflexivity].
        eapply ACI_frame; [exact H| |apply asame_refl].
        apply Forall_app. split; [apply body_KS|]. destruct (is_terminal nn && _); repeat constructor.
      * apply (Hgoal (map KS pushed ++ body) x tail); [now rewrite <- !app_assoc|exact Ht| |reflexivity].
        eapply ACI_frame; [exact H|apply body_KS|apply asame_refl].
    + destruct (m o) as [u0|]; cbn [k_k k_bk] in *;
        (apply (Hgoal ([] ++ body) x tail); [reflexivity|exact Ht| |reflexivity];
         eapply ACI_frame; [exact H|constructor|apply asame_refl]).
    + assert (Hsame : ACI b ([] ++ body) x) by (eapply ACI_frame; [exact H|constructor|apply asame_refl]).
      destruct (m o) as [u0|]; [|apply (Hgoal body x tail); [reflexivity|exact Ht|exact Hsame|reflexivity]].
      destruct (u_sad_disposed u0); [apply (Hgoal body x tail); [reflexivity|exact Ht|exact Hsame|reflexivity]|].
      destruct (u_sad_set u0); cbn [k_k k_bk] in *.
      * apply (Hgoal (((if u then map KS (e_call (SUnsub o)) else []) ++ [KDec]) ++ body) x tail);
          [now rewrite <- !app_assoc|exact Ht| |reflexivity].
        eapply ACI_frame; [exact H| |apply asame_refl].
        apply Forall_app. split; [destruct u; [apply body_KS|constructor]|repeat constructor].
      * apply (Hgoal body x tail); [reflexivity|exact Ht|exact Hsame|reflexivity].
    + cbn [k_k k_bk] in *. apply (Hgoal ([] ++ body) x tail); [reflexivity|exact Ht| |reflexivity].
      eapply ACI_frame; [exact H|constructor|]. unfold asame. cbn. split; [reflexivity|]. split; [reflexivity|discriminate].
    + assert (Hsame : ACI b ([] ++ body) x) by (eapply ACI_frame; [exact H|constructor|apply asame_refl]).
      destruct (negb (s_live (get_conn b cid))); [apply (Hgoal body x tail); [reflexivity|exact Ht|exact Hsame|reflexivity]|].
      destruct (s_stopped (get_conn b cid)); [apply (Hgoal body x tail); [reflexivity|exact Ht|exact Hsame|reflexivity]|].
      destruct nn as [v|e|]; cbn [k_k k_bk] in *.
      * apply (Hgoal (map KS (e_call (SNext v)) ++ body) x tail); [now rewrite <- !app_assoc|exact Ht| |reflexivity].
        eapply ACI_frame; [exact H|apply body_KS|apply asame_refl].
      * apply (Hgoal ((map KS (e_call (SErr e)) ++ [KSrcFin cid]) ++ body) x tail); [now rewrite <- !app_assoc|exact Ht| |reflexivity].
        eapply ACI_frame; [exact H| |unfold asame; cbn; auto].
        apply Forall_app. split; [apply body_KS|repeat constructor].
      * apply (Hgoal ((map KS (e_call SDone) ++ [KSrcFin cid]) ++ body) x tail); [now rewrite <- !app_assoc|exact Ht| |reflexivity].
        eapply ACI_frame; [exact H| |unfold asame; cbn; auto].
        apply Forall_app. split; [apply body_KS|repeat constructor].
    + destruct (Connectable.sado_dispose cid (get_conn b cid)) as [c1 evs]. cbn [k_k k_bk] in *.
      apply (Hgoal ([] ++ body) x tail); [reflexivity|exact Ht| |reflexivity].
      eapply ACI_frame; [exact H|constructor|unfold asame; cbn; auto].
Qed.

End AutoConnect.

Lemma AC_init {A E_st E_in E_op : Type} (n : nat) (e_drain : list E_in) (st0 : E_st) (top : list (@cop A)) :
  Forall nomanual top -> @ACc A E_st E_in E_op n (kinit e_drain (MAuto n) st0 top).
Proof.
  intros H. pose proof (tail_prog e_drain top H) as Ht.
  destruct n as [|n'].
  - exists [], (MConn ByAuto []), (map (@KS A E_in) e_drain ++ flat_map (fun p => KOp p :: map (@KS A E_in) e_drain) top).
    split; [reflexivity|]. split; [exact Ht|]. split; [|reflexivity].
    constructor; cbn; auto; try discriminate. split; [reflexivity|left; reflexivity].
  - exists [], MNone, (map (@KS A E_in) e_drain ++ flat_map (fun p => KOp p :: map (@KS A E_in) e_drain) top).
    split; [reflexivity|]. split; [exact Ht|]. split; [|reflexivity].
    constructor; cbn [isconn count fresh_book has_sub ac_conn]; auto; try discriminate; try tauto.
Qed.

Section AutoConnect2.
Context {A E_st E_in E_op : Type}.
Context (e_exec : E_in -> E_st -> E_st * list E_in * list (@sev A E_op)).
Context (e_call : @sop A -> list E_in).
Context (n : nat) (reach : bool) (cold : list (ev A)).
Notation kinstr := (@kinstr A E_in).
Notation kcfg := (@kcfg A E_st E_in E_op).
Notation csil := (fun (_ _ : nat) => @nil (@cop A)).
Notation stepk := (kstep e_exec e_call (MAuto n) reach cold csil).
Notation runk := (krun e_exec e_call (MAuto n) reach cold csil).
Context (e_drain : list E_in).

Theorem AC_reachable st0 top fuel :
  Forall nomanual top -> ACc n (runk fuel (kinit e_drain (MAuto n) st0 top)).
Proof. intros H. apply krun_ind; [apply AC_step|apply AC_init; exact H]. Qed.

(* C24, auto_connect(n) on histories of top-level calls without manual connect():
   the source is subscribed at most once in the whole run -- once connected, never again *)
Theorem auto_connects_once st0 top fuel :
  Forall nomanual top ->
  let c := runk fuel (kinit e_drain (MAuto n) st0 top) in
  nssub (k_log c) = (if has_sub (k_bk c) then 1 else 0).
Proof. intros Hm c. destruct (AC_reachable st0 top fuel Hm) as [body [x [tail [_ [_ [_ H]]]]]]. exact H. Qed.

(* it is connected exactly when n subscribers have arrived (the window inside the n-th
   subscribe() between `count += 1` and `source.connect()` excepted) *)
Theorem auto_connected_iff_arrivals st0 top fuel :
  Forall nomanual top ->
  let c := runk fuel (kinit e_drain (MAuto n) st0 top) in
  has_sub (k_bk c) = (Z.of_nat n <=? count (k_bk c) - Z.of_nat (nconnect (k_k c)))%Z.
Proof.
  intros Hm c. destruct (AC_reachable st0 top fuel Hm) as [body [x [tail [Hk [Ht [H _]]]]]]. fold c in Hk, H.
  rewrite (ac_has _ _ _ _ H), Hk. unfold nconnect. rewrite !count_app.
  rewrite (count_zero _ isbody body (ac_body _ _ _ _ H)) by (intros [] Hi; try contradiction; reflexivity).
  rewrite (count_zero _ tail_ok tail Ht) by (intros [] Hi; try contradiction; reflexivity).
  pose proof (ac_mid _ _ _ _ H) as G.
  destruct x as [|o|w r|cid w r|o]; cbn [mid_list filter length isconn]; try reflexivity.
  - destruct G as [_ [->|[o ->]]]; reflexivity.
  - destruct G as [_ [[->|[o ->]] _]]; reflexivity.
Qed.

(* `count` counts arrivals: it grows by one at every subscribe() and never shrinks *)
Theorem auto_count_counts_arrivals c :
  count (k_bk (stepk c)) =
  (count (k_bk c) + match k_k c with KInc _ :: _ => 1 | _ => 0 end)%Z.
Proof.
  destruct c as [st b m k l]. unfold kstep. cbn [k_k k_bk k_log k_out k_eng].
  destruct k as [|i k]; [cbn; lia|].
  destruct i as [p|ei|o|o|o|o u| |w|cid w|cid nn|cid].
  - destruct p as [o|o| |j|v|e| |d]; try (cbn; lia).
    + destruct (m o); cbn; lia.
    + destruct (m o) as [u|]; [|cbn; lia]. destruct (u_handle u); cbn; lia.
    + destruct reach; cbn; lia.
    + destruct (nth_error (handles b) j) as [[cid|]|]; try (cbn; lia).
      unfold comp_dispose. destruct (comp_disposed (get_conn b cid)); [cbn; lia|].
      match goal with |- context [sado_dispose cid ?c] => destruct (sado_dispose cid c) as [c2 evs] end. cbn. lia.
  - destruct (e_exec ei st) as [[st' pushed] evs]. destruct (fold_left _ evs None) as [[o nn]|]; cbn; lia.
  - cbn. lia.
  - destruct (m o) as [u|]; [|cbn; lia]. destruct (u_sad_disposed u); cbn; lia.
  - destruct (m o) as [u|]; cbn; lia.
  - destruct (m o) as [x|]; [|cbn; lia]. destruct (u_sad_disposed x); [cbn; lia|]. destruct (u_sad_set x); cbn; lia.
  - cbn. lia.
  - destruct (has_sub b); [destruct w|]; cbn; lia.
  - destruct (if s_sad_disposed (get_conn b cid) then _ else _) as [c1 evs]. destruct w; cbn; lia.
  - destruct (negb (s_live (get_conn b cid))); [cbn; lia|]. destruct (s_stopped (get_conn b cid)); [cbn; lia|].
    destruct nn; cbn; lia.
  - destruct (sado_dispose cid (get_conn b cid)) as [c1 evs]. cbn. lia.
Qed.
End AutoConnect2.
