(* C22 for BOTH scheduler modes of Subjects/ReplaySched.v (virtual-time
   scheduler drained by the driver / the default CurrentThreadScheduler
   trampoline that runs a drain inline at top level and queues it when called
   from inside a callback), on ARBITRARY call trees:
   Part A  what an observer has received is a prefix of its entitlement [xview],
           and nothing is lost (received ++ in flight ++ queued ++ terminal about
           to be queued = entitlement while its wrapper is not stopped);
   Part B  no lost wake-up: at the end of a finished run every observer that has
           not unsubscribed has received exactly [xview]. *)
From Coq Require Import Sorting.Sorted.
From RxVerif Require Import Base.Prelude Ops.Machine Subjects.Subject Subjects.Family Subjects.Replay
  Subjects.ReplaySpec Subjects.ReplaySched Subjects.SubjectFacts Subjects.FamilyFacts Subjects.ReplayFacts
  Subjects.ReplayTreeFacts Subjects.ReplayLiveFacts.

Section SchedA.
Context {A : Type} (sync : bool) (react : nat -> nat -> list (@rop A)) (b : Z) (w : option Z).

Notation sstep := (sstep sync react).
Notation lx := (lx b w).
Notation st_agree := (st_agree b w).

(* ---- pending deliveries / pending terminals in the continuation ---- *)
Fixpoint sinflight (o : nat) (k : list (@sinstr A)) : list (ev A) :=
  match k with
  | [] => []
  | SIDeliver o' n :: r => if Nat.eqb o' o then n :: sinflight o r else sinflight o r
  | _ :: r => sinflight o r
  end.

Fixpoint spend (o : nat) (k : list (@sinstr A)) : list (ev A) :=
  match k with
  | [] => []
  | SIOnEnsure _ o' t :: r => if Nat.eqb o' o then t :: spend o r else spend o r
  | _ :: r => spend o r
  end.

Definition snodeliver (k : list (@sinstr A)) : Prop := forall o, sinflight o k = [].

(* instructions that execute while no drain loop is running *)
Definition is_top (i : @sinstr A) : bool :=
  match i with
  | SIDrain => true
  | SIOp top _ | SIEnsure top _ | SIOnEnsure top _ _ => top
  | _ => false
  end.

(* nothing is being delivered behind an instruction of the top level *)
Fixpoint sclean (k : list (@sinstr A)) : Prop :=
  match k with
  | [] => True
  | i :: r => (is_top i = true -> snodeliver r) /\ sclean r
  end.

Lemma sinflight_app o (k1 k2 : list (@sinstr A)) : sinflight o (k1 ++ k2) = sinflight o k1 ++ sinflight o k2.
Proof.
  induction k1 as [|i r IH]; [reflexivity|]. destruct i; cbn [app sinflight]; try exact IH.
  destruct (Nat.eqb o0 o); [cbn; now rewrite IH|exact IH].
Qed.

Lemma spend_app o (k1 k2 : list (@sinstr A)) : spend o (k1 ++ k2) = spend o k1 ++ spend o k2.
Proof.
  induction k1 as [|i r IH]; [reflexivity|]. destruct i; cbn [app spend]; try exact IH.
  destruct (Nat.eqb o0 o); [cbn; now rewrite IH|exact IH].
Qed.

Lemma sinflight_ops o top (l : list (@rop A)) : sinflight o (map (SIOp top) l) = [].
Proof. induction l; [reflexivity|exact IHl]. Qed.
Lemma spend_ops o top (l : list (@rop A)) : spend o (map (SIOp top) l) = [].
Proof. induction l; [reflexivity|exact IHl]. Qed.
Lemma sinflight_ensures o top (l : list nat) : sinflight o (map (SIEnsure top) l) = [].
Proof. induction l; [reflexivity|exact IHl]. Qed.
Lemma spend_ensures o top (l : list nat) : spend o (map (SIEnsure top) l) = [].
Proof. induction l; [reflexivity|exact IHl]. Qed.
Lemma sinflight_onensures o top t (l : list nat) : sinflight o (map (fun x => SIOnEnsure top x t) l) = [].
Proof. induction l; [reflexivity|exact IHl]. Qed.

Lemma spend_onensures o top t : forall (l : list nat), NoDup l ->
  spend o (map (fun x => SIOnEnsure top x t) l) = if mem o l then [t] else [].
Proof.
  induction l as [|x l IH]; intros Hnd; [reflexivity|]. inversion Hnd as [|? ? Hx Hl]; subst.
  cbn [map spend]. unfold mem. cbn [existsb]. rewrite (Nat.eqb_sym o x). destruct (Nat.eqb x o) eqn:E.
  - apply Nat.eqb_eq in E. subst x. rewrite (IH Hl). cbn [orb].
    replace (mem o l) with false; [reflexivity|]. symmetry. now apply mem_false.
  - cbn [orb]. apply IH. exact Hl.
Qed.

Lemma snodeliver_clean k : snodeliver k -> sclean k.
Proof.
  induction k as [|i r IH]; intros H; [exact I|].
  assert (Hr : snodeliver r).
  { intros o. specialize (H o). destruct i; cbn [sinflight] in H; try exact H.
    destruct (Nat.eqb o0 o); [discriminate|exact H]. }
  split; [intros _; exact Hr|apply IH; exact Hr].
Qed.

Lemma sclean_tail i k : sclean (i :: k) -> sclean k.
Proof. intros [_ H]. exact H. Qed.

Lemma sclean_top i k : sclean (i :: k) -> is_top i = true -> snodeliver k.
Proof. intros [H _]. exact H. Qed.

(* pushing instructions that are not deliveries in front *)
Lemma sclean_push (pre k : list (@sinstr A)) :
  (forall o, sinflight o pre = []) -> sclean k ->
  ((exists i, In i pre /\ is_top i = true) -> snodeliver k) -> sclean (pre ++ k).
Proof.
  induction pre as [|i r IH]; intros Hn Hk Htop; [exact Hk|].
  assert (Hr : forall o, sinflight o r = []).
  { intros o. specialize (Hn o). destruct i; cbn [sinflight] in Hn; try exact Hn.
    destruct (Nat.eqb o0 o); [discriminate|exact Hn]. }
  cbn [app]. split.
  - intros Hi o. rewrite sinflight_app, Hr. apply Htop. exists i. split; [now left|exact Hi].
  - apply IH; [exact Hr|exact Hk|]. intros [j [Hj Hjt]]. apply Htop. exists j. split; [now right|exact Hjt].
Qed.

(* ---- the invariant ---- *)
Definition pend_ok (os : @rostate A) (pd : list (ev A)) : Prop :=
  (length pd <= 1)%nat /\ (pd <> [] -> ra_stopped os = false -> so_stopped (r_so os) = false).

Record SInv (c : @scfg A) : Prop := {
  sinv_st : st_agree (sc_st c) (lg (sc_rlog c));
  sinv_nodup : NoDup (r_observers (sc_st c));
  sinv_dom : forall o, In o (r_observers (sc_st c)) -> sc_obs c o <> None;
  sinv_none : forall o, sc_obs c o = None ->
              subbed o (lops (sc_rlog c)) = false /\ lview o (sc_rlog c) = [] /\
              sinflight o (sc_k c) = [] /\ spend o (sc_k c) = [];
  sinv_some : forall o os, sc_obs c o = Some os ->
              subbed o (lops (sc_rlog c)) = true /\
              exists X', lx (sc_rlog c) o = X' ++ spend o (sc_k c) /\
                         obs_ok (rg_live (lg (sc_rlog c))) (r_observers (sc_st c)) (lview o (sc_rlog c))
                                (sinflight o (sc_k c)) os o X' /\
                         pend_ok os (spend o (sc_k c));
  sinv_clean : sclean (sc_k c);
  sinv_nopend : rg_live (lg (sc_rlog c)) = true -> forall o, spend o (sc_k c) = [] }.

Lemma SInv_prefix c o : SInv c -> prefix (lview o (sc_rlog c)) (lx (sc_rlog c) o).
Proof.
  intros I. destruct (sc_obs c o) as [os|] eqn:E.
  - destruct (sinv_some c I o os E) as [_ [X' [-> [Hok _]]]]. apply prefix_app_r. eapply (obs_ok_prefix react). exact Hok.
  - destruct (sinv_none c I o E) as (_ & -> & _). apply prefix_nil.
Qed.
Lemma sinv_some_l s m k l o os :
  SInv (SCfg s m k l) -> m o = Some os ->
  subbed o (lops l) = true /\
  exists X', lx l o = X' ++ spend o k /\
             obs_ok (rg_live (lg l)) (r_observers s) (lview o l) (sinflight o k) os o X' /\
             pend_ok os (spend o k).
Proof. intros I Hm. exact (sinv_some _ I o os Hm). Qed.

Lemma sinv_none_l s m k l o :
  SInv (SCfg s m k l) -> m o = None ->
  subbed o (lops l) = false /\ lview o l = [] /\ sinflight o k = [] /\ spend o k = [].
Proof. intros I Hm. exact (sinv_none _ I o Hm). Qed.

Lemma sinv_st_l s m k l : SInv (SCfg s m k l) -> st_agree s (lg l).
Proof. intros I. exact (sinv_st _ I). Qed.

(* ---- an operation that does not deliver ---- *)
Lemma sinv_op_generic top p s m k l s' (m' : @romap A) k' (extra : list (@revent A)) :
  SInv (SCfg s m (SIOp top p :: k) l) ->
  (extra = [] \/ exists e, extra = [RERaised e]) ->
  st_agree s' (rg_step (lg l) p) ->
  NoDup (r_observers s') ->
  (forall o, In o (r_observers s') -> m' o <> None) ->
  (forall o, m' o = None -> m o = None /\ is_sub o p = false /\ sinflight o k' = [] /\ spend o k' = []) ->
  (forall o os', m' o = Some os' ->
     (exists os, m o = Some os /\ exists X',
        lx l o ++ rnote (lg l) p = X' ++ spend o k' /\
        obs_ok (rg_live (rg_step (lg l) p)) (r_observers s') (lview o l) (sinflight o k') os' o X' /\
        pend_ok os' (spend o k')) \/
     (m o = None /\ is_sub o p = true /\ exists X',
        rgreet b w (lg l) = X' ++ spend o k' /\
        obs_ok (rg_live (rg_step (lg l) p)) (r_observers s') (lview o l) (sinflight o k') os' o X' /\
        pend_ok os' (spend o k'))) ->
  sclean k' ->
  (rg_live (rg_step (lg l) p) = true -> forall o, spend o k' = []) ->
  SInv (SCfg s' m' k' (extra ++ REOp p :: l)).
Proof.
  intros I Hex Hst Hnd Hdom Hnone Hsome Hclean Hnp.
  assert (Hops : lops (extra ++ REOp p :: l) = lops l ++ [p]).
  { destruct Hex as [->|[e ->]]; cbn [app]; [apply lops_op|rewrite lops_raised; apply lops_op]. }
  assert (Hview : forall o, lview o (extra ++ REOp p :: l) = lview o l).
  { intros o. destruct Hex as [->|[e ->]]; cbn [app]; [apply lview_op|rewrite lview_raised; apply lview_op]. }
  assert (Hlg : lg (extra ++ REOp p :: l) = rg_step (lg l) p).
  { unfold lg. rewrite Hops. apply rg_run_snoc. }
  assert (Hx : forall o, lx (extra ++ REOp p :: l) o =
                         lx l o ++ (if subbed o (lops l) then rnote (lg l) p
                                    else if is_sub o p then rgreet b w (lg l) else [])).
  { intros o. unfold ReplayTreeFacts.lx. rewrite Hops, xview_snoc. reflexivity. }
  constructor; cbn [sc_st sc_obs sc_k sc_rlog].
  - rewrite Hlg. exact Hst.
  - exact Hnd.
  - exact Hdom.
  - intros o Hm. destruct (Hnone o Hm) as (Hm0 & Hsub & Hi & Hp).
    destruct (sinv_none_l _ _ _ _ o I Hm0) as (H1 & H2 & _ & _).
    rewrite Hops, subbed_snoc, H1, Hsub, Hview. auto.
  - intros o os' Hm. rewrite Hview, Hx, Hops, subbed_snoc, Hlg.
    destruct (Hsome o os' Hm) as [[os [Hm0 [X' (E & Hok & Hp)]]]|[Hm0 [Hsub [X' (E & Hok & Hp)]]]].
    + destruct (sinv_some_l _ _ _ _ o os I Hm0) as [H1 _]. rewrite H1. split; [reflexivity|].
      exists X'. auto.
    + destruct (sinv_none_l _ _ _ _ o I Hm0) as (H1 & _ & _ & _). rewrite H1, Hsub. split; [reflexivity|].
      unfold ReplayTreeFacts.lx. rewrite (xview_unsubbed b w o _ _ H1). exists X'. auto.
  - exact Hclean.
  - rewrite Hlg. exact Hnp.
Qed.

(* the continuation keeps its pending deliveries and terminals *)
Definition ksame (k k' : list (@sinstr A)) : Prop :=
  forall o, sinflight o k' = sinflight o k /\ spend o k' = spend o k.

Lemma ksame_refl k : ksame k k.
Proof. intros o. split; reflexivity. Qed.

Lemma ksame_drain_if top k : ksame k (drain_if sync top k).
Proof. unfold drain_if. destruct (inl sync top); [|apply ksame_refl]. intros o. split; reflexivity. Qed.

(* an operation that changes neither entitlements nor queues, only (possibly) state s and table entries
   in ways the per-observer clause tolerates *)
Lemma sinv_op_simple top p s m k l s' (m' : @romap A) k' extra :
  SInv (SCfg s m (SIOp top p :: k) l) ->
  (extra = [] \/ exists e, extra = [RERaised e]) ->
  ksame k k' -> sclean k' ->
  st_agree s' (rg_step (lg l) p) -> rnote (lg l) p = [] ->
  (forall o, m o = None -> is_sub o p = false) ->
  NoDup (r_observers s') -> (forall o, In o (r_observers s') -> In o (r_observers s)) ->
  (forall o, m' o = None <-> m o = None) ->
  (forall o os os', m o = Some os -> m' o = Some os' ->
     forall X', obs_ok (rg_live (lg l)) (r_observers s) (lview o l) (sinflight o k) os o X' ->
                pend_ok os (spend o k) ->
                obs_ok (rg_live (rg_step (lg l) p)) (r_observers s') (lview o l) (sinflight o k) os' o X' /\
                pend_ok os' (spend o k)) ->
  (rg_live (rg_step (lg l) p) = true -> rg_live (lg l) = true) ->
  SInv (SCfg s' m' k' (extra ++ REOp p :: l)).
Proof.
  intros I Hex Hk Hclean Hst Hn Hsubf Hnd Hsub Hdomeq Hobs Hlive.
  apply (sinv_op_generic top p s m k l s' m' k' extra I Hex Hst Hnd).
  - intros o Hi. intros E. apply Hdomeq in E. exact (sinv_dom _ I o (Hsub o Hi) E).
  - intros o E. apply Hdomeq in E. destruct (sinv_none_l _ _ _ _ o I E) as (_ & _ & Hi & Hp).
    cbn [sinflight spend] in Hi, Hp. destruct (Hk o) as [K1 K2]. rewrite K1, K2. auto.
  - intros o os' Hm'. left. destruct (m o) as [os|] eqn:Hm; [|apply Hdomeq in Hm; congruence].
    exists os. split; [reflexivity|]. destruct (sinv_some_l _ _ _ _ o os I Hm) as [_ [X' (E & Hok & Hp)]].
    cbn [sinflight spend] in E, Hok, Hp. destruct (Hk o) as [K1 K2]. rewrite K1, K2, Hn, app_nil_r.
    exists X'. split; [exact E|]. exact (Hobs o os os' Hm Hm' X' Hok Hp).
  - exact Hclean.
  - intros El o. destruct (Hk o) as [_ K2]. rewrite K2.
    pose proof (sinv_nopend _ I (Hlive El) o) as Hp. cbn [sc_k spend] in Hp. exact Hp.
Qed.

Lemma pend_ok_ext (os os' : @rostate A) pd :
  (ra_stopped os' = false -> ra_stopped os = false) ->
  (so_stopped (r_so os) = false -> so_stopped (r_so os') = false) ->
  pend_ok os pd -> pend_ok os' pd.
Proof. intros Ha Hs [H1 H2]. split; [exact H1|]. auto. Qed.

Lemma pend_ok_stopped (os : @rostate A) pd : (length pd <= 1)%nat -> ra_stopped os = true -> pend_ok os pd.
Proof. intros H Hs. split; [exact H|]. intros _ E. congruence. Qed.

Lemma sinv_op_noop top p s m k l extra :
  SInv (SCfg s m (SIOp top p :: k) l) ->
  (extra = [] \/ exists e, extra = [RERaised e]) ->
  rg_step (lg l) p = lg l -> rnote (lg l) p = [] ->
  (forall o, m o = None -> is_sub o p = false) ->
  SInv (SCfg s m k (extra ++ REOp p :: l)).
Proof.
  intros I Hex Hg Hn Hs.
  apply (sinv_op_simple top p s m k l s m k extra I Hex (ksame_refl k) (sclean_tail _ _ (sinv_clean _ I))).
  - rewrite Hg. exact (sinv_st_l _ _ _ _ I).
  - exact Hn.
  - exact Hs.
  - exact (sinv_nodup _ I).
  - tauto.
  - tauto.
  - intros o os os' Hm Hm' X' Hok Hp. rewrite Hm in Hm'. injection Hm' as <-. rewrite Hg. auto.
  - now rewrite Hg.
Qed.

Lemma sinv_unsub top o s m k l :
  SInv (SCfg s m (SIOp top (RUnsub o) :: k) l) -> SInv (sstep_op sync react top (RUnsub o) s m k l).
Proof.
  intros I. unfold sstep_op.
  assert (Hnoop : SInv (SCfg s m k ([] ++ REOp (RUnsub o) :: l))).
  { apply (sinv_op_noop top); [exact I|now left|reflexivity|apply rnote_unsub|reflexivity]. }
  destruct (m o) as [os|] eqn:Hm; [|exact Hnoop]. destruct (r_handle os); [|exact Hnoop].
  destruct (rado_dispose_spec s os o) as (Hs & Hcore & Hobs).
  destruct (rado_dispose s os o) as [s' os']. cbn [fst snd] in *.
  change (REOp (RUnsub o) :: l) with ([] ++ REOp (RUnsub o) :: l).
  assert (Hsub : forall x, In x (r_observers s') -> In x (r_observers s)).
  { intros x. destruct Hobs as [->| ->]; [tauto|apply (In_remove1_weak react)]. }
  apply (sinv_op_simple top (RUnsub o) s m k l s' _ k [] I); [now left|apply ksame_refl|
    exact (sclean_tail _ _ (sinv_clean _ I))| | | | | | | |].
  - cbn [rg_step]. exact (st_agree_same b w s s' _ Hcore (sinv_st_l _ _ _ _ I)).
  - apply rnote_unsub.
  - reflexivity.
  - destruct Hobs as [->| ->]; [exact (sinv_nodup _ I)|apply NoDup_remove1; exact (sinv_nodup _ I)].
  - exact Hsub.
  - intros o2. unfold rupd. destruct (Nat.eqb o2 o) eqn:E; [|tauto].
    apply Nat.eqb_eq in E. subst. split; congruence.
  - intros o2 os2 os2'. unfold rupd. destruct (Nat.eqb o2 o) eqn:E.
    + apply Nat.eqb_eq in E. subst o2. intros Hm2 [= <-] X' Hok Hp. split.
      * eapply (obs_ok_stop react); [exact Hs|exact Hok].
      * apply pend_ok_stopped; [exact (proj1 Hp)|exact Hs].
    + apply Nat.eqb_neq in E. intros Hm2 Hm2' X' Hok Hp. rewrite Hm2 in Hm2'. injection Hm2' as <-.
      split; [|exact Hp]. eapply (obs_ok_weaken react); [|exact Hok]. cbn [rg_step]. intros El. split; [exact El|].
      intros Hin. destruct Hobs as [->| ->]; [exact Hin|].
      apply (In_remove1 o _ o2 (sinv_nodup _ I)). split; assumption.
  - cbn [rg_step]. tauto.
Qed.

Lemma sinv_dispose top s m k l :
  SInv (SCfg s m (SIOp top RDispose :: k) l) -> SInv (sstep_op sync react top RDispose s m k l).
Proof.
  intros I. unfold sstep_op. change (REOp RDispose :: l) with ([] ++ REOp (@RDispose A) :: l).
  pose proof (sinv_st_l _ _ _ _ I) as (Hb & Hw & Hc & _ & _).
  apply (sinv_op_simple top RDispose s m k l _ m k [] I); [now left|apply ksame_refl|
    exact (sclean_tail _ _ (sinv_clean _ I))| | | | | | | |].
  - cbn [rg_step]. unfold ReplayTreeFacts.st_agree. cbn. split; [exact Hb|]. split; [exact Hw|]. split; [exact Hc|].
    split; [reflexivity|]. intros Hx. congruence.
  - apply rnote_dispose.
  - reflexivity.
  - cbn. constructor.
  - cbn. intros o [].
  - tauto.
  - intros o os os' Hm Hm' X' Hok Hp. rewrite Hm in Hm'. injection Hm' as <-. split; [|exact Hp].
    eapply (obs_ok_weaken react); [|exact Hok]. cbn. discriminate.
  - cbn. discriminate.
Qed.

Lemma sinv_advance top d s m k l :
  SInv (SCfg s m (SIOp top (RAdvance d) :: k) l) -> SInv (sstep_op sync react top (RAdvance d) s m k l).
Proof.
  intros I. unfold sstep_op. destruct (d <? 0) eqn:Ed.
  - change (RERaised out_of_range_exn :: REOp (RAdvance d) :: l)
      with ([RERaised out_of_range_exn] ++ REOp (@RAdvance A d) :: l).
    apply (sinv_op_noop top); [exact I|right; eauto|cbn; now rewrite Ed|apply rnote_advance|reflexivity].
  - change (REOp (RAdvance d) :: l) with ([] ++ REOp (@RAdvance A d) :: l).
    pose proof (sinv_st_l _ _ _ _ I) as (Hb & Hw & Hc & Hstat & Hq).
    assert (Hlive : rg_live (rg_step (lg l) (RAdvance d)) = rg_live (lg l)) by (cbn [rg_step]; now rewrite Ed).
    apply Z.ltb_ge in Ed.
    apply (sinv_op_simple top (RAdvance d) s m k l _ m k [] I); [now left|apply ksame_refl|
      exact (sclean_tail _ _ (sinv_clean _ I))| | | | | | | |].
    + cbn [rg_step]. replace (d <? 0) with false by (symmetry; now apply Z.ltb_ge).
      unfold ReplayTreeFacts.st_agree. cbn. split; [exact Hb|]. split; [exact Hw|]. split; [now rewrite Hc|].
      split; [exact Hstat|]. intros H. apply (qinv_advance b w (r_clock s)); [now apply Hq|lia].
    + apply rnote_advance.
    + reflexivity.
    + exact (sinv_nodup _ I).
    + cbn. tauto.
    + tauto.
    + intros o os os' Hm Hm' X' Hok Hp. rewrite Hm in Hm'. injection Hm' as <-. rewrite Hlive. auto.
    + now rewrite Hlive.
Qed.

Lemma sinv_emit_dead top p s m k l :
  SInv (SCfg s m (SIOp top p :: k) l) ->
  (match p with RNext _ | RErr _ | RDone => True | _ => False end) ->
  (r_disposed s = true \/ r_stopped s = true) ->
  SInv (sstep_op sync react top p s m k l).
Proof.
  intros I Hp Hdead. pose proof (sinv_st_l _ _ _ _ I) as Hst.
  assert (Hl : rg_live (lg l) = false).
  { destruct (r_disposed s) eqn:Hd.
    - unfold rg_live. now rewrite (status_disposed b w _ _ Hst Hd).
    - destruct Hdead as [|Hs]; [discriminate|]. exact (proj1 (status_not_live_stopped b w _ _ Hst Hd Hs)). }
  assert (Hno : forall extra, (extra = [] \/ exists e, extra = [@RERaised A e]) ->
                SInv (SCfg s m k (extra ++ REOp p :: l))).
  { intros extra Hex. apply (sinv_op_noop top); [exact I|exact Hex|now apply rg_step_dead|now apply rnote_dead|].
    intros o _. destruct p; try contradiction; reflexivity. }
  unfold sstep_op. destruct p; try contradiction.
  - destruct (r_disposed s); [apply (Hno [RERaised disposed_exn]); right; eauto|].
    destruct Hdead as [|Hs]; [discriminate|]. rewrite Hs. apply (Hno []). now left.
  - destruct (r_disposed s); [apply (Hno [RERaised disposed_exn]); right; eauto|].
    destruct Hdead as [|Hs]; [discriminate|]. rewrite Hs. apply (Hno []). now left.
  - destruct (r_disposed s); [apply (Hno [RERaised disposed_exn]); right; eauto|].
    destruct Hdead as [|Hs]; [discriminate|]. rewrite Hs. apply (Hno []). now left.
Qed.

Lemma inl_top top : inl sync top = true -> top = true.
Proof. unfold inl. destruct sync, top; cbn; congruence. Qed.

Lemma sclean_drain_handle top p o k :
  sclean (SIOp top p :: k) -> sclean (drain_if sync top (SIHandle o :: k)).
Proof.
  intros Hc. unfold drain_if. destruct (inl sync top) eqn:E.
  - apply inl_top in E. subst top. pose proof (sclean_top _ _ Hc eq_refl) as Hn.
    split; [intros _ o2; exact (Hn o2)|]. split; [discriminate|exact (sclean_tail _ _ Hc)].
  - split; [discriminate|exact (sclean_tail _ _ Hc)].
Qed.

Lemma sinv_sub_fresh top o s m k l :
  SInv (SCfg s m (SIOp top (RSub o) :: k) l) -> m o = None -> r_disposed s = false ->
  SInv (sstep_op sync react top (RSub o) s m k l).
Proof.
  intros I Hm Hd. unfold sstep_op. rewrite Hm, Hd.
  pose proof (sinv_st_l _ _ _ _ I) as Hst. destruct Hst as (Hb & Hw & Hc & Hstat & Hq).
  assert (Hnd : rg_status (lg l) <> Disposed).
  { intros E. rewrite E in Hstat. congruence. }
  specialize (Hq Hnd).
  set (s1 := trim s). set (s2 := with_observers (r_observers s1 ++ [o]) s1).
  assert (Hq1 : r_queue s1 = retained b w (rg_clock (lg l)) (rg_all (lg l))).
  { unfold s1, trim. cbn [r_queue with_queue]. rewrite Hb, Hw, Hc.
    rewrite Hc in Hq. apply (qinv_replay b w _ _ _ _ Hq). lia. }
  set (so1 := fold_left (fun so it => so_on (Next (snd it)) so) (r_queue s2) fresh_so).
  destruct (fold_so_on_nexts (r_queue s2) fresh_so eq_refl) as [F1 F2]. fold so1 in F1, F2. cbn [fresh_so so_queue app] in F1.
  set (so2 := match r_exception s2 with
              | Some e => so_on (Err e) so1
              | None => if r_stopped s2 then so_on Done so1 else so1 end).
  assert (Hso2 : so_queue so2 = rgreet b w (lg l)).
  { unfold so2, rgreet, replayed. change (r_exception s2) with (r_exception s). change (r_stopped s2) with (r_stopped s).
    change (r_queue s2) with (r_queue s1) in F1. rewrite Hq1 in F1.
    destruct (rg_status (lg l)) as [|t|]; [| |congruence].
    - destruct Hstat as (S1&S2&S3). rewrite S3, S1. exact F1.
    - destruct t as [x|e|]; [contradiction| |]; destruct Hstat as (S1&S2&S3); rewrite S3.
      + destruct (so_on_queue (Err e) so1 F2) as [Q _]. now rewrite Q, F1.
      + rewrite S1. destruct (so_on_queue Done so1 F2) as [Q _]. now rewrite Q, F1. }
  assert (Hst2 : rg_live (lg l) = true -> so_stopped so2 = false).
  { unfold rg_live, so2. change (r_exception s2) with (r_exception s). change (r_stopped s2) with (r_stopped s).
    destruct (rg_status (lg l)); try discriminate. destruct Hstat as (S1&S2&S3). rewrite S3, S1. intros _. exact F2. }
  pose proof (ensure_active_core o s2 so2) as Hcore. pose proof (ensure_active_so o s2 so2) as [Hq3 Hs3].
  destruct (ensure_active o s2 so2) as [s3 so3]. cbn [fst snd] in *.
  destruct Hcore as [Hobs3 Hcore3].
  assert (Hobs : r_observers s3 = r_observers s ++ [o]) by (rewrite Hobs3; reflexivity).
  destruct (sinv_none_l _ _ _ _ o I Hm) as (_ & Hv & Hi & Hpd). cbn [sinflight spend] in Hi, Hpd.
  assert (Hgen : forall hd k', ksame k k' -> sclean k' ->
            SInv (SCfg s3 (rupd m o (ROState false false true hd 0 so3)) k' ([] ++ REOp (RSub o) :: l))).
  { intros hd k' Hk Hclean.
    apply (sinv_op_generic top (RSub o) s m k l s3 _ k' [] I); [now left| | | | | |exact Hclean|].
    - cbn [rg_step]. apply (st_agree_same b w s2 s3 _ Hcore3).
      unfold ReplayTreeFacts.st_agree, s2, s1, trim. cbn. rewrite Hb, Hw.
      split; [reflexivity|]. split; [reflexivity|]. split; [exact Hc|]. split; [exact Hstat|].
      intros _. apply qinv_trim. exact Hq.
    - rewrite Hobs. apply NoDup_app_single; [exact (sinv_nodup _ I)|].
      intros Hin. exact (sinv_dom _ I o Hin Hm).
    - intros o2. rewrite Hobs. intros Hin. unfold rupd. destruct (Nat.eqb o2 o) eqn:E; [discriminate|].
      apply in_app_or in Hin. destruct Hin as [Hin|[<-|[]]]; [exact (sinv_dom _ I o2 Hin)|].
      rewrite Nat.eqb_refl in E. discriminate.
    - intros o2. unfold rupd. destruct (Nat.eqb o2 o) eqn:E; [discriminate|]. intros H2.
      destruct (sinv_none_l _ _ _ _ o2 I H2) as (_ & _ & Hi2 & Hp2). cbn [sinflight spend] in Hi2, Hp2.
      destruct (Hk o2) as [K1 K2]. rewrite K1, K2. split; [exact H2|]. split; [|auto].
      cbn [is_sub]. now rewrite Nat.eqb_sym.
    - intros o2 os'. destruct (Hk o2) as [K1 K2]. rewrite K1, K2. unfold rupd. destruct (Nat.eqb o2 o) eqn:E.
      + apply Nat.eqb_eq in E. subst o2. intros [= <-]. right. split; [exact Hm|]. split; [cbn; apply Nat.eqb_refl|].
        exists (rgreet b w (lg l)). rewrite Hpd, app_nil_r, Hv, Hi. split; [reflexivity|]. split.
        * unfold obs_ok. cbn [ra_stopped r_so app rg_step]. rewrite Hq3, Hso2. split; [reflexivity|].
          intros El. split; [rewrite Hobs; apply in_or_app; right; now left|]. rewrite Hs3. now apply Hst2.
        * split; [cbn; lia|]. intros H. congruence.
      + intros H2. left. exists os'. split; [exact H2|]. rewrite rnote_sub, app_nil_r.
        destruct (sinv_some_l _ _ _ _ o2 os' I H2) as [_ [X' (EX & Hok & Hp)]]. cbn [sinflight spend] in EX, Hok, Hp.
        exists X'. split; [exact EX|]. split; [|exact Hp].
        eapply (obs_ok_weaken react); [|exact Hok]. cbn [rg_step]. intros El. split; [exact El|].
        rewrite Hobs. intros Hin. apply in_or_app. now left.
    - cbn [rg_step]. intros El o2. destruct (Hk o2) as [_ K2]. rewrite K2.
      pose proof (sinv_nopend _ I El o2) as Hp. cbn [sc_k spend] in Hp. exact Hp. }
  destruct (inl sync top) eqn:Ei.
  - apply (Hgen false (SIDrain :: SIHandle o :: k)); [intros o2; split; reflexivity|].
    pose proof (sclean_drain_handle top (RSub o) o k (sinv_clean _ I)) as Hc2.
    unfold drain_if in Hc2. rewrite Ei in Hc2. exact Hc2.
  - apply (Hgen true k); [apply ksame_refl|exact (sclean_tail _ _ (sinv_clean _ I))].
Qed.

Lemma sinv_sub_disposed top o s m k l :
  SInv (SCfg s m (SIOp top (RSub o) :: k) l) -> m o = None -> r_disposed s = true ->
  SInv (sstep_op sync react top (RSub o) s m k l).
Proof.
  intros I Hm Hd. unfold sstep_op. rewrite Hm, Hd.
  pose proof (sinv_st_l _ _ _ _ I) as Hst. pose proof (status_disposed b w _ _ Hst Hd) as Hg.
  destruct (sinv_none_l _ _ _ _ o I Hm) as (Hsb & Hv & Hi & Hpd). cbn [sinflight spend] in Hi, Hpd.
  assert (Hk : ksame k (map (SIOp false) (react o 0) ++ drain_if sync top (SIHandle o :: k))).
  { intros o2. rewrite sinflight_app, spend_app, sinflight_ops, spend_ops. cbn [app].
    unfold drain_if. destruct (inl sync top); split; reflexivity. }
  assert (Hlg : lg (REGot o (Err disposed_exn) :: REOp (RSub o) :: l) = lg l).
  { unfold lg. rewrite lops_got, lops_op, rg_run_snoc. reflexivity. }
  constructor; cbn [sc_st sc_obs sc_k sc_rlog].
  - rewrite Hlg. exact Hst.
  - exact (sinv_nodup _ I).
  - intros o2 Hin. unfold rupd. destruct (Nat.eqb o2 o); [discriminate|]. exact (sinv_dom _ I o2 Hin).
  - intros o2. unfold rupd. destruct (Nat.eqb o2 o) eqn:E; [discriminate|]. intros H2.
    destruct (sinv_none_l _ _ _ _ o2 I H2) as (H1 & H3 & H4 & H5). cbn [sinflight spend] in H4, H5.
    destruct (Hk o2) as [K1 K2]. rewrite K1, K2.
    rewrite lops_got, lops_op, subbed_snoc, H1, lview_got, lview_op, H3. cbn [is_sub].
    rewrite (Nat.eqb_sym o o2), E. auto.
  - intros o2 os'. destruct (Hk o2) as [K1 K2]. rewrite K1, K2, Hlg.
    unfold ReplayTreeFacts.lx. rewrite lops_got, lops_op, subbed_snoc, lview_got, lview_op, xview_snoc.
    cbn [orb is_sub]. fold (lg l). fold (lx l o2).
    unfold rupd. destruct (Nat.eqb o2 o) eqn:E.
    + apply Nat.eqb_eq in E. subst o2. intros [= <-]. rewrite Hsb, Nat.eqb_refl. split; [reflexivity|].
      exists [Err disposed_exn]. rewrite Hpd, app_nil_r. unfold ReplayTreeFacts.lx. rewrite (xview_unsubbed b w o _ _ Hsb).
      unfold rgreet. rewrite Hg. split; [reflexivity|]. split.
      * unfold obs_ok. cbn [ra_stopped rcalled fresh_rostate orb]. rewrite Hv. apply prefix_refl.
      * apply pend_ok_stopped; [cbn; lia|reflexivity].
    + intros H2. destruct (sinv_some_l _ _ _ _ o2 os' I H2) as [H1 [X' (EX & Hok & Hp)]].
      cbn [sinflight spend] in EX, Hok, Hp. rewrite H1. cbn [orb]. split; [reflexivity|].
      rewrite rnote_sub, !app_nil_r. rewrite (Nat.eqb_sym o o2), E, app_nil_r. exists X'. auto.
  - apply sclean_push.
    + intros o2. apply sinflight_ops.
    + exact (sclean_drain_handle top (RSub o) o k (sinv_clean _ I)).
    + intros [i [Hin Ht]]. apply in_map_iff in Hin. destruct Hin as [x [<- _]]. discriminate.
  - rewrite Hlg. intros El. unfold rg_live in El. rewrite Hg in El. discriminate.
Qed.

Lemma sinv_sub top o s m k l :
  SInv (SCfg s m (SIOp top (RSub o) :: k) l) -> SInv (sstep_op sync react top (RSub o) s m k l).
Proof.
  intros I. destruct (m o) as [os|] eqn:Hm.
  - unfold sstep_op. rewrite Hm.
    change (REOp (RSub o) :: l) with ([] ++ REOp (RSub o) :: l).
    apply (sinv_op_noop top); [exact I|now left|reflexivity|apply rnote_sub|].
    intros o2 H2. cbn [is_sub]. destruct (Nat.eqb o o2) eqn:E; [|reflexivity].
    apply Nat.eqb_eq in E. subst. congruence.
  - destruct (r_disposed s) eqn:Hd; [now apply sinv_sub_disposed|now apply sinv_sub_fresh].
Qed.

Lemma sclean_push_top top p (pre k : list (@sinstr A)) :
  sclean (SIOp top p :: k) -> (forall o, sinflight o pre = []) ->
  (forall i, In i pre -> is_top i = top) -> sclean (pre ++ k).
Proof.
  intros Hc Hn Ht. apply sclean_push; [exact Hn|exact (sclean_tail _ _ Hc)|].
  intros [i [Hin Hi]]. rewrite (Ht i Hin) in Hi. subst top. exact (sclean_top _ _ Hc eq_refl).
Qed.

Lemma pend_ok_nil (os : @rostate A) : pend_ok os [].
Proof. split; [cbn; lia|]. intros H. congruence. Qed.

Lemma sinv_next_live top v s m k l :
  SInv (SCfg s m (SIOp top (RNext v) :: k) l) -> r_disposed s = false -> r_stopped s = false ->
  SInv (sstep_op sync react top (RNext v) s m k l).
Proof.
  intros I Hd Hs. unfold sstep_op. rewrite Hd, Hs.
  pose proof (sinv_st_l _ _ _ _ I) as Hst. pose proof (status_live b w _ _ Hst Hd Hs) as Hg.
  pose proof (live_status _ Hg) as Hl.
  destruct Hst as (Hb & Hw & Hc & Hstat & Hq). rewrite Hg in Hstat. specialize (Hq ltac:(congruence)).
  set (s1 := trim (with_queue (r_queue s ++ [(r_clock s, v)]) s)).
  assert (Hdom : forall o, In o (r_observers s) -> m o <> None) by exact (sinv_dom _ I).
  destruct (so_each_spec (fun _ s so => (s, so_on (Next v) so)) (fun so so' => so' = so_on (Next v) so)
              (fun _ s _ => same_core_refl s) (fun _ _ _ => eq_refl)
              (r_observers s) s1 m (sinv_nodup _ I) Hdom) as (A1 & A2 & A3).
  destruct (so_each (fun _ s so => (s, so_on (Next v) so)) (r_observers s) s1 m) as [s2 m2]. cbn [fst snd] in *.
  destruct A1 as [Hobs Hcore].
  assert (Hnp : forall o, spend o k = []).
  { intros o. pose proof (sinv_nopend _ I Hl o) as Hp. cbn [sc_k spend] in Hp. exact Hp. }
  assert (Hk : ksame k (map (SIEnsure top) (r_observers s) ++ k)).
  { intros o. rewrite sinflight_app, spend_app, sinflight_ensures, spend_ensures. split; reflexivity. }
  assert (Hlive' : rg_live (rg_step (lg l) (RNext v)) = true) by (cbn [rg_step]; rewrite Hl; reflexivity).
  change (REOp (RNext v) :: l) with ([] ++ REOp (RNext v) :: l).
  apply (sinv_op_generic top (RNext v) s m k l s2 m2 _ [] I); [now left| | | | | | |].
  - cbn [rg_step]. rewrite Hl. apply (st_agree_same b w s1 s2 _ Hcore).
    unfold ReplayTreeFacts.st_agree, s1, trim. cbn. rewrite Hb, Hw.
    split; [reflexivity|]. split; [reflexivity|]. split; [exact Hc|]. split; [exact Hstat|].
    intros _. apply qinv_trim. rewrite <- Hc. apply qinv_append. exact Hq.
  - rewrite Hobs. exact (sinv_nodup _ I).
  - rewrite Hobs. cbn. intros o Hi. destruct (m o) as [os|] eqn:E; [|exfalso; exact (Hdom o Hi E)].
    destruct (A3 o os Hi E) as [so' [-> _]]. discriminate.
  - intros o Hm2. destruct (in_dec Nat.eq_dec o (r_observers s)) as [Hi|Hni].
    + destruct (m o) as [os|] eqn:E; [|exfalso; exact (Hdom o Hi E)].
      destruct (A3 o os Hi E) as [so' [E2 _]]. congruence.
    + rewrite (A2 o Hni) in Hm2. destruct (sinv_none_l _ _ _ _ o I Hm2) as (_ & _ & Hi2 & Hp2).
      cbn [sinflight spend] in Hi2, Hp2. destruct (Hk o) as [K1 K2]. rewrite K1, K2. auto.
  - intros o os2 Hm2. left. destruct (Hk o) as [K1 K2]. rewrite K1, K2, (Hnp o).
    assert (Hrn : rnote (lg l) (RNext v) = [Next v]) by (unfold rnote; now rewrite Hl). rewrite Hrn.
    assert (Hold : forall os, m o = Some os ->
              obs_ok true (r_observers s) (lview o l) (sinflight o k) os o (lx l o)).
    { intros os Hm. destruct (sinv_some_l _ _ _ _ o os I Hm) as [_ [X' (EX & Hok & _)]].
      cbn [sinflight spend] in EX, Hok. rewrite (Hnp o), app_nil_r in EX. rewrite EX, <- Hl. exact Hok. }
    destruct (in_dec Nat.eq_dec o (r_observers s)) as [Hi|Hni].
    + destruct (m o) as [os|] eqn:Hm; [|exfalso; exact (Hdom o Hi Hm)].
      destruct (A3 o os Hi Hm) as [so' [E2 ->]]. rewrite E2 in Hm2. injection Hm2 as <-.
      exists os. split; [reflexivity|]. exists (lx l o ++ [Next v]). split; [now rewrite app_nil_r|]. split; [|apply pend_ok_nil].
      apply (obs_ok_emit _ (r_observers s) (r_observers s2) _ _ os _ o _ (Next v) (Hold os eq_refl));
        cbn [set_so ra_stopped r_so].
      * reflexivity.
      * intros _. split; reflexivity.
      * intros _. split; [reflexivity|]. rewrite Hobs. cbn. tauto.
    + rewrite (A2 o Hni) in Hm2. exists os2. split; [exact Hm2|]. exists (lx l o ++ [Next v]).
      split; [now rewrite app_nil_r|]. split; [|apply pend_ok_nil].
      apply (obs_ok_emit _ (r_observers s) (r_observers s2) _ _ os2 os2 o _ (Next v) (Hold os2 Hm2)).
      * reflexivity.
      * intros Hi. contradiction.
      * intros _. split; [reflexivity|]. rewrite Hobs. cbn. tauto.
  - apply (sclean_push_top top (RNext v)); [exact (sinv_clean _ I)|intros o; apply sinflight_ensures|].
    intros i Hin. apply in_map_iff in Hin. destruct Hin as [x [<- _]]. reflexivity.
  - intros _ o. destruct (Hk o) as [_ K2]. rewrite K2. apply Hnp.
Qed.

Lemma sinv_final_live top p (t : ev A) s m k l :
  SInv (SCfg s m (SIOp top p :: k) l) -> r_disposed s = false -> r_stopped s = false ->
  ((exists e, p = RErr e /\ t = Err e) \/ (p = RDone /\ t = Done)) ->
  SInv (sstep_op sync react top p s m k l).
Proof.
  intros I Hd Hs Hp.
  pose proof (sinv_st_l _ _ _ _ I) as Hst. pose proof (status_live b w _ _ Hst Hd Hs) as Hg.
  pose proof (live_status _ Hg) as Hl.
  destruct Hst as (Hb & Hw & Hc & Hstat & Hq). rewrite Hg in Hstat. specialize (Hq ltac:(congruence)).
  destruct Hstat as (_ & _ & Hex).
  assert (Hdom : forall o, In o (r_observers s) -> m o <> None) by exact (sinv_dom _ I).
  set (s1 := match t with
             | Err e => trim (with_exception (Some e) (with_observers [] (with_stopped true s)))
             | _ => trim (with_observers [] (with_stopped true s)) end).
  set (k' := map (fun o => SIOnEnsure top o t) (r_observers s) ++ k).
  assert (Hstep : sstep_op sync react top p s m k l = SCfg s1 m k' ([] ++ REOp p :: l)).
  { unfold sstep_op, s1, k'. destruct Hp as [[e [-> ->]]|[-> ->]]; rewrite Hd, Hs; reflexivity. }
  rewrite Hstep. clear Hstep.
  assert (Hnp : forall o, spend o k = []).
  { intros o. pose proof (sinv_nopend _ I Hl o) as Hpp. cbn [sc_k spend] in Hpp. exact Hpp. }
  assert (Hinf : forall o, sinflight o k' = sinflight o k).
  { intros o. unfold k'. now rewrite sinflight_app, sinflight_onensures. }
  assert (Hpd : forall o, spend o k' = if mem o (r_observers s) then [t] else []).
  { intros o. unfold k'. rewrite spend_app, (spend_onensures o top t (r_observers s) (sinv_nodup _ I)), (Hnp o). apply app_nil_r. }
  assert (Hobs1 : r_observers s1 = []) by (unfold s1; destruct t; reflexivity).
  assert (Hdead : rg_live (rg_step (lg l) p) = false).
  { destruct Hp as [[e [-> _]]|[-> _]]; cbn [rg_step]; rewrite Hl; reflexivity. }
  assert (Hrn : rnote (lg l) p = [t]).
  { unfold rnote. rewrite Hl. destruct Hp as [[e [-> ->]]|[-> ->]]; reflexivity. }
  apply (sinv_op_generic top p s m k l s1 m k' [] I); [now left| | | | | | |].
  - destruct Hp as [[e [-> ->]]|[-> ->]]; cbn [rg_step]; rewrite Hl;
      unfold ReplayTreeFacts.st_agree, s1, trim; cbn; rewrite Hb, Hw.
    + split; [reflexivity|]. split; [reflexivity|]. split; [exact Hc|]. split; [repeat split; assumption|].
      intros _. apply qinv_trim. exact Hq.
    + split; [reflexivity|]. split; [reflexivity|]. split; [exact Hc|]. split; [repeat split; assumption|].
      intros _. apply qinv_trim. exact Hq.
  - rewrite Hobs1. constructor.
  - rewrite Hobs1. intros o [].
  - intros o Hm. destruct (sinv_none_l _ _ _ _ o I Hm) as (_ & _ & Hi2 & _). cbn [sinflight] in Hi2.
    rewrite Hinf, Hpd. split; [exact Hm|]. split; [destruct Hp as [[e [-> _]]|[-> _]]; reflexivity|].
    split; [exact Hi2|]. replace (mem o (r_observers s)) with false; [reflexivity|].
    symmetry. apply mem_false. intros Hin. exact (Hdom o Hin Hm).
  - intros o os Hm. left. exists os. split; [exact Hm|]. rewrite Hinf, Hpd, Hrn, Hdead.
    destruct (sinv_some_l _ _ _ _ o os I Hm) as [_ [X' (EX & Hok & _)]].
    cbn [sinflight spend] in EX, Hok. rewrite (Hnp o), app_nil_r in EX. subst X'. rewrite Hl in Hok.
    destruct (mem o (r_observers s)) eqn:Em.
    + exists (lx l o). split; [reflexivity|]. split.
      * eapply (obs_ok_weaken react); [|exact Hok]. discriminate.
      * split; [cbn; lia|]. intros _ Hra. unfold obs_ok in Hok. rewrite Hra in Hok.
        destruct Hok as [_ H2]. exact (proj2 (H2 eq_refl)).
    + exists (lx l o ++ [t]). split; [now rewrite app_nil_r|]. split; [|apply pend_ok_nil].
      unfold obs_ok in *. destruct (ra_stopped os); [now apply prefix_app_r|].
      destruct Hok as [_ H2]. destruct (H2 eq_refl) as [Hin _]. apply mem_In in Hin. congruence.
  - unfold k'. apply (sclean_push_top top p); [exact (sinv_clean _ I)|intros o; apply sinflight_onensures|].
    intros i Hin. apply in_map_iff in Hin. destruct Hin as [x [<- _]]. reflexivity.
  - rewrite Hdead. discriminate.
Qed.

Theorem sstep_op_inv top p s m k l :
  SInv (SCfg s m (SIOp top p :: k) l) -> SInv (sstep_op sync react top p s m k l).
Proof.
  intros I. destruct p as [o|o|v|e| | |d].
  - now apply sinv_sub.
  - now apply sinv_unsub.
  - destruct (r_disposed s) eqn:Hd; [apply sinv_emit_dead; [exact I|constructor|now left]|].
    destruct (r_stopped s) eqn:Hs; [apply sinv_emit_dead; [exact I|constructor|now right]|].
    now apply sinv_next_live.
  - destruct (r_disposed s) eqn:Hd; [apply sinv_emit_dead; [exact I|constructor|now left]|].
    destruct (r_stopped s) eqn:Hs; [apply sinv_emit_dead; [exact I|constructor|now right]|].
    apply (sinv_final_live top (RErr e) (Err e)); try assumption. left. eauto.
  - destruct (r_disposed s) eqn:Hd; [apply sinv_emit_dead; [exact I|constructor|now left]|].
    destruct (r_stopped s) eqn:Hs; [apply sinv_emit_dead; [exact I|constructor|now right]|].
    apply (sinv_final_live top RDone Done); try assumption. right. split; reflexivity.
  - now apply sinv_dispose.
  - now apply sinv_advance.
Qed.

(* ---- instructions that do not start an operation ---- *)
Lemma sinv_instr_generic s m i k l s' (m' : @romap A) k' (extra : list (@revent A)) :
  SInv (SCfg s m (i :: k) l) ->
  lops (extra ++ l) = lops l ->
  same_but_obs s s' -> NoDup (r_observers s') ->
  (forall o, In o (r_observers s') -> m' o <> None) ->
  (forall o, m' o = None ->
     m o = None /\ lview o (extra ++ l) = lview o l /\
     sinflight o k' = sinflight o (i :: k) /\ spend o k' = spend o (i :: k)) ->
  (forall o os', m' o = Some os' -> exists os, m o = Some os /\
     forall X', lx l o = X' ++ spend o (i :: k) ->
       obs_ok (rg_live (lg l)) (r_observers s) (lview o l) (sinflight o (i :: k)) os o X' ->
       pend_ok os (spend o (i :: k)) ->
       exists X'', lx l o = X'' ++ spend o k' /\
         obs_ok (rg_live (lg l)) (r_observers s') (lview o (extra ++ l)) (sinflight o k') os' o X'' /\
         pend_ok os' (spend o k')) ->
  sclean k' ->
  (rg_live (lg l) = true -> forall o, spend o k' = []) ->
  SInv (SCfg s' m' k' (extra ++ l)).
Proof.
  intros I Hops Hcore Hnd Hdom Hnone Hsome Hclean Hnp.
  assert (Hlg : lg (extra ++ l) = lg l) by (unfold lg; now rewrite Hops).
  assert (Hx : forall o, lx (extra ++ l) o = lx l o) by (intros o; unfold ReplayTreeFacts.lx; now rewrite Hops).
  constructor; cbn [sc_st sc_obs sc_k sc_rlog].
  - rewrite Hlg. exact (st_agree_same b w s s' _ Hcore (sinv_st_l _ _ _ _ I)).
  - exact Hnd.
  - exact Hdom.
  - intros o Hm. destruct (Hnone o Hm) as (Hm0 & Hv & Hi & Hp).
    destruct (sinv_none_l _ _ _ _ o I Hm0) as (H1 & H2 & H3 & H4).
    rewrite Hops, Hv, Hi, Hp. auto.
  - intros o os' Hm. destruct (Hsome o os' Hm) as [os [Hm0 Himp]].
    destruct (sinv_some_l _ _ _ _ o os I Hm0) as [H1 [X' (EX & Hok & Hp)]].
    rewrite Hops, Hx, Hlg. split; [exact H1|]. exact (Himp X' EX Hok Hp).
  - exact Hclean.
  - rewrite Hlg. exact Hnp.
Qed.

(* the common case: only observer o's table entry changes, the continuation keeps
   its pending deliveries and terminals *)
Lemma sinv_instr_one s m i k l s' k' o os os' :
  SInv (SCfg s m (i :: k) l) ->
  ksame (i :: k) k' -> sclean k' ->
  same_but_obs s s' -> NoDup (r_observers s') ->
  (forall x, In x (r_observers s') -> In x (r_observers s)) ->
  m o = Some os ->
  (forall X', obs_ok (rg_live (lg l)) (r_observers s) (lview o l) (sinflight o (i :: k)) os o X' ->
              pend_ok os (spend o (i :: k)) ->
              obs_ok (rg_live (lg l)) (r_observers s') (lview o l) (sinflight o (i :: k)) os' o X' /\
              pend_ok os' (spend o (i :: k))) ->
  (forall o2 os2 X', o2 <> o -> m o2 = Some os2 ->
     obs_ok (rg_live (lg l)) (r_observers s) (lview o2 l) (sinflight o2 (i :: k)) os2 o2 X' ->
     obs_ok (rg_live (lg l)) (r_observers s') (lview o2 l) (sinflight o2 (i :: k)) os2 o2 X') ->
  SInv (SCfg s' (rupd m o os') k' l).
Proof.
  intros I Hk Hclean Hcore Hnd Hsub Hm Hself Hother.
  apply (sinv_instr_generic s m i k l s' _ k' [] I); try reflexivity; try assumption.
  - intros x Hi. unfold rupd. destruct (Nat.eqb x o); [discriminate|]. exact (sinv_dom _ I x (Hsub x Hi)).
  - intros x. unfold rupd. destruct (Nat.eqb x o); [discriminate|]. intros Hx.
    destruct (Hk x) as [K1 K2]. auto.
  - intros x osx. destruct (Hk x) as [K1 K2]. rewrite K1, K2. cbn [app]. unfold rupd.
    destruct (Nat.eqb x o) eqn:E.
    + apply Nat.eqb_eq in E. subst x. intros [= <-]. exists os. split; [exact Hm|].
      intros X' EX Hok Hp. exists X'. split; [exact EX|]. exact (Hself X' Hok Hp).
    + apply Nat.eqb_neq in E. intros Hx. exists osx. split; [exact Hx|].
      intros X' EX Hok Hp. exists X'. split; [exact EX|]. split; [|exact Hp]. exact (Hother x osx X' E Hx Hok).
  - intros El x. destruct (Hk x) as [_ K2]. rewrite K2. exact (sinv_nopend _ I El x).
Qed.

(* nothing changes but the continuation *)
Lemma sinv_instr_skip s m i k l s' k' :
  SInv (SCfg s m (i :: k) l) -> ksame (i :: k) k' -> sclean k' ->
  same_but_obs s s' -> r_observers s' = r_observers s ->
  SInv (SCfg s' m k' l).
Proof.
  intros I Hk Hclean Hcore Hobs.
  apply (sinv_instr_generic s m i k l s' m k' [] I); try reflexivity; try assumption.
  - rewrite Hobs. exact (sinv_nodup _ I).
  - rewrite Hobs. exact (sinv_dom _ I).
  - intros x Hx. destruct (Hk x) as [K1 K2]. auto.
  - intros x osx Hx. destruct (Hk x) as [K1 K2]. rewrite K1, K2, Hobs. cbn [app]. exists osx. split; [exact Hx|].
    intros X' EX Hok Hp. exists X'. auto.
  - intros El x. destruct (Hk x) as [_ K2]. rewrite K2. exact (sinv_nopend _ I El x).
Qed.

Lemma sclean_drain_if top (i : @sinstr A) k :
  sclean (i :: k) -> is_top i = top -> sclean (drain_if sync top k).
Proof.
  intros Hc Hi. unfold drain_if. destruct (inl sync top) eqn:E; [|exact (sclean_tail _ _ Hc)].
  apply inl_top in E. rewrite E in Hi. split; [intros _; exact (sclean_top _ _ Hc Hi)|exact (sclean_tail _ _ Hc)].
Qed.

Lemma sinv_resched o s m k l :
  SInv (SCfg s m (SIResched o :: k) l) -> SInv (sstep (SCfg s m (SIResched o :: k) l)).
Proof.
  intros I. unfold ReplaySched.sstep. cbn [sc_k sc_st sc_obs sc_rlog].
  apply (sinv_instr_skip s m (SIResched o) k l); [exact I|intros x; split; reflexivity|
    exact (sclean_tail _ _ (sinv_clean _ I))|repeat split|reflexivity].
Qed.

Lemma sinv_handle o s m k l :
  SInv (SCfg s m (SIHandle o :: k) l) -> SInv (sstep (SCfg s m (SIHandle o :: k) l)).
Proof.
  intros I. unfold ReplaySched.sstep. cbn [sc_k sc_st sc_obs sc_rlog].
  destruct (m o) as [os|] eqn:Hm.
  - apply (sinv_instr_one s m (SIHandle o) k l s k o os); [exact I|intros x; split; reflexivity|
      exact (sclean_tail _ _ (sinv_clean _ I))|apply same_but_obs_refl|exact (sinv_nodup _ I)|tauto|exact Hm| |tauto].
    intros X' Hok Hp. split; [eapply (obs_ok_ext react); [| | |exact Hok]; reflexivity|].
    eapply pend_ok_ext; [| |exact Hp]; cbn; tauto.
  - apply (sinv_instr_skip s m (SIHandle o) k l); [exact I|intros x; split; reflexivity|
      exact (sclean_tail _ _ (sinv_clean _ I))|apply same_but_obs_refl|reflexivity].
Qed.

Lemma sinv_adofin o s m k l :
  SInv (SCfg s m (SIAdoFin o :: k) l) -> SInv (sstep (SCfg s m (SIAdoFin o :: k) l)).
Proof.
  intros I. unfold ReplaySched.sstep. cbn [sc_k sc_st sc_obs sc_rlog].
  destruct (m o) as [os|] eqn:Hm.
  - destruct (rado_dispose_spec s os o) as (Hs & Hcore & Hobs).
    destruct (rado_dispose s os o) as [s' os']. cbn [fst snd] in *.
    assert (Hsub : forall x, In x (r_observers s') -> In x (r_observers s)).
    { intros x. destruct Hobs as [->| ->]; [tauto|apply (In_remove1_weak react)]. }
    apply (sinv_instr_one s m (SIAdoFin o) k l s' k o os); [exact I|intros x; split; reflexivity|
      exact (sclean_tail _ _ (sinv_clean _ I))|exact Hcore| |exact Hsub|exact Hm| |].
    + destruct Hobs as [->| ->]; [exact (sinv_nodup _ I)|apply NoDup_remove1; exact (sinv_nodup _ I)].
    + intros X' Hok Hp. split; [eapply (obs_ok_stop react); [exact Hs|exact Hok]|].
      apply pend_ok_stopped; [exact (proj1 Hp)|exact Hs].
    + intros o2 os2 X' Hne Hm2 Hok. eapply (obs_ok_weaken react); [|exact Hok]. intros El. split; [exact El|].
      intros Hin. destruct Hobs as [->| ->]; [exact Hin|].
      apply (In_remove1 o _ o2 (sinv_nodup _ I)). split; assumption.
  - apply (sinv_instr_skip s m (SIAdoFin o) k l); [exact I|intros x; split; reflexivity|
      exact (sclean_tail _ _ (sinv_clean _ I))|apply same_but_obs_refl|reflexivity].
Qed.

Lemma sinv_ensure top o s m k l :
  SInv (SCfg s m (SIEnsure top o :: k) l) -> SInv (sstep (SCfg s m (SIEnsure top o :: k) l)).
Proof.
  intros I. unfold ReplaySched.sstep. cbn [sc_k sc_st sc_obs sc_rlog].
  destruct (m o) as [os|] eqn:Hm.
  - pose proof (ensure_active_core o s (r_so os)) as [Hobs Hcore].
    pose proof (ensure_active_so o s (r_so os)) as [Hq Hst].
    destruct (ensure_active o s (r_so os)) as [s' so']. cbn [fst snd] in *.
    apply (sinv_instr_one s m (SIEnsure top o) k l s' _ o os); [exact I| | |exact Hcore| | |exact Hm| |].
    + intros x. destruct (ksame_drain_if top k x) as [K1 K2]. split; assumption.
    + apply (sclean_drain_if top (SIEnsure top o)); [exact (sinv_clean _ I)|reflexivity].
    + rewrite Hobs. exact (sinv_nodup _ I).
    + rewrite Hobs. tauto.
    + intros X' Hok Hp. rewrite Hobs. split.
      * eapply (obs_ok_ext react); [| | |exact Hok]; cbn [set_so ra_stopped r_so]; [reflexivity|exact Hq|exact Hst].
      * eapply pend_ok_ext; [| |exact Hp]; cbn [set_so ra_stopped r_so]; [tauto|congruence].
    + intros o2 os2 X' _ _ Hok. rewrite Hobs. exact Hok.
  - apply (sinv_instr_skip s m (SIEnsure top o) k l); [exact I|intros x; split; reflexivity|
      exact (sclean_tail _ _ (sinv_clean _ I))|apply same_but_obs_refl|reflexivity].
Qed.

Lemma spend_onensure_same top o t k : spend o (SIOnEnsure top o t :: k) = t :: spend o k.
Proof. cbn [spend]. now rewrite Nat.eqb_refl. Qed.
Lemma spend_onensure_other top o o2 t k : o2 <> o -> spend o2 (SIOnEnsure top o t :: k) = spend o2 k.
Proof. intros H. cbn [spend]. destruct (Nat.eqb o o2) eqn:E; [apply Nat.eqb_eq in E; congruence|reflexivity]. Qed.

Lemma sinv_onensure top o t s m k l :
  SInv (SCfg s m (SIOnEnsure top o t :: k) l) -> SInv (sstep (SCfg s m (SIOnEnsure top o t :: k) l)).
Proof.
  intros I. unfold ReplaySched.sstep. cbn [sc_k sc_st sc_obs sc_rlog].
  destruct (m o) as [os|] eqn:Hm.
  2:{ exfalso. destruct (sinv_none_l _ _ _ _ o I Hm) as (_ & _ & _ & Hp).
      rewrite spend_onensure_same in Hp. discriminate. }
  pose proof (ensure_active_core o s (so_on t (r_so os))) as [Hobs Hcore].
  pose proof (ensure_active_so o s (so_on t (r_so os))) as [Hq Hst].
  destruct (ensure_active o s (so_on t (r_so os))) as [s' so']. cbn [fst snd] in *.
  assert (Hk : forall x, sinflight x (drain_if sync top k) = sinflight x k /\
                         spend x (drain_if sync top k) = spend x k).
  { intros x. exact (ksame_drain_if top k x). }
  assert (Hdead : rg_live (lg l) = false).
  { destruct (rg_live (lg l)) eqn:El; [|reflexivity]. pose proof (sinv_nopend _ I El o) as Hp.
    cbn [sc_k] in Hp. rewrite spend_onensure_same in Hp. discriminate. }
  apply (sinv_instr_generic s m (SIOnEnsure top o t) k l s' _ _ [] I); try reflexivity.
  - exact Hcore.
  - rewrite Hobs. exact (sinv_nodup _ I).
  - rewrite Hobs. intros x Hi. unfold rupd. destruct (Nat.eqb x o); [discriminate|]. exact (sinv_dom _ I x Hi).
  - intros x. unfold rupd. destruct (Nat.eqb x o) eqn:E; [discriminate|]. apply Nat.eqb_neq in E. intros Hx.
    destruct (Hk x) as [K1 K2]. rewrite K1, K2, (spend_onensure_other top o x t k E). auto.
  - intros x osx. destruct (Hk x) as [K1 K2]. rewrite K1, K2, Hobs. cbn [app sinflight]. unfold rupd.
    destruct (Nat.eqb x o) eqn:E.
    + apply Nat.eqb_eq in E. subst x. intros [= <-]. exists os. split; [exact Hm|].
      rewrite spend_onensure_same. intros X' EX Hok [Hlen Hps].
      assert (Hnil : spend o k = []) by (destruct (spend o k); [reflexivity|cbn in Hlen; lia]).
      exists (X' ++ [t]). split; [rewrite EX, <- app_assoc; reflexivity|]. split; [|rewrite Hnil; apply pend_ok_nil].
      unfold obs_ok in *. cbn [set_so ra_stopped r_so]. destruct (ra_stopped os) eqn:Era; [now apply prefix_app_r|].
      destruct Hok as [H1 _]. specialize (Hps ltac:(discriminate) eq_refl).
      destruct (so_on_queue t _ Hps) as [Q1 _]. rewrite Hq, Q1, Hdead.
      split; [|discriminate]. rewrite <- H1, <- !app_assoc. reflexivity.
    + apply Nat.eqb_neq in E. rewrite (spend_onensure_other top o x t k E). intros Hx. exists osx.
      split; [exact Hx|]. intros X' EX Hok Hp. exists X'. auto.
  - apply (sclean_drain_if top (SIOnEnsure top o t)); [exact (sinv_clean _ I)|reflexivity].
  - rewrite Hdead. discriminate.
Qed.

Lemma sinflight_deliver_same o n k : sinflight o (SIDeliver o n :: k) = n :: sinflight o k.
Proof. cbn [sinflight]. now rewrite Nat.eqb_refl. Qed.
Lemma sinflight_deliver_other o o2 n k : o2 <> o -> sinflight o2 (SIDeliver o n :: k) = sinflight o2 k.
Proof. intros H. cbn [sinflight]. destruct (Nat.eqb o o2) eqn:E; [apply Nat.eqb_eq in E; congruence|reflexivity]. Qed.

Lemma sinv_deliver o n s m k l :
  SInv (SCfg s m (SIDeliver o n :: k) l) -> SInv (sstep (SCfg s m (SIDeliver o n :: k) l)).
Proof.
  intros I. unfold ReplaySched.sstep. cbn [sc_k sc_st sc_obs sc_rlog].
  assert (Hck : sclean k) by exact (sclean_tail _ _ (sinv_clean _ I)).
  destruct (m o) as [os|] eqn:Hm.
  2:{ exfalso. destruct (sinv_none_l _ _ _ _ o I Hm) as (_ & _ & Hi & _).
      rewrite sinflight_deliver_same in Hi. discriminate. }
  destruct (ra_stopped os) eqn:Hst.
  - (* AutoDetachObserver.on_xxx: `if self.is_stopped: return` *)
    apply (sinv_instr_generic s m (SIDeliver o n) k l s m k [] I); try reflexivity.
    + apply same_but_obs_refl.
    + exact (sinv_nodup _ I).
    + exact (sinv_dom _ I).
    + intros o2 H2. split; [exact H2|]. split; [reflexivity|].
      destruct (Nat.eq_dec o2 o) as [->|Hne]; [congruence|]. rewrite sinflight_deliver_other by exact Hne. auto.
    + intros o2 os2 H2. exists os2. split; [exact H2|]. cbn [app spend]. intros X' EX Hok Hp. exists X'.
      split; [exact EX|]. split; [|exact Hp].
      destruct (Nat.eq_dec o2 o) as [->|Hne].
      * rewrite Hm in H2. injection H2 as <-. now apply (obs_ok_stopped_infl react _ _ _ (sinflight o (SIDeliver o n :: k))).
      * rewrite sinflight_deliver_other in Hok by exact Hne. exact Hok.
    + exact Hck.
    + intros El x. exact (sinv_nopend _ I El x).
  - assert (Hgen : forall stop kk, sclean kk -> (forall o2, sinflight o2 kk = sinflight o2 k /\ spend o2 kk = spend o2 k) ->
                   (is_terminal n = true -> stop = true) ->
                   SInv (SCfg s (rupd m o (rcalled stop os)) kk ([REGot o n] ++ l))).
    { intros stop kk Hckk Hinf Hterm.
      apply (sinv_instr_generic s m (SIDeliver o n) k l s _ kk [REGot o n] I).
      - cbn [app]. apply lops_got.
      - apply same_but_obs_refl.
      - exact (sinv_nodup _ I).
      - intros o2 Hi. unfold rupd. destruct (Nat.eqb o2 o); [discriminate|]. exact (sinv_dom _ I o2 Hi).
      - intros o2. unfold rupd. destruct (Nat.eqb o2 o) eqn:E; [discriminate|]. intros H2.
        apply Nat.eqb_neq in E. split; [exact H2|]. cbn [app]. rewrite lview_got.
        destruct (Nat.eqb o o2) eqn:E2; [apply Nat.eqb_eq in E2; congruence|]. rewrite app_nil_r.
        destruct (Hinf o2) as [K1 K2]. rewrite K1, K2, sinflight_deliver_other by exact E. auto.
      - intros o2 os2. destruct (Hinf o2) as [K1 K2]. rewrite K1, K2. cbn [spend]. unfold rupd.
        destruct (Nat.eqb o2 o) eqn:E.
        + apply Nat.eqb_eq in E. subst o2. intros [= <-]. exists os. split; [exact Hm|].
          cbn [app]. rewrite lview_got, Nat.eqb_refl, sinflight_deliver_same.
          intros X' EX Hok Hp. exists X'. split; [exact EX|].
          unfold obs_ok in *. cbn [rcalled ra_stopped r_so]. rewrite Hst in *. cbn [orb].
          destruct Hok as [H1 H2]. destruct stop.
          * split; [|apply pend_ok_stopped; [exact (proj1 Hp)|cbn; apply orb_true_r]].
            rewrite <- H1. exists (sinflight o k ++ so_queue (r_so os)). rewrite <- app_assoc. reflexivity.
          * split; [|eapply pend_ok_ext; [| |exact Hp]; cbn; [rewrite orb_false_r; tauto|tauto]].
            rewrite <- app_assoc. cbn [app]. split; [exact H1|exact H2].
        + apply Nat.eqb_neq in E. intros H2. exists os2. split; [exact H2|]. cbn [app].
          rewrite lview_got. destruct (Nat.eqb o o2) eqn:E2; [apply Nat.eqb_eq in E2; congruence|].
          rewrite app_nil_r, sinflight_deliver_other by exact E. intros X' EX Hok Hp. exists X'. auto.
      - exact Hckk.
      - intros El x. destruct (Hinf x) as [_ K2]. rewrite K2. exact (sinv_nopend _ I El x). }
    assert (Hpush : forall pre, (forall x, sinflight x pre = [] /\ spend x pre = []) ->
                    (forall i, In i pre -> is_top i = false) -> sclean (pre ++ k) /\
                    forall o2, sinflight o2 (pre ++ k) = sinflight o2 k /\ spend o2 (pre ++ k) = spend o2 k).
    { intros pre Hn Ht. split.
      - apply sclean_push; [intros x; exact (proj1 (Hn x))|exact Hck|].
        intros [i [Hin Hi]]. rewrite (Ht i Hin) in Hi. discriminate.
      - intros o2. rewrite sinflight_app, spend_app. destruct (Hn o2) as [-> ->]. split; reflexivity. }
    assert (Hops : forall x, sinflight x (map (SIOp false) (react o (r_calls os))) = [] /\
                             spend x (map (SIOp false) (react o (r_calls os))) = []).
    { intros x. split; [apply sinflight_ops|apply spend_ops]. }
    assert (Hopt : forall i, In i (map (SIOp false) (react o (r_calls os))) -> is_top i = false).
    { intros i Hin. apply in_map_iff in Hin. destruct Hin as [x [<- _]]. reflexivity. }
    destruct n as [v|e|].
    + destruct (Hpush _ Hops Hopt) as [P1 P2]. apply (Hgen false); [exact P1|exact P2|discriminate].
    + destruct (Hpush (map (SIOp false) (react o (r_calls os)) ++ [SIAdoFin o])) as [P1 P2].
      * intros x. rewrite sinflight_app, spend_app. destruct (Hops x) as [-> ->]. split; reflexivity.
      * intros i Hin. apply in_app_or in Hin. destruct Hin as [Hin|[<-|[]]]; [now apply Hopt|reflexivity].
      * rewrite <- app_assoc in P1, P2. apply (Hgen true); [exact P1|exact P2|reflexivity].
    + destruct (Hpush (map (SIOp false) (react o (r_calls os)) ++ [SIAdoFin o])) as [P1 P2].
      * intros x. rewrite sinflight_app, spend_app. destruct (Hops x) as [-> ->]. split; reflexivity.
      * intros i Hin. apply in_app_or in Hin. destruct Hin as [Hin|[<-|[]]]; [now apply Hopt|reflexivity].
      * rewrite <- app_assoc in P1, P2. apply (Hgen true); [exact P1|exact P2|reflexivity].
Qed.

Lemma sinv_drain s m k l :
  SInv (SCfg s m (SIDrain :: k) l) -> SInv (sstep (SCfg s m (SIDrain :: k) l)).
Proof.
  intros I. unfold ReplaySched.sstep. cbn [sc_k sc_st sc_obs sc_rlog].
  assert (Hnod : snodeliver k) by exact (sclean_top _ _ (sinv_clean _ I) eq_refl).
  assert (Hck : sclean k) by exact (sclean_tail _ _ (sinv_clean _ I)).
  assert (Hcd : sclean (SIDrain :: k)) by exact (sinv_clean _ I).
  destruct (r_sched s) as [|[[it o] cancelled] rest].
  - apply (sinv_instr_skip s m SIDrain k l); [exact I|intros x; split; reflexivity|exact Hck|
      apply same_but_obs_refl|reflexivity].
  - set (s1 := with_sched rest (r_fresh s) s).
    assert (Hsame : SInv (SCfg s1 m (SIDrain :: k) l)).
    { apply (sinv_instr_skip s m SIDrain k l); [exact I|intros x; split; reflexivity|exact Hcd|
        repeat split|reflexivity]. }
    destruct cancelled; [exact Hsame|].
    destruct (m o) as [os|] eqn:Hm; [|exact Hsame].
    destruct (so_queue (r_so os)) as [|n q] eqn:Hq.
    + (* nothing queued: is_acquired = False *)
      apply (sinv_instr_one s m SIDrain k l s1 _ o os); [exact I|intros x; split; reflexivity|exact Hcd|
        repeat split|exact (sinv_nodup _ I)|cbn; tauto|exact Hm| |cbn; tauto].
      intros X' Hok Hp. split.
      * eapply (obs_ok_ext react); [| | |exact Hok]; cbn [set_so ra_stopped r_so so_queue so_stopped];
          [reflexivity|now rewrite Hq|reflexivity].
      * eapply pend_ok_ext; [| |exact Hp]; cbn; tauto.
    + (* work = queue.pop(0) *)
      apply (sinv_instr_generic s m SIDrain k l s1 _ (SIDeliver o n :: SIResched o :: SIDrain :: k) [] I);
        try reflexivity.
      * repeat split.
      * exact (sinv_nodup _ I).
      * intros o2 Hi. unfold rupd. destruct (Nat.eqb o2 o); [discriminate|]. exact (sinv_dom _ I o2 Hi).
      * intros o2. unfold rupd. destruct (Nat.eqb o2 o) eqn:E; [discriminate|]. intros H2.
        apply Nat.eqb_neq in E. rewrite sinflight_deliver_other by exact E. auto.
      * intros o2 os2. unfold rupd. destruct (Nat.eqb o2 o) eqn:E.
        -- apply Nat.eqb_eq in E. subst o2. intros [= <-]. exists os. split; [exact Hm|]. cbn [app spend].
           rewrite sinflight_deliver_same. cbn [sinflight]. rewrite (Hnod o).
           intros X' EX Hok Hp. exists X'. split; [exact EX|]. split.
           ++ unfold obs_ok in *. cbn [set_so ra_stopped r_so so_queue so_stopped]. rewrite Hq in Hok. cbn [app] in *. exact Hok.
           ++ eapply pend_ok_ext; [| |exact Hp]; cbn; tauto.
        -- apply Nat.eqb_neq in E. intros H2. exists os2. split; [exact H2|]. cbn [app spend].
           rewrite sinflight_deliver_other by exact E. cbn [sinflight]. intros X' EX Hok Hp. exists X'. auto.
      * split; [discriminate|]. split; [discriminate|]. exact Hcd.
      * intros El x. cbn [spend]. exact (sinv_nopend _ I El x).
Qed.

Theorem sstep_inv c : SInv c -> SInv (sstep c).
Proof.
  destruct c as [s m k l]. intros I. destruct k as [|i k].
  - unfold ReplaySched.sstep. exact I.
  - destruct i as [top p|top o|top o t|o n|o|o|o|].
    + unfold ReplaySched.sstep. cbn [sc_k sc_st sc_obs sc_rlog]. now apply sstep_op_inv.
    + now apply sinv_ensure.
    + now apply sinv_onensure.
    + now apply sinv_deliver.
    + now apply sinv_adofin.
    + now apply sinv_resched.
    + now apply sinv_handle.
    + now apply sinv_drain.
Qed.

End SchedA.

Lemma SInv_init {A} (sync : bool) (react : nat -> nat -> list (@rop A)) (bs w : option Z) (top : list (@rop A)) :
  SInv (bufsize_of bs) w (sinit_cfg sync bs w top).
Proof.
  assert (Hk : forall o, sinflight o (sc_k (sinit_cfg sync bs w top)) = [] /\
                         spend o (sc_k (sinit_cfg sync bs w top)) = []).
  { intros o. cbn [sinit_cfg sc_k]. destruct sync; induction top as [|p t IH]; cbn; auto. }
  constructor; cbn [sinit_cfg sc_st sc_obs sc_rlog].
  - unfold st_agree. cbn. split; [destruct bs; reflexivity|]. split; [reflexivity|]. split; [reflexivity|].
    split; [repeat split|]. intros _. apply qinv_init.
  - constructor.
  - intros o [].
  - intros o _. split; [reflexivity|]. split; [reflexivity|]. exact (Hk o).
  - intros o os H. discriminate.
  - apply snodeliver_clean. intros o. exact (proj1 (Hk o)).
  - intros _ o. exact (proj2 (Hk o)).
Qed.

(* C22, both scheduler modes, arbitrary call trees: what an observer has received
   is a prefix of its entitlement -- nothing duplicated, reordered or invented *)
Theorem sched_prefix {A} (sync : bool) (react : nat -> nat -> list (@rop A)) (bs w : option Z)
        (top : list (@rop A)) (fuel o : nat) :
  let c := srun sync react fuel (sinit_cfg sync bs w top) in
  prefix (rview o (slog_of c)) (xview (bufsize_of bs) w o false rg_init (ops_of (slog_of c))).
Proof.
  cbv zeta.
  assert (I : SInv (bufsize_of bs) w (srun sync react fuel (sinit_cfg sync bs w top))).
  { generalize (sinit_cfg sync bs w top) (SInv_init sync react bs w top). induction fuel as [|f IH]; intros c Hc; [exact Hc|].
    cbn [srun]. destruct (sc_k c) eqn:Ek; [exact Hc|]. apply IH. now apply sstep_inv. }
  exact (SInv_prefix react (bufsize_of bs) w _ o I).
Qed.

Lemma srun_ind {A} (sync : bool) (react : nat -> nat -> list (@rop A)) (P : @scfg A -> Prop) :
  (forall c, P c -> P (sstep sync react c)) -> forall n c, P c -> P (srun sync react n c).
Proof.
  intros Hs n; induction n as [|n IH]; intros c Hc; [exact Hc|].
  cbn [srun]. destruct (sc_k c) eqn:Ek; [exact Hc|]. apply IH. now apply Hs.
Qed.

(* ========================================================================== *)
(* Part B: no lost wake-up, both modes                                        *)
(* ========================================================================== *)
Section SchedB.
Context {A : Type} (sync : bool) (react : nat -> nat -> list (@rop A)) (b : Z) (w : option Z).

Notation sstep := (sstep sync react).

(* the re-schedulings pending in the continuation, in the vocabulary of Subjects/ReplayLiveFacts.v *)
Definition emb (k : list (@sinstr A)) : list (@rinstr A) :=
  flat_map (fun i => match i with SIResched o => [RIResched o] | _ => [] end) k.

Lemma emb_in o k : In (RIResched o) (emb k) <-> In (SIResched o) k.
Proof.
  unfold emb. rewrite in_flat_map. split.
  - intros [i [Hin Hi]]. destruct i; try (destruct Hi; fail). destruct Hi as [[= <-]|[]]. exact Hin.
  - intros H. exists (SIResched o). split; [exact H|now left].
Qed.

Lemma emb_app k1 k2 : emb (k1 ++ k2) = emb k1 ++ emb k2.
Proof. unfold emb. apply flat_map_app. Qed.

(* ScheduledObserver queues are owned or about to be looked at *)
Definition Qs (m : @romap A) (k : list (@sinstr A)) : Prop :=
  forall o os, m o = Some os -> ra_stopped os = false -> so_acquired (r_so os) = false ->
    so_queue (r_so os) = [] \/ exists top, In (SIEnsure top o) k.

(* whatever may schedule outside an inline-draining context has a drain loop behind it *)
Definition needs_drain (i : @sinstr A) : bool :=
  match i with
  | SIOp top _ | SIEnsure top _ | SIOnEnsure top _ _ => negb (inl sync top)
  | SIResched _ | SIDeliver _ _ => true
  | _ => false
  end.

Fixpoint guarded (k : list (@sinstr A)) : Prop :=
  match k with
  | [] => True
  | i :: r => (needs_drain i = true -> In SIDrain r) /\ guarded r
  end.

Definition Ms (s : @rstate A) (k : list (@sinstr A)) : Prop :=
  guarded k /\ (r_sched s <> [] -> In SIDrain k).

Lemma guarded_push_in pre r : In SIDrain r -> guarded r -> guarded (pre ++ r).
Proof.
  intros Hin Hg. induction pre as [|i pre IH]; [exact Hg|]. cbn [app]. split; [|exact IH].
  intros _. apply in_or_app. now right.
Qed.

Lemma guarded_push_free pre r : (forall j, In j pre -> needs_drain j = false) -> guarded r -> guarded (pre ++ r).
Proof.
  intros Hf Hg. induction pre as [|i pre IH]; [exact Hg|]. cbn [app]. split.
  - intros Hn. rewrite (Hf i (or_introl eq_refl)) in Hn. discriminate.
  - apply IH. intros j Hj. apply Hf. now right.
Qed.

Definition K2 (c : @scfg A) : Prop :=
  SInv b w c /\ J (sc_st c) (sc_obs c) (emb (sc_k c)) /\ Qs (sc_obs c) (sc_k c) /\ Ms (sc_st c) (sc_k c).

Lemma Qs_mono (m : @romap A) k k' :
  (forall top o, In (SIEnsure top o) k -> In (SIEnsure top o) k') -> Qs m k -> Qs m k'.
Proof.
  intros Hk HQ o os Hm Hs Ha. destruct (HQ o os Hm Hs Ha) as [H|[top H]]; [now left|right; eauto].
Qed.

Lemma Qs_upd_stopped (m : @romap A) k o os' : ra_stopped os' = true -> Qs m k -> Qs (rupd m o os') k.
Proof.
  intros Hs HQ o2 os2. unfold rupd. destruct (Nat.eqb o2 o); [|apply HQ]. intros [= <-]. congruence.
Qed.

Lemma Qs_upd_same (m : @romap A) k o os os' :
  m o = Some os -> so_acquired (r_so os') = so_acquired (r_so os) -> so_queue (r_so os') = so_queue (r_so os) ->
  (ra_stopped os' = false -> ra_stopped os = false) -> Qs m k -> Qs (rupd m o os') k.
Proof.
  intros Hm E1 E2 Hst HQ o2 os2. unfold rupd. destruct (Nat.eqb o2 o) eqn:E; [|apply HQ].
  apply Nat.eqb_eq in E. subst o2. intros [= <-] Hs Ha. rewrite E2. apply (HQ o os Hm (Hst Hs)). congruence.
Qed.

Lemma Qs_upd_owned (m : @romap A) k o os' :
  (so_acquired (r_so os') = false -> so_queue (r_so os') = []) -> Qs m k -> Qs (rupd m o os') k.
Proof.
  intros Ho HQ o2 os2. unfold rupd. destruct (Nat.eqb o2 o); [|apply HQ]. intros [= <-] _ Ha. left. now apply Ho.
Qed.

Lemma Qs_upd_owned2 (m : @romap A) k k' o os' :
  (so_acquired (r_so os') = false -> so_queue (r_so os') = []) -> Qs m k ->
  (forall top o2, o2 <> o -> In (SIEnsure top o2) k -> In (SIEnsure top o2) k') ->
  Qs (rupd m o os') k'.
Proof.
  intros Ho HQ Hk o2 os2. unfold rupd. destruct (Nat.eqb o2 o) eqn:E.
  - intros [= <-] _ Ha. left. now apply Ho.
  - apply Nat.eqb_neq in E. intros Hm Hs Ha. destruct (HQ o2 os2 Hm Hs Ha) as [H|[top H]]; [now left|].
    right. exists top. now apply Hk.
Qed.

Lemma in_tail_ne {X} (x i : X) k : In x (i :: k) -> x <> i -> In x k.
Proof. intros [->|H] Hne; [congruence|exact H]. Qed.

(* ---- the scheduler queue only shrinks by being popped ---- *)
Lemma cancel_opt_len id (s : @rstate A) : length (r_sched (cancel_opt id s)) = length (r_sched s).
Proof. destruct id; [cbn; unfold cancel_item; apply map_length|reflexivity]. Qed.

Lemma so_dispose_len (s : @rstate A) so : length (r_sched (fst (so_dispose s so))) = length (r_sched s).
Proof. unfold so_dispose. destruct (ser_disposed so); [reflexivity|apply cancel_opt_len]. Qed.

Lemma rado_dispose_len (s : @rstate A) os o :
  length (r_sched (fst (rado_dispose s os o))) = length (r_sched s).
Proof.
  unfold rado_dispose. cbn [rsad_disposed rsad_cur]. destruct (rsad_disposed os); [reflexivity|].
  destruct (rsad_cur os); [|reflexivity]. unfold removable_dispose. cbn [r_so].
  pose proof (so_dispose_len s (r_so os)) as H. destruct (so_dispose s (r_so os)) as [s1 so1]. cbn [fst] in *.
  destruct (negb (r_disposed s1) && mem o (r_observers s1)); exact H.
Qed.

Lemma so_each_keeps_state (g : nat -> @sostate A -> @sostate A) : forall snap (s : @rstate A) m,
  fst (so_each (fun o s so => (s, g o so)) snap s m) = s.
Proof.
  unfold so_each. induction snap as [|o snap IH]; intros s m; [reflexivity|]. cbn [fold_left].
  destruct (m o); apply IH.
Qed.

Lemma nonnil_len {X} (l l' : list X) : length l' = length l -> l' <> [] -> l <> [].
Proof. intros H Hn ->. destruct l'; [congruence|discriminate]. Qed.

Lemma Ms_step c : Ms (sc_st c) (sc_k c) -> Ms (sc_st (sstep c)) (sc_k (sstep c)).
Proof.
  destruct c as [s m k l]. cbn [sc_st sc_k]. intros [Hg Hs]. destruct k as [|i r].
  { unfold ReplaySched.sstep. cbn. split; assumption. }
  destruct Hg as [Hn Hgr].
  (* a step that does not touch the scheduler queue and pushes instructions that need no drain (or
     finds a drain behind) *)
  assert (Hquiet : forall s' pre, (r_sched s' <> [] -> r_sched s <> []) -> i <> SIDrain ->
            ((forall j, In j pre -> needs_drain j = false) \/ In SIDrain r) ->
            Ms s' (pre ++ r)).
  { intros s' pre Hsch Hi Hpre. split.
    - destruct Hpre as [Hf|Hin]; [now apply guarded_push_free|now apply guarded_push_in].
    - intros H. apply in_or_app. right. apply (in_tail_ne _ i); [apply Hs; now apply Hsch|congruence]. }
  assert (Hdr : forall s' pre, In SIDrain r -> Ms s' (pre ++ r)).
  { intros s' pre Hin. split; [now apply guarded_push_in|]. intros _. apply in_or_app. now right. }
  unfold ReplaySched.sstep. cbn [sc_k sc_st sc_obs sc_rlog].
  destruct i as [top p|top o|top o t|o n|o|o|o|].
  - (* SIOp *)
    unfold sstep_op. cbn [needs_drain] in Hn.
    destruct (inl sync top) eqn:Ei; cbn [negb] in Hn.
    + (* at top level with the trampoline: everything pushed carries the same flag *)
      destruct p as [o|o|v|e| | |d].
      * destruct (m o); cbn [sc_st sc_k]; [apply (Hquiet s []); [tauto|discriminate|left; intros j []]|].
        destruct (r_disposed s); cbn [sc_st sc_k].
        -- unfold drain_if. rewrite Ei. split.
           ++ apply guarded_push_in; [now left|]. split; [discriminate|]. split; [discriminate|exact Hgr].
           ++ intros _. apply in_or_app. right. now left.
        -- destruct (ensure_active _ _ _) as [s3 so3]. cbn [sc_st sc_k]. split.
           ++ split; [discriminate|]. split; [discriminate|exact Hgr].
           ++ intros _. now left.
      * destruct (m o) as [os|]; cbn [sc_st sc_k]; [|apply (Hquiet s []); [tauto|discriminate|left; intros j []]].
        destruct (r_handle os); [|apply (Hquiet s []); [tauto|discriminate|left; intros j []]].
        pose proof (rado_dispose_len s os o) as Hl. destruct (rado_dispose s os o) as [s' os']. cbn [fst sc_st sc_k] in *.
        apply (Hquiet s' []); [apply nonnil_len; exact Hl|discriminate|left; intros j []].
      * destruct (r_disposed s); cbn [sc_st sc_k]; [apply (Hquiet s []); [tauto|discriminate|left; intros j []]|].
        destruct (r_stopped s); cbn [sc_st sc_k]; [apply (Hquiet s []); [tauto|discriminate|left; intros j []]|].
        match goal with |- context [so_each ?f ?a ?bb ?c] =>
          pose proof (so_each_keeps_state (fun _ so => so_on (Next v) so) a bb c) as Hk;
          destruct (so_each f a bb c) as [s2 m2] end.
        cbn [fst sc_st sc_k] in *. subst s2.
        apply Hquiet; [cbn; tauto|discriminate|left].
        intros j Hj. apply in_map_iff in Hj. destruct Hj as [x [<- _]]. cbn. now rewrite Ei.
      * destruct (r_disposed s); cbn [sc_st sc_k]; [apply (Hquiet s []); [tauto|discriminate|left; intros j []]|].
        destruct (r_stopped s); cbn [sc_st sc_k]; [apply (Hquiet s []); [tauto|discriminate|left; intros j []]|].
        apply Hquiet; [cbn; tauto|discriminate|left].
        intros j Hj. apply in_map_iff in Hj. destruct Hj as [x [<- _]]. cbn. now rewrite Ei.
      * destruct (r_disposed s); cbn [sc_st sc_k]; [apply (Hquiet s []); [tauto|discriminate|left; intros j []]|].
        destruct (r_stopped s); cbn [sc_st sc_k]; [apply (Hquiet s []); [tauto|discriminate|left; intros j []]|].
        apply Hquiet; [cbn; tauto|discriminate|left].
        intros j Hj. apply in_map_iff in Hj. destruct Hj as [x [<- _]]. cbn. now rewrite Ei.
      * cbn [sc_st sc_k]. apply (Hquiet _ []); [cbn; tauto|discriminate|left; intros j []].
      * destruct (d <? 0); cbn [sc_st sc_k]; apply (Hquiet _ []); try (cbn; tauto); try discriminate; left; intros j [].
    + (* a drain loop is behind *)
      specialize (Hn eq_refl).
      destruct p as [o|o|v|e| | |d].
      * destruct (m o); cbn [sc_st sc_k]; [apply (Hdr s []); exact Hn|].
        destruct (r_disposed s); cbn [sc_st sc_k].
        -- unfold drain_if. rewrite Ei. change (SIHandle o :: r) with ([SIHandle o] ++ r). rewrite app_assoc. now apply Hdr.
        -- destruct (ensure_active _ _ _) as [s3 so3]. cbn [sc_st sc_k]. now apply (Hdr s3 []).
      * destruct (m o) as [os|]; cbn [sc_st sc_k]; [|now apply (Hdr s [])].
        destruct (r_handle os); [|now apply (Hdr s [])].
        destruct (rado_dispose s os o) as [s' os']. cbn [sc_st sc_k]. now apply (Hdr s' []).
      * destruct (r_disposed s); cbn [sc_st sc_k]; [now apply (Hdr s [])|].
        destruct (r_stopped s); cbn [sc_st sc_k]; [now apply (Hdr s [])|].
        match goal with |- context [so_each ?f ?a ?bb ?c] => destruct (so_each f a bb c) as [s2 m2] end.
        cbn [sc_st sc_k]. now apply Hdr.
      * destruct (r_disposed s); cbn [sc_st sc_k]; [now apply (Hdr s [])|].
        destruct (r_stopped s); cbn [sc_st sc_k]; [now apply (Hdr s [])|]. now apply Hdr.
      * destruct (r_disposed s); cbn [sc_st sc_k]; [now apply (Hdr s [])|].
        destruct (r_stopped s); cbn [sc_st sc_k]; [now apply (Hdr s [])|]. now apply Hdr.
      * cbn [sc_st sc_k]. now apply (Hdr _ []).
      * destruct (d <? 0); cbn [sc_st sc_k]; now apply (Hdr _ []).
  - (* SIEnsure *)
    cbn [needs_drain] in Hn. destruct (m o) as [os|]; cbn [sc_st sc_k].
    2:{ destruct (inl sync top) eqn:Ei; cbn [negb] in Hn.
        - apply (Hquiet s []); [tauto|discriminate|left; intros j []].
        - apply (Hdr s []). now apply Hn. }
    destruct (ensure_active o s (r_so os)) as [s' so']. cbn [sc_st sc_k]. unfold drain_if.
    destruct (inl sync top) eqn:Ei; cbn [negb] in Hn.
    + split; [split; [discriminate|exact Hgr]|intros _; now left].
    + apply (Hdr s' []). now apply Hn.
  - (* SIOnEnsure *)
    cbn [needs_drain] in Hn. destruct (m o) as [os|]; cbn [sc_st sc_k].
    2:{ destruct (inl sync top) eqn:Ei; cbn [negb] in Hn.
        - apply (Hquiet s []); [tauto|discriminate|left; intros j []].
        - apply (Hdr s []). now apply Hn. }
    destruct (ensure_active o s (so_on t (r_so os))) as [s' so']. cbn [sc_st sc_k]. unfold drain_if.
    destruct (inl sync top) eqn:Ei; cbn [negb] in Hn.
    + split; [split; [discriminate|exact Hgr]|intros _; now left].
    + apply (Hdr s' []). now apply Hn.
  - (* SIDeliver *)
    specialize (Hn eq_refl). destruct (m o) as [os|]; cbn [sc_st sc_k]; [|now apply (Hdr s [])].
    destruct (ra_stopped os); cbn [sc_st sc_k]; [now apply (Hdr s [])|].
    destruct n; cbn [sc_st sc_k]; [now apply Hdr| |].
    + change (SIAdoFin o :: r) with ([SIAdoFin o] ++ r). rewrite app_assoc. now apply Hdr.
    + change (SIAdoFin o :: r) with ([SIAdoFin o] ++ r). rewrite app_assoc. now apply Hdr.
  - (* SIAdoFin *)
    destruct (m o) as [os|]; cbn [sc_st sc_k]; [|apply (Hquiet s []); [tauto|discriminate|left; intros j []]].
    pose proof (rado_dispose_len s os o) as Hl. destruct (rado_dispose s os o) as [s' os']. cbn [fst sc_st sc_k] in *.
    apply (Hquiet s' []); [apply nonnil_len; exact Hl|discriminate|left; intros j []].
  - (* SIResched *)
    specialize (Hn eq_refl). cbn [sc_st sc_k]. now apply (Hdr _ []).
  - (* SIHandle *)
    destruct (m o) as [os|]; cbn [sc_st sc_k]; apply (Hquiet s []); try tauto; try discriminate; left; intros j [].
  - (* SIDrain *)
    destruct (r_sched s) as [|[[it o] c] rest] eqn:Es; cbn [sc_st sc_k].
    + split; [exact Hgr|]. intros H. congruence.
    + destruct c; cbn [sc_st sc_k]; [split; [split; [discriminate|exact Hgr]|intros _; now left]|].
      destruct (m o) as [os|]; cbn [sc_st sc_k]; [|split; [split; [discriminate|exact Hgr]|intros _; now left]].
      destruct (so_queue (r_so os)); cbn [sc_st sc_k].
      * split; [split; [discriminate|exact Hgr]|intros _; now left].
      * split.
        -- split; [intros _; right; now left|]. split; [intros _; now left|]. split; [discriminate|exact Hgr].
        -- intros _. right. right. now left.
Qed.

Lemma emb_mono k k' :
  (forall o, In (SIResched o) k -> In (SIResched o) k') ->
  forall o, In (RIResched o) (emb k) -> In (RIResched o) (emb k').
Proof. intros H o Hin. apply emb_in. apply H. now apply emb_in. Qed.

Lemma in_push {X} (x : X) pre r : In x r -> In x (pre ++ r).
Proof. intros H. apply in_or_app. now right. Qed.

Lemma JQs_step c :
  K2 c -> J (sc_st (sstep c)) (sc_obs (sstep c)) (emb (sc_k (sstep c))) /\ Qs (sc_obs (sstep c)) (sc_k (sstep c)).
Proof.
  intros (I & HJ0 & HQ0 & _). destruct c as [s m k l]. cbn [sc_st sc_obs sc_k] in *.
  destruct k as [|i k]; [unfold ReplaySched.sstep; cbn; split; assumption|].
  (* dropping the head instruction (it is not a re-scheduling / not an ensure) and pushing others *)
  assert (Hjdrop : forall pre, (forall o, i <> SIResched o) -> J s m (emb (pre ++ k))).
  { intros pre Hi. eapply J_k_mono; [|exact HJ0]. apply emb_mono. intros o H. apply in_push.
    apply (in_tail_ne _ i); [exact H|]. intros E. exact (Hi o (eq_sym E)). }
  assert (Hqdrop : forall pre, (forall top o, i <> SIEnsure top o) -> Qs m (pre ++ k)).
  { intros pre Hi. eapply Qs_mono; [|exact HQ0]. intros top o H. apply in_push.
    apply (in_tail_ne _ i); [exact H|]. intros E. exact (Hi top o (eq_sym E)). }
  unfold ReplaySched.sstep. cbn [sc_k sc_st sc_obs sc_rlog].
  destruct i as [top p|top o|top o t|o n|o|o|o|].
  - (* SIOp *)
    assert (HJ : forall pre, J s m (emb (pre ++ k))) by (intros pre; apply Hjdrop; discriminate).
    assert (HQ : forall pre, Qs m (pre ++ k)) by (intros pre; apply Hqdrop; discriminate).
    assert (Hsame : forall s' pre, r_sched s' = r_sched s -> r_fresh s' = r_fresh s ->
                    J s' m (emb (pre ++ k)) /\ Qs m (pre ++ k)).
    { intros s' pre E1 E2. split; [eapply J_same_sched; [exact E1|exact E2|apply HJ]|apply HQ]. }
    unfold sstep_op. destruct p as [o|o|v|e| | |d].
    + destruct (m o) as [os|] eqn:Hm; cbn [sc_st sc_obs sc_k]; [now apply (Hsame s [])|].
      destruct (r_disposed s); cbn [sc_st sc_obs sc_k].
      * split.
        -- apply (J_new_stopped s m _ o _ Hm); [reflexivity|reflexivity|].
           replace (map (SIOp false) (react o 0) ++ drain_if sync top (SIHandle o :: k))
             with ((map (SIOp false) (react o 0) ++ (if inl sync top then [SIDrain; SIHandle o] else [SIHandle o])) ++ k)
             by (unfold drain_if; destruct (inl sync top); rewrite <- app_assoc; reflexivity).
           apply HJ.
        -- apply Qs_upd_stopped; [reflexivity|].
           replace (map (SIOp false) (react o 0) ++ drain_if sync top (SIHandle o :: k))
             with ((map (SIOp false) (react o 0) ++ (if inl sync top then [SIDrain; SIHandle o] else [SIHandle o])) ++ k)
             by (unfold drain_if; destruct (inl sync top); rewrite <- app_assoc; reflexivity).
           apply HQ.
      * set (s2 := with_observers (r_observers (trim s) ++ [o]) (trim s)).
        set (so1 := fold_left (fun so it => so_on (Next (snd it)) so) (r_queue s2) fresh_so).
        set (so2 := match r_exception s2 with
                    | Some e => so_on (Err e) so1
                    | None => if r_stopped s2 then so_on Done so1 else so1 end).
        assert (Hf : so_faulted so2 = false /\ so_acquired so2 = false /\
                     ser_disposed so2 = false /\ ser_cur so2 = None).
        { destruct (fold_so_on_fields (r_queue s2) fresh_so) as (E1 & E2 & E3 & E4). fold so1 in E1, E2, E3, E4.
          cbn [fresh_so so_faulted so_acquired ser_disposed ser_cur] in E1, E2, E3, E4. unfold so2.
          destruct (r_exception s2) as [e|].
          - destruct (so_on_fields (Err e) so1) as (F1 & F2 & F3 & F4). repeat split; congruence.
          - destruct (r_stopped s2).
            + destruct (so_on_fields Done so1) as (F1 & F2 & F3 & F4). repeat split; congruence.
            + repeat split; assumption. }
        destruct Hf as (F1 & F2 & F3 & F4).
        assert (Hgen : forall hd pre,
                  J (fst (ensure_active o s2 so2)) (rupd m o (ROState false false true hd 0 (snd (ensure_active o s2 so2))))
                    (emb (pre ++ k)) /\
                  Qs (rupd m o (ROState false false true hd 0 (snd (ensure_active o s2 so2)))) (pre ++ k)).
        { intros hd pre. split.
          - apply J_ensure_active; [eapply J_same_sched; [| |apply (HJ pre)]; reflexivity|exact F1|
              rewrite F4; discriminate| |reflexivity].
            intros _. split; [exact F3|]. rewrite F2. discriminate.
          - apply Qs_upd_owned; [|apply HQ]. cbn [r_so]. now apply ensure_active_owned. }
        destruct (ensure_active o s2 so2) as [s3 so3]. cbn [fst snd] in Hgen.
        destruct (inl sync top); cbn [sc_st sc_obs sc_k].
        -- exact (Hgen false [SIDrain; SIHandle o]).
        -- exact (Hgen true []).
    + destruct (m o) as [os|] eqn:Hm; cbn [sc_st sc_obs sc_k]; [|now apply (Hsame s [])].
      destruct (r_handle os); cbn [sc_st sc_obs sc_k]; [|now apply (Hsame s [])].
      pose proof (J_rado_dispose s m _ o os (HJ []) Hm) as HJ2. pose proof (rado_dispose_stopped s os o) as Hst.
      destruct (rado_dispose s os o) as [s' os']. cbn [fst snd sc_st sc_obs sc_k] in *.
      split; [exact HJ2|]. apply Qs_upd_stopped; [exact Hst|apply (HQ [])].
    + destruct (r_disposed s); cbn [sc_st sc_obs sc_k]; [now apply (Hsame s [])|].
      destruct (r_stopped s); cbn [sc_st sc_obs sc_k]; [now apply (Hsame s [])|].
      set (s1 := trim (with_queue (r_queue s ++ [(r_clock s, v)]) s)).
      set (pre := map (SIEnsure top) (r_observers s)).
      assert (HJ1 : J s1 m (emb (pre ++ k))) by (eapply J_same_sched; [| |apply HJ]; reflexivity).
      assert (Hdom : forall o, In o (r_observers s) -> m o <> None) by exact (sinv_dom _ _ _ I).
      pose proof (J_so_on_pass (Next v) _ (r_observers s) s1 m HJ1) as HJ2.
      destruct (so_each_spec (fun _ s so => (s, so_on (Next v) so)) (fun so so' => so' = so_on (Next v) so)
                  (fun _ s _ => same_core_refl s) (fun _ _ _ => eq_refl)
                  (r_observers s) s1 m (sinv_nodup _ _ _ I) Hdom) as (_ & A2 & A3).
      destruct (so_each (fun _ s so => (s, so_on (Next v) so)) (r_observers s) s1 m) as [s2 m2].
      cbn [fst snd sc_st sc_obs sc_k] in *. split; [exact HJ2|].
      intros o os2 Hm2 Hs Ha. destruct (in_dec Nat.eq_dec o (r_observers s)) as [Hi|Hni].
      * right. exists top. apply in_or_app. left. unfold pre. now apply in_map.
      * rewrite (A2 o Hni) in Hm2. exact (HQ pre o os2 Hm2 Hs Ha).
    + destruct (r_disposed s); cbn [sc_st sc_obs sc_k]; [now apply (Hsame s [])|].
      destruct (r_stopped s); cbn [sc_st sc_obs sc_k]; [now apply (Hsame s [])|].
      apply Hsame; reflexivity.
    + destruct (r_disposed s); cbn [sc_st sc_obs sc_k]; [now apply (Hsame s [])|].
      destruct (r_stopped s); cbn [sc_st sc_obs sc_k]; [now apply (Hsame s [])|].
      apply Hsame; reflexivity.
    + cbn [sc_st sc_obs sc_k]. now apply (Hsame _ []).
    + destruct (d <? 0); cbn [sc_st sc_obs sc_k]; now apply (Hsame _ []).
  - (* SIEnsure *)
    assert (HJ : forall pre, J s m (emb (pre ++ k))) by (intros pre; apply Hjdrop; discriminate).
    destruct (m o) as [os|] eqn:Hm; cbn [sc_st sc_obs sc_k].
    2:{ split; [apply (HJ [])|]. intros o2 os2 Hm2 Hs Ha. destruct (HQ0 o2 os2 Hm2 Hs Ha) as [H|[t2 H]]; [now left|].
        right. exists t2. apply (in_tail_ne _ _ _ H). intros [= _ ->]. congruence. }
    destruct (proj2 (HJ (if inl sync top then [SIDrain] else [])) o os Hm) as (F & C & Lv).
    assert (Hk' : drain_if sync top k = (if inl sync top then [SIDrain] else []) ++ k)
      by (unfold drain_if; destruct (inl sync top); reflexivity).
    rewrite Hk'.
    pose proof (J_ensure_active s m _ o (r_so os) (set_so os (snd (ensure_active o s (r_so os))))
                  (HJ (if inl sync top then [SIDrain] else [])) F C Lv eq_refl) as HJ2.
    pose proof (ensure_active_owned o s (r_so os) F) as Hown.
    destruct (ensure_active o s (r_so os)) as [s' so']. cbn [fst snd sc_st sc_obs sc_k] in *.
    split; [exact HJ2|]. apply (Qs_upd_owned2 m (SIEnsure top o :: k)); [exact Hown|exact HQ0|].
    intros t2 o2 Hne H. apply in_push. apply (in_tail_ne _ _ _ H). intros [= _ E]. congruence.
  - (* SIOnEnsure *)
    assert (HJ : forall pre, J s m (emb (pre ++ k))) by (intros pre; apply Hjdrop; discriminate).
    assert (HQ : forall pre, Qs m (pre ++ k)) by (intros pre; apply Hqdrop; discriminate).
    destruct (m o) as [os|] eqn:Hm; cbn [sc_st sc_obs sc_k]; [|split; [apply (HJ [])|apply (HQ [])]].
    destruct (proj2 (HJ (if inl sync top then [SIDrain] else [])) o os Hm) as (F & C & Lv).
    destruct (so_on_fields t (r_so os)) as (E1 & E2 & E3 & E4).
    assert (Hk' : drain_if sync top k = (if inl sync top then [SIDrain] else []) ++ k)
      by (unfold drain_if; destruct (inl sync top); reflexivity).
    rewrite Hk'.
    assert (F' : so_faulted (so_on t (r_so os)) = false) by now rewrite E1.
    pose proof (J_ensure_active s m _ o (so_on t (r_so os)) (set_so os (snd (ensure_active o s (so_on t (r_so os)))))
                  (HJ (if inl sync top then [SIDrain] else [])) F') as HJ2.
    pose proof (ensure_active_owned o s (so_on t (r_so os)) F') as Hown.
    destruct (ensure_active o s (so_on t (r_so os))) as [s' so']. cbn [fst snd sc_st sc_obs sc_k] in *.
    split; [apply HJ2; [now rewrite E4|now rewrite E3, E2|reflexivity]|].
    apply Qs_upd_owned; [exact Hown|apply HQ].
  - (* SIDeliver *)
    assert (HJ : forall pre, J s m (emb (pre ++ k))) by (intros pre; apply Hjdrop; discriminate).
    assert (HQ : forall pre, Qs m (pre ++ k)) by (intros pre; apply Hqdrop; discriminate).
    destruct (m o) as [os|] eqn:Hm; cbn [sc_st sc_obs sc_k]; [|split; [apply (HJ [])|apply (HQ [])]].
    destruct (ra_stopped os) eqn:Hst; cbn [sc_st sc_obs sc_k]; [split; [apply (HJ [])|apply (HQ [])]|].
    assert (Hgen : forall stop pre, J s (rupd m o (rcalled stop os)) (emb (pre ++ k)) /\
                                    Qs (rupd m o (rcalled stop os)) (pre ++ k)).
    { intros stop pre. split.
      - apply (J_upd_ado s m _ o os); [exact Hm|reflexivity| |apply HJ].
        cbn. intros H. apply orb_false_iff in H. tauto.
      - apply (Qs_upd_same m _ o os); [exact Hm|reflexivity|reflexivity| |apply HQ].
        cbn. intros H. apply orb_false_iff in H. tauto. }
    destruct n as [v|e|]; cbn [sc_st sc_obs sc_k].
    + apply Hgen.
    + change (SIAdoFin o :: k) with ([SIAdoFin o] ++ k). rewrite app_assoc. apply Hgen.
    + change (SIAdoFin o :: k) with ([SIAdoFin o] ++ k). rewrite app_assoc. apply Hgen.
  - (* SIAdoFin *)
    assert (HJ : forall pre, J s m (emb (pre ++ k))) by (intros pre; apply Hjdrop; discriminate).
    assert (HQ : forall pre, Qs m (pre ++ k)) by (intros pre; apply Hqdrop; discriminate).
    destruct (m o) as [os|] eqn:Hm; cbn [sc_st sc_obs sc_k]; [|split; [apply (HJ [])|apply (HQ [])]].
    pose proof (J_rado_dispose s m _ o os (HJ []) Hm) as HJ2. pose proof (rado_dispose_stopped s os o) as Hst.
    destruct (rado_dispose s os o) as [s' os']. cbn [fst snd sc_st sc_obs sc_k] in *.
    split; [exact HJ2|]. apply Qs_upd_stopped; [exact Hst|apply (HQ [])].
  - (* SIResched *)
    cbn [sc_st sc_obs sc_k]. split; [apply J_resched; exact HJ0|]. apply (Hqdrop []). discriminate.
  - (* SIHandle *)
    assert (HJ : forall pre, J s m (emb (pre ++ k))) by (intros pre; apply Hjdrop; discriminate).
    assert (HQ : forall pre, Qs m (pre ++ k)) by (intros pre; apply Hqdrop; discriminate).
    destruct (m o) as [os|] eqn:Hm; cbn [sc_st sc_obs sc_k]; [|split; [apply (HJ [])|apply (HQ [])]].
    split.
    + apply (J_upd_ado s m _ o os); [exact Hm|reflexivity|cbn; tauto|apply (HJ [])].
    + apply (Qs_upd_same m _ o os); [exact Hm|reflexivity|reflexivity|cbn; tauto|apply (HQ [])].
  - (* SIDrain *)
    assert (HQ : forall pre, Qs m (pre ++ k)) by (intros pre; apply Hqdrop; discriminate).
    destruct (r_sched s) as [|[[it o] cancelled] rest] eqn:Es; cbn [sc_st sc_obs sc_k].
    { split; [apply (Hjdrop []); discriminate|apply (HQ [])]. }
    destruct cancelled; cbn [sc_st sc_obs sc_k].
    { split; [|apply (HQ [SIDrain])]. apply (J_pop s m _ it o true rest _ Es HJ0); [auto|discriminate]. }
    destruct (m o) as [os|] eqn:Hm; cbn [sc_st sc_obs sc_k].
    2:{ split; [|apply (HQ [SIDrain])]. apply (J_pop s m _ it o false rest _ Es HJ0); [auto|].
        intros _ os Hm'. congruence. }
    destruct (so_queue (r_so os)) as [|n q] eqn:Hq; cbn [sc_st sc_obs sc_k].
    + set (so' := SoState (so_stopped (r_so os)) [] false (so_faulted (r_so os))
                          (ser_disposed (r_so os)) (ser_cur (r_so os))).
      split.
      * assert (HJm : J s (rupd m o (set_so os so')) (emb (SIDrain :: k))).
        { destruct HJ0 as [H1 H3]. split; [exact H1|]. intros o2 os2. unfold rupd.
          destruct (Nat.eqb o2 o) eqn:E; [|apply H3].
          apply Nat.eqb_eq in E. subst o2. intros [= <-]. destruct (H3 o os Hm) as (F & C & Lv).
          unfold so_J. cbn. split; [exact F|]. split; [exact C|]. intros Hs.
          destruct (Lv Hs) as [D _]. split; [exact D|discriminate]. }
        apply (J_pop s _ _ it o false rest _ Es HJm); [auto|].
        intros _ os2. rewrite rupd_same. intros [= <-] _ Ha. discriminate.
      * apply Qs_upd_owned; [reflexivity|apply (HQ [SIDrain])].
    + set (so' := SoState (so_stopped (r_so os)) q (so_acquired (r_so os)) (so_faulted (r_so os))
                          (ser_disposed (r_so os)) (ser_cur (r_so os))).
      split.
      * assert (HJm : J s (rupd m o (set_so os so')) (emb (SIDrain :: k))).
        { apply (J_upd_so s m _ o os so' Hm); try reflexivity. exact HJ0. }
        apply (J_pop s _ _ it o false rest _ Es HJm).
        -- intros o2 H. cbn. right. exact H.
        -- intros _ _ _ _ _. cbn. now left.
      * intros o2 os2. unfold rupd. destruct (Nat.eqb o2 o) eqn:E.
        -- apply Nat.eqb_eq in E. subst o2. intros [= <-] Hs Ha. cbn in Ha |- *.
           destruct (HQ0 o os Hm Hs Ha) as [H|[t2 H]]; [rewrite H in Hq; discriminate|].
           right. exists t2. right. right. right. apply (in_tail_ne _ _ _ H). discriminate.
        -- intros Hm2 Hs Ha. destruct (HQ0 o2 os2 Hm2 Hs Ha) as [H|[t2 H]]; [now left|].
           right. exists t2. right. right. right. apply (in_tail_ne _ _ _ H). discriminate.
Qed.

Theorem K2_step c : K2 c -> K2 (sstep c).
Proof.
  intros HK. pose proof HK as (I & _ & _ & HM).
  split; [now apply sstep_inv|]. destruct (JQs_step c HK) as [HJ HQ].
  split; [exact HJ|]. split; [exact HQ|now apply Ms_step].
Qed.

End SchedB.

Lemma K2_init {A} (sync : bool) (react : nat -> nat -> list (@rop A)) (bs w : option Z) (top : list (@rop A)) :
  K2 sync (bufsize_of bs) w (sinit_cfg sync bs w top).
Proof.
  split; [apply (SInv_init sync react)|]. split; [|split].
  - split; [split; cbn; [constructor|intros i []]|]. intros o os H. discriminate.
  - intros o os H. discriminate.
  - split; [|cbn; intros H; congruence]. cbn [sinit_cfg sc_k]. destruct sync.
    + induction top as [|p t IH]; cbn; [exact I|]. split; [discriminate|exact IH].
    + induction top as [|p t IH]; cbn; [exact I|]. split; [intros _; now left|]. split; [discriminate|exact IH].
Qed.

(* C22, both scheduler modes, arbitrary call trees: nothing is lost *)
Theorem sched_nothing_lost {A} (sync : bool) (react : nat -> nat -> list (@rop A)) (bs w : option Z)
        (top : list (@rop A)) (fuel o : nat) os :
  let c := srun sync react fuel (sinit_cfg sync bs w top) in
  sc_obs c o = Some os -> ra_stopped os = false ->
  rview o (slog_of c) ++ sinflight o (sc_k c) ++ so_queue (r_so os) ++ spend o (sc_k c)
  = xview (bufsize_of bs) w o false rg_init (ops_of (slog_of c)).
Proof.
  cbv zeta. intros Hm Hs.
  assert (I : SInv (bufsize_of bs) w (srun sync react fuel (sinit_cfg sync bs w top))).
  { apply (srun_ind sync react (SInv (bufsize_of bs) w)); [apply sstep_inv|apply (SInv_init sync react)]. }
  destruct (sinv_some _ _ _ I o os Hm) as [_ [X' (EX & Hok & _)]]. unfold obs_ok in Hok. rewrite Hs in Hok.
  destruct Hok as [H1 _]. unfold slog_of. fold (lops (sc_rlog (srun sync react fuel (sinit_cfg sync bs w top)))).
  fold (lview o (sc_rlog (srun sync react fuel (sinit_cfg sync bs w top)))).
  change (xview (bufsize_of bs) w o false rg_init (lops ?l)) with (lx (bufsize_of bs) w l o).
  rewrite EX, <- H1, <- !app_assoc. reflexivity.
Qed.

(* C22, both scheduler modes, arbitrary call trees: when the run has finished an
   observer that has not unsubscribed has received exactly its entitlement *)
Theorem sched_complete {A} (sync : bool) (react : nat -> nat -> list (@rop A)) (bs w : option Z)
        (top : list (@rop A)) (fuel o : nat) os :
  let c := srun sync react fuel (sinit_cfg sync bs w top) in
  sc_k c = [] -> sc_obs c o = Some os ->
  (ra_stopped os = false \/ has_term (rview o (slog_of c)) = true) ->
  rview o (slog_of c) = xview (bufsize_of bs) w o false rg_init (ops_of (slog_of c)).
Proof.
  cbv zeta. intros Hk Hm Hcase.
  set (c := srun sync react fuel (sinit_cfg sync bs w top)) in *.
  assert (HK : K2 sync (bufsize_of bs) w c).
  { apply (srun_ind sync react (K2 sync (bufsize_of bs) w)); [intros c0; apply (K2_step sync react)|apply (K2_init sync react)]. }
  destruct HK as (I & HJ & HQ & [_ HM]).
  destruct (ra_stopped os) eqn:Hs.
  - destruct Hcase as [|Ht]; [discriminate|].
    apply prefix_with_terminal_is_all; [|exact Ht].
    exact (SInv_prefix react (bufsize_of bs) w c o I).
  - destruct (sinv_some _ _ _ I o os Hm) as [_ [X' (EX & Hok & _)]]. unfold obs_ok in Hok. rewrite Hs in Hok.
    destruct Hok as [Heq _]. rewrite Hk in Heq, EX. cbn [sinflight spend app] in Heq, EX. rewrite app_nil_r in EX.
    assert (Hq : so_queue (r_so os) = []).
    { destruct (so_acquired (r_so os)) eqn:Ha.
      - exfalso. destruct (proj2 HJ o os Hm) as (_ & _ & Lv). destruct (Lv Hs) as [_ R].
        destruct (R Ha) as [[i Hi]|Hin].
        + assert (Hne : r_sched (sc_st c) <> []) by (intros E; rewrite E in Hi; destruct Hi).
          specialize (HM Hne). rewrite Hk in HM. destruct HM.
        + rewrite Hk in Hin. destruct Hin.
      - destruct (HQ o os Hm Hs Ha) as [H|[t H]]; [exact H|]. rewrite Hk in H. destruct H. }
    rewrite Hq, app_nil_r in Heq. unfold slog_of. fold (lview o (sc_rlog c)). fold (lops (sc_rlog c)).
    change (xview (bufsize_of bs) w o false rg_init (lops ?l)) with (lx (bufsize_of bs) w l o).
    now rewrite EX.
Qed.

(* ========================================================================== *)
(* Part C: grammar, and "a stopped wrapper never delivers again", both modes   *)
(* ========================================================================== *)
Section SchedC.
Context {A : Type} (sync : bool) (react : nat -> nat -> list (@rop A)).
Notation sstep := (sstep sync react).
Notation srun := (srun sync react).

Definition sstep_shape (c c' : @scfg A) : Prop :=
  rmono (sc_obs c) (sc_obs c') /\
  ((exists evs, sc_rlog c' = evs ++ sc_rlog c /\ rnoGot evs) \/
   (exists pre o n os', sc_rlog c' = REGot o n :: pre ++ sc_rlog c /\ rnoGot pre /\
      (forall os, sc_obs c o = Some os -> ra_stopped os = false) /\
      sc_obs c' o = Some os' /\ (is_terminal n = true -> ra_stopped os' = true))).

Local Ltac quiet := left;
  first [ exists (@nil (@revent A)); split; [reflexivity|apply rnoGot_nil]
        | eexists [_]; split; [reflexivity|apply rnoGot_op]
        | eexists [_; _]; split; [reflexivity|apply rnoGot_raised] ].

Lemma sstep_op_shape top p s m k l : sstep_shape (SCfg s m (SIOp top p :: k) l) (sstep_op sync react top p s m k l).
Proof.
  unfold sstep_shape, sstep_op. destruct p as [o|o|v|e| | |d]; cbn [sc_obs sc_rlog].
  - destruct (m o) as [os|] eqn:Hm; cbn [sc_obs sc_rlog].
    + split; [apply rmono_refl|quiet].
    + destruct (r_disposed s); cbn [sc_obs sc_rlog].
      * split; [now apply rmono_upd_new|]. right.
        exists [REOp (RSub o)], o, (Err disposed_exn), (rcalled true fresh_rostate).
        split; [reflexivity|]. split; [apply rnoGot_op|]. split; [intros os H; congruence|].
        split; [apply rupd_same|reflexivity].
      * match goal with |- context [ensure_active ?a ?b ?c] => destruct (ensure_active a b c) as [s3 so3] end.
        destruct (inl sync top); cbn [sc_obs sc_rlog]; (split; [now apply rmono_upd_new|quiet]).
  - destruct (m o) as [os|] eqn:Hm; cbn [sc_obs sc_rlog].
    + destruct (r_handle os).
      * destruct (rado_dispose s os o) as [s' os'] eqn:E. cbn [sc_obs sc_rlog].
        split; [|quiet]. eapply rmono_upd; [exact Hm|]. intros _.
        change os' with (snd (s', os')). rewrite <- E. apply rado_dispose_stopped.
      * split; [apply rmono_refl|quiet].
    + split; [apply rmono_refl|quiet].
  - destruct (r_disposed s); cbn [sc_obs sc_rlog]; [split; [apply rmono_refl|quiet]|].
    destruct (r_stopped s); cbn [sc_obs sc_rlog]; [split; [apply rmono_refl|quiet]|].
    match goal with |- context [so_each ?f ?sn ?st m] =>
      pose proof (so_each_mono f sn st m) as M1; destruct (so_each f sn st m) as [s2 m2] end.
    cbn [sc_obs sc_rlog snd] in *. split; [assumption|quiet].
  - destruct (r_disposed s); cbn [sc_obs sc_rlog]; [split; [apply rmono_refl|quiet]|].
    destruct (r_stopped s); cbn [sc_obs sc_rlog]; split; try apply rmono_refl; quiet.
  - destruct (r_disposed s); cbn [sc_obs sc_rlog]; [split; [apply rmono_refl|quiet]|].
    destruct (r_stopped s); cbn [sc_obs sc_rlog]; split; try apply rmono_refl; quiet.
  - split; [apply rmono_refl|quiet].
  - destruct (d <? 0); cbn [sc_obs sc_rlog]; split; try apply rmono_refl; quiet.
Qed.

Lemma sstep_shape_holds c : sstep_shape c (sstep c).
Proof.
  destruct c as [s m k l]. unfold ReplaySched.sstep. cbn [sc_k sc_st sc_obs sc_rlog].
  destruct k as [|i k].
  - split; [apply rmono_refl|quiet].
  - destruct i as [top p|top o|top o t|o n|o|o|o|].
    + apply sstep_op_shape.
    + unfold sstep_shape. cbn [sc_obs sc_rlog].
      destruct (m o) as [os|] eqn:Hm; cbn [sc_obs sc_rlog]; [|split; [apply rmono_refl|quiet]].
      destruct (ensure_active o s (r_so os)) as [s' so']. cbn [sc_obs sc_rlog].
      split; [|quiet]. eapply rmono_upd; [exact Hm|]. intros H. exact H.
    + unfold sstep_shape. cbn [sc_obs sc_rlog].
      destruct (m o) as [os|] eqn:Hm; cbn [sc_obs sc_rlog]; [|split; [apply rmono_refl|quiet]].
      destruct (ensure_active o s (so_on t (r_so os))) as [s' so']. cbn [sc_obs sc_rlog].
      split; [|quiet]. eapply rmono_upd; [exact Hm|]. intros H. exact H.
    + unfold sstep_shape. cbn [sc_obs sc_rlog].
      destruct (m o) as [os|] eqn:Hm; cbn [sc_obs sc_rlog]; [|split; [apply rmono_refl|quiet]].
      destruct (ra_stopped os) eqn:Hst; cbn [sc_obs sc_rlog]; [split; [apply rmono_refl|quiet]|].
      destruct n as [v|e|]; cbn [sc_obs sc_rlog].
      * split; [eapply rmono_upd; [exact Hm|]; intros; congruence|].
        right. exists [], o, (Next v), (rcalled false os).
        split; [reflexivity|]. split; [apply rnoGot_nil|].
        split; [intros os2 H2; congruence|]. split; [apply rupd_same|discriminate].
      * split; [eapply rmono_upd; [exact Hm|]; intros; congruence|].
        right. exists [], o, (Err e), (rcalled true os).
        split; [reflexivity|]. split; [apply rnoGot_nil|].
        split; [intros os2 H2; congruence|]. split; [apply rupd_same|].
        intros _. cbn. apply orb_true_r.
      * split; [eapply rmono_upd; [exact Hm|]; intros; congruence|].
        right. exists [], o, Done, (rcalled true os).
        split; [reflexivity|]. split; [apply rnoGot_nil|].
        split; [intros os2 H2; congruence|]. split; [apply rupd_same|].
        intros _. cbn. apply orb_true_r.
    + unfold sstep_shape. cbn [sc_obs sc_rlog].
      destruct (m o) as [os|] eqn:Hm; cbn [sc_obs sc_rlog]; [|split; [apply rmono_refl|quiet]].
      destruct (rado_dispose s os o) as [s' os'] eqn:E. cbn [sc_obs sc_rlog].
      split; [|quiet]. eapply rmono_upd; [exact Hm|]. intros _.
      change os' with (snd (s', os')). rewrite <- E. apply rado_dispose_stopped.
    + unfold sstep_shape. cbn [sc_obs sc_rlog]. split; [apply rmono_refl|quiet].
    + unfold sstep_shape. cbn [sc_obs sc_rlog].
      destruct (m o) as [os|] eqn:Hm; cbn [sc_obs sc_rlog]; [|split; [apply rmono_refl|quiet]].
      split; [|quiet]. eapply rmono_upd; [exact Hm|]. intros H. exact H.
    + unfold sstep_shape. cbn [sc_obs sc_rlog].
      destruct (r_sched s) as [|[[i o] cancelled] rest]; cbn [sc_obs sc_rlog]; [split; [apply rmono_refl|quiet]|].
      destruct cancelled; cbn [sc_obs sc_rlog]; [split; [apply rmono_refl|quiet]|].
      destruct (m o) as [os|] eqn:Hm; cbn [sc_obs sc_rlog]; [|split; [apply rmono_refl|quiet]].
      destruct (so_queue (r_so os)) as [|n q]; cbn [sc_obs sc_rlog].
      * split; [|quiet]. eapply rmono_upd; [exact Hm|]. intros H. exact H.
      * split; [|quiet]. eapply rmono_upd; [exact Hm|]. intros H. exact H.
Qed.

Lemma sstopped_final_step c o os :
  sc_obs c o = Some os -> ra_stopped os = true ->
  rview o (slog_of (sstep c)) = rview o (slog_of c) /\
  exists os', sc_obs (sstep c) o = Some os' /\ ra_stopped os' = true.
Proof.
  intros Ho Hs.
  destruct (sstep_shape_holds c) as [Hmono [[evs [Hl Hng]]|[pre [o2 [n [os' [Hl [Hng [Hlive [Hos' Hterm]]]]]]]]]].
  - split.
    + unfold slog_of. rewrite Hl, rev_app_distr, rview_app.
      rewrite (rview_noGot o (rev evs)) by now apply rnoGot_rev. now rewrite app_nil_r.
    + destruct (Hmono o os Ho) as [os2 [H2 Hs2]]. eauto.
  - split.
    + unfold slog_of. rewrite Hl. cbn [rev]. rewrite rev_app_distr, !rview_app.
      rewrite (rview_noGot o (rev pre)) by now apply rnoGot_rev. cbn [rview].
      destruct (Nat.eqb o2 o) eqn:E.
      * apply Nat.eqb_eq in E. subst o2. rewrite (Hlive os Ho) in Hs. discriminate.
      * now rewrite !app_nil_r.
    + destruct (Hmono o os Ho) as [os2 [H2 Hs2]]. eauto.
Qed.

Lemma srun_S n c : srun (S n) c = srun n (sstep c).
Proof.
  cbn. destruct (sc_k c) eqn:E; [|reflexivity].
  assert (Hs : sstep c = c) by (unfold ReplaySched.sstep; now rewrite E). rewrite Hs.
  destruct n; cbn; [reflexivity|now rewrite E].
Qed.

(* a stopped wrapper never delivers again, whatever is queued or scheduled *)
Theorem sstopped_final n : forall c o os,
  sc_obs c o = Some os -> ra_stopped os = true ->
  rview o (slog_of (srun n c)) = rview o (slog_of c).
Proof.
  induction n as [|n IH]; intros c o os Ho Hs; [reflexivity|].
  rewrite srun_S. destruct (sstopped_final_step c o os Ho Hs) as [Hv [os' [Ho' Hs']]].
  rewrite (IH (sstep c) o os' Ho' Hs'). exact Hv.
Qed.

(* unsubscribing takes effect at once, also from inside a callback *)
Theorem sunsubscribed_gets_nothing_more top s m k l o os n :
  m o = Some os -> r_handle os = true ->
  rview o (slog_of (srun n (SCfg s m (SIOp top (RUnsub o) :: k) l))) = rview o (rev l).
Proof.
  intros Hm Hh. destruct n as [|n]; [reflexivity|]. rewrite srun_S.
  assert (Hst : exists os', sc_obs (sstep (SCfg s m (SIOp top (RUnsub o) :: k) l)) o = Some os' /\ ra_stopped os' = true).
  { unfold ReplaySched.sstep. cbn [sc_k sc_st sc_obs sc_rlog sstep_op]. rewrite Hm, Hh.
    destruct (rado_dispose s os o) as [s' os'] eqn:E. cbn [sc_obs]. exists os'. split; [apply rupd_same|].
    change os' with (snd (s', os')). rewrite <- E. apply rado_dispose_stopped. }
  destruct Hst as [os' [Ho' Hs']]. rewrite (sstopped_final n _ o os' Ho' Hs').
  unfold ReplaySched.sstep. cbn [sc_k sc_st sc_obs sc_rlog sstep_op]. rewrite Hm, Hh.
  destruct (rado_dispose s os o) as [s' os2]. unfold slog_of. cbn [sc_rlog rev].
  rewrite rview_app. cbn. now rewrite app_nil_r.
Qed.
End SchedC.

(* grammar: a prefix of the entitlement is well-formed *)
Lemma wellformed_no_term {A} (l : list (ev A)) : has_term l = false -> wellformed l = true.
Proof.
  induction l as [|x l IH]; [reflexivity|]. unfold has_term. cbn [existsb]. intros H.
  apply orb_false_iff in H. destruct H as [Hx Hl]. destruct x; [exact (IH Hl)|discriminate|discriminate].
Qed.

Lemma wellformed_prefix {A} (p r : list (ev A)) : wellformed (p ++ r) = true -> wellformed p = true.
Proof.
  induction p as [|x p IH]; intros H; [reflexivity|]. destruct x as [a|e|]; cbn [app wellformed] in *.
  - now apply IH.
  - destruct p; [reflexivity|discriminate].
  - destruct p; [reflexivity|discriminate].
Qed.

Theorem sched_wellformed {A} (sync : bool) (react : nat -> nat -> list (@rop A)) (bs w : option Z)
        (top : list (@rop A)) (fuel o : nat) :
  wellformed (rview o (slog_of (srun sync react fuel (sinit_cfg sync bs w top)))) = true.
Proof.
  destruct (sched_prefix sync react bs w top fuel o) as [r Hr].
  destruct (xview_shape (bufsize_of bs) w o
              (ops_of (slog_of (srun sync react fuel (sinit_cfg sync bs w top)))) false rg_init)
    as (l & t & E & Hn & Ht).
  apply (wellformed_prefix _ r). rewrite <- Hr, E.
  destruct Ht as [->|[x ->]]; [rewrite app_nil_r; now apply wellformed_no_term|].
  rewrite wellformed_snoc, Hn, (wellformed_no_term l Hn). reflexivity.
Qed.
