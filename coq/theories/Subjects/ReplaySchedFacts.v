(* C22 for BOTH scheduler modes of Subjects/ReplaySched.v (virtual-time
   scheduler drained by the driver / the default CurrentThreadScheduler
   trampoline that runs a drain inline at top level and queues it when called
   from inside a callback), on ARBITRARY call trees:
   Part A  what an observer has received is a prefix of its entitlement [xview],
           and nothing is lost (received ++ in flight ++ queued ++ terminal about
           to be queued = entitlement while its wrapper is not stopped);
   Part B  no lost wake-up: at the end of a finished run every observer that has
           not unsubscribed has received exactly [xview]. *)
From Coq Require Import Sorting.Sorted.
From RxVerif Require Import Base.Prelude Ops.Machine Subjects.Subject Subjects.Family Subjects.Replay
  Subjects.ReplaySpec Subjects.ReplaySched Subjects.SubjectFacts Subjects.FamilyFacts Subjects.ReplayFacts
  Subjects.ReplayTreeFacts Subjects.ReplayLiveFacts.

Section SchedA.
Context {A : Type} (sync : bool) (react : nat -> nat -> list (@rop A)) (b : Z) (w : option Z).

Notation sstep := (sstep sync react).
Notation lx := (lx b w).
Notation st_agree := (st_agree b w).

(* ---- pending deliveries / pending terminals in the continuation ---- *)
Fixpoint sinflight (o : nat) (k : list (@sinstr A)) : list (ev A) :=
  match k with
  | [] => []
  | SIDeliver o' n :: r => if Nat.eqb o' o then n :: sinflight o r else sinflight o r
  | _ :: r => sinflight o r
  end.

Fixpoint spend (o : nat) (k : list (@sinstr A)) : list (ev A) :=
  match k with
  | [] => []
  | SIOnEnsure _ o' t :: r => if Nat.eqb o' o then t :: spend o r else spend o r
  | _ :: r => spend o r
  end.

Definition snodeliver (k : list (@sinstr A)) : Prop := forall o, sinflight o k = [].

(* instructions that execute while no drain loop is running *)
Definition is_top (i : @sinstr A) : bool :=
  match i with
  | SIDrain => true
  | SIOp top _ | SIEnsure top _ | SIOnEnsure top _ _ => top
  | _ => false
  end.

(* nothing is being delivered behind an instruction of the top level *)
Fixpoint sclean (k : list (@sinstr A)) : Prop :=
  match k with
  | [] => True
  | i :: r => (is_top i = true -> snodeliver r) /\ sclean r
  end.

Lemma sinflight_app o (k1 k2 : list (@sinstr A)) : sinflight o (k1 ++ k2) = sinflight o k1 ++ sinflight o k2.
Proof.
  induction k1 as [|i r IH]; [reflexivity|]. destruct i; cbn [app sinflight]; try exact IH.
  destruct (Nat.eqb o0 o); [cbn; now rewrite IH|exact IH].
Qed.

Lemma spend_app o (k1 k2 : list (@sinstr A)) : spend o (k1 ++ k2) = spend o k1 ++ spend o k2.
Proof.
  induction k1 as [|i r IH]; [reflexivity|]. destruct i; cbn [app spend]; try exact IH.
  destruct (Nat.eqb o0 o); [cbn; now rewrite IH|exact IH].
Qed.

Lemma sinflight_ops o top (l : list (@rop A)) : sinflight o (map (SIOp top) l) = [].
Proof. induction l; [reflexivity|exact IHl]. Qed.
Lemma spend_ops o top (l : list (@rop A)) : spend o (map (SIOp top) l) = [].
Proof. induction l; [reflexivity|exact IHl]. Qed.
Lemma sinflight_ensures o top (l : list nat) : sinflight o (map (SIEnsure top) l) = [].
Proof. induction l; [reflexivity|exact IHl]. Qed.
Lemma spend_ensures o top (l : list nat) : spend o (map (SIEnsure top) l) = [].
Proof. induction l; [reflexivity|exact IHl]. Qed.
Lemma sinflight_onensures o top t (l : list nat) : sinflight o (map (fun x => SIOnEnsure top x t) l) = [].
Proof. induction l; [reflexivity|exact IHl]. Qed.

Lemma spend_onensures o top t : forall (l : list nat), NoDup l ->
  spend o (map (fun x => SIOnEnsure top x t) l) = if mem o l then [t] else [].
Proof.
  induction l as [|x l IH]; intros Hnd; [reflexivity|]. inversion Hnd as [|? ? Hx Hl]; subst.
  cbn [map spend]. unfold mem. cbn [existsb]. rewrite (Nat.eqb_sym o x). destruct (Nat.eqb x o) eqn:E.
  - apply Nat.eqb_eq in E. subst x. rewrite (IH Hl). cbn [orb].
    replace (mem o l) with false; [reflexivity|]. symmetry. now apply mem_false.
  - cbn [orb]. apply IH. exact Hl.
Qed.

Lemma snodeliver_clean k : snodeliver k -> sclean k.
Proof.
  induction k as [|i r IH]; intros H; [exact I|].
  assert (Hr : snodeliver r).
  { intros o. specialize (H o). destruct i; cbn [sinflight] in H; try exact H.
    destruct (Nat.eqb o0 o); [discriminate|exact H]. }
  split; [intros _; exact Hr|apply IH; exact Hr].
Qed.

Lemma sclean_tail i k : sclean (i :: k) -> sclean k.
Proof. intros [_ H]. exact H. Qed.

Lemma sclean_top i k : sclean (i :: k) -> is_top i = true -> snodeliver k.
Proof. intros [H _]. exact H. Qed.

(* pushing instructions that are not deliveries in front *)
Lemma sclean_push (pre k : list (@sinstr A)) :
  (forall o, sinflight o pre = []) -> sclean k ->
  ((exists i, In i pre /\ is_top i = true) -> snodeliver k) -> sclean (pre ++ k).
Proof.
  induction pre as [|i r IH]; intros Hn Hk Htop; [exact Hk|].
  assert (Hr : forall o, sinflight o r = []).
  { intros o. specialize (Hn o). destruct i; cbn [sinflight] in Hn; try exact Hn.
    destruct (Nat.eqb o0 o); [discriminate|exact Hn]. }
  cbn [app]. split.
  - intros Hi o. rewrite sinflight_app, Hr. apply Htop. exists i. split; [now left|exact Hi].
  - apply IH; [exact Hr|exact Hk|]. intros [j [Hj Hjt]]. apply Htop. exists j. split; [now right|exact Hjt].
Qed.

(* ---- the invariant ---- *)
Definition pend_ok (os : @rostate A) (pd : list (ev A)) : Prop :=
  (length pd <= 1)%nat /\ (pd <> [] -> ra_stopped os = false -> so_stopped (r_so os) = false).

Record SInv (c : @scfg A) : Prop := {
  sinv_st : st_agree (sc_st c) (lg (sc_rlog c));
  sinv_nodup : NoDup (r_observers (sc_st c));
  sinv_dom : forall o, In o (r_observers (sc_st c)) -> sc_obs c o <> None;
  sinv_none : forall o, sc_obs c o = None ->
              subbed o (lops (sc_rlog c)) = false /\ lview o (sc_rlog c) = [] /\
              sinflight o (sc_k c) = [] /\ spend o (sc_k c) = [];
  sinv_some : forall o os, sc_obs c o = Some os ->
              subbed o (lops (sc_rlog c)) = true /\
              exists X', lx (sc_rlog c) o = X' ++ spend o (sc_k c) /\
                         obs_ok (rg_live (lg (sc_rlog c))) (r_observers (sc_st c)) (lview o (sc_rlog c))
                                (sinflight o (sc_k c)) os o X' /\
                         pend_ok os (spend o (sc_k c));
  sinv_clean : sclean (sc_k c);
  sinv_nopend : rg_live (lg (sc_rlog c)) = true -> forall o, spend o (sc_k c) = [] }.

Lemma SInv_prefix c o : SInv c -> prefix (lview o (sc_rlog c)) (lx (sc_rlog c) o).
Proof.
  intros I. destruct (sc_obs c o) as [os|] eqn:E.
  - destruct (sinv_some c I o os E) as [_ [X' [-> [Hok _]]]]. apply prefix_app_r. eapply obs_ok_prefix. exact Hok.
  - destruct (sinv_none c I o E) as (_ & -> & _). apply prefix_nil.
Qed.
End SchedA.
