(* C24: disposing the handle returned by connect() releases the source -- on every
   reachable configuration of every call tree (arbitrary [react]), every subject
   engine, every mode.  Uses the connection invariant [CI] of ConnectableFacts. *)
From RxVerif Require Import Base.Prelude Ops.Machine Subjects.Subject Subjects.Behavior Subjects.Async
  Subjects.Family Subjects.Replay Subjects.Connectable Subjects.ConnectableFacts.
Require Import Lia.
Local Open Scope nat_scope.

Section Disc.
Context {A E_st E_in E_op : Type}.
Context (e_exec : E_in -> E_st -> E_st * list E_in * list (@sev A E_op)).
Context (e_call : @sop A -> list E_in).
Context (md : mode) (reach : bool) (cold : list (ev A)) (react : nat -> nat -> list (@cop A)).
Context (e_drain : list E_in).

Notation kcfg := (@kcfg A E_st E_in E_op).
Notation stepk := (kstep e_exec e_call md reach cold react).
Notation runk := (krun e_exec e_call md reach cold react).

(* in ANY configuration satisfying the invariant: disconnected => the source's log is closed *)
Lemma CI_disconnected (c : kcfg) :
  CIc c -> has_sub (k_bk c) = false -> src_state (src_log (klog_of c)) = Some None.
Proof.
  intros H Hh. pose proof (ci_log _ _ _ _ H) as Hl. unfold slog in Hl. unfold klog_of. rewrite Hl.
  assert (E : last_live (k_bk c) = false).
  { unfold last_live. destruct (blen (k_bk c)) as [|n] eqn:En; [reflexivity|].
    destruct (s_live (get_conn (k_bk c) n)) eqn:G; [|reflexivity].
    rewrite (ci_comp _ _ _ _ H n) in G; [discriminate|lia|apply (ci_off _ _ _ _ H Hh); lia]. }
  now rewrite E.
Qed.

(* what CompositeDisposable.dispose of a not yet disposed connection logs, under the invariant *)
Lemma comp_dispose_events b kc pd (l : list (@cevent A E_op)) cid :
  CI b kc pd l -> cid < blen b -> ~ In cid pd -> comp_disposed (get_conn b cid) = false ->
  has_sub (fst (@comp_dispose A E_op cid b)) = false /\
  snd (@comp_dispose A E_op cid b) = if s_live (get_conn b cid) then [CESUnsub cid] else [].
Proof.
  intros H Hlt Hn Ec. unfold comp_dispose. rewrite Ec.
  unfold sado_dispose. cbn [s_sad_disposed s_sad_set s_live comp_disposed s_stopped].
  destruct (s_sad_disposed (get_conn b cid)) eqn:Ed.
  - rewrite (ci_dead _ _ _ _ H cid Hlt Hn Ed). cbn. split; reflexivity.
  - pose proof (ci_held _ _ _ _ H cid Hlt Hn Ed) as Hset. rewrite Hset.
    destruct (ci_set _ _ _ _ H cid Hlt Hset) as [_ Hlive].
    unfold src_dispose. cbn [s_live]. rewrite Hlive. cbn. split; reflexivity.
Qed.

Theorem disconnect_releases st0 top fuel j k cid :
  let c := runk fuel (kinit e_drain md st0 top) in
  k_k c = KOp (CDisc j) :: k ->
  nth_error (handles (k_bk c)) j = Some (Some cid) ->
  comp_disposed (get_conn (k_bk c) cid) = false ->
  has_sub (k_bk (stepk c)) = false /\
  src_state (src_log (klog_of (stepk c))) = Some None /\
  klog_of (stepk c) =
    klog_of c ++ CEOp (CDisc j) :: (if s_live (get_conn (k_bk c) cid) then [CESUnsub cid] else []).
Proof.
  intros c Hk Hn Ec.
  pose proof (reachable_CI e_exec e_call md reach cold react e_drain st0 top fuel) as H. fold c in H.
  pose proof (CI_step e_exec e_call md reach cold react c H) as H'.
  assert (Hr : cid < blen (k_bk c) /\ ~ In cid (pend (k_k c))).
  { apply (ci_refs _ _ _ _ H). left. eapply nth_error_In. exact Hn. }
  destruct Hr as [Hlt Hnp].
  assert (HCI : CI (k_bk c) (kcids (k_k c)) (pend (k_k c)) (CEOp (CDisc j) :: k_log c)).
  { eapply CI_log; [exact H|]. rewrite slog_cons. cbn. now rewrite app_nil_r. }
  destruct (comp_dispose_events _ _ _ _ cid HCI Hlt Hnp Ec) as [Hh Hev].
  assert (Es : stepk c = KCfg (k_eng c) (fst (@comp_dispose A E_op cid (k_bk c))) (k_out c) k
                            (rev (snd (@comp_dispose A E_op cid (k_bk c))) ++ CEOp (CDisc j) :: k_log c)).
  { unfold kstep. rewrite Hk, Hn. destruct (comp_dispose cid (k_bk c)) as [b' evs]. reflexivity. }
  assert (G1 : has_sub (k_bk (stepk c)) = false) by (rewrite Es; exact Hh).
  split; [exact G1|]. split; [apply CI_disconnected; assumption|].
  rewrite Es. unfold klog_of. cbn [k_log]. rewrite rev_app_distr, rev_involutive. cbn [rev].
  rewrite <- app_assoc. cbn [app]. now rewrite Hev.
Qed.

(* a handle whose connection is over (already disposed, by anybody) releases nothing and does not
   touch the current connection *)
Theorem stale_handle_is_inert (c : kcfg) j k cid :
  k_k c = KOp (CDisc j) :: k ->
  nth_error (handles (k_bk c)) j = Some (Some cid) ->
  comp_disposed (get_conn (k_bk c) cid) = true ->
  k_bk (stepk c) = k_bk c /\ klog_of (stepk c) = klog_of c ++ [CEOp (CDisc j)].
Proof.
  intros Hk Hn Ec. unfold kstep. rewrite Hk, Hn. unfold comp_dispose. rewrite Ec. cbn. split; reflexivity.
Qed.
End Disc.
