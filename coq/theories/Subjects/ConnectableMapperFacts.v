(* C24, multicast(subject_factory, mapper): every subscribe() makes EXACTLY ONE source
   subscription.  Each per-subscriber instance of Subjects/Connectable.v's [mrun] is a plain
   connectable fed with [CSub o; CConnect] once and afterwards only with operations that do
   not connect; the invariant  `source subscriptions logged + connects still pending = 1, and
   while a connect is pending the connectable is disconnected`  holds from its creation on. *)
From RxVerif Require Import Base.Prelude Ops.Machine Subjects.Subject Subjects.Behavior Subjects.Async
  Subjects.Family Subjects.Replay Subjects.Connectable Subjects.ConnectableFacts.
Require Import Lia.
Local Open Scope nat_scope.

Section OneSub.
Context {A E_st E_in E_op : Type}.
Context (e_exec : E_in -> E_st -> E_st * list E_in * list (@sev A E_op)).
Context (e_call : @sop A -> list E_in).
Context (e_drain : list E_in).
Context (cold : list (ev A)) (st0 : E_st) (fuel : nat).
Notation kc := (@kcfg A E_st E_in E_op).
Notation kinstr := (@kinstr A E_in).
Notation csil := (fun (_ _ : nat) => @nil (@cop A)).
Notation stepk := (kstep e_exec e_call MPlain true cold csil).
Notation runk := (krun e_exec e_call MPlain true cold csil).

(* pending connects: the driver's operation or the call itself *)
Definition isconn (i : kinstr) : bool :=
  match i with KConnect _ | KOp CConnect => true | _ => false end.
Definition nconn (k : list kinstr) : nat := length (filter isconn k).

Lemma nconn_app k1 k2 : nconn (k1 ++ k2) = nconn k1 + nconn k2.
Proof. unfold nconn. now rewrite filter_app, app_length. Qed.
Lemma nconn_KS l : nconn (map (@KS A E_in) l) = 0.
Proof. induction l; cbn; auto. Qed.
Lemma nconn_KSrc cid l : nconn (map (@KSrc A E_in cid) l) = 0.
Proof. induction l; cbn; auto. Qed.
Lemma nconn_srcs n l : nconn (map (fun cid => @KSrc A E_in cid n) l) = 0.
Proof. induction l; cbn; auto. Qed.
Lemma nconn_cons i k : nconn (i :: k) = (if isconn i then 1 else 0) + nconn k.
Proof. unfold nconn. cbn [filter]. destruct (isconn i); reflexivity. Qed.

Definition noconnect (p : @cop A) : bool := match p with CConnect => false | _ => true end.
Lemma nconn_ops ops : forallb noconnect ops = true ->
  nconn (flat_map (fun p : @cop A => KOp p :: map (@KS A E_in) e_drain) ops) = 0.
Proof.
  induction ops as [|p t IH]; [reflexivity|]. cbn [forallb flat_map]. intros H.
  apply andb_prop in H. destruct H as [H1 H2]. rewrite nconn_app, nconn_cons, nconn_KS, (IH H2).
  destruct p; try discriminate; reflexivity.
Qed.

Definition J (c : kc) : Prop :=
  nssub (k_log c) + nconn (k_k c) = 1 /\ (0 < nconn (k_k c) -> has_sub (k_bk c) = false).

Lemma has_comp_dispose cid (b : book) :
  has_sub (fst (@comp_dispose A E_op cid b)) = true -> has_sub b = true.
Proof.
  unfold comp_dispose. destruct (comp_disposed (get_conn b cid)); [auto|].
  match goal with |- context [sado_dispose cid ?c] => destruct (sado_dispose cid c) as [c2 evs] end.
  cbn. discriminate.
Qed.

(* apart from connect() itself no step connects: the flag does not become true, and nothing
   pushes a connect *)
Lemma step_other (c : kc) :
  match k_k c with KConnect _ :: _ => False | _ => True end ->
  nconn (k_k (stepk c)) = nconn (k_k c) /\ (has_sub (k_bk (stepk c)) = true -> has_sub (k_bk c) = true).
Proof.
  destruct c as [st b m k l]. unfold kstep. cbn [k_k k_bk k_log k_out k_eng].
  destruct k as [|i k]; [auto|]. intros Hh. rewrite (nconn_cons i k).
  destruct i as [p|ei|o|o|o|o u| |w|cid w|cid n|cid]; cbn [isconn]; try contradiction.
  - destruct p as [o|o| |j|v|e| |d]; cbn [isconn].
    + destruct (m o); cbn [k_k k_bk]; [auto|]. rewrite nconn_app, nconn_KS, nconn_cons. cbn [isconn]. auto.
    + destruct (m o) as [u|]; [|cbn [k_k k_bk]; auto]. destruct (u_handle u); cbn [k_k k_bk is_outer_mode]; [|auto].
      rewrite nconn_app, nconn_KS. auto.
    + cbn [k_k k_bk]. rewrite nconn_cons. cbn [isconn]. auto.
    + destruct (nth_error (handles b) j) as [[cid|]|]; cbn [k_k k_bk]; auto.
      pose proof (has_comp_dispose cid b) as G. destruct (comp_dispose cid b) as [b' evs]. cbn [k_k k_bk fst] in *. auto.
    + cbn [k_k k_bk]. rewrite nconn_app, nconn_srcs. auto.
    + cbn [k_k k_bk]. rewrite nconn_app, nconn_srcs. auto.
    + cbn [k_k k_bk]. rewrite nconn_app, nconn_srcs. auto.
    + cbn [k_k k_bk]. rewrite nconn_app, nconn_KS. auto.
  - destruct (e_exec ei st) as [[st' pushed] evs].
    destruct (fold_left _ evs None) as [[o n]|]; cbn [k_k k_bk map app is_outer_mode].
    + rewrite Bool.andb_false_r. cbn [app]. rewrite nconn_app, nconn_KS. auto.
    + rewrite nconn_app, nconn_KS. auto.
  - cbn [k_k k_bk has_sub set_count]. rewrite nconn_app, nconn_KS. cbn [app]. rewrite nconn_cons. cbn [isconn]. auto.
  - destruct (m o) as [u|]; [|cbn [k_k k_bk]; auto]. destruct (u_sad_disposed u); cbn [k_k k_bk]; [|auto].
    rewrite nconn_cons. cbn [isconn]. auto.
  - destruct (m o) as [u|]; cbn [k_k k_bk]; auto.
  - destruct (m o) as [x|]; [|cbn [k_k k_bk]; auto]. destruct (u_sad_disposed x); [cbn [k_k k_bk]; auto|].
    destruct (u_sad_set x); cbn [k_k k_bk]; [|auto].
    rewrite nconn_app, nconn_cons. cbn [isconn]. destruct u; [rewrite nconn_KS|]; auto.
  - cbn [k_k k_bk]. auto.
  - destruct (s_sad_disposed (get_conn b cid)).
    + destruct (src_dispose cid (get_conn b cid)) as [c1 evs]. cbn [k_k k_bk]. destruct w; cbn; auto.
    + cbn [k_k k_bk]. destruct w; cbn; auto.
  - destruct (negb (s_live (get_conn b cid))); [cbn [k_k k_bk]; auto|].
    destruct (s_stopped (get_conn b cid)); [cbn [k_k k_bk]; auto|].
    destruct n; cbn [k_k k_bk]; rewrite nconn_app, nconn_KS, ?nconn_cons; cbn [isconn]; auto.
  - destruct (sado_dispose cid (get_conn b cid)) as [c1 evs]. cbn [k_k k_bk]. auto.
Qed.

Lemma step_connect st b m w k l :
  nconn (k_k (stepk (KCfg st b m (KConnect w :: k) l))) = nconn k.
Proof.
  unfold kstep. cbn [k_k k_bk k_log k_out k_eng]. destruct (has_sub b); cbn [k_k]; [reflexivity|].
  rewrite nconn_app, nconn_KSrc, nconn_cons. reflexivity.
Qed.

Theorem J_step c : J c -> J (stepk c).
Proof.
  intros [H1 H2]. pose proof (only_connect_subscribes e_exec e_call MPlain true cold csil c) as Hn.
  pose proof (step_other c) as Ho.
  destruct c as [st b m k l]. cbn [k_k k_bk k_log] in H1, H2, Hn, Ho.
  destruct k as [|i k].
  { unfold J, kstep. cbn [k_k k_bk k_log]. split; assumption. }
  assert (Hgen : (match i with KConnect _ => False | _ => True end) -> J (stepk (KCfg st b m (i :: k) l))).
  { intros Hi. destruct Ho as [G1 G2]; [destruct i; try exact I; contradiction|].
    assert (E0 : nssub (k_log (stepk (KCfg st b m (i :: k) l))) = nssub l)
      by (rewrite Hn; destruct i; try lia; contradiction).
    split; [rewrite E0, G1; exact H1|]. rewrite G1. intros G. specialize (H2 G).
    destruct (has_sub (k_bk (stepk (KCfg st b m (i :: k) l)))); [|reflexivity].
    rewrite G2 in H2 by reflexivity. discriminate. }
  destruct i as [p|ei|o|o|o|o u| |w|cid w|cid n|cid]; try (apply Hgen; exact I).
  (* connect() *)
  clear Hgen Ho. rewrite nconn_cons in H1, H2. cbn [isconn] in H1, H2.
  rewrite (H2 ltac:(lia)) in Hn. split.
  - rewrite Hn, step_connect. lia.
  - rewrite step_connect. intros G. lia.
Qed.

Lemma J_run n : forall c, J c -> J (runk n c).
Proof. apply krun_ind. exact J_step. Qed.

Lemma J_feed (c : kc) ops : J c -> forallb noconnect ops = true -> J (feed e_exec e_call e_drain cold fuel c ops).
Proof.
  intros [H1 H2] Ho. unfold feed. apply J_run. unfold J. cbn [k_k k_bk k_log].
  rewrite nconn_app, (nconn_ops ops Ho), Nat.add_0_r. split; assumption.
Qed.

(* the instance just created by `subscribe o`: one connect pending, disconnected *)
Lemma J_create o :
  J (feed e_exec e_call e_drain cold fuel (KCfg st0 fresh_book (fun _ => None) [] []) [CSub o; CConnect]).
Proof.
  unfold feed. apply J_run. unfold J. cbn [k_k k_bk k_log app].
  assert (E : nconn (flat_map (fun p : @cop A => KOp p :: map (@KS A E_in) e_drain) [CSub o; CConnect]) = 1).
  { cbn [flat_map]. rewrite !nconn_app. rewrite !nconn_cons, !nconn_KS. reflexivity. }
  rewrite E. split; reflexivity.
Qed.

Definition all_J (insts : list (nat * kc)) : Prop := Forall (fun x => J (snd x)) insts.

Lemma mall_J sel : (forall o, forallb noconnect (sel o) = true) -> forall insts rank,
  all_J insts -> all_J (fst (mall e_exec e_call e_drain cold fuel sel rank insts)).
Proof.
  intros Hsel. induction insts as [|[o c] t IH]; intros rank H; [constructor|].
  inversion H as [|? ? Hc Ht]; subst. cbn [mall].
  specialize (IH (S rank) Ht). destruct (mall e_exec e_call e_drain cold fuel sel (S rank) t) as [t' evs].
  cbn [fst] in *. constructor; [|exact IH]. cbn [snd] in *.
  pose proof (Hsel o) as Ho. destruct (sel o); [exact Hc|apply J_feed; assumption].
Qed.

Lemma mstep_J insts p :
  all_J insts -> all_J (fst (mstep e_exec e_call e_drain cold st0 fuel insts p)).
Proof.
  intros H. destruct p as [o|o| |j|v|e| |d]; cbn [mstep]; try exact H;
    try (apply mall_J; [intros o'; reflexivity|exact H]).
  - destruct (existsb _ insts); [exact H|]. cbn [fst]. apply Forall_app. split; [exact H|].
    constructor; [|constructor]. cbn [snd]. apply J_create.
  - apply mall_J; [|exact H]. intros o'. destruct (Nat.eqb o' o); reflexivity.
Qed.

Lemma mrun_J top : forall insts,
  all_J insts -> all_J (fst (mrun e_exec e_call e_drain cold st0 fuel insts top)).
Proof.
  induction top as [|p t IH]; intros insts H; [exact H|]. cbn [mrun].
  pose proof (mstep_J insts p H) as G.
  destruct (mstep e_exec e_call e_drain cold st0 fuel insts p) as [i1 e1]. cbn [fst] in G.
  specialize (IH i1 G). destruct (mrun e_exec e_call e_drain cold st0 fuel i1 t) as [i2 e2]. exact IH.
Qed.

(* P2 of the audit: one source subscription per subscription of the mapper form -- never more
   than one, and exactly one as soon as the instance has nothing pending *)
Theorem mapper_one_source_subscription top o c :
  In (o, c) (fst (mrun e_exec e_call e_drain cold st0 fuel [] top)) ->
  nssub (k_log c) <= 1 /\ (kfinished c = true -> nssub (k_log c) = 1).
Proof.
  intros Hin. pose proof (mrun_J top [] (Forall_nil _)) as H.
  unfold all_J in H. rewrite Forall_forall in H. specialize (H (o, c) Hin). cbn [snd] in H.
  destruct H as [H1 H2]. split; [lia|]. intros Hf. unfold kfinished in Hf.
  destruct (k_k c); [|discriminate]. cbn in H1. lia.
Qed.
End OneSub.

(* ---- what the subscriber of the mapper form receives (Subject / BehaviorSubject / AsyncSubject
        factories, identity mapper): its own subject's family specification on the calls made on
        that subject -- the generalisation of ConnectableViewFacts.multicast_view from [kinit] to
        an instance fed operation by operation ---- *)
From RxVerif Require Import Subjects.SubjectFacts Subjects.FamilyFacts Subjects.ConnectableViewFacts.

Section MapperView.
Context {A : Type} (pynone : A) (K : kind) (v0 : A).
Context (cold : list (ev A)) (fuel : nat).
Notation C := (cls_of pynone K).
Notation csil := (fun (_ _ : nat) => @nil (@cop A)).
Notation kcfg := (@kcfg A (@sync_st A) (@instr A) (@op A)).
Notation runk := (krun (sync_exec C) sync_call MPlain true cold csil).

(* the instance is in step with a lazy run of its own subject *)
Definition V (c : kcfg) : Prop :=
  shape (k_k c) = true /\ exists sc hs, Q c sc /\ lazy_run pynone K v0 hs sc.

Lemma shape_run n : forall c : kcfg, shape (k_k c) = true -> shape (k_k (runk n c)) = true.
Proof.
  apply (krun_ind (sync_exec C) sync_call MPlain true cold csil (fun c => shape (k_k c) = true)).
  intros c. apply shape_step.
Qed.

Lemma noKS_ops (ops : list (@cop A)) :
  noKS (flat_map (fun p : @cop A => KOp p :: map (@KS A (@instr A)) []) ops) = true.
Proof. induction ops as [|p t IH]; [reflexivity|]. cbn. exact IH. Qed.

Lemma V_feed (c : kcfg) ops : V c -> V (feed (sync_exec C) sync_call [] cold fuel c ops).
Proof.
  intros [Hs [sc [hs [HQ Hl]]]]. unfold feed.
  set (c1 := KCfg (k_eng c) (k_bk c) (k_out c)
                  (k_k c ++ flat_map (fun p : @cop A => KOp p :: map (@KS A (@instr A)) []) ops) (k_log c)).
  assert (Hs1 : shape (k_k c1) = true) by (apply shape_app; [exact Hs|apply noKS_ops]).
  assert (HQ1 : Q c1 sc).
  { destruct HQ as [h1 h2 h3 h4]. constructor; cbn [c1 k_eng k_k k_log]; try assumption.
    rewrite subj_k_app, (noKS_subj_k _ (noKS_ops ops)), app_nil_r. exact h3. }
  split; [apply shape_run; exact Hs1|].
  destruct (run_sim pynone K v0 MPlain true cold fuel c1 sc hs HQ1 Hs1 Hl) as [sc' [hs' [G1 G2]]].
  exists sc', hs'. split; assumption.
Qed.

Lemma V_fresh : V (KCfg (sync_init v0) fresh_book (fun _ => None) [] []).
Proof.
  split; [reflexivity|]. exists (Cfg (init_state v0) (fun _ => None) [] []), [].
  split; [constructor; reflexivity|apply lr_init].
Qed.

Definition all_V (insts : list (nat * kcfg)) : Prop := Forall (fun x => V (snd x)) insts.

Lemma mall_V sel : forall insts rank,
  all_V insts -> all_V (fst (mall (sync_exec C) sync_call [] cold fuel sel rank insts)).
Proof.
  induction insts as [|[o c] t IH]; intros rank H; [constructor|].
  inversion H as [|? ? Hc Ht]; subst. cbn [mall].
  specialize (IH (S rank) Ht). destruct (mall (sync_exec C) sync_call [] cold fuel sel (S rank) t) as [t' evs].
  cbn [fst] in *. constructor; [|exact IH]. cbn [snd] in *.
  destruct (sel o); [exact Hc|apply V_feed; exact Hc].
Qed.

Lemma mstep_V insts p :
  all_V insts -> all_V (fst (mstep (sync_exec C) sync_call [] cold (sync_init v0) fuel insts p)).
Proof.
  intros H. destruct p as [o|o| |j|v|e| |d]; cbn [mstep]; try (apply mall_V; exact H); try exact H.
  destruct (existsb _ insts); [exact H|]. cbn [fst]. apply Forall_app. split; [exact H|].
  constructor; [|constructor]. cbn [snd]. apply V_feed. apply V_fresh.
Qed.

Lemma mrun_V top : forall insts,
  all_V insts -> all_V (fst (mrun (sync_exec C) sync_call [] cold (sync_init v0) fuel insts top)).
Proof.
  induction top as [|p t IH]; intros insts H; [exact H|]. cbn [mrun].
  pose proof (mstep_V insts p H) as G.
  destruct (mstep (sync_exec C) sync_call [] cold (sync_init v0) fuel insts p) as [i1 e1]. cbn [fst] in G.
  specialize (IH i1 G). destruct (mrun (sync_exec C) sync_call [] cold (sync_init v0) fuel i1 t) as [i2 e2]. exact IH.
Qed.

(* a finished instance in step with a lazy run: every view is the family specification *)
Lemma V_view (c : kcfg) : V c -> k_k c = [] ->
  forall o, cview o (klog_of c) = oview K o Before (g_init v0) (calls_of (klog_of c)).
Proof.
  intros [_ [sc [hs [[h1 h2 h3 h4] Hl]]]] Hk o. rewrite Hk in h3. cbn in h3.
  pose proof (lazy_run_spec pynone K v0 hs sc Hl h3) as Hspec.
  assert (E : subj_l (klog_of c) = noraise (spec K v0 hs)).
  { unfold klog_of. rewrite subj_l_rev, <- h4, <- noraise_rev, Hspec. reflexivity. }
  rewrite cview_subj, calls_subj, E, view_noraise, ops_noraise.
  unfold spec at 2. rewrite ops_spec_from. apply observer_view.
Qed.

Theorem mapper_view top o c :
  In (o, c) (fst (mrun (sync_exec C) sync_call [] cold (sync_init v0) fuel [] top)) ->
  k_k c = [] ->
  forall o', cview o' (klog_of c) = oview K o' Before (g_init v0) (calls_of (klog_of c)).
Proof.
  intros Hin. pose proof (mrun_V top [] (Forall_nil _)) as H.
  unfold all_V in H. rewrite Forall_forall in H. specialize (H (o, c) Hin). cbn [snd] in H.
  apply V_view. exact H.
Qed.
End MapperView.
