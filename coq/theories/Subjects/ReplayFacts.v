(* Facts about the ReplaySubject engine (Subjects/Replay.v).
   Part 1: for EVERY reaction function (arbitrary call trees), every
   configuration (buffer size, window) and every fuel: per-observer grammar,
   "a stopped wrapper never delivers again", unsubscription.
   Part 2: the retention policy: trimming incrementally (as the code does, at
   every on_next / subscribe / terminal) retains exactly the last buffer_size
   values whose age is within the window. *)
From Coq Require Import Sorting.Sorted.
From RxVerif Require Import Base.Prelude Ops.Machine Subjects.Subject Subjects.Family Subjects.Replay
  Subjects.ReplaySpec Subjects.SubjectFacts.

Section RFacts.
Context {A : Type} (react : nat -> nat -> list (@rop A)).

Notation rstep := (rstep react).
Notation rrun := (rrun react).

Definition rnoGot (evs : list (@revent A)) : Prop := forall o n, ~ In (REGot o n) evs.

Lemma rview_app o (l1 l2 : list (@revent A)) : rview o (l1 ++ l2) = rview o l1 ++ rview o l2.
Proof.
  induction l1 as [|e t IH]; cbn [app rview]; [reflexivity|].
  destruct e as [p|o' n|e]; [exact IH| |exact IH].
  destruct (Nat.eqb o' o); [cbn; now rewrite IH|exact IH].
Qed.

Lemma rview_noGot o (l : list (@revent A)) : rnoGot l -> rview o l = [].
Proof.
  induction l as [|e t IH]; intros H; cbn [rview]; [reflexivity|].
  assert (Ht : rnoGot t) by (intros o' n Hin; apply (H o' n); now right).
  destruct e as [p|o' n|e]; [now apply IH| |now apply IH].
  exfalso. apply (H o' n). now left.
Qed.

Lemma rnoGot_rev (l : list (@revent A)) : rnoGot l -> rnoGot (rev l).
Proof. intros H o n Hin. apply (H o n). now apply in_rev. Qed.

Definition rmono (m m' : @romap A) : Prop :=
  forall o os, m o = Some os -> exists os', m' o = Some os' /\ (ra_stopped os = true -> ra_stopped os' = true).

Lemma rmono_refl m : rmono m m.
Proof. intros o os H. eauto. Qed.

Lemma rmono_trans m1 m2 m3 : rmono m1 m2 -> rmono m2 m3 -> rmono m1 m3.
Proof.
  intros H12 H23 o os H. destruct (H12 o os H) as [os2 [H2 Hs2]].
  destruct (H23 o os2 H2) as [os3 [H3 Hs3]]. eauto.
Qed.

Lemma rmono_upd (m : @romap A) o os os' :
  m o = Some os -> (ra_stopped os = true -> ra_stopped os' = true) -> rmono m (rupd m o os').
Proof.
  intros Hm Hs o2 os2 H2. unfold rupd. destruct (Nat.eqb o2 o) eqn:E.
  - apply Nat.eqb_eq in E. subst o2. rewrite Hm in H2. injection H2 as <-. eauto.
  - eauto.
Qed.

Lemma rmono_upd_new (m : @romap A) o x : m o = None -> rmono m (rupd m o x).
Proof.
  intros Hm o2 os2 H2. unfold rupd. destruct (Nat.eqb o2 o) eqn:E.
  - apply Nat.eqb_eq in E. subst o2. congruence.
  - eauto.
Qed.

Lemma rupd_same (m : @romap A) o x : rupd m o x o = Some x.
Proof. unfold rupd. now rewrite Nat.eqb_refl. Qed.

Lemma so_each_mono f : forall snap (s : @rstate A) m, rmono m (snd (so_each f snap s m)).
Proof.
  unfold so_each. induction snap as [|o snap IH]; intros s m; cbn [fold_left snd]; [apply rmono_refl|].
  destruct (m o) as [os|] eqn:Hm.
  - destruct (f o s (r_so os)) as [s' so'].
    eapply rmono_trans; [|apply IH]. eapply rmono_upd; [exact Hm|]. intros H. exact H.
  - apply IH.
Qed.

Lemma removable_dispose_stopped (s : @rstate A) os o :
  ra_stopped (snd (removable_dispose s os o)) = ra_stopped os.
Proof. unfold removable_dispose. destruct (so_dispose s (r_so os)) as [s1 so1]. reflexivity. Qed.

Lemma rado_dispose_stopped (s : @rstate A) os o : ra_stopped (snd (rado_dispose s os o)) = true.
Proof.
  unfold rado_dispose. cbn [rsad_disposed rsad_cur]. destruct (rsad_disposed os); [reflexivity|].
  destruct (rsad_cur os); [|reflexivity]. now rewrite removable_dispose_stopped.
Qed.

Definition rstep_shape (c c' : @rcfg A) : Prop :=
  rmono (rc_obs c) (rc_obs c') /\
  ((exists evs, rc_rlog c' = evs ++ rc_rlog c /\ rnoGot evs) \/
   (exists pre o n os', rc_rlog c' = REGot o n :: pre ++ rc_rlog c /\ rnoGot pre /\
      (forall os, rc_obs c o = Some os -> ra_stopped os = false) /\
      rc_obs c' o = Some os' /\ (is_terminal n = true -> ra_stopped os' = true))).

Lemma rnoGot_nil : rnoGot [].
Proof. intros o n []. Qed.
Lemma rnoGot_op p : rnoGot [REOp p].
Proof. intros o n [H|[]]. discriminate. Qed.
Lemma rnoGot_raised e p : rnoGot [RERaised e; REOp p].
Proof. intros o n [H|[H|[]]]; discriminate. Qed.

Local Ltac quiet := left;
  first [ exists (@nil (@revent A)); split; [reflexivity|apply rnoGot_nil]
        | eexists [_]; split; [reflexivity|apply rnoGot_op]
        | eexists [_; _]; split; [reflexivity|apply rnoGot_raised] ].

Lemma rstep_op_shape p s m k l : rstep_shape (RCfg s m (RIOp p :: k) l) (rstep_op react p s m k l).
Proof.
  unfold rstep_shape, rstep_op. destruct p as [o|o|v|e| | |d]; cbn [rc_obs rc_rlog].
  - destruct (m o) as [os|] eqn:Hm; cbn [rc_obs rc_rlog].
    + split; [apply rmono_refl|quiet].
    + destruct (r_disposed s); cbn [rc_obs rc_rlog].
      * split; [now apply rmono_upd_new|]. right.
        exists [REOp (RSub o)], o, (Err disposed_exn), (rcalled true fresh_rostate).
        split; [reflexivity|]. split; [apply rnoGot_op|]. split; [intros os H; congruence|].
        split; [apply rupd_same|reflexivity].
      * match goal with |- context [ensure_active ?a ?b ?c] => destruct (ensure_active a b c) as [s3 so3] end.
        cbn [rc_obs rc_rlog]. split; [now apply rmono_upd_new|quiet].
  - destruct (m o) as [os|] eqn:Hm; cbn [rc_obs rc_rlog].
    + destruct (r_handle os).
      * destruct (rado_dispose s os o) as [s' os'] eqn:E. cbn [rc_obs rc_rlog].
        split; [|quiet]. eapply rmono_upd; [exact Hm|]. intros _.
        change os' with (snd (s', os')). rewrite <- E. apply rado_dispose_stopped.
      * split; [apply rmono_refl|quiet].
    + split; [apply rmono_refl|quiet].
  - destruct (r_disposed s); cbn [rc_obs rc_rlog]; [split; [apply rmono_refl|quiet]|].
    destruct (r_stopped s); cbn [rc_obs rc_rlog]; [split; [apply rmono_refl|quiet]|].
    match goal with |- context [so_each ?f ?sn ?st m] =>
      pose proof (so_each_mono f sn st m) as M1; destruct (so_each f sn st m) as [s2 m2] end.
    match goal with |- context [so_each ?f ?sn ?st m2] =>
      pose proof (so_each_mono f sn st m2) as M2; destruct (so_each f sn st m2) as [s3 m3] end.
    cbn [rc_obs rc_rlog snd] in *. split; [eapply rmono_trans; eassumption|quiet].
  - destruct (r_disposed s); cbn [rc_obs rc_rlog]; [split; [apply rmono_refl|quiet]|].
    destruct (r_stopped s); cbn [rc_obs rc_rlog]; [split; [apply rmono_refl|quiet]|].
    match goal with |- context [so_each ?f ?sn ?st m] =>
      pose proof (so_each_mono f sn st m) as M1; destruct (so_each f sn st m) as [s2 m2] end.
    cbn [rc_obs rc_rlog snd] in *. split; [assumption|quiet].
  - destruct (r_disposed s); cbn [rc_obs rc_rlog]; [split; [apply rmono_refl|quiet]|].
    destruct (r_stopped s); cbn [rc_obs rc_rlog]; [split; [apply rmono_refl|quiet]|].
    match goal with |- context [so_each ?f ?sn ?st m] =>
      pose proof (so_each_mono f sn st m) as M1; destruct (so_each f sn st m) as [s2 m2] end.
    cbn [rc_obs rc_rlog snd] in *. split; [assumption|quiet].
  - split; [apply rmono_refl|quiet].
  - destruct (d <? 0); cbn [rc_obs rc_rlog]; split; try apply rmono_refl; quiet.
Qed.

Lemma rstep_shape_holds c : rstep_shape c (rstep c).
Proof.
  destruct c as [s m k l]. unfold Replay.rstep. cbn [rc_k rc_st rc_obs rc_rlog].
  destruct k as [|i k].
  - split; [apply rmono_refl|quiet].
  - destruct i as [p|o n|o|o|o|].
    + apply rstep_op_shape.
    + unfold rstep_shape. cbn [rc_obs rc_rlog].
      destruct (m o) as [os|] eqn:Hm; cbn [rc_obs rc_rlog]; [|split; [apply rmono_refl|quiet]].
      destruct (ra_stopped os) eqn:Hst; cbn [rc_obs rc_rlog]; [split; [apply rmono_refl|quiet]|].
      destruct n as [v|e|]; cbn [rc_obs rc_rlog].
      * split; [eapply rmono_upd; [exact Hm|]; intros; congruence|].
        right. exists [], o, (Next v), (rcalled false os).
        split; [reflexivity|]. split; [apply rnoGot_nil|].
        split; [intros os2 H2; congruence|]. split; [apply rupd_same|discriminate].
      * split; [eapply rmono_upd; [exact Hm|]; intros; congruence|].
        right. exists [], o, (Err e), (rcalled true os).
        split; [reflexivity|]. split; [apply rnoGot_nil|].
        split; [intros os2 H2; congruence|]. split; [apply rupd_same|].
        intros _. cbn. apply orb_true_r.
      * split; [eapply rmono_upd; [exact Hm|]; intros; congruence|].
        right. exists [], o, Done, (rcalled true os).
        split; [reflexivity|]. split; [apply rnoGot_nil|].
        split; [intros os2 H2; congruence|]. split; [apply rupd_same|].
        intros _. cbn. apply orb_true_r.
    + unfold rstep_shape. cbn [rc_obs rc_rlog].
      destruct (m o) as [os|] eqn:Hm; cbn [rc_obs rc_rlog]; [|split; [apply rmono_refl|quiet]].
      destruct (rado_dispose s os o) as [s' os'] eqn:E. cbn [rc_obs rc_rlog].
      split; [|quiet]. eapply rmono_upd; [exact Hm|]. intros _.
      change os' with (snd (s', os')). rewrite <- E. apply rado_dispose_stopped.
    + unfold rstep_shape. cbn [rc_obs rc_rlog]. split; [apply rmono_refl|quiet].
    + unfold rstep_shape. cbn [rc_obs rc_rlog].
      destruct (m o) as [os|] eqn:Hm; cbn [rc_obs rc_rlog]; [|split; [apply rmono_refl|quiet]].
      split; [|quiet]. eapply rmono_upd; [exact Hm|]. intros H. exact H.
    + unfold rstep_shape. cbn [rc_obs rc_rlog].
      destruct (r_sched s) as [|[[i o] cancelled] rest]; cbn [rc_obs rc_rlog]; [split; [apply rmono_refl|quiet]|].
      destruct cancelled; cbn [rc_obs rc_rlog]; [split; [apply rmono_refl|quiet]|].
      destruct (m o) as [os|] eqn:Hm; cbn [rc_obs rc_rlog]; [|split; [apply rmono_refl|quiet]].
      destruct (so_queue (r_so os)) as [|n q]; cbn [rc_obs rc_rlog].
      * split; [|quiet]. eapply rmono_upd; [exact Hm|]. intros H. exact H.
      * split; [|quiet]. eapply rmono_upd; [exact Hm|]. intros H. exact H.
Qed.

Lemma rrun_done n c : rc_k c = [] -> rrun n c = c.
Proof. intros H. destruct n; cbn; [reflexivity|now rewrite H]. Qed.

Lemma rstep_done c : rc_k c = [] -> rstep c = c.
Proof. intros H. unfold Replay.rstep. now rewrite H. Qed.

Lemma rrun_S n c : rrun (S n) c = rrun n (rstep c).
Proof.
  cbn. destruct (rc_k c) eqn:E; [|reflexivity].
  rewrite (rstep_done c E). symmetry. now apply rrun_done.
Qed.

Lemma rrun_add n m c : rrun (n + m) c = rrun m (rrun n c).
Proof.
  revert c; induction n as [|n IH]; intros c; [reflexivity|].
  change (S n + m)%nat with (S (n + m)). rewrite !rrun_S. apply IH.
Qed.

Lemma rrun_ind (P : @rcfg A -> Prop) :
  (forall c, P c -> P (rstep c)) -> forall n c, P c -> P (rrun n c).
Proof.
  intros Hs n; induction n as [|n IH]; intros c Hc; [exact Hc|].
  rewrite rrun_S. apply IH. now apply Hs.
Qed.

Definition rwf_inv (c : @rcfg A) : Prop :=
  forall o, wellformed (rview o (rlog_of c)) = true /\
            (has_term (rview o (rlog_of c)) = true ->
             exists os, rc_obs c o = Some os /\ ra_stopped os = true).

Lemma rwf_inv_step c : rwf_inv c -> rwf_inv (rstep c).
Proof.
  intros I. destruct (rstep_shape_holds c) as [Hmono [[evs [Hl Hng]]|[pre [o [n [os' [Hl [Hng [Hlive [Hos' Hterm]]]]]]]]]].
  - intros o2. unfold rlog_of. rewrite Hl, rev_app_distr, rview_app.
    rewrite (rview_noGot o2 (rev evs)) by now apply rnoGot_rev.
    rewrite app_nil_r. destruct (I o2) as [Hw Ht]. split; [exact Hw|].
    intros H. destruct (Ht H) as [os [Ho Hs]]. destruct (Hmono o2 os Ho) as [os2 [Ho2 Hs2]]. eauto.
  - intros o2. unfold rlog_of. rewrite Hl. cbn [rev]. rewrite rev_app_distr, !rview_app.
    rewrite (rview_noGot o2 (rev pre)) by now apply rnoGot_rev. rewrite app_nil_r.
    destruct (I o2) as [Hw Ht]. fold (rlog_of c). cbn [rview].
    destruct (Nat.eqb o o2) eqn:E.
    + apply Nat.eqb_eq in E. subst o2.
      assert (Hnt : has_term (rview o (rlog_of c)) = false).
      { destruct (has_term (rview o (rlog_of c))) eqn:Hh; [|reflexivity].
        destruct (Ht eq_refl) as [os [Ho Hs]]. rewrite (Hlive os Ho) in Hs. discriminate. }
      split.
      * rewrite wellformed_snoc, Hw, Hnt. reflexivity.
      * rewrite has_term_app, Hnt. cbn. rewrite orb_false_r. intros Hn. eauto.
    + rewrite app_nil_r. split; [exact Hw|].
      intros H. destruct (Ht H) as [os [Ho Hs]]. destruct (Hmono o2 os Ho) as [os2 [Ho2 Hs2]]. eauto.
Qed.

Lemma rwf_inv_init bs w top : rwf_inv (rinit_cfg bs w top).
Proof. intros o. cbn. split; [reflexivity|discriminate]. Qed.

(* every observer's received sequence obeys the grammar, for every call tree,
   configuration and fuel *)
Theorem rviews_wellformed bs w top fuel o :
  wellformed (rview o (rlog_of (rrun fuel (rinit_cfg bs w top)))) = true.
Proof.
  apply (rrun_ind rwf_inv rwf_inv_step fuel (rinit_cfg bs w top) (rwf_inv_init bs w top) o).
Qed.

Lemma rstopped_final_step c o os :
  rc_obs c o = Some os -> ra_stopped os = true ->
  rview o (rlog_of (rstep c)) = rview o (rlog_of c) /\
  exists os', rc_obs (rstep c) o = Some os' /\ ra_stopped os' = true.
Proof.
  intros Ho Hs.
  destruct (rstep_shape_holds c) as [Hmono [[evs [Hl Hng]]|[pre [o2 [n [os' [Hl [Hng [Hlive [Hos' Hterm]]]]]]]]]].
  - split.
    + unfold rlog_of. rewrite Hl, rev_app_distr, rview_app.
      rewrite (rview_noGot o (rev evs)) by now apply rnoGot_rev. now rewrite app_nil_r.
    + destruct (Hmono o os Ho) as [os2 [H2 Hs2]]. eauto.
  - split.
    + unfold rlog_of. rewrite Hl. cbn [rev]. rewrite rev_app_distr, !rview_app.
      rewrite (rview_noGot o (rev pre)) by now apply rnoGot_rev. cbn [rview].
      destruct (Nat.eqb o2 o) eqn:E.
      * apply Nat.eqb_eq in E. subst o2. rewrite (Hlive os Ho) in Hs. discriminate.
      * now rewrite !app_nil_r.
    + destruct (Hmono o os Ho) as [os2 [H2 Hs2]]. eauto.
Qed.

(* a stopped wrapper never delivers again: whatever is still queued in the
   ScheduledObserver or scheduled on the scheduler is dropped *)
Theorem rstopped_final n : forall c o os,
  rc_obs c o = Some os -> ra_stopped os = true ->
  rview o (rlog_of (rrun n c)) = rview o (rlog_of c).
Proof.
  induction n as [|n IH]; intros c o os Ho Hs; [reflexivity|].
  rewrite rrun_S. destruct (rstopped_final_step c o os Ho Hs) as [Hv [os' [Ho' Hs']]].
  rewrite (IH (rstep c) o os' Ho' Hs'). exact Hv.
Qed.

Theorem runsubscribed_gets_nothing_more s m k l o os n :
  m o = Some os -> r_handle os = true ->
  rview o (rlog_of (rrun n (RCfg s m (RIOp (RUnsub o) :: k) l))) = rview o (rev l).
Proof.
  intros Hm Hh. destruct n as [|n]; [reflexivity|]. rewrite rrun_S.
  assert (Hst : exists os', rc_obs (rstep (RCfg s m (RIOp (RUnsub o) :: k) l)) o = Some os' /\ ra_stopped os' = true).
  { unfold Replay.rstep. cbn [rc_k rc_st rc_obs rc_rlog rstep_op]. rewrite Hm, Hh.
    destruct (rado_dispose s os o) as [s' os'] eqn:E. cbn [rc_obs]. exists os'. split; [apply rupd_same|].
    change os' with (snd (s', os')). rewrite <- E. apply rado_dispose_stopped. }
  destruct Hst as [os' [Ho' Hs']]. rewrite (rstopped_final n _ o os' Ho' Hs').
  unfold Replay.rstep. cbn [rc_k rc_st rc_obs rc_rlog rstep_op]. rewrite Hm, Hh.
  destruct (rado_dispose s os o) as [s' os2]. unfold rlog_of. cbn [rc_rlog rev].
  rewrite rview_app. cbn. now rewrite app_nil_r.
Qed.

Theorem rafter_terminal_nothing c o :
  rwf_inv c -> has_term (rview o (rlog_of c)) = true ->
  forall n, rview o (rlog_of (rrun n c)) = rview o (rlog_of c).
Proof.
  intros I H n. destruct (I o) as [_ Ht]. destruct (Ht H) as [os [Ho Hs]].
  exact (rstopped_final n c o os Ho Hs).
Qed.

End RFacts.

(* ========================================================================== *)
(* Part 2: the retention policy.                                              *)
(* [all] = every (time, value) accepted so far (timestamps never decrease);   *)
(* the code keeps a suffix [q] of it and trims it at every on_next, subscribe *)
(* and terminal.  Whatever the interleaving of these, trimming [q] at time    *)
(* [now] gives the last [b] values of [all] whose age is <= the window.       *)
(* ========================================================================== *)
Section Policy.
Context {A : Type} (b : Z) (w : option Z).

Definition otrim (now : Z) (q : list (Z * A)) : list (Z * A) := trim_age now w (trim_count b q).

Notation fresh_enough := (fresh_enough w).
Notation retained := (retained b w).

(* length of the leading run of too-old entries *)
Fixpoint old_prefix (now : Z) (l : list (Z * A)) : nat :=
  match l with
  | [] => 0
  | (t, _) :: r => if too_old now w t then S (old_prefix now r) else 0
  end.

Definition sorted (l : list (Z * A)) : Prop := StronglySorted Z.le (map fst l).

Lemma trim_count_skipn (l : list (Z * A)) : trim_count b l = skipn (length l - Z.to_nat b) l.
Proof.
  induction l as [|x t IH]; [reflexivity|].
  cbn [trim_count]. unfold zlen. destruct (Z.of_nat (length (x :: t)) >? b) eqn:E.
  - rewrite IH. cbn [length] in *. apply Z.gtb_lt in E.
    replace (S (length t) - Z.to_nat b)%nat with (S (length t - Z.to_nat b)) by lia. reflexivity.
  - assert (length (x :: t) - Z.to_nat b = 0)%nat as -> ; [|reflexivity].
    rewrite Z.gtb_ltb in E. apply Z.ltb_ge in E. cbn [length] in *. lia.
Qed.

Lemma trim_age_skipn now (l : list (Z * A)) : trim_age now w l = skipn (old_prefix now l) l.
Proof.
  induction l as [|[t v] r IH]; [reflexivity|]. cbn [trim_age old_prefix].
  destruct (too_old now w t); [exact IH|reflexivity].
Qed.

Lemma too_old_mono now now' t : now <= now' -> too_old now w t = true -> too_old now' w t = true.
Proof. unfold too_old. destruct w as [ww|]; [|discriminate]. intros H E. apply Z.gtb_lt in E. apply Z.gtb_lt. lia. Qed.

Lemma too_old_anti now t t' : t' <= t -> too_old now w t = true -> too_old now w t' = true.
Proof. unfold too_old. destruct w as [ww|]; [|discriminate]. intros H E. apply Z.gtb_lt in E. apply Z.gtb_lt. lia. Qed.

Lemma old_prefix_mono now now' (l : list (Z * A)) : now <= now' -> (old_prefix now l <= old_prefix now' l)%nat.
Proof.
  intros H. induction l as [|[t v] r IH]; [reflexivity|]. cbn [old_prefix].
  destruct (too_old now w t) eqn:E; [|lia]. rewrite (too_old_mono now now' t H E). lia.
Qed.

Lemma old_prefix_le now (l : list (Z * A)) : (old_prefix now l <= length l)%nat.
Proof. induction l as [|[t v] r IH]; cbn [old_prefix length]; [lia|]. destruct (too_old now w t); lia. Qed.

Lemma old_prefix_app_le now (l l2 : list (Z * A)) : (old_prefix now l <= old_prefix now (l ++ l2))%nat.
Proof.
  induction l as [|[t v] r IH]; cbn [old_prefix app]; [lia|]. destruct (too_old now w t); lia.
Qed.

Lemma sorted_tail x (l : list (Z * A)) : sorted (x :: l) -> sorted l.
Proof. unfold sorted. cbn [map]. intros H. now inversion H. Qed.

Lemma sorted_head_le x (l : list (Z * A)) y : sorted (x :: l) -> In y l -> fst x <= fst y.
Proof.
  unfold sorted. cbn [map]. intros H Hin. inversion H as [|? ? _ Hall]; subst.
  rewrite Forall_forall in Hall. apply Hall. now apply in_map.
Qed.

(* in a sorted list nothing after a fresh entry is too old *)
Lemma old_prefix_fresh_head now x (l : list (Z * A)) :
  sorted (x :: l) -> too_old now w (fst x) = false -> old_prefix now l = 0%nat.
Proof.
  intros Hs Hx. destruct l as [|[t v] r]; [reflexivity|]. cbn [old_prefix].
  destruct (too_old now w t) eqn:E; [|reflexivity].
  assert (Hle : fst x <= t) by (apply (sorted_head_le x ((t, v) :: r) (t, v) Hs); now left).
  rewrite (too_old_anti now t (fst x) Hle E) in Hx. discriminate.
Qed.

Lemma old_prefix_skipn now : forall (l : list (Z * A)) k, sorted l ->
  old_prefix now (skipn k l) = (old_prefix now l - k)%nat.
Proof.
  induction l as [|[t v] r IH]; intros k Hs; [destruct k; reflexivity|].
  destruct k as [|k]; [cbn [skipn]; lia|]. cbn [skipn old_prefix].
  rewrite (IH k (sorted_tail _ _ Hs)).
  destruct (too_old now w t) eqn:E; [lia|].
  rewrite (old_prefix_fresh_head now (t, v) r Hs E). reflexivity.
Qed.

Lemma filter_fresh_skipn now : forall (l : list (Z * A)), sorted l ->
  filter (fresh_enough now) l = skipn (old_prefix now l) l.
Proof.
  induction l as [|[t v] r IH]; intros Hs; [reflexivity|].
  cbn [filter old_prefix]. unfold fresh_enough at 1. cbn [fst].
  destruct (too_old now w t) eqn:E; cbn [negb].
  - apply IH. exact (sorted_tail _ _ Hs).
  - cbn [skipn]. f_equal. rewrite (IH (sorted_tail _ _ Hs)).
    rewrite (old_prefix_fresh_head now (t, v) r Hs E). reflexivity.
Qed.

Lemma sorted_skipn k : forall (l : list (Z * A)), sorted l -> sorted (skipn k l).
Proof.
  induction k as [|k IH]; intros l Hs; [exact Hs|]. destruct l as [|x r]; [exact Hs|].
  cbn [skipn]. apply IH. exact (sorted_tail _ _ Hs).
Qed.

Lemma skipn_skipn {X} (a k : nat) (l : list X) : skipn a (skipn k l) = skipn (k + a) l.
Proof.
  revert l; induction k as [|k IH]; intros l; [reflexivity|].
  destruct l as [|x r]; [now rewrite !skipn_nil|]. cbn [skipn plus]. apply IH.
Qed.

(* trimming a suffix of [all] *)
Lemma otrim_suffix now (all : list (Z * A)) k :
  sorted all -> (k <= length all)%nat ->
  otrim now (skipn k all) = skipn (Nat.max k (Nat.max (length all - Z.to_nat b) (old_prefix now all))) all.
Proof.
  intros Hs Hk. unfold otrim. rewrite trim_count_skipn, skipn_skipn, skipn_length.
  set (k1 := (k + (length all - k - Z.to_nat b))%nat).
  rewrite trim_age_skipn, skipn_skipn. rewrite old_prefix_skipn by exact Hs. f_equal. unfold k1. lia.
Qed.

Lemma retained_skipn now (all : list (Z * A)) :
  sorted all ->
  retained now all = skipn (Nat.max (length all - Z.to_nat b) (old_prefix now all)) all.
Proof.
  intros Hs. unfold retained, lastn.
  rewrite filter_fresh_skipn by (apply sorted_skipn; exact Hs).
  rewrite skipn_skipn, old_prefix_skipn by exact Hs. f_equal. lia.
Qed.

(* the invariant tying the code's queue [q] at time [clock] to the full history [all] *)
Definition qinv (clock : Z) (q all : list (Z * A)) : Prop :=
  sorted all /\ (forall x, In x all -> fst x <= clock) /\
  exists k, q = skipn k all /\ (k <= length all)%nat /\
            (k <= Nat.max (length all - Z.to_nat b) (old_prefix clock all))%nat.

Lemma qinv_init clock : qinv clock [] [].
Proof.
  split; [constructor|]. split; [intros x []|]. exists 0%nat. split; [reflexivity|]. cbn. lia.
Qed.

(* what a subscriber at any later time [now] is handed *)
Theorem qinv_replay clock q all now :
  qinv clock q all -> clock <= now -> otrim now q = retained now all.
Proof.
  intros (Hs & _ & k & -> & Hk & Hb) Hn. rewrite otrim_suffix, retained_skipn by assumption.
  f_equal. pose proof (old_prefix_mono clock now all Hn). lia.
Qed.

(* the clock moves forward (scheduler.sleep) *)
Lemma qinv_advance clock clock' q all : qinv clock q all -> clock <= clock' -> qinv clock' q all.
Proof.
  intros (Hs & Hle & k & Hq & Hk & Hb) Hn. split; [exact Hs|]. split.
  - intros x Hx. specialize (Hle x Hx). lia.
  - exists k. split; [exact Hq|]. split; [exact Hk|].
    pose proof (old_prefix_mono clock clock' all Hn). lia.
Qed.

(* the code trims (subscribe, on_error, on_completed) *)
Lemma qinv_trim clock q all : qinv clock q all -> qinv clock (otrim clock q) all.
Proof.
  intros (Hs & Hle & k & -> & Hk & Hb). split; [exact Hs|]. split; [exact Hle|].
  rewrite otrim_suffix by assumption.
  exists (Nat.max k (Nat.max (length all - Z.to_nat b) (old_prefix clock all))).
  split; [reflexivity|]. pose proof (old_prefix_le clock all). split; lia.
Qed.

Lemma sorted_snoc (all : list (Z * A)) x :
  sorted all -> (forall y, In y all -> fst y <= fst x) -> sorted (all ++ [x]).
Proof.
  unfold sorted. induction all as [|y r IH]; intros Hs Hle; cbn [map app].
  - constructor; [constructor|constructor].
  - inversion Hs as [|? ? Hr Hall]; subst. constructor.
    + apply IH; [exact Hr|]. intros z Hz. apply Hle. now right.
    + rewrite map_app. apply Forall_app. split; [exact Hall|].
      constructor; [|constructor]. apply Hle. now left.
Qed.

(* on_next: append at the current clock (then the code trims: [qinv_trim]) *)
Lemma qinv_append clock q all v : qinv clock q all -> qinv clock (q ++ [(clock, v)]) (all ++ [(clock, v)]).
Proof.
  intros (Hs & Hle & k & -> & Hk & Hb). split; [apply sorted_snoc; [exact Hs|exact Hle]|]. split.
  - intros x Hx. apply in_app_or in Hx. destruct Hx as [Hx|[<-|[]]]; [now apply Hle|cbn; lia].
  - exists k. split; [|split].
    + rewrite skipn_app. replace (k - length all)%nat with 0%nat by lia. reflexivity.
    + rewrite app_length. cbn. lia.
    + rewrite app_length. cbn [length].
      pose proof (old_prefix_app_le clock all [(clock, v)]). lia.
Qed.
End Policy.
