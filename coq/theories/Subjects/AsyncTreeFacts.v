(* C23 on ARBITRARY call trees (observers that subscribe, unsubscribe, emit, complete, dispose from
   inside their callbacks), every fuel: while the AsyncSubject has neither terminated nor been
   disposed, NOBODY has received anything. *)
From RxVerif Require Import Base.Prelude Ops.Machine Subjects.Subject Subjects.Async Subjects.Family
  Subjects.SubjectFacts Subjects.FamilyFacts.

Section AsyncTree.
Context {A : Type} (pynone : A) (react : nat -> nat -> list (@op A)).
Notation C := (async_cls pynone).

Definition is_deliver (i : @instr A) : bool := match i with IDeliver _ _ => true | _ => false end.
Definition nodeliver (k : list (@instr A)) : bool := forallb (fun i => negb (is_deliver i)) k.

(* disposed implies stopped; and while not stopped: nothing was delivered, nothing is about to be *)
Definition quiet (c : @cfg A) : Prop :=
  (is_disposed (c_st c) = true -> is_stopped (c_st c) = true) /\
  (is_stopped (c_st c) = false -> noGot (c_rlog c) /\ nodeliver (c_k c) = true).

Lemma nodeliver_ops (l : list (@op A)) k : nodeliver (map IOp l ++ k) = nodeliver k.
Proof. induction l; cbn; auto. Qed.

Lemma inner_dispose_stopped_s (s : @sstate A) os o : is_stopped (fst (inner_dispose s os o)) = is_stopped s.
Proof. unfold inner_dispose. destruct (negb (is_disposed s) && inner_obs os); cbn; [destruct (mem o (observers s))|]; reflexivity. Qed.
Lemma ado_dispose_stopped_s (s : @sstate A) os o : is_stopped (fst (ado_dispose s os o)) = is_stopped s.
Proof.
  unfold ado_dispose. cbn [sad_disposed sad_cur a_stopped inner_obs handle calls].
  destruct (sad_disposed os); [reflexivity|].
  destruct (sad_cur os) as [[|]|]; cbn [sub_dispose fst]; try reflexivity. apply inner_dispose_stopped_s.
Qed.
Lemma sad_set_stopped_s sub (s : @sstate A) os o : is_stopped (fst (sad_set sub s os o)) = is_stopped s.
Proof.
  unfold sad_set. destruct (sad_disposed os); [|reflexivity].
  destruct sub; cbn [sub_dispose fst]; [apply inner_dispose_stopped_s|reflexivity].
Qed.

Lemma noGot_cons_op p (l : list (@event A)) : noGot l -> noGot (EOp p :: l).
Proof. intros H o n [E|E]; [discriminate|exact (H o n E)]. Qed.
Lemma noGot_cons_raised e (l : list (@event A)) : noGot l -> noGot (ERaised e :: l).
Proof. intros H o n [E|E]; [discriminate|exact (H o n E)]. Qed.

(* a step that changes neither flag, adds only non-delivery instructions and logs no delivery *)
Lemma quiet_same s m k l s' (m' : @omap) k' pre i :
  quiet (Cfg s m (i :: k) l) -> is_deliver i = false ->
  is_stopped s' = is_stopped s -> is_disposed s' = is_disposed s ->
  nodeliver k' = nodeliver k -> noGot pre ->
  quiet (Cfg s' m' k' (pre ++ l)).
Proof.
  intros [Q1 Q2] Hi Hs Hd Hk Hp. unfold quiet in *. cbn [c_st c_k c_rlog] in *. rewrite Hs, Hd. split; [exact Q1|].
  intros Hn. destruct (Q2 Hn) as [G1 G2]. split.
  - intros o n Hin. apply in_app_or in Hin. destruct Hin as [Hin|Hin]; [exact (Hp o n Hin)|exact (G1 o n Hin)].
  - rewrite Hk. cbn [nodeliver forallb] in G2. rewrite Hi in G2. exact G2.
Qed.

Lemma quiet_stopped s m k l : is_stopped s = true -> quiet (@Cfg A s m k l).
Proof. intros H. split; cbn [c_st]; [intros _; exact H|rewrite H; discriminate]. Qed.

Lemma quiet_step c : quiet c -> quiet (step C react c).
Proof.
  destruct c as [s m k l]. intros HQ. pose proof HQ as [Q1 Q2]. cbn [c_st c_k c_rlog] in Q1, Q2.
  unfold step. cbn [c_k c_st c_obs c_rlog]. destruct k as [|i k]; [exact HQ|].
  destruct i as [p|o n|o|o sub].
  - unfold step_op. destruct p as [o|o|v|e| |].
    + (* OSub *)
      destruct (m o).
      { apply (quiet_same s m k l s m k [EOp (OSub o)] _ HQ); auto. apply noGot_op. }
      cbn [c_subscribe async_cls]. unfold async_subscribe.
      destruct (is_disposed s) eqn:D; [apply quiet_stopped; exact (Q1 eq_refl)|].
      destruct (is_stopped s) eqn:St; cbn [negb].
      * destruct (exception s); [|destruct (has_value s)]; apply quiet_stopped; exact St.
      * cbn [app]. apply (quiet_same s m k l _ _ _ [EOp (OSub o)] _ HQ); auto; try (cbn; congruence). apply noGot_op.
    + (* OUnsub *)
      destruct (m o) as [os|]; [|apply (quiet_same s m k l s m k [EOp (OUnsub o)] _ HQ); auto; apply noGot_op].
      destruct (handle os); [|apply (quiet_same s m k l s m k [EOp (OUnsub o)] _ HQ); auto; apply noGot_op].
      pose proof (ado_dispose_stopped_s s os o) as H1. pose proof (ado_dispose_disposed_flag s os o) as H2.
      destruct (ado_dispose s os o) as [s' os']. cbn [fst] in *.
      apply (quiet_same s m k l s' _ k [EOp (OUnsub o)] _ HQ); auto. apply noGot_op.
    + (* ONext *)
      destruct (is_disposed s) eqn:D; [apply quiet_stopped; exact (Q1 eq_refl)|].
      destruct (is_stopped s) eqn:St; [apply quiet_stopped; exact St|].
      cbn [c_next async_cls async_next app].
      apply (quiet_same s m k l _ m k [EOp (ONext v)] _ HQ); auto; try (cbn; congruence). apply noGot_op.
    + (* OErr *)
      destruct (is_disposed s) eqn:D; [apply quiet_stopped; exact (Q1 eq_refl)|].
      destruct (is_stopped s) eqn:St; [apply quiet_stopped; exact St|].
      cbn [c_error async_cls subj_error]. apply quiet_stopped. reflexivity.
    + (* ODone *)
      destruct (is_disposed s) eqn:D; [apply quiet_stopped; exact (Q1 eq_refl)|].
      destruct (is_stopped s) eqn:St; [apply quiet_stopped; exact St|].
      cbn [c_completed async_cls async_completed]. apply quiet_stopped. reflexivity.
    + (* ODispose *)
      apply quiet_stopped. reflexivity.
  - (* IDeliver: impossible while not stopped *)
    assert (Hs : is_stopped s = true).
    { destruct (is_stopped s) eqn:St; [reflexivity|]. destruct (Q2 eq_refl) as [_ G]. cbn in G. discriminate G. }
    destruct (m o) as [os|]; [|apply quiet_stopped; exact Hs].
    destruct (a_stopped os); [apply quiet_stopped; exact Hs|]. destruct n; apply quiet_stopped; exact Hs.
  - (* IAdoFin *)
    destruct (m o) as [os|]; [|apply (quiet_same s m k l s m k [] _ HQ); auto; apply noGot_nil].
    pose proof (ado_dispose_stopped_s s os o) as H1. pose proof (ado_dispose_disposed_flag s os o) as H2.
    destruct (ado_dispose s os o) as [s' os']. cbn [fst] in *.
    apply (quiet_same s m k l s' _ k [] _ HQ); auto. apply noGot_nil.
  - (* ISubRet *)
    destruct (m o) as [os|]; [|apply (quiet_same s m k l s m k [] _ HQ); auto; apply noGot_nil].
    destruct sub as [sb|]; [|apply (quiet_same s m k l s _ k [] _ HQ); auto; apply noGot_nil].
    pose proof (sad_set_stopped_s sb s os o) as H1. pose proof (sad_set_disposed_flag sb s os o) as H2.
    destruct (sad_set sb s os o) as [s' os']. cbn [fst] in *.
    apply (quiet_same s m k l s' _ k [] _ HQ); auto. apply noGot_nil.
Qed.

Lemma quiet_init v0 top : quiet (init_cfg v0 top).
Proof.
  split; cbn; [discriminate|]. intros _. split; [apply noGot_nil|].
  induction top; cbn; auto.
Qed.

(* nothing before termination, on every call tree: while the subject is neither terminated nor
   disposed ([is_stopped] is set by on_error, on_completed and dispose), no observer has received
   anything and no delivery is pending *)
Theorem async_tree_nothing_before_termination v0 top fuel o :
  let c := run C react fuel (init_cfg v0 top) in
  is_stopped (c_st c) = false -> view o (log_of c) = [].
Proof.
  intros c Hs.
  assert (HQ : quiet c) by (apply (run_ind C react quiet); [apply quiet_step|apply quiet_init]).
  destruct HQ as [_ Q2]. destruct (Q2 Hs) as [G _].
  unfold log_of. apply view_noGot. apply noGot_rev. exact G.
Qed.

(* the subject's is_stopped flag is set exactly by a terminating call that took effect: if the
   logged calls contain no on_error / on_completed / dispose, the flag is still false *)
Definition is_end_op (p : @op A) : bool := match p with OErr _ | ODone | ODispose => true | _ => false end.
Definition no_end_event (e : @event A) : bool := match e with EOp p => negb (is_end_op p) | _ => true end.

Definition unstopped (c : @cfg A) : Prop :=
  forallb no_end_event (c_rlog c) = true -> is_stopped (c_st c) = false.

Lemma unstopped_step c : unstopped c -> unstopped (step C react c).
Proof.
  destruct c as [s m k l]. unfold unstopped. cbn [c_st c_rlog]. intros HU.
  unfold step. cbn [c_k c_st c_obs c_rlog]. destruct k as [|i k]; [exact HU|].
  destruct i as [p|o n|o|o sub].
  - unfold step_op. destruct p as [o|o|v|e| |].
    + destruct (m o); cbn [c_st c_rlog forallb no_end_event is_end_op negb andb]; [exact HU|].
      cbn [c_subscribe async_cls]. unfold async_subscribe.
      destruct (is_disposed s); cbn [c_st c_rlog forallb no_end_event is_end_op negb andb]; [exact HU|].
      destruct (negb (is_stopped s)); [cbn; exact HU|].
      destruct (exception s); [|destruct (has_value s)]; cbn; exact HU.
    + destruct (m o) as [os|]; [|cbn; exact HU]. destruct (handle os); [|cbn; exact HU].
      pose proof (ado_dispose_stopped_s s os o) as H1. destruct (ado_dispose s os o) as [s' os']. cbn [fst] in *.
      cbn. rewrite H1. exact HU.
    + destruct (is_disposed s); [cbn; exact HU|]. destruct (is_stopped s) eqn:St; [cbn; rewrite St; exact HU|].
      cbn [c_next async_cls async_next]. cbn. rewrite St. exact HU.
    + destruct (is_disposed s); [cbn; discriminate|]. destruct (is_stopped s); cbn; discriminate.
    + destruct (is_disposed s); [cbn; discriminate|]. destruct (is_stopped s); cbn; discriminate.
    + cbn. discriminate.
  - destruct (m o) as [os|]; [|exact HU]. destruct (a_stopped os); [exact HU|]. destruct n; cbn; exact HU.
  - destruct (m o) as [os|]; [|exact HU].
    pose proof (ado_dispose_stopped_s s os o) as H1. destruct (ado_dispose s os o) as [s' os']. cbn [fst] in *.
    cbn [c_st c_rlog]. rewrite H1. exact HU.
  - destruct (m o) as [os|]; [|exact HU]. destruct sub as [sb|]; [|exact HU].
    pose proof (sad_set_stopped_s sb s os o) as H1. destruct (sad_set sb s os o) as [s' os']. cbn [fst] in *.
    cbn [c_st c_rlog]. rewrite H1. exact HU.
Qed.

(* in terms of the log alone: as long as no on_error / on_completed / dispose call has been MADE
   (by the driver or from inside any callback), nobody has received anything *)
Theorem async_tree_silent_until_an_end_call v0 top fuel o :
  let c := run C react fuel (init_cfg v0 top) in
  forallb no_end_event (log_of c) = true -> view o (log_of c) = [].
Proof.
  intros c H. apply async_tree_nothing_before_termination.
  assert (HU : unstopped c).
  { apply (run_ind C react unstopped); [apply unstopped_step|]. intros _. reflexivity. }
  apply HU. unfold log_of in H. rewrite forallb_forall in *. intros x Hx. apply H. apply in_rev in Hx. exact Hx.
Qed.
End AsyncTree.
