(* C20 on ARBITRARY call trees: who receives which values.  For every reaction function (observers
   that subscribe, unsubscribe, emit, complete or dispose from inside their callbacks), every
   fuel and every observer o:
     entitled o log = the values v of the on_next(v) calls in the log that were made AFTER o's
                      subscribe call and BEFORE any on_error / on_completed / dispose call
                      (i.e. the calls made while o was subscribed to a live subject);
   at every moment  received values ++ values about to be delivered ++ dropped  is a permutation
   of the entitlement, and [dropped] is empty unless o's wrapper has been stopped (it
   unsubscribed, or received a terminal notification).  So nobody ever receives a value that was
   emitted before it subscribed or after the end, or more often than it was emitted; and an
   observer whose wrapper is live has received (or is about to receive) every one of them.
   Order is not claimed: on trees deliveries are depth first (an emission made inside a callback
   reaches later observers BEFORE the emission it interrupted). *)
From RxVerif Require Import Base.Prelude Ops.Machine Subjects.Subject Subjects.Family
  Subjects.SubjectFacts Subjects.FamilyFacts Subjects.AsyncTreeFacts.
Require Import Permutation.

Section SubjectTree.
Context {A : Type} (react : nat -> nat -> list (@op A)).
Notation C := (@subject_cls A).
Notation event := (@event A).

(* ---- the specification, on the chronological log ---- *)
Definition is_sub_of (o : nat) (p : @op A) : bool := match p with OSub o' => Nat.eqb o' o | _ => false end.
Definition is_end_op (p : @op A) : bool := match p with OErr _ | ODone | ODispose => true | _ => false end.

Fixpoint ent_from (o : nat) (seen dead : bool) (log : list event) : list A :=
  match log with
  | [] => []
  | EOp p :: t =>
      (match p with ONext v => if seen && negb dead then [v] else [] | _ => [] end) ++
      ent_from o (seen || is_sub_of o p) (dead || is_end_op p) t
  | _ :: t => ent_from o seen dead t
  end.
Definition entitled (o : nat) (log : list event) : list A := ent_from o false false log.

Definition vals (l : list (ev A)) : list A := flat_map (fun n => match n with Next v => [v] | _ => [] end) l.

(* ---- the same on the machine's newest-first log ---- *)
Definition end_ev (e : event) : bool := match e with EOp p => is_end_op p | _ => false end.
Definition sub_ev (o : nat) (e : event) : bool := match e with EOp p => is_sub_of o p | _ => false end.
Definition ended (l : list event) : bool := existsb end_ev l.
Definition seen (o : nat) (l : list event) : bool := existsb (sub_ev o) l.

Definition entc (o : nat) (e : event) (t : list event) : list A :=
  match e with EOp (ONext v) => if seen o t && negb (ended t) then [v] else [] | _ => [] end.
Fixpoint entl (o : nat) (l : list event) : list A :=
  match l with [] => [] | e :: t => entl o t ++ entc o e t end.

Definition nxc (o : nat) (e : event) : list A :=
  match e with EGot o' (Next v) => if Nat.eqb o' o then [v] else [] | _ => [] end.
Fixpoint nx (o : nat) (l : list event) : list A :=
  match l with [] => [] | e :: t => nx o t ++ nxc o e end.

Definition pdc (o : nat) (i : @instr A) : list A :=
  match i with IDeliver o' (Next v) => if Nat.eqb o' o then [v] else [] | _ => [] end.
Definition pendn (o : nat) (k : list (@instr A)) : list A := flat_map (pdc o) k.

(* ---- conversions ---- *)
Lemma existsb_rev {X} (f : X -> bool) l : existsb f (rev l) = existsb f l.
Proof.
  induction l as [|x l IH]; [reflexivity|]. cbn [rev existsb]. rewrite existsb_app, IH. cbn. rewrite orb_false_r. apply orb_comm.
Qed.

Lemma ent_from_snoc o : forall a sn dd e,
  ent_from o sn dd (a ++ [e]) =
  ent_from o sn dd a ++
  match e with
  | EOp (ONext v) => if (sn || existsb (sub_ev o) a) && negb (dd || existsb end_ev a) then [v] else []
  | _ => []
  end.
Proof.
  induction a as [|x a IH]; intros sn dd e.
  - cbn [app ent_from existsb]. rewrite !orb_false_r. destruct e as [p| |]; try reflexivity.
    destruct p; cbn; rewrite ?app_nil_r; reflexivity.
  - cbn [app ent_from]. destruct x as [p|o' n|x]; cbn [existsb sub_ev end_ev].
    + rewrite IH, app_assoc. f_equal. destruct e as [q| |]; try reflexivity. destruct q; try reflexivity.
      now rewrite !orb_assoc.
    + rewrite IH. reflexivity.
    + rewrite IH. reflexivity.
Qed.

Lemma entl_entitled o l : entl o l = entitled o (rev l).
Proof.
  unfold entitled. induction l as [|e t IH]; [reflexivity|].
  cbn [entl rev]. rewrite ent_from_snoc, <- IH. f_equal. unfold entc, seen, ended.
  rewrite !existsb_rev. destruct e as [p| |]; try reflexivity.
Qed.

Lemma vals_app l1 l2 : vals (l1 ++ l2) = vals l1 ++ vals l2.
Proof. unfold vals. apply flat_map_app. Qed.

Lemma nx_view o l : nx o l = vals (view o (rev l)).
Proof.
  induction l as [|e t IH]; [reflexivity|]. cbn [nx rev]. rewrite view_app, vals_app, <- IH. f_equal.
  destruct e as [p|o' n|x]; cbn; try reflexivity. destruct (Nat.eqb o' o); destruct n; reflexivity.
Qed.

Lemma pendn_app o k1 k2 : pendn o (k1 ++ k2) = pendn o k1 ++ pendn o k2.
Proof. unfold pendn. apply flat_map_app. Qed.
Lemma pendn_ops o (l : list (@op A)) : pendn o (map IOp l) = [].
Proof. induction l; cbn; auto. Qed.

Lemma seen_false_entl o l : seen o l = false -> entl o l = [].
Proof.
  induction l as [|e t IH]; intros H; [reflexivity|]. cbn [seen existsb] in H. apply orb_false_iff in H.
  destruct H as [_ H]. cbn [entl]. rewrite (IH H). unfold entc. fold (seen o t) in H.
  destruct e as [p| |]; try reflexivity. destruct p; try reflexivity. now rewrite H.
Qed.

(* ---- invariant 1: the subject is stopped iff an on_error / on_completed / dispose call was made ---- *)
Definition StopInv (c : @cfg A) : Prop :=
  (is_disposed (c_st c) = true -> is_stopped (c_st c) = true) /\ is_stopped (c_st c) = ended (c_rlog c).

Lemma stop_same s m k l s' (m' : @omap) k' pre :
  StopInv (Cfg s m k l) -> is_stopped s' = is_stopped s -> is_disposed s' = is_disposed s ->
  existsb end_ev pre = false -> StopInv (Cfg s' m' k' (pre ++ l)).
Proof.
  intros [Q1 Q2] Hs Hd Hp. unfold StopInv in *. cbn [c_st c_rlog] in *. rewrite Hs, Hd. split; [exact Q1|].
  unfold ended in *. now rewrite existsb_app, Hp.
Qed.

Lemma stop_end (l : list event) (s' : @sstate A) (m' : @omap) (k' : list (@instr A)) pre :
  is_stopped s' = true -> existsb end_ev pre = true -> StopInv (Cfg s' m' k' (pre ++ l)).
Proof.
  intros Hs Hp. split; cbn [c_st c_rlog]; [intros _; exact Hs|]. unfold ended. now rewrite existsb_app, Hp, Hs.
Qed.

Lemma stop_step c : StopInv c -> StopInv (step C react c).
Proof.
  destruct c as [s m k l]. intros HQ. pose proof HQ as [Q1 Q2]. cbn [c_st c_rlog] in Q1, Q2.
  unfold step. cbn [c_k c_st c_obs c_rlog]. destruct k as [|i k]; [exact HQ|].
  destruct i as [p|o n|o|o sub].
  - unfold step_op. destruct p as [o|o|v|e| |].
    + destruct (m o); [apply (stop_same s m _ l s m k [EOp (OSub o)] HQ); reflexivity|].
      cbn [c_subscribe subject_cls]. unfold subj_subscribe.
      destruct (is_disposed s) eqn:D.
      { apply (stop_same s m _ l s _ _ [EGot o (Err disposed_exn); EOp (OSub o)] HQ); reflexivity. }
      destruct (negb (is_stopped s)).
      { apply (stop_same s m _ l _ _ _ [EOp (OSub o)] HQ); reflexivity. }
      destruct (exception s); apply (stop_same s m _ l s _ _ [EOp (OSub o)] HQ); reflexivity.
    + destruct (m o) as [os|]; [|apply (stop_same s m _ l s m k [EOp (OUnsub o)] HQ); reflexivity].
      destruct (handle os); [|apply (stop_same s m _ l s m k [EOp (OUnsub o)] HQ); reflexivity].
      pose proof (ado_dispose_stopped_s s os o) as H1. pose proof (ado_dispose_disposed_flag s os o) as H2.
      destruct (ado_dispose s os o) as [s' os']. cbn [fst] in *.
      apply (stop_same s m _ l s' _ k [EOp (OUnsub o)] HQ); auto.
    + destruct (is_disposed s) eqn:D.
      { apply (stop_same s m _ l s m k [ERaised disposed_exn; EOp (ONext v)] HQ); reflexivity. }
      destruct (is_stopped s) eqn:St; [apply (stop_same s m _ l s m k [EOp (ONext v)] HQ); reflexivity|].
      cbn [c_next subject_cls subj_next]. apply (stop_same s m _ l s m _ [EOp (ONext v)] HQ); reflexivity.
    + destruct (is_disposed s) eqn:D.
      { apply (stop_end l s m k [ERaised disposed_exn; EOp (OErr e)]); [exact (Q1 eq_refl)|reflexivity]. }
      destruct (is_stopped s) eqn:St; [apply (stop_end l s m k [EOp (OErr e)]); [exact St|reflexivity]|].
      cbn [c_error subject_cls subj_error]. apply (stop_end l _ m _ [EOp (OErr e)]); reflexivity.
    + destruct (is_disposed s) eqn:D.
      { apply (stop_end l s m k [ERaised disposed_exn; EOp ODone]); [exact (Q1 eq_refl)|reflexivity]. }
      destruct (is_stopped s) eqn:St; [apply (stop_end l s m k [EOp ODone]); [exact St|reflexivity]|].
      cbn [c_completed subject_cls subj_completed]. apply (stop_end l _ m _ [EOp ODone]); reflexivity.
    + apply (stop_end l _ m k [EOp ODispose]); reflexivity.
  - destruct (m o) as [os|]; [|exact HQ]. destruct (a_stopped os); [exact HQ|].
    destruct n; [apply (stop_same s m _ l s _ _ [EGot o (Next a)] HQ)|apply (stop_same s m _ l s _ _ [EGot o (Err e)] HQ)
                |apply (stop_same s m _ l s _ _ [EGot o Done] HQ)]; reflexivity.
  - destruct (m o) as [os|]; [|exact HQ].
    pose proof (ado_dispose_stopped_s s os o) as H1. pose proof (ado_dispose_disposed_flag s os o) as H2.
    destruct (ado_dispose s os o) as [s' os']. cbn [fst] in *.
    apply (stop_same s m _ l s' _ k [] HQ); auto.
  - destruct (m o) as [os|]; [|exact HQ]. destruct sub as [sb|]; [|apply (stop_same s m _ l s _ k [] HQ); reflexivity].
    pose proof (sad_set_stopped_s sb s os o) as H1. pose proof (sad_set_disposed_flag sb s os o) as H2.
    destruct (sad_set sb s os o) as [s' os']. cbn [fst] in *.
    apply (stop_same s m _ l s' _ k [] HQ); auto.
Qed.

(* ---- invariant 2: an observer id is in the table iff its subscribe call is in the log ---- *)
Definition DomInv (c : @cfg A) : Prop := forall o, c_obs c o = None <-> seen o (c_rlog c) = false.

Lemma upd_none_iff (m : @omap) o x o' : m o <> None -> (upd m o x o' = None <-> m o' = None).
Proof.
  intros H. unfold upd. destruct (Nat.eqb o' o) eqn:E; [|tauto]. apply Nat.eqb_eq in E. subst o'.
  split; [discriminate|intros G; contradiction].
Qed.

Lemma dom_same s m k l s' (m' : @omap) k' pre :
  DomInv (Cfg s m k l) -> (forall o, m' o = None <-> m o = None) -> (forall o, existsb (sub_ev o) pre = false) ->
  DomInv (Cfg s' m' k' (pre ++ l)).
Proof.
  intros HD Hm Hp o. cbn [c_obs c_rlog]. unfold seen. rewrite existsb_app, Hp, Hm. exact (HD o).
Qed.

Lemma dom_new s m k l s' k' pre o x :
  DomInv (Cfg s m k l) -> m o = None -> (forall o', existsb (sub_ev o') pre = Nat.eqb o o') ->
  DomInv (Cfg s' (upd m o x) k' (pre ++ l)).
Proof.
  intros HD Hm Hp o'. cbn [c_obs c_rlog]. unfold seen. rewrite existsb_app, Hp. unfold upd.
  rewrite (Nat.eqb_sym o' o). destruct (Nat.eqb o o') eqn:E; cbn [orb]; [split; discriminate|exact (HD o')].
Qed.

Lemma dom_step c : DomInv c -> DomInv (step C react c).
Proof.
  destruct c as [s m k l]. intros HD.
  unfold step. cbn [c_k c_st c_obs c_rlog]. destruct k as [|i k]; [exact HD|].
  assert (Hupd : forall o os x s' k' pre, m o = Some os -> (forall o', existsb (sub_ev o') pre = false) ->
                 DomInv (Cfg s' (upd m o x) k' (pre ++ l))).
  { intros o os x s' k' pre Hm Hp. apply (dom_same s m (i :: k) l); [exact HD| |exact Hp].
    intros o'. apply upd_none_iff. congruence. }
  assert (Hid : forall s' k' pre, (forall o', existsb (sub_ev o') pre = false) -> DomInv (Cfg s' m k' (pre ++ l))).
  { intros s' k' pre Hp. apply (dom_same s m (i :: k) l); [exact HD|tauto|exact Hp]. }
  destruct i as [p|o n|o|o sub].
  - unfold step_op. destruct p as [o|o|v|e| |].
    + destruct (m o) as [os|] eqn:Em.
      { intros o'. cbn [c_obs c_rlog seen existsb sub_ev is_sub_of]. destruct (Nat.eqb o o') eqn:E; cbn [orb]; [|exact (HD o')].
        apply Nat.eqb_eq in E. subst o'. rewrite Em. split; discriminate. }
      destruct (c_subscribe C s o) as [[[s' is] sub]|].
      * apply (dom_new s m (IOp (OSub o) :: k) l _ _ [EOp (OSub o)]); [exact HD|exact Em|].
        intros o'. cbn. now rewrite orb_false_r.
      * apply (dom_new s m (IOp (OSub o) :: k) l _ _ [EGot o (Err disposed_exn); EOp (OSub o)]); [exact HD|exact Em|].
        intros o'. cbn. now rewrite orb_false_r.
    + destruct (m o) as [os|] eqn:Em; [|apply (Hid _ _ [EOp (OUnsub o)]); reflexivity].
      destruct (handle os); [|apply (Hid _ _ [EOp (OUnsub o)]); reflexivity].
      destruct (ado_dispose s os o) as [s' os']. apply (Hupd o os os' _ _ [EOp (OUnsub o)] Em); reflexivity.
    + destruct (is_disposed s); [apply (Hid _ _ [ERaised disposed_exn; EOp (ONext v)]); reflexivity|].
      destruct (is_stopped s); [apply (Hid _ _ [EOp (ONext v)]); reflexivity|].
      destruct (c_next C s v) as [s' is]. apply (Hid _ _ [EOp (ONext v)]); reflexivity.
    + destruct (is_disposed s); [apply (Hid _ _ [ERaised disposed_exn; EOp (OErr e)]); reflexivity|].
      destruct (is_stopped s); [apply (Hid _ _ [EOp (OErr e)]); reflexivity|].
      destruct (c_error C (set_stopped true s) e) as [s' is]. apply (Hid _ _ [EOp (OErr e)]); reflexivity.
    + destruct (is_disposed s); [apply (Hid _ _ [ERaised disposed_exn; EOp ODone]); reflexivity|].
      destruct (is_stopped s); [apply (Hid _ _ [EOp ODone]); reflexivity|].
      destruct (c_completed C (set_stopped true s)) as [s' is]. apply (Hid _ _ [EOp ODone]); reflexivity.
    + apply (Hid _ _ [EOp ODispose]); reflexivity.
  - destruct (m o) as [os|] eqn:Em; [|apply (Hid _ _ []); reflexivity].
    destruct (a_stopped os); [apply (Hid _ _ []); reflexivity|].
    destruct n; [apply (Hupd o os _ _ _ [EGot o (Next a)] Em)|apply (Hupd o os _ _ _ [EGot o (Err e)] Em)
                |apply (Hupd o os _ _ _ [EGot o Done] Em)]; reflexivity.
  - destruct (m o) as [os|] eqn:Em; [|apply (Hid _ _ []); reflexivity].
    destruct (ado_dispose s os o) as [s' os']. apply (Hupd o os os' _ _ [] Em); reflexivity.
  - destruct (m o) as [os|] eqn:Em; [|apply (Hid _ _ []); reflexivity].
    destruct sub as [sb|]; [|apply (Hupd o os _ _ _ [] Em); reflexivity].
    destruct (sad_set sb s os o) as [s' os']. apply (Hupd o os _ _ _ [] Em); reflexivity.
Qed.

(* ---- invariant 3: received ++ pending ++ dropped is a permutation of the entitlement ---- *)
Definition PermAt (m : @omap) (k : list (@instr A)) (l : list event) (o : nat) : Prop :=
  exists dr, Permutation (nx o l ++ pendn o k ++ dr) (entl o l) /\
             (forall os, m o = Some os -> a_stopped os = false -> dr = []).
Definition PermInv (c : @cfg A) : Prop := forall o, PermAt (c_obs c) (c_k c) (c_rlog c) o.

Lemma none_nil s m k l o (a b dr : list A) :
  DomInv (Cfg s m k l) -> m o = None -> Permutation (a ++ b ++ dr) (entl o l) -> dr = [].
Proof.
  intros HD Hm HP. rewrite (seen_false_entl o l) in HP by (apply (HD o); exact Hm).
  apply Permutation_sym, Permutation_nil in HP. apply app_eq_nil in HP. destruct HP as [_ HP].
  apply app_eq_nil in HP. tauto.
Qed.

Lemma dr_close s m k l (m' : @omap) o (a b dr : list A) :
  DomInv (Cfg s m k l) -> mono m m' -> Permutation (a ++ b ++ dr) (entl o l) ->
  (forall os, m o = Some os -> a_stopped os = false -> dr = []) ->
  forall os', m' o = Some os' -> a_stopped os' = false -> dr = [].
Proof.
  intros HD Hmono HP Hd os' Hm' Hs'. destruct (m o) as [os|] eqn:Em; [|exact (none_nil s m k l o a b dr HD Em HP)].
  destruct (Hmono o os Em) as [os'' [E1 E2]]. rewrite Hm' in E1. injection E1 as <-.
  apply (Hd os eq_refl). destruct (a_stopped os); [rewrite E2 in Hs' by reflexivity; discriminate|reflexivity].
Qed.

(* the frame: nothing changes for observer o *)
Lemma perm_keep s m i k l (m' : @omap) k' l' o :
  DomInv (Cfg s m (i :: k) l) -> mono m m' -> PermAt m (i :: k) l o ->
  nx o l' = nx o l -> entl o l' = entl o l -> pendn o k' = pendn o (i :: k) ->
  PermAt m' k' l' o.
Proof.
  intros HD Hmono [dr [HP Hd]] E1 E2 E3. exists dr. rewrite E1, E2, E3. split; [exact HP|].
  exact (dr_close s m (i :: k) l m' o _ _ dr HD Hmono HP Hd).
Qed.

(* a pending delivery is dropped: allowed for every observer but a live one it belongs to *)
Lemma perm_drop s m i k l o :
  DomInv (Cfg s m (i :: k) l) -> PermAt m (i :: k) l o ->
  (forall os, m o = Some os -> a_stopped os = false -> pdc o i = []) ->
  PermAt m k l o.
Proof.
  intros HD [dr [HP Hd]] Hi. exists (pdc o i ++ dr). split.
  - cbn [pendn flat_map] in HP. fold (pendn o k) in HP.
    eapply Permutation_trans; [|exact HP]. apply Permutation_app_head.
    rewrite <- app_assoc. rewrite !app_assoc. apply Permutation_app_tail. apply Permutation_app_comm.
  - intros os Hm Hs. rewrite (Hi os Hm Hs), (Hd os Hm Hs). reflexivity.
Qed.

Lemma pendn_snapshot_in o v : forall L, NoDup L -> In o L ->
  pendn o (map (fun o' => IDeliver o' (Next v)) L) = [v].
Proof.
  induction L as [|x L IH]; intros Hn Hi; [destruct Hi|]. inversion Hn as [|? ? Hx Hn']; subst.
  cbn [map pendn flat_map pdc]. fold (pendn o (map (fun o' => IDeliver o' (Next v)) L)).
  destruct Hi as [->|Hi].
  - rewrite Nat.eqb_refl. cbn [app]. f_equal.
    clear IH Hn. induction L as [|y L IH2]; [reflexivity|]. cbn [map pendn flat_map pdc].
    destruct (Nat.eqb y o) eqn:E; [apply Nat.eqb_eq in E; subst; exfalso; apply Hx; left; reflexivity|].
    cbn [app]. apply IH2; [intros H; apply Hx; right; exact H|inversion Hn'; assumption].
  - destruct (Nat.eqb x o) eqn:E; [apply Nat.eqb_eq in E; subst; contradiction|]. cbn [app]. apply IH; assumption.
Qed.
Lemma pendn_snapshot_out o v : forall L, ~ In o L -> pendn o (map (fun o' => IDeliver o' (Next v)) L) = [].
Proof.
  induction L as [|x L IH]; intros Hi; [reflexivity|]. cbn [map pendn flat_map pdc].
  destruct (Nat.eqb x o) eqn:E; [apply Nat.eqb_eq in E; subst; exfalso; apply Hi; left; reflexivity|].
  cbn [app]. apply IH. intros H. apply Hi. right. exact H.
Qed.
Lemma pendn_terminals o (n : ev A) L : is_terminal n = true -> pendn o (map (fun o' => IDeliver o' n) L) = [].
Proof. intros H. induction L as [|x L IH]; [reflexivity|]. cbn [map pendn flat_map pdc]. destruct n; try discriminate H; exact IH. Qed.

Lemma perm_step c : Reg c -> StopInv c -> DomInv c -> PermInv c -> PermInv (step C react c).
Proof.
  destruct c as [s m k l]. intros HR [HS1 HS2] HD HP. cbn [c_st c_rlog] in HS1, HS2.
  pose proof (step_shape_holds C react (Cfg s m k l)) as [Hmono _].
  unfold step in Hmono |- *. cbn [c_k c_st c_obs c_rlog] in Hmono |- *. destruct k as [|i k]; [exact HP|].
  intros o. pose proof (HP o) as HPo. cbn [c_obs c_k c_rlog] in HPo.
  assert (Keep : forall s' (m' : @omap) k' l', mono m m' ->
            nx o l' = nx o l -> entl o l' = entl o l -> pendn o k' = pendn o (i :: k) ->
            PermAt (c_obs (Cfg s' m' k' l')) (c_k (Cfg s' m' k' l')) (c_rlog (Cfg s' m' k' l')) o).
  { intros s' m' k' l' Hm E1 E2 E3. cbn [c_obs c_k c_rlog]. exact (perm_keep s m i k l m' k' l' o HD Hm HPo E1 E2 E3). }
  destruct i as [p|o0 n|o0|o0 sub].
  - unfold step_op in Hmono |- *. destruct p as [o0|o0|v|e| |].
    + (* OSub *)
      destruct (m o0) as [os|] eqn:Em.
      { apply Keep; [exact Hmono| | |]; cbn; rewrite ?app_nil_r; reflexivity. }
      cbn [c_subscribe subject_cls] in Hmono |- *. unfold subj_subscribe in Hmono |- *.
      destruct (is_disposed s).
      { apply Keep; [exact Hmono| | |]; cbn [nx entl nxc entc pendn flat_map pdc app];
          rewrite ?app_nil_r, ?pendn_app, ?pendn_ops; reflexivity. }
      destruct (negb (is_stopped s)).
      { apply Keep; [exact Hmono| | |]; cbn; rewrite ?app_nil_r; reflexivity. }
      destruct (exception s); apply Keep; try exact Hmono; cbn; rewrite ?app_nil_r; reflexivity.
    + (* OUnsub *)
      destruct (m o0) as [os|] eqn:Em; [|apply Keep; [exact Hmono| | |]; cbn; rewrite ?app_nil_r; reflexivity].
      destruct (handle os); [|apply Keep; [exact Hmono| | |]; cbn; rewrite ?app_nil_r; reflexivity].
      destruct (ado_dispose s os o0) as [s' os']. apply Keep; [exact Hmono| | |]; cbn; rewrite ?app_nil_r; reflexivity.
    + (* ONext *)
      destruct (is_disposed s) eqn:D.
      { apply Keep; [exact Hmono| | |]; cbn [nx entl nxc entc pendn flat_map pdc app]; rewrite ?app_nil_r; try reflexivity.
        rewrite <- HS2, (HS1 eq_refl), andb_false_r. now rewrite app_nil_r. }
      destruct (is_stopped s) eqn:St.
      { apply Keep; [exact Hmono| | |]; cbn [nx entl nxc entc pendn flat_map pdc app]; rewrite ?app_nil_r; try reflexivity.
        rewrite <- HS2, andb_false_r. now rewrite app_nil_r. }
      cbn [c_next subject_cls subj_next] in Hmono |- *. cbn [c_obs c_k c_rlog].
      pose proof (reg_nodup _ HR) as Hnd. cbn [c_st] in Hnd.
      destruct HPo as [dr [HPm Hd]]. cbn [pendn flat_map pdc app] in HPm. fold (pendn o k) in HPm.
      unfold PermAt. cbn [nx nxc entl entc]. rewrite app_nil_r, pendn_app, <- HS2. cbn [negb]. rewrite andb_true_r.
      destruct (seen o l) eqn:Sn.
      * destruct (m o) as [os|] eqn:Em; [|apply (HD o) in Em; cbn [c_rlog] in Em; congruence].
        destruct (in_dec Nat.eq_dec o (observers s)) as [Hi|Hi].
        -- rewrite (pendn_snapshot_in o v _ Hnd Hi). exists dr. split.
           ++ cbn [app]. eapply Permutation_trans; [apply Permutation_sym, Permutation_middle|].
              eapply Permutation_trans; [|apply Permutation_cons_append]. apply perm_skip. exact HPm.
           ++ exact Hd.
        -- rewrite (pendn_snapshot_out o v _ Hi). cbn [app]. exists (v :: dr). split.
           ++ rewrite app_assoc. eapply Permutation_trans; [apply Permutation_sym, Permutation_middle|].
              eapply Permutation_trans; [|apply Permutation_cons_append]. apply perm_skip.
              rewrite <- app_assoc. exact HPm.
           ++ intros os' Hos' Hst. injection Hos' as <-. exfalso. apply Hi.
              apply (reg_in _ HR o os Em Hst). split; cbn [c_st]; assumption.
      * assert (Em : m o = None) by (apply (HD o); exact Sn).
        assert (Hi : ~ In o (observers s)) by (intros Hi; exact (reg_dom _ HR o Hi Em)).
        rewrite (pendn_snapshot_out o v _ Hi). cbn [app]. rewrite app_nil_r. exists dr. split; [exact HPm|exact Hd].
    + (* OErr *)
      destruct (is_disposed s); [apply Keep; [exact Hmono| | |]; cbn; rewrite ?app_nil_r; reflexivity|].
      destruct (is_stopped s); [apply Keep; [exact Hmono| | |]; cbn; rewrite ?app_nil_r; reflexivity|].
      cbn [c_error subject_cls subj_error] in Hmono |- *.
      apply Keep; [exact Hmono| | |]; cbn [nx entl nxc entc app]; rewrite ?app_nil_r; try reflexivity.
      rewrite pendn_app, (pendn_terminals o (Err e)) by reflexivity. reflexivity.
    + (* ODone *)
      destruct (is_disposed s); [apply Keep; [exact Hmono| | |]; cbn; rewrite ?app_nil_r; reflexivity|].
      destruct (is_stopped s); [apply Keep; [exact Hmono| | |]; cbn; rewrite ?app_nil_r; reflexivity|].
      cbn [c_completed subject_cls subj_completed] in Hmono |- *.
      apply Keep; [exact Hmono| | |]; cbn [nx entl nxc entc app]; rewrite ?app_nil_r; try reflexivity.
      rewrite pendn_app, (pendn_terminals o Done) by reflexivity. reflexivity.
    + (* ODispose *)
      apply Keep; [exact Hmono| | |]; cbn; rewrite ?app_nil_r; reflexivity.
  - (* IDeliver *)
    destruct (m o0) as [os0|] eqn:Em0.
    2: { cbn [c_obs c_k c_rlog]. apply (perm_drop s m (IDeliver o0 n) k l o HD HPo).
         intros os Hm _. cbn [pdc]. destruct n; try reflexivity.
         destruct (Nat.eqb o0 o) eqn:E; [apply Nat.eqb_eq in E; subst; congruence|reflexivity]. }
    destruct (a_stopped os0) eqn:St0.
    { cbn [c_obs c_k c_rlog]. apply (perm_drop s m (IDeliver o0 n) k l o HD HPo).
      intros os Hm Hs. cbn [pdc]. destruct n; try reflexivity.
      destruct (Nat.eqb o0 o) eqn:E; [apply Nat.eqb_eq in E; subst; congruence|reflexivity]. }
    destruct n as [v|e|].
    + destruct (Nat.eqb o0 o) eqn:E.
      * apply Nat.eqb_eq in E. subst o0. cbn [c_obs c_k c_rlog]. destruct HPo as [dr [HPm Hd]].
        cbn [pendn flat_map pdc] in HPm. rewrite Nat.eqb_refl in HPm. fold (pendn o k) in HPm.
        exists dr. cbn [nx nxc entl entc]. rewrite Nat.eqb_refl, app_nil_r, pendn_app, pendn_ops. cbn [app]. split.
        -- rewrite <- app_assoc. exact HPm.
        -- exact (dr_close s m (IDeliver o (Next v) :: k) l _ o _ _ dr HD Hmono HPm Hd).
      * apply Keep; [exact Hmono| | |]; cbn [nx entl nxc entc pendn flat_map pdc app];
          rewrite ?E, ?app_nil_r, ?pendn_app, ?pendn_ops; reflexivity.
    + apply Keep; [exact Hmono| | |]; cbn [nx entl nxc entc pendn flat_map pdc app];
        rewrite ?app_nil_r, ?pendn_app, ?pendn_ops; reflexivity.
    + apply Keep; [exact Hmono| | |]; cbn [nx entl nxc entc pendn flat_map pdc app];
        rewrite ?app_nil_r, ?pendn_app, ?pendn_ops; reflexivity.
  - (* IAdoFin *)
    destruct (m o0) as [os|] eqn:Em; [|apply Keep; [exact Hmono| | |]; reflexivity].
    destruct (ado_dispose s os o0) as [s' os']. apply Keep; [exact Hmono| | |]; reflexivity.
  - (* ISubRet *)
    destruct (m o0) as [os|] eqn:Em; [|apply Keep; [exact Hmono| | |]; reflexivity].
    destruct sub as [sb|]; [|apply Keep; [exact Hmono| | |]; reflexivity].
    destruct (sad_set sb s os o0) as [s' os']. apply Keep; [exact Hmono| | |]; reflexivity.
Qed.

(* ---- all together, on every reachable configuration ---- *)
Record TreeInv (c : @cfg A) : Prop := {
  ti_reg : Reg c; ti_stop : StopInv c; ti_dom : DomInv c; ti_perm : PermInv c }.

Lemma tree_inv_step (pyn : A) c : TreeInv c -> TreeInv (step C react c).
Proof.
  intros [H1 H2 H3 H4]. constructor.
  - exact (Reg_step pyn KSubject react c H1).
  - apply stop_step, H2.
  - apply dom_step, H3.
  - apply perm_step; assumption.
Qed.

Lemma tree_inv_init v0 top : TreeInv (init_cfg v0 top).
Proof.
  constructor.
  - apply Reg_init.
  - split; cbn; [discriminate|reflexivity].
  - intros o. cbn. tauto.
  - intros o. exists []. cbn [init_cfg c_obs c_k c_rlog nx entl]. rewrite pendn_ops. split; [constructor|reflexivity].
Qed.

Theorem subject_tree_values v0 top fuel o :
  let c := run C react fuel (init_cfg v0 top) in
  exists dropped,
    Permutation (vals (view o (log_of c)) ++ pendn o (c_k c) ++ dropped) (entitled o (log_of c)) /\
    (forall os, c_obs c o = Some os -> a_stopped os = false -> dropped = []).
Proof.
  intros c.
  assert (HI : TreeInv c) by (apply (run_ind C react TreeInv); [apply (tree_inv_step v0)|apply tree_inv_init]).
  destruct (ti_perm _ HI o) as [dr [HP Hd]]. exists dr. unfold log_of.
  rewrite <- nx_view, <- entl_entitled. split; assumption.
Qed.

(* when the run has finished an observer whose wrapper is still live has received exactly (as a
   multiset) the values emitted while it was subscribed *)
Corollary subject_tree_finished v0 top fuel o os :
  let c := run C react fuel (init_cfg v0 top) in
  c_k c = [] -> c_obs c o = Some os -> a_stopped os = false ->
  Permutation (vals (view o (log_of c))) (entitled o (log_of c)).
Proof.
  intros c Hk Hm Hs. destruct (subject_tree_values v0 top fuel o) as [dr [HP Hd]]. fold c in HP, Hd.
  rewrite (Hd os Hm Hs), Hk in HP. cbn [pendn flat_map] in HP. now rewrite !app_nil_r in HP.
Qed.

(* nobody ever receives a value it is not entitled to *)
Corollary subject_tree_sound v0 top fuel o v :
  let c := run C react fuel (init_cfg v0 top) in
  In v (vals (view o (log_of c))) -> In v (entitled o (log_of c)).
Proof.
  intros c Hin. destruct (subject_tree_values v0 top fuel o) as [dr [HP _]]. fold c in HP.
  apply (Permutation_in v HP). apply in_or_app. left. exact Hin.
Qed.

(* what [entitled] means, declaratively: v was the argument of an on_next call made after o's
   subscribe call, and no on_error / on_completed / dispose call was made before it *)
Lemma ent_from_in o v : forall log sn dd, In v (ent_from o sn dd log) ->
  dd = false /\
  ((sn = true /\ exists p2 p3, log = p2 ++ EOp (ONext v) :: p3 /\ existsb end_ev p2 = false) \/
   (exists p1 p2 p3, log = p1 ++ EOp (OSub o) :: p2 ++ EOp (ONext v) :: p3 /\
                     existsb end_ev (p1 ++ EOp (OSub o) :: p2) = false)).
Proof.
  induction log as [|e t IH]; intros sn dd Hin; [destruct Hin|].
  cbn [ent_from] in Hin. destruct e as [p|o' n|x].
  - apply in_app_or in Hin. destruct Hin as [Hin|Hin].
    + destruct p as [o'|o'|w|x| |]; try (destruct Hin; fail).
      destruct sn, dd; cbn in Hin; try (destruct Hin; fail). destruct Hin as [->|[]].
      split; [reflexivity|]. left. split; [reflexivity|]. exists [], t. split; reflexivity.
    + destruct (IH _ _ Hin) as [Hd Hc]. apply orb_false_iff in Hd. destruct Hd as [-> Hep]. split; [reflexivity|].
      destruct Hc as [[Hs (p2 & p3 & -> & He)]|(p1 & p2 & p3 & -> & He)].
      * apply orb_true_iff in Hs. destruct Hs as [->|Hs].
        -- left. split; [reflexivity|]. exists (EOp p :: p2), p3. split; [reflexivity|]. cbn. now rewrite Hep, He.
        -- destruct p as [o'|o'|w|x| |]; try discriminate Hs. cbn in Hs. apply Nat.eqb_eq in Hs. subst o'.
           right. exists [], p2, p3. split; [reflexivity|]. cbn. exact He.
      * right. exists (EOp p :: p1), p2, p3. split; [reflexivity|]. cbn [app existsb end_ev]. now rewrite Hep, He.
  - destruct (IH _ _ Hin) as [Hd Hc]. split; [exact Hd|].
    destruct Hc as [[Hs (p2 & p3 & -> & He)]|(p1 & p2 & p3 & -> & He)].
    + left. split; [exact Hs|]. exists (EGot o' n :: p2), p3. split; [reflexivity|]. exact He.
    + right. exists (EGot o' n :: p1), p2, p3. split; [reflexivity|]. exact He.
  - destruct (IH _ _ Hin) as [Hd Hc]. split; [exact Hd|].
    destruct Hc as [[Hs (p2 & p3 & -> & He)]|(p1 & p2 & p3 & -> & He)].
    + left. split; [exact Hs|]. exists (ERaised x :: p2), p3. split; [reflexivity|]. exact He.
    + right. exists (ERaised x :: p1), p2, p3. split; [reflexivity|]. exact He.
Qed.

Lemma entitled_in o v log : In v (entitled o log) ->
  exists p1 p2 p3, log = p1 ++ EOp (OSub o) :: p2 ++ EOp (ONext v) :: p3 /\
                   existsb end_ev (p1 ++ EOp (OSub o) :: p2) = false.
Proof.
  intros H. destruct (ent_from_in o v log false false H) as [_ [[Hs _]|Hc]]; [discriminate Hs|exact Hc].
Qed.

(* the snapshot rule on trees, soundness: a value delivered to o was emitted by an on_next call
   made AFTER o's subscribe call (never to an observer that subscribed later, not even from inside
   a callback of the same emission) and before any terminating call *)
Theorem subject_tree_delivery_was_subscribed_before_the_call v0 top fuel o v :
  let c := run C react fuel (init_cfg v0 top) in
  In (Next v) (view o (log_of c)) ->
  exists p1 p2 p3, log_of c = p1 ++ EOp (OSub o) :: p2 ++ EOp (ONext v) :: p3 /\
                   existsb end_ev (p1 ++ EOp (OSub o) :: p2) = false.
Proof.
  intros c Hin. apply entitled_in. apply (subject_tree_sound v0 top fuel o v).
  fold c. unfold vals. apply in_flat_map. exists (Next v). split; [exact Hin|left; reflexivity].
Qed.
End SubjectTree.
