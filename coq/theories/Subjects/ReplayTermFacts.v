(* C22: runs of histories of top-level calls TERMINATE (silent observers), in both scheduler modes
   and for every program of calls and explicit drains.  Measure: weighted pending instructions +
   4 * queued ScheduledObserver items + length of the scheduler queue. *)
From RxVerif Require Import Base.Prelude Ops.Machine Subjects.Subject Subjects.Family Subjects.Replay
  Subjects.ReplaySpec Subjects.ReplaySched Subjects.SubjectFacts Subjects.ReplayFacts Subjects.ReplayTreeFacts
  Subjects.ReplayLiveFacts Subjects.ReplaySchedFacts.
Require Import Lia.
Local Open Scope nat_scope.

Section Term.
Context {A : Type} (sync : bool).
Notation silent := (fun (_ _ : nat) => @nil (@rop A)).
Notation step := (sstep sync silent).
Notation sinstr := (@sinstr A).

(* ---- the measure ---- *)
Definition qlen (m : @romap A) (o : nat) : nat :=
  match m o with Some os => length (so_queue (r_so os)) | None => 0 end.
Fixpoint tsum (m : @romap A) (B : nat) : nat :=
  match B with O => 0 | S b => qlen m b + tsum m b end.

Definition wi (L : nat) (i : sinstr) : nat :=
  match i with
  | SIOp _ _ => 7 * L + 9
  | SIEnsure _ _ => 3
  | SIOnEnsure _ _ _ => 7
  | SIDeliver _ _ => 2
  | SIAdoFin _ => 1
  | SIResched _ => 2
  | SIHandle _ => 1
  | SIDrain => 1
  end.
Fixpoint kw (L : nat) (k : list sinstr) : nat :=
  match k with [] => 0 | i :: r => wi L i + kw L r end.
Definition isop (i : sinstr) : nat := match i with SIOp _ _ => 1 | _ => 0 end.
Fixpoint nops (k : list sinstr) : nat :=
  match k with [] => 0 | i :: r => isop i + nops r end.

Definition mu (L B : nat) (c : @scfg A) : nat :=
  kw L (sc_k c) + 4 * tsum (sc_obs c) B + length (r_sched (sc_st c)).

Record Inv (L B : nat) (c : @scfg A) : Prop := {
  i_obs : length (r_observers (sc_st c)) + nops (sc_k c) <= L;
  i_que : length (r_queue (sc_st c)) + nops (sc_k c) <= L;
  i_dom : forall o, sc_obs c o <> None -> o < B;
  i_sub : forall top o, In (SIOp top (RSub o)) (sc_k c) -> o < B }.

(* ---- arithmetic of the pieces ---- *)
Lemma kw_app L a b : kw L (a ++ b) = kw L a + kw L b.
Proof. induction a as [|i a IH]; cbn [app kw]; [reflexivity|]. rewrite IH. lia. Qed.
Lemma nops_app a b : nops (a ++ b) = nops a + nops b.
Proof. induction a as [|i a IH]; cbn [app nops]; [reflexivity|]. rewrite IH. lia. Qed.
Lemma kw_ensures L top l : kw L (map (SIEnsure top) l) = 3 * length l.
Proof. induction l as [|x l IH]; cbn [map kw length wi]; [reflexivity|]. rewrite IH. lia. Qed.
Lemma kw_onensures L top t l : kw L (map (fun o => SIOnEnsure top o t) l) = 7 * length l.
Proof. induction l as [|x l IH]; cbn [map kw length wi]; [reflexivity|]. rewrite IH. lia. Qed.
Lemma nops_ensures top l : nops (map (SIEnsure top) l) = 0.
Proof. induction l as [|x l IH]; cbn [map nops isop]; [reflexivity|]. rewrite IH. reflexivity. Qed.
Lemma nops_onensures top t l : nops (map (fun o => SIOnEnsure (A:=A) top o t) l) = 0.
Proof. induction l as [|x l IH]; cbn [map nops isop]; [reflexivity|]. rewrite IH. reflexivity. Qed.
Lemma kw_drain_if L top k : kw L (drain_if sync top k) <= 1 + kw L k.
Proof. unfold drain_if. destruct (inl sync top); cbn [kw wi]; lia. Qed.
Lemma nops_drain_if top k : nops (drain_if sync top k) = nops k.
Proof. unfold drain_if. destruct (inl sync top); reflexivity. Qed.
Lemma in_drain_if top (i : sinstr) k : In i (drain_if sync top k) -> i = SIDrain \/ In i k.
Proof. unfold drain_if. destruct (inl sync top); [intros [H|H]; [left; symmetry; exact H|right; exact H]|intros H; right; exact H]. Qed.
Lemma kw_pos L i k : 0 < kw L (i :: k).
Proof. cbn [kw]. destruct i; cbn [wi]; lia. Qed.

Lemma qlen_upd_same m o x : qlen (rupd m o x) o = length (so_queue (r_so x)).
Proof. unfold qlen, rupd. now rewrite Nat.eqb_refl. Qed.
Lemma qlen_upd_other m o x o' : o' <> o -> qlen (rupd m o x) o' = qlen m o'.
Proof. intros H. unfold qlen, rupd. destruct (Nat.eqb o' o) eqn:E; [apply Nat.eqb_eq in E; contradiction|reflexivity]. Qed.

Lemma tsum_upd_ge m o x : forall B, B <= o -> tsum (rupd m o x) B = tsum m B.
Proof.
  induction B as [|b IH]; intros H; [reflexivity|]. cbn [tsum]. rewrite IH by lia.
  rewrite qlen_upd_other by lia. reflexivity.
Qed.
Lemma tsum_upd_lt m o x : forall B, o < B ->
  tsum (rupd m o x) B + qlen m o = tsum m B + length (so_queue (r_so x)).
Proof.
  induction B as [|b IH]; intros H; [lia|]. cbn [tsum].
  destruct (Nat.eq_dec o b) as [->|N].
  - rewrite qlen_upd_same, tsum_upd_ge by lia. lia.
  - rewrite qlen_upd_other by congruence. specialize (IH ltac:(lia)). lia.
Qed.

Lemma dom_upd (m : @romap A) o x B : (forall o', m o' <> None -> o' < B) -> o < B ->
  forall o', rupd m o x o' <> None -> o' < B.
Proof.
  intros H Ho o' Hn. unfold rupd in Hn. destruct (Nat.eqb o' o) eqn:E; [apply Nat.eqb_eq in E; lia|exact (H o' Hn)].
Qed.

(* ---- the subject's helpers ---- *)
Lemma remove1_len o l : length (remove1 o l) <= length l.
Proof. induction l as [|x l IH]; cbn; [lia|]. destruct (Nat.eqb x o); cbn; lia. Qed.

Lemma trim_count_len b (q : list (Z * A)) : length (trim_count b q) <= length q.
Proof. induction q as [|x q IH]; [cbn; lia|]. cbn [trim_count]. destruct (zlen (x :: q) >? b)%Z; cbn in *; lia. Qed.
Lemma trim_age_len now w (q : list (Z * A)) : length (trim_age now w q) <= length q.
Proof. induction q as [|[t0 x] q IH]; [cbn; lia|]. cbn [trim_age]. destruct (too_old now w t0); cbn in *; lia. Qed.
Lemma trim_facts (s : @rstate A) :
  length (r_queue (trim s)) <= length (r_queue s) /\ r_observers (trim s) = r_observers s /\
  r_sched (trim s) = r_sched s.
Proof.
  unfold trim. cbn. split; [|split; reflexivity].
  etransitivity; [apply trim_age_len|apply trim_count_len].
Qed.

Lemma cancel_opt_facts id (s : @rstate A) :
  length (r_sched (cancel_opt id s)) = length (r_sched s) /\ r_observers (cancel_opt id s) = r_observers s /\
  r_queue (cancel_opt id s) = r_queue s /\ r_disposed (cancel_opt id s) = r_disposed s.
Proof. destruct id; cbn; [unfold cancel_item; rewrite map_length|]; auto. Qed.

Lemma ensure_active_facts o (s : @rstate A) so :
  so_queue (snd (ensure_active o s so)) = so_queue so /\
  length (r_sched (fst (ensure_active o s so))) <= S (length (r_sched s)) /\
  r_observers (fst (ensure_active o s so)) = r_observers s /\
  r_queue (fst (ensure_active o s so)) = r_queue s.
Proof.
  unfold ensure_active.
  destruct (negb (so_faulted so) && negb match so_queue so with [] => true | _ => false end); [|cbn; auto].
  destruct (so_acquired so); [cbn; auto|]. cbn [ser_disposed].
  destruct (ser_disposed so); cbn [fst snd so_queue];
    match goal with |- context [cancel_opt ?i ?s1] => destruct (cancel_opt_facts i s1) as [H1 [H2 [H3 _]]] end;
    rewrite H1, H2, H3; cbn; rewrite app_length; cbn; repeat split; lia.
Qed.

Lemma so_on_len (n : ev A) so : length (so_queue (so_on n so)) <= S (length (so_queue so)).
Proof. unfold so_on. destruct (so_stopped so); cbn; [lia|]. rewrite app_length. cbn. lia. Qed.

Lemma so_dispose_facts (s : @rstate A) so :
  so_queue (snd (so_dispose s so)) = so_queue so /\
  length (r_sched (fst (so_dispose s so))) = length (r_sched s) /\
  r_observers (fst (so_dispose s so)) = r_observers s /\ r_queue (fst (so_dispose s so)) = r_queue s.
Proof.
  unfold so_dispose. destruct (ser_disposed so); cbn [fst snd so_queue]; [auto|].
  destruct (cancel_opt_facts (ser_cur so) s) as [H1 [H2 [H3 _]]]. auto.
Qed.

Lemma rado_dispose_facts (s : @rstate A) os o :
  so_queue (r_so (snd (rado_dispose s os o))) = so_queue (r_so os) /\
  length (r_sched (fst (rado_dispose s os o))) = length (r_sched s) /\
  length (r_observers (fst (rado_dispose s os o))) <= length (r_observers s) /\
  r_queue (fst (rado_dispose s os o)) = r_queue s.
Proof.
  unfold rado_dispose. cbn [rsad_disposed rsad_cur r_so r_handle r_calls].
  destruct (rsad_disposed os); [cbn; auto|]. destruct (rsad_cur os); [|cbn; auto].
  unfold removable_dispose. cbn [r_so].
  destruct (so_dispose_facts s (r_so os)) as [H1 [H2 [H3 H4]]].
  destruct (so_dispose s (r_so os)) as [s1 so1]. cbn [fst snd] in *.
  destruct (negb (r_disposed s1) && Subject.mem o (r_observers s1)); cbn [fst snd r_so set_so];
    repeat split; cbn; try assumption; try lia.
  - rewrite <- H3. apply remove1_len.
  - rewrite H3. lia.
Qed.

(* queueing one notification on every observer of a snapshot *)
Lemma so_each_on_facts (n : ev A) B : forall snap (s : @rstate A) m,
  (forall o, m o <> None -> o < B) ->
  let r := so_each (fun _ s so => (s, so_on n so)) snap s m in
  fst r = s /\ tsum (snd r) B <= tsum m B + length snap /\ (forall o, snd r o <> None -> o < B).
Proof.
  unfold so_each. induction snap as [|o snap IH]; intros s m Hd; cbn [fold_left fst snd length]; [repeat split; auto; lia|].
  destruct (m o) as [os|] eqn:Em.
  - assert (Ho : o < B) by (apply Hd; congruence).
    pose proof (tsum_upd_lt m o (set_so os (so_on n (r_so os))) B Ho) as Ht.
    assert (Hq : qlen m o = length (so_queue (r_so os))) by (unfold qlen; now rewrite Em).
    pose proof (so_on_len n (r_so os)) as Hl. cbn [set_so r_so] in Ht.
    destruct (IH s (rupd m o (set_so os (so_on n (r_so os)))) (dom_upd m o _ B Hd Ho)) as [I1 [I2 I3]].
    cbv zeta in *. repeat split; [exact I1| |exact I3]. lia.
  - destruct (IH s m Hd) as [I1 [I2 I3]]. cbv zeta in *. repeat split; [exact I1|lia|exact I3].
Qed.

Lemma replay_fold_len (q : list (Z * A)) : forall so,
  length (so_queue (fold_left (fun so it => so_on (Next (snd it)) so) q so)) <= length (so_queue so) + length q.
Proof.
  induction q as [|it q IH]; intros so; cbn [fold_left length]; [lia|].
  specialize (IH (so_on (Next (snd it)) so)). pose proof (so_on_len (Next (snd it)) so). lia.
Qed.

(* ---- one step ---- *)
Lemma finish_case L B s m i k l s' (m' : @romap A) k' l' :
  Inv L B (SCfg s m (i :: k) l) ->
  length (r_observers s') + nops k' <= length (r_observers s) + nops (i :: k) ->
  length (r_queue s') + nops k' <= length (r_queue s) + nops (i :: k) ->
  (forall o, m' o <> None -> o < B) ->
  (forall t o, In (SIOp t (RSub o)) k' -> In (SIOp t (RSub o)) (i :: k)) ->
  kw L k' + 4 * tsum m' B + length (r_sched s') < kw L (i :: k) + 4 * tsum m B + length (r_sched s) ->
  Inv L B (SCfg s' m' k' l') /\ mu L B (SCfg s' m' k' l') < mu L B (SCfg s m (i :: k) l).
Proof.
  intros [H1 H2 H3 H4] G1 G2 G3 G4 G5. cbn [sc_st sc_k sc_obs] in *. split.
  - constructor; cbn [sc_st sc_k sc_obs]; [lia|lia|exact G3|].
    intros t o Hin. exact (H4 t o (G4 t o Hin)).
  - unfold mu. cbn [sc_st sc_k sc_obs]. exact G5.
Qed.

Lemma in_tail_sub (i : sinstr) k : forall t o, In (SIOp t (RSub o)) k -> In (SIOp t (RSub (A:=A) o)) (i :: k).
Proof. intros t o H. right. exact H. Qed.

Lemma in_pre_sub (i : sinstr) pre k : (forall j, In j pre -> isop j = 0) ->
  forall t o, In (SIOp t (RSub o)) (pre ++ k) -> In (SIOp t (RSub (A:=A) o)) (i :: k).
Proof.
  intros Hp t o H. apply in_app_or in H. destruct H as [H|H]; [|right; exact H].
  specialize (Hp _ H). discriminate Hp.
Qed.

Lemma in_drain_sub (i : sinstr) top k :
  forall t o, In (SIOp t (RSub o)) (drain_if sync top k) -> In (SIOp t (RSub (A:=A) o)) (i :: k).
Proof. intros t o H. apply in_drain_if in H. destruct H as [H|H]; [discriminate H|right; exact H]. Qed.

Lemma tsum_upd_same_len m o os os' B : m o = Some os ->
  length (so_queue (r_so os')) = length (so_queue (r_so os)) -> tsum (rupd m o os') B = tsum m B.
Proof.
  intros Em E. destruct (Nat.lt_ge_cases o B) as [H|H]; [|apply tsum_upd_ge; exact H].
  pose proof (tsum_upd_lt m o os' B H) as Ht. unfold qlen in Ht. rewrite Em in Ht. lia.
Qed.

Lemma dom_upd_some (m : @romap A) o os x B : (forall o', m o' <> None -> o' < B) -> m o = Some os ->
  forall o', rupd m o x o' <> None -> o' < B.
Proof. intros H Em. apply dom_upd; [exact H|]. apply H. congruence. Qed.

Lemma step_op_decreases L B top p s m k l :
  Inv L B (SCfg s m (SIOp top p :: k) l) ->
  Inv L B (sstep_op sync silent top p s m k l) /\
  mu L B (sstep_op sync silent top p s m k l) < mu L B (SCfg s m (SIOp top p :: k) l).
Proof.
  intros HI. pose proof HI as [H1 H2 H3 H4]. cbn [sc_st sc_k sc_obs nops isop] in H1, H2, H3, H4.
  unfold sstep_op. destruct p as [o|o|v|e| | |d].
  - (* RSub *)
    destruct (m o) as [os|] eqn:Em.
    { apply (finish_case L B _ _ _ _ _ _ _ _ _ HI); cbn [nops isop kw wi]; try lia; [exact H3|apply in_tail_sub]. }
    assert (Ho : o < B) by (apply (H4 top o); left; reflexivity).
    assert (Hq0 : qlen m o = 0) by (unfold qlen; now rewrite Em).
    destruct (r_disposed s).
    { cbn [map app].
      pose proof (tsum_upd_lt m o (rcalled true fresh_rostate) B Ho) as Ht. cbn in Ht.
      pose proof (kw_drain_if L top (SIHandle o :: k)) as Hk. cbn [kw wi] in Hk.
      apply (finish_case L B _ _ _ _ _ _ _ _ _ HI); cbn [nops isop kw wi]; rewrite ?nops_drain_if; cbn [nops isop];
        try lia; [apply dom_upd; assumption|].
      intros t o0 Hin. apply in_drain_if in Hin. destruct Hin as [Hin|[Hin|Hin]]; try discriminate Hin. right. exact Hin. }
    destruct (trim_facts s) as [T1 [T2 T3]]. cbv zeta.
    set (s2 := with_observers (r_observers (trim s) ++ [o]) (trim s)).
    set (so2 := match r_exception s2 with
                | Some e => so_on (Err e) (fold_left (fun so it => so_on (Next (snd it)) so) (r_queue s2) fresh_so)
                | None => if r_stopped s2
                          then so_on Done (fold_left (fun so it => so_on (Next (snd it)) so) (r_queue s2) fresh_so)
                          else fold_left (fun so it => so_on (Next (snd it)) so) (r_queue s2) fresh_so
                end).
    assert (Hso2 : length (so_queue so2) <= S (length (r_queue s))).
    { pose proof (replay_fold_len (r_queue s2) fresh_so) as Hf. cbn [fresh_so so_queue length] in Hf.
      assert (Hq2 : length (r_queue s2) <= length (r_queue s)) by (unfold s2; cbn [with_observers r_queue]; exact T1).
      subst so2. destruct (r_exception s2); [|destruct (r_stopped s2)];
        try (match goal with |- context [so_on ?n ?x] => pose proof (so_on_len n x) end); lia. }
    destruct (ensure_active_facts o s2 so2) as [E1 [E2 [E3 E4]]].
    destruct (ensure_active o s2 so2) as [s3 so3]. cbn [fst snd] in *.
    assert (Hl3 : length (so_queue so3) <= S (length (r_queue s))) by (rewrite E1; exact Hso2).
    assert (Hob : length (r_observers s3) = S (length (r_observers s))).
    { rewrite E3. unfold s2. cbn [with_observers r_observers]. rewrite app_length, T2. cbn [length]. lia. }
    assert (Hqu : length (r_queue s3) <= length (r_queue s)) by (rewrite E4; unfold s2; cbn [with_observers r_queue]; exact T1).
    assert (Hsc : length (r_sched s3) <= S (length (r_sched s))).
    { etransitivity; [exact E2|]. unfold s2. cbn [with_observers r_sched]. rewrite T3. lia. }
    destruct (inl sync top).
    + pose proof (tsum_upd_lt m o (ROState false false true false 0 so3) B Ho) as Ht. cbn [r_so] in Ht.
      apply (finish_case L B _ _ _ _ _ _ _ _ _ HI); cbn [nops isop kw wi]; try lia; [apply dom_upd; assumption|].
      intros t o0 [Hin|[Hin|Hin]]; try discriminate Hin. right. exact Hin.
    + pose proof (tsum_upd_lt m o (ROState false false true true 0 so3) B Ho) as Ht. cbn [r_so] in Ht.
      apply (finish_case L B _ _ _ _ _ _ _ _ _ HI); cbn [nops isop kw wi]; try lia;
        [apply dom_upd; assumption|apply in_tail_sub].
  - (* RUnsub *)
    destruct (m o) as [os|] eqn:Em;
      [|apply (finish_case L B _ _ _ _ _ _ _ _ _ HI); cbn [nops isop kw wi]; try lia; [exact H3|apply in_tail_sub]].
    destruct (r_handle os);
      [|apply (finish_case L B _ _ _ _ _ _ _ _ _ HI); cbn [nops isop kw wi]; try lia; [exact H3|apply in_tail_sub]].
    destruct (rado_dispose_facts s os o) as [R1 [R2 [R3 R4]]].
    destruct (rado_dispose s os o) as [s' os']. cbn [fst snd] in *.
    pose proof (tsum_upd_same_len m o os os' B Em ltac:(congruence)) as Ht.
    assert (R4' : length (r_queue s') = length (r_queue s)) by congruence.
    apply (finish_case L B _ _ _ _ _ _ _ _ _ HI); cbn [nops isop kw wi]; try lia;
      [apply (dom_upd_some m o os); assumption|apply in_tail_sub].
  - (* RNext *)
    destruct (r_disposed s);
      [apply (finish_case L B _ _ _ _ _ _ _ _ _ HI); cbn [nops isop kw wi]; try lia; [exact H3|apply in_tail_sub]|].
    destruct (r_stopped s);
      [apply (finish_case L B _ _ _ _ _ _ _ _ _ HI); cbn [nops isop kw wi]; try lia; [exact H3|apply in_tail_sub]|].
    cbv zeta. set (s1 := trim (with_queue (r_queue s ++ [(r_clock s, v)]) s)).
    destruct (trim_facts (with_queue (r_queue s ++ [(r_clock s, v)]) s)) as [T1 [T2 T3]]. fold s1 in T1, T2, T3.
    assert (T1' : length (r_queue s1) <= S (length (r_queue s)))
      by (etransitivity; [exact T1|]; cbn [with_queue r_queue]; rewrite app_length; cbn [length]; lia).
    assert (T2' : length (r_observers s1) = length (r_observers s)) by (rewrite T2; reflexivity).
    assert (T3' : length (r_sched s1) = length (r_sched s)) by (rewrite T3; reflexivity).
    clear T1 T2 T3.
    destruct (so_each_on_facts (Next v) B (r_observers s) s1 m H3) as [F1 [F2 F3]].
    destruct (so_each (fun _ s0 so => (s0, so_on (Next v) so)) (r_observers s) s1 m) as [s2 m2]. cbn [fst snd] in *. subst s2.
    apply (finish_case L B _ _ _ _ _ _ _ _ _ HI);
      rewrite ?nops_app, ?kw_app, ?nops_ensures, ?kw_ensures; cbn [nops isop kw wi]; try lia; [exact F3|].
    apply in_pre_sub. intros j Hj. apply in_map_iff in Hj. destruct Hj as [x [<- _]]. reflexivity.
  - (* RErr *)
    destruct (r_disposed s);
      [apply (finish_case L B _ _ _ _ _ _ _ _ _ HI); cbn [nops isop kw wi]; try lia; [exact H3|apply in_tail_sub]|].
    destruct (r_stopped s);
      [apply (finish_case L B _ _ _ _ _ _ _ _ _ HI); cbn [nops isop kw wi]; try lia; [exact H3|apply in_tail_sub]|].
    destruct (trim_facts (with_exception (Some e) (with_observers [] (with_stopped true s)))) as [T1 [T2 T3]].
    set (s1 := trim (with_exception (Some e) (with_observers [] (with_stopped true s)))) in *.
    assert (T1' : length (r_queue s1) <= length (r_queue s)) by exact T1.
    assert (T2' : length (r_observers s1) = 0) by (rewrite T2; reflexivity).
    assert (T3' : length (r_sched s1) = length (r_sched s)) by (rewrite T3; reflexivity).
    clear T1 T2 T3.
    apply (finish_case L B _ _ _ _ _ _ _ _ _ HI);
      rewrite ?nops_app, ?kw_app, ?nops_onensures, ?kw_onensures; cbn [nops isop kw wi];
      try lia; [exact H3|].
    apply in_pre_sub. intros j Hj. apply in_map_iff in Hj. destruct Hj as [x [<- _]]. reflexivity.
  - (* RDone *)
    destruct (r_disposed s);
      [apply (finish_case L B _ _ _ _ _ _ _ _ _ HI); cbn [nops isop kw wi]; try lia; [exact H3|apply in_tail_sub]|].
    destruct (r_stopped s);
      [apply (finish_case L B _ _ _ _ _ _ _ _ _ HI); cbn [nops isop kw wi]; try lia; [exact H3|apply in_tail_sub]|].
    destruct (trim_facts (with_observers [] (with_stopped true s))) as [T1 [T2 T3]].
    set (s1 := trim (with_observers [] (with_stopped true s))) in *.
    assert (T1' : length (r_queue s1) <= length (r_queue s)) by exact T1.
    assert (T2' : length (r_observers s1) = 0) by (rewrite T2; reflexivity).
    assert (T3' : length (r_sched s1) = length (r_sched s)) by (rewrite T3; reflexivity).
    clear T1 T2 T3.
    apply (finish_case L B _ _ _ _ _ _ _ _ _ HI);
      rewrite ?nops_app, ?kw_app, ?nops_onensures, ?kw_onensures; cbn [nops isop kw wi];
      try lia; [exact H3|].
    apply in_pre_sub. intros j Hj. apply in_map_iff in Hj. destruct Hj as [x [<- _]]. reflexivity.
  - (* RDispose *)
    apply (finish_case L B _ _ _ _ _ _ _ _ _ HI); cbn [nops isop kw wi]; cbn; try lia; [exact H3|apply in_tail_sub].
  - (* RAdvance *)
    destruct (d <? 0)%Z; apply (finish_case L B _ _ _ _ _ _ _ _ _ HI); cbn [nops isop kw wi]; cbn; try lia;
      try exact H3; apply in_tail_sub.
Qed.

Theorem step_decreases L B c : Inv L B c -> sc_k c <> [] ->
  Inv L B (step c) /\ mu L B (step c) < mu L B c.
Proof.
  destruct c as [s m k l]. intros HI Hk. destruct k as [|i k]; [contradiction|]. clear Hk.
  pose proof HI as [H1 H2 H3 H4]. cbn [sc_st sc_k sc_obs] in H1, H2, H3, H4.
  unfold sstep. cbn [sc_k sc_st sc_obs sc_rlog].
  destruct i as [top p|top o|top o t|o n|o|o|o|].
  - apply step_op_decreases. exact HI.
  - (* SIEnsure *)
    destruct (m o) as [os|] eqn:Em;
      [|apply (finish_case L B _ _ _ _ _ _ _ _ _ HI); cbn [nops isop kw wi]; try lia; [exact H3|apply in_tail_sub]].
    destruct (ensure_active_facts o s (r_so os)) as [E1 [E2 [E3 E4]]].
    destruct (ensure_active o s (r_so os)) as [s' so']. cbn [fst snd] in *.
    pose proof (tsum_upd_same_len m o os (set_so os so') B Em ltac:(cbn [set_so r_so]; congruence)) as Ht.
    pose proof (kw_drain_if L top k) as Hd.
    assert (E3' : length (r_observers s') = length (r_observers s)) by congruence.
    assert (E4' : length (r_queue s') = length (r_queue s)) by congruence.
    apply (finish_case L B _ _ _ _ _ _ _ _ _ HI); rewrite ?nops_drain_if; cbn [nops isop kw wi]; try lia;
      [apply (dom_upd_some m o os); assumption|apply in_drain_sub].
  - (* SIOnEnsure *)
    destruct (m o) as [os|] eqn:Em;
      [|apply (finish_case L B _ _ _ _ _ _ _ _ _ HI); cbn [nops isop kw wi]; try lia; [exact H3|apply in_tail_sub]].
    destruct (ensure_active_facts o s (so_on t (r_so os))) as [E1 [E2 [E3 E4]]].
    destruct (ensure_active o s (so_on t (r_so os))) as [s' so']. cbn [fst snd] in *.
    assert (Ho : o < B) by (apply H3; congruence).
    pose proof (tsum_upd_lt m o (set_so os so') B Ho) as Ht. cbn [set_so r_so] in Ht.
    assert (Hq : qlen m o = length (so_queue (r_so os))) by (unfold qlen; now rewrite Em).
    pose proof (so_on_len t (r_so os)) as Hl. rewrite <- E1 in Hl.
    pose proof (kw_drain_if L top k) as Hd.
    assert (E3' : length (r_observers s') = length (r_observers s)) by congruence.
    assert (E4' : length (r_queue s') = length (r_queue s)) by congruence.
    apply (finish_case L B _ _ _ _ _ _ _ _ _ HI); rewrite ?nops_drain_if; cbn [nops isop kw wi]; try lia;
      [apply dom_upd; assumption|apply in_drain_sub].
  - (* SIDeliver *)
    destruct (m o) as [os|] eqn:Em;
      [|apply (finish_case L B _ _ _ _ _ _ _ _ _ HI); cbn [nops isop kw wi]; try lia; [exact H3|apply in_tail_sub]].
    destruct (ra_stopped os);
      [apply (finish_case L B _ _ _ _ _ _ _ _ _ HI); cbn [nops isop kw wi]; try lia; [exact H3|apply in_tail_sub]|].
    destruct n as [v|e|]; cbn [map app];
      match goal with |- context [rupd m o ?x] =>
        pose proof (tsum_upd_same_len m o os x B Em eq_refl) as Ht end;
      apply (finish_case L B _ _ _ _ _ _ _ _ _ HI); cbn [nops isop kw wi]; try lia;
      try (apply (dom_upd_some m o os); assumption); try apply in_tail_sub.
    all: intros t0 o0 [Hin|Hin]; [discriminate Hin|right; exact Hin].
  - (* SIAdoFin *)
    destruct (m o) as [os|] eqn:Em;
      [|apply (finish_case L B _ _ _ _ _ _ _ _ _ HI); cbn [nops isop kw wi]; try lia; [exact H3|apply in_tail_sub]].
    destruct (rado_dispose_facts s os o) as [R1 [R2 [R3 R4]]].
    destruct (rado_dispose s os o) as [s' os']. cbn [fst snd] in *.
    pose proof (tsum_upd_same_len m o os os' B Em ltac:(congruence)) as Ht.
    assert (R4' : length (r_queue s') = length (r_queue s)) by congruence.
    apply (finish_case L B _ _ _ _ _ _ _ _ _ HI); cbn [nops isop kw wi]; try lia;
      [apply (dom_upd_some m o os); assumption|apply in_tail_sub].
  - (* SIResched *)
    apply (finish_case L B _ _ _ _ _ _ _ _ _ HI); cbn [nops isop kw wi with_sched r_observers r_queue r_sched];
      rewrite ?app_length; cbn [length]; try lia; [exact H3|apply in_tail_sub].
  - (* SIHandle *)
    destruct (m o) as [os|] eqn:Em;
      [|apply (finish_case L B _ _ _ _ _ _ _ _ _ HI); cbn [nops isop kw wi]; try lia; [exact H3|apply in_tail_sub]].
    pose proof (tsum_upd_same_len m o os (rwith_handle os) B Em eq_refl) as Ht.
    apply (finish_case L B _ _ _ _ _ _ _ _ _ HI); cbn [nops isop kw wi]; try lia;
      [apply (dom_upd_some m o os); assumption|apply in_tail_sub].
  - (* SIDrain *)
    destruct (r_sched s) as [|[[id o] cancelled] rest] eqn:Es.
    { apply (finish_case L B _ _ _ _ _ _ _ _ _ HI); cbn [nops isop kw wi]; try lia; [exact H3|apply in_tail_sub]. }
    assert (Hsame : forall t0 o0, In (SIOp t0 (RSub o0)) (SIDrain :: k) -> In (SIOp t0 (RSub (A:=A) o0)) (SIDrain :: k))
      by (intros; assumption).
    destruct cancelled.
    { apply (finish_case L B _ _ _ _ _ _ _ _ _ HI); cbn [nops isop kw wi with_sched r_observers r_queue r_sched length]; rewrite ?Es; cbn [length];
        try lia; [exact H3|exact Hsame]. }
    destruct (m o) as [os|] eqn:Em.
    2: { apply (finish_case L B _ _ _ _ _ _ _ _ _ HI); cbn [nops isop kw wi with_sched r_observers r_queue r_sched length]; rewrite ?Es; cbn [length];
           try lia; [exact H3|exact Hsame]. }
    assert (Ho : o < B) by (apply H3; congruence).
    assert (Hq : qlen m o = length (so_queue (r_so os))) by (unfold qlen; now rewrite Em).
    destruct (so_queue (r_so os)) as [|n q] eqn:Eq.
    + match goal with |- context [rupd m o ?x] => pose proof (tsum_upd_lt m o x B Ho) as Ht end.
      cbn [set_so r_so so_queue length] in Ht.
      apply (finish_case L B _ _ _ _ _ _ _ _ _ HI); cbn [nops isop kw wi with_sched r_observers r_queue r_sched length]; rewrite ?Es; cbn [length];
        try lia; [apply dom_upd; assumption|exact Hsame].
    + match goal with |- context [rupd m o ?x] => pose proof (tsum_upd_lt m o x B Ho) as Ht end.
      cbn [set_so r_so so_queue length] in Ht. cbn [length] in Hq.
      apply (finish_case L B _ _ _ _ _ _ _ _ _ HI); cbn [nops isop kw wi with_sched r_observers r_queue r_sched length]; rewrite ?Es; cbn [length];
        try lia; [apply dom_upd; assumption|].
      intros t0 o0 [Hin|[Hin|Hin]]; try discriminate Hin. exact Hin.
Qed.

(* ---- termination ---- *)
Lemma kw_zero L k : kw L k = 0 -> k = [].
Proof. destruct k as [|i k]; [reflexivity|]. intros H. pose proof (kw_pos L i k). lia. Qed.

Lemma srun_terminates L B : forall n c, Inv L B c -> mu L B c <= n -> sc_k (srun sync silent n c) = [].
Proof.
  induction n as [|n IH]; intros c HI Hm.
  - cbn [srun]. apply (kw_zero L). unfold mu in Hm. lia.
  - cbn [srun]. destruct (sc_k c) as [|i k] eqn:Ek; [exact Ek|].
    destruct (step_decreases L B c HI) as [HI' Hlt]; [rewrite Ek; discriminate|].
    apply IH; [exact HI'|lia].
Qed.

(* any program of top-level calls and drains *)
Fixpoint sub_bound (k : list sinstr) : nat :=
  match k with
  | [] => 0
  | SIOp _ (RSub o) :: r => Nat.max (S o) (sub_bound r)
  | _ :: r => sub_bound r
  end.
Lemma sub_bound_in k : forall t o, In (SIOp t (RSub o)) k -> o < sub_bound k.
Proof.
  induction k as [|i k IH]; intros t o H; [destruct H|].
  destruct H as [->|H]; [cbn [sub_bound]; apply Nat.lt_le_trans with (S o); [lia|apply Nat.le_max_l]|].
  specialize (IH t o H).
  destruct i as [t' []| | | | | | |]; cbn [sub_bound]; try exact IH.
  apply Nat.lt_le_trans with (sub_bound k); [exact IH|apply Nat.le_max_r].
Qed.

Theorem program_terminates (bs w : option Z) (k0 : list sinstr) :
  exists fuel0, forall fuel, fuel0 <= fuel ->
    sc_k (srun sync silent fuel (SCfg (rinit_state bs w) (fun _ => None) k0 [])) = [].
Proof.
  set (c0 := SCfg (rinit_state bs w) (fun _ => None) k0 []).
  assert (HI : Inv (nops k0) (sub_bound k0) c0).
  { constructor; cbn [c0 sc_st sc_k sc_obs rinit_state r_observers r_queue length]; try lia.
    - intros o H. contradiction H. reflexivity.
    - apply sub_bound_in. }
  exists (mu (nops k0) (sub_bound k0) c0). intros fuel Hf.
  exact (srun_terminates (nops k0) (sub_bound k0) fuel c0 HI Hf).
Qed.
End Term.

(* both fixed drain disciplines, with the empty reaction table *)
Theorem flat_histories_terminate {A} (sync : bool) (bs w : option Z) (top : list (@rop A)) :
  exists fuel0, forall fuel, (fuel0 <= fuel)%nat ->
    sc_k (srun sync (rreact_tbl []) fuel (sinit_cfg sync bs w top)) = [].
Proof. exact (program_terminates sync bs w _). Qed.

(* every program of top-level calls and explicit drains *)
Theorem explicit_programs_terminate {A} (sync : bool) (bs w : option Z) (prog : list (xtop A)) :
  exists fuel0, forall fuel, (fuel0 <= fuel)%nat ->
    sc_k (srun sync (rreact_tbl []) fuel (xinit_cfg bs w prog)) = [].
Proof. exact (program_terminates sync bs w _). Qed.

(* termination + completeness: on a history of top-level calls every run with enough fuel is
   finished, and then every observer that has not unsubscribed has received EXACTLY its entitlement *)
Theorem flat_histories_deliver_everything {A} (sync : bool) (bs w : option Z) (top : list (@rop A)) :
  exists fuel0, forall fuel, (fuel0 <= fuel)%nat ->
    let c := srun sync (rreact_tbl []) fuel (sinit_cfg sync bs w top) in
    sc_k c = [] /\
    forall o os, sc_obs c o = Some os ->
      (ra_stopped os = false \/ has_term (rview o (slog_of c)) = true) ->
      rview o (slog_of c) = xview (bufsize_of bs) w o false rg_init (ops_of (slog_of c)).
Proof.
  destruct (flat_histories_terminate sync bs w top) as [f0 H]. exists f0. intros fuel Hf c.
  pose proof (H fuel Hf) as Hk. fold c in Hk. split; [exact Hk|].
  intros o os Ho Hs. exact (sched_complete sync (rreact_tbl []) bs w top fuel o os Hk Ho Hs).
Qed.
