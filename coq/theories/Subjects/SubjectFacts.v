(* Facts about the execution engine of Subjects/Subject.v that hold for EVERY
   method table [C], EVERY reaction function [react] (arbitrary call trees,
   re-entrant emissions included) and every amount of fuel: they only depend on
   the AutoDetachObserver wrapper that Observable.subscribe puts around each
   subscriber. *)
From RxVerif Require Import Base.Prelude Ops.Machine Subjects.Subject.

Definition has_term {A} (l : list (ev A)) : bool := existsb is_terminal l.

Lemma wellformed_snoc {A} (l : list (ev A)) (n : ev A) :
  wellformed (l ++ [n]) = wellformed l && negb (has_term l).
Proof.
  induction l as [|x t IH]; cbn [app wellformed has_term existsb].
  - destruct n; reflexivity.
  - destruct x as [a| |]; cbn [is_terminal orb].
    + exact IH.
    + destruct t; cbn; reflexivity.
    + destruct t; cbn; reflexivity.
Qed.

Lemma has_term_app {A} (l1 l2 : list (ev A)) : has_term (l1 ++ l2) = has_term l1 || has_term l2.
Proof. apply existsb_app. Qed.

Section Facts.
Context {A : Type} (C : @cls A) (react : nat -> nat -> list (@op A)).

Notation step := (step C react).
Notation run := (run C react).

Definition noGot (evs : list (@event A)) : Prop := forall o n, ~ In (EGot o n) evs.

Lemma view_app o (l1 l2 : list (@event A)) : view o (l1 ++ l2) = view o l1 ++ view o l2.
Proof.
  induction l1 as [|e t IH]; cbn [app view]; [reflexivity|].
  destruct e as [p|o' n|e]; [exact IH| |exact IH].
  destruct (Nat.eqb o' o); [cbn; now rewrite IH|exact IH].
Qed.

Lemma view_noGot o (l : list (@event A)) : noGot l -> view o l = [].
Proof.
  induction l as [|e t IH]; intros H; cbn [view]; [reflexivity|].
  assert (Ht : noGot t) by (intros o' n Hin; apply (H o' n); now right).
  destruct e as [p|o' n|e]; [now apply IH| |now apply IH].
  exfalso. apply (H o' n). now left.
Qed.

Lemma noGot_rev (l : list (@event A)) : noGot l -> noGot (rev l).
Proof. intros H o n Hin. apply (H o n). now apply in_rev. Qed.

(* ---- one step: the observer table only grows, stopped wrappers stay stopped ---- *)
Definition mono (m m' : omap) : Prop :=
  forall o os, m o = Some os -> exists os', m' o = Some os' /\ (a_stopped os = true -> a_stopped os' = true).

Lemma mono_refl m : mono m m.
Proof. intros o os H. eauto. Qed.

Lemma mono_trans m1 m2 m3 : mono m1 m2 -> mono m2 m3 -> mono m1 m3.
Proof.
  intros H12 H23 o os H. destruct (H12 o os H) as [os2 [H2 Hs2]].
  destruct (H23 o os2 H2) as [os3 [H3 Hs3]]. eauto.
Qed.

Lemma mono_upd m o os os' :
  m o = Some os -> (a_stopped os = true -> a_stopped os' = true) -> mono m (upd m o os').
Proof.
  intros Hm Hs o2 os2 H2. unfold upd. destruct (Nat.eqb o2 o) eqn:E.
  - apply Nat.eqb_eq in E. subst o2. rewrite Hm in H2. injection H2 as <-. eauto.
  - eauto.
Qed.

Lemma mono_upd_new m o x : m o = None -> mono m (upd m o x).
Proof.
  intros Hm o2 os2 H2. unfold upd. destruct (Nat.eqb o2 o) eqn:E.
  - apply Nat.eqb_eq in E. subst o2. congruence.
  - eauto.
Qed.

Lemma upd_same (m : omap) o x : upd m o x o = Some x.
Proof. unfold upd. now rewrite Nat.eqb_refl. Qed.

Lemma inner_dispose_stopped (s : @sstate A) os o :
  a_stopped (snd (inner_dispose s os o)) = a_stopped os.
Proof. unfold inner_dispose. destruct (negb (is_disposed s) && inner_obs os); reflexivity. Qed.

Lemma sub_dispose_stopped sub (s : @sstate A) os o : a_stopped (snd (sub_dispose sub s os o)) = a_stopped os.
Proof. destruct sub; cbn [sub_dispose]; [apply inner_dispose_stopped|reflexivity]. Qed.

Lemma ado_dispose_stopped (s : @sstate A) os o : a_stopped (snd (ado_dispose s os o)) = true.
Proof.
  unfold ado_dispose. cbn [sad_disposed sad_cur a_stopped inner_obs handle calls].
  destruct (sad_disposed os); [reflexivity|].
  destruct (sad_cur os) as [sub|]; [|reflexivity]. now rewrite sub_dispose_stopped.
Qed.

Lemma sad_set_stopped sub (s : @sstate A) os o : a_stopped (snd (sad_set sub s os o)) = a_stopped os.
Proof.
  unfold sad_set. destruct (sad_disposed os); [apply sub_dispose_stopped|reflexivity].
Qed.

(* what one step does to the log: either no delivery, or exactly one delivery
   [EGot o n] to an observer whose wrapper was not stopped (or which is new);
   a terminal delivery leaves the wrapper stopped *)
Definition step_shape (c c' : @cfg A) : Prop :=
  mono (c_obs c) (c_obs c') /\
  ((exists evs, c_rlog c' = evs ++ c_rlog c /\ noGot evs) \/
   (exists pre o n os', c_rlog c' = EGot o n :: pre ++ c_rlog c /\ noGot pre /\
      (forall os, c_obs c o = Some os -> a_stopped os = false) /\
      c_obs c' o = Some os' /\ (is_terminal n = true -> a_stopped os' = true))).

Lemma noGot_nil : noGot [].
Proof. intros o n []. Qed.
Lemma noGot_op p : noGot [EOp p].
Proof. intros o n [H|[]]. discriminate. Qed.
Lemma noGot_raised e p : noGot [ERaised e; EOp p].
Proof. intros o n [H|[H|[]]]; discriminate. Qed.

Local Ltac quiet := left;
  first [ exists (@nil (@event A)); split; [reflexivity|apply noGot_nil]
        | eexists [_]; split; [reflexivity|apply noGot_op]
        | eexists [_; _]; split; [reflexivity|apply noGot_raised] ].

Lemma step_op_shape p s m k l : step_shape (Cfg s m (IOp p :: k) l) (step_op C react p s m k l).
Proof.
  unfold step_shape, step_op. destruct p as [o|o|v|e| |]; cbn [c_obs c_rlog].
  - (* OSub *)
    destruct (m o) as [os|] eqn:Hm; cbn [c_obs c_rlog].
    + split; [apply mono_refl|quiet].
    + destruct (c_subscribe C s o) as [[[s' is] sub]|]; cbn [c_obs c_rlog].
      * split; [now apply mono_upd_new|quiet].
      * split; [now apply mono_upd_new|]. right.
        exists [EOp (OSub o)], o, (Err disposed_exn), (called true fresh_ostate).
        split; [reflexivity|]. split; [apply noGot_op|]. split; [intros os H; congruence|].
        split; [apply upd_same|reflexivity].
  - (* OUnsub *)
    destruct (m o) as [os|] eqn:Hm; cbn [c_obs c_rlog].
    + destruct (handle os).
      * destruct (ado_dispose s os o) as [s' os'] eqn:E. cbn [c_obs c_rlog].
        split; [|quiet].
        eapply mono_upd; [exact Hm|]. intros _.
        change os' with (snd (s', os')). rewrite <- E. apply ado_dispose_stopped.
      * split; [apply mono_refl|quiet].
    + split; [apply mono_refl|quiet].
  - destruct (is_disposed s); cbn [c_obs c_rlog].
    + split; [apply mono_refl|quiet].
    + destruct (is_stopped s); cbn [c_obs c_rlog].
      * split; [apply mono_refl|quiet].
      * destruct (c_next C s v) as [s' is]. cbn [c_obs c_rlog].
        split; [apply mono_refl|quiet].
  - destruct (is_disposed s); cbn [c_obs c_rlog].
    + split; [apply mono_refl|quiet].
    + destruct (is_stopped s); cbn [c_obs c_rlog].
      * split; [apply mono_refl|quiet].
      * destruct (c_error C (set_stopped true s) e) as [s' is]. cbn [c_obs c_rlog].
        split; [apply mono_refl|quiet].
  - destruct (is_disposed s); cbn [c_obs c_rlog].
    + split; [apply mono_refl|quiet].
    + destruct (is_stopped s); cbn [c_obs c_rlog].
      * split; [apply mono_refl|quiet].
      * destruct (c_completed C (set_stopped true s)) as [s' is]. cbn [c_obs c_rlog].
        split; [apply mono_refl|quiet].
  - split; [apply mono_refl|quiet].
Qed.

Lemma step_shape_holds c : step_shape c (step c).
Proof.
  destruct c as [s m k l]. unfold Subject.step. cbn [c_k c_st c_obs c_rlog].
  destruct k as [|i k].
  - split; [apply mono_refl|]. left. exists []. split; [reflexivity|apply noGot_nil].
  - destruct i as [p|o n|o|o sub].
    + apply step_op_shape.
    + (* IDeliver *)
      unfold step_shape. cbn [c_obs c_rlog].
      destruct (m o) as [os|] eqn:Hm; cbn [c_obs c_rlog].
      * destruct (a_stopped os) eqn:Hst; cbn [c_obs c_rlog].
        -- split; [apply mono_refl|quiet].
        -- destruct n as [v|e|]; cbn [c_obs c_rlog].
           ++ split; [eapply mono_upd; [exact Hm|]; intros; congruence|].
              right. exists [], o, (Next v), (called false os).
              split; [reflexivity|]. split; [apply noGot_nil|].
              split; [intros os2 H2; congruence|]. split; [apply upd_same|discriminate].
           ++ split; [eapply mono_upd; [exact Hm|]; intros; congruence|].
              right. exists [], o, (Err e), (called true os).
              split; [reflexivity|]. split; [apply noGot_nil|].
              split; [intros os2 H2; congruence|]. split; [apply upd_same|].
              intros _. cbn. apply orb_true_r.
           ++ split; [eapply mono_upd; [exact Hm|]; intros; congruence|].
              right. exists [], o, Done, (called true os).
              split; [reflexivity|]. split; [apply noGot_nil|].
              split; [intros os2 H2; congruence|]. split; [apply upd_same|].
              intros _. cbn. apply orb_true_r.
      * split; [apply mono_refl|quiet].
    + (* IAdoFin *)
      unfold step_shape. cbn [c_obs c_rlog].
      destruct (m o) as [os|] eqn:Hm; cbn [c_obs c_rlog].
      * destruct (ado_dispose s os o) as [s' os'] eqn:E. cbn [c_obs c_rlog].
        split; [|quiet].
        eapply mono_upd; [exact Hm|]. intros _.
        change os' with (snd (s', os')). rewrite <- E. apply ado_dispose_stopped.
      * split; [apply mono_refl|quiet].
    + (* ISubRet *)
      unfold step_shape. cbn [c_obs c_rlog].
      destruct (m o) as [os|] eqn:Hm; cbn [c_obs c_rlog].
      * destruct sub as [sb|].
        -- destruct (sad_set sb s os o) as [s' os'] eqn:E. cbn [c_obs c_rlog].
           split; [|quiet].
           eapply mono_upd; [exact Hm|]. intros Hs. cbn.
           change os' with (snd (s', os')). rewrite <- E. now rewrite sad_set_stopped.
        -- cbn [c_obs c_rlog]. split; [|quiet].
           eapply mono_upd; [exact Hm|]. intros Hs. exact Hs.
      * split; [apply mono_refl|quiet].
Qed.

(* ---- run ------------------------------------------------------------------ *)
Lemma run_done n c : c_k c = [] -> run n c = c.
Proof. intros H. destruct n; cbn; [reflexivity|now rewrite H]. Qed.

Lemma step_done c : c_k c = [] -> step c = c.
Proof. intros H. unfold Subject.step. now rewrite H. Qed.

Lemma run_S n c : run (S n) c = run n (step c).
Proof.
  cbn. destruct (c_k c) eqn:E; [|reflexivity].
  rewrite (step_done c E). symmetry. now apply run_done.
Qed.

Lemma run_add n m c : run (n + m) c = run m (run n c).
Proof.
  revert c; induction n as [|n IH]; intros c; [reflexivity|].
  change (S n + m)%nat with (S (n + m)). rewrite !run_S. apply IH.
Qed.

Lemma run_ind (P : @cfg A -> Prop) :
  (forall c, P c -> P (step c)) -> forall n c, P c -> P (run n c).
Proof.
  intros Hs n; induction n as [|n IH]; intros c Hc; [exact Hc|].
  rewrite run_S. apply IH. now apply Hs.
Qed.

(* ---- G1: every observer's received sequence obeys the grammar -------------- *)
Definition wf_inv (c : @cfg A) : Prop :=
  forall o, wellformed (view o (log_of c)) = true /\
            (has_term (view o (log_of c)) = true ->
             exists os, c_obs c o = Some os /\ a_stopped os = true).

Lemma wf_inv_step c : wf_inv c -> wf_inv (step c).
Proof.
  intros I. destruct (step_shape_holds c) as [Hmono [[evs [Hl Hng]]|[pre [o [n [os' [Hl [Hng [Hlive [Hos' Hterm]]]]]]]]]].
  - intros o2. unfold log_of. rewrite Hl, rev_app_distr, view_app.
    rewrite (view_noGot o2 (rev evs)) by now apply noGot_rev.
    rewrite app_nil_r. destruct (I o2) as [Hw Ht]. split; [exact Hw|].
    intros H. destruct (Ht H) as [os [Ho Hs]]. destruct (Hmono o2 os Ho) as [os2 [Ho2 Hs2]]. eauto.
  - intros o2. unfold log_of. rewrite Hl. cbn [rev]. rewrite rev_app_distr, !view_app.
    rewrite (view_noGot o2 (rev pre)) by now apply noGot_rev. rewrite app_nil_r.
    destruct (I o2) as [Hw Ht]. fold (log_of c). cbn [view].
    destruct (Nat.eqb o o2) eqn:E.
    + apply Nat.eqb_eq in E. subst o2.
      assert (Hnt : has_term (view o (log_of c)) = false).
      { destruct (has_term (view o (log_of c))) eqn:Hh; [|reflexivity].
        destruct (Ht eq_refl) as [os [Ho Hs]]. rewrite (Hlive os Ho) in Hs. discriminate. }
      split.
      * rewrite wellformed_snoc, Hw, Hnt. reflexivity.
      * rewrite has_term_app, Hnt. cbn. rewrite orb_false_r. intros Hn. eauto.
    + rewrite app_nil_r. split; [exact Hw|].
      intros H. destruct (Ht H) as [os [Ho Hs]]. destruct (Hmono o2 os Ho) as [os2 [Ho2 Hs2]]. eauto.
Qed.

Lemma wf_inv_init v0 top : wf_inv (init_cfg v0 top).
Proof. intros o. cbn. split; [reflexivity|discriminate]. Qed.

Theorem views_wellformed v0 top fuel o :
  wellformed (view o (log_of (run fuel (init_cfg v0 top)))) = true.
Proof.
  apply (run_ind wf_inv wf_inv_step fuel (init_cfg v0 top) (wf_inv_init v0 top) o).
Qed.

(* ---- G2: a stopped wrapper never delivers again ---------------------------- *)
Lemma stopped_final_step c o os :
  c_obs c o = Some os -> a_stopped os = true ->
  view o (log_of (step c)) = view o (log_of c) /\
  exists os', c_obs (step c) o = Some os' /\ a_stopped os' = true.
Proof.
  intros Ho Hs.
  destruct (step_shape_holds c) as [Hmono [[evs [Hl Hng]]|[pre [o2 [n [os' [Hl [Hng [Hlive [Hos' Hterm]]]]]]]]]].
  - split.
    + unfold log_of. rewrite Hl, rev_app_distr, view_app.
      rewrite (view_noGot o (rev evs)) by now apply noGot_rev. now rewrite app_nil_r.
    + destruct (Hmono o os Ho) as [os2 [H2 Hs2]]. eauto.
  - split.
    + unfold log_of. rewrite Hl. cbn [rev]. rewrite rev_app_distr, !view_app.
      rewrite (view_noGot o (rev pre)) by now apply noGot_rev. cbn [view].
      destruct (Nat.eqb o2 o) eqn:E.
      * apply Nat.eqb_eq in E. subst o2. rewrite (Hlive os Ho) in Hs. discriminate.
      * now rewrite !app_nil_r.
    + destruct (Hmono o os Ho) as [os2 [H2 Hs2]]. eauto.
Qed.

Theorem stopped_final n : forall c o os,
  c_obs c o = Some os -> a_stopped os = true ->
  view o (log_of (run n c)) = view o (log_of c).
Proof.
  induction n as [|n IH]; intros c o os Ho Hs; [reflexivity|].
  rewrite run_S. destruct (stopped_final_step c o os Ho Hs) as [Hv [os' [Ho' Hs']]].
  rewrite (IH (step c) o os' Ho' Hs'). exact Hv.
Qed.

(* unsubscribing (the driver holds the handle) stops the wrapper at once, also
   from inside a callback and also in the middle of a delivery loop *)
Lemma unsub_stops s m k l o os :
  m o = Some os -> handle os = true ->
  exists os', c_obs (step (Cfg s m (IOp (OUnsub o) :: k) l)) o = Some os' /\ a_stopped os' = true.
Proof.
  intros Hm Hh. unfold Subject.step. cbn [c_k c_st c_obs c_rlog step_op]. rewrite Hm, Hh.
  destruct (ado_dispose s os o) as [s' os'] eqn:E. cbn [c_obs]. exists os'. split; [apply upd_same|].
  change os' with (snd (s', os')). rewrite <- E. apply ado_dispose_stopped.
Qed.

Theorem unsubscribed_gets_nothing_more s m k l o os n :
  m o = Some os -> handle os = true ->
  let c := Cfg s m (IOp (OUnsub o) :: k) l in
  view o (log_of (run n c)) = view o (rev l).
Proof.
  intros Hm Hh c. subst c. destruct n as [|n]; [reflexivity|].
  rewrite run_S. destruct (unsub_stops s m k l o os Hm Hh) as [os' [Ho' Hs']].
  rewrite (stopped_final n _ o os' Ho' Hs').
  unfold Subject.step. cbn [c_k c_st c_obs c_rlog step_op]. rewrite Hm, Hh.
  destruct (ado_dispose s os o) as [s' os2]. unfold log_of. cbn [c_rlog rev].
  rewrite view_app. cbn. now rewrite app_nil_r.
Qed.

(* a terminal notification received stops the wrapper: nothing follows it *)
Theorem after_terminal_nothing c o :
  wf_inv c -> has_term (view o (log_of c)) = true ->
  forall n, view o (log_of (run n c)) = view o (log_of c).
Proof.
  intros I H n. destruct (I o) as [_ Ht]. destruct (Ht H) as [os [Ho Hs]].
  exact (stopped_final n c o os Ho Hs).
Qed.

End Facts.
