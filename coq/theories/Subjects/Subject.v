(* Subject / BehaviorSubject / AsyncSubject: the shared execution engine and the
   Subject class itself (C20).  Executable model, no proofs.

   A HISTORY is a tree of calls: a list of top-level operations plus, for every
   observer [o] and every k, the operations [react o k] which the observer
   performs from INSIDE its k-th callback (unsubscribe itself or somebody else,
   subscribe a new observer, emit, dispose the subject ...).  Python calls are
   synchronous and depth first, so the pending work is one stack of
   instructions ([list instr], the continuation): executing an emission pushes
   one [IDeliver] per observer of the snapshot `self.observers.copy()`, a
   delivery pushes the observer's reaction in front of the remaining
   deliveries.  [step] executes exactly one instruction; [run] iterates it.

   Every external subscriber is wrapped by Observable.subscribe in an
   AutoDetachObserver; it is modelled per observer ([ostate]) together with the
   SingleAssignmentDisposable it owns and the InnerSubscription stored in it.

   The driver (harness/subj.py, mirrored here) wraps EVERY operation, nested
   ones included, in try/except and logs the exception: user callbacks never
   raise into the library (raising callbacks: C09).  A [OSub o] for an id that
   was used before is skipped by the driver, an [OUnsub o] whose subscribe()
   has not returned yet finds no handle and is skipped.

   The three classes differ only in the methods they override; [cls] is that
   method table (Python's virtual dispatch). *)
From RxVerif Require Import Base.Prelude Ops.Machine.

(* k2.LIB_ERRORS["DisposedException"] *)
Definition disposed_exn : Z := -11.

(* what _subscribe_core returns *)
Inductive subscription := SInner  (* InnerSubscription(self, observer) *)
                        | SPlain. (* Disposable() *)

Section Sync.
Context {A : Type}.

Inductive op :=
| OSub (o : nat)          (* h[o] = subject.subscribe(LoggingObserver(o)) *)
| OUnsub (o : nat)        (* h[o].dispose() *)
| ONext (v : A)           (* subject.on_next(v) *)
| OErr (e : Z)            (* subject.on_error(UserError(e)) *)
| ODone                   (* subject.on_completed() *)
| ODispose.               (* subject.dispose() *)

(* the observable log *)
Inductive event :=
| EOp (p : op)                    (* the driver starts operation p *)
| EGot (o : nat) (n : ev A)       (* observer o's callback is invoked with n *)
| ERaised (e : Z).                (* the operation raised e to its caller *)

Inductive instr :=
| IOp (p : op)
| IDeliver (o : nat) (n : ev A)   (* the subject calls on_next/on_error/on_completed of o's AutoDetachObserver *)
| IAdoFin (o : nat)               (* `finally: self.dispose()` of AutoDetachObserver.on_error/on_completed *)
| ISubRet (o : nat) (s : option subscription).
   (* _subscribe_core returned s (None: it raised and fail() handled it):
      `auto_detach_observer.subscription = s`, then subscribe() returns and the driver stores the handle *)

(* reactivex/subject/subject.py Subject.__init__ (+ value/has_value of the subclasses),
   reactivex/observer/observer.py Observer.__init__ (is_stopped) *)
Record sstate := SState {
  observers : list nat;
  is_stopped : bool;
  is_disposed : bool;
  exception : option Z;
  value : A;
  has_value : bool }.

Definition set_observers (l : list nat) (s : sstate) :=
  SState l (is_stopped s) (is_disposed s) (exception s) (value s) (has_value s).
Definition set_stopped (b : bool) (s : sstate) :=
  SState (observers s) b (is_disposed s) (exception s) (value s) (has_value s).
Definition set_disposed (b : bool) (s : sstate) :=
  SState (observers s) (is_stopped s) b (exception s) (value s) (has_value s).
Definition set_exception (e : option Z) (s : sstate) :=
  SState (observers s) (is_stopped s) (is_disposed s) e (value s) (has_value s).
Definition set_value (v : A) (s : sstate) :=
  SState (observers s) (is_stopped s) (is_disposed s) (exception s) v (has_value s).
Definition set_has_value (b : bool) (s : sstate) :=
  SState (observers s) (is_stopped s) (is_disposed s) (exception s) (value s) b.

(* reactivex/observer/autodetachobserver.py AutoDetachObserver.__init__,
   reactivex/disposable/singleassignmentdisposable.py (is_disposed, current),
   reactivex/subject/innersubscription.py (observer),
   and the driver's bookkeeping (handle, calls) *)
Record ostate := OState {
  a_stopped : bool;                   (* AutoDetachObserver.is_stopped *)
  sad_disposed : bool;                (* _subscription.is_disposed *)
  sad_cur : option subscription;      (* _subscription.current *)
  inner_obs : bool;                   (* InnerSubscription.observer is not None *)
  handle : bool;                      (* subscribe() has returned: the driver holds the disposable *)
  calls : nat }.                      (* callbacks received so far *)

Definition fresh_ostate := OState false false None true false 0.

Definition omap := nat -> option ostate.
Definition upd (m : omap) (o : nat) (x : ostate) : omap :=
  fun o' => if Nat.eqb o' o then Some x else m o'.

(* the overridable methods.  c_subscribe = _subscribe_core: None = raises
   DisposedException; otherwise the new state, the calls it makes on the
   observer, and the disposable it returns *)
Record cls := Cls {
  c_subscribe : sstate -> nat -> option (sstate * list instr * subscription);
  c_next : sstate -> A -> sstate * list instr;        (* _on_next_core *)
  c_error : sstate -> Z -> sstate * list instr;       (* _on_error_core *)
  c_completed : sstate -> sstate * list instr;        (* _on_completed_core *)
  c_dispose : sstate -> sstate }.

(* list.remove(x): the first occurrence *)
Fixpoint remove1 (o : nat) (l : list nat) : list nat :=
  match l with
  | [] => []
  | x :: t => if Nat.eqb x o then t else x :: remove1 o t
  end.
Definition mem (o : nat) (l : list nat) : bool := existsb (Nat.eqb o) l.

(* ---- reactivex/subject/subject.py ------------------------------------- *)

(* Subject._subscribe_core *)
Definition subj_subscribe (s : sstate) (o : nat) : option (sstate * list instr * subscription) :=
  if is_disposed s then None                                   (* check_disposed *)
  else if negb (is_stopped s) then
    Some (set_observers (observers s ++ [o]) s, [], SInner)
  else match exception s with
       | Some e => Some (s, [IDeliver o (Err e)], SPlain)
       | None => Some (s, [IDeliver o Done], SPlain)
       end.

(* Subject._on_next_core: observers = self.observers.copy(); for observer in observers: observer.on_next(value) *)
Definition subj_next (s : sstate) (v : A) : sstate * list instr :=
  (s, map (fun o => IDeliver o (Next v)) (observers s)).

(* Subject._on_error_core *)
Definition subj_error (s : sstate) (e : Z) : sstate * list instr :=
  (set_exception (Some e) (set_observers [] s), map (fun o => IDeliver o (Err e)) (observers s)).

(* Subject._on_completed_core *)
Definition subj_completed (s : sstate) : sstate * list instr :=
  (set_observers [] s, map (fun o => IDeliver o Done) (observers s)).

(* Subject.dispose (super().dispose() = Observer.dispose: is_stopped = True) *)
Definition subj_dispose (s : sstate) : sstate :=
  set_stopped true (set_exception None (set_observers [] (set_disposed true s))).

Definition subject_cls : cls :=
  Cls subj_subscribe subj_next subj_error subj_completed subj_dispose.

(* ---- the engine ---------------------------------------------------------- *)
Section Engine.
Context (C : cls).
Context (react : nat -> nat -> list op).   (* what observer o does inside its k-th callback *)

Record cfg := Cfg { c_st : sstate; c_obs : omap; c_k : list instr; c_rlog : list event (* newest first *) }.

(* reactivex/subject/innersubscription.py InnerSubscription.dispose *)
Definition inner_dispose (s : sstate) (os : ostate) (o : nat) : sstate * ostate :=
  if negb (is_disposed s) && inner_obs os then
    (if mem o (observers s) then set_observers (remove1 o (observers s)) s else s,
     OState (a_stopped os) (sad_disposed os) (sad_cur os) false (handle os) (calls os))
  else (s, os).

Definition sub_dispose (sub : subscription) (s : sstate) (os : ostate) (o : nat) : sstate * ostate :=
  match sub with SInner => inner_dispose s os o | SPlain => (s, os) end.

(* AutoDetachObserver.dispose: is_stopped = True; self._subscription.dispose()
   (SingleAssignmentDisposable.dispose).  The Disposable(auto_detach_observer.dispose)
   handed to the caller runs this at most once; a second run would change nothing. *)
Definition ado_dispose (s : sstate) (os : ostate) (o : nat) : sstate * ostate :=
  let os1 := OState true (sad_disposed os) (sad_cur os) (inner_obs os) (handle os) (calls os) in
  if sad_disposed os1 then (s, os1)
  else
    let os2 := OState true true None (inner_obs os1) (handle os1) (calls os1) in
    match sad_cur os1 with
    | Some sub => sub_dispose sub s os2 o
    | None => (s, os2)
    end.

(* SingleAssignmentDisposable.set_disposable (current is None here: one assignment per observer) *)
Definition sad_set (sub : subscription) (s : sstate) (os : ostate) (o : nat) : sstate * ostate :=
  if sad_disposed os then sub_dispose sub s os o
  else (s, OState (a_stopped os) false (Some sub) (inner_obs os) (handle os) (calls os)).

Definition with_handle (os : ostate) :=
  OState (a_stopped os) (sad_disposed os) (sad_cur os) (inner_obs os) true (calls os).
Definition called (stop : bool) (os : ostate) :=
  OState (a_stopped os || stop) (sad_disposed os) (sad_cur os) (inner_obs os) (handle os) (S (calls os)).

Definition step_op (p : op) (s : sstate) (m : omap) (k : list instr) (l : list event) : cfg :=
  let l := EOp p :: l in
  match p with
  | OSub o =>
      match m o with
      | Some _ => Cfg s m k l                                     (* driver: id already used *)
      | None =>
          (* reactivex/observable/observable.py Observable.subscribe / set_disposable *)
          match c_subscribe C s o with
          | Some (s', is, sub) => Cfg s' (upd m o fresh_ostate) (is ++ ISubRet o (Some sub) :: k) l
          | None =>
              (* auto_detach_observer.fail(ex): is_stopped = True; self._on_error(exn) *)
              Cfg s (upd m o (called true fresh_ostate))
                  (map IOp (react o 0) ++ ISubRet o None :: k)
                  (EGot o (Err disposed_exn) :: l)
          end
      end
  | OUnsub o =>
      match m o with
      | Some os => if handle os then let '(s', os') := ado_dispose s os o in Cfg s' (upd m o os') k l
                   else Cfg s m k l
      | None => Cfg s m k l
      end
  | ONext v =>
      (* Subject.on_next: check_disposed; Observer.on_next: if not self.is_stopped *)
      if is_disposed s then Cfg s m k (ERaised disposed_exn :: l)
      else if is_stopped s then Cfg s m k l
      else let '(s', is) := c_next C s v in Cfg s' m (is ++ k) l
  | OErr e =>
      (* Subject.on_error; Observer.on_error: if not is_stopped: is_stopped = True; _on_error_core *)
      if is_disposed s then Cfg s m k (ERaised disposed_exn :: l)
      else if is_stopped s then Cfg s m k l
      else let '(s', is) := c_error C (set_stopped true s) e in Cfg s' m (is ++ k) l
  | ODone =>
      if is_disposed s then Cfg s m k (ERaised disposed_exn :: l)
      else if is_stopped s then Cfg s m k l
      else let '(s', is) := c_completed C (set_stopped true s) in Cfg s' m (is ++ k) l
  | ODispose => Cfg (c_dispose C s) m k l
  end.

Definition step (c : cfg) : cfg :=
  match c_k c with
  | [] => c
  | i :: k =>
      let s := c_st c in let m := c_obs c in let l := c_rlog c in
      match i with
      | IOp p => step_op p s m k l
      | IDeliver o n =>
          (* reactivex/observer/autodetachobserver.py on_next / on_error / on_completed *)
          match m o with
          | None => Cfg s m k l
          | Some os =>
              if a_stopped os then Cfg s m k l
              else match n with
                   | Next _ => Cfg s (upd m o (called false os)) (map IOp (react o (calls os)) ++ k)
                                   (EGot o n :: l)
                   | _ => Cfg s (upd m o (called true os))
                              (map IOp (react o (calls os)) ++ IAdoFin o :: k) (EGot o n :: l)
                   end
          end
      | IAdoFin o =>
          match m o with
          | None => Cfg s m k l
          | Some os => let '(s', os') := ado_dispose s os o in Cfg s' (upd m o os') k l
          end
      | ISubRet o sub =>
          match m o with
          | None => Cfg s m k l
          | Some os =>
              match sub with
              | Some sb => let '(s', os') := sad_set sb s os o in Cfg s' (upd m o (with_handle os')) k l
              | None => Cfg s (upd m o (with_handle os)) k l
              end
          end
      end
  end.

Fixpoint run (fuel : nat) (c : cfg) : cfg :=
  match fuel with
  | O => c
  | S f => match c_k c with [] => c | _ => run f (step c) end
  end.

Definition init_state (v0 : A) : sstate := SState [] false false None v0 false.
Definition init_cfg (v0 : A) (top : list op) : cfg :=
  Cfg (init_state v0) (fun _ => None) (map IOp top) [].

Definition log_of (c : cfg) : list event := rev (c_rlog c).
Definition finished (c : cfg) : bool := match c_k c with [] => true | _ => false end.

(* what observer o received *)
Fixpoint view (o : nat) (l : list event) : list (ev A) :=
  match l with
  | [] => []
  | EGot o' n :: t => if Nat.eqb o' o then n :: view o t else view o t
  | _ :: t => view o t
  end.
End Engine.

End Sync.

Arguments OSub {A} o. Arguments OUnsub {A} o. Arguments ONext {A} v. Arguments OErr {A} e.
Arguments ODone {A}. Arguments ODispose {A}.
Arguments EOp {A} p. Arguments EGot {A} o n. Arguments ERaised {A} e.
Arguments IOp {A} p. Arguments IDeliver {A} o n. Arguments IAdoFin {A} o. Arguments ISubRet {A} o s.

(* ---- helpers for generated correspondence cases (A := Z) ----------------- *)
Definition op_eqb (a b : @op Z) : bool :=
  match a, b with
  | OSub x, OSub y | OUnsub x, OUnsub y => Nat.eqb x y
  | ONext x, ONext y | OErr x, OErr y => x =? y
  | ODone, ODone | ODispose, ODispose => true
  | _, _ => false
  end.

Definition evz_eqb (a b : ev Z) : bool :=
  match a, b with
  | Next x, Next y => x =? y
  | Err x, Err y => x =? y
  | Done, Done => true
  | _, _ => false
  end.

Definition event_eqb (a b : @event Z) : bool :=
  match a, b with
  | EOp p, EOp q => op_eqb p q
  | EGot o n, EGot o' n' => Nat.eqb o o' && evz_eqb n n'
  | ERaised e, ERaised f => e =? f
  | _, _ => false
  end.

(* finite reaction tables: [(o, [ops of callback 0; ops of callback 1; ...])] *)
Fixpoint react_tbl {A} (t : list (nat * list (list (@op A)))) (o k : nat) : list (@op A) :=
  match t with
  | [] => []
  | (o', sc) :: r => if Nat.eqb o' o then nth k sc [] else react_tbl r o k
  end.

(* a history: class-independent part *)
Definition history (A : Type) := (list (@op A) * list (nat * list (list (@op A))))%type.

Definition run_history {A} (C : @cls A) (v0 : A) (fuel : nat) (h : history A) : list (@event A) * bool :=
  let c := run C (react_tbl (snd h)) fuel (init_cfg v0 (fst h)) in (log_of c, finished c).
