(* BehaviorSubject (C21): the methods it overrides, run by the engine of
   Subjects/Subject.v.  Executable model, no proofs. *)
From RxVerif Require Import Base.Prelude Ops.Machine Subjects.Subject.

Section Behavior.
Context {A : Type}.
Context (pynone : A).     (* Python's None as an element: dispose() sets value = cast(_T, None) *)

(* reactivex/subject/behaviorsubject.py BehaviorSubject._subscribe_core
   (`if ex:` -- an exception object is truthy) *)
Definition beh_subscribe (s : @sstate A) (o : nat) : option (sstate * list instr * subscription) :=
  if is_disposed s then None                                   (* check_disposed *)
  else if negb (is_stopped s) then
    Some (set_observers (observers s ++ [o]) s, [IDeliver o (Next (value s))], SInner)
  else match exception s with
       | Some e => Some (s, [IDeliver o (Err e)], SPlain)
       | None => Some (s, [IDeliver o Done], SPlain)
       end.

(* BehaviorSubject._on_next_core *)
Definition beh_next (s : @sstate A) (v : A) : sstate * list instr :=
  (set_value v s, map (fun o => IDeliver o (Next v)) (observers s)).

(* BehaviorSubject.dispose *)
Definition beh_dispose (s : @sstate A) : sstate := subj_dispose (set_value pynone s).

(* BehaviorSubject(value): __init__ stores the initial value; _on_error_core and
   _on_completed_core are inherited from Subject *)
Definition behavior_cls : cls := Cls beh_subscribe beh_next subj_error subj_completed beh_dispose.
End Behavior.
