(* The specification ReplaySubject is proved against (Subjects/ReplayFacts.v,
   Subjects/ReplayTreeFacts.v).  Definitions only.

   [retained]  the closed form of the retention policy: the last buffer_size
               values whose age is within the window;
   [rg]        the subject's status as a function of the calls made so far
               (live / ended / disposed, virtual clock, every value accepted with
               its time) -- independent of who is subscribed;
   [xview o]   what observer o is ENTITLED to, as a function of the sequence of
               calls in the order they were made (top-level and nested alike):
               nothing before its subscribe call; at that call the retained
               values in order, then the terminal notification if the subject
               has ended (or only DisposedException after dispose()); afterwards
               the notification of every emission that takes effect, in call order. *)
From RxVerif Require Import Base.Prelude Ops.Machine Subjects.Subject Subjects.Family Subjects.Replay.

Section RSpec.
Context {A : Type} (b : Z) (w : option Z).

Definition fresh_enough (now : Z) (x : Z * A) : bool := negb (too_old now w (fst x)).
Definition lastn {X} (n : nat) (l : list X) : list X := skipn (length l - n) l.
Definition retained (now : Z) (all : list (Z * A)) : list (Z * A) :=
  filter (fresh_enough now) (lastn (Z.to_nat b) all).

Record rg := RG { rg_status : @status A; rg_clock : Z; rg_all : list (Z * A) }.

Definition rg_live (g : rg) : bool := match rg_status g with Live => true | _ => false end.

Definition rg_step (g : rg) (p : @rop A) : rg :=
  match p with
  | RDispose => RG Disposed (rg_clock g) []
  | RNext v => if rg_live g then RG Live (rg_clock g) (rg_all g ++ [(rg_clock g, v)]) else g
  | RErr e => if rg_live g then RG (Ended (Err e)) (rg_clock g) (rg_all g) else g
  | RDone => if rg_live g then RG (Ended Done) (rg_clock g) (rg_all g) else g
  | RAdvance d => if d <? 0 then g else RG (rg_status g) (rg_clock g + d) (rg_all g)
  | _ => g
  end.

Fixpoint rg_run (g : rg) (ops : list (@rop A)) : rg :=
  match ops with [] => g | p :: t => rg_run (rg_step g p) t end.

Definition rg_init : rg := RG Live 0 [].

Definition replayed (g : rg) : list (ev A) :=
  map (fun x => Next (snd x)) (retained (rg_clock g) (rg_all g)).

(* what a new subscriber is handed inside subscribe() *)
Definition rgreet (g : rg) : list (ev A) :=
  match rg_status g with
  | Disposed => [Err disposed_exn]
  | Live => replayed g
  | Ended t => replayed g ++ [t]
  end.

(* the notification of a call that takes effect *)
Definition rnote (g : rg) (p : @rop A) : list (ev A) :=
  if rg_live g then
    match p with RNext v => [Next v] | RErr e => [Err e] | RDone => [Done] | _ => [] end
  else [].

Fixpoint xview (o : nat) (subscribed : bool) (g : rg) (ops : list (@rop A)) : list (ev A) :=
  match ops with
  | [] => []
  | p :: t =>
      let g' := rg_step g p in
      if subscribed then rnote g p ++ xview o true g' t
      else match p with
           | RSub o' => if Nat.eqb o' o then rgreet g ++ xview o true g' t else xview o false g' t
           | _ => xview o false g' t
           end
  end.
End RSpec.

(* the calls of a log, in the order they were made *)
Definition ops_of {A} (l : list (@revent A)) : list (@rop A) :=
  flat_map (fun e => match e with REOp p => [p] | _ => [] end) l.

Definition prefix {X} (l1 l2 : list X) : Prop := exists r, l2 = l1 ++ r.

Definition bufsize_of (bs : option Z) : Z := match bs with Some x => x | None => maxsize end.
