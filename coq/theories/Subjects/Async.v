(* AsyncSubject (C23): the methods it overrides, run by the engine of
   Subjects/Subject.v.  Executable model, no proofs. *)
From RxVerif Require Import Base.Prelude Ops.Machine Subjects.Subject.

Section Async.
Context {A : Type}.
Context (pynone : A).     (* Python's None as an element: value = cast(_T, None) *)

(* reactivex/subject/asyncsubject.py AsyncSubject._subscribe_core: ex, has_value,
   value are read under the lock, the calls on the observer follow
   (`if ex:` -- an exception object is truthy) *)
Definition async_subscribe (s : @sstate A) (o : nat) : option (sstate * list instr * subscription) :=
  if is_disposed s then None                                   (* check_disposed *)
  else if negb (is_stopped s) then
    Some (set_observers (observers s ++ [o]) s, [], SInner)
  else match exception s with
       | Some e => Some (s, [IDeliver o (Err e)], SPlain)
       | None => if has_value s then Some (s, [IDeliver o (Next (value s)); IDeliver o Done], SPlain)
                 else Some (s, [IDeliver o Done], SPlain)
       end.

(* AsyncSubject._on_next_core *)
Definition async_next (s : @sstate A) (v : A) : sstate * list (@instr A) :=
  (set_has_value true (set_value v s), []).

(* AsyncSubject._on_completed_core *)
Definition async_completed (s : @sstate A) : sstate * list instr :=
  (set_observers [] s,
   if has_value s
   then flat_map (fun o => [IDeliver o (Next (value s)); IDeliver o Done]) (observers s)
   else map (fun o => IDeliver o Done) (observers s)).

(* AsyncSubject.dispose *)
Definition async_dispose (s : @sstate A) : sstate := subj_dispose (set_value pynone s).

(* _on_error_core is inherited from Subject; __init__: value = None, has_value = False *)
Definition async_cls : cls := Cls async_subscribe async_next subj_error async_completed async_dispose.
End Async.
