(* ReplaySubject with BOTH ways its scheduler can run the ScheduledObserver
   drains (C22).  Executable model, no proofs.  State, ScheduledObserver,
   disposables and the subject's methods are those of Subjects/Replay.v; what
   changes is WHEN a scheduled `run` executes:

   sync = false  a virtual-time scheduler: schedule() only queues; the driver
                 drains the queue after every top-level call (Subjects/Replay.v
                 is this mode with the per-observer ensure_active calls of one
                 emission fused into one step).
   sync = true   the default CurrentThreadScheduler (a trampoline: one FIFO
                 queue per thread): schedule() queues the action and, if the
                 trampoline is IDLE, runs the queue to exhaustion right there,
                 inside the caller; if it is already running (the call comes
                 from inside an action, i.e. from an observer callback) the
                 action is only queued and runs when the running loop gets to it.
                 reactivex/scheduler/trampoline.py Trampoline.run/_run,
                 trampolinescheduler.py schedule/schedule_required.
                 Observable.subscribe uses the same trampoline: at top level
                 subscribe() runs _subscribe_core as a trampoline action, so
                 the replay is delivered before subscribe() returns; from
                 inside a callback it calls _subscribe_core directly.
   The trampoline is idle exactly when the driver makes a top-level call:
   callbacks only run inside trampoline actions.  So every instruction carries
   [top] = issued at top level, and "runs inline" is [sync && top].

   Because an inline drain runs observer callbacks BETWEEN the per-observer
   steps of one emission, emissions are not atomic here: on_next first queues
   the value on every ScheduledObserver of the snapshot, then calls
   ensure_active observer by observer ([SIEnsure]); on_error / on_completed do
   `observer.on_xxx(); observer.ensure_active()` observer by observer
   ([SIOnEnsure]).  reactivex/subject/replaysubject.py.

   In sync mode the scheduler clock is the wall clock: the model's clock does
   not move (the harness uses no window in that mode). *)
From RxVerif Require Import Base.Prelude Ops.Machine Subjects.Subject Subjects.Replay.

Section Sched.
Context {A : Type}.

Inductive sinstr :=
| SIOp (top : bool) (p : @rop A)
| SIEnsure (top : bool) (o : nat)                 (* second loop of _on_next_core: observer.ensure_active() *)
| SIOnEnsure (top : bool) (o : nat) (t : ev A)    (* _on_error_core/_on_completed_core: observer.on_xxx(); ensure_active() *)
| SIDeliver (o : nat) (n : ev A)
| SIAdoFin (o : nat)
| SIResched (o : nat)
| SIHandle (o : nat)
| SIDrain.                                        (* Trampoline._run / VirtualTimeScheduler.start: the loop *)

Record scfg := SCfg { sc_st : @rstate A; sc_obs : @romap A; sc_k : list sinstr; sc_rlog : list (@revent A) }.

Section Engine.
Context (sync : bool) (react : nat -> nat -> list (@rop A)).

(* does a schedule() issued here run the queue inline? *)
Definition inl (top : bool) : bool := sync && top.
Definition drain_if (top : bool) (k : list sinstr) : list sinstr := if inl top then SIDrain :: k else k.

Definition sstep_op (top : bool) (p : @rop A) (s : @rstate A) (m : @romap A) (k : list sinstr)
  (l : list (@revent A)) : scfg :=
  let l := REOp p :: l in
  match p with
  | RSub o =>
      match m o with
      | Some _ => SCfg s m k l
      | None =>
          if r_disposed s then
            (* _subscribe_core raises; Observable.subscribe: auto_detach_observer.fail(ex) *)
            SCfg s (rupd m o (rcalled true fresh_rostate))
                 (map (SIOp false) (react o 0) ++ drain_if top (SIHandle o :: k))
                 (REGot o (Err disposed_exn) :: l)
          else
            let s1 := trim s in
            let s2 := with_observers (r_observers s1 ++ [o]) s1 in
            let so1 := fold_left (fun so it => so_on (Next (snd it)) so) (r_queue s2) fresh_so in
            let so2 := match r_exception s2 with
                       | Some e => so_on (Err e) so1
                       | None => if r_stopped s2 then so_on Done so1 else so1
                       end in
            let '(s3, so3) := ensure_active o s2 so2 in
            (* the scheduled run is only queued here (subscribe() itself is a trampoline action at top
               level); it runs before subscribe() returns iff the trampoline was idle *)
            if inl top then SCfg s3 (rupd m o (ROState false false true false 0 so3)) (SIDrain :: SIHandle o :: k) l
            else SCfg s3 (rupd m o (ROState false false true true 0 so3)) k l
      end
  | RUnsub o =>
      match m o with
      | Some os => if r_handle os then let '(s', os') := rado_dispose s os o in SCfg s' (rupd m o os') k l
                   else SCfg s m k l
      | None => SCfg s m k l
      end
  | RNext v =>
      if r_disposed s then SCfg s m k (RERaised disposed_exn :: l)
      else if r_stopped s then SCfg s m k l
      else
        let snap := r_observers s in
        let s1 := trim (with_queue (r_queue s ++ [(r_clock s, v)]) s) in
        let '(s2, m2) := so_each (fun _ s so => (s, so_on (Next v) so)) snap s1 m in
        SCfg s2 m2 (map (SIEnsure top) snap ++ k) l
  | RErr e =>
      if r_disposed s then SCfg s m k (RERaised disposed_exn :: l)
      else if r_stopped s then SCfg s m k l
      else
        let snap := r_observers s in
        let s1 := trim (with_exception (Some e) (with_observers [] (with_stopped true s))) in
        SCfg s1 m (map (fun o => SIOnEnsure top o (Err e)) snap ++ k) l
  | RDone =>
      if r_disposed s then SCfg s m k (RERaised disposed_exn :: l)
      else if r_stopped s then SCfg s m k l
      else
        let snap := r_observers s in
        let s1 := trim (with_observers [] (with_stopped true s)) in
        SCfg s1 m (map (fun o => SIOnEnsure top o Done) snap ++ k) l
  | RDispose =>
      SCfg (with_stopped true (with_exception None (with_observers [] (with_disposed true (with_queue [] s))))) m k l
  | RAdvance d =>
      if d <? 0 then SCfg s m k (RERaised out_of_range_exn :: l)
      else SCfg (with_clock (r_clock s + d) s) m k l
  end.

Definition sstep (c : scfg) : scfg :=
  match sc_k c with
  | [] => c
  | i :: k =>
      let s := sc_st c in let m := sc_obs c in let l := sc_rlog c in
      match i with
      | SIOp top p => sstep_op top p s m k l
      | SIEnsure top o =>
          match m o with
          | None => SCfg s m k l
          | Some os => let '(s', so') := ensure_active o s (r_so os) in
                       SCfg s' (rupd m o (set_so os so')) (drain_if top k) l
          end
      | SIOnEnsure top o t =>
          match m o with
          | None => SCfg s m k l
          | Some os => let '(s', so') := ensure_active o s (so_on t (r_so os)) in
                       SCfg s' (rupd m o (set_so os so')) (drain_if top k) l
          end
      | SIDrain =>
          match r_sched s with
          | [] => SCfg s m k l
          | (_, o, cancelled) :: rest =>
              let s1 := with_sched rest (r_fresh s) s in
              if cancelled then SCfg s1 m (SIDrain :: k) l
              else match m o with
                   | None => SCfg s1 m (SIDrain :: k) l
                   | Some os =>
                       let so := r_so os in
                       match so_queue so with
                       | [] => SCfg s1 (rupd m o (set_so os (SoState (so_stopped so) [] false (so_faulted so)
                                                                (ser_disposed so) (ser_cur so))))
                                    (SIDrain :: k) l
                       | n :: q => SCfg s1 (rupd m o (set_so os (SoState (so_stopped so) q (so_acquired so)
                                                                   (so_faulted so) (ser_disposed so) (ser_cur so))))
                                        (SIDeliver o n :: SIResched o :: SIDrain :: k) l
                       end
                   end
          end
      | SIResched o =>
          SCfg (with_sched (r_sched s ++ [(r_fresh s, o, false)]) (S (r_fresh s)) s) m k l
      | SIDeliver o n =>
          match m o with
          | None => SCfg s m k l
          | Some os =>
              if ra_stopped os then SCfg s m k l
              else match n with
                   | Next _ => SCfg s (rupd m o (rcalled false os))
                                    (map (SIOp false) (react o (r_calls os)) ++ k) (REGot o n :: l)
                   | _ => SCfg s (rupd m o (rcalled true os))
                               (map (SIOp false) (react o (r_calls os)) ++ SIAdoFin o :: k) (REGot o n :: l)
                   end
          end
      | SIAdoFin o =>
          match m o with
          | None => SCfg s m k l
          | Some os => let '(s', os') := rado_dispose s os o in SCfg s' (rupd m o os') k l
          end
      | SIHandle o =>
          match m o with
          | None => SCfg s m k l
          | Some os => SCfg s (rupd m o (rwith_handle os)) k l
          end
      end
  end.

Fixpoint srun (fuel : nat) (c : scfg) : scfg :=
  match fuel with
  | O => c
  | S f => match sc_k c with [] => c | _ => srun f (sstep c) end
  end.

Definition sinit_cfg (bs w : option Z) (top : list (@rop A)) : scfg :=
  SCfg (rinit_state bs w) (fun _ => None)
       (if sync then map (SIOp true) top else flat_map (fun p => [SIOp true p; SIDrain]) top) [].

Definition slog_of (c : scfg) : list (@revent A) := rev (sc_rlog c).
Definition sfinished (c : scfg) : bool := match sc_k c with [] => true | _ => false end.
End Engine.
End Sched.

Definition run_shistory {A} (sync : bool) (bs w : option Z) (fuel : nat) (h : rhistory A)
  : list (@revent A) * bool :=
  let c := srun sync (rreact_tbl (snd h)) fuel (sinit_cfg sync bs w (fst h)) in (slog_of c, sfinished c).

(* ---- the virtual-time scheduler drained EXPLICITLY (C22, harness mode 'explicit') ----
   The top level is a PROGRAM of calls and drains: [XOp p] = the driver makes the call
   p, [XDrain] = the driver runs the scheduler to exhaustion
   (VirtualTimeScheduler.start(): the [SIDrain] loop above).  Between two drains the
   scheduled ScheduledObserver.run actions stay queued in [r_sched], so a top-level
   unsubscribe / emission / subscribe / clock advance can happen WHILE replay items
   are still queued (subscribe, then unsubscribe before the scheduler runs: the item is
   cancelled through RemovableDisposable.dispose -> ScheduledObserver.dispose; two
   emissions batched before one drain; ...).  A clock advance does not reorder the
   queue: every action is scheduled for `now` and the clock never decreases, so due
   times are monotone in insertion order.
   [sinit_cfg false] is the special case `a drain after every call`, [sinit_cfg true]
   the special case `no explicit drain` (ReplayDrainFacts.sinit_cfg_is_xinit); the
   engine ([sstep], [srun]) is unchanged. *)
Inductive xtop {A : Type} := XOp (p : @rop A) | XDrain.
Arguments xtop A : clear implicits.

Definition xinstr {A} (x : xtop A) : @sinstr A :=
  match x with XOp p => SIOp true p | XDrain => SIDrain end.

Definition xinit_cfg {A} (bs w : option Z) (prog : list (xtop A)) : @scfg A :=
  SCfg (rinit_state bs w) (fun _ => None) (map xinstr prog) [].

Definition xhistory (A : Type) := (list (xtop A) * list (nat * list (list (@rop A))))%type.

Definition run_xhistory {A} (sync : bool) (bs w : option Z) (fuel : nat) (h : xhistory A)
  : list (@revent A) * bool :=
  let c := srun sync (rreact_tbl (snd h)) fuel (xinit_cfg bs w (fst h)) in (slog_of c, sfinished c).
