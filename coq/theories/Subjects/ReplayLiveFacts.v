(* C22, the completeness half on ARBITRARY call trees: no lost wake-up.
   ScheduledObserver.ensure_active / run and the scheduler never leave a
   notification sitting in a queue: whenever an observer whose wrapper is not
   stopped has something queued, a `run` action for it is scheduled (and not
   cancelled) or about to be re-scheduled.  Hence at the end of every finished
   run its queue is empty and -- with Subjects/ReplayTreeFacts.v -- it has
   received EXACTLY what the specification entitles it to. *)
From Coq Require Import Sorting.Sorted.
From RxVerif Require Import Base.Prelude Ops.Machine Subjects.Subject Subjects.Family Subjects.Replay
  Subjects.ReplaySpec Subjects.SubjectFacts Subjects.FamilyFacts Subjects.ReplayFacts Subjects.ReplayTreeFacts.

Section Live.
Context {A : Type} (react : nat -> nat -> list (@rop A)).

Notation rstep := (rstep react).

Definition ids (q : list (nat * nat * bool)) : list nat := map (fun it => fst (fst it)) q.

Definition L1 (s : @rstate A) : Prop :=
  NoDup (ids (r_sched s)) /\ forall i, In i (ids (r_sched s)) -> (i < r_fresh s)%nat.

(* a `run` of o's ScheduledObserver is going to happen *)
Definition runner (o : nat) (s : @rstate A) (k : list (@rinstr A)) : Prop :=
  (exists i, In (i, o, false) (r_sched s)) \/ In (RIResched o) k.

Definition so_J (o : nat) (os : @rostate A) (s : @rstate A) (k : list (@rinstr A)) : Prop :=
  so_faulted (r_so os) = false /\
  (forall i, ser_cur (r_so os) = Some i ->
     (i < r_fresh s)%nat /\ forall o2 c, In (i, o2, c) (r_sched s) -> o2 = o) /\
  (ra_stopped os = false ->
     ser_disposed (r_so os) = false /\ (so_acquired (r_so os) = true -> runner o s k)).

Definition J (s : @rstate A) (m : @romap A) (k : list (@rinstr A)) : Prop :=
  L1 s /\ forall o os, m o = Some os -> so_J o os s k.

(* nothing queued without the queue being owned *)
Definition Qq (m : @romap A) : Prop :=
  forall o os, m o = Some os -> ra_stopped os = false ->
    so_acquired (r_so os) = false -> so_queue (r_so os) = [].

(* ---- cancel_item ---- *)
Lemma ids_cancel i q : ids (cancel_item i q) = ids q.
Proof.
  unfold ids, cancel_item. rewrite map_map. apply map_ext. intros [[i' o] c]. cbn.
  destruct (Nat.eqb i' i); reflexivity.
Qed.

Lemma in_cancel_owner i q i' o c :
  In (i', o, c) (cancel_item i q) -> exists c0, In (i', o, c0) q.
Proof.
  unfold cancel_item. rewrite in_map_iff. intros [[[i2 o2] c2] [E Hin]].
  destruct (Nat.eqb i2 i); injection E as <- <- <-; eauto.
Qed.

Lemma in_cancel_live i q i' o :
  In (i', o, false) q -> i' <> i -> In (i', o, false) (cancel_item i q).
Proof.
  intros Hin Hne. unfold cancel_item. apply in_map_iff. exists (i', o, false). split; [|exact Hin].
  destruct (Nat.eqb i' i) eqn:E; [apply Nat.eqb_eq in E; contradiction|reflexivity].
Qed.

Lemma in_ids i o c q : In (i, o, c) q -> In i (ids q).
Proof. intros H. unfold ids. apply in_map_iff. exists (i, o, c). auto. Qed.

Lemma runner_mono o (s s' : @rstate A) k k' :
  (forall i, In (i, o, false) (r_sched s) -> In (i, o, false) (r_sched s')) ->
  (In (RIResched o) k -> In (RIResched o) k') ->
  runner o s k -> runner o s' k'.
Proof. intros H1 H2 [[i Hi]|Hk]; [left; eauto|right; auto]. Qed.

(* ---- J only looks at the scheduler part of the subject state ---- *)
Lemma J_same_sched (s s' : @rstate A) m k :
  r_sched s' = r_sched s -> r_fresh s' = r_fresh s -> J s m k -> J s' m k.
Proof.
  intros E1 E2 [[H1 H2] H3]. split; [split; rewrite E1, ?E2; assumption|].
  intros o os Hm. destruct (H3 o os Hm) as (F & C & Lv). split; [exact F|]. split.
  - intros i Hi. destruct (C i Hi) as [C1 C2]. rewrite E1, E2. auto.
  - intros Hs. destruct (Lv Hs) as [D R]. split; [exact D|]. intros Ha.
    eapply runner_mono; [| |exact (R Ha)]; [rewrite E1; auto|auto].
Qed.

Lemma J_k_mono (s : @rstate A) m k k' :
  (forall o, In (RIResched o) k -> In (RIResched o) k') -> J s m k -> J s m k'.
Proof.
  intros Hk [H1 H3]. split; [exact H1|]. intros o os Hm.
  destruct (H3 o os Hm) as (F & C & Lv). split; [exact F|]. split; [exact C|].
  intros Hs. destruct (Lv Hs) as [D R]. split; [exact D|]. intros Ha.
  eapply runner_mono; [| |exact (R Ha)]; auto.
Qed.

Lemma J_upd_ado (s : @rstate A) m k o os os' :
  m o = Some os -> r_so os' = r_so os -> (ra_stopped os' = false -> ra_stopped os = false) ->
  J s m k -> J s (rupd m o os') k.
Proof.
  intros Hm Hso Hst [H1 H3]. split; [exact H1|]. intros o2 os2. unfold rupd.
  destruct (Nat.eqb o2 o) eqn:E; [|apply H3].
  apply Nat.eqb_eq in E. subst o2. intros [= <-]. destruct (H3 o os Hm) as (F & C & Lv).
  unfold so_J. rewrite Hso. split; [exact F|]. split; [exact C|]. intros Hs. exact (Lv (Hst Hs)).
Qed.

Lemma J_new_stopped (s : @rstate A) m k o os' :
  m o = None -> ra_stopped os' = true -> r_so os' = fresh_so -> J s m k -> J s (rupd m o os') k.
Proof.
  intros Hm Hst Hso [H1 H3]. split; [exact H1|]. intros o2 os2. unfold rupd.
  destruct (Nat.eqb o2 o) eqn:E; [|apply H3].
  apply Nat.eqb_eq in E; subst o2. intros [= <-]. unfold so_J. rewrite Hso, Hst. cbn. split; [reflexivity|]. split; [discriminate|discriminate].
Qed.

(* ---- ScheduledObserver.dispose ---- *)
Lemma J_so_dispose (s : @rstate A) m k o os os' :
  J s m k -> m o = Some os -> ra_stopped os' = true -> r_so os' = snd (so_dispose s (r_so os)) ->
  J (fst (so_dispose s (r_so os))) (rupd m o os') k.
Proof.
  intros [[N1 N2] H3] Hm Hst Hso.
  destruct (H3 o os Hm) as (Fo & Co & _).
  unfold so_dispose in *. destruct (ser_disposed (r_so os)) eqn:Ed; cbn [fst snd] in *.
  - (* already disposed: nothing is cancelled *)
    split; [split; assumption|]. intros o2 os2. unfold rupd. destruct (Nat.eqb o2 o) eqn:E; [|apply H3].
    apply Nat.eqb_eq in E; subst o2. intros [= <-]. unfold so_J. rewrite Hso, Hst. cbn. split; [exact Fo|]. split; [exact Co|discriminate].
  - destruct (ser_cur (r_so os)) as [i|] eqn:Ec; cbn [cancel_opt] in *.
    + destruct (Co i eq_refl) as [Ci Cown].
      split; [split; cbn; rewrite ?ids_cancel; assumption|].
      intros o2 os2. unfold rupd. destruct (Nat.eqb o2 o) eqn:E.
      * apply Nat.eqb_eq in E; subst o2. intros [= <-]. unfold so_J. rewrite Hso, Hst. cbn. split; [exact Fo|]. split; [discriminate|discriminate].
      * apply Nat.eqb_neq in E. intros Hm2. destruct (H3 o2 os2 Hm2) as (F & C & Lv).
        split; [exact F|]. split.
        -- intros i2 Hi2. destruct (C i2 Hi2) as [C1 C2]. split; [exact C1|]. cbn.
           intros o3 c Hin. destruct (in_cancel_owner _ _ _ _ _ Hin) as [c0 Hin0]. eauto.
        -- intros Hs. destruct (Lv Hs) as [D R]. split; [exact D|]. intros Ha.
           eapply runner_mono; [| |exact (R Ha)]; [|auto]. cbn. intros i' Hin.
           apply in_cancel_live; [exact Hin|]. intros ->. apply E. exact (Cown o2 false Hin).
    + split; [split; assumption|]. intros o2 os2. unfold rupd. destruct (Nat.eqb o2 o) eqn:E; [|apply H3].
      apply Nat.eqb_eq in E; subst o2. intros [= <-]. unfold so_J. rewrite Hso, Hst. cbn. split; [exact Fo|]. split; [discriminate|discriminate].
Qed.

(* ---- ScheduledObserver.ensure_active ---- *)
Lemma J_ensure_active (s : @rstate A) m k o so os' :
  J s m k ->
  so_faulted so = false ->
  (forall i, ser_cur so = Some i ->
     (i < r_fresh s)%nat /\ forall o2 c, In (i, o2, c) (r_sched s) -> o2 = o) ->
  (ra_stopped os' = false -> ser_disposed so = false /\ (so_acquired so = true -> runner o s k)) ->
  r_so os' = snd (ensure_active o s so) ->
  J (fst (ensure_active o s so)) (rupd m o os') k.
Proof.
  intros [[N1 N2] H3] Fo Co Lo Hso.
  assert (Hother : forall (s' : @rstate A),
            (r_fresh s <= r_fresh s')%nat ->
            (forall i o2 c, In (i, o2, c) (r_sched s') ->
                            (exists c0, In (i, o2, c0) (r_sched s)) \/ (i = r_fresh s /\ o2 = o)) ->
            (forall i o2, In (i, o2, false) (r_sched s) -> o2 <> o -> In (i, o2, false) (r_sched s')) ->
            forall o2 os2, o2 <> o -> m o2 = Some os2 -> so_J o2 os2 s' k).
  { intros s' Hf Hin Hkeep o2 os2 Hne Hm2. destruct (H3 o2 os2 Hm2) as (F & C & Lv).
    split; [exact F|]. split.
    - intros i2 Hi2. destruct (C i2 Hi2) as [C1 C2]. split; [lia|].
      intros o3 c H. destruct (Hin _ _ _ H) as [[c0 H0]|[-> ->]]; [eauto|lia].
    - intros Hs. destruct (Lv Hs) as [D R]. split; [exact D|]. intros Ha.
      destruct (R Ha) as [[i Hi]|Hk]; [left; exists i; now apply Hkeep|now right]. }
  unfold ensure_active in *.
  destruct (negb (so_faulted so) && negb match so_queue so with [] => true | _ => false end) eqn:Eq;
    cbn [fst snd] in *.
  2:{ (* nothing to do *)
      split; [split; assumption|]. intros o2 os2. unfold rupd. destruct (Nat.eqb o2 o) eqn:E; [|apply H3].
      apply Nat.eqb_eq in E; subst o2. intros [= <-]. unfold so_J. rewrite Hso. auto. }
  destruct (so_acquired so) eqn:Ea; cbn [fst snd] in *.
  { split; [split; assumption|]. intros o2 os2. unfold rupd. destruct (Nat.eqb o2 o) eqn:E; [|apply H3].
    apply Nat.eqb_eq in E; subst o2. intros [= <-]. unfold so_J. rewrite Hso, Ea. auto. }
  (* is_owner: schedule(self.run), store the disposable in the SerialDisposable *)
  set (id := r_fresh s) in *.
  set (s1 := with_sched (r_sched s ++ [(id, o, false)]) (S id) s) in *.
  assert (Hids1 : ids (r_sched s1) = ids (r_sched s) ++ [id]).
  { unfold s1, ids. cbn. now rewrite map_app. }
  assert (HL1 : forall q, ids q = ids (r_sched s1) -> NoDup (ids q) /\ forall i, In i (ids q) -> (i < S id)%nat).
  { intros q ->. rewrite Hids1. split.
    - apply NoDup_app_single; [exact N1|]. intros Hin. specialize (N2 _ Hin). unfold id in N2. lia.
    - intros i Hin. apply in_app_or in Hin. destruct Hin as [Hin|[<-|[]]]; [specialize (N2 _ Hin); unfold id; lia|lia]. }
  cbn [ser_disposed ser_cur so_stopped so_queue so_faulted so_acquired] in *.
  destruct (ser_disposed so) eqn:Ed; cbn [fst snd cancel_opt] in *.
  - (* the SerialDisposable was disposed: the new item is cancelled at once (the wrapper is stopped) *)
    split.
    + cbn. apply (HL1 (cancel_item id (r_sched s1))). apply ids_cancel.
    + intros o2 os2. unfold rupd. destruct (Nat.eqb o2 o) eqn:E.
      * apply Nat.eqb_eq in E; subst o2. intros [= <-]. unfold so_J. rewrite Hso. cbn. split; [exact Fo|]. split.
        -- intros i Hi. destruct (Co i Hi) as [C1 C2]. split; [unfold id; lia|].
           intros o3 c Hin. destruct (in_cancel_owner _ _ _ _ _ Hin) as [c0 Hin0].
           unfold s1 in Hin0. cbn in Hin0. apply in_app_or in Hin0.
           destruct Hin0 as [Hin0|[[= <- <- _]|[]]]; [eauto|reflexivity].
        -- intros Hs. destruct (Lo Hs) as [D _]. discriminate.
      * apply Nat.eqb_neq in E. intros Hm2. apply Hother; [cbn; unfold id; lia| | |exact E|exact Hm2].
        -- cbn. intros i o3 c Hin. destruct (in_cancel_owner _ _ _ _ _ Hin) as [c0 Hin0].
           apply in_app_or in Hin0. destruct Hin0 as [Hin0|[[= <- <- _]|[]]]; [left; eauto|right; split; reflexivity].
        -- cbn. intros i o3 Hin Hne. apply in_cancel_live; [apply in_or_app; now left|].
           intros ->. specialize (N2 _ (in_ids _ _ _ _ Hin)). unfold id in N2. lia.
  - (* the previous disposable (an item that already ran) is disposed *)
    assert (Hcur : forall q : list (nat * nat * bool), (forall i o3 c, In (i, o3, c) q -> exists c0, In (i, o3, c0) (r_sched s1)) ->
                   forall i, Some id = Some i ->
                   (i < S id)%nat /\ forall o3 c, In (i, o3, c) q -> o3 = o).
    { intros q Hq i [= <-]. split; [lia|]. intros o3 c Hin. destruct (Hq _ _ _ Hin) as [c0 Hin0].
      unfold s1 in Hin0. cbn in Hin0. apply in_app_or in Hin0.
      destruct Hin0 as [Hin0|[[= <- _]|[]]]; [|reflexivity].
      specialize (N2 _ (in_ids _ _ _ _ Hin0)). unfold id in N2. lia. }
    destruct (ser_cur so) as [old|] eqn:Ec; cbn [cancel_opt] in *.
    + destruct (Co old eq_refl) as [Cold Cown].
      split.
      * cbn. apply (HL1 (cancel_item old (r_sched s1))). apply ids_cancel.
      * intros o2 os2. unfold rupd. destruct (Nat.eqb o2 o) eqn:E.
        -- apply Nat.eqb_eq in E; subst o2. intros [= <-]. unfold so_J. rewrite Hso. cbn. split; [exact Fo|]. split.
           ++ apply Hcur. intros i o3 c Hin. exact (in_cancel_owner _ _ _ _ _ Hin).
           ++ intros Hs. split; [reflexivity|]. intros _. left. exists id. cbn.
              apply in_cancel_live; [apply in_or_app; right; now left|]. unfold id. lia.
        -- apply Nat.eqb_neq in E. intros Hm2. apply Hother; [cbn; unfold id; lia| | |exact E|exact Hm2].
           ++ cbn. intros i o3 c Hin. destruct (in_cancel_owner _ _ _ _ _ Hin) as [c0 Hin0].
              apply in_app_or in Hin0. destruct Hin0 as [Hin0|[[= <- <- _]|[]]]; [left; eauto|right; split; reflexivity].
           ++ cbn. intros i o3 Hin Hne. apply in_cancel_live; [apply in_or_app; now left|].
              intros ->. apply Hne. exact (Cown o3 false Hin).
    + split.
      * cbn. apply (HL1 (r_sched s1)). reflexivity.
      * intros o2 os2. unfold rupd. destruct (Nat.eqb o2 o) eqn:E.
        -- apply Nat.eqb_eq in E; subst o2. intros [= <-]. unfold so_J. rewrite Hso. cbn. split; [exact Fo|]. split.
           ++ apply Hcur. intros i o3 c Hin. eauto.
           ++ intros Hs. split; [reflexivity|]. intros _. left. exists id. cbn.
              apply in_or_app. right. now left.
        -- apply Nat.eqb_neq in E. intros Hm2. apply Hother; [cbn; unfold id; lia| | |exact E|exact Hm2].
           ++ cbn. intros i o3 c Hin. apply in_app_or in Hin.
              destruct Hin as [Hin|[[= <- <- _]|[]]]; [left; eauto|right; split; reflexivity].
           ++ cbn. intros i o3 Hin Hne. apply in_or_app. now left.
Qed.

Lemma so_on_fields (n : ev A) so :
  so_faulted (so_on n so) = so_faulted so /\ so_acquired (so_on n so) = so_acquired so /\
  ser_disposed (so_on n so) = ser_disposed so /\ ser_cur (so_on n so) = ser_cur so.
Proof. unfold so_on. destruct (so_stopped so); repeat split. Qed.

Lemma J_upd_so (s : @rstate A) m k o os so' :
  m o = Some os ->
  so_faulted so' = so_faulted (r_so os) -> so_acquired so' = so_acquired (r_so os) ->
  ser_disposed so' = ser_disposed (r_so os) -> ser_cur so' = ser_cur (r_so os) ->
  J s m k -> J s (rupd m o (set_so os so')) k.
Proof.
  intros Hm E1 E2 E3 E4 [H1 H3]. split; [exact H1|]. intros o2 os2. unfold rupd.
  destruct (Nat.eqb o2 o) eqn:E; [|apply H3].
  apply Nat.eqb_eq in E. subst o2. intros [= <-]. destruct (H3 o os Hm) as (F & C & Lv).
  unfold so_J. cbn [set_so r_so ra_stopped]. rewrite E1, E2, E3, E4. auto.
Qed.

Lemma so_each_J (f : nat -> @rstate A -> @sostate A -> @rstate A * @sostate A) k :
  (forall o s m os, J s m k -> m o = Some os ->
     J (fst (f o s (r_so os))) (rupd m o (set_so os (snd (f o s (r_so os))))) k) ->
  forall snap s m, J s m k -> J (fst (so_each f snap s m)) (snd (so_each f snap s m)) k.
Proof.
  intros Hf. unfold so_each. induction snap as [|o snap IH]; intros s m HJ; [exact HJ|].
  cbn [fold_left]. destruct (m o) as [os|] eqn:Hm; [|apply IH; exact HJ].
  specialize (Hf o s m os HJ Hm). destruct (f o s (r_so os)) as [s1 so1]. cbn [fst snd] in Hf.
  apply IH. exact Hf.
Qed.

Lemma J_so_on_pass n k : forall snap (s : @rstate A) m, J s m k ->
  J (fst (so_each (fun _ s so => (s, so_on n so)) snap s m))
    (snd (so_each (fun _ s so => (s, so_on n so)) snap s m)) k.
Proof.
  apply so_each_J. intros o s m os HJ Hm. cbn [fst snd].
  destruct (so_on_fields n (r_so os)) as (E1 & E2 & E3 & E4). now apply J_upd_so.
Qed.

Lemma J_ensure_pass k : forall snap (s : @rstate A) m, J s m k ->
  J (fst (so_each ensure_active snap s m)) (snd (so_each ensure_active snap s m)) k.
Proof.
  apply so_each_J. intros o s m os HJ Hm. destruct (proj2 HJ o os Hm) as (F & C & Lv).
  apply J_ensure_active; [exact HJ|exact F|exact C|exact Lv|reflexivity].
Qed.

Lemma J_final_pass (t : ev A) k : forall snap (s : @rstate A) m, J s m k ->
  J (fst (so_each (fun o s so => ensure_active o s (so_on t so)) snap s m))
    (snd (so_each (fun o s so => ensure_active o s (so_on t so)) snap s m)) k.
Proof.
  apply so_each_J. intros o s m os HJ Hm. destruct (proj2 HJ o os Hm) as (F & C & Lv).
  destruct (so_on_fields t (r_so os)) as (E1 & E2 & E3 & E4).
  apply J_ensure_active; [exact HJ|now rewrite E1|now rewrite E4|now rewrite E3, E2|reflexivity].
Qed.

(* AutoDetachObserver.dispose *)
Lemma J_rado_dispose (s : @rstate A) m k o os :
  J s m k -> m o = Some os ->
  J (fst (rado_dispose s os o)) (rupd m o (snd (rado_dispose s os o))) k.
Proof.
  intros HJ Hm. unfold rado_dispose. cbn [rsad_disposed rsad_cur r_so].
  destruct (rsad_disposed os); cbn [fst snd].
  { apply (J_upd_ado s m k o os); [exact Hm|reflexivity|discriminate|exact HJ]. }
  destruct (rsad_cur os); cbn [fst snd].
  2:{ apply (J_upd_ado s m k o os); [exact Hm|reflexivity|discriminate|exact HJ]. }
  unfold removable_dispose. cbn [r_so].
  pose proof (J_so_dispose s m k o os) as Hd.
  destruct (so_dispose s (r_so os)) as [s1 so1] eqn:Esd. cbn [fst snd] in *.
  set (os' := set_so (ROState true true false (r_handle os) (r_calls os) (r_so os)) so1).
  specialize (Hd os' HJ Hm eq_refl eq_refl).
  destruct (negb (r_disposed s1) && mem o (r_observers s1)); cbn [fst snd]; [|exact Hd].
  eapply J_same_sched; [| |exact Hd]; reflexivity.
Qed.

Lemma Qq_upd_stopped (m : @romap A) o os' : ra_stopped os' = true -> Qq m -> Qq (rupd m o os').
Proof.
  intros Hs HQ o2 os2. unfold rupd. destruct (Nat.eqb o2 o); [|apply HQ].
  intros [= <-]. congruence.
Qed.

Lemma Qq_upd_same (m : @romap A) o os os' :
  m o = Some os -> so_acquired (r_so os') = so_acquired (r_so os) -> so_queue (r_so os') = so_queue (r_so os) ->
  (ra_stopped os' = false -> ra_stopped os = false) -> Qq m -> Qq (rupd m o os').
Proof.
  intros Hm E1 E2 Hst HQ o2 os2. unfold rupd. destruct (Nat.eqb o2 o) eqn:E; [|apply HQ].
  apply Nat.eqb_eq in E. subst o2. intros [= <-] Hs Ha. rewrite E2. apply (HQ o os Hm (Hst Hs)). congruence.
Qed.

Lemma ensure_active_owned o (s : @rstate A) so :
  so_faulted so = false -> so_acquired (snd (ensure_active o s so)) = false ->
  so_queue (snd (ensure_active o s so)) = [].
Proof.
  intros F. unfold ensure_active. rewrite F. cbn [negb andb].
  destruct (so_queue so) eqn:Eq; cbn [negb]; [intros _; exact Eq|].
  destruct (so_acquired so) eqn:Ea; cbn [snd]; [congruence|].
  cbn [ser_disposed]. destruct (ser_disposed so); cbn; discriminate.
Qed.

Lemma in_resched_tail o (i : @rinstr A) k :
  In (RIResched o) (i :: k) -> i <> RIResched o -> In (RIResched o) k.
Proof. intros [->|H] Hne; [contradiction|exact H]. Qed.

Lemma in_resched_ops o (l : list (@rop A)) k : In (RIResched o) k -> In (RIResched o) (map RIOp l ++ k).
Proof. intros H. apply in_or_app. now right. Qed.

(* RIResched: scheduler.schedule(self.run) *)
Lemma J_resched (s : @rstate A) m k o :
  J s m (RIResched o :: k) ->
  J (with_sched (r_sched s ++ [(r_fresh s, o, false)]) (S (r_fresh s)) s) m k.
Proof.
  intros [[N1 N2] H3]. split.
  - split; cbn; unfold ids; rewrite map_app; cbn.
    + apply NoDup_app_single; [exact N1|]. intros Hin. specialize (N2 _ Hin). lia.
    + intros i Hin. apply in_app_or in Hin. destruct Hin as [Hin|[<-|[]]]; [specialize (N2 _ Hin); lia|lia].
  - intros o2 os2 Hm. destruct (H3 o2 os2 Hm) as (F & C & Lv). split; [exact F|]. split.
    + intros i Hi. destruct (C i Hi) as [C1 C2]. split; [cbn; lia|]. cbn. intros o3 c Hin.
      apply in_app_or in Hin. destruct Hin as [Hin|[[= <- _]|[]]]; [eauto|lia].
    + intros Hs. destruct (Lv Hs) as [D R]. split; [exact D|]. intros Ha.
      destruct (R Ha) as [[i Hi]|Hk].
      * left. exists i. cbn. apply in_or_app. now left.
      * destruct Hk as [[= <-]|Hk]; [|now right]. left. exists (r_fresh s). cbn. apply in_or_app. right. now left.
Qed.

(* the drain loop takes an item off the scheduler queue *)
Lemma J_pop (s : @rstate A) m k it o c rest k' :
  r_sched s = (it, o, c) :: rest ->
  J s m k ->
  (forall o2, In (RIResched o2) k -> In (RIResched o2) k') ->
  (c = false -> forall os, m o = Some os -> ra_stopped os = false -> so_acquired (r_so os) = true ->
                In (RIResched o) k') ->
  J (with_sched rest (r_fresh s) s) m k'.
Proof.
  intros Es [[N1 N2] H3] Hk Hown. rewrite Es in N1, N2. cbn in N1, N2. split.
  - split; cbn; [now inversion N1|]. intros i Hin. apply N2. now right.
  - intros o2 os2 Hm. destruct (H3 o2 os2 Hm) as (F & C & Lv). split; [exact F|]. split.
    + intros i Hi. destruct (C i Hi) as [C1 C2]. split; [exact C1|]. cbn. intros o3 c3 Hin.
      apply (C2 o3 c3). rewrite Es. now right.
    + intros Hs. destruct (Lv Hs) as [D R]. split; [exact D|]. intros Ha.
      destruct (R Ha) as [[i Hi]|Hk2]; [|right; now apply Hk].
      rewrite Es in Hi. destruct Hi as [[= E1 E2 E3]|Hi]; [|left; exists i; exact Hi].
      subst. right. apply (Hown eq_refl os2 Hm Hs Ha).
Qed.

Lemma fold_so_on_fields : forall (q : list (Z * A)) (so : @sostate A),
  let so' := fold_left (fun so it => so_on (Next (snd it)) so) q so in
  so_faulted so' = so_faulted so /\ so_acquired so' = so_acquired so /\
  ser_disposed so' = ser_disposed so /\ ser_cur so' = ser_cur so.
Proof.
  induction q as [|x q IH]; intros so; cbn [fold_left]; [repeat split|].
  destruct (IH (so_on (Next (snd x)) so)) as (E1 & E2 & E3 & E4).
  destruct (so_on_fields (Next (snd x)) so) as (F1 & F2 & F3 & F4). cbv zeta in *.
  repeat split; congruence.
Qed.

(* ---- the combined invariant ---- *)
Context (b : Z) (w : option Z).

Definition K (c : @rcfg A) : Prop :=
  Inv b w c /\ J (rc_st c) (rc_obs c) (rc_k c) /\ Qq (rc_obs c).

Lemma op_k_mono (p : @rop A) k : forall o, In (RIResched o) (RIOp p :: k) -> In (RIResched o) k.
Proof. intros o H. apply (in_resched_tail o _ _ H). discriminate. Qed.

Lemma JQ_op p s m k l :
  K (RCfg s m (RIOp p :: k) l) ->
  J (rc_st (rstep_op react p s m k l)) (rc_obs (rstep_op react p s m k l)) (rc_k (rstep_op react p s m k l)) /\
  Qq (rc_obs (rstep_op react p s m k l)).
Proof.
  intros (I & HJ0 & HQ). cbn [rc_st rc_obs rc_k] in HJ0.
  assert (HJ : J s m k) by (eapply J_k_mono; [apply op_k_mono|exact HJ0]).
  assert (Hsame : forall s', r_sched s' = r_sched s -> r_fresh s' = r_fresh s -> J s' m k /\ Qq m).
  { intros s' E1 E2. split; [eapply J_same_sched; eassumption|exact HQ]. }
  unfold rstep_op. destruct p as [o|o|v|e| | |d].
  - (* RSub *)
    destruct (m o) as [os|] eqn:Hm; cbn [rc_st rc_obs rc_k]; [now apply Hsame|].
    destruct (r_disposed s); cbn [rc_st rc_obs rc_k].
    + split.
      * eapply J_k_mono; [|apply (J_new_stopped s m k o _ Hm); [reflexivity|reflexivity|exact HJ]].
        intros o2 H. apply in_resched_ops. now right.
      * apply Qq_upd_stopped; [reflexivity|exact HQ].
    + set (s2 := with_observers (r_observers (trim s) ++ [o]) (trim s)).
      set (so1 := fold_left (fun so it => so_on (Next (snd it)) so) (r_queue s2) fresh_so).
      set (so2 := match r_exception s2 with
                  | Some e => so_on (Err e) so1
                  | None => if r_stopped s2 then so_on Done so1 else so1 end).
      assert (Hf : so_faulted so2 = false /\ so_acquired so2 = false /\
                   ser_disposed so2 = false /\ ser_cur so2 = None).
      { destruct (fold_so_on_fields (r_queue s2) fresh_so) as (E1 & E2 & E3 & E4). fold so1 in E1, E2, E3, E4.
        cbn [fresh_so so_faulted so_acquired ser_disposed ser_cur] in E1, E2, E3, E4. unfold so2. destruct (r_exception s2) as [e|].
        - destruct (so_on_fields (Err e) so1) as (F1 & F2 & F3 & F4). repeat split; congruence.
        - destruct (r_stopped s2).
          + destruct (so_on_fields Done so1) as (F1 & F2 & F3 & F4). repeat split; congruence.
          + repeat split; assumption. }
      destruct Hf as (F1 & F2 & F3 & F4).
      assert (HJ2 : J s2 m k) by (eapply J_same_sched; [| |exact HJ]; reflexivity).
      pose proof (J_ensure_active s2 m k o so2 (ROState false false true true 0 (snd (ensure_active o s2 so2)))
                    HJ2 F1) as HJ3.
      pose proof (ensure_active_owned o s2 so2 F1) as Hown.
      destruct (ensure_active o s2 so2) as [s3 so3]. cbn [fst snd rc_st rc_obs rc_k] in *.
      split.
      * apply HJ3; [rewrite F4; discriminate| |reflexivity]. intros _. split; [exact F3|]. rewrite F2. discriminate.
      * intros o2 os2. unfold rupd. destruct (Nat.eqb o2 o); [|apply HQ].
        intros [= <-] _ Ha. cbn in Ha |- *. now apply Hown.
  - (* RUnsub *)
    destruct (m o) as [os|] eqn:Hm; cbn [rc_st rc_obs rc_k]; [|now apply Hsame].
    destruct (r_handle os); cbn [rc_st rc_obs rc_k]; [|now apply Hsame].
    pose proof (J_rado_dispose s m k o os HJ Hm) as HJ2. pose proof (rado_dispose_stopped s os o) as Hst.
    destruct (rado_dispose s os o) as [s' os']. cbn [fst snd rc_st rc_obs rc_k] in *.
    split; [exact HJ2|]. now apply Qq_upd_stopped.
  - (* RNext *)
    destruct (r_disposed s); cbn [rc_st rc_obs rc_k]; [now apply Hsame|].
    destruct (r_stopped s); cbn [rc_st rc_obs rc_k]; [now apply Hsame|].
    set (s1 := trim (with_queue (r_queue s ++ [(r_clock s, v)]) s)).
    assert (HJ1 : J s1 m k) by (eapply J_same_sched; [| |exact HJ]; reflexivity).
    assert (Hdom : forall o, In o (r_observers s) -> m o <> None) by exact (inv_dom _ _ _ I).
    pose proof (J_so_on_pass (Next v) k (r_observers s) s1 m HJ1) as HJ2.
    destruct (so_each_spec (fun _ s so => (s, so_on (Next v) so)) (fun so so' => so' = so_on (Next v) so)
                (fun _ s _ => same_core_refl s) (fun _ _ _ => eq_refl)
                (r_observers s) s1 m (inv_nodup _ _ _ I) Hdom) as (_ & A2 & A3).
    destruct (so_each (fun _ s so => (s, so_on (Next v) so)) (r_observers s) s1 m) as [s2 m2].
    cbn [fst snd] in *.
    assert (Hdom2 : forall o, In o (r_observers s) -> m2 o <> None).
    { intros o Hi. destruct (m o) as [os|] eqn:E; [|exfalso; exact (Hdom o Hi E)].
      destruct (A3 o os Hi E) as [so' [-> _]]. discriminate. }
    pose proof (J_ensure_pass k (r_observers s) s2 m2 HJ2) as HJ3.
    destruct (so_each_spec ensure_active
                (fun so so' => so_faulted so = false -> so_acquired so' = false -> so_queue so' = [])
                ensure_active_core (fun o s so => ensure_active_owned o s so)
                (r_observers s) s2 m2 (inv_nodup _ _ _ I) Hdom2) as (_ & B2 & B3).
    destruct (so_each ensure_active (r_observers s) s2 m2) as [s3 m3]. cbn [fst snd rc_st rc_obs rc_k] in *.
    split; [exact HJ3|].
    intros o os3 Hm3 Hs Ha. destruct (in_dec Nat.eq_dec o (r_observers s)) as [Hi|Hni].
    + destruct (m o) as [os|] eqn:Hm; [|exfalso; exact (Hdom o Hi Hm)].
      destruct (A3 o os Hi Hm) as [so1 [E2 ->]]. destruct (B3 o _ Hi E2) as [so2 [E3 Q2]].
      rewrite E3 in Hm3. injection Hm3 as <-. cbn [set_so r_so] in *. apply Q2; [|exact Ha].
      destruct (so_on_fields (Next v) (r_so os)) as (F1 & _). rewrite F1.
      exact (proj1 (proj2 HJ o os Hm)).
    + rewrite (B2 o Hni), (A2 o Hni) in Hm3. exact (HQ o os3 Hm3 Hs Ha).
  - (* RErr *)
    destruct (r_disposed s); cbn [rc_st rc_obs rc_k]; [now apply Hsame|].
    destruct (r_stopped s); cbn [rc_st rc_obs rc_k]; [now apply Hsame|].
    set (s1 := trim (with_exception (Some e) (with_observers [] (with_stopped true s)))).
    assert (HJ1 : J s1 m k) by (eapply J_same_sched; [| |exact HJ]; reflexivity).
    assert (Hdom : forall o, In o (r_observers s) -> m o <> None) by exact (inv_dom _ _ _ I).
    pose proof (J_final_pass (Err e) k (r_observers s) s1 m HJ1) as HJ2.
    destruct (so_each_spec (fun o s so => ensure_active o s (so_on (Err e) so))
                (fun so so' => so_faulted so = false -> so_acquired so' = false -> so_queue so' = [])
                (fun o s so => ensure_active_core o s (so_on (Err e) so))
                (fun o s so F => ensure_active_owned o s (so_on (Err e) so)
                                   (eq_trans (proj1 (so_on_fields (Err e) so)) F))
                (r_observers s) s1 m (inv_nodup _ _ _ I) Hdom) as (_ & A2 & A3).
    change (r_observers (with_stopped true s)) with (r_observers s).
    destruct (so_each (fun o s so => ensure_active o s (so_on (Err e) so)) (r_observers s) s1 m) as [s2 m2].
    cbn [fst snd rc_st rc_obs rc_k] in *. split; [exact HJ2|].
    intros o os3 Hm3 Hs Ha. destruct (in_dec Nat.eq_dec o (r_observers s)) as [Hi|Hni].
    + destruct (m o) as [os|] eqn:Hm; [|exfalso; exact (Hdom o Hi Hm)].
      destruct (A3 o os Hi Hm) as [so1 [E2 Q2]]. rewrite E2 in Hm3. injection Hm3 as <-.
      cbn [set_so r_so] in *. apply Q2; [|exact Ha]. exact (proj1 (proj2 HJ o os Hm)).
    + rewrite (A2 o Hni) in Hm3. exact (HQ o os3 Hm3 Hs Ha).
  - (* RDone *)
    destruct (r_disposed s); cbn [rc_st rc_obs rc_k]; [now apply Hsame|].
    destruct (r_stopped s); cbn [rc_st rc_obs rc_k]; [now apply Hsame|].
    set (s1 := trim (with_observers [] (with_stopped true s))).
    assert (HJ1 : J s1 m k) by (eapply J_same_sched; [| |exact HJ]; reflexivity).
    assert (Hdom : forall o, In o (r_observers s) -> m o <> None) by exact (inv_dom _ _ _ I).
    pose proof (J_final_pass Done k (r_observers s) s1 m HJ1) as HJ2.
    destruct (so_each_spec (fun o s so => ensure_active o s (so_on Done so))
                (fun so so' => so_faulted so = false -> so_acquired so' = false -> so_queue so' = [])
                (fun o s so => ensure_active_core o s (so_on Done so))
                (fun o s so F => ensure_active_owned o s (so_on Done so)
                                   (eq_trans (proj1 (so_on_fields Done so)) F))
                (r_observers s) s1 m (inv_nodup _ _ _ I) Hdom) as (_ & A2 & A3).
    change (r_observers (with_stopped true s)) with (r_observers s).
    destruct (so_each (fun o s so => ensure_active o s (so_on Done so)) (r_observers s) s1 m) as [s2 m2].
    cbn [fst snd rc_st rc_obs rc_k] in *. split; [exact HJ2|].
    intros o os3 Hm3 Hs Ha. destruct (in_dec Nat.eq_dec o (r_observers s)) as [Hi|Hni].
    + destruct (m o) as [os|] eqn:Hm; [|exfalso; exact (Hdom o Hi Hm)].
      destruct (A3 o os Hi Hm) as [so1 [E2 Q2]]. rewrite E2 in Hm3. injection Hm3 as <-.
      cbn [set_so r_so] in *. apply Q2; [|exact Ha]. exact (proj1 (proj2 HJ o os Hm)).
    + rewrite (A2 o Hni) in Hm3. exact (HQ o os3 Hm3 Hs Ha).
  - cbn [rc_st rc_obs rc_k]. now apply Hsame.
  - destruct (d <? 0); cbn [rc_st rc_obs rc_k]; now apply Hsame.
Qed.

Theorem K_step c : K c -> K (rstep c).
Proof.
  intros HK. pose proof HK as (I & HJ0 & HQ).
  split; [apply step_inv; exact I|].
  destruct c as [s m k l]. cbn [rc_st rc_obs rc_k] in *. destruct k as [|i k].
  - unfold Replay.rstep. cbn. split; assumption.
  - destruct i as [p|o n|o|o|o|].
    + unfold Replay.rstep. cbn [rc_k rc_st rc_obs rc_rlog]. apply JQ_op. exact HK.
    + (* RIDeliver *)
      assert (HJ : J s m k).
      { eapply J_k_mono; [|exact HJ0]. intros o2 H. apply (in_resched_tail _ _ _ H). discriminate. }
      unfold Replay.rstep. cbn [rc_k rc_st rc_obs rc_rlog].
      destruct (m o) as [os|] eqn:Hm; cbn [rc_st rc_obs rc_k]; [|split; assumption].
      destruct (ra_stopped os) eqn:Hst; cbn [rc_st rc_obs rc_k]; [split; assumption|].
      assert (Hgen : forall stop kk, (forall o2, In (RIResched o2) k -> In (RIResched o2) kk) ->
                     J s (rupd m o (rcalled stop os)) kk /\ Qq (rupd m o (rcalled stop os))).
      { intros stop kk Hkk. split.
        - eapply J_k_mono; [exact Hkk|]. apply (J_upd_ado s m k o os); [exact Hm|reflexivity| |exact HJ].
          cbn. intros H. apply orb_false_iff in H. tauto.
        - apply (Qq_upd_same m o os); [exact Hm|reflexivity|reflexivity| |exact HQ].
          cbn. intros H. apply orb_false_iff in H. tauto. }
      destruct n as [v|e|]; cbn [rc_st rc_obs rc_k]; apply Hgen; intros o2 H; apply in_resched_ops;
        try exact H; now right.
    + (* RIAdoFin *)
      assert (HJ : J s m k).
      { eapply J_k_mono; [|exact HJ0]. intros o2 H. apply (in_resched_tail _ _ _ H). discriminate. }
      unfold Replay.rstep. cbn [rc_k rc_st rc_obs rc_rlog].
      destruct (m o) as [os|] eqn:Hm; cbn [rc_st rc_obs rc_k]; [|split; assumption].
      pose proof (J_rado_dispose s m k o os HJ Hm) as HJ2. pose proof (rado_dispose_stopped s os o) as Hst.
      destruct (rado_dispose s os o) as [s' os']. cbn [fst snd rc_st rc_obs rc_k] in *.
      split; [exact HJ2|]. now apply Qq_upd_stopped.
    + (* RIResched *)
      unfold Replay.rstep. cbn [rc_k rc_st rc_obs rc_rlog]. split; [now apply J_resched|exact HQ].
    + (* RIHandle *)
      assert (HJ : J s m k).
      { eapply J_k_mono; [|exact HJ0]. intros o2 H. apply (in_resched_tail _ _ _ H). discriminate. }
      unfold Replay.rstep. cbn [rc_k rc_st rc_obs rc_rlog].
      destruct (m o) as [os|] eqn:Hm; cbn [rc_st rc_obs rc_k]; [|split; assumption].
      split.
      * apply (J_upd_ado s m k o os); [exact Hm|reflexivity|cbn; tauto|exact HJ].
      * apply (Qq_upd_same m o os); [exact Hm|reflexivity|reflexivity|cbn; tauto|exact HQ].
    + (* RIDrain *)
      unfold Replay.rstep. cbn [rc_k rc_st rc_obs rc_rlog].
      destruct (r_sched s) as [|[[it o] cancelled] rest] eqn:Es; cbn [rc_st rc_obs rc_k].
      { split; [|exact HQ]. eapply J_k_mono; [|exact HJ0].
        intros o2 H. apply (in_resched_tail _ _ _ H). discriminate. }
      destruct cancelled; cbn [rc_st rc_obs rc_k].
      { split; [|exact HQ]. apply (J_pop s m _ it o true rest _ Es HJ0); [auto|discriminate]. }
      destruct (m o) as [os|] eqn:Hm; cbn [rc_st rc_obs rc_k].
      2:{ split; [|exact HQ]. apply (J_pop s m _ it o false rest _ Es HJ0); [auto|].
          intros _ os Hm'. congruence. }
      destruct (so_queue (r_so os)) as [|n q] eqn:Hq; cbn [rc_st rc_obs rc_k].
      * (* nothing queued: release the queue *)
        set (so' := SoState (so_stopped (r_so os)) [] false (so_faulted (r_so os))
                            (ser_disposed (r_so os)) (ser_cur (r_so os))).
        split.
        -- assert (HJm : J s (rupd m o (set_so os so')) (RIDrain :: k)).
           { destruct HJ0 as [H1 H3]. split; [exact H1|]. intros o2 os2. unfold rupd.
             destruct (Nat.eqb o2 o) eqn:E; [|apply H3].
             apply Nat.eqb_eq in E. subst o2. intros [= <-]. destruct (H3 o os Hm) as (F & C & Lv).
             unfold so_J. cbn. split; [exact F|]. split; [exact C|]. intros Hs.
             destruct (Lv Hs) as [D _]. split; [exact D|discriminate]. }
           apply (J_pop s _ _ it o false rest _ Es HJm); [auto|].
           intros _ os2. rewrite rupd_same. intros [= <-] _ Ha. discriminate.
        -- intros o2 os2. unfold rupd. destruct (Nat.eqb o2 o); [|apply HQ]. intros [= <-]. reflexivity.
      * (* work = queue.pop(0) *)
        set (so' := SoState (so_stopped (r_so os)) q (so_acquired (r_so os)) (so_faulted (r_so os))
                            (ser_disposed (r_so os)) (ser_cur (r_so os))).
        split.
        -- assert (HJm : J s (rupd m o (set_so os so')) (RIDrain :: k)).
           { apply (J_upd_so s m _ o os so' Hm); try reflexivity. exact HJ0. }
           apply (J_pop s _ _ it o false rest _ Es HJm).
           ++ intros o2 H. right. right. exact H.
           ++ intros _ _ _ _ _. right. now left.
        -- intros o2 os2. unfold rupd. destruct (Nat.eqb o2 o) eqn:E; [|apply HQ].
           apply Nat.eqb_eq in E. subst o2. intros [= <-] Hs Ha. cbn in Ha |- *.
           rewrite (HQ o os Hm Hs Ha) in Hq. discriminate.
Qed.

(* ---- the driver's instruction list ends with a drain loop, and when it is
        exhausted the scheduler queue is empty ---- *)
Definition Mq (c : @rcfg A) : Prop :=
  (rc_k c = [] -> r_sched (rc_st c) = []) /\
  (rc_k c <> [] -> exists pre, rc_k c = pre ++ [RIDrain]).

Lemma step_k_shape c i tail :
  rc_k c = i :: tail -> tail <> [] -> exists pre, rc_k (rstep c) = pre ++ tail.
Proof.
  destruct c as [s m k l]. cbn [rc_k]. intros -> Hne. unfold Replay.rstep. cbn [rc_k rc_st rc_obs rc_rlog].
  destruct i as [p|o n|o|o|o|].
  - unfold rstep_op. destruct p as [o|o|v|e| | |d].
    + destruct (m o); [exists []; reflexivity|]. destruct (r_disposed s).
      * exists (map RIOp (react o 0) ++ [RIHandle o]). cbn [rc_k]. now rewrite <- app_assoc.
      * destruct (ensure_active _ _ _). exists []. reflexivity.
    + destruct (m o) as [os|]; [|exists []; reflexivity]. destruct (r_handle os); [|exists []; reflexivity].
      destruct (rado_dispose s os o). exists []. reflexivity.
    + destruct (r_disposed s); [exists []; reflexivity|]. destruct (r_stopped s); [exists []; reflexivity|].
      repeat match goal with |- context [so_each ?f ?a ?bb ?c] => destruct (so_each f a bb c) end.
      exists []. reflexivity.
    + destruct (r_disposed s); [exists []; reflexivity|]. destruct (r_stopped s); [exists []; reflexivity|].
      repeat match goal with |- context [so_each ?f ?a ?bb ?c] => destruct (so_each f a bb c) end.
      exists []. reflexivity.
    + destruct (r_disposed s); [exists []; reflexivity|]. destruct (r_stopped s); [exists []; reflexivity|].
      repeat match goal with |- context [so_each ?f ?a ?bb ?c] => destruct (so_each f a bb c) end.
      exists []. reflexivity.
    + exists []. reflexivity.
    + destruct (d <? 0); exists []; reflexivity.
  - destruct (m o) as [os|]; [|exists []; reflexivity]. destruct (ra_stopped os); [exists []; reflexivity|].
    destruct n.
    + exists (map RIOp (react o (r_calls os))). reflexivity.
    + exists (map RIOp (react o (r_calls os)) ++ [RIAdoFin o]). cbn [rc_k]. now rewrite <- app_assoc.
    + exists (map RIOp (react o (r_calls os)) ++ [RIAdoFin o]). cbn [rc_k]. now rewrite <- app_assoc.
  - destruct (m o) as [os|]; [|exists []; reflexivity]. destruct (rado_dispose s os o). exists []. reflexivity.
  - exists []. reflexivity.
  - destruct (m o); exists []; reflexivity.
  - destruct (r_sched s) as [|[[it o] c] rest]; [exists []; reflexivity|].
    destruct c; [exists [RIDrain]; reflexivity|]. destruct (m o) as [os|]; [|exists [RIDrain]; reflexivity].
    destruct (so_queue (r_so os)); [exists [RIDrain]; reflexivity|].
    exists [RIDeliver o e; RIResched o; RIDrain]. reflexivity.
Qed.

Lemma Mq_step c : Mq c -> Mq (rstep c).
Proof.
  intros [M1 M2]. destruct (rc_k c) as [|i tail] eqn:Ek.
  - rewrite (rstep_done react c Ek). split; [intros _; exact (M1 eq_refl)|intros H; congruence].
  - destruct (M2 ltac:(discriminate)) as [pre Hpre].
    destruct tail as [|j tail'] eqn:Et.
    + (* the last instruction is the drain loop *)
      assert (i = RIDrain).
      { destruct pre as [|x pre']; cbn in Hpre; [now injection Hpre|].
        injection Hpre as _ H. destruct pre'; discriminate. }
      subst i. destruct c as [s m k l]. cbn [rc_k] in Ek. subst k.
      unfold Replay.rstep. cbn [rc_k rc_st rc_obs rc_rlog].
      destruct (r_sched s) as [|[[it o] c] rest] eqn:Es; cbn [rc_k rc_st].
      * split; [intros _; exact Es|intros H; exfalso; apply H; reflexivity].
      * destruct c; cbn [rc_k rc_st].
        { split; [discriminate|intros _; exists []; reflexivity]. }
        destruct (m o) as [os|]; cbn [rc_k rc_st]; [|split; [discriminate|intros _; exists []; reflexivity]].
        destruct (so_queue (r_so os)); cbn [rc_k rc_st].
        -- split; [discriminate|intros _; exists []; reflexivity].
        -- split; [discriminate|intros _; exists [RIDeliver o e; RIResched o]; reflexivity].
    + destruct (step_k_shape c i (j :: tail') Ek ltac:(discriminate)) as [pre2 Hk2].
      assert (Htail : exists pre3, j :: tail' = pre3 ++ [RIDrain]).
      { destruct pre as [|x pre']; cbn in Hpre; [discriminate|]. injection Hpre as _ H. eauto. }
      destruct Htail as [pre3 Hp3]. split.
      * rewrite Hk2. intros H. apply app_eq_nil in H. destruct H as [_ H]. discriminate.
      * intros _. exists (pre2 ++ pre3). rewrite Hk2, Hp3. now rewrite app_assoc.
Qed.

Lemma Mq_init (bs : option Z) (top : list (@rop A)) : Mq (rinit_cfg bs w top).
Proof.
  split; [reflexivity|]. cbn [rinit_cfg rc_k]. intros Hne.
  induction top as [|p t IH]; [contradiction|]. cbn [flat_map app].
  destruct t as [|q t']; [exists [RIOp p]; reflexivity|].
  destruct (IH ltac:(discriminate)) as [pre Hpre]. exists (RIOp p :: RIDrain :: pre).
  cbn [flat_map app] in *. now rewrite Hpre.
Qed.

End Live.

Lemma K_init {A} (bs w : option Z) (top : list (@rop A)) : K (bufsize_of bs) w (rinit_cfg bs w top).
Proof.
  split; [apply Inv_init|]. split.
  - split; [split; cbn; [constructor|intros i []]|]. intros o os H. discriminate.
  - intros o os H. discriminate.
Qed.

(* ---- the entitlement has at most one terminal notification, at its very end ---- *)
Section Shape.
Context {A : Type} (b : Z) (w : option Z).

Lemma rg_step_dead_stays (g : @rg A) p : rg_live g = false -> rg_live (rg_step g p) = false.
Proof.
  intros H. destruct p; cbn [rg_step]; rewrite ?H; try exact H; try reflexivity.
  destruct (d <? 0); exact H.
Qed.

Lemma xview_dead o : forall ops (g : @rg A), rg_live g = false -> xview b w o true g ops = [].
Proof.
  induction ops as [|p t IH]; intros g H; [reflexivity|]. cbn [xview].
  unfold rnote. rewrite H. cbn [app]. apply IH. now apply rg_step_dead_stays.
Qed.

Lemma has_term_nexts {X} (f : X -> A) (l : list X) : has_term (map (fun x => Next (f x)) l) = false.
Proof. induction l; [reflexivity|exact IHl]. Qed.

Lemma xview_shape o : forall ops ph (g : @rg A),
  exists l t, xview b w o ph g ops = l ++ t /\ has_term l = false /\ (t = [] \/ exists x, t = [x]).
Proof.
  induction ops as [|p ops IH]; intros ph g.
  - exists [], []. repeat split. now left.
  - cbn [xview]. destruct ph.
    + unfold rnote. destruct (rg_live g) eqn:Hl.
      * destruct p as [o'|o'|v|e| | |d];
          try (match goal with |- context [xview b w o true ?g' ops] =>
                 destruct (IH true g') as (l & t & E & Hn & Ht) end; rewrite E; exists l, t;
               repeat split; assumption).
        -- destruct (IH true (rg_step g (RNext v))) as (l & t & E & Hn & Ht). rewrite E.
           exists (Next v :: l), t. repeat split; assumption.
        -- rewrite xview_dead by (cbn [rg_step]; now rewrite Hl). exists [], [Err e]. repeat split. right. eauto.
        -- rewrite xview_dead by (cbn [rg_step]; now rewrite Hl). exists [], [Done]. repeat split. right. eauto.
      * rewrite xview_dead by now apply rg_step_dead_stays. exists [], []. repeat split. now left.
    + destruct p as [o'|o'|v|e| | |d]; try apply IH.
      destruct (Nat.eqb o' o); [|apply IH]. cbn [rg_step]. unfold rgreet, replayed.
      destruct (rg_status g) as [|t0|] eqn:Hs.
      * destruct (IH true g) as (l & t & E & Hn & Ht). rewrite E.
        exists (map (fun x => Next (snd x)) (retained b w (rg_clock g) (rg_all g)) ++ l), t.
        split; [now rewrite app_assoc|]. split; [|exact Ht].
        rewrite has_term_app, has_term_nexts, Hn. reflexivity.
      * rewrite xview_dead by (unfold rg_live; now rewrite Hs).
        exists (map (fun x => Next (snd x)) (retained b w (rg_clock g) (rg_all g))), [t0].
        split; [now rewrite app_nil_r|]. split; [apply has_term_nexts|right; eauto].
      * rewrite xview_dead by (unfold rg_live; now rewrite Hs).
        exists [], [Err disposed_exn]. repeat split. right. eauto.
Qed.

Lemma prefix_snoc {X} (p l : list X) x : prefix p (l ++ [x]) -> p = l ++ [x] \/ prefix p l.
Proof.
  revert p; induction l as [|y l IH]; intros p [r Hr]; cbn [app] in *.
  - destruct p as [|z p]; [right; apply prefix_nil|]. cbn in Hr. injection Hr as -> Hp.
    destruct p; [now left|discriminate].
  - destruct p as [|z p]; [right; apply prefix_nil|]. cbn in Hr. injection Hr as -> Hp.
    destruct (IH p (ex_intro _ r Hp)) as [->|[r2 ->]]; [now left|right]. now exists r2.
Qed.

Lemma has_term_prefix (p l : list (ev A)) : prefix p l -> has_term l = false -> has_term p = false.
Proof. intros [r ->]. rewrite has_term_app. intros H. apply orb_false_iff in H. tauto. Qed.

(* a prefix of the entitlement that contains a terminal notification is all of it *)
Lemma prefix_with_terminal_is_all o ops ph (g : @rg A) (v : list (ev A)) :
  prefix v (xview b w o ph g ops) -> has_term v = true -> v = xview b w o ph g ops.
Proof.
  destruct (xview_shape o ops ph g) as (l & t & -> & Hn & Ht). intros Hp Hv.
  destruct Ht as [->|[x ->]].
  - rewrite app_nil_r in Hp. rewrite (has_term_prefix v l Hp Hn) in Hv. discriminate.
  - destruct (prefix_snoc v l x Hp) as [->|Hp2]; [reflexivity|].
    rewrite (has_term_prefix v l Hp2 Hn) in Hv. discriminate.
Qed.
End Shape.

(* C22, completeness, arbitrary call trees: when a run has finished (every
   top-level call made and the scheduler drained after each), an observer that
   has not unsubscribed -- its wrapper is still live, or it was stopped by a
   terminal notification -- has received EXACTLY its entitlement: the retained
   values at its subscription, the terminal if any, and every later notification *)
Theorem replay_complete {A} (react : nat -> nat -> list (@rop A)) (bs w : option Z) (top : list (@rop A))
        (fuel o : nat) os :
  let c := rrun react fuel (rinit_cfg bs w top) in
  rc_k c = [] -> rc_obs c o = Some os ->
  (ra_stopped os = false \/ has_term (rview o (rlog_of c)) = true) ->
  rview o (rlog_of c) = xview (bufsize_of bs) w o false rg_init (ops_of (rlog_of c)).
Proof.
  cbv zeta. intros Hk Hm Hcase.
  set (c := rrun react fuel (rinit_cfg bs w top)) in *.
  assert (HK : K (bufsize_of bs) w c).
  { apply (rrun_ind react (K (bufsize_of bs) w)); [apply K_step|apply K_init]. }
  assert (HM : Mq c).
  { apply (rrun_ind react Mq); [apply Mq_step|apply Mq_init]. }
  destruct HK as (I & HJ & HQ). destruct HM as [M1 _].
  destruct (ra_stopped os) eqn:Hs.
  - destruct Hcase as [|Ht]; [discriminate|].
    apply prefix_with_terminal_is_all; [|exact Ht].
    exact (Inv_prefix react (bufsize_of bs) w c o I).
  - destruct (inv_some _ _ _ I o os Hm) as [_ Hok]. unfold obs_ok in Hok. rewrite Hs in Hok.
    destruct Hok as [Heq _]. rewrite Hk in Heq. cbn [inflight app] in Heq.
    assert (Hq : so_queue (r_so os) = []).
    { apply (HQ o os Hm Hs). destruct (so_acquired (r_so os)) eqn:Ha; [|reflexivity]. exfalso.
      destruct (proj2 HJ o os Hm) as (_ & _ & Lv). destruct (Lv Hs) as [_ R].
      destruct (R Ha) as [[i Hi]|Hin].
      - rewrite (M1 Hk) in Hi. destruct Hi.
      - rewrite Hk in Hin. destruct Hin. }
    rewrite Hq, app_nil_r in Heq. exact Heq.
Qed.
