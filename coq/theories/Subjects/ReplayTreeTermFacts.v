(* C22: runs of call TREES terminate.  An observer's reaction to its k-th callback is
   [react o k]; the wrapper's call counter [r_calls] grows at every delivery and an
   observer is never re-created, so every entry (o, k) of the reaction function is used
   at most once in a run.  Hence, when the reaction function has FINITE SUPPORT
   (react o k = [] for k >= K, subscriptions made by reactions stay below B -- true of
   every reaction TABLE, [rreact_tbl]) the run of every program finishes.
   Measure: the measure of ReplayTermFacts (weighted pending instructions + queued
   ScheduledObserver items + scheduler queue) + (weight of a call) * remaining reaction
   budget, where the budget is the number of operations in the entries not yet used.
   For an arbitrary reaction FUNCTION termination fails: [echo_diverges]. *)
From RxVerif Require Import Base.Prelude Ops.Machine Subjects.Subject Subjects.Family Subjects.Replay
  Subjects.ReplaySpec Subjects.ReplaySched Subjects.SubjectFacts Subjects.ReplayFacts Subjects.ReplayTreeFacts
  Subjects.ReplayLiveFacts Subjects.ReplaySchedFacts Subjects.ReplayDrainFacts Subjects.ReplayTermFacts.
Require Import Lia.
Local Open Scope nat_scope.

Section TreeTerm.
Context {A : Type} (sync : bool) (react : nat -> nat -> list (@rop A)) (B K : nat).
Notation step := (sstep sync react).
Notation sinstr := (@sinstr A).

(* finite support: observers below B stop reacting after their K-th callback and subscribe
   only observers below B *)
Definition finite_support : Prop :=
  (forall o k, o < B -> K <= k -> react o k = []) /\
  (forall o k o', o < B -> In (RSub o') (react o k) -> o' < B).

Context (HS : finite_support).

(* ---- the remaining reaction budget ---- *)
Definition calls (m : @romap A) (o : nat) : nat :=
  match m o with Some os => r_calls os | None => 0 end.
Fixpoint bud (o c n : nat) : nat :=
  match n with O => 0 | S k => (if c <=? k then length (react o k) else 0) + bud o c k end.
Fixpoint rem (m : @romap A) (n : nat) : nat :=
  match n with O => 0 | S b => bud b (calls m b) K + rem m b end.

Lemma bud_zero o c : forall n, n <= c -> bud o c n = 0.
Proof.
  induction n as [|k IH]; intros H; [reflexivity|]. cbn [bud].
  destruct (c <=? k) eqn:E; [apply Nat.leb_le in E; lia|]. rewrite IH by lia. reflexivity.
Qed.
Lemma bud_next o c : forall n, c < n -> bud o c n = length (react o c) + bud o (S c) n.
Proof.
  induction n as [|k IH]; intros H; [lia|]. cbn [bud].
  destruct (Nat.eq_dec c k) as [->|N].
  - rewrite Nat.leb_refl. destruct (S k <=? k) eqn:E; [apply Nat.leb_le in E; lia|].
    rewrite !bud_zero by lia. lia.
  - rewrite IH by lia.
    destruct (c <=? k) eqn:E1; [|apply Nat.leb_gt in E1; lia].
    destruct (S c <=? k) eqn:E2; [|apply Nat.leb_gt in E2; lia]. lia.
Qed.
Lemma bud_step o c : o < B -> bud o c K = length (react o c) + bud o (S c) K.
Proof.
  intros Ho. destruct (Nat.lt_ge_cases c K) as [H|H]; [apply bud_next; exact H|].
  rewrite !bud_zero by lia. rewrite (proj1 HS o c Ho H). reflexivity.
Qed.

Lemma calls_upd_same m o x : calls (rupd m o x) o = r_calls x.
Proof. unfold calls, rupd. now rewrite Nat.eqb_refl. Qed.
Lemma calls_upd_other m o x o' : o' <> o -> calls (rupd m o x) o' = calls m o'.
Proof. intros H. unfold calls, rupd. destruct (Nat.eqb o' o) eqn:E; [apply Nat.eqb_eq in E; contradiction|reflexivity]. Qed.

Lemma rem_ext m m' : forall n, (forall o, o < n -> calls m' o = calls m o) -> rem m' n = rem m n.
Proof.
  induction n as [|b IH]; intros H; [reflexivity|]. cbn [rem]. rewrite H by lia. rewrite IH; [reflexivity|].
  intros o Ho. apply H. lia.
Qed.
Lemma rem_upd_same m o os x n : m o = Some os -> r_calls x = r_calls os -> rem (rupd m o x) n = rem m n.
Proof.
  intros Em E. apply rem_ext. intros o' _. destruct (Nat.eq_dec o' o) as [->|N].
  - rewrite calls_upd_same. unfold calls. rewrite Em. exact E.
  - apply calls_upd_other. exact N.
Qed.
Lemma rem_upd_ge m o x : forall n, n <= o -> rem (rupd m o x) n = rem m n.
Proof. intros n H. apply rem_ext. intros o' Ho. apply calls_upd_other. lia. Qed.
Lemma rem_upd_lt m o x : forall n, o < n ->
  rem (rupd m o x) n + bud o (calls m o) K = rem m n + bud o (r_calls x) K.
Proof.
  induction n as [|b IH]; intros H; [lia|]. cbn [rem].
  destruct (Nat.eq_dec o b) as [->|N].
  - rewrite calls_upd_same, rem_upd_ge by lia. lia.
  - rewrite calls_upd_other by congruence. specialize (IH ltac:(lia)). lia.
Qed.

(* one more callback of observer o uses up the entry (o, r_calls) *)
Lemma rem_called m o os stop : m o = Some os -> o < B ->
  rem m B = length (react o (r_calls os)) + rem (rupd m o (rcalled stop os)) B.
Proof.
  intros Em Ho. pose proof (rem_upd_lt m o (rcalled stop os) B Ho) as H.
  unfold calls at 1 in H. rewrite Em in H. cbn [rcalled r_calls] in H.
  rewrite (bud_step o (r_calls os) Ho) in H. lia.
Qed.
Lemma rem_first m o : m o = None -> o < B ->
  rem m B = length (react o 0) + rem (rupd m o (rcalled true fresh_rostate)) B.
Proof.
  intros Em Ho. pose proof (rem_upd_lt m o (rcalled true fresh_rostate) B Ho) as H.
  unfold calls at 1 in H. rewrite Em in H. cbn [rcalled fresh_rostate r_calls] in H.
  rewrite (bud_step o 0 Ho) in H. lia.
Qed.
Lemma rem_new m o x : m o = None -> r_calls x = 0 -> rem (rupd m o x) B = rem m B.
Proof.
  intros Em E. apply rem_ext. intros o' _. destruct (Nat.eq_dec o' o) as [->|N].
  - rewrite calls_upd_same. unfold calls. rewrite Em. exact E.
  - apply calls_upd_other. exact N.
Qed.

Lemma so_each_calls (n : ev A) : forall snap (s : @rstate A) m o,
  calls (snd (so_each (fun _ s so => (s, so_on n so)) snap s m)) o = calls m o.
Proof.
  unfold so_each. induction snap as [|x snap IH]; intros s m o; cbn [fold_left snd]; [reflexivity|].
  destruct (m x) as [os|] eqn:Em; [|apply IH].
  rewrite IH. destruct (Nat.eq_dec o x) as [->|N].
  - rewrite calls_upd_same. unfold calls. rewrite Em. reflexivity.
  - apply calls_upd_other. exact N.
Qed.

Lemma rado_dispose_calls (s : @rstate A) os o : r_calls (snd (rado_dispose s os o)) = r_calls os.
Proof.
  unfold rado_dispose. cbn [rsad_disposed rsad_cur r_so r_handle r_calls].
  destruct (rsad_disposed os); [reflexivity|]. destruct (rsad_cur os); [|reflexivity].
  unfold removable_dispose. cbn [r_so]. destruct (so_dispose s (r_so os)) as [s1 so1]. reflexivity.
Qed.

(* ---- weights of the injected reactions ---- *)
Lemma kw_ops L top (r : list (@rop A)) : kw L (map (SIOp top) r) = (7 * L + 9) * length r.
Proof. induction r as [|x r IH]; cbn [map kw length wi]; [lia|]. rewrite IH. lia. Qed.
Lemma nops_ops top (r : list (@rop A)) : nops (map (SIOp top) r) = length r.
Proof. induction r as [|x r IH]; cbn [map nops length isop]; [reflexivity|]. rewrite IH. reflexivity. Qed.
Lemma in_ops_sub top (r : list (@rop A)) t o : In (SIOp t (RSub o)) (map (SIOp top) r) -> In (RSub o) r.
Proof. intros H. apply in_map_iff in H. destruct H as [x [E H]]. inversion E; subst. exact H. Qed.

(* ---- measure and invariant ---- *)
Definition tmu (L : nat) (c : @scfg A) : nat := mu L B c + (7 * L + 9) * rem (sc_obs c) B.

Record TInv (L : nat) (c : @scfg A) : Prop := {
  t_obs : length (r_observers (sc_st c)) + nops (sc_k c) + rem (sc_obs c) B <= L;
  t_que : length (r_queue (sc_st c)) + nops (sc_k c) + rem (sc_obs c) B <= L;
  t_dom : forall o, sc_obs c o <> None -> o < B;
  t_sub : forall top o, In (SIOp top (RSub o)) (sc_k c) -> o < B }.

Lemma finish2 L s m i k l s' (m' : @romap A) k' l' :
  TInv L (SCfg s m (i :: k) l) ->
  length (r_observers s') + nops k' + rem m' B <= length (r_observers s) + nops (i :: k) + rem m B ->
  length (r_queue s') + nops k' + rem m' B <= length (r_queue s) + nops (i :: k) + rem m B ->
  (forall o, m' o <> None -> o < B) ->
  (forall t o, In (SIOp t (RSub o)) k' -> o < B) ->
  kw L k' + 4 * tsum m' B + length (r_sched s') + (7 * L + 9) * rem m' B
    < kw L (i :: k) + 4 * tsum m B + length (r_sched s) + (7 * L + 9) * rem m B ->
  TInv L (SCfg s' m' k' l') /\ tmu L (SCfg s' m' k' l') < tmu L (SCfg s m (i :: k) l).
Proof.
  intros [H1 H2 H3 H4] G1 G2 G3 G4 G5. cbn [sc_st sc_k sc_obs] in *. split.
  - constructor; cbn [sc_st sc_k sc_obs]; [lia|lia|exact G3|exact G4].
  - unfold tmu, mu. cbn [sc_st sc_k sc_obs]. lia.
Qed.

(* the budget is untouched: the obligations of ReplayTermFacts.finish_case *)
Lemma finish_same L s m i k l s' (m' : @romap A) k' l' :
  TInv L (SCfg s m (i :: k) l) ->
  rem m' B = rem m B ->
  length (r_observers s') + nops k' <= length (r_observers s) + nops (i :: k) ->
  length (r_queue s') + nops k' <= length (r_queue s) + nops (i :: k) ->
  (forall o, m' o <> None -> o < B) ->
  (forall t o, In (SIOp t (RSub o)) k' -> In (SIOp t (RSub o)) (i :: k)) ->
  kw L k' + 4 * tsum m' B + length (r_sched s') < kw L (i :: k) + 4 * tsum m B + length (r_sched s) ->
  TInv L (SCfg s' m' k' l') /\ tmu L (SCfg s' m' k' l') < tmu L (SCfg s m (i :: k) l).
Proof.
  intros HI E G1 G2 G3 G4 G5. apply (finish2 L _ _ _ _ _ _ _ _ _ HI); rewrite ?E; try lia; [exact G3|].
  intros t o Hin. destruct HI as [_ _ _ H4]. exact (H4 t o (G4 t o Hin)).
Qed.

Lemma step_op_decreases L top p s m k l :
  TInv L (SCfg s m (SIOp top p :: k) l) ->
  TInv L (sstep_op sync react top p s m k l) /\
  tmu L (sstep_op sync react top p s m k l) < tmu L (SCfg s m (SIOp top p :: k) l).
Proof.
  intros HI. pose proof HI as [H1 H2 H3 H4]. cbn [sc_st sc_k sc_obs nops isop] in H1, H2, H3, H4.
  unfold sstep_op. destruct p as [o|o|v|e| | |d].
  - (* RSub *)
    destruct (m o) as [os|] eqn:Em.
    { apply (finish_same L _ _ _ _ _ _ _ _ _ HI eq_refl); cbn [nops isop kw wi]; try lia; [exact H3|apply in_tail_sub]. }
    assert (Ho : o < B) by (apply (H4 top o); left; reflexivity).
    assert (Hq0 : qlen m o = 0) by (unfold qlen; now rewrite Em).
    destruct (r_disposed s).
    { pose proof (tsum_upd_lt m o (rcalled true fresh_rostate) B Ho) as Ht. cbn in Ht.
      pose proof (kw_drain_if sync L top (SIHandle o :: k)) as Hk. cbn [kw wi] in Hk.
      pose proof (rem_first m o Em Ho) as Hr.
      apply (finish2 L _ _ _ _ _ _ _ _ _ HI);
        rewrite ?nops_app, ?kw_app, ?nops_ops, ?kw_ops, ?nops_drain_if; cbn [nops isop kw wi];
        try lia; [apply dom_upd; assumption|].
      intros t o0 Hin. apply in_app_or in Hin. destruct Hin as [Hin|Hin].
      - apply in_ops_sub in Hin. exact (proj2 HS o 0 o0 Ho Hin).
      - apply in_drain_if in Hin. destruct Hin as [Hin|[Hin|Hin]]; try discriminate Hin.
        apply (H4 t o0). right. exact Hin. }
    destruct (trim_facts s) as [T1 [T2 T3]]. cbv zeta.
    set (s2 := with_observers (r_observers (trim s) ++ [o]) (trim s)).
    set (so2 := match r_exception s2 with
                | Some e => so_on (Err e) (fold_left (fun so it => so_on (Next (snd it)) so) (r_queue s2) fresh_so)
                | None => if r_stopped s2
                          then so_on Done (fold_left (fun so it => so_on (Next (snd it)) so) (r_queue s2) fresh_so)
                          else fold_left (fun so it => so_on (Next (snd it)) so) (r_queue s2) fresh_so
                end).
    assert (Hso2 : length (so_queue so2) <= S (length (r_queue s))).
    { pose proof (replay_fold_len (r_queue s2) fresh_so) as Hf. cbn [fresh_so so_queue length] in Hf.
      assert (Hq2 : length (r_queue s2) <= length (r_queue s)) by (unfold s2; cbn [with_observers r_queue]; exact T1).
      subst so2. destruct (r_exception s2); [|destruct (r_stopped s2)];
        try (match goal with |- context [so_on ?n ?x] => pose proof (so_on_len n x) end); lia. }
    destruct (ensure_active_facts o s2 so2) as [E1 [E2 [E3 E4]]].
    destruct (ensure_active o s2 so2) as [s3 so3]. cbn [fst snd] in *.
    assert (Hl3 : length (so_queue so3) <= S (length (r_queue s))) by (rewrite E1; exact Hso2).
    assert (Hob : length (r_observers s3) = S (length (r_observers s))).
    { rewrite E3. unfold s2. cbn [with_observers r_observers]. rewrite app_length, T2. cbn [length]. lia. }
    assert (Hqu : length (r_queue s3) <= length (r_queue s)) by (rewrite E4; unfold s2; cbn [with_observers r_queue]; exact T1).
    assert (Hsc : length (r_sched s3) <= S (length (r_sched s))).
    { etransitivity; [exact E2|]. unfold s2. cbn [with_observers r_sched]. rewrite T3. lia. }
    destruct (inl sync top).
    + pose proof (tsum_upd_lt m o (ROState false false true false 0 so3) B Ho) as Ht. cbn [r_so] in Ht.
      apply (finish_same L _ _ _ _ _ _ _ _ _ HI (rem_new m o (ROState false false true false 0 so3) Em eq_refl)); cbn [nops isop kw wi]; try lia;
        [apply dom_upd; assumption|].
      intros t o0 [Hin|[Hin|Hin]]; try discriminate Hin. right. exact Hin.
    + pose proof (tsum_upd_lt m o (ROState false false true true 0 so3) B Ho) as Ht. cbn [r_so] in Ht.
      apply (finish_same L _ _ _ _ _ _ _ _ _ HI (rem_new m o (ROState false false true true 0 so3) Em eq_refl)); cbn [nops isop kw wi]; try lia;
        [apply dom_upd; assumption|apply in_tail_sub].
  - (* RUnsub *)
    destruct (m o) as [os|] eqn:Em;
      [|apply (finish_same L _ _ _ _ _ _ _ _ _ HI eq_refl); cbn [nops isop kw wi]; try lia; [exact H3|apply in_tail_sub]].
    destruct (r_handle os);
      [|apply (finish_same L _ _ _ _ _ _ _ _ _ HI eq_refl); cbn [nops isop kw wi]; try lia; [exact H3|apply in_tail_sub]].
    destruct (rado_dispose_facts s os o) as [R1 [R2 [R3 R4]]].
    pose proof (rado_dispose_calls s os o) as Rc.
    destruct (rado_dispose s os o) as [s' os']. cbn [fst snd] in *.
    pose proof (tsum_upd_same_len m o os os' B Em ltac:(congruence)) as Ht.
    assert (R4' : length (r_queue s') = length (r_queue s)) by congruence.
    apply (finish_same L _ _ _ _ _ _ _ _ _ HI (rem_upd_same m o os os' B Em Rc)); cbn [nops isop kw wi]; try lia;
      [apply (dom_upd_some m o os); assumption|apply in_tail_sub].
  - (* RNext *)
    destruct (r_disposed s);
      [apply (finish_same L _ _ _ _ _ _ _ _ _ HI eq_refl); cbn [nops isop kw wi]; try lia; [exact H3|apply in_tail_sub]|].
    destruct (r_stopped s);
      [apply (finish_same L _ _ _ _ _ _ _ _ _ HI eq_refl); cbn [nops isop kw wi]; try lia; [exact H3|apply in_tail_sub]|].
    cbv zeta. set (s1 := trim (with_queue (r_queue s ++ [(r_clock s, v)]) s)).
    destruct (trim_facts (with_queue (r_queue s ++ [(r_clock s, v)]) s)) as [T1 [T2 T3]]. fold s1 in T1, T2, T3.
    assert (T1' : length (r_queue s1) <= S (length (r_queue s)))
      by (etransitivity; [exact T1|]; cbn [with_queue r_queue]; rewrite app_length; cbn [length]; lia).
    assert (T2' : length (r_observers s1) = length (r_observers s)) by (rewrite T2; reflexivity).
    assert (T3' : length (r_sched s1) = length (r_sched s)) by (rewrite T3; reflexivity).
    clear T1 T2 T3.
    destruct (so_each_on_facts (Next v) B (r_observers s) s1 m H3) as [F1 [F2 F3]].
    pose proof (rem_ext m _ B (fun o _ => so_each_calls (Next v) (r_observers s) s1 m o)) as Fr.
    destruct (so_each (fun _ s0 so => (s0, so_on (Next v) so)) (r_observers s) s1 m) as [s2 m2]. cbn [fst snd] in *. subst s2.
    apply (finish_same L _ _ _ _ _ _ _ _ _ HI Fr);
      rewrite ?nops_app, ?kw_app, ?nops_ensures, ?kw_ensures; cbn [nops isop kw wi]; try lia; [exact F3|].
    apply in_pre_sub. intros j Hj. apply in_map_iff in Hj. destruct Hj as [x [<- _]]. reflexivity.
  - (* RErr *)
    destruct (r_disposed s);
      [apply (finish_same L _ _ _ _ _ _ _ _ _ HI eq_refl); cbn [nops isop kw wi]; try lia; [exact H3|apply in_tail_sub]|].
    destruct (r_stopped s);
      [apply (finish_same L _ _ _ _ _ _ _ _ _ HI eq_refl); cbn [nops isop kw wi]; try lia; [exact H3|apply in_tail_sub]|].
    destruct (trim_facts (with_exception (Some e) (with_observers [] (with_stopped true s)))) as [T1 [T2 T3]].
    set (s1 := trim (with_exception (Some e) (with_observers [] (with_stopped true s)))) in *.
    assert (T1' : length (r_queue s1) <= length (r_queue s)) by exact T1.
    assert (T2' : length (r_observers s1) = 0) by (rewrite T2; reflexivity).
    assert (T3' : length (r_sched s1) = length (r_sched s)) by (rewrite T3; reflexivity).
    clear T1 T2 T3.
    apply (finish_same L _ _ _ _ _ _ _ _ _ HI eq_refl);
      rewrite ?nops_app, ?kw_app, ?nops_onensures, ?kw_onensures; cbn [nops isop kw wi];
      try lia; [exact H3|].
    apply in_pre_sub. intros j Hj. apply in_map_iff in Hj. destruct Hj as [x [<- _]]. reflexivity.
  - (* RDone *)
    destruct (r_disposed s);
      [apply (finish_same L _ _ _ _ _ _ _ _ _ HI eq_refl); cbn [nops isop kw wi]; try lia; [exact H3|apply in_tail_sub]|].
    destruct (r_stopped s);
      [apply (finish_same L _ _ _ _ _ _ _ _ _ HI eq_refl); cbn [nops isop kw wi]; try lia; [exact H3|apply in_tail_sub]|].
    destruct (trim_facts (with_observers [] (with_stopped true s))) as [T1 [T2 T3]].
    set (s1 := trim (with_observers [] (with_stopped true s))) in *.
    assert (T1' : length (r_queue s1) <= length (r_queue s)) by exact T1.
    assert (T2' : length (r_observers s1) = 0) by (rewrite T2; reflexivity).
    assert (T3' : length (r_sched s1) = length (r_sched s)) by (rewrite T3; reflexivity).
    clear T1 T2 T3.
    apply (finish_same L _ _ _ _ _ _ _ _ _ HI eq_refl);
      rewrite ?nops_app, ?kw_app, ?nops_onensures, ?kw_onensures; cbn [nops isop kw wi];
      try lia; [exact H3|].
    apply in_pre_sub. intros j Hj. apply in_map_iff in Hj. destruct Hj as [x [<- _]]. reflexivity.
  - (* RDispose *)
    apply (finish_same L _ _ _ _ _ _ _ _ _ HI eq_refl); cbn [nops isop kw wi]; cbn; try lia; [exact H3|apply in_tail_sub].
  - (* RAdvance *)
    destruct (d <? 0)%Z; apply (finish_same L _ _ _ _ _ _ _ _ _ HI eq_refl); cbn [nops isop kw wi]; cbn; try lia;
      try exact H3; apply in_tail_sub.
Qed.

Theorem step_decreases L c : TInv L c -> sc_k c <> [] ->
  TInv L (step c) /\ tmu L (step c) < tmu L c.
Proof.
  destruct c as [s m k l]. intros HI Hk. destruct k as [|i k]; [contradiction|]. clear Hk.
  pose proof HI as [H1 H2 H3 H4]. cbn [sc_st sc_k sc_obs] in H1, H2, H3, H4.
  unfold sstep. cbn [sc_k sc_st sc_obs sc_rlog].
  destruct i as [top p|top o|top o t|o n|o|o|o|].
  - apply step_op_decreases. exact HI.
  - (* SIEnsure *)
    destruct (m o) as [os|] eqn:Em;
      [|apply (finish_same L _ _ _ _ _ _ _ _ _ HI eq_refl); cbn [nops isop kw wi]; try lia; [exact H3|apply in_tail_sub]].
    destruct (ensure_active_facts o s (r_so os)) as [E1 [E2 [E3 E4]]].
    destruct (ensure_active o s (r_so os)) as [s' so']. cbn [fst snd] in *.
    pose proof (tsum_upd_same_len m o os (set_so os so') B Em ltac:(cbn [set_so r_so]; congruence)) as Ht.
    pose proof (kw_drain_if sync L top k) as Hd.
    assert (E3' : length (r_observers s') = length (r_observers s)) by congruence.
    assert (E4' : length (r_queue s') = length (r_queue s)) by congruence.
    apply (finish_same L _ _ _ _ _ _ _ _ _ HI (rem_upd_same m o os (set_so os so') B Em eq_refl));
      rewrite ?nops_drain_if; cbn [nops isop kw wi]; try lia;
      [apply (dom_upd_some m o os); assumption|apply in_drain_sub].
  - (* SIOnEnsure *)
    destruct (m o) as [os|] eqn:Em;
      [|apply (finish_same L _ _ _ _ _ _ _ _ _ HI eq_refl); cbn [nops isop kw wi]; try lia; [exact H3|apply in_tail_sub]].
    destruct (ensure_active_facts o s (so_on t (r_so os))) as [E1 [E2 [E3 E4]]].
    destruct (ensure_active o s (so_on t (r_so os))) as [s' so']. cbn [fst snd] in *.
    assert (Ho : o < B) by (apply H3; congruence).
    pose proof (tsum_upd_lt m o (set_so os so') B Ho) as Ht. cbn [set_so r_so] in Ht.
    assert (Hq : qlen m o = length (so_queue (r_so os))) by (unfold qlen; now rewrite Em).
    pose proof (so_on_len t (r_so os)) as Hl. rewrite <- E1 in Hl.
    pose proof (kw_drain_if sync L top k) as Hd.
    assert (E3' : length (r_observers s') = length (r_observers s)) by congruence.
    assert (E4' : length (r_queue s') = length (r_queue s)) by congruence.
    apply (finish_same L _ _ _ _ _ _ _ _ _ HI (rem_upd_same m o os (set_so os so') B Em eq_refl));
      rewrite ?nops_drain_if; cbn [nops isop kw wi]; try lia;
      [apply dom_upd; assumption|apply in_drain_sub].
  - (* SIDeliver *)
    destruct (m o) as [os|] eqn:Em;
      [|apply (finish_same L _ _ _ _ _ _ _ _ _ HI eq_refl); cbn [nops isop kw wi]; try lia; [exact H3|apply in_tail_sub]].
    destruct (ra_stopped os);
      [apply (finish_same L _ _ _ _ _ _ _ _ _ HI eq_refl); cbn [nops isop kw wi]; try lia; [exact H3|apply in_tail_sub]|].
    assert (Ho : o < B) by (apply H3; congruence).
    assert (Hsubs : forall t0 o0 k', (forall t1 o1, In (SIOp t1 (RSub o1)) k' -> In (SIOp t1 (RSub (A:=A) o1)) k) ->
              In (SIOp t0 (RSub o0)) (map (SIOp false) (react o (r_calls os)) ++ k') -> o0 < B).
    { intros t0 o0 k' Hk' Hin. apply in_app_or in Hin. destruct Hin as [Hin|Hin].
      - apply in_ops_sub in Hin. exact (proj2 HS o (r_calls os) o0 Ho Hin).
      - apply (H4 t0 o0). right. apply Hk'. exact Hin. }
    destruct n as [v|e|];
      match goal with |- context [rupd m o (rcalled ?b os)] =>
        pose proof (tsum_upd_same_len m o os (rcalled b os) B Em eq_refl) as Ht;
        pose proof (rem_called m o os b Em Ho) as Hr end;
      apply (finish2 L _ _ _ _ _ _ _ _ _ HI);
        rewrite ?nops_app, ?kw_app, ?nops_ops, ?kw_ops; cbn [nops isop kw wi]; try lia;
        try (apply (dom_upd_some m o os); assumption).
    + intros t0 o0 Hin. apply (Hsubs t0 o0 k); [auto|exact Hin].
    + intros t0 o0 Hin. apply (Hsubs t0 o0 (SIAdoFin o :: k)); [|exact Hin].
      intros t1 o1 [H|H]; [discriminate H|exact H].
    + intros t0 o0 Hin. apply (Hsubs t0 o0 (SIAdoFin o :: k)); [|exact Hin].
      intros t1 o1 [H|H]; [discriminate H|exact H].
  - (* SIAdoFin *)
    destruct (m o) as [os|] eqn:Em;
      [|apply (finish_same L _ _ _ _ _ _ _ _ _ HI eq_refl); cbn [nops isop kw wi]; try lia; [exact H3|apply in_tail_sub]].
    destruct (rado_dispose_facts s os o) as [R1 [R2 [R3 R4]]].
    pose proof (rado_dispose_calls s os o) as Rc.
    destruct (rado_dispose s os o) as [s' os']. cbn [fst snd] in *.
    pose proof (tsum_upd_same_len m o os os' B Em ltac:(congruence)) as Ht.
    assert (R4' : length (r_queue s') = length (r_queue s)) by congruence.
    apply (finish_same L _ _ _ _ _ _ _ _ _ HI (rem_upd_same m o os os' B Em Rc)); cbn [nops isop kw wi]; try lia;
      [apply (dom_upd_some m o os); assumption|apply in_tail_sub].
  - (* SIResched *)
    apply (finish_same L _ _ _ _ _ _ _ _ _ HI eq_refl); cbn [nops isop kw wi with_sched r_observers r_queue r_sched];
      rewrite ?app_length; cbn [length]; try lia; [exact H3|apply in_tail_sub].
  - (* SIHandle *)
    destruct (m o) as [os|] eqn:Em;
      [|apply (finish_same L _ _ _ _ _ _ _ _ _ HI eq_refl); cbn [nops isop kw wi]; try lia; [exact H3|apply in_tail_sub]].
    pose proof (tsum_upd_same_len m o os (rwith_handle os) B Em eq_refl) as Ht.
    apply (finish_same L _ _ _ _ _ _ _ _ _ HI (rem_upd_same m o os (rwith_handle os) B Em eq_refl));
      cbn [nops isop kw wi]; try lia;
      [apply (dom_upd_some m o os); assumption|apply in_tail_sub].
  - (* SIDrain *)
    destruct (r_sched s) as [|[[id o] cancelled] rest] eqn:Es.
    { apply (finish_same L _ _ _ _ _ _ _ _ _ HI eq_refl); cbn [nops isop kw wi]; try lia; [exact H3|apply in_tail_sub]. }
    assert (Hsame : forall t0 o0, In (SIOp t0 (RSub o0)) (SIDrain :: k) -> In (SIOp t0 (RSub (A:=A) o0)) (SIDrain :: k))
      by (intros; assumption).
    destruct cancelled.
    { apply (finish_same L _ _ _ _ _ _ _ _ _ HI eq_refl); cbn [nops isop kw wi with_sched r_observers r_queue r_sched length]; rewrite ?Es; cbn [length];
        try lia; [exact H3|exact Hsame]. }
    destruct (m o) as [os|] eqn:Em.
    2: { apply (finish_same L _ _ _ _ _ _ _ _ _ HI eq_refl); cbn [nops isop kw wi with_sched r_observers r_queue r_sched length]; rewrite ?Es; cbn [length];
           try lia; [exact H3|exact Hsame]. }
    assert (Ho : o < B) by (apply H3; congruence).
    assert (Hq : qlen m o = length (so_queue (r_so os))) by (unfold qlen; now rewrite Em).
    destruct (so_queue (r_so os)) as [|n q] eqn:Eq.
    + match goal with |- context [rupd m o ?x] => pose proof (tsum_upd_lt m o x B Ho) as Ht;
        pose proof (rem_upd_same m o os x B Em eq_refl) as Hr end.
      cbn [set_so r_so so_queue length] in Ht.
      apply (finish_same L _ _ _ _ _ _ _ _ _ HI Hr); cbn [nops isop kw wi with_sched r_observers r_queue r_sched length]; rewrite ?Es; cbn [length];
        try lia; [apply dom_upd; assumption|exact Hsame].
    + match goal with |- context [rupd m o ?x] => pose proof (tsum_upd_lt m o x B Ho) as Ht;
        pose proof (rem_upd_same m o os x B Em eq_refl) as Hr end.
      cbn [set_so r_so so_queue length] in Ht. cbn [length] in Hq.
      apply (finish_same L _ _ _ _ _ _ _ _ _ HI Hr); cbn [nops isop kw wi with_sched r_observers r_queue r_sched length]; rewrite ?Es; cbn [length];
        try lia; [apply dom_upd; assumption|].
      intros t0 o0 [Hin|[Hin|Hin]]; try discriminate Hin. exact Hin.
Qed.

Lemma srun_terminates L : forall n c, TInv L c -> tmu L c <= n -> sc_k (srun sync react n c) = [].
Proof.
  induction n as [|n IH]; intros c HI Hm.
  - cbn [srun]. apply (kw_zero L). unfold tmu, mu in Hm. lia.
  - cbn [srun]. destruct (sc_k c) as [|i k] eqn:Ek; [exact Ek|].
    destruct (step_decreases L c HI) as [HI' Hlt]; [rewrite Ek; discriminate|].
    apply IH; [exact HI'|lia].
Qed.

(* every program (list of pending instructions) whose subscriptions stay below B *)
Theorem tree_program_terminates (bs w : option Z) (k0 : list sinstr) :
  sub_bound k0 <= B ->
  exists fuel0, forall fuel, fuel0 <= fuel ->
    sc_k (srun sync react fuel (SCfg (rinit_state bs w) (fun _ => None) k0 [])) = [].
Proof.
  intros Hb. set (c0 := SCfg (rinit_state bs w) (fun _ => None) k0 []).
  set (L := nops k0 + rem (fun _ => None) B).
  assert (HI : TInv L c0).
  { constructor; cbn [c0 sc_st sc_k sc_obs rinit_state r_observers r_queue length]; unfold L; try lia.
    - intros o H. contradiction H. reflexivity.
    - intros t o H. pose proof (sub_bound_in k0 t o H). lia. }
  exists (tmu L c0). intros fuel Hf. exact (srun_terminates L fuel c0 HI Hf).
Qed.
End TreeTerm.

(* ---- reaction TABLES have finite support ---- *)
Section Tables.
Context {A : Type}.
Notation table := (list (nat * list (list (@rop A)))).

Fixpoint ops_sub_bound (r : list (@rop A)) : nat :=
  match r with
  | [] => 0
  | RSub o :: r' => Nat.max (S o) (ops_sub_bound r')
  | _ :: r' => ops_sub_bound r'
  end.
Fixpoint script_sub_bound (sc : list (list (@rop A))) : nat :=
  match sc with [] => 0 | r :: sc' => Nat.max (ops_sub_bound r) (script_sub_bound sc') end.
(* every observer named by the table: as a key or as the target of a subscribe in an entry *)
Fixpoint tbl_B (t : table) : nat :=
  match t with [] => 0 | (o, sc) :: r => Nat.max (Nat.max (S o) (script_sub_bound sc)) (tbl_B r) end.
(* the longest script *)
Fixpoint tbl_K (t : table) : nat :=
  match t with [] => 0 | (_, sc) :: r => Nat.max (length sc) (tbl_K r) end.

Lemma ops_sub_bound_in r : forall o, In (RSub o) r -> o < ops_sub_bound r.
Proof.
  induction r as [|p r IH]; intros o H; [destruct H|].
  destruct H as [->|H]; [cbn [ops_sub_bound]; lia|].
  specialize (IH o H). destruct p; cbn [ops_sub_bound]; lia.
Qed.
Lemma script_sub_bound_nth sc : forall k o, In (RSub o) (nth k sc []) -> o < script_sub_bound sc.
Proof.
  induction sc as [|r sc IH]; intros k o H; [destruct k; destruct H|].
  cbn [script_sub_bound]. destruct k as [|k]; cbn [nth] in H.
  - pose proof (ops_sub_bound_in r o H). lia.
  - specialize (IH k o H). lia.
Qed.

Lemma tbl_k_support (t : table) : forall o k, tbl_K t <= k -> rreact_tbl t o k = [].
Proof.
  induction t as [|[o' sc] t IH]; intros o k H; [reflexivity|]. cbn [rreact_tbl tbl_K] in *.
  destruct (Nat.eqb o' o); [apply nth_overflow; lia|apply IH; lia].
Qed.
Lemma tbl_sub_support (t : table) : forall o k o', In (RSub o') (rreact_tbl t o k) -> o' < tbl_B t.
Proof.
  induction t as [|[o1 sc] t IH]; intros o k o' H; [destruct H|]. cbn [rreact_tbl tbl_B] in *.
  destruct (Nat.eqb o1 o).
  - pose proof (script_sub_bound_nth sc k o' H). lia.
  - specialize (IH o k o' H). lia.
Qed.

Lemma tbl_finite_support (t : table) B : tbl_B t <= B -> finite_support (rreact_tbl t) B (tbl_K t).
Proof.
  intros H. split.
  - intros o k _ Hk. apply tbl_k_support. exact Hk.
  - intros o k o' _ Hin. pose proof (tbl_sub_support t o k o' Hin). lia.
Qed.
End Tables.

(* every call TREE, both scheduler modes, every program of calls and explicit drains *)
Theorem tree_programs_terminate {A} (sync : bool) (bs w : option Z) (prog : list (xtop A))
  (tbl : list (nat * list (list (@rop A)))) :
  exists fuel0, forall fuel, (fuel0 <= fuel)%nat ->
    sc_k (srun sync (rreact_tbl tbl) fuel (xinit_cfg bs w prog)) = [].
Proof.
  set (B := Nat.max (tbl_B tbl) (sub_bound (map xinstr prog))).
  apply (tree_program_terminates sync (rreact_tbl tbl) B (tbl_K tbl)).
  - apply tbl_finite_support. unfold B. lia.
  - unfold B. lia.
Qed.

Theorem trees_terminate {A} (sync : bool) (bs w : option Z) (top : list (@rop A))
  (tbl : list (nat * list (list (@rop A)))) :
  exists fuel0, forall fuel, (fuel0 <= fuel)%nat ->
    sc_k (srun sync (rreact_tbl tbl) fuel (sinit_cfg sync bs w top)) = [].
Proof. rewrite sinit_cfg_is_xinit. apply tree_programs_terminate. Qed.

(* run level: run_shistory / run_xhistory report `finished` *)
Theorem run_shistory_finishes {A} (sync : bool) (bs w : option Z) (h : rhistory A) :
  exists fuel0, forall fuel, (fuel0 <= fuel)%nat -> snd (run_shistory sync bs w fuel h) = true.
Proof.
  destruct (trees_terminate sync bs w (fst h) (snd h)) as [f0 H]. exists f0. intros fuel Hf.
  unfold run_shistory, sfinished. cbn [snd]. rewrite (H fuel Hf). reflexivity.
Qed.
Theorem run_xhistory_finishes {A} (sync : bool) (bs w : option Z) (h : xhistory A) :
  exists fuel0, forall fuel, (fuel0 <= fuel)%nat -> snd (run_xhistory sync bs w fuel h) = true.
Proof.
  destruct (tree_programs_terminate sync bs w (fst h) (snd h)) as [f0 H]. exists f0. intros fuel Hf.
  unfold run_xhistory, sfinished. cbn [snd]. rewrite (H fuel Hf). reflexivity.
Qed.

(* termination + completeness on TREES: every run with enough fuel is finished, and then every
   observer that has not unsubscribed has received EXACTLY its entitlement *)
Theorem trees_deliver_everything {A} (sync : bool) (bs w : option Z) (top : list (@rop A))
  (tbl : list (nat * list (list (@rop A)))) :
  exists fuel0, forall fuel, (fuel0 <= fuel)%nat ->
    let c := srun sync (rreact_tbl tbl) fuel (sinit_cfg sync bs w top) in
    sc_k c = [] /\
    forall o os, sc_obs c o = Some os ->
      (ra_stopped os = false \/ has_term (rview o (slog_of c)) = true) ->
      rview o (slog_of c) = xview (bufsize_of bs) w o false rg_init (ops_of (slog_of c)).
Proof.
  destruct (trees_terminate sync bs w top tbl) as [f0 H]. exists f0. intros fuel Hf c.
  pose proof (H fuel Hf) as Hk. fold c in Hk. split; [exact Hk|].
  intros o os Ho Hs. exact (sched_complete sync (rreact_tbl tbl) bs w top fuel o os Hk Ho Hs).
Qed.

Theorem tree_programs_deliver_everything {A} (sync : bool) (bs w : option Z) (prog : list (xtop A))
  (tbl : list (nat * list (list (@rop A)))) :
  (sync = false -> xclosed prog = true) ->
  exists fuel0, forall fuel, (fuel0 <= fuel)%nat ->
    let c := srun sync (rreact_tbl tbl) fuel (xinit_cfg bs w prog) in
    sc_k c = [] /\
    forall o os, sc_obs c o = Some os ->
      (ra_stopped os = false \/ has_term (rview o (slog_of c)) = true) ->
      rview o (slog_of c) = xview (bufsize_of bs) w o false rg_init (ops_of (slog_of c)).
Proof.
  intros Hc. destruct (tree_programs_terminate sync bs w prog tbl) as [f0 H]. exists f0. intros fuel Hf c.
  pose proof (H fuel Hf) as Hk. fold c in Hk. split; [exact Hk|].
  intros o os Ho Hs. exact (xsched_complete sync (rreact_tbl tbl) bs w prog fuel o os Hc Hk Ho Hs).
Qed.

(* ---- an observer that answers EVERY callback with one more emission (a reaction function
        without finite support): the run never finishes, in either scheduler mode ---- *)
Section Echo.
Context {A : Type} (v : A) (sync : bool).
Definition echo : nat -> nat -> list (@rop A) := fun _ _ => [RNext v].
Notation step := (sstep sync echo).

Definition is_next (n : ev A) : bool := match n with Next _ => true | _ => false end.

Inductive shape : list (@sinstr A) -> list (nat * nat * bool) -> list (ev A) -> Prop :=
| ShDrain k id n q : shape (SIDrain :: k) [(id, 0, false)] (n :: q)
| ShDeliver k x q : shape (SIDeliver 0 (Next x) :: SIResched 0 :: SIDrain :: k) [] q
| ShOp k q : shape (SIOp false (RNext v) :: SIResched 0 :: SIDrain :: k) [] q
| ShEnsure k n q : shape (SIEnsure false 0 :: SIResched 0 :: SIDrain :: k) [] (n :: q)
| ShResched k n q : shape (SIResched 0 :: SIDrain :: k) [] (n :: q).

Record Loop (c : @scfg A) : Prop := {
  l_disp : r_disposed (sc_st c) = false;
  l_stop : r_stopped (sc_st c) = false;
  l_obs : r_observers (sc_st c) = [0];
  l_os : exists os, sc_obs c 0 = Some os /\ ra_stopped os = false /\
           so_acquired (r_so os) = true /\ so_faulted (r_so os) = false /\ so_stopped (r_so os) = false /\
           forallb is_next (so_queue (r_so os)) = true /\
           shape (sc_k c) (r_sched (sc_st c)) (so_queue (r_so os)) }.

Lemma loop_step c : Loop c -> Loop (step c).
Proof.
  destruct c as [s m k l]. intros [H1 H2 H3 [os [Em [Hs [Ha [Hf [Hst [Hn Hsh]]]]]]]].
  cbn [sc_st sc_obs sc_k] in *. destruct os as [ast sd sc h calls so]. destruct so as [sst q acq fl sdp scur].
  cbn [ra_stopped r_so so_acquired so_faulted so_stopped so_queue] in *. subst ast acq fl sst.
  inversion Hsh as [k0 id n q0 Ek Es Eq|k0 x q0 Ek Es Eq|k0 q0 Ek Es Eq|k0 n q0 Ek Es Eq|k0 n q0 Ek Es Eq];
    clear Hsh; unfold sstep; cbn [sc_k sc_st sc_obs sc_rlog].
  - (* drain *)
    rewrite <- Es, Em. cbn [r_so so_queue]. rewrite <- Eq in *.
    cbn [forallb] in Hn. apply andb_prop in Hn. destruct Hn as [Hn0 Hn].
    destruct n as [x| |]; try discriminate Hn0.
    constructor; cbn [sc_st sc_obs sc_k with_sched r_disposed r_stopped r_observers r_sched]; try assumption.
    eexists. split; [unfold rupd; cbn; reflexivity|]. cbn. repeat split; try assumption. constructor.
  - (* deliver *)
    rewrite Em. cbn [ra_stopped echo map app].
    constructor; cbn [sc_st sc_obs sc_k]; try assumption.
    eexists. split; [unfold rupd; cbn; reflexivity|]. cbn. repeat split; try assumption.
    rewrite <- Es. constructor.
  - (* op *)
    unfold sstep_op. rewrite H1, H2, H3. cbv zeta. unfold so_each. cbn [fold_left]. rewrite Em.
    cbn [r_so set_so map app]. unfold so_on at 1. cbn [so_stopped so_queue].
    constructor; cbn [sc_st sc_obs sc_k]; try (unfold trim; cbn; assumption).
    eexists. split; [unfold rupd; cbn; reflexivity|]. cbn [set_so ra_stopped r_so so_acquired so_faulted so_stopped so_queue].
    repeat split; try assumption.
    + rewrite forallb_app, Hn. reflexivity.
    + unfold trim. cbn [r_sched with_queue]. rewrite <- Es.
      destruct q; constructor.
  - (* ensure *)
    rewrite Em. cbn [r_so]. rewrite <- Eq in *.
    unfold ensure_active. cbn [so_faulted so_queue so_acquired negb andb].
    unfold drain_if, inl. rewrite Bool.andb_false_r.
    constructor; cbn [sc_st sc_obs sc_k]; try assumption.
    eexists. split; [unfold rupd; cbn; reflexivity|]. cbn [ra_stopped r_so set_so so_acquired so_faulted so_stopped so_queue].
    repeat split; try assumption.
    rewrite <- Es. constructor.
  - (* resched *)
    constructor; cbn [sc_st sc_obs sc_k with_sched r_disposed r_stopped r_observers]; try assumption.
    exists (ROState false sd sc h calls (SoState false q true false sdp scur)). split; [exact Em|].
    cbn [ra_stopped r_so so_acquired so_faulted so_stopped so_queue]. repeat split; try assumption.
    cbn [with_sched r_sched]. rewrite <- Es, <- Eq. cbn [app]. constructor.
Qed.

Lemma loop_busy c : Loop c -> sc_k c <> [].
Proof. intros [_ _ _ [os [_ [_ [_ [_ [_ [_ H]]]]]]]]. inversion H; discriminate. Qed.

Lemma loop_forever : forall n c, Loop c -> Loop (srun sync echo n c).
Proof.
  induction n as [|n IH]; intros c H; [exact H|]. cbn [srun].
  destruct (sc_k c) eqn:E; [exact H|]. apply IH. apply loop_step. exact H.
Qed.

Lemma srun_add : forall a b (c : @scfg A), srun sync echo (a + b) c = srun sync echo b (srun sync echo a c).
Proof.
  induction a as [|a IH]; intros b c; [reflexivity|]. cbn [Nat.add srun].
  destruct (sc_k c) eqn:E; [|apply IH].
  destruct b; cbn [srun]; rewrite ?E; reflexivity.
Qed.

Lemma srun_mono_finished : forall a b (c : @scfg A), a <= b -> sc_k (srun sync echo a c) = [] -> sc_k (srun sync echo b c) = [].
Proof.
  intros a b c H E. replace b with (a + (b - a)) by lia. rewrite srun_add.
  destruct (b - a); cbn [srun]; [exact E|]. rewrite E. exact E.
Qed.
End Echo.

(* a subscriber that answers EVERY callback with one more emission: the run never finishes *)
Lemma echo_reaches_loop {A} (v : A) (sync : bool) (bs w : option Z) :
  Loop v (srun sync (echo v) 5 (sinit_cfg sync bs w [RSub 0; RNext v])).
Proof.
  destruct sync; (constructor; [reflexivity|reflexivity|reflexivity|]);
    (eexists; split; [reflexivity|]); cbn; repeat split; constructor.
Qed.

Theorem echo_diverges {A} (v : A) (sync : bool) (bs w : option Z) : forall fuel,
  sc_k (srun sync (echo v) fuel (sinit_cfg sync bs w [RSub 0; RNext v])) <> [].
Proof.
  intros fuel E.
  assert (H : sc_k (srun sync (echo v) (5 + fuel) (sinit_cfg sync bs w [RSub 0; RNext v])) = [])
    by (apply (srun_mono_finished v sync fuel); [lia|exact E]).
  rewrite srun_add in H.
  exact (loop_busy v _ (loop_forever v sync fuel _ (echo_reaches_loop v sync bs w)) H).
Qed.

(* so the finite-support hypothesis of [tree_program_terminates] cannot be dropped: for reaction
   FUNCTIONS in general (not tables) termination is false *)
Theorem termination_for_arbitrary_reaction_functions_refuted :
  ~ (forall (sync : bool) (react : nat -> nat -> list (@rop Z)) (bs w : option Z) (top : list (@rop Z)),
       exists fuel, sc_k (srun sync react fuel (sinit_cfg sync bs w top)) = []).
Proof.
  intros H. destruct (H true (echo 0%Z) None None [RSub 0; RNext 0%Z]) as [fuel E].
  exact (echo_diverges 0%Z true None None fuel E).
Qed.
