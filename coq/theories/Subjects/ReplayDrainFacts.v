(* C22 with the scheduler drained EXPLICITLY (Subjects/ReplaySched.v, [xinit_cfg]): the
   top level is a program of calls and drains, so calls can be made while replay
   items are still queued on the scheduler.  The invariants of ReplaySchedFacts.v are
   invariants of the ENGINE (preserved by every [sstep]); here they are established for
   the initial configuration of an arbitrary program, which gives the three main
   statements of C22 for it.  The two fixed disciplines of [sinit_cfg] are instances
   ([sinit_cfg_is_xinit]). *)
From Coq Require Import Sorting.Sorted.
From RxVerif Require Import Base.Prelude Ops.Machine Subjects.Subject Subjects.Family Subjects.Replay
  Subjects.ReplaySpec Subjects.ReplaySched Subjects.SubjectFacts Subjects.FamilyFacts Subjects.ReplayFacts
  Subjects.ReplayTreeFacts Subjects.ReplayLiveFacts Subjects.ReplaySchedFacts.

(* the two fixed drain disciplines of sinit_cfg are programs with explicit drains *)
Definition xprog_of {A} (sync : bool) (top : list (@rop A)) : list (xtop A) :=
  if sync then map XOp top else flat_map (fun p => [XOp p; XDrain]) top.

Lemma sinit_cfg_is_xinit {A} (sync : bool) (bs w : option Z) (top : list (@rop A)) :
  sinit_cfg sync bs w top = xinit_cfg bs w (xprog_of sync top).
Proof.
  unfold sinit_cfg, xinit_cfg, xprog_of. f_equal. destruct sync.
  - rewrite map_map. reflexivity.
  - induction top as [|p t IH]; [reflexivity|]. cbn [flat_map app map xinstr]. now rewrite IH.
Qed.

Lemma xprog_quiet {A} (prog : list (xtop A)) o :
  sinflight o (map xinstr prog) = [] /\ spend o (map xinstr prog) = [].
Proof. induction prog as [|x t IH]; [split; reflexivity|]. destruct x; cbn; exact IH. Qed.

Lemma SInv_xinit {A} (bs w : option Z) (prog : list (xtop A)) :
  SInv (bufsize_of bs) w (xinit_cfg bs w prog).
Proof.
  pose proof (xprog_quiet prog) as Hk.
  constructor; cbn [xinit_cfg sc_st sc_obs sc_rlog sc_k].
  - unfold st_agree. cbn. split; [destruct bs; reflexivity|]. split; [reflexivity|]. split; [reflexivity|].
    split; [repeat split|]. intros _. apply qinv_init.
  - constructor.
  - intros o [].
  - intros o _. split; [reflexivity|]. split; [reflexivity|]. exact (Hk o).
  - intros o os H. discriminate.
  - apply snodeliver_clean. intros o. exact (proj1 (Hk o)).
  - intros _ o. exact (proj2 (Hk o)).
Qed.

Lemma SInv_xrun {A} (sync : bool) (react : nat -> nat -> list (@rop A)) (bs w : option Z)
      (prog : list (xtop A)) (fuel : nat) :
  SInv (bufsize_of bs) w (srun sync react fuel (xinit_cfg bs w prog)).
Proof. apply (srun_ind sync react (SInv (bufsize_of bs) w)); [apply sstep_inv|apply SInv_xinit]. Qed.

Theorem xsched_prefix {A} (sync : bool) (react : nat -> nat -> list (@rop A)) (bs w : option Z)
        (prog : list (xtop A)) (fuel o : nat) :
  let c := srun sync react fuel (xinit_cfg bs w prog) in
  prefix (rview o (slog_of c)) (xview (bufsize_of bs) w o false rg_init (ops_of (slog_of c))).
Proof. cbv zeta. exact (SInv_prefix react (bufsize_of bs) w _ o (SInv_xrun sync react bs w prog fuel)). Qed.

Theorem xsched_nothing_lost {A} (sync : bool) (react : nat -> nat -> list (@rop A)) (bs w : option Z)
        (prog : list (xtop A)) (fuel o : nat) os :
  let c := srun sync react fuel (xinit_cfg bs w prog) in
  sc_obs c o = Some os -> ra_stopped os = false ->
  rview o (slog_of c) ++ sinflight o (sc_k c) ++ so_queue (r_so os) ++ spend o (sc_k c)
  = xview (bufsize_of bs) w o false rg_init (ops_of (slog_of c)).
Proof.
  cbv zeta. intros Hm Hs.
  pose proof (SInv_xrun sync react bs w prog fuel) as I.
  destruct (sinv_some _ _ _ I o os Hm) as [_ [X' (EX & Hok & _)]]. unfold obs_ok in Hok. rewrite Hs in Hok.
  destruct Hok as [H1 _]. unfold slog_of. fold (lops (sc_rlog (srun sync react fuel (xinit_cfg bs w prog)))).
  fold (lview o (sc_rlog (srun sync react fuel (xinit_cfg bs w prog)))).
  change (xview (bufsize_of bs) w o false rg_init (lops ?l)) with (lx (bufsize_of bs) w l o).
  rewrite EX, <- H1, <- !app_assoc. reflexivity.
Qed.

(* every call of the program has a drain somewhere behind it *)
Definition is_xdrain {A} (x : xtop A) : bool := match x with XDrain => true | _ => false end.
Fixpoint xclosed {A} (prog : list (xtop A)) : bool :=
  match prog with
  | [] => true
  | XOp _ :: r => existsb is_xdrain r && xclosed r
  | XDrain :: r => xclosed r
  end.

Lemma xdrain_in {A} (r : list (xtop A)) : existsb is_xdrain r = true -> In SIDrain (map xinstr r).
Proof.
  intros H. apply existsb_exists in H. destruct H as [x [Hin Hx]]. destruct x; [discriminate|].
  apply in_map_iff. exists XDrain. split; [reflexivity|exact Hin].
Qed.

Lemma K2_xinit {A} (sync : bool) (react : nat -> nat -> list (@rop A)) (bs w : option Z) (prog : list (xtop A)) :
  (sync = false -> xclosed prog = true) ->
  K2 sync (bufsize_of bs) w (xinit_cfg bs w prog).
Proof.
  intros Hc. split; [apply SInv_xinit|]. split; [|split].
  - split; [split; cbn; [constructor|intros i []]|]. intros o os H. discriminate.
  - intros o os H. discriminate.
  - split; [|cbn; intros H; congruence]. cbn [xinit_cfg sc_k]. destruct sync.
    + clear Hc. induction prog as [|x t IH]; cbn; [exact I|]. split; [|exact IH]. destruct x; discriminate.
    + specialize (Hc eq_refl). induction prog as [|x t IH]; cbn; [exact I|]. destruct x as [p|].
      * cbn [xclosed] in Hc. apply andb_prop in Hc. destruct Hc as [Hd Hc]. split; [|exact (IH Hc)].
        intros _. now apply xdrain_in.
      * split; [discriminate|exact (IH Hc)].
Qed.

Theorem xsched_complete {A} (sync : bool) (react : nat -> nat -> list (@rop A)) (bs w : option Z)
        (prog : list (xtop A)) (fuel o : nat) os :
  (sync = false -> xclosed prog = true) ->
  let c := srun sync react fuel (xinit_cfg bs w prog) in
  sc_k c = [] -> sc_obs c o = Some os ->
  (ra_stopped os = false \/ has_term (rview o (slog_of c)) = true) ->
  rview o (slog_of c) = xview (bufsize_of bs) w o false rg_init (ops_of (slog_of c)).
Proof.
  intros Hcl. cbv zeta. intros Hk Hm Hcase.
  set (c := srun sync react fuel (xinit_cfg bs w prog)) in *.
  assert (HK : K2 sync (bufsize_of bs) w c).
  { apply (srun_ind sync react (K2 sync (bufsize_of bs) w)); [intros c0; apply (K2_step sync react)|now apply (K2_xinit sync react)]. }
  destruct HK as (I & HJ & HQ & [_ HM]).
  destruct (ra_stopped os) eqn:Hs.
  - destruct Hcase as [|Ht]; [discriminate|].
    apply prefix_with_terminal_is_all; [|exact Ht].
    exact (SInv_prefix react (bufsize_of bs) w c o I).
  - destruct (sinv_some _ _ _ I o os Hm) as [_ [X' (EX & Hok & _)]]. unfold obs_ok in Hok. rewrite Hs in Hok.
    destruct Hok as [Heq _]. rewrite Hk in Heq, EX. cbn [sinflight spend app] in Heq, EX. rewrite app_nil_r in EX.
    assert (Hq : so_queue (r_so os) = []).
    { destruct (so_acquired (r_so os)) eqn:Ha.
      - exfalso. destruct (proj2 HJ o os Hm) as (_ & _ & Lv). destruct (Lv Hs) as [_ R].
        destruct (R Ha) as [[i Hi]|Hin].
        + assert (Hne : r_sched (sc_st c) <> []) by (intros E; rewrite E in Hi; destruct Hi).
          specialize (HM Hne). rewrite Hk in HM. destruct HM.
        + rewrite Hk in Hin. destruct Hin.
      - destruct (HQ o os Hm Hs Ha) as [H|[t H]]; [exact H|]. rewrite Hk in H. destruct H. }
    rewrite Hq, app_nil_r in Heq. unfold slog_of. fold (lview o (sc_rlog c)). fold (lops (sc_rlog c)).
    change (xview (bufsize_of bs) w o false rg_init (lops ?l)) with (lx (bufsize_of bs) w l o).
    now rewrite EX.
Qed.

Theorem xsched_wellformed {A} (sync : bool) (react : nat -> nat -> list (@rop A)) (bs w : option Z)
        (prog : list (xtop A)) (fuel o : nat) :
  wellformed (rview o (slog_of (srun sync react fuel (xinit_cfg bs w prog)))) = true.
Proof.
  destruct (xsched_prefix sync react bs w prog fuel o) as [r Hr].
  destruct (xview_shape (bufsize_of bs) w o
              (ops_of (slog_of (srun sync react fuel (xinit_cfg bs w prog)))) false rg_init)
    as (l & t & E & Hn & Ht).
  apply (wellformed_prefix _ r). rewrite <- Hr, E.
  destruct Ht as [->|[x ->]]; [rewrite app_nil_r; now apply wellformed_no_term|].
  rewrite wellformed_snoc, Hn, (wellformed_no_term l Hn). reflexivity.
Qed.
