(* C22 on ARBITRARY call trees: whatever the observers do from inside their
   callbacks (subscribe, unsubscribe, emit, dispose, also re-entrantly while
   other observers still have notifications queued), for every buffer size and
   window and every fuel, what an observer has received is a PREFIX of what the
   specification [xview] entitles it to: the retained values at its subscription,
   in order, then the terminal notification if any, then every later
   notification in call order -- nothing duplicated, reordered or invented.
   And nothing is lost: as long as the observer's wrapper is not stopped
   (unsubscribed / terminated), received ++ handed to the wrapper ++ still queued
   in its ScheduledObserver  IS  the whole entitlement. *)
From Coq Require Import Sorting.Sorted.
From RxVerif Require Import Base.Prelude Ops.Machine Subjects.Subject Subjects.Family Subjects.Replay
  Subjects.ReplaySpec Subjects.SubjectFacts Subjects.FamilyFacts Subjects.ReplayFacts.

Section Tree.
Context {A : Type} (react : nat -> nat -> list (@rop A)) (b : Z) (w : option Z).

Notation rstep := (rstep react).
Notation rrun := (rrun react).

(* ---- prefixes ---- *)
Lemma prefix_refl {X} (l : list X) : prefix l l.
Proof. exists []. now rewrite app_nil_r. Qed.

Lemma prefix_app_r {X} (l1 l2 r : list X) : prefix l1 l2 -> prefix l1 (l2 ++ r).
Proof. intros [x ->]. exists (x ++ r). now rewrite app_assoc. Qed.

Lemma prefix_of_app {X} (l1 r l2 : list X) : prefix (l1 ++ r) l2 -> prefix l1 l2.
Proof. intros [x ->]. exists (r ++ x). now rewrite app_assoc. Qed.

Lemma prefix_nil {X} (l : list X) : prefix [] l.
Proof. now exists l. Qed.

(* ---- notifications handed to the wrapper but not yet processed ---- *)
Fixpoint inflight (o : nat) (k : list (@rinstr A)) : list (ev A) :=
  match k with
  | [] => []
  | RIDeliver o' n :: r => if Nat.eqb o' o then n :: inflight o r else inflight o r
  | _ :: r => inflight o r
  end.

Definition nodeliver (k : list (@rinstr A)) : Prop := forall o, inflight o k = [].

(* no delivery is pending behind a drain loop *)
Fixpoint clean (k : list (@rinstr A)) : Prop :=
  match k with
  | [] => True
  | RIDrain :: r => nodeliver r
  | _ :: r => clean r
  end.

Lemma inflight_app o (k1 k2 : list (@rinstr A)) : inflight o (k1 ++ k2) = inflight o k1 ++ inflight o k2.
Proof.
  induction k1 as [|i r IH]; [reflexivity|]. destruct i; cbn [app inflight]; try exact IH.
  destruct (Nat.eqb o0 o); [cbn; now rewrite IH|exact IH].
Qed.

Lemma inflight_ops o (l : list (@rop A)) : inflight o (map RIOp l) = [].
Proof. induction l; [reflexivity|exact IHl]. Qed.

Lemma nodeliver_clean k : nodeliver k -> clean k.
Proof.
  induction k as [|i r IH]; intros H; [exact I|].
  assert (Hr : nodeliver r).
  { intros o. specialize (H o). destruct i; cbn [inflight] in H; try exact H.
    destruct (Nat.eqb o0 o); [discriminate|exact H]. }
  destruct i; cbn [clean]; try (apply IH; exact Hr). exact Hr.
Qed.

Lemma clean_ops_app (l : list (@rop A)) k : clean k -> clean (map RIOp l ++ k).
Proof. intros H. induction l; [exact H|exact IHl]. Qed.

Lemma clean_tail i k : clean (i :: k) -> clean k.
Proof. destruct i; cbn [clean]; intros H; try exact H. now apply nodeliver_clean. Qed.

(* ---- the calls made so far ---- *)
Definition is_sub (o : nat) (p : @rop A) : bool := match p with RSub o' => Nat.eqb o' o | _ => false end.
Definition subbed (o : nat) (ops : list (@rop A)) : bool := existsb (is_sub o) ops.

Lemma rg_run_snoc : forall ops (g : @rg A) p, rg_run g (ops ++ [p]) = rg_step (rg_run g ops) p.
Proof. induction ops as [|q t IH]; intros g p; [reflexivity|]. cbn [app rg_run]. apply IH. Qed.

Lemma xview_snoc o : forall ops ph (g : @rg A) p,
  xview b w o ph g (ops ++ [p]) =
  xview b w o ph g ops ++
  (if ph || subbed o ops then rnote (rg_run g ops) p
   else if is_sub o p then rgreet b w (rg_run g ops) else []).
Proof.
  induction ops as [|q t IH]; intros ph g p.
  - cbn [app xview subbed existsb rg_run]. rewrite orb_false_r. destruct ph; [now rewrite app_nil_r|].
    destruct p; cbn [is_sub]; try reflexivity. destruct (Nat.eqb o0 o); [now rewrite app_nil_r|reflexivity].
  - cbn [app xview rg_run]. unfold subbed. cbn [existsb]. destruct ph.
    + rewrite IH. cbn [orb]. now rewrite app_assoc.
    + cbn [orb]. destruct q; cbn [is_sub]; try (rewrite IH; reflexivity).
      destruct (Nat.eqb o0 o); [|rewrite IH; reflexivity].
      rewrite IH. cbn [orb]. now rewrite app_assoc.
Qed.

Lemma xview_unsubbed o : forall ops (g : @rg A), subbed o ops = false -> xview b w o false g ops = [].
Proof.
  induction ops as [|q t IH]; intros g H; [reflexivity|].
  unfold subbed in H. cbn [existsb] in H. apply orb_false_iff in H. destruct H as [H1 H2].
  cbn [xview]. destruct q; cbn [is_sub] in H1; try (apply IH; exact H2). rewrite H1. apply IH. exact H2.
Qed.

Lemma ops_of_app (l1 l2 : list (@revent A)) : ops_of (l1 ++ l2) = ops_of l1 ++ ops_of l2.
Proof. unfold ops_of. apply flat_map_app. Qed.

Definition cops (c : @rcfg A) : list (@rop A) := ops_of (rlog_of c).
Definition cg (c : @rcfg A) : @rg A := rg_run rg_init (cops c).
Definition cx (c : @rcfg A) (o : nat) : list (ev A) := xview b w o false rg_init (cops c).

(* ---- the invariant ---- *)
Definition st_agree (s : @rstate A) (g : @rg A) : Prop :=
  r_bufsize s = b /\ r_window s = w /\ r_clock s = rg_clock g /\
  match rg_status g with
  | Live => r_stopped s = false /\ r_disposed s = false /\ r_exception s = None
  | Ended (Err e) => r_stopped s = true /\ r_disposed s = false /\ r_exception s = Some e
  | Ended Done => r_stopped s = true /\ r_disposed s = false /\ r_exception s = None
  | Ended (Next _) => False
  | Disposed => r_disposed s = true
  end /\
  (rg_status g <> Disposed -> qinv b w (r_clock s) (r_queue s) (rg_all g)).

Definition obs_ok (live : bool) (obsl : list nat) (view infl : list (ev A)) (os : @rostate A) (o : nat)
  (X : list (ev A)) : Prop :=
  if ra_stopped os then prefix view X
  else view ++ infl ++ so_queue (r_so os) = X /\
       (live = true -> In o obsl /\ so_stopped (r_so os) = false).

Record Inv (c : @rcfg A) : Prop := {
  inv_st : st_agree (rc_st c) (cg c);
  inv_nodup : NoDup (r_observers (rc_st c));
  inv_dom : forall o, In o (r_observers (rc_st c)) -> rc_obs c o <> None;
  inv_none : forall o, rc_obs c o = None ->
             subbed o (cops c) = false /\ rview o (rlog_of c) = [] /\ inflight o (rc_k c) = [];
  inv_some : forall o os, rc_obs c o = Some os ->
             subbed o (cops c) = true /\
             obs_ok (rg_live (cg c)) (r_observers (rc_st c)) (rview o (rlog_of c)) (inflight o (rc_k c)) os o (cx c o);
  inv_clean : clean (rc_k c) }.

Lemma obs_ok_prefix live obsl view infl os o X : obs_ok live obsl view infl os o X -> prefix view X.
Proof.
  unfold obs_ok. destruct (ra_stopped os); [tauto|]. intros [H _]. rewrite <- H. now eexists.
Qed.

(* the statement, once the invariant is established *)
Lemma Inv_prefix c o : Inv c -> prefix (rview o (rlog_of c)) (cx c o).
Proof.
  intros I. destruct (rc_obs c o) as [os|] eqn:E.
  - destruct (inv_some c I o os E) as [_ H]. eapply obs_ok_prefix. exact H.
  - destruct (inv_none c I o E) as (_ & -> & _). apply prefix_nil.
Qed.
(* ---- state functions that only touch the scheduler ---- *)
Definition same_but_obs (s s' : @rstate A) : Prop :=
  r_stopped s' = r_stopped s /\ r_disposed s' = r_disposed s /\ r_exception s' = r_exception s /\
  r_queue s' = r_queue s /\ r_bufsize s' = r_bufsize s /\ r_window s' = r_window s /\ r_clock s' = r_clock s.
Definition same_core (s s' : @rstate A) : Prop := r_observers s' = r_observers s /\ same_but_obs s s'.

Lemma same_but_obs_refl s : same_but_obs s s.
Proof. repeat split. Qed.
Lemma same_core_refl s : same_core s s.
Proof. split; [reflexivity|apply same_but_obs_refl]. Qed.
Lemma same_but_obs_trans s1 s2 s3 : same_but_obs s1 s2 -> same_but_obs s2 s3 -> same_but_obs s1 s3.
Proof. intros (a1&a2&a3&a4&a5&a6&a7) (b1&b2&b3&b4&b5&b6&b7). repeat split; congruence. Qed.
Lemma same_core_trans s1 s2 s3 : same_core s1 s2 -> same_core s2 s3 -> same_core s1 s3.
Proof. intros [a A1] [c C1]. split; [congruence|eapply same_but_obs_trans; eassumption]. Qed.

Lemma st_agree_same s s' g : same_but_obs s s' -> st_agree s g -> st_agree s' g.
Proof.
  intros (a1&a2&a3&a4&a5&a6&a7) (H1&H2&H3&H4&H5). unfold st_agree.
  rewrite a1, a2, a3, a4, a5, a6, a7. tauto.
Qed.

Lemma cancel_opt_core id (s : @rstate A) : same_core s (cancel_opt id s).
Proof. destruct id; [repeat split|apply same_core_refl]. Qed.

Lemma ensure_active_core o (s : @rstate A) so : same_core s (fst (ensure_active o s so)).
Proof.
  unfold ensure_active.
  destruct (negb (so_faulted so) && negb match so_queue so with [] => true | _ => false end); [|apply same_core_refl].
  destruct (so_acquired so); [apply same_core_refl|].
  cbn [ser_disposed ser_cur]. destruct (ser_disposed so); cbn [fst].
  - eapply same_core_trans; [|apply cancel_opt_core]. repeat split.
  - eapply same_core_trans; [|apply cancel_opt_core]. repeat split.
Qed.

Lemma ensure_active_so o (s : @rstate A) so :
  so_queue (snd (ensure_active o s so)) = so_queue so /\ so_stopped (snd (ensure_active o s so)) = so_stopped so.
Proof.
  unfold ensure_active.
  destruct (negb (so_faulted so) && negb match so_queue so with [] => true | _ => false end); [|split; reflexivity].
  destruct (so_acquired so); [split; reflexivity|].
  cbn [ser_disposed ser_cur]. destruct (ser_disposed so); split; reflexivity.
Qed.

Lemma so_dispose_core (s : @rstate A) so : same_core s (fst (so_dispose s so)).
Proof. unfold so_dispose. destruct (ser_disposed so); [apply same_core_refl|apply cancel_opt_core]. Qed.

Lemma so_dispose_so (s : @rstate A) so :
  so_queue (snd (so_dispose s so)) = so_queue so /\ so_stopped (snd (so_dispose s so)) = true.
Proof. unfold so_dispose. destruct (ser_disposed so); split; reflexivity. Qed.

Lemma so_on_queue (n : ev A) so :
  so_stopped so = false -> so_queue (so_on n so) = so_queue so ++ [n] /\ so_stopped (so_on n so) = is_terminal n.
Proof. intros H. unfold so_on. rewrite H. split; [reflexivity|]. destruct n; reflexivity. Qed.

Lemma so_on_stopped (n : ev A) so : so_stopped so = true -> so_on n so = so.
Proof. intros H. unfold so_on. now rewrite H. Qed.

(* so_each: every observer of a duplicate-free snapshot gets f applied once to its own
   ScheduledObserver; the others are untouched; the subject state only changes as f changes it *)
Lemma so_each_spec (f : nat -> @rstate A -> @sostate A -> @rstate A * @sostate A)
      (Q : @sostate A -> @sostate A -> Prop) :
  (forall o s so, same_core s (fst (f o s so))) -> (forall o s so, Q so (snd (f o s so))) ->
  forall snap s (m : @romap A), NoDup snap -> (forall o, In o snap -> m o <> None) ->
    same_core s (fst (so_each f snap s m)) /\
    (forall o, ~ In o snap -> snd (so_each f snap s m) o = m o) /\
    (forall o os, In o snap -> m o = Some os ->
       exists so', snd (so_each f snap s m) o = Some (set_so os so') /\ Q (r_so os) so').
Proof.
  intros Hcore HQ. unfold so_each. induction snap as [|x snap IH]; intros s m Hnd Hdom.
  - cbn. split; [apply same_core_refl|]. split; [reflexivity|intros o os []].
  - inversion Hnd as [|? ? Hx Hnd']; subst. cbn [fold_left].
    destruct (m x) as [osx|] eqn:Hmx; [|exfalso; apply (Hdom x); [now left|exact Hmx]].
    destruct (f x s (r_so osx)) as [s1 so1] eqn:Hf.
    assert (Hdom1 : forall o, In o snap -> rupd m x (set_so osx so1) o <> None).
    { intros o Hin. unfold rupd. destruct (Nat.eqb o x); [discriminate|]. apply Hdom. now right. }
    destruct (IH s1 (rupd m x (set_so osx so1)) Hnd' Hdom1) as (I1 & I2 & I3).
    split; [|split].
    + eapply same_core_trans; [|exact I1]. change s1 with (fst (s1, so1)). rewrite <- Hf. apply Hcore.
    + intros o Hnin. rewrite I2 by (intros Hin; apply Hnin; now right).
      unfold rupd. destruct (Nat.eqb o x) eqn:E; [|reflexivity].
      apply Nat.eqb_eq in E. subst. exfalso. apply Hnin. now left.
    + intros o os [<-|Hin] Hm.
      * rewrite I2 by exact Hx. rewrite rupd_same. rewrite Hmx in Hm. injection Hm as <-.
        exists so1. split; [reflexivity|]. change so1 with (snd (s1, so1)). rewrite <- Hf. apply HQ.
      * assert (Hne : o <> x) by (intros ->; contradiction).
        apply (I3 o os Hin). unfold rupd. destruct (Nat.eqb o x) eqn:E; [apply Nat.eqb_eq in E; contradiction|exact Hm].
Qed.

(* ---- transformations of the per-observer clause ---- *)
Lemma obs_ok_weaken live live' obsl obsl' v i os o X :
  (live' = true -> live = true /\ (In o obsl -> In o obsl')) ->
  obs_ok live obsl v i os o X -> obs_ok live' obsl' v i os o X.
Proof.
  unfold obs_ok. intros Hl. destruct (ra_stopped os); [tauto|]. intros [H1 H2]. split; [exact H1|].
  intros E. destruct (Hl E) as [E1 Hin]. destruct (H2 E1) as [H3 H4]. auto.
Qed.

Lemma obs_ok_ext live obsl v i (os os' : @rostate A) o X :
  ra_stopped os' = ra_stopped os -> so_queue (r_so os') = so_queue (r_so os) ->
  so_stopped (r_so os') = so_stopped (r_so os) ->
  obs_ok live obsl v i os o X -> obs_ok live obsl v i os' o X.
Proof. unfold obs_ok. intros -> -> ->. tauto. Qed.

Lemma obs_ok_stop live live' obsl obsl' v i i' (os os' : @rostate A) o X :
  ra_stopped os' = true -> obs_ok live obsl v i os o X -> obs_ok live' obsl' v i' os' o X.
Proof. intros H Hok. unfold obs_ok. rewrite H. eapply obs_ok_prefix. exact Hok. Qed.

(* ---- logs ---- *)
Definition lops (l : list (@revent A)) : list (@rop A) := ops_of (rev l).
Definition lg (l : list (@revent A)) : @rg A := rg_run rg_init (lops l).
Definition lx (l : list (@revent A)) (o : nat) : list (ev A) := xview b w o false rg_init (lops l).
Definition lview (o : nat) (l : list (@revent A)) : list (ev A) := rview o (rev l).

Lemma lops_op p l : lops (REOp p :: l) = lops l ++ [p].
Proof. unfold lops. cbn [rev]. rewrite ops_of_app. cbn. reflexivity. Qed.
Lemma lops_got o n l : lops (REGot o n :: l) = lops l.
Proof. unfold lops. cbn [rev]. rewrite ops_of_app. cbn. now rewrite app_nil_r. Qed.
Lemma lops_raised e l : lops (RERaised e :: l) = lops l.
Proof. unfold lops. cbn [rev]. rewrite ops_of_app. cbn. now rewrite app_nil_r. Qed.
Lemma lview_op o p l : lview o (REOp p :: l) = lview o l.
Proof. unfold lview. cbn [rev]. rewrite rview_app. cbn. now rewrite app_nil_r. Qed.
Lemma lview_raised o e l : lview o (RERaised e :: l) = lview o l.
Proof. unfold lview. cbn [rev]. rewrite rview_app. cbn. now rewrite app_nil_r. Qed.
Lemma lview_got o o' n l : lview o (REGot o' n :: l) = lview o l ++ (if Nat.eqb o' o then [n] else []).
Proof. unfold lview. cbn [rev]. rewrite rview_app. cbn. destruct (Nat.eqb o' o); reflexivity. Qed.

Lemma lg_op p l : lg (REOp p :: l) = rg_step (lg l) p.
Proof. unfold lg. rewrite lops_op. apply rg_run_snoc. Qed.

Lemma subbed_snoc o ops p : subbed o (ops ++ [p]) = subbed o ops || is_sub o p.
Proof. unfold subbed. rewrite existsb_app. cbn. now rewrite orb_false_r. Qed.

Lemma lx_op o p l :
  lx (REOp p :: l) o = lx l o ++ (if subbed o (lops l) then rnote (lg l) p
                                  else if is_sub o p then rgreet b w (lg l) else []).
Proof. unfold lx. rewrite lops_op, xview_snoc. reflexivity. Qed.

(* ---- an operation that neither delivers nor pushes instructions ---- *)
Lemma inv_op_generic p s m k l s' m' (extra : list (@revent A)) :
  Inv (RCfg s m (RIOp p :: k) l) ->
  (extra = [] \/ exists e, extra = [RERaised e]) ->
  st_agree s' (rg_step (lg l) p) ->
  NoDup (r_observers s') ->
  (forall o, In o (r_observers s') -> m' o <> None) ->
  (forall o, m' o = None -> m o = None /\ is_sub o p = false) ->
  (forall o os', m' o = Some os' ->
     (exists os, m o = Some os /\
        obs_ok (rg_live (rg_step (lg l) p)) (r_observers s') (lview o l) (inflight o k) os' o
               (lx l o ++ rnote (lg l) p)) \/
     (m o = None /\ is_sub o p = true /\
        obs_ok (rg_live (rg_step (lg l) p)) (r_observers s') (lview o l) (inflight o k) os' o
               (rgreet b w (lg l)))) ->
  Inv (RCfg s' m' k (extra ++ REOp p :: l)).
Proof.
  intros I Hex Hst Hnd Hdom Hnone Hsome.
  assert (Hops : lops (extra ++ REOp p :: l) = lops l ++ [p]).
  { destruct Hex as [->|[e ->]]; cbn [app]; [apply lops_op|rewrite lops_raised; apply lops_op]. }
  assert (Hview : forall o, lview o (extra ++ REOp p :: l) = lview o l).
  { intros o. destruct Hex as [->|[e ->]]; cbn [app]; [apply lview_op|rewrite lview_raised; apply lview_op]. }
  assert (Hx : forall o, xview b w o false rg_init (lops (extra ++ REOp p :: l)) =
                         lx l o ++ (if subbed o (lops l) then rnote (lg l) p
                                    else if is_sub o p then rgreet b w (lg l) else [])).
  { intros o. rewrite Hops, xview_snoc. reflexivity. }
  constructor; cbn [rc_st rc_obs rc_k rc_rlog].
  - unfold cg, cops, rlog_of. cbn [rc_rlog]. fold (lops (extra ++ REOp p :: l)). rewrite Hops, rg_run_snoc. exact Hst.
  - exact Hnd.
  - exact Hdom.
  - intros o Hm. destruct (Hnone o Hm) as [Hm0 Hsub].
    destruct (inv_none _ I o Hm0) as (H1 & H2 & H3). cbn [rc_k inflight] in H3.
    unfold cops, rlog_of in *. cbn [rc_rlog] in *. fold (lops (extra ++ REOp p :: l)). fold (lops l) in H1.
    rewrite Hops, subbed_snoc, H1, Hsub. split; [reflexivity|]. split; [|exact H3].
    fold (lview o (extra ++ REOp p :: l)). rewrite Hview. exact H2.
  - intros o os' Hm. unfold cx, cg, cops, rlog_of. cbn [rc_rlog].
    fold (lops (extra ++ REOp p :: l)). fold (lview o (extra ++ REOp p :: l)). rewrite Hview, Hx.
    rewrite Hops, subbed_snoc, rg_run_snoc. fold (lg l).
    destruct (Hsome o os' Hm) as [[os [Hm0 Hok]]|[Hm0 [Hsub Hok]]].
    + destruct (inv_some _ I o os Hm0) as [H1 _]. unfold cops, rlog_of in H1. cbn [rc_rlog] in H1.
      fold (lops l) in H1. rewrite H1. split; [reflexivity|exact Hok].
    + destruct (inv_none _ I o Hm0) as (H1 & _ & _). unfold cops, rlog_of in H1. cbn [rc_rlog] in H1.
      fold (lops l) in H1. rewrite H1, Hsub. split; [reflexivity|].
      unfold lx. rewrite (xview_unsubbed o _ _ H1). exact Hok.
  - exact (clean_tail _ _ (inv_clean _ I)).
Qed.

(* the per-observer facts of the invariant, in the vocabulary of logs *)
Lemma inv_some_l s m k l o os :
  Inv (RCfg s m k l) -> m o = Some os ->
  subbed o (lops l) = true /\
  obs_ok (rg_live (lg l)) (r_observers s) (lview o l) (inflight o k) os o (lx l o).
Proof. intros I Hm. exact (inv_some _ I o os Hm). Qed.

Lemma inv_none_l s m k l o :
  Inv (RCfg s m k l) -> m o = None -> subbed o (lops l) = false /\ lview o l = [] /\ inflight o k = [].
Proof. intros I Hm. exact (inv_none _ I o Hm). Qed.

Lemma inv_st_l s m k l : Inv (RCfg s m k l) -> st_agree s (lg l).
Proof. intros I. exact (inv_st _ I). Qed.

Lemma obs_ok_emit live' obsl obsl' v i (os os3 : @rostate A) o X n :
  obs_ok true obsl v i os o X ->
  ra_stopped os3 = ra_stopped os ->
  (In o obsl -> so_queue (r_so os3) = so_queue (so_on n (r_so os)) /\
                so_stopped (r_so os3) = so_stopped (so_on n (r_so os))) ->
  (live' = true -> is_terminal n = false /\ (In o obsl -> In o obsl')) ->
  obs_ok live' obsl' v i os3 o (X ++ [n]).
Proof.
  unfold obs_ok. intros Hok Hra Hin Hl. rewrite Hra. destruct (ra_stopped os).
  - now apply prefix_app_r.
  - destruct Hok as [H1 H2]. destruct (H2 eq_refl) as [Hi Hs]. destruct (Hin Hi) as [Hq Hst].
    destruct (so_on_queue n _ Hs) as [Hq2 Hst2]. rewrite Hq, Hq2, Hst, Hst2. split.
    + rewrite !app_assoc. rewrite <- (app_assoc v i), H1. reflexivity.
    + intros E. destruct (Hl E) as [Ht Hsub]. split; [now apply Hsub|exact Ht].
Qed.

Lemma In_remove1_weak o x (l : list nat) : In x (remove1 o l) -> In x l.
Proof.
  induction l as [|y t IH]; cbn; [tauto|]. destruct (Nat.eqb y o); [now right|].
  intros [->|H]; [now left|right; now apply IH].
Qed.

(* AutoDetachObserver.dispose *)
Lemma rado_dispose_spec (s : @rstate A) os o :
  ra_stopped (snd (rado_dispose s os o)) = true /\
  same_but_obs s (fst (rado_dispose s os o)) /\
  (r_observers (fst (rado_dispose s os o)) = r_observers s \/
   r_observers (fst (rado_dispose s os o)) = remove1 o (r_observers s)).
Proof.
  split; [apply rado_dispose_stopped|].
  unfold rado_dispose. cbn [rsad_disposed rsad_cur]. destruct (rsad_disposed os); cbn [fst].
  { split; [apply same_but_obs_refl|now left]. }
  destruct (rsad_cur os); cbn [fst]; [|split; [apply same_but_obs_refl|now left]].
  unfold removable_dispose. cbn [r_so].
  pose proof (so_dispose_core s (r_so os)) as [Hc1 Hc2].
  destruct (so_dispose s (r_so os)) as [s1 so1]. cbn [fst] in *.
  destruct (negb (r_disposed s1) && mem o (r_observers s1)); cbn [fst].
  - split; [exact Hc2|]. right. cbn. now rewrite Hc1.
  - split; [exact Hc2|now left].
Qed.

Lemma rnote_dead (g : @rg A) p : rg_live g = false -> rnote g p = [].
Proof. intros H. unfold rnote. now rewrite H. Qed.

Lemma rg_step_dead (g : @rg A) p :
  rg_live g = false -> (match p with RNext _ | RErr _ | RDone => True | _ => False end) -> rg_step g p = g.
Proof. intros H Hp. destruct p; try contradiction; cbn; now rewrite H. Qed.

(* an operation that changes nothing *)
Lemma inv_op_noop p s m k l extra :
  Inv (RCfg s m (RIOp p :: k) l) ->
  (extra = [] \/ exists e, extra = [RERaised e]) ->
  rg_step (lg l) p = lg l -> rnote (lg l) p = [] ->
  (forall o, m o = None -> is_sub o p = false) ->
  Inv (RCfg s m k (extra ++ REOp p :: l)).
Proof.
  intros I Hex Hg Hn Hs. apply (inv_op_generic p s m k l s m extra I Hex).
  - rewrite Hg. exact (inv_st_l _ _ _ _ I).
  - exact (inv_nodup _ I).
  - exact (inv_dom _ I).
  - intros o Hm. split; [exact Hm|now apply Hs].
  - intros o os Hm. left. exists os. split; [exact Hm|]. rewrite Hn, app_nil_r, Hg.
    destruct (inv_some_l _ _ _ _ o os I Hm) as [_ Hok]. cbn [inflight] in Hok. exact Hok.
Qed.

Lemma status_live (s : @rstate A) (g : @rg A) :
  st_agree s g -> r_disposed s = false -> r_stopped s = false -> rg_status g = Live.
Proof.
  intros (_&_&_&H&_) Hd Hs. destruct (rg_status g) as [|t|]; [reflexivity| |].
  - destruct t; [contradiction| |]; destruct H as (H1&_); congruence.
  - congruence.
Qed.

Lemma status_not_live_stopped (s : @rstate A) (g : @rg A) :
  st_agree s g -> r_disposed s = false -> r_stopped s = true -> rg_live g = false /\ rg_status g <> Disposed.
Proof.
  intros (_&_&_&H&_) Hd Hs. unfold rg_live. destruct (rg_status g) as [|t|].
  - destruct H as (H1&_). congruence.
  - split; [reflexivity|discriminate].
  - congruence.
Qed.

Lemma status_disposed (s : @rstate A) (g : @rg A) :
  st_agree s g -> r_disposed s = true -> rg_status g = Disposed.
Proof.
  intros (_&_&_&H&_) Hd. destruct (rg_status g) as [|t|]; [| |reflexivity].
  - destruct H as (_&H2&_). congruence.
  - destruct t; [contradiction| |]; destruct H as (_&H2&_); congruence.
Qed.

Lemma rnote_sub (g : @rg A) o : rnote g (RSub o) = [].
Proof. unfold rnote. destruct (rg_live g); reflexivity. Qed.
Lemma rnote_unsub (g : @rg A) o : rnote g (RUnsub o) = [].
Proof. unfold rnote. destruct (rg_live g); reflexivity. Qed.
Lemma rnote_dispose (g : @rg A) : rnote g RDispose = [].
Proof. unfold rnote. destruct (rg_live g); reflexivity. Qed.
Lemma rnote_advance (g : @rg A) d : rnote g (RAdvance d) = [].
Proof. unfold rnote. destruct (rg_live g); reflexivity. Qed.

Lemma fold_so_on_nexts : forall (q : list (Z * A)) (so : @sostate A),
  so_stopped so = false ->
  so_queue (fold_left (fun so it => so_on (Next (snd it)) so) q so)
    = so_queue so ++ map (fun it => Next (snd it)) q /\
  so_stopped (fold_left (fun so it => so_on (Next (snd it)) so) q so) = false.
Proof.
  induction q as [|x q IH]; intros so Hs; cbn [fold_left map].
  - now rewrite app_nil_r.
  - destruct (so_on_queue (Next (snd x)) so Hs) as [Hq Hst]. cbn in Hst.
    destruct (IH _ Hst) as [I1 I2]. rewrite I1, Hq, <- app_assoc. split; [reflexivity|exact I2].
Qed.

(* subscribe on a subject that is not disposed *)
Lemma inv_sub_fresh o s m k l :
  Inv (RCfg s m (RIOp (RSub o) :: k) l) -> m o = None -> r_disposed s = false ->
  Inv (rstep_op react (RSub o) s m k l).
Proof.
  intros I Hm Hd. unfold rstep_op. rewrite Hm, Hd.
  pose proof (inv_st_l _ _ _ _ I) as Hst. destruct Hst as (Hb & Hw & Hc & Hstat & Hq).
  assert (Hnd : rg_status (lg l) <> Disposed).
  { intros E. rewrite E in Hstat. congruence. }
  specialize (Hq Hnd).
  set (s1 := trim s). set (s2 := with_observers (r_observers s1 ++ [o]) s1).
  assert (Hq1 : r_queue s1 = retained b w (rg_clock (lg l)) (rg_all (lg l))).
  { unfold s1, trim. cbn [r_queue with_queue]. rewrite Hb, Hw, Hc.
    rewrite Hc in Hq. apply (qinv_replay b w _ _ _ _ Hq). lia. }
  set (so1 := fold_left (fun so it => so_on (Next (snd it)) so) (r_queue s2) fresh_so).
  destruct (fold_so_on_nexts (r_queue s2) fresh_so eq_refl) as [F1 F2]. fold so1 in F1, F2. cbn [fresh_so so_queue app] in F1.
  set (so2 := match r_exception s2 with
              | Some e => so_on (Err e) so1
              | None => if r_stopped s2 then so_on Done so1 else so1 end).
  assert (Hso2 : so_queue so2 = rgreet b w (lg l)).
  { unfold so2, rgreet, replayed. change (r_exception s2) with (r_exception s). change (r_stopped s2) with (r_stopped s).
    change (r_queue s2) with (r_queue s1) in F1. rewrite Hq1 in F1.
    destruct (rg_status (lg l)) as [|t|]; [| |congruence].
    - destruct Hstat as (S1&S2&S3). rewrite S3, S1. exact F1.
    - destruct t as [x|e|]; [contradiction| |]; destruct Hstat as (S1&S2&S3); rewrite S3.
      + destruct (so_on_queue (Err e) so1 F2) as [Q _]. now rewrite Q, F1.
      + rewrite S1. destruct (so_on_queue Done so1 F2) as [Q _]. now rewrite Q, F1. }
  assert (Hst2 : rg_live (lg l) = true -> so_stopped so2 = false).
  { unfold rg_live, so2. change (r_exception s2) with (r_exception s). change (r_stopped s2) with (r_stopped s).
    destruct (rg_status (lg l)); try discriminate. destruct Hstat as (S1&S2&S3). rewrite S3, S1. intros _. exact F2. }
  pose proof (ensure_active_core o s2 so2) as Hcore. pose proof (ensure_active_so o s2 so2) as [Hq3 Hs3].
  destruct (ensure_active o s2 so2) as [s3 so3]. cbn [fst snd] in *.
  change (RCfg s3 (rupd m o (ROState false false true true 0 so3)) k (REOp (RSub o) :: l))
    with (RCfg s3 (rupd m o (ROState false false true true 0 so3)) k ([] ++ REOp (RSub o) :: l)).
  destruct Hcore as [Hobs3 Hcore3].
  assert (Hobs : r_observers s3 = r_observers s ++ [o]) by (rewrite Hobs3; reflexivity).
  apply (inv_op_generic (RSub o) s m k l s3 _ [] I); [now left| | | | |].
  - cbn [rg_step]. apply (st_agree_same s2 s3 _ Hcore3).
    unfold st_agree, s2, s1, trim. cbn. rewrite Hb, Hw.
    split; [reflexivity|]. split; [reflexivity|]. split; [exact Hc|]. split; [exact Hstat|].
    intros _. apply qinv_trim. exact Hq.
  - rewrite Hobs. apply NoDup_app_single; [exact (inv_nodup _ I)|].
    intros Hin. exact (inv_dom _ I o Hin Hm).
  - intros o2. rewrite Hobs. intros Hin. unfold rupd. destruct (Nat.eqb o2 o) eqn:E; [discriminate|].
    apply in_app_or in Hin. destruct Hin as [Hin|[<-|[]]]; [exact (inv_dom _ I o2 Hin)|].
    rewrite Nat.eqb_refl in E. discriminate.
  - intros o2. unfold rupd. destruct (Nat.eqb o2 o) eqn:E; [discriminate|]. intros H2. split; [exact H2|].
    cbn [is_sub]. now rewrite Nat.eqb_sym.
  - intros o2 os'. unfold rupd. destruct (Nat.eqb o2 o) eqn:E.
    + apply Nat.eqb_eq in E. subst o2. intros [= <-]. right. split; [exact Hm|]. split; [cbn; apply Nat.eqb_refl|].
      destruct (inv_none_l _ _ _ _ o I Hm) as (_ & Hv & Hi). cbn [inflight] in Hi. rewrite Hv, Hi.
      unfold obs_ok. cbn [ra_stopped r_so app rg_step]. rewrite Hq3, Hso2. split; [reflexivity|].
      intros El. split; [rewrite Hobs; apply in_or_app; right; now left|]. rewrite Hs3. now apply Hst2.
    + intros H2. left. exists os'. split; [exact H2|]. rewrite rnote_sub, app_nil_r.
      destruct (inv_some_l _ _ _ _ o2 os' I H2) as [_ Hok]. cbn [inflight] in Hok.
      eapply obs_ok_weaken; [|exact Hok]. cbn [rg_step]. intros El. split; [exact El|].
      rewrite Hobs. intros Hin. apply in_or_app. now left.
Qed.

(* subscribe on a disposed subject: fail() hands DisposedException to the observer *)
Lemma inv_sub_disposed o s m k l :
  Inv (RCfg s m (RIOp (RSub o) :: k) l) -> m o = None -> r_disposed s = true ->
  Inv (rstep_op react (RSub o) s m k l).
Proof.
  intros I Hm Hd. unfold rstep_op. rewrite Hm, Hd.
  pose proof (inv_st_l _ _ _ _ I) as Hst. pose proof (status_disposed _ _ Hst Hd) as Hg.
  destruct (inv_none_l _ _ _ _ o I Hm) as (Hsb & Hv & Hi). cbn [inflight] in Hi.
  constructor; cbn [rc_st rc_obs rc_k rc_rlog].
  - unfold cg, cops, rlog_of. cbn [rc_rlog]. fold (lops (REGot o (Err disposed_exn) :: REOp (RSub o) :: l)).
    rewrite lops_got, lops_op, rg_run_snoc. exact Hst.
  - exact (inv_nodup _ I).
  - intros o2 Hin. unfold rupd. destruct (Nat.eqb o2 o); [discriminate|]. exact (inv_dom _ I o2 Hin).
  - intros o2. unfold rupd. destruct (Nat.eqb o2 o) eqn:E; [discriminate|]. intros H2.
    destruct (inv_none_l _ _ _ _ o2 I H2) as (H1 & H3 & H4). cbn [inflight] in H4.
    unfold cops, rlog_of. cbn [rc_rlog]. fold (lops (REGot o (Err disposed_exn) :: REOp (RSub o) :: l)).
    fold (lview o2 (REGot o (Err disposed_exn) :: REOp (RSub o) :: l)).
    rewrite lops_got, lops_op, subbed_snoc, H1, lview_got, lview_op, H3. cbn [is_sub].
    rewrite (Nat.eqb_sym o o2), E. split; [reflexivity|]. split; [reflexivity|].
    rewrite inflight_app, inflight_ops. exact H4.
  - intros o2 os'. unfold cx, cg, cops, rlog_of. cbn [rc_rlog].
    fold (lops (REGot o (Err disposed_exn) :: REOp (RSub o) :: l)).
    fold (lview o2 (REGot o (Err disposed_exn) :: REOp (RSub o) :: l)).
    rewrite lops_got, lops_op, subbed_snoc, lview_got, lview_op, xview_snoc, rg_run_snoc.
    cbn [orb is_sub rg_step]. fold (lg l).
    rewrite inflight_app, inflight_ops. cbn [app inflight].
    unfold rupd. destruct (Nat.eqb o2 o) eqn:E.
    + apply Nat.eqb_eq in E. subst o2. intros [= <-]. rewrite Hsb, Nat.eqb_refl. split; [reflexivity|].
      unfold obs_ok. cbn [ra_stopped rcalled fresh_rostate orb]. fold (lview o l). rewrite Hv.
      fold (lx l o). unfold lx at 1. rewrite (xview_unsubbed o _ _ Hsb).
      unfold rgreet. fold (lg l). rewrite Hg. apply prefix_refl.
    + intros H2. destruct (inv_some_l _ _ _ _ o2 os' I H2) as [H1 Hok]. cbn [inflight] in Hok.
      rewrite H1. cbn [orb]. split; [reflexivity|]. fold (lg l). rewrite rnote_sub, !app_nil_r.
      rewrite (Nat.eqb_sym o o2), E, app_nil_r. exact Hok.
  - apply clean_ops_app. exact (clean_tail _ _ (inv_clean _ I)).
Qed.

Lemma inv_sub o s m k l :
  Inv (RCfg s m (RIOp (RSub o) :: k) l) -> Inv (rstep_op react (RSub o) s m k l).
Proof.
  intros I. destruct (m o) as [os|] eqn:Hm.
  - unfold rstep_op. rewrite Hm.
    change (REOp (RSub o) :: l) with ([] ++ REOp (RSub o) :: l).
    apply inv_op_noop; [exact I|now left|reflexivity|apply rnote_sub|].
    intros o2 H2. cbn [is_sub]. destruct (Nat.eqb o o2) eqn:E; [|reflexivity].
    apply Nat.eqb_eq in E. subst. congruence.
  - destruct (r_disposed s) eqn:Hd; [now apply inv_sub_disposed|now apply inv_sub_fresh].
Qed.

Lemma inv_unsub o s m k l :
  Inv (RCfg s m (RIOp (RUnsub o) :: k) l) -> Inv (rstep_op react (RUnsub o) s m k l).
Proof.
  intros I. unfold rstep_op.
  assert (Hnoop : Inv (RCfg s m k ([] ++ REOp (RUnsub o) :: l))).
  { apply inv_op_noop; [exact I|now left|reflexivity|apply rnote_unsub|reflexivity]. }
  destruct (m o) as [os|] eqn:Hm; [|exact Hnoop]. destruct (r_handle os); [|exact Hnoop].
  destruct (rado_dispose_spec s os o) as (Hs & Hcore & Hobs).
  destruct (rado_dispose s os o) as [s' os']. cbn [fst snd] in *.
  change (REOp (RUnsub o) :: l) with ([] ++ REOp (RUnsub o) :: l).
  assert (Hsub : forall x, In x (r_observers s') -> In x (r_observers s)).
  { intros x. destruct Hobs as [->| ->]; [tauto|apply In_remove1_weak]. }
  apply (inv_op_generic (RUnsub o) s m k l s' _ [] I); [now left| | | | |].
  - cbn [rg_step]. exact (st_agree_same s s' _ Hcore (inv_st_l _ _ _ _ I)).
  - destruct Hobs as [->| ->]; [exact (inv_nodup _ I)|apply NoDup_remove1; exact (inv_nodup _ I)].
  - intros o2 Hin. unfold rupd. destruct (Nat.eqb o2 o); [discriminate|]. exact (inv_dom _ I o2 (Hsub _ Hin)).
  - intros o2. unfold rupd. destruct (Nat.eqb o2 o); [discriminate|]. intros H2. split; [exact H2|reflexivity].
  - intros o2 os2. unfold rupd. destruct (Nat.eqb o2 o) eqn:E.
    + apply Nat.eqb_eq in E. subst o2. intros [= <-]. left. exists os. split; [exact Hm|].
      rewrite rnote_unsub, app_nil_r. destruct (inv_some_l _ _ _ _ o os I Hm) as [_ Hok]. cbn [inflight] in Hok.
      eapply obs_ok_stop; [exact Hs|exact Hok].
    + intros H2. left. exists os2. split; [exact H2|]. rewrite rnote_unsub, app_nil_r.
      destruct (inv_some_l _ _ _ _ o2 os2 I H2) as [_ Hok]. cbn [inflight] in Hok.
      eapply obs_ok_weaken; [|exact Hok]. cbn [rg_step]. intros El. split; [exact El|].
      apply Nat.eqb_neq in E. intros Hin. destruct Hobs as [->| ->]; [exact Hin|].
      apply (In_remove1 o _ o2 (inv_nodup _ I)). split; assumption.
Qed.

Lemma inv_dispose s m k l :
  Inv (RCfg s m (RIOp RDispose :: k) l) -> Inv (rstep_op react RDispose s m k l).
Proof.
  intros I. unfold rstep_op. change (REOp RDispose :: l) with ([] ++ REOp (@RDispose A) :: l).
  pose proof (inv_st_l _ _ _ _ I) as (Hb & Hw & Hc & _ & _).
  apply (inv_op_generic RDispose s m k l _ m [] I); [now left| | | | |].
  - cbn [rg_step]. unfold st_agree. cbn. split; [exact Hb|]. split; [exact Hw|]. split; [exact Hc|].
    split; [reflexivity|]. intros Hx. congruence.
  - cbn. constructor.
  - cbn. intros o [].
  - intros o H2. split; [exact H2|reflexivity].
  - intros o os H2. left. exists os. split; [exact H2|]. rewrite rnote_dispose, app_nil_r.
    destruct (inv_some_l _ _ _ _ o os I H2) as [_ Hok]. cbn [inflight] in Hok.
    eapply obs_ok_weaken; [|exact Hok]. cbn. discriminate.
Qed.

Lemma inv_advance d s m k l :
  Inv (RCfg s m (RIOp (RAdvance d) :: k) l) -> Inv (rstep_op react (RAdvance d) s m k l).
Proof.
  intros I. unfold rstep_op. destruct (d <? 0) eqn:Ed.
  - change (RERaised out_of_range_exn :: REOp (RAdvance d) :: l)
      with ([RERaised out_of_range_exn] ++ REOp (@RAdvance A d) :: l).
    apply inv_op_noop; [exact I|right; eauto|cbn; now rewrite Ed|apply rnote_advance|reflexivity].
  - change (REOp (RAdvance d) :: l) with ([] ++ REOp (@RAdvance A d) :: l).
    pose proof (inv_st_l _ _ _ _ I) as (Hb & Hw & Hc & Hstat & Hq).
    apply Z.ltb_ge in Ed.
    apply (inv_op_generic (RAdvance d) s m k l _ m [] I); [now left| | | | |].
    + cbn [rg_step]. replace (d <? 0) with false by (symmetry; now apply Z.ltb_ge).
      unfold st_agree. cbn. split; [exact Hb|]. split; [exact Hw|]. split; [now rewrite Hc|].
      split; [exact Hstat|]. intros H. apply (qinv_advance b w (r_clock s)); [now apply Hq|lia].
    + exact (inv_nodup _ I).
    + exact (inv_dom _ I).
    + intros o H2. split; [exact H2|reflexivity].
    + intros o os H2. left. exists os. split; [exact H2|]. rewrite rnote_advance, app_nil_r.
      destruct (inv_some_l _ _ _ _ o os I H2) as [_ Hok]. cbn [inflight] in Hok.
      eapply obs_ok_weaken; [|exact Hok]. cbn [rg_step].
      replace (d <? 0) with false by (symmetry; now apply Z.ltb_ge). cbn. tauto.
Qed.

Definition is_sub_free (p : @rop A) : Prop := forall o, is_sub o p = false.

(* an emission on an ended or disposed subject *)
Lemma inv_emit_dead p s m k l :
  Inv (RCfg s m (RIOp p :: k) l) ->
  (match p with RNext _ | RErr _ | RDone => True | _ => False end) ->
  (r_disposed s = true \/ r_stopped s = true) ->
  Inv (rstep_op react p s m k l).
Proof.
  intros I Hp Hdead. pose proof (inv_st_l _ _ _ _ I) as Hst.
  assert (Hl : rg_live (lg l) = false).
  { destruct (r_disposed s) eqn:Hd.
    - unfold rg_live. now rewrite (status_disposed _ _ Hst Hd).
    - destruct Hdead as [|Hs]; [discriminate|]. exact (proj1 (status_not_live_stopped _ _ Hst Hd Hs)). }
  assert (Hno : forall extra, (extra = [] \/ exists e, extra = [@RERaised A e]) ->
                Inv (RCfg s m k (extra ++ REOp p :: l))).
  { intros extra Hex. apply inv_op_noop; [exact I|exact Hex|now apply rg_step_dead|now apply rnote_dead|].
    intros o _. destruct p; try contradiction; reflexivity. }
  unfold rstep_op. destruct p; try contradiction.
  - destruct (r_disposed s); [apply (Hno [RERaised disposed_exn]); right; eauto|].
    destruct Hdead as [|Hs]; [discriminate|]. rewrite Hs. apply (Hno []). now left.
  - destruct (r_disposed s); [apply (Hno [RERaised disposed_exn]); right; eauto|].
    destruct Hdead as [|Hs]; [discriminate|]. rewrite Hs. apply (Hno []). now left.
  - destruct (r_disposed s); [apply (Hno [RERaised disposed_exn]); right; eauto|].
    destruct Hdead as [|Hs]; [discriminate|]. rewrite Hs. apply (Hno []). now left.
Qed.

(* an emission that takes effect: every ScheduledObserver of the snapshot is handed n *)
Lemma inv_emit_live p n s m k l s' (m' : @romap A) :
  Inv (RCfg s m (RIOp p :: k) l) ->
  rg_live (lg l) = true ->
  rnote (lg l) p = [n] -> is_sub_free p ->
  st_agree s' (rg_step (lg l) p) ->
  NoDup (r_observers s') -> (forall o, In o (r_observers s') -> In o (r_observers s)) ->
  (rg_live (rg_step (lg l) p) = true ->
     is_terminal n = false /\ (forall o, In o (r_observers s) -> In o (r_observers s'))) ->
  (forall o, ~ In o (r_observers s) -> m' o = m o) ->
  (forall o os, In o (r_observers s) -> m o = Some os ->
     exists so', m' o = Some (set_so os so') /\
                 so_queue so' = so_queue (so_on n (r_so os)) /\
                 so_stopped so' = so_stopped (so_on n (r_so os))) ->
  Inv (RCfg s' m' k (REOp p :: l)).
Proof.
  intros I Hl Hn Hp Hst Hnd Hsub Hlive' Hout Hin.
  change (REOp p :: l) with ([] ++ REOp p :: l).
  assert (Hdom : forall o, In o (r_observers s) -> exists os, m o = Some os).
  { intros o Hi. destruct (m o) as [os|] eqn:E; [eauto|]. exfalso. exact (inv_dom _ I o Hi E). }
  apply (inv_op_generic p s m k l s' m' [] I); [now left|exact Hst|exact Hnd| | |].
  - intros o Hi. destruct (Hdom o (Hsub o Hi)) as [os Hm]. destruct (Hin o os (Hsub o Hi) Hm) as [so' [-> _]]. discriminate.
  - intros o Hm'. destruct (in_dec Nat.eq_dec o (r_observers s)) as [Hi|Hni].
    + destruct (Hdom o Hi) as [os Hm]. destruct (Hin o os Hi Hm) as [so' [E _]]. congruence.
    + rewrite (Hout o Hni) in Hm'. split; [exact Hm'|exact (Hp o)].
  - intros o os' Hm'. left. rewrite Hn.
    assert (Hl' : rg_live (rg_step (lg l) p) = true -> is_terminal n = false /\
                  (In o (r_observers s) -> In o (r_observers s'))).
    { intros E. destruct (Hlive' E) as [T1 T2]. split; [exact T1|apply T2]. }
    destruct (in_dec Nat.eq_dec o (r_observers s)) as [Hi|Hni].
    + destruct (Hdom o Hi) as [os Hm]. destruct (Hin o os Hi Hm) as [so' [E [Q1 Q2]]].
      rewrite E in Hm'. injection Hm' as <-. exists os. split; [exact Hm|].
      destruct (inv_some_l _ _ _ _ o os I Hm) as [_ Hok]. cbn [inflight] in Hok. rewrite Hl in Hok.
      apply (obs_ok_emit _ (r_observers s) (r_observers s') _ _ os (set_so os so') o _ n Hok);
        cbn [set_so ra_stopped r_so].
      * reflexivity.
      * intros _. split; assumption.
      * exact Hl'.
    + rewrite (Hout o Hni) in Hm'. exists os'. split; [exact Hm'|].
      destruct (inv_some_l _ _ _ _ o os' I Hm') as [_ Hok]. cbn [inflight] in Hok. rewrite Hl in Hok.
      apply (obs_ok_emit _ (r_observers s) (r_observers s') _ _ os' os' o _ n Hok).
      * reflexivity.
      * intros Hi. contradiction.
      * exact Hl'.
Qed.

Lemma live_status (g : @rg A) : rg_status g = Live -> rg_live g = true.
Proof. intros H. unfold rg_live. now rewrite H. Qed.

Lemma inv_next_live v s m k l :
  Inv (RCfg s m (RIOp (RNext v) :: k) l) -> r_disposed s = false -> r_stopped s = false ->
  Inv (rstep_op react (RNext v) s m k l).
Proof.
  intros I Hd Hs. unfold rstep_op. rewrite Hd, Hs.
  pose proof (inv_st_l _ _ _ _ I) as Hst. pose proof (status_live _ _ Hst Hd Hs) as Hg.
  pose proof (live_status _ Hg) as Hl.
  destruct Hst as (Hb & Hw & Hc & Hstat & Hq). rewrite Hg in Hstat. specialize (Hq ltac:(congruence)).
  set (s1 := trim (with_queue (r_queue s ++ [(r_clock s, v)]) s)).
  assert (Hdom : forall o, In o (r_observers s) -> m o <> None) by exact (inv_dom _ I).
  destruct (so_each_spec (fun _ s so => (s, so_on (Next v) so)) (fun so so' => so' = so_on (Next v) so)
              (fun _ s _ => same_core_refl s) (fun _ _ _ => eq_refl)
              (r_observers s) s1 m (inv_nodup _ I) Hdom) as (A1 & A2 & A3).
  destruct (so_each (fun _ s so => (s, so_on (Next v) so)) (r_observers s) s1 m) as [s2 m2]. cbn [fst snd] in *.
  assert (Hdom2 : forall o, In o (r_observers s) -> m2 o <> None).
  { intros o Hi. destruct (m o) as [os|] eqn:E; [|exfalso; exact (Hdom o Hi E)].
    destruct (A3 o os Hi E) as [so' [-> _]]. discriminate. }
  destruct (so_each_spec ensure_active
              (fun so so' => so_queue so' = so_queue so /\ so_stopped so' = so_stopped so)
              ensure_active_core ensure_active_so
              (r_observers s) s2 m2 (inv_nodup _ I) Hdom2) as (B1 & B2 & B3).
  destruct (so_each ensure_active (r_observers s) s2 m2) as [s3 m3]. cbn [fst snd] in *.
  pose proof (same_core_trans _ _ _ A1 B1) as [Hobs Hcore].
  apply (inv_emit_live (RNext v) (Next v) s m k l s3 m3 I).
  - exact Hl.
  - unfold rnote. now rewrite Hl.
  - intros o. reflexivity.
  - cbn [rg_step]. rewrite Hl. apply (st_agree_same s1 s3 _ Hcore).
    unfold st_agree, s1, trim. cbn. rewrite Hb, Hw.
    split; [reflexivity|]. split; [reflexivity|]. split; [exact Hc|]. split; [exact Hstat|].
    intros _. apply qinv_trim. rewrite <- Hc. apply qinv_append. exact Hq.
  - rewrite Hobs. exact (inv_nodup _ I).
  - rewrite Hobs. cbn. tauto.
  - intros _. split; [reflexivity|]. rewrite Hobs. cbn. tauto.
  - intros o Hni. rewrite (B2 o Hni). exact (A2 o Hni).
  - intros o os Hi Hm. destruct (A3 o os Hi Hm) as [so' [E2 ->]].
    destruct (B3 o _ Hi E2) as [so'' [E3 [Q1 Q2]]]. cbn [set_so r_so] in *.
    exists so''. split; [rewrite E3; destruct os; reflexivity|]. split; assumption.
Qed.

Lemma inv_final_live p (t : ev A) s m k l :
  Inv (RCfg s m (RIOp p :: k) l) -> r_disposed s = false -> r_stopped s = false ->
  ((exists e, p = RErr e /\ t = Err e) \/ (p = RDone /\ t = Done)) ->
  Inv (rstep_op react p s m k l).
Proof.
  intros I Hd Hs Hp.
  pose proof (inv_st_l _ _ _ _ I) as Hst. pose proof (status_live _ _ Hst Hd Hs) as Hg.
  pose proof (live_status _ Hg) as Hl.
  destruct Hst as (Hb & Hw & Hc & Hstat & Hq). rewrite Hg in Hstat. specialize (Hq ltac:(congruence)).
  destruct Hstat as (_ & _ & Hex).
  assert (Hdom : forall o, In o (r_observers s) -> m o <> None) by exact (inv_dom _ I).
  set (s1 := match t with
             | Err e => trim (with_exception (Some e) (with_observers [] (with_stopped true s)))
             | _ => trim (with_observers [] (with_stopped true s)) end).
  destruct (so_each_spec (fun o s so => ensure_active o s (so_on t so))
              (fun so so' => so_queue so' = so_queue (so_on t so) /\ so_stopped so' = so_stopped (so_on t so))
              (fun o s so => ensure_active_core o s (so_on t so))
              (fun o s so => ensure_active_so o s (so_on t so))
              (r_observers s) s1 m (inv_nodup _ I) Hdom) as (A1 & A2 & A3).
  assert (Hstep : rstep_op react p s m k l =
                  RCfg (fst (so_each (fun o s so => ensure_active o s (so_on t so)) (r_observers s) s1 m))
                       (snd (so_each (fun o s so => ensure_active o s (so_on t so)) (r_observers s) s1 m))
                       k (REOp p :: l)).
  { unfold rstep_op, s1. destruct Hp as [[e [-> ->]]|[-> ->]]; rewrite Hd, Hs;
      match goal with |- context [so_each ?f ?a ?bb ?c] => destruct (so_each f a bb c) end; reflexivity. }
  rewrite Hstep. clear Hstep.
  destruct (so_each (fun o s so => ensure_active o s (so_on t so)) (r_observers s) s1 m) as [s2 m2].
  cbn [fst snd] in *. destruct A1 as [Hobs Hcore].
  assert (Hobs1 : r_observers s1 = []) by (unfold s1; destruct t; reflexivity).
  apply (inv_emit_live p t s m k l s2 m2 I).
  - exact Hl.
  - unfold rnote. rewrite Hl. destruct Hp as [[e [-> ->]]|[-> ->]]; reflexivity.
  - intros o. destruct Hp as [[e [-> _]]|[-> _]]; reflexivity.
  - apply (st_agree_same s1 s2 _ Hcore).
    destruct Hp as [[e [-> ->]]|[-> ->]]; cbn [rg_step]; rewrite Hl; unfold st_agree, s1, trim; cbn; rewrite Hb, Hw.
    + split; [reflexivity|]. split; [reflexivity|]. split; [exact Hc|]. split; [repeat split; assumption|].
      intros _. apply qinv_trim. exact Hq.
    + split; [reflexivity|]. split; [reflexivity|]. split; [exact Hc|]. split; [repeat split; assumption|].
      intros _. apply qinv_trim. exact Hq.
  - rewrite Hobs, Hobs1. constructor.
  - rewrite Hobs, Hobs1. intros o [].
  - destruct Hp as [[e [-> ->]]|[-> ->]]; cbn [rg_step]; rewrite Hl; cbn; discriminate.
  - exact A2.
  - exact A3.
Qed.

Theorem step_op_inv p s m k l :
  Inv (RCfg s m (RIOp p :: k) l) -> Inv (rstep_op react p s m k l).
Proof.
  intros I. destruct p as [o|o|v|e| | |d].
  - now apply inv_sub.
  - now apply inv_unsub.
  - destruct (r_disposed s) eqn:Hd; [apply inv_emit_dead; [exact I|constructor|now left]|].
    destruct (r_stopped s) eqn:Hs; [apply inv_emit_dead; [exact I|constructor|now right]|].
    now apply inv_next_live.
  - destruct (r_disposed s) eqn:Hd; [apply inv_emit_dead; [exact I|constructor|now left]|].
    destruct (r_stopped s) eqn:Hs; [apply inv_emit_dead; [exact I|constructor|now right]|].
    apply (inv_final_live (RErr e) (Err e)); try assumption. left. eauto.
  - destruct (r_disposed s) eqn:Hd; [apply inv_emit_dead; [exact I|constructor|now left]|].
    destruct (r_stopped s) eqn:Hs; [apply inv_emit_dead; [exact I|constructor|now right]|].
    apply (inv_final_live RDone Done); try assumption. right. split; reflexivity.
  - now apply inv_dispose.
  - now apply inv_advance.
Qed.

(* ---- instructions that do not start an operation ---- *)
Lemma inv_instr_generic s m i k l s' (m' : @romap A) k' (extra : list (@revent A)) :
  Inv (RCfg s m (i :: k) l) ->
  lops (extra ++ l) = lops l ->
  same_but_obs s s' -> NoDup (r_observers s') ->
  (forall o, In o (r_observers s') -> m' o <> None) ->
  (forall o, m' o = None ->
     m o = None /\ lview o (extra ++ l) = lview o l /\ inflight o k' = inflight o (i :: k)) ->
  (forall o os', m' o = Some os' -> exists os, m o = Some os /\
     (obs_ok (rg_live (lg l)) (r_observers s) (lview o l) (inflight o (i :: k)) os o (lx l o) ->
      obs_ok (rg_live (lg l)) (r_observers s') (lview o (extra ++ l)) (inflight o k') os' o (lx l o))) ->
  clean k' ->
  Inv (RCfg s' m' k' (extra ++ l)).
Proof.
  intros I Hops Hcore Hnd Hdom Hnone Hsome Hclean.
  constructor; cbn [rc_st rc_obs rc_k rc_rlog].
  - unfold cg, cops, rlog_of. cbn [rc_rlog]. fold (lops (extra ++ l)). rewrite Hops.
    exact (st_agree_same s s' _ Hcore (inv_st_l _ _ _ _ I)).
  - exact Hnd.
  - exact Hdom.
  - intros o Hm. destruct (Hnone o Hm) as (Hm0 & Hv & Hi). destruct (inv_none_l _ _ _ _ o I Hm0) as (H1 & H2 & H3).
    unfold cops, rlog_of. cbn [rc_rlog]. fold (lops (extra ++ l)). fold (lview o (extra ++ l)).
    rewrite Hops, Hv, Hi. auto.
  - intros o os' Hm. destruct (Hsome o os' Hm) as [os [Hm0 Himp]].
    destruct (inv_some_l _ _ _ _ o os I Hm0) as [H1 Hok].
    unfold cx, cg, cops, rlog_of. cbn [rc_rlog]. fold (lops (extra ++ l)). fold (lview o (extra ++ l)).
    rewrite Hops. fold (lg l). split; [exact H1|]. apply Himp. exact Hok.
  - exact Hclean.
Qed.

Lemma rupd_other (m : @romap A) o x o2 : o2 <> o -> rupd m o x o2 = m o2.
Proof. intros H. unfold rupd. destruct (Nat.eqb o2 o) eqn:E; [apply Nat.eqb_eq in E; contradiction|reflexivity]. Qed.

Lemma inv_resched o s m k l :
  Inv (RCfg s m (RIResched o :: k) l) ->
  Inv (RCfg (with_sched (r_sched s ++ [(r_fresh s, o, false)]) (S (r_fresh s)) s) m k l).
Proof.
  intros I. apply (inv_instr_generic s m (RIResched o) k l _ m k [] I); try reflexivity.
  - repeat split.
  - exact (inv_nodup _ I).
  - exact (inv_dom _ I).
  - intros o2 H2. auto.
  - intros o2 os H2. exists os. split; [exact H2|]. cbn [app inflight]. tauto.
  - exact (clean_tail _ _ (inv_clean _ I)).
Qed.

Lemma inv_handle o s m k l :
  Inv (RCfg s m (RIHandle o :: k) l) -> Inv (rstep (RCfg s m (RIHandle o :: k) l)).
Proof.
  intros I. unfold Replay.rstep. cbn [rc_k rc_st rc_obs rc_rlog].
  destruct (m o) as [os|] eqn:Hm.
  - apply (inv_instr_generic s m (RIHandle o) k l s _ k [] I); try reflexivity.
    + apply same_but_obs_refl.
    + exact (inv_nodup _ I).
    + intros o2 Hi. unfold rupd. destruct (Nat.eqb o2 o); [discriminate|]. exact (inv_dom _ I o2 Hi).
    + intros o2. unfold rupd. destruct (Nat.eqb o2 o); [discriminate|]. auto.
    + intros o2 os2. unfold rupd. destruct (Nat.eqb o2 o) eqn:E.
      * apply Nat.eqb_eq in E. subst o2. intros [= <-]. exists os. split; [exact Hm|]. cbn [app inflight].
        apply obs_ok_ext; reflexivity.
      * intros H2. exists os2. split; [exact H2|]. cbn [app inflight]. tauto.
    + exact (clean_tail _ _ (inv_clean _ I)).
  - apply (inv_instr_generic s m (RIHandle o) k l s m k [] I); try reflexivity.
    + apply same_but_obs_refl.
    + exact (inv_nodup _ I).
    + exact (inv_dom _ I).
    + auto.
    + intros o2 os2 H2. exists os2. split; [exact H2|]. cbn [app inflight]. tauto.
    + exact (clean_tail _ _ (inv_clean _ I)).
Qed.

Lemma inv_adofin o s m k l :
  Inv (RCfg s m (RIAdoFin o :: k) l) -> Inv (rstep (RCfg s m (RIAdoFin o :: k) l)).
Proof.
  intros I. unfold Replay.rstep. cbn [rc_k rc_st rc_obs rc_rlog].
  destruct (m o) as [os|] eqn:Hm.
  - destruct (rado_dispose_spec s os o) as (Hs & Hcore & Hobs).
    destruct (rado_dispose s os o) as [s' os']. cbn [fst snd] in *.
    assert (Hsub : forall x, In x (r_observers s') -> In x (r_observers s)).
    { intros x. destruct Hobs as [->| ->]; [tauto|apply In_remove1_weak]. }
    apply (inv_instr_generic s m (RIAdoFin o) k l s' _ k [] I); try reflexivity.
    + exact Hcore.
    + destruct Hobs as [->| ->]; [exact (inv_nodup _ I)|apply NoDup_remove1; exact (inv_nodup _ I)].
    + intros o2 Hi. unfold rupd. destruct (Nat.eqb o2 o); [discriminate|]. exact (inv_dom _ I o2 (Hsub _ Hi)).
    + intros o2. unfold rupd. destruct (Nat.eqb o2 o); [discriminate|]. auto.
    + intros o2 os2. unfold rupd. destruct (Nat.eqb o2 o) eqn:E.
      * apply Nat.eqb_eq in E. subst o2. intros [= <-]. exists os. split; [exact Hm|]. cbn [app inflight].
        apply obs_ok_stop. exact Hs.
      * apply Nat.eqb_neq in E. intros H2. exists os2. split; [exact H2|]. cbn [app inflight].
        apply obs_ok_weaken. intros El. split; [exact El|]. intros Hin.
        destruct Hobs as [->| ->]; [exact Hin|]. apply (In_remove1 o _ o2 (inv_nodup _ I)). split; assumption.
    + exact (clean_tail _ _ (inv_clean _ I)).
  - apply (inv_instr_generic s m (RIAdoFin o) k l s m k [] I); try reflexivity.
    + apply same_but_obs_refl.
    + exact (inv_nodup _ I).
    + exact (inv_dom _ I).
    + auto.
    + intros o2 os2 H2. exists os2. split; [exact H2|]. cbn [app inflight]. tauto.
    + exact (clean_tail _ _ (inv_clean _ I)).
Qed.

Lemma inflight_deliver_same o n k : inflight o (RIDeliver o n :: k) = n :: inflight o k.
Proof. cbn [inflight]. now rewrite Nat.eqb_refl. Qed.
Lemma inflight_deliver_other o o2 n k : o2 <> o -> inflight o2 (RIDeliver o n :: k) = inflight o2 k.
Proof. intros H. cbn [inflight]. destruct (Nat.eqb o o2) eqn:E; [apply Nat.eqb_eq in E; congruence|reflexivity]. Qed.

Lemma obs_ok_stopped_infl live obsl v i i' (os : @rostate A) o X :
  ra_stopped os = true -> obs_ok live obsl v i os o X -> obs_ok live obsl v i' os o X.
Proof. unfold obs_ok. intros ->. tauto. Qed.

Lemma inv_deliver o n s m k l :
  Inv (RCfg s m (RIDeliver o n :: k) l) -> Inv (rstep (RCfg s m (RIDeliver o n :: k) l)).
Proof.
  intros I. unfold Replay.rstep. cbn [rc_k rc_st rc_obs rc_rlog].
  assert (Hck : clean k) by exact (clean_tail _ _ (inv_clean _ I)).
  destruct (m o) as [os|] eqn:Hm.
  2:{ exfalso. destruct (inv_none_l _ _ _ _ o I Hm) as (_ & _ & Hi).
      rewrite inflight_deliver_same in Hi. discriminate. }
  destruct (ra_stopped os) eqn:Hst.
  - (* AutoDetachObserver.on_xxx: `if self.is_stopped: return` *)
    apply (inv_instr_generic s m (RIDeliver o n) k l s m k [] I); try reflexivity.
    + apply same_but_obs_refl.
    + exact (inv_nodup _ I).
    + exact (inv_dom _ I).
    + intros o2 H2. split; [exact H2|]. split; [reflexivity|].
      destruct (Nat.eq_dec o2 o) as [->|Hne]; [congruence|]. now rewrite inflight_deliver_other.
    + intros o2 os2 H2. exists os2. split; [exact H2|]. cbn [app].
      destruct (Nat.eq_dec o2 o) as [->|Hne].
      * rewrite Hm in H2. injection H2 as <-. now apply obs_ok_stopped_infl.
      * rewrite inflight_deliver_other by exact Hne. tauto.
    + exact Hck.
  - assert (Hgen : forall stop kk, clean kk -> (forall o2, inflight o2 kk = inflight o2 k) ->
                   (is_terminal n = true -> stop = true) ->
                   Inv (RCfg s (rupd m o (rcalled stop os)) kk ([REGot o n] ++ l))).
    { intros stop kk Hckk Hinf Hterm.
      apply (inv_instr_generic s m (RIDeliver o n) k l s _ kk [REGot o n] I).
      - cbn [app]. apply lops_got.
      - apply same_but_obs_refl.
      - exact (inv_nodup _ I).
      - intros o2 Hi. unfold rupd. destruct (Nat.eqb o2 o); [discriminate|]. exact (inv_dom _ I o2 Hi).
      - intros o2. unfold rupd. destruct (Nat.eqb o2 o) eqn:E; [discriminate|]. intros H2.
        apply Nat.eqb_neq in E. split; [exact H2|]. cbn [app]. rewrite lview_got.
        destruct (Nat.eqb o o2) eqn:E2; [apply Nat.eqb_eq in E2; congruence|]. rewrite app_nil_r.
        split; [reflexivity|]. rewrite Hinf. now rewrite inflight_deliver_other.
      - intros o2 os2. unfold rupd. destruct (Nat.eqb o2 o) eqn:E.
        + apply Nat.eqb_eq in E. subst o2. intros [= <-]. exists os. split; [exact Hm|].
          cbn [app]. rewrite lview_got, Nat.eqb_refl, inflight_deliver_same, Hinf.
          unfold obs_ok. cbn [rcalled ra_stopped r_so]. rewrite Hst. cbn [orb].
          intros [H1 H2]. destruct stop.
          * rewrite <- H1. exists (inflight o k ++ so_queue (r_so os)). rewrite <- app_assoc. reflexivity.
          * rewrite <- app_assoc. cbn [app]. split; [exact H1|exact H2].
        + apply Nat.eqb_neq in E. intros H2. exists os2. split; [exact H2|]. cbn [app].
          rewrite lview_got. destruct (Nat.eqb o o2) eqn:E2; [apply Nat.eqb_eq in E2; congruence|].
          rewrite app_nil_r, Hinf, inflight_deliver_other by exact E. tauto.
      - exact Hckk. }
    destruct n as [v|e|].
    + apply (Hgen false).
      * now apply clean_ops_app.
      * intros o2. now rewrite inflight_app, inflight_ops.
      * discriminate.
    + apply (Hgen true).
      * apply clean_ops_app. exact Hck.
      * intros o2. now rewrite inflight_app, inflight_ops.
      * reflexivity.
    + apply (Hgen true).
      * apply clean_ops_app. exact Hck.
      * intros o2. now rewrite inflight_app, inflight_ops.
      * reflexivity.
Qed.

Lemma inv_drain s m k l :
  Inv (RCfg s m (RIDrain :: k) l) -> Inv (rstep (RCfg s m (RIDrain :: k) l)).
Proof.
  intros I. unfold Replay.rstep. cbn [rc_k rc_st rc_obs rc_rlog].
  assert (Hnod : nodeliver k) by exact (inv_clean _ I).
  assert (Hsame : forall s' kk, same_but_obs s s' -> r_observers s' = r_observers s ->
                  (kk = k \/ kk = RIDrain :: k) -> Inv (RCfg s' m kk l)).
  { intros s' kk Hcore Hobs Hkk.
    apply (inv_instr_generic s m RIDrain k l s' m kk [] I); try reflexivity.
    - exact Hcore.
    - rewrite Hobs. exact (inv_nodup _ I).
    - rewrite Hobs. exact (inv_dom _ I).
    - intros o H2. split; [exact H2|]. split; [reflexivity|]. destruct Hkk as [->| ->]; reflexivity.
    - intros o os H2. exists os. split; [exact H2|]. cbn [app]. rewrite Hobs.
      destruct Hkk as [->| ->]; cbn [inflight]; tauto.
    - destruct Hkk as [->| ->]; [now apply nodeliver_clean|exact Hnod]. }
  destruct (r_sched s) as [|[[it o] cancelled] rest].
  - apply Hsame; [apply same_but_obs_refl|reflexivity|now left].
  - set (s1 := with_sched rest (r_fresh s) s).
    destruct cancelled; [apply Hsame; [repeat split|reflexivity|now right]|].
    destruct (m o) as [os|] eqn:Hm; [|apply Hsame; [repeat split|reflexivity|now right]].
    destruct (so_queue (r_so os)) as [|n q] eqn:Hq.
    + (* nothing queued: is_acquired = False *)
      apply (inv_instr_generic s m RIDrain k l s1 _ (RIDrain :: k) [] I); try reflexivity.
      * repeat split.
      * exact (inv_nodup _ I).
      * intros o2 Hi. unfold rupd. destruct (Nat.eqb o2 o); [discriminate|]. exact (inv_dom _ I o2 Hi).
      * intros o2. unfold rupd. destruct (Nat.eqb o2 o); [discriminate|]. auto.
      * intros o2 os2. unfold rupd. destruct (Nat.eqb o2 o) eqn:E.
        -- apply Nat.eqb_eq in E. subst o2. intros [= <-]. exists os. split; [exact Hm|]. cbn [app].
           apply obs_ok_ext; cbn [set_so ra_stopped r_so so_queue so_stopped]; [reflexivity|now rewrite Hq|reflexivity].
        -- intros H2. exists os2. split; [exact H2|]. cbn [app]. tauto.
      * exact Hnod.
    + (* work = queue.pop(0) *)
      apply (inv_instr_generic s m RIDrain k l s1 _ (RIDeliver o n :: RIResched o :: RIDrain :: k) [] I);
        try reflexivity.
      * repeat split.
      * exact (inv_nodup _ I).
      * intros o2 Hi. unfold rupd. destruct (Nat.eqb o2 o); [discriminate|]. exact (inv_dom _ I o2 Hi).
      * intros o2. unfold rupd. destruct (Nat.eqb o2 o) eqn:E; [discriminate|]. intros H2.
        apply Nat.eqb_neq in E. split; [exact H2|]. split; [reflexivity|].
        rewrite inflight_deliver_other by exact E. reflexivity.
      * intros o2 os2. unfold rupd. destruct (Nat.eqb o2 o) eqn:E.
        -- apply Nat.eqb_eq in E. subst o2. intros [= <-]. exists os. split; [exact Hm|]. cbn [app].
           rewrite inflight_deliver_same. cbn [inflight]. rewrite (Hnod o).
           unfold obs_ok. cbn [set_so ra_stopped r_so so_queue so_stopped]. rewrite Hq. cbn [app]. tauto.
        -- apply Nat.eqb_neq in E. intros H2. exists os2. split; [exact H2|]. cbn [app].
           rewrite inflight_deliver_other by exact E. cbn [inflight]. tauto.
      * cbn [clean]. exact Hnod.
Qed.

Theorem step_inv c : Inv c -> Inv (rstep c).
Proof.
  destruct c as [s m k l]. intros I. destruct k as [|i k].
  - unfold Replay.rstep. exact I.
  - destruct i as [p|o n|o|o|o|].
    + unfold Replay.rstep. cbn [rc_k rc_st rc_obs rc_rlog]. now apply step_op_inv.
    + now apply inv_deliver.
    + now apply inv_adofin.
    + unfold Replay.rstep. cbn [rc_k rc_st rc_obs rc_rlog]. now apply inv_resched.
    + now apply inv_handle.
    + now apply inv_drain.
Qed.

End Tree.

(* the initial configuration satisfies the invariant *)
Lemma Inv_init {A} (bs w : option Z) (top : list (@rop A)) : Inv (bufsize_of bs) w (rinit_cfg bs w top).
Proof.
  constructor; cbn.
  - unfold st_agree. cbn. split; [destruct bs; reflexivity|]. split; [reflexivity|]. split; [reflexivity|].
    split; [repeat split|]. intros _. apply qinv_init.
  - constructor.
  - intros o [].
  - intros o _. split; [reflexivity|]. split; [reflexivity|].
    induction top as [|p t IH]; [reflexivity|exact IH].
  - intros o os H. discriminate.
  - induction top as [|p t IH]; [exact I|]. cbn. intros o.
    clear IH. induction t as [|q t IH]; [reflexivity|exact IH].
Qed.

(* C22, arbitrary call trees: what observer o has received at any point of any
   run is a prefix of  (retained values at its subscription, terminal if any)
   ++ (every later notification, in call order)  *)
Theorem replay_prefix {A} (react : nat -> nat -> list (@rop A)) (bs w : option Z) (top : list (@rop A))
        (fuel o : nat) :
  let c := rrun react fuel (rinit_cfg bs w top) in
  prefix (rview o (rlog_of c)) (xview (bufsize_of bs) w o false rg_init (ops_of (rlog_of c))).
Proof.
  cbv zeta. apply (Inv_prefix react (bufsize_of bs) w).
  apply (rrun_ind react (Inv (bufsize_of bs) w)); [apply step_inv|apply Inv_init].
Qed.

(* nothing is lost: as long as o's wrapper is not stopped (o has neither
   unsubscribed nor received a terminal notification), what it received, plus
   what has been handed to its wrapper but not processed yet, plus what is still
   queued in its ScheduledObserver, is ALL it is entitled to *)
Theorem replay_nothing_lost {A} (react : nat -> nat -> list (@rop A)) (bs w : option Z) (top : list (@rop A))
        (fuel o : nat) os :
  let c := rrun react fuel (rinit_cfg bs w top) in
  rc_obs c o = Some os -> ra_stopped os = false ->
  rview o (rlog_of c) ++ inflight o (rc_k c) ++ so_queue (r_so os)
  = xview (bufsize_of bs) w o false rg_init (ops_of (rlog_of c)).
Proof.
  cbv zeta. intros Hm Hs.
  assert (I : Inv (bufsize_of bs) w (rrun react fuel (rinit_cfg bs w top))).
  { apply (rrun_ind react (Inv (bufsize_of bs) w)); [apply step_inv|apply Inv_init]. }
  destruct (inv_some _ _ _ I o os Hm) as [_ Hok]. unfold obs_ok in Hok. rewrite Hs in Hok.
  exact (proj1 Hok).
Qed.

(* ... and while the subject is live such an observer is registered and its
   ScheduledObserver accepts notifications: the next emission will reach its queue *)
Theorem replay_live_registered {A} (react : nat -> nat -> list (@rop A)) (bs w : option Z) (top : list (@rop A))
        (fuel o : nat) os :
  let c := rrun react fuel (rinit_cfg bs w top) in
  rc_obs c o = Some os -> ra_stopped os = false ->
  rg_live (rg_run rg_init (ops_of (rlog_of c))) = true ->
  In o (r_observers (rc_st c)) /\ so_stopped (r_so os) = false.
Proof.
  cbv zeta. intros Hm Hs Hl.
  assert (I : Inv (bufsize_of bs) w (rrun react fuel (rinit_cfg bs w top))).
  { apply (rrun_ind react (Inv (bufsize_of bs) w)); [apply step_inv|apply Inv_init]. }
  destruct (inv_some _ _ _ I o os Hm) as [_ Hok]. unfold obs_ok in Hok. rewrite Hs in Hok.
  exact (proj2 Hok Hl).
Qed.
