(* Refinement of the three synchronous subject classes to the abstract
   broadcast specification of Subjects/Family.v, for ALL histories of top-level
   calls (observers that do not call back into the subject), and the
   per-observer reading of that specification. *)
From RxVerif Require Import Base.Prelude Ops.Machine Subjects.Subject Subjects.Behavior Subjects.Async
  Subjects.Family Subjects.SubjectFacts.

Section Flat.
Context {A : Type} (pynone : A) (K : kind).

Definition silent : nat -> nat -> list (@op A) := fun _ _ => [].
Notation C := (cls_of pynone K).
Notation stepf := (step C silent).
Notation runf := (run C silent).

Definition reaches (c c' : @cfg A) : Prop := exists n, runf n c = c'.

Lemma reaches_refl c : reaches c c.
Proof. now exists 0%nat. Qed.

Lemma reaches_trans c1 c2 c3 : reaches c1 c2 -> reaches c2 c3 -> reaches c1 c3.
Proof. intros [n H1] [k H2]. exists (n + k)%nat. now rewrite run_add, H1. Qed.

Lemma reaches_step c : reaches c (stepf c).
Proof. exists 1%nat. now rewrite run_S. Qed.

Lemma reaches_step_eq c c' : stepf c = c' -> reaches c c'.
Proof. intros <-. apply reaches_step. Qed.

(* ---- observer tables up to the call counters ---- *)
Definition same_but_calls (a b : ostate) : Prop :=
  a_stopped a = a_stopped b /\ sad_disposed a = sad_disposed b /\ sad_cur a = sad_cur b /\
  inner_obs a = inner_obs b /\ handle a = handle b.

Definition meqv (m m' : omap) : Prop :=
  forall o, match m o, m' o with
            | None, None => True
            | Some a, Some b => same_but_calls a b
            | _, _ => False
            end.

Lemma meqv_refl m : meqv m m.
Proof. intros o. destruct (m o); [repeat split|exact I]. Qed.

Lemma meqv_trans m1 m2 m3 : meqv m1 m2 -> meqv m2 m3 -> meqv m1 m3.
Proof.
  intros H12 H23 o. specialize (H12 o). specialize (H23 o).
  destruct (m1 o), (m2 o), (m3 o); try contradiction; try exact I.
  destruct H12 as (?&?&?&?&?), H23 as (?&?&?&?&?). repeat split; congruence.
Qed.

Lemma meqv_upd m o os os' : m o = Some os -> same_but_calls os os' -> meqv m (upd m o os').
Proof.
  intros Hm Hs o2. unfold upd. destruct (Nat.eqb o2 o) eqn:E.
  - apply Nat.eqb_eq in E. subst o2. now rewrite Hm.
  - destruct (m o2); [repeat split|exact I].
Qed.

(* same domain, same handles *)
Definition mdom (m m' : omap) : Prop :=
  forall o, match m o, m' o with
            | None, None => True
            | Some a, Some b => handle a = handle b
            | _, _ => False
            end.

Lemma mdom_refl m : mdom m m.
Proof. intros o. now destruct (m o). Qed.

Lemma mdom_trans m1 m2 m3 : mdom m1 m2 -> mdom m2 m3 -> mdom m1 m3.
Proof.
  intros H12 H23 o. specialize (H12 o). specialize (H23 o).
  destruct (m1 o), (m2 o), (m3 o); try contradiction; try exact I. congruence.
Qed.

Lemma mdom_upd m o os os' : m o = Some os -> handle os = handle os' -> mdom m (upd m o os').
Proof.
  intros Hm Hs o2. unfold upd. destruct (Nat.eqb o2 o) eqn:E.
  - apply Nat.eqb_eq in E. subst o2. now rewrite Hm.
  - now destruct (m o2).
Qed.

Lemma upd_other (m : omap) o x o2 : o2 <> o -> upd m o x o2 = m o2.
Proof. intros H. unfold upd. destruct (Nat.eqb o2 o) eqn:E; [apply Nat.eqb_eq in E; contradiction|reflexivity]. Qed.

Lemma meqv_unstopped m m' o :
  meqv m m' -> (exists os, m o = Some os /\ a_stopped os = false) ->
  exists os', m' o = Some os' /\ a_stopped os' = false.
Proof.
  intros H [os [Hm Hs]]. specialize (H o). rewrite Hm in H.
  destruct (m' o) as [os'|]; [|contradiction]. destruct H as (H&_). exists os'. split; [reflexivity|congruence].
Qed.

(* ---- delivering element notifications ---- *)
Lemma deliver_nexts_one (vs : list A) : forall o s m k l,
  (exists os, m o = Some os /\ a_stopped os = false) ->
  exists m', reaches (Cfg s m (map (IDeliver o) (map Next vs) ++ k) l)
                     (Cfg s m' k (rev (map (EGot o) (map Next vs)) ++ l))
             /\ meqv m m'.
Proof.
  induction vs as [|v vs IH]; intros o s m k l [os [Hm Hs]].
  - exists m. split; [apply reaches_refl|apply meqv_refl].
  - set (m1 := upd m o (called false os)).
    assert (H1 : meqv m m1).
    { apply (meqv_upd m o os); [exact Hm|]. repeat split. cbn. now rewrite orb_false_r. }
    destruct (IH o s m1 k (EGot o (Next v) :: l)) as [m' [Hr He]].
    { exists (called false os). split; [apply upd_same|]. cbn. now rewrite Hs. }
    exists m'. split; [|eapply meqv_trans; eassumption].
    eapply reaches_trans; [apply reaches_step_eq|].
    2:{ cbn [map rev]. rewrite <- app_assoc. cbn [app]. exact Hr. }
    unfold Subject.step. cbn [map app c_k c_st c_obs c_rlog]. rewrite Hm, Hs. reflexivity.
Qed.

Lemma deliver_all_nexts (vs : list A) : forall L s m k l,
  (forall o, In o L -> exists os, m o = Some os /\ a_stopped os = false) ->
  exists m', reaches (Cfg s m (flat_map (fun o => map (IDeliver o) (map Next vs)) L ++ k) l)
                     (Cfg s m' k (rev (flat_map (fun o => map (EGot o) (map Next vs)) L) ++ l))
             /\ meqv m m'.
Proof.
  induction L as [|o L IH]; intros s m k l H.
  - exists m. split; [apply reaches_refl|apply meqv_refl].
  - cbn [flat_map]. rewrite <- app_assoc.
    destruct (deliver_nexts_one vs o s m (flat_map (fun o => map (IDeliver o) (map Next vs)) L ++ k) l)
      as [m1 [Hr1 He1]]; [apply H; now left|].
    destruct (IH s m1 k (rev (map (EGot o) (map Next vs)) ++ l)) as [m2 [Hr2 He2]].
    { intros o2 Hin. apply (meqv_unstopped m m1 o2 He1). apply H. now right. }
    exists m2. split; [|eapply meqv_trans; eassumption].
    eapply reaches_trans; [exact Hr1|]. rewrite rev_app_distr, <- app_assoc. exact Hr2.
Qed.

(* ---- delivering [elements; terminal] to an observer and running the wrapper's
        `finally: self.dispose()` ---- *)
Lemma inner_dispose_noobs (s : @sstate A) os o :
  observers s = [] -> fst (inner_dispose s os o) = s.
Proof.
  intros H. unfold inner_dispose. destruct (negb (is_disposed s) && inner_obs os); [|reflexivity].
  rewrite H. reflexivity.
Qed.

Lemma ado_dispose_keeps (s : @sstate A) os o :
  sad_cur os = None \/ observers s = [] ->
  fst (ado_dispose s os o) = s /\ handle (snd (ado_dispose s os o)) = handle os.
Proof.
  intros H. unfold ado_dispose. cbn [sad_disposed sad_cur a_stopped inner_obs handle calls].
  destruct (sad_disposed os); [split; reflexivity|].
  destruct (sad_cur os) as [[|]|] eqn:Hc; cbn [sub_dispose]; try (split; reflexivity).
  destruct H as [H|H]; [discriminate|]. split; [now apply inner_dispose_noobs|].
  unfold inner_dispose. destruct (negb (is_disposed s) && _); reflexivity.
Qed.

Lemma ado_dispose_disposed (s : @sstate A) os o : sad_disposed (snd (ado_dispose s os o)) = true.
Proof.
  unfold ado_dispose. cbn [sad_disposed sad_cur a_stopped inner_obs handle calls].
  destruct (sad_disposed os) eqn:Hd; [reflexivity|].
  destruct (sad_cur os) as [[|]|]; cbn [sub_dispose snd sad_disposed]; try reflexivity.
  unfold inner_dispose. destruct (negb (is_disposed s) && _); reflexivity.
Qed.

Lemma deliver_final_one (vs : list A) (t : ev A) : forall o s m k l,
  is_terminal t = true ->
  (exists os, m o = Some os /\ a_stopped os = false /\ (sad_cur os = None \/ observers s = [])) ->
  exists m', reaches (Cfg s m (map (IDeliver o) (map Next vs ++ [t]) ++ k) l)
                     (Cfg s m' k (rev (map (EGot o) (map Next vs ++ [t])) ++ l))
             /\ mdom m m' /\ (forall o2, o2 <> o -> m' o2 = m o2)
             /\ exists os', m' o = Some os' /\ a_stopped os' = true /\ sad_disposed os' = true.
Proof.
  induction vs as [|v vs IH]; intros o s m k l Ht [os [Hm [Hs Hc]]].
  - cbn [map app].
    set (os1 := called true os).
    destruct (ado_dispose_keeps s os1 o) as [Hk1 Hk2]; [exact Hc|].
    exists (upd (upd m o os1) o (snd (ado_dispose s os1 o))).
    split; [|split; [|split]].
    + eapply reaches_trans; [apply reaches_step_eq|apply reaches_step_eq].
      * unfold Subject.step. cbn [c_k c_st c_obs c_rlog]. rewrite Hm, Hs.
        instantiate (1 := Cfg s (upd m o os1) (IAdoFin o :: k) (EGot o t :: l)).
        destruct t; [discriminate|reflexivity|reflexivity].
      * unfold Subject.step. cbn [c_k c_st c_obs c_rlog]. rewrite upd_same.
        destruct (ado_dispose s os1 o) as [s' os'] eqn:E. cbn [fst snd] in *. subst s'. reflexivity.
    + eapply mdom_trans; [apply (mdom_upd m o os os1 Hm); reflexivity|].
      apply (mdom_upd _ o os1); [apply upd_same|]. now rewrite Hk2.
    + intros o2 Hne. now rewrite !upd_other.
    + eexists. split; [apply upd_same|]. split; [apply ado_dispose_stopped|apply ado_dispose_disposed].
  - set (m1 := upd m o (called false os)).
    destruct (IH o s m1 k (EGot o (Next v) :: l) Ht) as [m' [Hr [Hd [Ho [os' Hos']]]]].
    { exists (called false os). split; [apply upd_same|]. cbn. rewrite Hs. split; [reflexivity|exact Hc]. }
    exists m'. split; [|split; [|split]].
    + eapply reaches_trans; [apply reaches_step_eq|].
      2:{ cbn [map rev app]. rewrite <- app_assoc. cbn [app]. exact Hr. }
      unfold Subject.step. cbn [map app c_k c_st c_obs c_rlog]. rewrite Hm, Hs. reflexivity.
    + eapply mdom_trans; [|exact Hd]. apply (mdom_upd m o os); [exact Hm|reflexivity].
    + intros o2 Hne. rewrite (Ho o2 Hne). unfold m1. now rewrite upd_other.
    + exists os'. exact Hos'.
Qed.

Definition live_obs (os : ostate) : Prop :=
  a_stopped os = false /\ sad_disposed os = false /\ sad_cur os = Some SInner /\ inner_obs os = true.

Lemma deliver_all_final (vs : list A) (t : ev A) : forall L s m k l,
  is_terminal t = true -> observers s = [] -> NoDup L ->
  (forall o, In o L -> exists os, m o = Some os /\ a_stopped os = false) ->
  exists m', reaches (Cfg s m (flat_map (fun o => map (IDeliver o) (map Next vs ++ [t])) L ++ k) l)
                     (Cfg s m' k (rev (flat_map (fun o => map (EGot o) (map Next vs ++ [t])) L) ++ l))
             /\ mdom m m'.
Proof.
  induction L as [|o L IH]; intros s m k l Ht Hobs Hnd H.
  - exists m. split; [apply reaches_refl|apply mdom_refl].
  - cbn [flat_map]. rewrite <- app_assoc. inversion Hnd as [|? ? Hnin Hnd']; subst.
    destruct (deliver_final_one vs t o s m
                (flat_map (fun o => map (IDeliver o) (map Next vs ++ [t])) L ++ k) l Ht)
      as [m1 [Hr1 [Hd1 [Ho1 _]]]].
    { destruct (H o (or_introl eq_refl)) as [os [Hm Hs]]. exists os. auto. }
    destruct (IH s m1 k (rev (map (EGot o) (map Next vs ++ [t])) ++ l) Ht Hobs Hnd') as [m2 [Hr2 Hd2]].
    { intros o2 Hin. rewrite Ho1; [apply H; now right|]. intros ->. contradiction. }
    exists m2. split; [|eapply mdom_trans; eassumption].
    eapply reaches_trans; [exact Hr1|]. rewrite rev_app_distr, <- app_assoc. exact Hr2.
Qed.

(* ---- list.remove ---- *)
Lemma mem_In o l : mem o l = true <-> In o l.
Proof.
  unfold mem. rewrite existsb_exists. split.
  - intros [x [Hin E]]. apply Nat.eqb_eq in E. now subst.
  - intros H. exists o. split; [exact H|apply Nat.eqb_refl].
Qed.

Lemma mem_false o l : mem o l = false <-> ~ In o l.
Proof. rewrite <- mem_In. destruct (mem o l); split; intros; congruence. Qed.

Lemma remove1_notin o l : ~ In o l -> remove1 o l = l.
Proof.
  induction l as [|x t IH]; intros H; cbn; [reflexivity|].
  destruct (Nat.eqb x o) eqn:E.
  - apply Nat.eqb_eq in E. subst. exfalso. apply H. now left.
  - f_equal. apply IH. intros Hin. apply H. now right.
Qed.

Lemma In_remove1 o l x : NoDup l -> (In x (remove1 o l) <-> In x l /\ x <> o).
Proof.
  induction l as [|y t IH]; intros Hnd; cbn; [tauto|].
  inversion Hnd as [|? ? Hnin Hnd']; subst.
  destruct (Nat.eqb y o) eqn:E.
  - apply Nat.eqb_eq in E. subst y. split.
    + intros Hin. split; [now right|]. intros ->. contradiction.
    + intros [[->|Hin] Hne]; [contradiction|exact Hin].
  - apply Nat.eqb_neq in E. cbn. rewrite (IH Hnd'). split.
    + intros [->|[Hin Hne]]; [split; [now left|exact E]|split; [now right|exact Hne]].
    + intros [[->|Hin] Hne]; [now left|right; split; assumption].
Qed.

Lemma NoDup_remove1 o l : NoDup l -> NoDup (remove1 o l).
Proof.
  induction l as [|y t IH]; intros Hnd; cbn; [constructor|].
  inversion Hnd as [|? ? Hnin Hnd']; subst.
  destruct (Nat.eqb y o); [exact Hnd'|]. constructor; [|now apply IH].
  rewrite (In_remove1 o t y Hnd'). tauto.
Qed.

Lemma NoDup_app_single (l : list nat) o : NoDup l -> ~ In o l -> NoDup (l ++ [o]).
Proof.
  induction l as [|x t IH]; intros Hnd Hnin; cbn; [constructor; [intros []|constructor]|].
  inversion Hnd as [|? ? Hx Ht]; subst. constructor.
  - intros Hin. apply in_app_or in Hin. destruct Hin as [Hin|[<-|[]]]; [contradiction|]. apply Hnin. now left.
  - apply IH; [exact Ht|]. intros Hin. apply Hnin. now right.
Qed.

Lemma flat_map_single {X Y} (f : X -> Y) (L : list X) : flat_map (fun o => [f o]) L = map f L.
Proof. induction L; cbn; [reflexivity|now f_equal]. Qed.

Lemma flat_map_empty {X Y} (L : list X) : flat_map (fun _ => @nil Y) L = [].
Proof. induction L; cbn; [reflexivity|assumption]. Qed.

(* ---- the simulation relation ---- *)
Record R (s : @sstate A) (m : omap) (a : @abs A) : Prop := {
  R_obs : observers s = ab_subs a;
  R_nodup : NoDup (ab_subs a);
  R_used : forall o, m o = None <-> mem o (ab_used a) = false;
  R_handle : forall o os, m o = Some os -> handle os = true;
  R_live : forall o, In o (ab_subs a) -> exists os, m o = Some os /\ live_obs os;
  R_status : match g_status (ab_g a) with
             | Live => is_stopped s = false /\ is_disposed s = false /\ exception s = None
             | Ended (Err e) => is_stopped s = true /\ is_disposed s = false /\ exception s = Some e
             | Ended Done => is_stopped s = true /\ is_disposed s = false /\ exception s = None
             | Ended (Next _) => False
             | Disposed => is_disposed s = true
             end;
  R_dead : live (ab_g a) = false -> ab_subs a = [];
  R_val : g_status (ab_g a) <> Disposed ->
          match K with
          | KSubject => True
          | KBehavior => value s = g_cur (ab_g a)
          | KAsync => value s = g_cur (ab_g a) /\ has_value s = g_has (ab_g a)
          end }.

Lemma meqv_live_obs (m m' : omap) o :
  meqv m m' -> (exists os, m o = Some os /\ live_obs os) -> exists os', m' o = Some os' /\ live_obs os'.
Proof.
  intros H [os [Hm (H1&H2&H3&H4)]]. specialize (H o). rewrite Hm in H.
  destruct (m' o) as [os'|]; [|contradiction]. destruct H as (E1&E2&E3&E4&E5).
  exists os'. split; [reflexivity|]. unfold live_obs. repeat split; congruence.
Qed.

Lemma live_obs_unstopped (m : omap) o :
  (exists os, m o = Some os /\ live_obs os) -> exists os, m o = Some os /\ a_stopped os = false.
Proof. intros [os [Hm (H1&_)]]. eauto. Qed.

Lemma R_meqv s m m' a : R s m a -> meqv m m' -> R s m' a.
Proof.
  intros HR He. destruct HR as [H1 H2 H3 H4 H5 H6 H7 H8]. constructor; try assumption.
  - intros o. rewrite <- H3. specialize (He o). destruct (m o), (m' o); try contradiction; split; congruence.
  - intros o os' Hm'. specialize (He o). rewrite Hm' in He. destruct (m o) as [os|] eqn:Hm; [|contradiction].
    destruct He as (_&_&_&_&E). rewrite <- E. eapply H4; eassumption.
  - intros o Hin. apply (meqv_live_obs m m' o He). now apply H5.
Qed.

(* when nobody is subscribed only domain and handles of the table matter *)
Lemma R_mdom s m m' a : R s m a -> ab_subs a = [] -> mdom m m' -> R s m' a.
Proof.
  intros HR Hnil Hd. destruct HR as [H1 H2 H3 H4 H5 H6 H7 H8]. constructor; try assumption.
  - intros o. rewrite <- H3. specialize (Hd o). destruct (m o), (m' o); try contradiction; split; congruence.
  - intros o os' Hm'. specialize (Hd o). rewrite Hm' in Hd. destruct (m o) as [os|] eqn:Hm; [|contradiction].
    rewrite <- Hd. eapply H4; eassumption.
  - rewrite Hnil. intros o [].
Qed.

Lemma R_subs_used s m a o : R s m a -> In o (ab_subs a) -> m o <> None.
Proof. intros HR Hin. destruct (R_live _ _ _ HR o Hin) as [os [Hm _]]. congruence. Qed.

Lemma ado_dispose_notmem (s : @sstate A) os o :
  mem o (observers s) = false ->
  fst (ado_dispose s os o) = s /\ handle (snd (ado_dispose s os o)) = handle os.
Proof.
  intros H. unfold ado_dispose. cbn [sad_disposed sad_cur a_stopped inner_obs handle calls].
  destruct (sad_disposed os); [split; reflexivity|].
  destruct (sad_cur os) as [[|]|]; cbn [sub_dispose]; try (split; reflexivity).
  unfold inner_dispose. cbn [inner_obs]. destruct (negb (is_disposed s) && inner_obs os); [|split; reflexivity].
  rewrite H. split; reflexivity.
Qed.

(* ---- what the overridden methods compute, in the vocabulary of the specification ---- *)
Lemma sub_when_disposed s m a o :
  R s m a -> g_status (ab_g a) = Disposed -> c_subscribe C s o = None.
Proof.
  intros HR Hg. pose proof (R_status _ _ _ HR) as Hs. rewrite Hg in Hs.
  destruct K; cbn; unfold subj_subscribe, beh_subscribe, async_subscribe; now rewrite Hs.
Qed.

Lemma sub_when_live s m a o :
  R s m a -> g_status (ab_g a) = Live ->
  c_subscribe C s o = Some (set_observers (observers s ++ [o]) s, map (IDeliver o) (greet K (ab_g a)), SInner).
Proof.
  intros HR Hg. pose proof (R_status _ _ _ HR) as Hs. pose proof (R_val _ _ _ HR) as Hv.
  rewrite Hg in Hs, Hv. destruct Hs as (H1&H2&H3). specialize (Hv ltac:(discriminate)).
  unfold greet. rewrite Hg.
  destruct K; cbn; unfold subj_subscribe, beh_subscribe, async_subscribe; rewrite H1, H2; cbn; try reflexivity.
  now rewrite Hv.
Qed.

Lemma sub_when_ended s m a o t :
  R s m a -> g_status (ab_g a) = Ended t ->
  c_subscribe C s o = Some (s, map (IDeliver o) (greet K (ab_g a)), SPlain).
Proof.
  intros HR Hg. pose proof (R_status _ _ _ HR) as Hs. pose proof (R_val _ _ _ HR) as Hv.
  rewrite Hg in Hs, Hv. specialize (Hv ltac:(discriminate)).
  unfold greet, final. rewrite Hg.
  destruct t as [x|e|]; [contradiction| |]; destruct Hs as (H1&H2&H3);
  destruct K; cbn; unfold subj_subscribe, beh_subscribe, async_subscribe; rewrite H1, H2, H3; cbn; try reflexivity.
  destruct Hv as [Hv1 Hv2]. rewrite Hv1, Hv2. now destruct (g_has (ab_g a)).
Qed.

(* greet of an ended subject: elements then one terminal *)
Lemma greet_ended_shape (g : @gstate A) t :
  g_status g = Ended t -> (match t with Next _ => False | _ => True end) ->
  exists vs t', greet K g = map Next vs ++ [t'] /\ is_terminal t' = true.
Proof.
  intros Hg Ht. unfold greet, final. rewrite Hg. destruct t as [x|e|]; [contradiction| |].
  - exists [], (Err e). split; reflexivity.
  - destruct K; try (exists [], Done; split; reflexivity).
    destruct (g_has g); [exists [g_cur g], Done|exists [], Done]; split; reflexivity.
Qed.

Lemma greet_live_shape (g : @gstate A) : g_status g = Live -> exists vs, greet K g = map Next vs.
Proof.
  intros Hg. unfold greet. rewrite Hg. destruct K; [exists []|exists [g_cur g]|exists []]; reflexivity.
Qed.

Definition sim_goal s m a p k l : Prop :=
  exists s' m', reaches (Cfg s m (IOp p :: k) l)
                        (Cfg s' m' k (rev (snd (spec_op K a p)) ++ EOp p :: l))
                /\ R s' m' (fst (spec_op K a p)).

Lemma mem_cons_other o o2 l : o2 <> o -> mem o2 (o :: l) = mem o2 l.
Proof. intros H. unfold mem. cbn. destruct (Nat.eqb o2 o) eqn:E; [apply Nat.eqb_eq in E; contradiction|reflexivity]. Qed.

Lemma mem_cons_same o l : mem o (o :: l) = true.
Proof. unfold mem. cbn. now rewrite Nat.eqb_refl. Qed.

Lemma sim_sub s m a o k l : R s m a -> sim_goal s m a (OSub o) k l.
Proof.
  intros HR. unfold sim_goal, spec_op. cbn [fst snd].
  destruct (mem o (ab_used a)) eqn:Hu.
  - (* id used before: the driver skips *)
    cbn [fst snd rev app]. exists s, m. split; [|exact HR].
    apply reaches_step_eq. unfold Subject.step, step_op. cbn [c_k c_st c_obs c_rlog].
    destruct (m o) eqn:Hm; [reflexivity|]. apply (R_used _ _ _ HR) in Hm. congruence.
  - assert (Hm : m o = None) by now apply (R_used _ _ _ HR).
    assert (Hnotsub : ~ In o (ab_subs a)).
    { intros Hin. exact (R_subs_used _ _ _ _ HR Hin Hm). }
    cbn [fst snd].
    destruct (g_status (ab_g a)) as [|t|] eqn:Hg.
    + (* live *)
      assert (Hl : live (ab_g a) = true) by (unfold live; now rewrite Hg). rewrite Hl.
      destruct (greet_live_shape (ab_g a) Hg) as [vs Hvs].
      set (s1 := set_observers (observers s ++ [o]) s).
      destruct (deliver_nexts_one vs o s1 (upd m o fresh_ostate) (ISubRet o (Some SInner) :: k)
                  (EOp (OSub o) :: l)) as [m1 [Hr1 He1]].
      { exists fresh_ostate. split; [apply upd_same|reflexivity]. }
      pose proof (He1 o) as Ho. rewrite upd_same in Ho. destruct (m1 o) as [os1|] eqn:Hm1; [|contradiction].
      destruct Ho as (E1&E2&E3&E4&E5). cbn in E1, E2, E3, E4, E5.
      set (osf := with_handle (OState (a_stopped os1) false (Some SInner) (inner_obs os1) (handle os1) (calls os1))).
      exists s1, (upd m1 o osf). split.
      * eapply reaches_trans; [apply reaches_step_eq|eapply reaches_trans; [|apply reaches_step_eq]].
        -- unfold Subject.step, step_op. cbn [c_k c_st c_obs c_rlog]. rewrite Hm.
           rewrite (sub_when_live s m a o HR Hg). rewrite Hvs. reflexivity.
        -- exact Hr1.
        -- rewrite Hvs. unfold Subject.step. cbn [c_k c_st c_obs c_rlog]. rewrite Hm1.
           unfold sad_set. rewrite <- E2. reflexivity.
      * destruct HR as [H1 H2 H3 H4 H5 H6 H7 H8]. constructor; cbn [ab_subs ab_used ab_g].
        -- unfold s1. cbn. now rewrite H1.
        -- apply NoDup_app_single; assumption.
        -- intros o2. destruct (Nat.eq_dec o2 o) as [->|Hne].
           ++ rewrite upd_same, mem_cons_same. split; discriminate.
           ++ rewrite upd_other, mem_cons_other by exact Hne. rewrite <- H3.
              specialize (He1 o2). rewrite upd_other in He1 by exact Hne.
              destruct (m o2), (m1 o2); try contradiction; split; congruence.
        -- intros o2 os2. destruct (Nat.eq_dec o2 o) as [->|Hne].
           ++ rewrite upd_same. intros [= <-]. reflexivity.
           ++ rewrite upd_other by exact Hne. intros Hm2. specialize (He1 o2).
              rewrite upd_other, Hm2 in He1 by exact Hne. destruct (m o2) as [os0|] eqn:Hm0; [|contradiction].
              destruct He1 as (_&_&_&_&E). rewrite <- E. eapply H4; eassumption.
        -- intros o2 Hin. apply in_app_or in Hin. destruct Hin as [Hin|[<-|[]]].
           ++ assert (Hne : o2 <> o) by (intros ->; contradiction).
              rewrite upd_other by exact Hne. apply (meqv_live_obs (upd m o fresh_ostate) m1 o2 He1).
              rewrite upd_other by exact Hne. now apply H5.
           ++ rewrite upd_same. exists osf. split; [reflexivity|]. unfold osf, live_obs. cbn.
              repeat split; congruence.
        -- rewrite Hg in *. exact H6.
        -- intros Hd. congruence.
        -- exact H8.
    + (* ended *)
      assert (Hl : live (ab_g a) = false) by (unfold live; now rewrite Hg). rewrite Hl.
      assert (Htt : match t with Next _ => False | _ => True end).
      { pose proof (R_status _ _ _ HR) as Hs. rewrite Hg in Hs. destruct t; [contradiction|exact I|exact I]. }
      destruct (greet_ended_shape (ab_g a) t Hg Htt) as [vs [t' [Hvs Ht']]].
      destruct (deliver_final_one vs t' o s (upd m o fresh_ostate) (ISubRet o (Some SPlain) :: k)
                  (EOp (OSub o) :: l) Ht') as [m1 [Hr1 [Hd1 [Ho1 [os1 [Hm1 [Hs1 Hsd1]]]]]]].
      { exists fresh_ostate. split; [apply upd_same|]. split; [reflexivity|now left]. }
      exists s, (upd m1 o (with_handle os1)). split.
      * eapply reaches_trans; [apply reaches_step_eq|eapply reaches_trans; [|apply reaches_step_eq]].
        -- unfold Subject.step, step_op. cbn [c_k c_st c_obs c_rlog]. rewrite Hm.
           rewrite (sub_when_ended s m a o t HR Hg). rewrite Hvs. reflexivity.
        -- exact Hr1.
        -- rewrite Hvs. unfold Subject.step. cbn [c_k c_st c_obs c_rlog]. rewrite Hm1.
           unfold sad_set. rewrite Hsd1. reflexivity.
      * destruct HR as [H1 H2 H3 H4 H5 H6 H7 H8]. constructor; cbn [ab_subs ab_used ab_g]; try assumption.
        -- intros o2. destruct (Nat.eq_dec o2 o) as [->|Hne].
           ++ rewrite upd_same, mem_cons_same. split; discriminate.
           ++ rewrite upd_other, mem_cons_other by exact Hne. rewrite <- H3.
              rewrite (Ho1 o2 Hne), upd_other by exact Hne. reflexivity.
        -- intros o2 os2. destruct (Nat.eq_dec o2 o) as [->|Hne].
           ++ rewrite upd_same. intros [= <-]. reflexivity.
           ++ rewrite upd_other, (Ho1 o2 Hne), upd_other by exact Hne. apply H4.
        -- intros o2 Hin. assert (Hne : o2 <> o) by (intros ->; contradiction).
           rewrite upd_other, (Ho1 o2 Hne), upd_other by exact Hne. now apply H5.
    + (* disposed: _subscribe_core raises, fail() hands the exception to the observer *)
      assert (Hl : live (ab_g a) = false) by (unfold live; now rewrite Hg). rewrite Hl.
      set (os0 := called true fresh_ostate).
      exists s, (upd (upd m o os0) o (with_handle os0)). split.
      * eapply reaches_trans; [apply reaches_step_eq|apply reaches_step_eq].
        -- unfold Subject.step, step_op. cbn [c_k c_st c_obs c_rlog]. rewrite Hm.
           rewrite (sub_when_disposed s m a o HR Hg). reflexivity.
        -- unfold Subject.step, silent. cbn [c_k c_st c_obs c_rlog map app]. rewrite upd_same.
           unfold greet. rewrite Hg. reflexivity.
      * destruct HR as [H1 H2 H3 H4 H5 H6 H7 H8]. constructor; cbn [ab_subs ab_used ab_g]; try assumption.
        -- intros o2. destruct (Nat.eq_dec o2 o) as [->|Hne].
           ++ rewrite upd_same, mem_cons_same. split; discriminate.
           ++ rewrite !upd_other, mem_cons_other by exact Hne. apply H3.
        -- intros o2 os2. destruct (Nat.eq_dec o2 o) as [->|Hne].
           ++ rewrite upd_same. intros [= <-]. reflexivity.
           ++ rewrite !upd_other by exact Hne. apply H4.
        -- intros o2 Hin. assert (Hne : o2 <> o) by (intros ->; contradiction).
           rewrite !upd_other by exact Hne. now apply H5.
Qed.

Lemma live_of_status (g : @gstate A) : live g = true <-> g_status g = Live.
Proof. unfold live. destruct (g_status g); split; intros; congruence. Qed.

Lemma sim_unsub s m a o k l : R s m a -> sim_goal s m a (OUnsub o) k l.
Proof.
  intros HR. unfold sim_goal, spec_op. cbn [fst snd rev app].
  destruct (m o) as [os|] eqn:Hm.
  2:{ (* unknown id: no handle *)
    assert (Hnin : ~ In o (ab_subs a)) by (intros Hin; exact (R_subs_used _ _ _ _ HR Hin Hm)).
    rewrite (remove1_notin o _ Hnin). exists s, m. split; [|destruct a; exact HR].
    apply reaches_step_eq. unfold Subject.step, step_op. cbn [c_k c_st c_obs c_rlog]. now rewrite Hm. }
  assert (Hh : handle os = true) by (eapply R_handle; eassumption).
  destruct (in_dec Nat.eq_dec o (ab_subs a)) as [Hin|Hnin].
  - (* currently subscribed: InnerSubscription.dispose removes it *)
    destruct (R_live _ _ _ HR o Hin) as [os' [Hm' (L1&L2&L3&L4)]]. rewrite Hm in Hm'. injection Hm' as <-.
    assert (Hlive : live (ab_g a) = true).
    { destruct (live (ab_g a)) eqn:E; [reflexivity|]. rewrite (R_dead _ _ _ HR E) in Hin. destruct Hin. }
    pose proof (R_status _ _ _ HR) as Hst. apply live_of_status in Hlive. rewrite Hlive in Hst.
    destruct Hst as (S1&S2&S3).
    set (s1 := set_observers (remove1 o (observers s)) s).
    set (os1 := OState true true None false (handle os) (calls os)).
    exists s1, (upd m o os1). split.
    + apply reaches_step_eq. unfold Subject.step, step_op. cbn [c_k c_st c_obs c_rlog]. rewrite Hm, Hh.
      unfold ado_dispose. cbn [sad_disposed sad_cur a_stopped inner_obs handle calls]. rewrite L2, L3.
      cbn [sub_dispose]. unfold inner_dispose. cbn [inner_obs]. rewrite S2, L4. cbn [negb andb].
      replace (mem o (observers s)) with true; [reflexivity|].
      symmetry. apply mem_In. now rewrite (R_obs _ _ _ HR).
    + destruct HR as [H1 H2 H3 H4 H5 H6 H7 H8]. constructor; cbn [ab_subs ab_used ab_g]; try assumption.
      * unfold s1. cbn. now rewrite H1.
      * now apply NoDup_remove1.
      * intros o2. destruct (Nat.eq_dec o2 o) as [->|Hne].
        -- rewrite upd_same. rewrite <- H3. split; intros; congruence.
        -- rewrite upd_other by exact Hne. apply H3.
      * intros o2 os2. destruct (Nat.eq_dec o2 o) as [->|Hne].
        -- rewrite upd_same. intros [= <-]. exact Hh.
        -- rewrite upd_other by exact Hne. apply H4.
      * intros o2 Hin2. apply (In_remove1 o _ o2 H2) in Hin2. destruct Hin2 as [Hin2 Hne].
        rewrite upd_other by exact Hne. now apply H5.
      * intros Hd. rewrite (H7 Hd). reflexivity.
  - (* not (or no longer) subscribed: only the wrapper is stopped *)
    rewrite (remove1_notin o _ Hnin).
    assert (Hnm : mem o (observers s) = false) by (apply mem_false; now rewrite (R_obs _ _ _ HR)).
    destruct (ado_dispose_notmem s os o Hnm) as [Hk1 Hk2].
    exists s, (upd m o (snd (ado_dispose s os o))). split.
    + apply reaches_step_eq. unfold Subject.step, step_op. cbn [c_k c_st c_obs c_rlog]. rewrite Hm, Hh.
      destruct (ado_dispose s os o) as [s' os'] eqn:E. cbn [fst snd] in *. now subst s'.
    + destruct a as [subs used g]. cbn [ab_subs ab_used ab_g] in *.
      destruct HR as [H1 H2 H3 H4 H5 H6 H7 H8]. constructor; cbn [ab_subs ab_used ab_g] in *; try assumption.
      * intros o2. destruct (Nat.eq_dec o2 o) as [->|Hne].
        -- rewrite upd_same. rewrite <- H3. split; intros; congruence.
        -- rewrite upd_other by exact Hne. apply H3.
      * intros o2 os2. destruct (Nat.eq_dec o2 o) as [->|Hne].
        -- rewrite upd_same. intros [= <-]. now rewrite Hk2.
        -- rewrite upd_other by exact Hne. apply H4.
      * intros o2 Hin2. assert (Hne : o2 <> o) by (intros ->; contradiction).
        rewrite upd_other by exact Hne. now apply H5.
Qed.

Lemma sim_dispose s m a k l : R s m a -> sim_goal s m a ODispose k l.
Proof.
  intros HR. unfold sim_goal, spec_op. cbn [fst snd rev app g_step].
  exists (c_dispose C s), m. split.
  - apply reaches_step_eq. reflexivity.
  - destruct HR as [H1 H2 H3 H4 H5 H6 H7 H8]. constructor; cbn [ab_subs ab_used ab_g g_status]; try assumption.
    + destruct K; reflexivity.
    + constructor.
    + intros o [].
    + destruct K; reflexivity.
    + reflexivity.
    + intros H. congruence.
Qed.

(* the deliveries an accepted emission makes, per class *)
Lemma next_when_live s m a v :
  R s m a -> g_status (ab_g a) = Live ->
  exists s', c_next C s v = (s', flat_map (fun o => map (IDeliver o) (bcast K (ab_g a) (ONext v))) (observers s))
             /\ observers s' = observers s /\ is_stopped s' = is_stopped s /\ is_disposed s' = is_disposed s
             /\ exception s' = exception s
             /\ match K with
                | KSubject => True
                | KBehavior => value s' = v
                | KAsync => value s' = v /\ has_value s' = true
                end.
Proof.
  intros HR Hg. unfold bcast, live. rewrite Hg.
  destruct K; cbn [cls_of c_next subject_cls behavior_cls async_cls];
    unfold subj_next, beh_next, async_next.
  - exists s. split; [|repeat split]. now rewrite <- flat_map_single.
  - exists (set_value v s). split; [|repeat split]. now rewrite <- flat_map_single.
  - exists (set_has_value true (set_value v s)). split; [|repeat split]. cbn [map]. now rewrite flat_map_empty.
Qed.

Lemma error_any (s : @sstate A) e :
  c_error C s e = (set_exception (Some e) (set_observers [] s),
                   flat_map (fun o => map (IDeliver o) [Err e]) (observers s)).
Proof. destruct K; cbn; unfold subj_error; now rewrite <- flat_map_single. Qed.

Lemma completed_when_live s m a :
  R s m a -> g_status (ab_g a) = Live ->
  c_completed C (set_stopped true s) =
    (set_observers [] (set_stopped true s),
     flat_map (fun o => map (IDeliver o) (bcast K (ab_g a) ODone)) (observers s)).
Proof.
  intros HR Hg. pose proof (R_val _ _ _ HR) as Hv. rewrite Hg in Hv. specialize (Hv ltac:(discriminate)).
  unfold bcast, live, final. rewrite Hg.
  destruct K; cbn [cls_of c_completed subject_cls behavior_cls async_cls];
    unfold subj_completed, async_completed; cbn [observers set_stopped has_value value].
  - now rewrite <- flat_map_single.
  - now rewrite <- flat_map_single.
  - destruct Hv as [Hv1 Hv2]. rewrite Hv1, Hv2. destruct (g_has (ab_g a)); [reflexivity|].
    now rewrite <- flat_map_single.
Qed.

Lemma bcast_dead (g : @gstate A) p : live g = false -> bcast K g p = [].
Proof. intros H. unfold bcast. now rewrite H. Qed.

Lemma g_step_dead (g : @gstate A) p : live g = false -> p <> ODispose -> g_step g p = g.
Proof. intros H Hp. destruct p; cbn; rewrite ?H; try reflexivity. congruence. Qed.

Lemma bcast_next_shape (g : @gstate A) v : exists vs, bcast K g (ONext v) = map Next vs.
Proof.
  unfold bcast. destruct (live g); [|exists []; reflexivity].
  destruct K; [exists [v]|exists [v]|exists []]; reflexivity.
Qed.

Lemma bcast_done_shape (g : @gstate A) :
  live g = true -> exists vs, bcast K g ODone = map Next vs ++ [Done].
Proof.
  intros H. unfold bcast, final. rewrite H.
  destruct K; try (exists []; reflexivity).
  destruct (g_has g); [exists [g_cur g]|exists []]; reflexivity.
Qed.

Lemma R_unstopped s m a o :
  R s m a -> In o (ab_subs a) -> exists os, m o = Some os /\ a_stopped os = false.
Proof. intros HR Hin. apply live_obs_unstopped. now apply (R_live _ _ _ HR). Qed.

(* an emission that arrives when the subject is ended or disposed *)
Lemma sim_emit_dead s m a p k l :
  R s m a -> is_emission p = true -> live (ab_g a) = false -> sim_goal s m a p k l.
Proof.
  intros HR Hp Hl. unfold sim_goal.
  assert (Hsub : ab_subs a = []) by now apply (R_dead _ _ _ HR).
  assert (Hspec : spec_op K a p =
          (a, match g_status (ab_g a) with Disposed => [ERaised disposed_exn] | _ => [] end)).
  { destruct a as [subs used g]. cbn [ab_subs ab_used ab_g] in *. subst subs.
    destruct p; try discriminate; unfold spec_op; cbn [ab_subs ab_used ab_g flat_map];
      rewrite g_step_dead by (assumption || discriminate); rewrite Hl, app_nil_r; reflexivity. }
  rewrite Hspec. cbn [fst snd]. exists s, m. split; [|exact HR].
  pose proof (R_status _ _ _ HR) as Hst. unfold live in Hl.
  apply reaches_step_eq. unfold Subject.step, step_op. cbn [c_k c_st c_obs c_rlog].
  destruct (g_status (ab_g a)) as [|t|]; [discriminate| |].
  - assert (Hf : is_stopped s = true /\ is_disposed s = false).
    { destruct t; [contradiction|tauto|tauto]. }
    destruct Hf as [Hf1 Hf2]. destruct p; try discriminate; rewrite Hf1, Hf2; reflexivity.
  - destruct p; try discriminate; rewrite Hst; reflexivity.
Qed.

Lemma sim_next s m a v k l : R s m a -> sim_goal s m a (ONext v) k l.
Proof.
  intros HR. destruct (live (ab_g a)) eqn:Hl; [|now apply sim_emit_dead].
  pose proof Hl as Hg. apply live_of_status in Hg.
  unfold sim_goal, spec_op. cbn [fst snd g_step]. rewrite Hl, Hg. cbn [live g_status app].
  destruct (next_when_live s m a v HR Hg) as [s' [Hn (N1&N2&N3&N4&N5)]].
  destruct (bcast_next_shape (ab_g a) v) as [vs Hvs]. rewrite Hvs in *.
  pose proof (R_status _ _ _ HR) as Hst. rewrite Hg in Hst. destruct Hst as (S1&S2&S3).
  destruct (deliver_all_nexts vs (observers s) s' m k (EOp (ONext v) :: l)) as [m' [Hr He]].
  { intros o Hin. rewrite (R_obs _ _ _ HR) in Hin. now apply (R_unstopped s m a). }
  exists s', m'. split.
  - eapply reaches_trans; [apply reaches_step_eq|].
    + unfold Subject.step, step_op. cbn [c_k c_st c_obs c_rlog]. rewrite S1, S2, Hn. reflexivity.
    + rewrite <- (R_obs _ _ _ HR). exact Hr.
  - apply (R_meqv s' m m'); [|exact He].
    destruct HR as [H1 H2 H3 H4 H5 H6 H7 H8]. constructor; cbn [ab_subs ab_used ab_g g_status g_cur g_has]; try assumption.
    + congruence.
    + rewrite N2, N3, N4. tauto.
    + cbn. discriminate.
    + intros _. destruct K; [exact I|exact N5|exact N5].
Qed.

Lemma sim_final s m a p k l (t : ev A) :
  R s m a -> live (ab_g a) = true ->
  ((exists e, p = OErr e /\ t = Err e) \/ (p = ODone /\ t = Done)) ->
  sim_goal s m a p k l.
Proof.
  intros HR Hl Hp. pose proof Hl as Hg. apply live_of_status in Hg.
  pose proof (R_status _ _ _ HR) as Hst. rewrite Hg in Hst. destruct Hst as (S1&S2&S3).
  assert (Hshape : exists vs, bcast K (ab_g a) p = map Next vs ++ [t] /\ is_terminal t = true).
  { destruct Hp as [[e [-> ->]]|[-> ->]].
    - exists []. unfold bcast. rewrite Hl. split; reflexivity.
    - destruct (bcast_done_shape (ab_g a) Hl) as [vs Hvs]. exists vs. split; [exact Hvs|reflexivity]. }
  destruct Hshape as [vs [Hvs Ht]].
  set (s1 := match t with Err e => set_exception (Some e) (set_observers [] (set_stopped true s))
                     | _ => set_observers [] (set_stopped true s) end).
  assert (Hstep : stepf (Cfg s m (IOp p :: k) l) =
                  Cfg s1 m (flat_map (fun o => map (IDeliver o) (map Next vs ++ [t])) (observers s) ++ k)
                      (EOp p :: l)).
  { unfold Subject.step, step_op. cbn [c_k c_st c_obs c_rlog].
    destruct Hp as [[e [-> ->]]|[-> ->]]; rewrite S1, S2.
    - rewrite error_any. cbn [observers set_stopped]. unfold bcast in Hvs. rewrite Hl in Hvs. rewrite <- Hvs. reflexivity.
    - rewrite (completed_when_live s m a HR Hg). rewrite Hvs. reflexivity. }
  assert (Hobs1 : observers s1 = []) by (unfold s1; destruct t; reflexivity).
  destruct (deliver_all_final vs t (observers s) s1 m k (EOp p :: l) Ht Hobs1) as [m' [Hr Hd]].
  { rewrite (R_obs _ _ _ HR). exact (R_nodup _ _ _ HR). }
  { intros o Hin. rewrite (R_obs _ _ _ HR) in Hin. now apply (R_unstopped s m a). }
  assert (Hg' : g_step (ab_g a) p = G (Ended t) (g_cur (ab_g a)) (g_has (ab_g a))).
  { destruct Hp as [[e [-> ->]]|[-> ->]]; cbn [g_step]; now rewrite Hl. }
  unfold sim_goal.
  assert (Hspec : spec_op K a p =
          (Abs [] (ab_used a) (G (Ended t) (g_cur (ab_g a)) (g_has (ab_g a))),
           flat_map (fun o => map (EGot o) (map Next vs ++ [t])) (ab_subs a))).
  { unfold spec_op. rewrite Hg', Hg, Hvs. cbn [live g_status app].
    destruct Hp as [[e [-> _]]|[-> _]]; reflexivity. }
  rewrite Hspec. cbn [fst snd].
  exists s1, m'. split.
  - eapply reaches_trans; [apply reaches_step_eq; exact Hstep|].
    rewrite <- (R_obs _ _ _ HR). exact Hr.
  - apply (R_mdom s1 m m'); [|reflexivity|exact Hd].
    destruct HR as [H1 H2 H3 H4 H5 H6 H7 H8]. constructor; cbn [ab_subs ab_used ab_g g_status g_cur g_has]; try assumption.
    + constructor.
    + intros o [].
    + unfold s1. destruct Hp as [[e [_ ->]]|[_ ->]]; cbn; repeat split; assumption.
    + reflexivity.
    + intros _. rewrite Hg in H8. specialize (H8 ltac:(discriminate)).
      unfold s1. destruct t; exact H8.
Qed.

Theorem sim_op s m a p k l : R s m a -> sim_goal s m a p k l.
Proof.
  intros HR. destruct p as [o|o|v|e| |].
  - now apply sim_sub.
  - now apply sim_unsub.
  - now apply sim_next.
  - destruct (live (ab_g a)) eqn:Hl; [|now apply sim_emit_dead].
    apply (sim_final s m a (OErr e) k l (Err e) HR Hl). left. exists e. split; reflexivity.
  - destruct (live (ab_g a)) eqn:Hl; [|now apply sim_emit_dead].
    apply (sim_final s m a ODone k l Done HR Hl). right. split; reflexivity.
  - now apply sim_dispose.
Qed.

(* ---- whole histories ---- *)
Lemma sim_history : forall h s m a l,
  R s m a ->
  exists s' m', reaches (Cfg s m (map IOp h) l) (Cfg s' m' [] (rev (spec_from K a h) ++ l)).
Proof.
  induction h as [|p h IH]; intros s m a l HR.
  - exists s, m. apply reaches_refl.
  - cbn [map spec_from]. destruct (sim_op s m a p (map IOp h) l HR) as [s1 [m1 [Hr1 HR1]]].
    destruct (spec_op K a p) as [a' out]. cbn [fst snd] in *.
    destruct (IH s1 m1 a' (rev out ++ EOp p :: l) HR1) as [s2 [m2 Hr2]].
    exists s2, m2. eapply reaches_trans; [exact Hr1|].
    replace (rev (EOp p :: out ++ spec_from K a' h) ++ l)
      with (rev (spec_from K a' h) ++ rev out ++ EOp p :: l); [exact Hr2|].
    cbn [rev]. rewrite rev_app_distr, <- !app_assoc. reflexivity.
Qed.

Lemma R_init v0 : R (init_state v0) (fun _ => None) (Abs [] [] (g_init v0)).
Proof.
  constructor; cbn; try reflexivity; try tauto.
  - constructor.
  - intros o os H. discriminate.
  - intros _. destruct K; [exact I|reflexivity|split; reflexivity].
Qed.

(* C20/C21/C23, refinement: on every history of top-level calls the class
   produces exactly the log of the abstract broadcast specification, and the run
   terminates (for all sufficiently large fuel) *)
Theorem refines_spec (v0 : A) (h : list (@op A)) :
  exists fuel0, forall fuel, (fuel0 <= fuel)%nat ->
    run_history C v0 fuel (h, []) = (spec K v0 h, true).
Proof.
  destruct (sim_history h (init_state v0) (fun _ => None) (Abs [] [] (g_init v0)) [] (R_init v0))
    as [s' [m' [n Hn]]].
  exists n. intros fuel Hle. unfold run_history. cbn [fst snd].
  change (run C (react_tbl []) fuel (init_cfg v0 h)) with (runf fuel (init_cfg v0 h)).
  replace fuel with (n + (fuel - n))%nat by lia. rewrite run_add.
  unfold init_cfg. rewrite Hn. rewrite run_done by reflexivity.
  unfold log_of, finished, spec. cbn [c_rlog c_k]. now rewrite app_nil_r, rev_involutive.
Qed.

End Flat.

(* ---- the specification seen by one observer ---- *)
Section View.
Context {A : Type} (K : kind).

Definition phase_of (a : @abs A) (o : nat) : phase :=
  if mem o (ab_subs a) then Active else if mem o (ab_used a) then Gone else Before.

Record WF (a : @abs A) : Prop := {
  WF_nodup : NoDup (ab_subs a);
  WF_used : forall o, In o (ab_subs a) -> mem o (ab_used a) = true;
  WF_dead : live (ab_g a) = false -> ab_subs a = [] }.

Lemma view_map_same o (l : list (ev A)) : view o (map (EGot o) l) = l.
Proof. induction l as [|n t IH]; cbn; [reflexivity|]. now rewrite Nat.eqb_refl, IH. Qed.

Lemma view_map_other o o' (l : list (ev A)) : o' <> o -> view o (map (EGot o') l) = [].
Proof.
  intros H. induction l as [|n t IH]; cbn; [reflexivity|].
  destruct (Nat.eqb o' o) eqn:E; [apply Nat.eqb_eq in E; contradiction|exact IH].
Qed.

Lemma view_flat_map o (N : list (ev A)) : forall L, NoDup L ->
  view o (flat_map (fun o2 => map (EGot o2) N) L) = if mem o L then N else [].
Proof.
  induction L as [|x L IH]; intros Hnd; [reflexivity|].
  inversion Hnd as [|? ? Hnin Hnd']; subst. cbn [flat_map]. rewrite view_app, (IH Hnd').
  unfold mem. cbn [existsb]. destruct (Nat.eqb o x) eqn:E.
  - apply Nat.eqb_eq in E. subst x. rewrite view_map_same.
    replace (existsb (Nat.eqb o) L) with false; [now rewrite app_nil_r|].
    symmetry. apply (mem_false o L). exact Hnin.
  - apply Nat.eqb_neq in E. rewrite view_map_other by congruence. reflexivity.
Qed.

Lemma oview_gone o (g : @gstate A) h : oview K o Gone g h = [].
Proof. destruct h; reflexivity. Qed.

Lemma mem_app o l1 l2 : mem o (l1 ++ l2) = mem o l1 || mem o l2.
Proof. unfold mem. apply existsb_app. Qed.

Lemma mem_remove1_same o l : NoDup l -> mem o (remove1 o l) = false.
Proof. intros H. apply mem_false. rewrite (In_remove1 o l o H). tauto. Qed.

Lemma mem_remove1_other o o' l : NoDup l -> o <> o' -> mem o (remove1 o' l) = mem o l.
Proof.
  intros H Hne. destruct (mem o l) eqn:E.
  - apply mem_In. apply mem_In in E. apply (In_remove1 o' l o H). tauto.
  - apply mem_false. apply mem_false in E. rewrite (In_remove1 o' l o H). tauto.
Qed.

Lemma bcast_nonemission (g : @gstate A) p : is_emission p = false -> bcast K g p = [].
Proof. intros H. unfold bcast. destruct (live g); [|reflexivity]. destruct p; try discriminate; reflexivity. Qed.

Lemma spec_op_g (a : @abs A) p : ab_g (fst (spec_op K a p)) = g_step (ab_g a) p.
Proof.
  unfold spec_op. destruct p; cbn [fst ab_g g_step]; try reflexivity.
  destruct (mem o (ab_used a)); reflexivity.
Qed.

Lemma WF_step (a : @abs A) p : WF a -> WF (fst (spec_op K a p)).
Proof.
  intros [H1 H2 H3]. unfold spec_op. destruct p as [o|o|v|e| |]; cbn [fst].
  - destruct (mem o (ab_used a)) eqn:Hu; cbn [fst]; [constructor; assumption|].
    constructor; cbn [ab_subs ab_used ab_g].
    + destruct (live (ab_g a)); [|exact H1]. apply NoDup_app_single; [exact H1|].
      intros Hin. rewrite (H2 o Hin) in Hu. discriminate.
    + intros o2 Hin. destruct (Nat.eq_dec o2 o) as [->|Hne]; [apply mem_cons_same|].
      rewrite mem_cons_other by exact Hne. apply H2.
      destruct (live (ab_g a)); [|exact Hin]. apply in_app_or in Hin. destruct Hin as [Hin|[<-|[]]]; [exact Hin|congruence].
    + intros Hl. rewrite Hl. now apply H3.
  - constructor; cbn [ab_subs ab_used ab_g].
    + now apply NoDup_remove1.
    + intros o2 Hin. apply (In_remove1 o _ o2 H1) in Hin. apply H2. tauto.
    + intros Hl. rewrite (H3 Hl). reflexivity.
  - constructor; cbn [ab_subs ab_used ab_g].
    + match goal with |- context [if ?b then ab_subs a else []] => destruct b end; [exact H1|constructor].
    + intros o2 Hin. match type of Hin with context [if ?b then ab_subs a else []] => destruct b end;
        [now apply H2|destruct Hin].
    + intros Hl. now rewrite Hl.
  - constructor; cbn [ab_subs ab_used ab_g].
    + match goal with |- context [if ?b then ab_subs a else []] => destruct b end; [exact H1|constructor].
    + intros o2 Hin. match type of Hin with context [if ?b then ab_subs a else []] => destruct b end;
        [now apply H2|destruct Hin].
    + intros Hl. now rewrite Hl.
  - constructor; cbn [ab_subs ab_used ab_g].
    + match goal with |- context [if ?b then ab_subs a else []] => destruct b end; [exact H1|constructor].
    + intros o2 Hin. match type of Hin with context [if ?b then ab_subs a else []] => destruct b end;
        [now apply H2|destruct Hin].
    + intros Hl. now rewrite Hl.
  - constructor; cbn [ab_subs ab_used ab_g]; [constructor|intros o2 []|reflexivity].
Qed.

Lemma view_raised o (g : @gstate A) :
  view o (match g_status g with Disposed => [@ERaised A disposed_exn] | _ => [] end) = [].
Proof. destruct (g_status g); reflexivity. Qed.

Lemma observer_view_from o : forall h (a : @abs A), WF a ->
  view o (spec_from K a h) = oview K o (phase_of a o) (ab_g a) h.
Proof.
  induction h as [|p h IH]; intros a Hwf; [reflexivity|].
  cbn [spec_from]. pose proof (IH (fst (spec_op K a p)) (WF_step a p Hwf)) as IHp.
  rewrite spec_op_g in IHp. destruct (spec_op K a p) as [a' out] eqn:Hs. cbn [fst] in IHp.
  cbn [view]. rewrite view_app, IHp. clear IHp IH.
  destruct Hwf as [H1 H2 H3].
  assert (Hact : mem o (ab_subs a) = true -> live (ab_g a) = true).
  { intros Hm. destruct (live (ab_g a)) eqn:E; [reflexivity|]. rewrite (H3 eq_refl) in Hm. discriminate. }
  assert (Hsu : mem o (ab_subs a) = true -> mem o (ab_used a) = true).
  { intros Hm. apply H2. now apply mem_In. }
  unfold spec_op in Hs. destruct p as [o'|o'|v|e| |].
  - (* OSub *)
    destruct (mem o' (ab_used a)) eqn:Hu; injection Hs as <- <-.
    + cbn [view app oview]. unfold phase_of at 2. unfold phase_of.
      destruct (mem o (ab_subs a)) eqn:Ms.
      * rewrite bcast_nonemission by reflexivity. cbn [g_step app]. now rewrite (Hact eq_refl).
      * destruct (mem o (ab_used a)) eqn:Mu; [now rewrite oview_gone|].
        destruct (Nat.eqb o' o) eqn:E; [apply Nat.eqb_eq in E; subst; congruence|reflexivity].
    + cbn [oview g_step]. unfold phase_of. cbn [ab_subs ab_used ab_g].
      destruct (Nat.eqb o' o) eqn:E.
      * apply Nat.eqb_eq in E. subst o'. rewrite view_map_same.
        assert (Ms : mem o (ab_subs a) = false).
        { destruct (mem o (ab_subs a)) eqn:Ms; [|reflexivity]. rewrite (Hsu eq_refl) in Hu. discriminate. }
        rewrite Ms, Hu. f_equal. destruct (live (ab_g a)).
        -- now rewrite mem_app, Ms, mem_cons_same.
        -- now rewrite Ms, mem_cons_same.
      * apply Nat.eqb_neq in E. rewrite view_map_other by exact E. cbn [app].
        assert (Ms : mem o (if live (ab_g a) then ab_subs a ++ [o'] else ab_subs a) = mem o (ab_subs a)).
        { destruct (live (ab_g a)); [|reflexivity]. rewrite mem_app. unfold mem at 2. cbn.
          destruct (Nat.eqb o o') eqn:E2; [apply Nat.eqb_eq in E2; congruence|]. now rewrite !orb_false_r. }
        rewrite Ms, mem_cons_other by congruence.
        destruct (mem o (ab_subs a)) eqn:Ms2.
        -- rewrite bcast_nonemission by reflexivity. cbn [app]. now rewrite (Hact eq_refl).
        -- destruct (mem o (ab_used a)); [now rewrite oview_gone|reflexivity].
  - (* OUnsub *)
    injection Hs as <- <-. cbn [view app oview g_step]. unfold phase_of. cbn [ab_subs ab_used ab_g].
    destruct (Nat.eqb o' o) eqn:E.
    + apply Nat.eqb_eq in E. subst o'. rewrite (mem_remove1_same o _ H1).
      destruct (mem o (ab_subs a)) eqn:Ms.
      * rewrite (Hsu eq_refl). now rewrite oview_gone.
      * destruct (mem o (ab_used a)); [now rewrite oview_gone|reflexivity].
    + apply Nat.eqb_neq in E. rewrite (mem_remove1_other o o' _ H1) by congruence.
      destruct (mem o (ab_subs a)); [reflexivity|].
      destruct (mem o (ab_used a)); [now rewrite oview_gone|reflexivity].
  - (* ONext *)
    injection Hs as <- <-. rewrite view_app, view_raised, (view_flat_map o _ _ H1). cbn [app].
    unfold phase_of. cbn [ab_subs ab_used ab_g oview g_step].
    destruct (mem o (ab_subs a)) eqn:Ms.
    + rewrite (Hact eq_refl). cbn [live g_status]. rewrite ?Ms. cbn [mem existsb].
      rewrite ?(Hsu eq_refl), ?oview_gone. reflexivity.
    + destruct (live (ab_g a)) eqn:Hl; cbn [live g_status]; rewrite ?Hl, ?Ms; cbn [mem existsb];
        (destruct (mem o (ab_used a)); [now rewrite ?oview_gone|reflexivity]).
  - (* OErr *)
    injection Hs as <- <-. rewrite view_app, view_raised, (view_flat_map o _ _ H1). cbn [app].
    unfold phase_of. cbn [ab_subs ab_used ab_g oview g_step].
    destruct (mem o (ab_subs a)) eqn:Ms.
    + rewrite (Hact eq_refl). cbn [live g_status]. rewrite ?Ms. cbn [mem existsb].
      rewrite ?(Hsu eq_refl), ?oview_gone. reflexivity.
    + destruct (live (ab_g a)) eqn:Hl; cbn [live g_status]; rewrite ?Hl, ?Ms; cbn [mem existsb];
        (destruct (mem o (ab_used a)); [now rewrite ?oview_gone|reflexivity]).
  - (* ODone *)
    injection Hs as <- <-. rewrite view_app, view_raised, (view_flat_map o _ _ H1). cbn [app].
    unfold phase_of. cbn [ab_subs ab_used ab_g oview g_step].
    destruct (mem o (ab_subs a)) eqn:Ms.
    + rewrite (Hact eq_refl). cbn [live g_status]. rewrite ?Ms. cbn [mem existsb].
      rewrite ?(Hsu eq_refl), ?oview_gone. reflexivity.
    + destruct (live (ab_g a)) eqn:Hl; cbn [live g_status]; rewrite ?Hl, ?Ms; cbn [mem existsb];
        (destruct (mem o (ab_used a)); [now rewrite ?oview_gone|reflexivity]).
  - (* ODispose *)
    injection Hs as <- <-. cbn [view app oview]. unfold phase_of. cbn [ab_subs ab_used ab_g].
    change (mem o []) with false. cbv iota.
    destruct (mem o (ab_subs a)) eqn:Ms.
    + rewrite (Hsu eq_refl), oview_gone. rewrite bcast_nonemission by reflexivity. reflexivity.
    + destruct (mem o (ab_used a)); [now rewrite oview_gone|reflexivity].
Qed.

(* what observer o receives according to the specification is exactly:
   nothing before its subscribe call, the greeting, then every call made while
   it is subscribed, until it unsubscribes / the subject ends or is disposed *)
Theorem observer_view (v0 : A) (h : list (@op A)) (o : nat) :
  view o (spec K v0 h) = oview K o Before (g_init v0) h.
Proof.
  unfold spec. rewrite observer_view_from; [reflexivity|].
  constructor; cbn; [constructor|intros o2 []|reflexivity].
Qed.
End View.

(* both steps together: the class itself, seen by one observer *)
Theorem class_observer_view {A} (pynone : A) (K : kind) (v0 : A) (h : list (@op A)) :
  exists fuel0, forall fuel, (fuel0 <= fuel)%nat ->
    snd (run_history (cls_of pynone K) v0 fuel (h, [])) = true /\
    forall o, view o (fst (run_history (cls_of pynone K) v0 fuel (h, []))) = oview K o Before (g_init v0) h.
Proof.
  destruct (refines_spec pynone K v0 h) as [f0 H]. exists f0. intros fuel Hle.
  rewrite (H fuel Hle). cbn [fst snd]. split; [reflexivity|]. intros o. apply observer_view.
Qed.

(* ---- after dispose(): arbitrary call trees, arbitrary reactions ---- *)
Section Disposed.
Context {A : Type} (pynone : A) (K : kind) (react : nat -> nat -> list (@op A)).
Notation C := (cls_of pynone K).

(* emitting raises DisposedException and reaches nobody (any class: the check is Subject.on_next/on_error/on_completed) *)
Theorem disposed_emit_raises (s : @sstate A) m k l p :
  is_disposed s = true -> is_emission p = true ->
  step C react (Cfg s m (IOp p :: k) l) = Cfg s m k (ERaised disposed_exn :: EOp p :: l).
Proof.
  intros Hd Hp. unfold step, step_op. cbn [c_k c_st c_obs c_rlog].
  destruct p; try discriminate; now rewrite Hd.
Qed.

(* subscribing is answered with DisposedException (handed to the subscriber's
   on_error by Observable.subscribe) and registers nobody *)
Theorem disposed_subscribe_fails (s : @sstate A) m k l o :
  is_disposed s = true -> m o = None ->
  step C react (Cfg s m (IOp (OSub o) :: k) l) =
  Cfg s (upd m o (called true fresh_ostate)) (map IOp (react o 0) ++ ISubRet o None :: k)
      (EGot o (Err disposed_exn) :: EOp (OSub o) :: l).
Proof.
  intros Hd Hm. unfold step, step_op. cbn [c_k c_st c_obs c_rlog]. rewrite Hm.
  replace (c_subscribe C s o) with (@None (@sstate A * list (@instr A) * subscription)); [reflexivity|].
  destruct K; cbn; unfold subj_subscribe, beh_subscribe, async_subscribe; now rewrite Hd.
Qed.

Lemma inner_dispose_disposed (s : @sstate A) os o :
  is_disposed (fst (inner_dispose s os o)) = is_disposed s.
Proof.
  unfold inner_dispose. destruct (negb (is_disposed s) && inner_obs os); [|reflexivity].
  destruct (mem o (observers s)); reflexivity.
Qed.

Lemma ado_dispose_disposed_flag (s : @sstate A) os o :
  is_disposed (fst (ado_dispose s os o)) = is_disposed s.
Proof.
  unfold ado_dispose. cbn [sad_disposed sad_cur a_stopped inner_obs handle calls].
  destruct (sad_disposed os); [reflexivity|].
  destruct (sad_cur os) as [[|]|]; cbn [sub_dispose fst]; try reflexivity. apply inner_dispose_disposed.
Qed.

Lemma sad_set_disposed_flag sub (s : @sstate A) os o :
  is_disposed (fst (sad_set sub s os o)) = is_disposed s.
Proof.
  unfold sad_set. destruct (sad_disposed os); [|reflexivity].
  destruct sub; cbn [sub_dispose fst]; [apply inner_dispose_disposed|reflexivity].
Qed.

Lemma disposed_step c : is_disposed (c_st c) = true -> is_disposed (c_st (step C react c)) = true.
Proof.
  destruct c as [s m k l]. cbn [c_st]. intros Hd. unfold step. cbn [c_k c_st c_obs c_rlog].
  destruct k as [|i k]; [exact Hd|]. destruct i as [p|o n|o|o sub].
  - unfold step_op. destruct p as [o|o|v|e| |].
    + destruct (m o); [exact Hd|].
      replace (c_subscribe C s o) with (@None (@sstate A * list (@instr A) * subscription)); [exact Hd|].
      destruct K; cbn; unfold subj_subscribe, beh_subscribe, async_subscribe; now rewrite Hd.
    + destruct (m o) as [os|]; [|exact Hd]. destruct (handle os); [|exact Hd].
      destruct (ado_dispose s os o) as [s' os'] eqn:E. cbn [c_st].
      change s' with (fst (s', os')). rewrite <- E, ado_dispose_disposed_flag. exact Hd.
    + now rewrite Hd.
    + now rewrite Hd.
    + now rewrite Hd.
    + cbn [c_st]. destruct K; reflexivity.
  - destruct (m o) as [os|]; [|exact Hd]. destruct (a_stopped os); [exact Hd|]. destruct n; exact Hd.
  - destruct (m o) as [os|]; [|exact Hd].
    destruct (ado_dispose s os o) as [s' os'] eqn:E. cbn [c_st].
    change s' with (fst (s', os')). rewrite <- E, ado_dispose_disposed_flag. exact Hd.
  - destruct (m o) as [os|]; [|exact Hd]. destruct sub as [sb|]; [|exact Hd].
    destruct (sad_set sb s os o) as [s' os'] eqn:E. cbn [c_st].
    change s' with (fst (s', os')). rewrite <- E, sad_set_disposed_flag. exact Hd.
Qed.

Theorem disposed_forever n c :
  is_disposed (c_st c) = true -> is_disposed (c_st (run C react n c)) = true.
Proof. intros H. apply (run_ind C react (fun c => is_disposed (c_st c) = true)); [apply disposed_step|exact H]. Qed.

Theorem dispose_disposes (s : @sstate A) m k l :
  let c' := step C react (Cfg s m (IOp ODispose :: k) l) in
  is_disposed (c_st c') = true /\ observers (c_st c') = [].
Proof. cbn. destruct K; split; reflexivity. Qed.
End Disposed.

(* ---- reading the per-observer specification: the clauses of C20, C21, C23 ---- *)
Section Readings.
Context {A : Type}.

Fixpoint g_run (g : @gstate A) (h : list (@op A)) : gstate :=
  match h with [] => g | p :: t => g_run (g_step g p) t end.

Definition no_sub (o : nat) (h : list (@op A)) : Prop := forall p, In p h -> p <> OSub o.

(* before its subscribe call an observer receives nothing *)
Lemma oview_before_skip K o : forall pre (g : @gstate A) rest,
  no_sub o pre -> oview K o Before g (pre ++ rest) = oview K o Before (g_run g pre) rest.
Proof.
  induction pre as [|p pre IH]; intros g rest H; [reflexivity|].
  cbn [app oview g_run].
  assert (Hpre : no_sub o pre) by (intros q Hq; apply H; now right).
  destruct p as [o'| | | | |]; try (apply IH; exact Hpre).
  destruct (Nat.eqb o' o) eqn:E; [|apply IH; exact Hpre].
  apply Nat.eqb_eq in E. subst o'. exfalso. apply (H (OSub o)); [now left|reflexivity].
Qed.

(* subscribing to a live subject: the greeting, then the observer is Active;
   to an ended or disposed subject: the greeting and nothing else, ever *)
Lemma oview_subscribe K o (g : @gstate A) h :
  oview K o Before g (OSub o :: h) =
  greet K g ++ (if live g then oview K o Active g h else []).
Proof.
  cbn [oview g_step]. rewrite Nat.eqb_refl. destruct (live g); [reflexivity|]. now rewrite oview_gone.
Qed.

Lemma late_subscriber K o (g : @gstate A) h :
  live g = false -> oview K o Before g (OSub o :: h) = greet K g.
Proof. intros H. rewrite oview_subscribe, H. apply app_nil_r. Qed.

Lemma greet_ended_subject (g : @gstate A) t : g_status g = Ended t -> greet KSubject g = [t].
Proof. intros H. unfold greet. rewrite H. destruct t; reflexivity. Qed.

Lemma greet_ended_behavior (g : @gstate A) t : g_status g = Ended t -> greet KBehavior g = [t].
Proof. intros H. unfold greet. rewrite H. destruct t; reflexivity. Qed.

Lemma greet_ended K (g : @gstate A) t :
  g_status g = Ended t ->
  greet K g = match K, t with KAsync, Done => final g | _, _ => [t] end.
Proof. intros H. unfold greet. rewrite H. destruct t, K; reflexivity. Qed.

Lemma greet_disposed K (g : @gstate A) : g_status g = Disposed -> greet K g = [Err disposed_exn].
Proof. intros H. unfold greet. now rewrite H. Qed.

(* the value a BehaviorSubject holds: the last on_next value, or the initial one *)
Fixpoint last_next (v : A) (h : list (@op A)) : A :=
  match h with
  | [] => v
  | ONext x :: t => last_next x t
  | _ :: t => last_next v t
  end.

Lemma g_run_live_cur : forall h (g : @gstate A),
  live (g_run g h) = true -> live g = true /\ g_cur (g_run g h) = last_next (g_cur g) h.
Proof.
  induction h as [|p h IH]; intros g H; [split; [exact H|reflexivity]|].
  cbn [g_run] in *. destruct (IH _ H) as [Hl Hc]. rewrite Hc.
  destruct p as [o|o|v|e| |]; cbn [g_step last_next] in *.
  - split; [exact Hl|reflexivity].
  - split; [exact Hl|reflexivity].
  - destruct (live g) eqn:E; [split; reflexivity|]. rewrite E in Hl. discriminate.
  - destruct (live g) eqn:E; [discriminate|congruence].
  - destruct (live g) eqn:E; [discriminate|congruence].
  - discriminate.
Qed.

(* C21: a new subscriber of a live BehaviorSubject first receives the current value *)
Theorem behavior_greeting (v0 : A) o pre h :
  no_sub o pre -> live (g_run (g_init v0) pre) = true ->
  oview KBehavior o Before (g_init v0) (pre ++ OSub o :: h) =
  Next (last_next v0 pre) :: oview KBehavior o Active (g_run (g_init v0) pre) h.
Proof.
  intros Hns Hl. rewrite oview_before_skip by exact Hns. rewrite oview_subscribe, Hl.
  destruct (g_run_live_cur pre (g_init v0) Hl) as [_ Hc]. cbn [g_init g_cur] in Hc.
  unfold greet. apply live_of_status in Hl. rewrite Hl. cbn. now rewrite Hc.
Qed.

(* C23: while the AsyncSubject is live nothing is delivered *)
Definition no_end (h : list (@op A)) : Prop :=
  forall p, In p h -> match p with OErr _ | ODone | ODispose => False | _ => True end.

Lemma g_run_no_end : forall h (g : @gstate A), no_end h -> live g = true -> live (g_run g h) = true.
Proof.
  induction h as [|p h IH]; intros g H Hl; [exact Hl|].
  cbn [g_run]. apply IH; [intros q Hq; apply H; now right|].
  specialize (H p (or_introl eq_refl)). destruct p; cbn [g_step]; try exact Hl; try contradiction.
  now rewrite Hl.
Qed.

Theorem async_silent_until_end o : forall h (g : @gstate A) ph,
  no_end h -> live g = true -> oview KAsync o ph g h = [].
Proof.
  induction h as [|p h IH]; intros g ph H Hl; [reflexivity|].
  assert (Hh : no_end h) by (intros q Hq; apply H; now right).
  specialize (H p (or_introl eq_refl)).
  assert (Hl' : live (g_step g p) = true).
  { destruct p; cbn [g_step]; try exact Hl; try contradiction. now rewrite Hl. }
  cbn [oview]. destruct ph.
  - destruct p as [o'| | | | |]; try (apply IH; assumption).
    destruct (Nat.eqb o' o); [|apply IH; assumption].
    unfold greet. rewrite Hl. apply live_of_status in Hl. rewrite Hl. cbn [app]. apply IH; assumption.
  - destruct p as [o'|o'|v|e| |]; try contradiction.
    + rewrite bcast_nonemission by reflexivity. rewrite Hl'. apply IH; assumption.
    + destruct (Nat.eqb o' o); [reflexivity|apply IH; assumption].
    + unfold bcast. rewrite Hl, Hl'. apply IH; assumption.
  - reflexivity.
Qed.

(* C23: on completion a current subscriber gets the last value (if any) then
   completion, on error only the error; afterwards nothing *)
Lemma oview_active_end K o (g : @gstate A) p h :
  live g = true -> (match p with OErr _ | ODone => True | _ => False end) ->
  oview K o Active g (p :: h) = bcast K g p.
Proof.
  intros Hl Hp. cbn [oview]. destruct p; try contradiction; cbn [g_step]; rewrite Hl; cbn [live g_status];
    now rewrite app_nil_r.
Qed.
End Readings.

(* ---- arbitrary call trees: a subscribed observer stays registered ---- *)
Section Registered.
Context {A : Type} (pynone : A) (K : kind) (react : nat -> nat -> list (@op A)).
Notation C := (cls_of pynone K).

Definition subject_live (s : @sstate A) : Prop := is_stopped s = false /\ is_disposed s = false.

Record Reg (c : @cfg A) : Prop := {
  reg_nodup : NoDup (observers (c_st c));
  reg_dom : forall o, In o (observers (c_st c)) -> c_obs c o <> None;
  reg_in : forall o os, c_obs c o = Some os -> a_stopped os = false -> subject_live (c_st c) ->
           In o (observers (c_st c));
  reg_sad : forall o os, c_obs c o = Some os -> sad_disposed os = true -> a_stopped os = true }.

Lemma subscribe_cases (s : @sstate A) o s' is sub :
  c_subscribe C s o = Some (s', is, sub) ->
  (observers s' = observers s ++ [o] /\ is_stopped s' = is_stopped s /\ is_disposed s' = is_disposed s) \/
  (s' = s /\ is_stopped s = true).
Proof.
  destruct K; cbn; unfold subj_subscribe, beh_subscribe, async_subscribe;
    destruct (is_disposed s) eqn:Ed; try discriminate; destruct (is_stopped s) eqn:Es; cbn [negb].
  all: first [ intros [= <- _ _]; left; cbn; repeat split; assumption
             | destruct (exception s); try destruct (has_value s); intros [= <- _ _]; right; split; reflexivity ].
Qed.

Lemma next_keeps (s : @sstate A) v :
  observers (fst (c_next C s v)) = observers s /\ is_stopped (fst (c_next C s v)) = is_stopped s /\
  is_disposed (fst (c_next C s v)) = is_disposed s.
Proof. destruct K; cbn; repeat split. Qed.

Lemma error_stops (s : @sstate A) e :
  observers (fst (c_error C (set_stopped true s) e)) = [] /\ is_stopped (fst (c_error C (set_stopped true s) e)) = true.
Proof. destruct K; cbn; split; reflexivity. Qed.

Lemma completed_stops (s : @sstate A) :
  observers (fst (c_completed C (set_stopped true s))) = [] /\
  is_stopped (fst (c_completed C (set_stopped true s))) = true.
Proof. destruct K; cbn; split; reflexivity. Qed.

Lemma dispose_stops (s : @sstate A) : observers (c_dispose C s) = [] /\ is_disposed (c_dispose C s) = true.
Proof. destruct K; cbn; split; reflexivity. Qed.

Lemma inner_dispose_cases (s : @sstate A) os o :
  (fst (inner_dispose s os o) = s \/
   fst (inner_dispose s os o) = set_observers (remove1 o (observers s)) s) /\
  a_stopped (snd (inner_dispose s os o)) = a_stopped os /\
  sad_disposed (snd (inner_dispose s os o)) = sad_disposed os.
Proof.
  unfold inner_dispose. destruct (negb (is_disposed s) && inner_obs os); [|repeat split; now left].
  destruct (mem o (observers s)); repeat split; [now right|now left].
Qed.

Lemma ado_dispose_cases (s : @sstate A) os o :
  (fst (ado_dispose s os o) = s \/ fst (ado_dispose s os o) = set_observers (remove1 o (observers s)) s) /\
  a_stopped (snd (ado_dispose s os o)) = true.
Proof.
  split; [|apply ado_dispose_stopped].
  unfold ado_dispose. cbn [sad_disposed sad_cur a_stopped inner_obs handle calls].
  destruct (sad_disposed os); [now left|]. destruct (sad_cur os) as [[|]|]; cbn [sub_dispose fst]; try now left.
  apply inner_dispose_cases.
Qed.

(* a change of the subject state that keeps the flags and removes at most o from
   the observer list, together with stopping o's wrapper, preserves Reg *)
Lemma Reg_remove s m k l s' os' k' l' o :
  Reg (Cfg s m k l) -> (exists os, m o = Some os) ->
  (s' = s \/ s' = set_observers (remove1 o (observers s)) s) ->
  a_stopped os' = true ->
  Reg (Cfg s' (upd m o os') k' l').
Proof.
  intros [R1 R2 R3 R4] [os0 Hm0] Hs Hst. cbn [c_st c_obs] in *.
  assert (Hfl : is_stopped s' = is_stopped s /\ is_disposed s' = is_disposed s).
  { destruct Hs as [->| ->]; split; reflexivity. }
  assert (Hin : forall x, x <> o -> In x (observers s) -> In x (observers s')).
  { intros x Hne Hx. destruct Hs as [->| ->]; [exact Hx|]. cbn. apply (In_remove1 o _ x R1). tauto. }
  assert (Hsub : forall x, In x (observers s') -> In x (observers s)).
  { intros x. destruct Hs as [->| ->]; [tauto|]. cbn. intros H. apply (In_remove1 o _ x R1) in H. tauto. }
  constructor; cbn [c_st c_obs].
  - destruct Hs as [->| ->]; [exact R1|cbn; now apply NoDup_remove1].
  - intros x Hx. unfold upd. destruct (Nat.eqb x o); [discriminate|]. apply R2. now apply Hsub.
  - intros x osx. unfold upd. destruct (Nat.eqb x o) eqn:E.
    + intros [= <-]. congruence.
    + apply Nat.eqb_neq in E. intros Hm Ha [L1 L2]. apply (Hin x E). apply (R3 x osx Hm Ha).
      destruct Hfl as [F1 F2]. split; congruence.
  - intros x osx. unfold upd. destruct (Nat.eqb x o); [intros [= <-] _; exact Hst|apply R4].
Qed.

Lemma Reg_upd_keep s m k l os os' k' l' o :
  Reg (Cfg s m k l) -> m o = Some os ->
  (a_stopped os' = false -> a_stopped os = false) -> (sad_disposed os' = true -> a_stopped os' = true) ->
  Reg (Cfg s (upd m o os') k' l').
Proof.
  intros [R1 R2 R3 R4] Hm Ha Hd. cbn [c_st c_obs] in *. constructor; cbn [c_st c_obs].
  - exact R1.
  - intros x Hx. unfold upd. destruct (Nat.eqb x o); [discriminate|]. now apply R2.
  - intros x osx. unfold upd. destruct (Nat.eqb x o) eqn:E; [|apply R3].
    apply Nat.eqb_eq in E. subst x. intros [= <-] Hs. apply (R3 o os Hm). now apply Ha.
  - intros x osx. unfold upd. destruct (Nat.eqb x o); [intros [= <-]; exact Hd|apply R4].
Qed.

Lemma Reg_state s m k l s' k' l' :
  Reg (Cfg s m k l) -> NoDup (observers s') -> (forall x, In x (observers s') -> In x (observers s)) ->
  (subject_live s' -> subject_live s /\ forall x, In x (observers s) -> In x (observers s')) ->
  Reg (Cfg s' m k' l').
Proof.
  intros [R1 R2 R3 R4] Hnd Hsub Hl. cbn [c_st c_obs] in *. constructor; cbn [c_st c_obs].
  - exact Hnd.
  - intros x Hx. apply R2. now apply Hsub.
  - intros x osx Hm Ha Hlive. destruct (Hl Hlive) as [L Hin]. apply Hin. now apply (R3 x osx Hm Ha).
  - exact R4.
Qed.

Theorem Reg_step c : Reg c -> Reg (step C react c).
Proof.
  destruct c as [s m k l]. intros R. unfold step. cbn [c_k c_st c_obs c_rlog].
  destruct k as [|i k]; [exact R|]. destruct i as [p|o n|o|o sub].
  - unfold step_op. destruct p as [o|o|v|e| |].
    + destruct (m o) as [os|] eqn:Hm.
      { eapply (Reg_state s m _ l s); [exact R|exact (reg_nodup _ R)|tauto|tauto]. }
      destruct (c_subscribe C s o) as [[[s' is] sub]|] eqn:Es.
      * destruct (subscribe_cases s o s' is sub Es) as [(Ho & F1 & F2)|[-> Hst]].
        -- destruct R as [R1 R2 R3 R4]. cbn [c_st c_obs] in *. constructor; cbn [c_st c_obs].
           ++ rewrite Ho. apply NoDup_app_single; [exact R1|]. intros Hin. exact (R2 o Hin Hm).
           ++ intros x. rewrite Ho. intros Hx. unfold upd. destruct (Nat.eqb x o) eqn:E; [discriminate|].
              apply in_app_or in Hx. destruct Hx as [Hx|[<-|[]]]; [now apply R2|].
              rewrite Nat.eqb_refl in E. discriminate.
           ++ intros x osx. rewrite Ho. unfold upd. destruct (Nat.eqb x o) eqn:E.
              ** apply Nat.eqb_eq in E. subst x. intros _ _ _. apply in_or_app. right. now left.
              ** intros Hx Ha [L1 L2]. apply in_or_app. left. apply (R3 x osx Hx Ha). split; congruence.
           ++ intros x osx. unfold upd. destruct (Nat.eqb x o); [intros [= <-]; discriminate|apply R4].
        -- destruct R as [R1 R2 R3 R4]. cbn [c_st c_obs] in *. constructor; cbn [c_st c_obs].
           ++ exact R1.
           ++ intros x Hx. unfold upd. destruct (Nat.eqb x o); [discriminate|]. now apply R2.
           ++ intros x osx. unfold upd. destruct (Nat.eqb x o).
              ** intros _ _ [L1 _]. congruence.
              ** apply R3.
           ++ intros x osx. unfold upd. destruct (Nat.eqb x o); [intros [= <-]; discriminate|apply R4].
      * destruct R as [R1 R2 R3 R4]. cbn [c_st c_obs] in *. constructor; cbn [c_st c_obs].
        -- exact R1.
        -- intros x Hx. unfold upd. destruct (Nat.eqb x o); [discriminate|]. now apply R2.
        -- intros x osx. unfold upd. destruct (Nat.eqb x o); [intros [= <-]; discriminate|apply R3].
        -- intros x osx. unfold upd. destruct (Nat.eqb x o); [intros [= <-]; discriminate|apply R4].
    + destruct (m o) as [os|] eqn:Hm.
      2:{ eapply (Reg_state s m _ l s); [exact R|exact (reg_nodup _ R)|tauto|tauto]. }
      destruct (handle os).
      2:{ eapply (Reg_state s m _ l s); [exact R|exact (reg_nodup _ R)|tauto|tauto]. }
      destruct (ado_dispose_cases s os o) as [Hs Hst]. destruct (ado_dispose s os o) as [s' os']. cbn [fst snd] in *.
      eapply Reg_remove; eauto.
    + destruct (is_disposed s) eqn:Hd.
      { eapply (Reg_state s m _ l s); [exact R|exact (reg_nodup _ R)|tauto|tauto]. }
      destruct (is_stopped s) eqn:Hst.
      { eapply (Reg_state s m _ l s); [exact R|exact (reg_nodup _ R)|tauto|tauto]. }
      destruct (next_keeps s v) as (N1 & N2 & N3). destruct (c_next C s v) as [s' is]. cbn [fst] in *.
      eapply (Reg_state s m _ l s'); [exact R|rewrite N1; exact (reg_nodup _ R)|rewrite N1; tauto|].
      intros [L1 L2]. split; [split; congruence|rewrite N1; tauto].
    + destruct (is_disposed s) eqn:Hd.
      { eapply (Reg_state s m _ l s); [exact R|exact (reg_nodup _ R)|tauto|tauto]. }
      destruct (is_stopped s) eqn:Hst.
      { eapply (Reg_state s m _ l s); [exact R|exact (reg_nodup _ R)|tauto|tauto]. }
      destruct (error_stops s e) as (N1 & N2). destruct (c_error C (set_stopped true s) e) as [s' is]. cbn [fst] in *.
      eapply (Reg_state s m _ l s'); [exact R|rewrite N1; constructor|rewrite N1; intros x []|].
      intros [L1 _]. congruence.
    + destruct (is_disposed s) eqn:Hd.
      { eapply (Reg_state s m _ l s); [exact R|exact (reg_nodup _ R)|tauto|tauto]. }
      destruct (is_stopped s) eqn:Hst.
      { eapply (Reg_state s m _ l s); [exact R|exact (reg_nodup _ R)|tauto|tauto]. }
      destruct (completed_stops s) as (N1 & N2). destruct (c_completed C (set_stopped true s)) as [s' is]. cbn [fst] in *.
      eapply (Reg_state s m _ l s'); [exact R|rewrite N1; constructor|rewrite N1; intros x []|].
      intros [L1 _]. congruence.
    + destruct (dispose_stops s) as (N1 & N2).
      eapply (Reg_state s m _ l (c_dispose C s)); [exact R|rewrite N1; constructor|rewrite N1; intros x []|].
      intros [_ L2]. congruence.
  - destruct (m o) as [os|] eqn:Hm.
    2:{ eapply (Reg_state s m _ l s); [exact R|exact (reg_nodup _ R)|tauto|tauto]. }
    destruct (a_stopped os) eqn:Hst.
    { eapply (Reg_state s m _ l s); [exact R|exact (reg_nodup _ R)|tauto|tauto]. }
    pose proof (reg_sad _ R o os Hm) as Hsd. cbn [c_obs] in Hsd.
    destruct n; (eapply Reg_upd_keep; [exact R|exact Hm| |]); cbn; try tauto; try (intros H; rewrite (Hsd H) in Hst; discriminate).
    all: intros _; apply orb_true_r.
  - destruct (m o) as [os|] eqn:Hm.
    2:{ eapply (Reg_state s m _ l s); [exact R|exact (reg_nodup _ R)|tauto|tauto]. }
    destruct (ado_dispose_cases s os o) as [Hs Hst]. destruct (ado_dispose s os o) as [s' os']. cbn [fst snd] in *.
    eapply Reg_remove; eauto.
  - destruct (m o) as [os|] eqn:Hm.
    2:{ eapply (Reg_state s m _ l s); [exact R|exact (reg_nodup _ R)|tauto|tauto]. }
    destruct sub as [sb|].
    + unfold sad_set. destruct (sad_disposed os) eqn:Hd.
      * pose proof (reg_sad _ R o os Hm Hd) as Hst. cbn in Hst.
        destruct sb; cbn [sub_dispose].
        -- destruct (inner_dispose_cases s os o) as (Hs & Ha & Hsd).
           destruct (inner_dispose s os o) as [s' os']. cbn [fst snd] in *.
           eapply Reg_remove; [exact R|eauto|exact Hs|cbn; congruence].
        -- eapply Reg_upd_keep; [exact R|exact Hm|cbn; congruence|cbn; tauto].
      * eapply Reg_upd_keep; [exact R|exact Hm|cbn; tauto|cbn; discriminate].
    + eapply Reg_upd_keep; [exact R|exact Hm|cbn; tauto|cbn].
      intros H. exact (reg_sad _ R o os Hm H).
Qed.

Lemma Reg_init v0 top : Reg (init_cfg v0 top).
Proof.
  constructor; cbn; [constructor|intros o []|intros o os H; discriminate|intros o os H; discriminate].
Qed.

(* for every call tree and fuel: an observer whose wrapper is not stopped (it
   subscribed, has not unsubscribed, has received no terminal) is in the
   observer list of a live subject -- hence in the snapshot of the next emission *)
Theorem live_observer_registered v0 top fuel o os :
  let c := run C react fuel (init_cfg v0 top) in
  c_obs c o = Some os -> a_stopped os = false -> subject_live (c_st c) -> In o (observers (c_st c)).
Proof.
  cbv zeta. intros Hm Ha Hl.
  assert (R : Reg (run C react fuel (init_cfg v0 top))).
  { apply (run_ind C react Reg); [apply Reg_step|apply Reg_init]. }
  exact (reg_in _ R o os Hm Ha Hl).
Qed.

(* an emission on a live Subject / BehaviorSubject hands the notification to
   exactly the observers registered at that moment, in order (the snapshot) ... *)
Lemma next_reaches_snapshot (s : @sstate A) v :
  K <> KAsync -> snd (c_next C s v) = map (fun o => IDeliver o (Next v)) (observers s).
Proof. destruct K; intros H; [reflexivity|reflexivity|congruence]. Qed.

(* ... and a delivery to a wrapper that is not stopped reaches the observer *)
Lemma deliver_reaches_live s m k l o n os :
  m o = Some os -> a_stopped os = false ->
  exists c', step C react (Cfg s m (IDeliver o n :: k) l) = c' /\ c_rlog c' = EGot o n :: l.
Proof.
  intros Hm Ha. eexists. split; [reflexivity|]. unfold step. cbn [c_k c_st c_obs c_rlog]. rewrite Hm, Ha.
  destruct n; reflexivity.
Qed.
End Registered.

Lemma subject_next_snapshot {A} (s : @sstate A) v :
  snd (c_next subject_cls s v) = map (fun o => IDeliver o (Next v)) (observers s).
Proof. reflexivity. Qed.

Lemma behavior_next_snapshot {A} (pynone : A) (s : @sstate A) v :
  snd (c_next (behavior_cls pynone) s v) = map (fun o => IDeliver o (Next v)) (observers s).
Proof. reflexivity. Qed.

Lemma async_completed_snapshot {A} (pynone : A) (s : @sstate A) :
  snd (c_completed (async_cls pynone) s) =
  flat_map (fun o => map (IDeliver o) (if has_value s then [Next (value s); Done] else [Done])) (observers s).
Proof.
  cbn. unfold async_completed. cbn. destruct (has_value s); [reflexivity|].
  now rewrite <- flat_map_single.
Qed.
