(* Refinement of the three synchronous subject classes to the abstract
   broadcast specification of Subjects/Family.v, for ALL histories of top-level
   calls (observers that do not call back into the subject), and the
   per-observer reading of that specification. *)
From RxVerif Require Import Base.Prelude Ops.Machine Subjects.Subject Subjects.Behavior Subjects.Async
  Subjects.Family Subjects.SubjectFacts.

Section Flat.
Context {A : Type} (pynone : A) (K : kind).

Definition silent : nat -> nat -> list (@op A) := fun _ _ => [].
Notation C := (cls_of pynone K).
Notation stepf := (step C silent).
Notation runf := (run C silent).

Definition reaches (c c' : @cfg A) : Prop := exists n, runf n c = c'.

Lemma reaches_refl c : reaches c c.
Proof. now exists 0%nat. Qed.

Lemma reaches_trans c1 c2 c3 : reaches c1 c2 -> reaches c2 c3 -> reaches c1 c3.
Proof. intros [n H1] [k H2]. exists (n + k)%nat. now rewrite run_add, H1. Qed.

Lemma reaches_step c : reaches c (stepf c).
Proof. exists 1%nat. now rewrite run_S. Qed.

Lemma reaches_step_eq c c' : stepf c = c' -> reaches c c'.
Proof. intros <-. apply reaches_step. Qed.

(* ---- observer tables up to the call counters ---- *)
Definition same_but_calls (a b : ostate) : Prop :=
  a_stopped a = a_stopped b /\ sad_disposed a = sad_disposed b /\ sad_cur a = sad_cur b /\
  inner_obs a = inner_obs b /\ handle a = handle b.

Definition meqv (m m' : omap) : Prop :=
  forall o, match m o, m' o with
            | None, None => True
            | Some a, Some b => same_but_calls a b
            | _, _ => False
            end.

Lemma meqv_refl m : meqv m m.
Proof. intros o. destruct (m o); [repeat split|exact I]. Qed.

Lemma meqv_trans m1 m2 m3 : meqv m1 m2 -> meqv m2 m3 -> meqv m1 m3.
Proof.
  intros H12 H23 o. specialize (H12 o). specialize (H23 o).
  destruct (m1 o), (m2 o), (m3 o); try contradiction; try exact I.
  destruct H12 as (?&?&?&?&?), H23 as (?&?&?&?&?). repeat split; congruence.
Qed.

Lemma meqv_upd m o os os' : m o = Some os -> same_but_calls os os' -> meqv m (upd m o os').
Proof.
  intros Hm Hs o2. unfold upd. destruct (Nat.eqb o2 o) eqn:E.
  - apply Nat.eqb_eq in E. subst o2. now rewrite Hm.
  - destruct (m o2); [repeat split|exact I].
Qed.

(* same domain, same handles *)
Definition mdom (m m' : omap) : Prop :=
  forall o, match m o, m' o with
            | None, None => True
            | Some a, Some b => handle a = handle b
            | _, _ => False
            end.

Lemma mdom_refl m : mdom m m.
Proof. intros o. now destruct (m o). Qed.

Lemma mdom_trans m1 m2 m3 : mdom m1 m2 -> mdom m2 m3 -> mdom m1 m3.
Proof.
  intros H12 H23 o. specialize (H12 o). specialize (H23 o).
  destruct (m1 o), (m2 o), (m3 o); try contradiction; try exact I. congruence.
Qed.

Lemma mdom_upd m o os os' : m o = Some os -> handle os = handle os' -> mdom m (upd m o os').
Proof.
  intros Hm Hs o2. unfold upd. destruct (Nat.eqb o2 o) eqn:E.
  - apply Nat.eqb_eq in E. subst o2. now rewrite Hm.
  - now destruct (m o2).
Qed.

Lemma upd_other (m : omap) o x o2 : o2 <> o -> upd m o x o2 = m o2.
Proof. intros H. unfold upd. destruct (Nat.eqb o2 o) eqn:E; [apply Nat.eqb_eq in E; contradiction|reflexivity]. Qed.

Lemma meqv_unstopped m m' o :
  meqv m m' -> (exists os, m o = Some os /\ a_stopped os = false) ->
  exists os', m' o = Some os' /\ a_stopped os' = false.
Proof.
  intros H [os [Hm Hs]]. specialize (H o). rewrite Hm in H.
  destruct (m' o) as [os'|]; [|contradiction]. destruct H as (H&_). exists os'. split; [reflexivity|congruence].
Qed.

(* ---- delivering element notifications ---- *)
Lemma deliver_nexts_one (vs : list A) : forall o s m k l,
  (exists os, m o = Some os /\ a_stopped os = false) ->
  exists m', reaches (Cfg s m (map (IDeliver o) (map Next vs) ++ k) l)
                     (Cfg s m' k (rev (map (EGot o) (map Next vs)) ++ l))
             /\ meqv m m'.
Proof.
  induction vs as [|v vs IH]; intros o s m k l [os [Hm Hs]].
  - exists m. split; [apply reaches_refl|apply meqv_refl].
  - set (m1 := upd m o (called false os)).
    assert (H1 : meqv m m1).
    { apply (meqv_upd m o os); [exact Hm|]. repeat split. cbn. now rewrite orb_false_r. }
    destruct (IH o s m1 k (EGot o (Next v) :: l)) as [m' [Hr He]].
    { exists (called false os). split; [apply upd_same|]. cbn. now rewrite Hs. }
    exists m'. split; [|eapply meqv_trans; eassumption].
    eapply reaches_trans; [apply reaches_step_eq|].
    2:{ cbn [map rev]. rewrite <- app_assoc. cbn [app]. exact Hr. }
    unfold Subject.step. cbn [map app c_k c_st c_obs c_rlog]. rewrite Hm, Hs. reflexivity.
Qed.

Lemma deliver_all_nexts (vs : list A) : forall L s m k l,
  (forall o, In o L -> exists os, m o = Some os /\ a_stopped os = false) ->
  exists m', reaches (Cfg s m (flat_map (fun o => map (IDeliver o) (map Next vs)) L ++ k) l)
                     (Cfg s m' k (rev (flat_map (fun o => map (EGot o) (map Next vs)) L) ++ l))
             /\ meqv m m'.
Proof.
  induction L as [|o L IH]; intros s m k l H.
  - exists m. split; [apply reaches_refl|apply meqv_refl].
  - cbn [flat_map]. rewrite <- app_assoc.
    destruct (deliver_nexts_one vs o s m (flat_map (fun o => map (IDeliver o) (map Next vs)) L ++ k) l)
      as [m1 [Hr1 He1]]; [apply H; now left|].
    destruct (IH s m1 k (rev (map (EGot o) (map Next vs)) ++ l)) as [m2 [Hr2 He2]].
    { intros o2 Hin. apply (meqv_unstopped m m1 o2 He1). apply H. now right. }
    exists m2. split; [|eapply meqv_trans; eassumption].
    eapply reaches_trans; [exact Hr1|]. rewrite rev_app_distr, <- app_assoc. exact Hr2.
Qed.

(* ---- delivering [elements; terminal] to an observer and running the wrapper's
        `finally: self.dispose()` ---- *)
Lemma inner_dispose_noobs (s : @sstate A) os o :
  observers s = [] -> fst (inner_dispose s os o) = s.
Proof.
  intros H. unfold inner_dispose. destruct (negb (is_disposed s) && inner_obs os); [|reflexivity].
  rewrite H. reflexivity.
Qed.

Lemma ado_dispose_keeps (s : @sstate A) os o :
  sad_cur os = None \/ observers s = [] ->
  fst (ado_dispose s os o) = s /\ handle (snd (ado_dispose s os o)) = handle os.
Proof.
  intros H. unfold ado_dispose. cbn [sad_disposed sad_cur a_stopped inner_obs handle calls].
  destruct (sad_disposed os); [split; reflexivity|].
  destruct (sad_cur os) as [[|]|] eqn:Hc; cbn [sub_dispose]; try (split; reflexivity).
  destruct H as [H|H]; [discriminate|]. split; [now apply inner_dispose_noobs|].
  unfold inner_dispose. destruct (negb (is_disposed s) && _); reflexivity.
Qed.

Lemma ado_dispose_disposed (s : @sstate A) os o : sad_disposed (snd (ado_dispose s os o)) = true.
Proof.
  unfold ado_dispose. cbn [sad_disposed sad_cur a_stopped inner_obs handle calls].
  destruct (sad_disposed os) eqn:Hd; [reflexivity|].
  destruct (sad_cur os) as [[|]|]; cbn [sub_dispose snd sad_disposed]; try reflexivity.
  unfold inner_dispose. destruct (negb (is_disposed s) && _); reflexivity.
Qed.

Lemma deliver_final_one (vs : list A) (t : ev A) : forall o s m k l,
  is_terminal t = true ->
  (exists os, m o = Some os /\ a_stopped os = false /\ (sad_cur os = None \/ observers s = [])) ->
  exists m', reaches (Cfg s m (map (IDeliver o) (map Next vs ++ [t]) ++ k) l)
                     (Cfg s m' k (rev (map (EGot o) (map Next vs ++ [t])) ++ l))
             /\ mdom m m' /\ (forall o2, o2 <> o -> m' o2 = m o2)
             /\ exists os', m' o = Some os' /\ a_stopped os' = true /\ sad_disposed os' = true.
Proof.
  induction vs as [|v vs IH]; intros o s m k l Ht [os [Hm [Hs Hc]]].
  - cbn [map app].
    set (os1 := called true os).
    destruct (ado_dispose_keeps s os1 o) as [Hk1 Hk2]; [exact Hc|].
    exists (upd (upd m o os1) o (snd (ado_dispose s os1 o))).
    split; [|split; [|split]].
    + eapply reaches_trans; [apply reaches_step_eq|apply reaches_step_eq].
      * unfold Subject.step. cbn [c_k c_st c_obs c_rlog]. rewrite Hm, Hs.
        instantiate (1 := Cfg s (upd m o os1) (IAdoFin o :: k) (EGot o t :: l)).
        destruct t; [discriminate|reflexivity|reflexivity].
      * unfold Subject.step. cbn [c_k c_st c_obs c_rlog]. rewrite upd_same.
        destruct (ado_dispose s os1 o) as [s' os'] eqn:E. cbn [fst snd] in *. subst s'. reflexivity.
    + eapply mdom_trans; [apply (mdom_upd m o os os1 Hm); reflexivity|].
      apply (mdom_upd _ o os1); [apply upd_same|]. now rewrite Hk2.
    + intros o2 Hne. now rewrite !upd_other.
    + eexists. split; [apply upd_same|]. split; [apply ado_dispose_stopped|apply ado_dispose_disposed].
  - set (m1 := upd m o (called false os)).
    destruct (IH o s m1 k (EGot o (Next v) :: l) Ht) as [m' [Hr [Hd [Ho [os' Hos']]]]].
    { exists (called false os). split; [apply upd_same|]. cbn. rewrite Hs. split; [reflexivity|exact Hc]. }
    exists m'. split; [|split; [|split]].
    + eapply reaches_trans; [apply reaches_step_eq|].
      2:{ cbn [map rev app]. rewrite <- app_assoc. cbn [app]. exact Hr. }
      unfold Subject.step. cbn [map app c_k c_st c_obs c_rlog]. rewrite Hm, Hs. reflexivity.
    + eapply mdom_trans; [|exact Hd]. apply (mdom_upd m o os); [exact Hm|reflexivity].
    + intros o2 Hne. rewrite (Ho o2 Hne). unfold m1. now rewrite upd_other.
    + exists os'. exact Hos'.
Qed.

Definition live_obs (os : ostate) : Prop :=
  a_stopped os = false /\ sad_disposed os = false /\ sad_cur os = Some SInner /\ inner_obs os = true.

Lemma deliver_all_final (vs : list A) (t : ev A) : forall L s m k l,
  is_terminal t = true -> observers s = [] -> NoDup L ->
  (forall o, In o L -> exists os, m o = Some os /\ a_stopped os = false) ->
  exists m', reaches (Cfg s m (flat_map (fun o => map (IDeliver o) (map Next vs ++ [t])) L ++ k) l)
                     (Cfg s m' k (rev (flat_map (fun o => map (EGot o) (map Next vs ++ [t])) L) ++ l))
             /\ mdom m m'.
Proof.
  induction L as [|o L IH]; intros s m k l Ht Hobs Hnd H.
  - exists m. split; [apply reaches_refl|apply mdom_refl].
  - cbn [flat_map]. rewrite <- app_assoc. inversion Hnd as [|? ? Hnin Hnd']; subst.
    destruct (deliver_final_one vs t o s m
                (flat_map (fun o => map (IDeliver o) (map Next vs ++ [t])) L ++ k) l Ht)
      as [m1 [Hr1 [Hd1 [Ho1 _]]]].
    { destruct (H o (or_introl eq_refl)) as [os [Hm Hs]]. exists os. auto. }
    destruct (IH s m1 k (rev (map (EGot o) (map Next vs ++ [t])) ++ l) Ht Hobs Hnd') as [m2 [Hr2 Hd2]].
    { intros o2 Hin. rewrite Ho1; [apply H; now right|]. intros ->. contradiction. }
    exists m2. split; [|eapply mdom_trans; eassumption].
    eapply reaches_trans; [exact Hr1|]. rewrite rev_app_distr, <- app_assoc. exact Hr2.
Qed.

End Flat.
