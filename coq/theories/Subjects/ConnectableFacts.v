(* C24: the connection of a ConnectableObservable.  Invariant [CI] of Subjects/Connectable.v's machine,
   for EVERY subject engine, every call tree (arbitrary [react]) and every fuel: the source's
   subscription log alternates, nothing is subscribed while disconnected, only connect() subscribes. *)
From RxVerif Require Import Base.Prelude Ops.Machine Subjects.Subject Subjects.Behavior Subjects.Async
  Subjects.Family Subjects.Replay Subjects.Connectable.
Require Import Lia.
Local Open Scope nat_scope.

(* ---- the source's subscription log as a two-state automaton ---- *)
Definition src_trans (st : option (option nat)) (e : bool * nat) : option (option nat) :=
  match st with
  | None => None
  | Some None => if fst e then Some (Some (snd e)) else None
  | Some (Some c) => if fst e then None else if Nat.eqb (snd e) c then Some None else None
  end.
Definition src_state (l : list (bool * nat)) : option (option nat) := fold_left src_trans l (Some None).

Lemma src_state_app l1 l2 : src_state (l1 ++ l2) = fold_left src_trans l2 (src_state l1).
Proof. unfold src_state. now rewrite fold_left_app. Qed.

Lemma set_nth_length {X} (n : nat) (x : X) l : length (set_nth n x l) = length l.
Proof. revert n. induction l; intros [|n]; cbn; auto. Qed.

Lemma nth_set_nth {X} (n m : nat) (x d : X) l :
  nth m (set_nth n x l) d = if Nat.eqb m n && (n <? length l) then x else nth m l d.
Proof.
  revert n m. induction l as [|y l IH]; intros n m.
  - cbn. destruct n, m; cbn; try reflexivity; now rewrite Bool.andb_false_r.
  - destruct n as [|n], m as [|m]; cbn [set_nth nth length]; try reflexivity.
    rewrite IH. change (Nat.eqb (S m) (S n)) with (Nat.eqb m n).
    change (S n <? S (length l)) with (n <? length l). reflexivity.
Qed.

Section Facts.
Context {A E_st E_in E_op : Type}.
Context (e_exec : E_in -> E_st -> E_st * list E_in * list (@sev A E_op)).
Context (e_call : @sop A -> list E_in).
Context (md : mode) (reach : bool) (cold : list (ev A)) (react : nat -> nat -> list (@cop A)).

Notation kinstr := (@kinstr A E_in).
Notation kcfg := (@kcfg A E_st E_in E_op).
Notation cevent := (@cevent A E_op).
Notation stepk := (kstep e_exec e_call md reach cold react).
Notation runk := (krun e_exec e_call md reach cold react).
Notation sado_dispose := (@sado_dispose A E_op).
Notation src_dispose := (@src_dispose A E_op).
Notation comp_dispose := (@comp_dispose A E_op).

Definition blen (b : book) : nat := length (conns b).

Lemma get_put b cid c cid' :
  get_conn (put_conn cid c b) cid' = if Nat.eqb cid' cid && (cid <? blen b) then c else get_conn b cid'.
Proof. unfold get_conn, put_conn, blen. cbn. apply nth_set_nth. Qed.

Lemma blen_put b cid c : blen (put_conn cid c b) = blen b.
Proof. unfold blen, put_conn. cbn. apply set_nth_length. Qed.

(* connection ids mentioned by the pending instructions; pending returns of source.subscribe *)
Definition icids (i : kinstr) : list nat :=
  match i with KConnRet c _ | KSrc c _ | KSrcFin c => [c] | _ => [] end.
Definition ipend (i : kinstr) : list nat := match i with KConnRet c _ => [c] | _ => [] end.
Definition kcids (k : list kinstr) : list nat := flat_map icids k.
Definition pend (k : list kinstr) : list nat := flat_map ipend k.

Lemma kcids_app k1 k2 : kcids (k1 ++ k2) = kcids k1 ++ kcids k2.
Proof. apply flat_map_app. Qed.
Lemma pend_app k1 k2 : pend (k1 ++ k2) = pend k1 ++ pend k2.
Proof. apply flat_map_app. Qed.
Lemma kcids_KS l : kcids (map (@KS A E_in) l) = [].
Proof. induction l; cbn; auto.
Qed.
Lemma pend_KS l : pend (map (@KS A E_in) l) = [].
Proof. induction l; cbn; auto.
Qed.
Lemma kcids_KOp l : kcids (map (@KOp A E_in) l) = [].
Proof. induction l; cbn; auto.
Qed.
Lemma pend_KOp l : pend (map (@KOp A E_in) l) = [].
Proof. induction l; cbn; auto.
Qed.
Lemma pend_KSrc cid l : pend (map (@KSrc A E_in cid) l) = [].
Proof. induction l; cbn; auto.
Qed.
Lemma kcids_KSrc cid l x : In x (kcids (map (@KSrc A E_in cid) l)) -> x = cid.
Proof. induction l; cbn; [tauto|]. intros [H|H]; auto.
Qed.

(* the chronological source log of a newest-first log *)
Definition slog (l : list cevent) : list (bool * nat) := src_log (rev l).

Lemma slog_app l1 l2 : slog (l1 ++ l2) = slog l2 ++ slog l1.
Proof. unfold slog, src_log. now rewrite rev_app_distr, flat_map_app. Qed.

Definition last_live (b : book) : bool :=
  match blen b with O => false | S n => s_live (get_conn b n) end.

Record CI (b : book) (kc pd : list nat) (l : list cevent) : Prop := {
  ci_len : forall x, In x kc -> x < blen b;
  ci_pend : pd = [] \/ (exists n, blen b = S n /\ pd = [n] /\ has_sub b = true);
  ci_refs : forall cid, (In (Some cid) (handles b) \/ rc_sub b = Some cid \/ cur b = Some cid) ->
                        cid < blen b /\ ~ In cid pd;
  ci_old : forall cid, S cid < blen b -> comp_disposed (get_conn b cid) = true;
  ci_off : has_sub b = false -> forall cid, cid < blen b -> comp_disposed (get_conn b cid) = true;
  ci_set : forall cid, cid < blen b -> s_sad_set (get_conn b cid) = true ->
                       s_sad_disposed (get_conn b cid) = false /\ s_live (get_conn b cid) = true;
  ci_pending : forall cid, cid < blen b -> In cid pd ->
                 s_sad_set (get_conn b cid) = false /\ comp_disposed (get_conn b cid) = false /\
                 s_live (get_conn b cid) = true;
  ci_dead : forall cid, cid < blen b -> ~ In cid pd -> s_sad_disposed (get_conn b cid) = true ->
                        s_live (get_conn b cid) = false;
  ci_held : forall cid, cid < blen b -> ~ In cid pd -> s_sad_disposed (get_conn b cid) = false ->
                        s_sad_set (get_conn b cid) = true;
  ci_comp : forall cid, cid < blen b -> comp_disposed (get_conn b cid) = true -> s_live (get_conn b cid) = false;
  ci_log : src_state (slog l) = Some (if last_live b then Some (pred (blen b)) else None) }.

Definition CIc (c : kcfg) : Prop := CI (k_bk c) (kcids (k_k c)) (pend (k_k c)) (k_log c).


Lemma CI_kc b kc kc' pd l : CI b kc pd l -> (forall x, In x kc' -> x < blen b) -> CI b kc' pd l.
Proof. intros H Hs. destruct H as [h1 h2 h3 h4 h5 h6 h7 h8 h9 h10 h11]. constructor; auto.
Qed.

Lemma CI_book b b' kc pd l :
  CI b kc pd l -> conns b' = conns b -> has_sub b' = has_sub b ->
  (forall cid, (In (Some cid) (handles b') \/ rc_sub b' = Some cid \/ cur b' = Some cid) ->
               (In (Some cid) (handles b) \/ rc_sub b = Some cid \/ cur b = Some cid) \/
               (cid < blen b /\ ~ In cid pd)) ->
  CI b' kc pd l.
Proof.
  intros H Hc Hh Hr.
  assert (Hg : forall cid, get_conn b' cid = get_conn b cid) by (intro; unfold get_conn; now rewrite Hc).
  assert (Hl : blen b' = blen b) by (unfold blen; now rewrite Hc).
  assert (Hll : last_live b' = last_live b) by (unfold last_live; rewrite Hl; destruct (blen b); [reflexivity|now rewrite Hg]).
  destruct H as [h1 h2 h3 h4 h5 h6 h7 h8 h9 h10 h11].
  constructor; intros; rewrite ?Hg, ?Hl, ?Hll, ?Hh in *; auto.
  destruct (Hr cid H) as [G|G]; [exact (h3 cid G)|exact G].
Qed.

Definition same4 (c c' : sconn) : Prop :=
  s_sad_disposed c' = s_sad_disposed c /\ s_sad_set c' = s_sad_set c /\ s_live c' = s_live c /\
  comp_disposed c' = comp_disposed c.

Lemma CI_put_same b kc pd l cid c' :
  CI b kc pd l -> same4 (get_conn b cid) c' -> CI (put_conn cid c' b) kc pd l.
Proof.
  intros H [H1 [H2 [H3 H4]]].
  assert (Hl : blen (put_conn cid c' b) = blen b) by apply blen_put.
  assert (Hg : forall x, s_sad_disposed (get_conn (put_conn cid c' b) x) = s_sad_disposed (get_conn b x) /\
                         s_sad_set (get_conn (put_conn cid c' b) x) = s_sad_set (get_conn b x) /\
                         s_live (get_conn (put_conn cid c' b) x) = s_live (get_conn b x) /\
                         comp_disposed (get_conn (put_conn cid c' b) x) = comp_disposed (get_conn b x)).
  { intro x. rewrite get_put. destruct (Nat.eqb x cid && (cid <? blen b)) eqn:E; [|tauto].
    apply andb_prop in E. destruct E as [E _]. apply Nat.eqb_eq in E. subst x. tauto. }
  assert (Hll : last_live (put_conn cid c' b) = last_live b).
  { unfold last_live. rewrite Hl. destruct (blen b); auto. apply Hg. }
  destruct H. constructor; intros; rewrite ?Hl, ?Hll in *;
    try (destruct (Hg cid0) as [G1 [G2 [G3 G4]]]; rewrite ?G1, ?G2, ?G3, ?G4 in *); auto.
Qed.

Lemma slog_cons x l : slog (x :: l) = slog l ++ slog [x].
Proof. change (x :: l) with ([x] ++ l). apply slog_app. Qed.

Lemma CI_last b kc pd l cid :
  CI b kc pd l -> cid < blen b -> comp_disposed (get_conn b cid) = false -> blen b = S cid.
Proof.
  intros H Hlt Hc. destruct (Nat.lt_ge_cases (S cid) (blen b)) as [G|G]; [|lia].
  rewrite (ci_old _ _ _ _ H cid G) in Hc. discriminate.
Qed.

Lemma CI_live_last b kc pd l cid :
  CI b kc pd l -> cid < blen b -> s_live (get_conn b cid) = true -> blen b = S cid.
Proof.
  intros H Hlt Hc. apply (CI_last b kc pd l cid H Hlt).
  destruct (comp_disposed (get_conn b cid)) eqn:E; [|reflexivity].
  rewrite (ci_comp _ _ _ _ H cid Hlt E) in Hc. discriminate.
Qed.

Lemma log_unsub l b cid :
  src_state (slog l) = Some (if last_live b then Some (pred (blen b)) else None) ->
  blen b = S cid -> s_live (get_conn b cid) = true ->
  src_state (slog (CESUnsub cid :: l)) = Some None.
Proof.
  intros H Hb Hl. rewrite slog_cons, src_state_app, H. unfold last_live. rewrite Hb. cbn [pred]. rewrite Hl.
  cbn. now rewrite Nat.eqb_refl.
Qed.

(* one connection record changes: the generic re-establishment of CI *)
Definition refs (b : book) (cid : nat) : Prop :=
  In (Some cid) (handles b) \/ rc_sub b = Some cid \/ cur b = Some cid.

Lemma CI_put_gen b kc pd pd' l l' cid c' :
  CI b kc pd l -> cid < blen b ->
  (forall x, x <> cid -> (In x pd' <-> In x pd)) ->
  (pd' = [] \/ (exists n, blen b = S n /\ pd' = [n] /\ has_sub b = true)) ->
  (forall x, refs b x -> ~ In x pd') ->
  (s_sad_set c' = true -> s_sad_disposed c' = false /\ s_live c' = true) ->
  (In cid pd' -> s_sad_set c' = false /\ comp_disposed c' = false /\ s_live c' = true) ->
  (~ In cid pd' -> s_sad_disposed c' = true -> s_live c' = false) ->
  (~ In cid pd' -> s_sad_disposed c' = false -> s_sad_set c' = true) ->
  (comp_disposed c' = true -> s_live c' = false) ->
  (comp_disposed (get_conn b cid) = true -> comp_disposed c' = true) ->
  src_state (slog l') = Some (if last_live (put_conn cid c' b) then Some (pred (blen b)) else None) ->
  CI (put_conn cid c' b) kc pd' l'.
Proof.
  intros H Hlt Q1 Q2 Q3 P1 P2 P3 P4 P5 P6 P7.
  assert (Hl : blen (put_conn cid c' b) = blen b) by apply blen_put.
  assert (Hg : forall x, x <> cid -> get_conn (put_conn cid c' b) x = get_conn b x).
  { intros x Hx. rewrite get_put. destruct (Nat.eqb x cid) eqn:E; [apply Nat.eqb_eq in E; contradiction|reflexivity]. }
  assert (Hs : get_conn (put_conn cid c' b) cid = c').
  { rewrite get_put, Nat.eqb_refl. assert (E : (cid <? blen b) = true) by (apply Nat.ltb_lt; lia). now rewrite E. }
  destruct H as [h1 h2 h3 h4 h5 h6 h7 h8 h9 h10 h11].
  constructor; rewrite ?Hl; auto.
  - intros x Hx. split; [exact (proj1 (h3 x Hx))|exact (Q3 x Hx)].
  - intros x Hx. destruct (Nat.eq_dec x cid) as [->|N]; [rewrite Hs; apply P6; apply h4; auto|rewrite Hg; auto].
  - intros Hh x Hx. destruct (Nat.eq_dec x cid) as [->|N];
      [rewrite Hs; apply P6; exact (h5 Hh cid Hx)|rewrite Hg; auto; exact (h5 Hh x Hx)].
  - intros x Hx. destruct (Nat.eq_dec x cid) as [->|N]; [rewrite Hs; auto|rewrite Hg; auto].
  - intros x Hx Hi. destruct (Nat.eq_dec x cid) as [->|N]; [rewrite Hs; auto|rewrite Hg; auto].
    apply h7; auto. now apply Q1.
  - intros x Hx Hi. destruct (Nat.eq_dec x cid) as [->|N]; [rewrite Hs; auto|rewrite Hg; auto].
    apply h8; auto. intro G. apply Hi. now apply Q1.
  - intros x Hx Hi. destruct (Nat.eq_dec x cid) as [->|N]; [rewrite Hs; auto|rewrite Hg; auto].
    apply h9; auto. intro G. apply Hi. now apply Q1.
  - intros x Hx. destruct (Nat.eq_dec x cid) as [->|N]; [rewrite Hs; auto|rewrite Hg; auto].
Qed.

Lemma CI_put b kc pd l l' cid c' :
  CI b kc pd l -> cid < blen b ->
  (s_sad_set c' = true -> s_sad_disposed c' = false /\ s_live c' = true) ->
  (In cid pd -> s_sad_set c' = false /\ comp_disposed c' = false /\ s_live c' = true) ->
  (~ In cid pd -> s_sad_disposed c' = true -> s_live c' = false) ->
  (~ In cid pd -> s_sad_disposed c' = false -> s_sad_set c' = true) ->
  (comp_disposed c' = true -> s_live c' = false) ->
  (comp_disposed (get_conn b cid) = true -> comp_disposed c' = true) ->
  src_state (slog l') = Some (if last_live (put_conn cid c' b) then Some (pred (blen b)) else None) ->
  CI (put_conn cid c' b) kc pd l'.
Proof.
  intros H Hlt. apply (CI_put_gen b kc pd pd l l' cid c' H Hlt).
  - tauto.
  - exact (ci_pend _ _ _ _ H).
  - intros x Hx. exact (proj2 (ci_refs _ _ _ _ H x Hx)).
Qed.

Lemma last_live_put_same b cid c' :
  s_live c' = s_live (get_conn b cid) -> last_live (put_conn cid c' b) = last_live b.
Proof.
  intros H. unfold last_live. rewrite blen_put. destruct (blen b) as [|n] eqn:E; [reflexivity|].
  rewrite get_put. destruct (Nat.eqb n cid && (cid <? blen b)) eqn:G; [|reflexivity].
  apply andb_prop in G. destruct G as [G _]. apply Nat.eqb_eq in G. now subst.
Qed.

Lemma last_live_put_last b cid c' : blen b = S cid -> last_live (put_conn cid c' b) = s_live c'.
Proof.
  intros H. unfold last_live. rewrite blen_put, H, get_put, Nat.eqb_refl, H.
  assert (E : (cid <? S cid) = true) by (apply Nat.ltb_lt; lia). now rewrite E.
Qed.

(* `finally: self.dispose()` / the composite's first member: AutoDetachObserver.dispose of connection cid *)
Lemma CI_sado b kc pd l cid :
  CI b kc pd l -> cid < blen b ->
  CI (put_conn cid (fst (sado_dispose cid (get_conn b cid))) b) kc pd
     (rev (snd (sado_dispose cid (get_conn b cid))) ++ l).
Proof.
  intros H Hlt. unfold sado_dispose. cbn [s_sad_disposed s_sad_set s_live comp_disposed].
  destruct (s_sad_disposed (get_conn b cid)) eqn:Ed.
  - cbn [fst snd rev app]. apply CI_put_same; [exact H|]. unfold same4. cbn. rewrite Ed. tauto.
  - destruct (s_sad_set (get_conn b cid)) eqn:Es.
    + destruct (ci_set _ _ _ _ H cid Hlt Es) as [_ Hlive].
      unfold src_dispose. cbn [s_live]. rewrite Hlive. cbn [fst snd rev app].
      pose proof (CI_live_last b kc pd l cid H Hlt Hlive) as Hb.
      apply (CI_put b kc pd l); cbn; auto; try discriminate.
      * intros Hi. destruct (ci_pending _ _ _ _ H cid Hlt Hi) as [G _]. congruence.
      * rewrite last_live_put_last by exact Hb. cbn.
        apply (log_unsub l b cid (ci_log _ _ _ _ H) Hb Hlive).
    + cbn [fst snd rev app].
      assert (Hi : In cid pd).
      { destruct (in_dec Nat.eq_dec cid pd) as [G|G]; [exact G|].
        rewrite (ci_held _ _ _ _ H cid Hlt G Ed) in Es. discriminate. }
      destruct (ci_pending _ _ _ _ H cid Hlt Hi) as [_ [Hc Hlive]].
      apply (CI_put b kc pd l); cbn; auto; try discriminate; try tauto.
      * congruence.
      * rewrite last_live_put_same by reflexivity. exact (ci_log _ _ _ _ H).
Qed.

Lemma CI_has_false b kc pd l :
  CI b kc pd l -> pd = [] -> (forall cid, cid < blen b -> comp_disposed (get_conn b cid) = true) ->
  CI (set_has false b) kc pd l.
Proof.
  intros H Hp Hall. destruct H as [h1 h2 h3 h4 h5 h6 h7 h8 h9 h10 h11].
  constructor; auto.
Qed.

(* CompositeDisposable.dispose of connection cid (a handle somebody holds) *)
Lemma CI_comp_dispose b kc pd l cid :
  CI b kc pd l -> cid < blen b -> ~ In cid pd ->
  CI (fst (comp_dispose cid b)) kc pd (rev (snd (comp_dispose cid b)) ++ l).
Proof.
  intros H Hlt Hn. unfold comp_dispose.
  destruct (comp_disposed (get_conn b cid)) eqn:Ec; [exact H|].
  pose proof (CI_last b kc pd l cid H Hlt Ec) as Hb.
  assert (Hp : pd = []).
  { destruct (ci_pend _ _ _ _ H) as [G|[n [G1 [G2 _]]]]; [exact G|].
    exfalso. apply Hn. rewrite G2. left. lia. }
  set (c1 := SConn (s_stopped (get_conn b cid)) (s_sad_disposed (get_conn b cid)) (s_sad_set (get_conn b cid))
                   (s_live (get_conn b cid)) true).
  destruct (Connectable.sado_dispose cid c1) as [c2 evs] eqn:Es. cbn [fst snd].
  assert (Hall : forall c2', comp_disposed c2' = true ->
            forall x, x < blen (put_conn cid c2' b) -> comp_disposed (get_conn (put_conn cid c2' b) x) = true).
  { intros c2' Hc x Hx. rewrite blen_put in Hx. rewrite get_put.
    destruct (Nat.eqb x cid && (cid <? blen b)) eqn:G; [exact Hc|].
    apply (ci_old _ _ _ _ H). destruct (Nat.eq_dec x cid) as [->|N]; [|lia].
    rewrite Nat.eqb_refl in G. cbn in G. apply Nat.ltb_ge in G. lia. }
  unfold Connectable.sado_dispose, c1 in Es. cbn [s_sad_disposed s_sad_set s_live comp_disposed s_stopped] in Es.
  destruct (s_sad_disposed (get_conn b cid)) eqn:Ed.
  - inversion Es; subst c2 evs; clear Es. cbn [rev app].
    pose proof (ci_dead _ _ _ _ H cid Hlt Hn Ed) as Hlive.
    apply CI_has_false; [|exact Hp|apply Hall; reflexivity].
    apply (CI_put b kc pd l); cbn; auto; try discriminate; try tauto.
    + intros G. destruct (ci_set _ _ _ _ H cid Hlt G). congruence.
    + rewrite last_live_put_same by reflexivity. exact (ci_log _ _ _ _ H).
  - pose proof (ci_held _ _ _ _ H cid Hlt Hn Ed) as Hset. rewrite Hset in Es.
    destruct (ci_set _ _ _ _ H cid Hlt Hset) as [_ Hlive].
    unfold Connectable.src_dispose in Es. cbn [s_live] in Es. rewrite Hlive in Es.
    inversion Es; subst c2 evs; clear Es. cbn [rev app].
    apply CI_has_false; [|exact Hp|apply Hall; reflexivity].
    apply (CI_put b kc pd l); cbn; auto; try discriminate; try tauto.
    rewrite last_live_put_last by exact Hb. cbn.
    apply (log_unsub l b cid (ci_log _ _ _ _ H) Hb Hlive).
Qed.

Lemma refs_conn_return w r b cid :
  refs (conn_return w r b) cid -> refs b cid \/ r = Some cid.
Proof.
  unfold refs. destruct w; cbn.
  - intros [G|G]; [|tauto]. apply in_app_or in G. destruct G as [G|[G|[]]]; [tauto|right; exact G].
  - intros [G|[G|G]]; tauto.
  - tauto.
Qed.

Lemma CI_conn_return b kc pd l w r :
  CI b kc pd l -> (forall cid, r = Some cid -> refs b cid \/ (cid < blen b /\ ~ In cid pd)) ->
  CI (conn_return w r b) kc pd l.
Proof.
  intros H Hr. apply (CI_book b); [exact H|destruct w; reflexivity|destruct w; reflexivity|].
  intros cid G. apply refs_conn_return in G. destruct G as [G|G]; [left; exact G|exact (Hr cid G)].
Qed.

(* source.subscribe(self.subject) returned: the disposable is stored, the composite built *)
Lemma CI_connret b kc pd0 l cid w :
  CI b kc (cid :: pd0) l -> cid < blen b ->
  let c := get_conn b cid in
  let r := if s_sad_disposed c then src_dispose cid c
           else (SConn (s_stopped c) false true (s_live c) (comp_disposed c), []) in
  CI (conn_return w (Some cid) (set_cur (Some cid) (put_conn cid (fst r) b))) kc pd0 (rev (snd r) ++ l).
Proof.
  intros H Hlt c r.
  assert (Hp : pd0 = [] /\ blen b = S cid).
  { destruct (ci_pend _ _ _ _ H) as [G|[n [G1 [G2 _]]]]; [discriminate|]. inversion G2. subst. auto. }
  destruct Hp as [-> Hb].
  destruct (ci_pending _ _ _ _ H cid Hlt (or_introl eq_refl)) as [Hset [Hcomp Hlive]]. fold c in Hset, Hcomp, Hlive.
  assert (G : CI (put_conn cid (fst r) b) kc [] (rev (snd r) ++ l)).
  { unfold r. destruct (s_sad_disposed c) eqn:Ed.
    - unfold Connectable.src_dispose. rewrite Hlive. cbn [fst snd rev app].
      apply (CI_put_gen b kc [cid] [] l); cbn [s_sad_set s_sad_disposed s_live comp_disposed s_stopped In];
        auto; try discriminate; try tauto; try congruence.
      + intros x Hx. split; [tauto|intros [G|[]]; congruence].
      + rewrite last_live_put_last by exact Hb. cbn.
        apply (log_unsub l b cid (ci_log _ _ _ _ H) Hb Hlive).
    - cbn [fst snd rev app].
      apply (CI_put_gen b kc [cid] [] l); cbn [s_sad_set s_sad_disposed s_live comp_disposed s_stopped In];
        auto; try discriminate; try tauto; try congruence.
      + intros x Hx. split; [tauto|intros [G|[]]; congruence].
      + rewrite last_live_put_same by reflexivity. exact (ci_log _ _ _ _ H). }
  apply CI_conn_return.
  - apply (CI_book (put_conn cid (fst r) b)); [exact G|reflexivity|reflexivity|].
    intros x [Hx|[Hx|Hx]]; [left; left; exact Hx|left; right; left; exact Hx|].
    cbn in Hx. inversion Hx. subst x. right. rewrite blen_put. split; [exact Hlt|intros []].
  - intros x Hx. inversion Hx. subst x. left. right. right. reflexivity.
Qed.

Lemma get_conn_app_old b c x : x < blen b -> get_conn (set_conns (conns b ++ [c]) b) x = get_conn b x.
Proof. intros H. unfold get_conn. cbn. now rewrite app_nth1. Qed.
Lemma get_conn_app_new b c : get_conn (set_conns (conns b ++ [c]) b) (blen b) = c.
Proof. unfold get_conn, blen. cbn. now rewrite app_nth2, Nat.sub_diag by lia. Qed.

(* connect() while disconnected: the source is subscribed *)
Lemma CI_connect b kc l :
  CI b kc [] l -> has_sub b = false ->
  CI (set_conns (conns b ++ [fresh_sconn]) (set_has true b)) (blen b :: kc) [blen b] (CESSub (blen b) :: l).
Proof.
  intros H Hh. set (n := blen b).
  assert (Hl : blen (set_conns (conns b ++ [fresh_sconn]) (set_has true b)) = S n).
  { unfold blen. cbn. rewrite app_length. cbn. unfold n, blen. lia. }
  assert (Ho : forall x, x < n -> get_conn (set_conns (conns b ++ [fresh_sconn]) (set_has true b)) x = get_conn b x).
  { intros x Hx. apply (get_conn_app_old (set_has true b)). exact Hx. }
  assert (Hn : get_conn (set_conns (conns b ++ [fresh_sconn]) (set_has true b)) n = fresh_sconn).
  { apply (get_conn_app_new (set_has true b)). }
  pose proof (ci_off _ _ _ _ H Hh) as Hall.
  destruct H as [h1 h2 h3 h4 h5 h6 h7 h8 h9 h10 h11].
  constructor; rewrite ?Hl.
  - intros x [<-|Hx]; [lia|]. specialize (h1 x Hx). fold n in h1. lia.
  - right. exists n. auto.
  - intros x Hx. destruct (h3 x Hx) as [G _]. fold n in G. split; [lia|]. intros [E|[]]. lia.
  - intros x Hx. rewrite Ho by lia. apply Hall. fold n. lia.
  - discriminate.
  - intros x Hx. destruct (Nat.eq_dec x n) as [->|N]; [rewrite Hn; discriminate|]. rewrite Ho by lia. apply h6. fold n. lia.
  - intros x Hx [<-|[]]. rewrite Hn. auto.
  - intros x Hx Hi. destruct (Nat.eq_dec x n) as [->|N]; [exfalso; apply Hi; left; reflexivity|].
    rewrite Ho by lia. apply h8; [fold n; lia|tauto].
  - intros x Hx Hi. destruct (Nat.eq_dec x n) as [->|N]; [exfalso; apply Hi; left; reflexivity|].
    rewrite Ho by lia. apply h9; [fold n; lia|tauto].
  - intros x Hx. destruct (Nat.eq_dec x n) as [->|N]; [rewrite Hn; discriminate|]. rewrite Ho by lia.
    apply h10. fold n. lia.
  - rewrite slog_cons, src_state_app, h11.
    assert (E : last_live b = false).
    { unfold last_live. destruct (blen b) as [|m] eqn:Em; [reflexivity|].
      destruct (s_live (get_conn b m)) eqn:G; [|reflexivity].
      rewrite (h10 m) in G; [discriminate|lia|apply Hall; lia]. }
    rewrite E. unfold last_live. rewrite Hl, Hn. reflexivity.
Qed.

Lemma CI_log b kc pd l l' : CI b kc pd l -> slog l' = slog l -> CI b kc pd l'.
Proof. intros H E. destruct H as [h1 h2 h3 h4 h5 h6 h7 h8 h9 h10 h11]. constructor; auto. now rewrite E. Qed.

Definition nosrc (e : cevent) : Prop := match e with CESSub _ | CESUnsub _ => False | _ => True end.

Lemma slog_nosrc l1 l : Forall nosrc l1 -> slog (l1 ++ l) = slog l.
Proof.
  intros H. rewrite slog_app. replace (slog l1) with (@nil (bool * nat)); [now rewrite app_nil_r|].
  unfold slog, src_log. induction H as [|e l1 He _ IH]; [reflexivity|].
  cbn [rev]. rewrite flat_map_app, <- IH. cbn. destruct e; cbn in *; tauto.
Qed.

Lemma kcids_cons i k : kcids (i :: k) = icids i ++ kcids k.
Proof. reflexivity. Qed.
Lemma pend_cons i k : pend (i :: k) = ipend i ++ pend k.
Proof. reflexivity. Qed.

Lemma kcids_srcs n (len : nat) x :
  In x (kcids (map (fun cid => @KSrc A E_in cid n) (seq 0 len))) -> x < len.
Proof.
  unfold kcids. rewrite flat_map_concat_map, map_map. cbn [icids]. rewrite <- flat_map_concat_map.
  intros H. apply in_flat_map in H. destruct H as [y [Hy [<-|[]]]]. apply in_seq in Hy. lia.
Qed.
Lemma pend_srcs n (len : nat) : pend (map (fun cid => @KSrc A E_in cid n) (seq 0 len)) = [].
Proof. induction (seq 0 len); cbn; auto. Qed.

Ltac kk := repeat first [rewrite kcids_app | rewrite pend_app | rewrite kcids_cons | rewrite pend_cons
                        | rewrite kcids_KS | rewrite pend_KS | rewrite kcids_KOp | rewrite pend_KOp
                        | rewrite pend_srcs | rewrite pend_KSrc];
           cbn [icids ipend app].

Theorem CI_step c : CIc c -> CIc (stepk c).
Proof.
  unfold CIc, kstep. destruct c as [st b m k l]. cbn [k_k k_bk k_log k_out k_eng].
  destruct k as [|i k]; [auto|]. intros H.
  destruct i as [p|ei|o|o|o|o u| |w|cid w|cid n|cid].
  - (* KOp *)
    assert (H0 : CI b (kcids k) (pend k) (CEOp p :: l)).
    { apply (CI_log _ _ _ l); [exact H|]. apply (slog_nosrc [CEOp p]). repeat constructor. }
    destruct p as [o|o| |j|v|e| |d].
    + destruct (m o); [exact H0|]. destruct md; cbn [k_k k_bk k_log]; kk; exact H0.
    + destruct (m o) as [u|]; [|exact H0]. destruct (u_handle u); [|exact H0].
      destruct (is_outer_mode md); cbn [k_k k_bk k_log]; kk; exact H0.
    + destruct reach; cbn [k_k k_bk k_log]; kk; exact H0.
    + destruct (nth_error (handles b) j) as [[cid|]|] eqn:E; cbn [k_k k_bk k_log]; try exact H0.
      * destruct (ci_refs _ _ _ _ H0 cid (or_introl (nth_error_In _ _ E))) as [G1 G2].
        pose proof (CI_comp_dispose b _ _ _ cid H0 G1 G2) as G.
        destruct (Connectable.comp_dispose cid b) as [b' evs]. exact G.
      * apply (CI_log _ _ _ (CEOp (CDisc j) :: l)); [exact H0|].
        apply (slog_nosrc [CERaised attribute_exn]). repeat constructor.
    + cbn [k_k k_bk k_log]. kk. apply (CI_kc _ _ _ _ _ H0). intros x Hx. apply in_app_or in Hx.
      destruct Hx as [Hx|Hx]; [apply kcids_srcs in Hx; exact Hx|exact (ci_len _ _ _ _ H0 x Hx)].
    + cbn [k_k k_bk k_log]. kk. apply (CI_kc _ _ _ _ _ H0). intros x Hx. apply in_app_or in Hx.
      destruct Hx as [Hx|Hx]; [apply kcids_srcs in Hx; exact Hx|exact (ci_len _ _ _ _ H0 x Hx)].
    + cbn [k_k k_bk k_log]. kk. apply (CI_kc _ _ _ _ _ H0). intros x Hx. apply in_app_or in Hx.
      destruct Hx as [Hx|Hx]; [apply kcids_srcs in Hx; exact Hx|exact (ci_len _ _ _ _ H0 x Hx)].
    + cbn [k_k k_bk k_log]. kk. exact H0.

  - (* KS *)
    destruct (e_exec ei st) as [[st' pushed] evs].
    set (l' := rev (map (fun e => match e with
                                  | VOp p => CECall p | VGot o n => CEGot o n | VRaised x => CERaised x
                                  end) evs) ++ l).
    assert (H0 : CI b (kcids k) (pend k) l').
    { apply (CI_log _ _ _ l); [exact H|]. apply slog_nosrc. apply Forall_rev. apply Forall_forall.
      intros e He. apply in_map_iff in He. destruct He as [x [<- _]]. destruct x; exact I. }
    destruct (fold_left _ evs None) as [[o n]|]; cbn [k_k k_bk k_log]; kk; [|exact H0].
    destruct (is_terminal n && is_outer_mode md); kk; exact H0.
  - (* KInc *)
    cbn [k_k k_bk k_log]. kk.
    assert (H0 : CI (set_count (count b + 1)%Z b) (kcids k) (pend k) l).
    { apply (CI_book b); [exact H|reflexivity|reflexivity|]. intros cid G. left. exact G. }
    match goal with |- context [if ?c then [KConnect ?w] else []] => destruct c end; kk; exact H0.
  - (* KRet *)
    destruct (m o) as [u|]; [|exact H]. destruct (u_sad_disposed u); cbn [k_k k_bk k_log]; kk; exact H.
  - (* KHandle *)
    destruct (m o) as [u|]; exact H.
  - (* KOuter *)
    destruct (m o) as [x|]; [|exact H]. destruct (u_sad_disposed x); [exact H|].
    destruct (u_sad_set x); [|exact H]. destruct u; cbn [k_k k_bk k_log]; kk; exact H.
  - (* KDec *)
    destruct md as [| |n]; [exact H| |].
    + assert (H0 : CI (set_count (count b - 1)%Z b) (kcids k) (pend k) l).
      { apply (CI_book b); [exact H|reflexivity|reflexivity|]. intros cid G. left. exact G. }
      match goal with |- context [if ?c then _ else _] => destruct c end; [|exact H0].
      destruct (rc_sub (set_count (count b - 1)%Z b)) as [cid|] eqn:E; [|exact H0].
      destruct (ci_refs _ _ _ _ H0 cid (or_intror (or_introl E))) as [G1 G2].
      pose proof (CI_comp_dispose _ _ _ _ cid H0 G1 G2) as G.
      destruct (Connectable.comp_dispose cid _) as [b' evs]. exact G.
    + apply (CI_book b); [exact H|reflexivity|reflexivity|]. intros cid G. left. exact G.
  - (* KConnect *)
    destruct (has_sub b) eqn:Eh; cbn [k_k k_bk k_log].
    + apply CI_conn_return; [exact H|]. intros cid G. left. right. right. exact G.
    + assert (Hp : pend k = []).
      { destruct (ci_pend _ _ _ _ H) as [G|[n [_ [_ G]]]]; [exact G|congruence]. }
      kk. rewrite Hp. cbn [app].
      assert (H' : CI b (kcids k) [] l) by (rewrite <- Hp; exact H).
      pose proof (CI_connect b _ l H' Eh) as G. fold (blen b).
      apply (CI_kc _ _ _ _ _ G). intros x Hx. apply in_app_or in Hx.
      destruct Hx as [Hx|Hx]; [apply kcids_KSrc in Hx; subst x|apply (ci_len _ _ _ _ G); exact Hx].
      apply (ci_len _ _ _ _ G). left. reflexivity.
  - (* KConnRet *)
    cbn [k_k k_bk k_log]. rewrite kcids_cons, pend_cons in H. cbn [icids ipend app] in H.
    assert (Hlt : cid < blen b) by (apply (ci_len _ _ _ _ H); left; reflexivity).
    pose proof (CI_connret b _ _ l cid w H Hlt) as G. cbn zeta in G.
    destruct (if s_sad_disposed (get_conn b cid) then _ else _) as [c1 evs]. cbn [fst snd] in G.
    apply (CI_kc _ _ _ _ _ G). intros x Hx.
    assert (E : forall w r b0, blen (conn_return w r b0) = blen b0) by (intros [] ? ?; reflexivity).
    rewrite E. change (blen (set_cur (Some cid) (put_conn cid c1 b))) with (blen (put_conn cid c1 b)).
    rewrite blen_put. apply (ci_len _ _ _ _ H). right. exact Hx.
  - (* KSrc *)
    rewrite kcids_cons, pend_cons in H. cbn [icids ipend app] in H.
    assert (Hlt : cid < blen b) by (apply (ci_len _ _ _ _ H); left; reflexivity).
    assert (H0 : CI b (kcids k) (pend k) l).
    { apply (CI_kc _ _ _ _ _ H). intros x Hx. apply (ci_len _ _ _ _ H). right. exact Hx. }
    destruct (negb (s_live (get_conn b cid))); [exact H0|].
    destruct (s_stopped (get_conn b cid)); [exact H0|].
    destruct n as [v|e|]; cbn [k_k k_bk k_log]; kk.
    + exact H0.
    + apply CI_put_same; [exact H|]. unfold same4. cbn. tauto.
    + apply CI_put_same; [exact H|]. unfold same4. cbn. tauto.
  - (* KSrcFin *)
    rewrite kcids_cons, pend_cons in H. cbn [icids ipend app] in H.
    assert (Hlt : cid < blen b) by (apply (ci_len _ _ _ _ H); left; reflexivity).
    pose proof (CI_sado b _ _ l cid H Hlt) as G.
    destruct (Connectable.sado_dispose cid (get_conn b cid)) as [c1 evs]. cbn [fst snd k_k k_bk k_log] in *.
    apply (CI_kc _ _ _ _ _ G). intros x Hx. rewrite blen_put. apply (ci_len _ _ _ _ H). right. exact Hx.
Qed.

Lemma krun_ind (P : kcfg -> Prop) :
  (forall c, P c -> P (stepk c)) -> forall n c, P c -> P (runk n c).
Proof.
  intros Hs. induction n as [|n IH]; intros c Hc; [exact Hc|].
  cbn [krun]. destruct (k_k c); [exact Hc|]. apply IH. apply Hs. exact Hc.
Qed.

Context (e_drain : list E_in).

Lemma kcids_prog top : kcids (prog e_drain md top) = [].
Proof.
  unfold prog. kk.
  assert (E : kcids (match md with MAuto 0 => [@KConnect A E_in ByAuto] | _ => [] end) = []).
  { destruct md as [| |[|n]]; reflexivity. }
  rewrite E. cbn [app]. induction top as [|p t IH]; [reflexivity|]. cbn [flat_map]. kk. exact IH.
Qed.

Lemma pend_prog top : pend (prog e_drain md top) = [].
Proof.
  unfold prog. kk.
  assert (E : pend (match md with MAuto 0 => [@KConnect A E_in ByAuto] | _ => [] end) = []).
  { destruct md as [| |[|n]]; reflexivity. }
  rewrite E. cbn [app]. induction top as [|p t IH]; [reflexivity|]. cbn [flat_map]. kk. exact IH.
Qed.

Lemma CI_init st0 top : CIc (kinit e_drain md st0 top).
Proof.
  unfold CIc, kinit. cbn [k_bk k_k k_log]. rewrite kcids_prog, pend_prog.
  constructor; cbn; try tauto; try lia; try discriminate.
  intros cid [[]|[G|G]]; discriminate.
Qed.

(* ---- C24, the connection: theorems on ALL call trees ---- *)
Theorem reachable_CI st0 top fuel : CIc (runk fuel (kinit e_drain md st0 top)).
Proof. apply krun_ind; [apply CI_step|apply CI_init]. Qed.

(* the source's log alternates subscribe c / unsubscribe c: at most one subscription at any time *)
Theorem source_subscribed_at_most_once st0 top fuel :
  src_state (src_log (klog_of (runk fuel (kinit e_drain md st0 top)))) <> None.
Proof.
  pose proof (ci_log _ _ _ _ (reachable_CI st0 top fuel)) as H. unfold slog in H.
  unfold klog_of. rewrite H. discriminate.
Qed.

(* ... and none while disconnected *)
Theorem no_source_subscription_while_disconnected st0 top fuel :
  let c := runk fuel (kinit e_drain md st0 top) in
  has_sub (k_bk c) = false -> src_state (src_log (klog_of c)) = Some None.
Proof.
  intros c Hh. pose proof (reachable_CI st0 top fuel) as H. fold c in H.
  pose proof (ci_log _ _ _ _ H) as Hl. unfold slog in Hl. unfold klog_of. rewrite Hl.
  assert (E : last_live (k_bk c) = false).
  { unfold last_live. destruct (blen (k_bk c)) as [|n] eqn:En; [reflexivity|].
    destruct (s_live (get_conn (k_bk c) n)) eqn:G; [|reflexivity].
    rewrite (ci_comp _ _ _ _ H n) in G; [discriminate|lia|apply (ci_off _ _ _ _ H Hh); lia]. }
  now rewrite E.
Qed.

(* the subscription that is open according to the log is the source record that is live, and it
   belongs to the latest connection *)
Theorem open_subscription_is_the_latest_connection st0 top fuel cid :
  let c := runk fuel (kinit e_drain md st0 top) in
  cid < blen (k_bk c) -> s_live (get_conn (k_bk c) cid) = true ->
  blen (k_bk c) = S cid /\ src_state (src_log (klog_of c)) = Some (Some cid).
Proof.
  intros c Hlt Hl. pose proof (reachable_CI st0 top fuel) as H. fold c in H.
  pose proof (CI_live_last _ _ _ _ cid H Hlt Hl) as Hb. split; [exact Hb|].
  pose proof (ci_log _ _ _ _ H) as G. unfold slog in G. unfold klog_of. rewrite G.
  unfold last_live. rewrite Hb. cbn [pred]. now rewrite Hl.
Qed.

(* connect(): while connected nothing happens (the caller gets the current composite back);
   while disconnected the source is subscribed exactly once, before anything else *)
Theorem connect_while_connected st b m w k l :
  has_sub b = true ->
  stepk (KCfg st b m (KConnect w :: k) l) = KCfg st (conn_return w (cur b) b) m k l.
Proof. intros H. cbn. now rewrite H. Qed.

Theorem connect_while_disconnected st b m w k l :
  has_sub b = false ->
  stepk (KCfg st b m (KConnect w :: k) l) =
  KCfg st (set_conns (conns b ++ [fresh_sconn]) (set_has true b)) m
       (map (KSrc (blen b)) cold ++ KConnRet (blen b) w :: k) (CESSub (blen b) :: l).
Proof. intros H. cbn. now rewrite H. Qed.

Definition is_ssub (e : cevent) : bool := match e with CESSub _ => true | _ => false end.
Definition nssub (l : list cevent) : nat := length (filter is_ssub l).

Lemma nssub_app l1 l2 : nssub (l1 ++ l2) = nssub l1 + nssub l2.
Proof. unfold nssub. now rewrite filter_app, app_length. Qed.

Lemma nssub_sado cid c : nssub (rev (snd (sado_dispose cid c))) = 0.
Proof.
  unfold Connectable.sado_dispose, Connectable.src_dispose. cbn [s_sad_disposed s_sad_set s_live].
  destruct (s_sad_disposed c); [reflexivity|]. destruct (s_sad_set c); [|reflexivity].
  destruct (s_live c); reflexivity.
Qed.

Lemma nssub_comp cid b : nssub (rev (snd (comp_dispose cid b))) = 0.
Proof.
  unfold Connectable.comp_dispose. destruct (comp_disposed (get_conn b cid)); [reflexivity|].
  match goal with |- context [Connectable.sado_dispose cid ?c] => pose proof (nssub_sado cid c) as H;
    destruct (Connectable.sado_dispose cid c) as [c2 evs] end. exact H.
Qed.

Lemma nssub_map_ev (evs : list (@sev A E_op)) :
  nssub (rev (map (fun e => match e with
                            | VOp p => CECall p | VGot o n => CEGot o n | VRaised x => CERaised x
                            end) evs)) = 0.
Proof.
  induction evs as [|e evs IH]; [reflexivity|]. cbn [map rev]. rewrite nssub_app, IH. destruct e; reflexivity.
Qed.

(* nothing else ever subscribes the source: the number of subscriptions grows by one exactly at a
   connect() made while disconnected *)
Ltac ns := cbn [k_log k_k k_bk]; unfold nssub; cbn [filter is_ssub length]; lia.

Theorem only_connect_subscribes c :
  nssub (k_log (stepk c)) =
  nssub (k_log c) + match k_k c with
                    | KConnect _ :: _ => if has_sub (k_bk c) then 0 else 1
                    | _ => 0
                    end.
Proof.
  destruct c as [st b m k l]. unfold kstep. cbn [k_k k_bk k_log k_out k_eng].
  destruct k as [|i k]; [ns|].
  destruct i as [p|ei|o|o|o|o u| |w|cid w|cid n|cid].
  - destruct p as [o|o| |j|v|e| |d].
    + destruct (m o); [ns|]. destruct md; ns.
    + destruct (m o) as [u|]; [|ns]. destruct (u_handle u); [|ns]. destruct (is_outer_mode md); ns.
    + destruct reach; ns.
    + destruct (nth_error (handles b) j) as [[cid|]|]; try (ns).
      pose proof (nssub_comp cid b) as G. destruct (Connectable.comp_dispose cid b) as [b' evs].
      cbn [k_log snd] in *. rewrite nssub_app, G. ns.
    + ns.
    + ns.
    + ns.
    + ns.
  - destruct (e_exec ei st) as [[st' pushed] evs].
    pose proof (nssub_map_ev evs) as G.
    destruct (fold_left _ evs None) as [[o n]|]; cbn [k_log]; rewrite nssub_app, G; ns.
  - ns.
  - destruct (m o) as [u|]; [|ns]. destruct (u_sad_disposed u); ns.
  - destruct (m o) as [u|]; ns.
  - destruct (m o) as [x|]; [|ns]. destruct (u_sad_disposed x); [ns|].
    destruct (u_sad_set x); ns.
  - destruct md as [| |n]; [ns| |ns].
    match goal with |- context [if ?c then _ else _] => destruct c end; [|ns].
    destruct (rc_sub _) as [cid|]; [|ns].
    match goal with |- context [Connectable.comp_dispose cid ?b1] => pose proof (nssub_comp cid b1) as G;
      destruct (Connectable.comp_dispose cid b1) as [b' evs] end.
    cbn [k_log snd] in *. rewrite nssub_app, G. ns.
  - destruct (has_sub b); ns.
  - destruct (s_sad_disposed (get_conn b cid)).
    + unfold Connectable.src_dispose. destruct (s_live (get_conn b cid)); cbn; unfold nssub; cbn; lia.
    + cbn; unfold nssub; cbn; lia.
  - destruct (negb (s_live (get_conn b cid))); [ns|]. destruct (s_stopped (get_conn b cid)); [ns|].
    destruct n; ns.
  - pose proof (nssub_sado cid (get_conn b cid)) as G.
    destruct (Connectable.sado_dispose cid (get_conn b cid)) as [c1 evs]. cbn [k_log snd] in *.
    rewrite nssub_app, G. ns.
Qed.

(* a notification of the source reaches the subject only through a subscription that is alive
   (which, by [open_subscription_is_the_latest_connection], is THE open subscription of the
   latest connection) and whose observer has not seen a terminal notification *)
Theorem source_notification_dropped st b m cid n k l :
  s_live (get_conn b cid) = false \/ s_stopped (get_conn b cid) = true ->
  stepk (KCfg st b m (KSrc cid n :: k) l) = KCfg st b m k l.
Proof.
  intros H. cbn. destruct (s_live (get_conn b cid)); cbn; [|reflexivity].
  destruct H as [H|H]; [discriminate|]. now rewrite H.
Qed.

Theorem source_notification_forwarded st b m cid v k l :
  s_live (get_conn b cid) = true -> s_stopped (get_conn b cid) = false ->
  stepk (KCfg st b m (KSrc cid (Next v) :: k) l) = KCfg st b m (map KS (e_call (SNext v)) ++ k) l.
Proof. intros H1 H2. cbn. now rewrite H1, H2. Qed.
End Facts.

(* ---- multicast(subject_factory, mapper): every subscription is its own connection ---- *)
Section MapperFacts.
Context {A E_st E_in E_op : Type}.
Context (e_exec : E_in -> E_st -> E_st * list E_in * list (@sev A E_op)).
Context (e_call : @sop A -> list E_in).
Context (e_drain : list E_in).
Context (cold : list (ev A)) (st0 : E_st) (fuel : nat).
Notation kc := (@kcfg A E_st E_in E_op).
Notation csil := (fun (_ _ : nat) => @nil (@cop A)).
Notation CIi := (@CIc A E_st E_in E_op).

Lemma kcids_ops ops :
  kcids (flat_map (fun p : @cop A => KOp p :: map (@KS A E_in) e_drain) ops) = [].
Proof.
  induction ops as [|p t IH]; [reflexivity|]. cbn [flat_map].
  rewrite kcids_app, kcids_cons, kcids_KS, IH. reflexivity.
Qed.
Lemma pend_ops ops :
  pend (flat_map (fun p : @cop A => KOp p :: map (@KS A E_in) e_drain) ops) = [].
Proof.
  induction ops as [|p t IH]; [reflexivity|]. cbn [flat_map].
  rewrite pend_app, pend_cons, pend_KS, IH. reflexivity.
Qed.

Lemma CI_feed (c : kc) ops : CIi c -> CIi (feed e_exec e_call e_drain cold fuel c ops).
Proof.
  intros H. unfold feed. apply krun_ind; [apply CI_step|].
  unfold CIc in *. cbn [k_bk k_k k_log]. now rewrite kcids_app, pend_app, kcids_ops, pend_ops, !app_nil_r.
Qed.

Definition all_CI (insts : list (nat * kc)) : Prop := Forall (fun x => CIi (snd x)) insts.

Lemma mall_CI sel : forall insts rank,
  all_CI insts -> all_CI (fst (mall e_exec e_call e_drain cold fuel sel rank insts)).
Proof.
  induction insts as [|[o c] t IH]; intros rank H; [constructor|].
  inversion H as [|? ? Hc Ht]; subst. cbn [mall].
  specialize (IH (S rank) Ht). destruct (mall e_exec e_call e_drain cold fuel sel (S rank) t) as [t' evs].
  cbn [fst] in *. constructor; [|exact IH]. cbn [snd] in *.
  destruct (sel o); [exact Hc|apply CI_feed; exact Hc].
Qed.

Lemma CI_fresh : CIi (KCfg st0 fresh_book (fun _ => None) [] []).
Proof.
  unfold CIc. cbn. constructor; cbn; try tauto; try lia; try discriminate.
  intros cid [[]|[G|G]]; discriminate.
Qed.

Lemma mstep_CI insts p :
  all_CI insts -> all_CI (fst (mstep e_exec e_call e_drain cold st0 fuel insts p)).
Proof.
  intros H. destruct p as [o|o| |j|v|e| |d]; cbn [mstep]; try (apply mall_CI; exact H); try exact H.
  destruct (existsb _ insts); [exact H|]. cbn [fst]. apply Forall_app. split; [exact H|].
  constructor; [|constructor]. cbn [snd]. apply CI_feed. apply CI_fresh.
Qed.

(* every per-subscriber connection of a run of the mapper form satisfies the connection
   invariant: its source subscription log alternates, nothing is subscribed while it is
   disconnected *)
Theorem mapper_each_subscription_is_a_connection top : forall insts,
  all_CI insts -> all_CI (fst (mrun e_exec e_call e_drain cold st0 fuel insts top)).
Proof.
  induction top as [|p t IH]; intros insts H; [exact H|]. cbn [mrun].
  pose proof (mstep_CI insts p H) as G.
  destruct (mstep e_exec e_call e_drain cold st0 fuel insts p) as [i1 e1]. cbn [fst] in G.
  specialize (IH i1 G). destruct (mrun e_exec e_call e_drain cold st0 fuel i1 t) as [i2 e2]. exact IH.
Qed.

Theorem mapper_source_log_alternates top o c :
  In (o, c) (fst (mrun e_exec e_call e_drain cold st0 fuel [] top)) ->
  src_state (src_log (klog_of c)) <> None /\
  (has_sub (k_bk c) = false -> src_state (src_log (klog_of c)) = Some None).
Proof.
  intros Hin. pose proof (mapper_each_subscription_is_a_connection top [] (Forall_nil _)) as H.
  unfold all_CI in H. rewrite Forall_forall in H. specialize (H (o, c) Hin). cbn [snd] in H.
  pose proof (ci_log _ _ _ _ H) as Hl. unfold slog in Hl. unfold klog_of. rewrite Hl. split; [discriminate|].
  intros Hh.
  assert (E : last_live (k_bk c) = false).
  { unfold last_live. destruct (blen (k_bk c)) as [|n] eqn:En; [reflexivity|].
    destruct (s_live (get_conn (k_bk c) n)) eqn:G; [|reflexivity].
    rewrite (ci_comp _ _ _ _ H n) in G; [discriminate|lia|apply (ci_off _ _ _ _ H Hh); lia]. }
  now rewrite E.
Qed.
End MapperFacts.
