(* C24: what a subscriber of a multicast observable receives.  For Subject / BehaviorSubject /
   AsyncSubject and histories of top-level calls (subscribers do not call back), the subject's side
   of a run of Subjects/Connectable.v's machine is a run of the engine of Subjects/Subject.v on the
   flat history of the calls made on the subject, hence (C20/C21/C23 refinement) every subscriber's
   view is the family's [oview] of that history. *)
From RxVerif Require Import Base.Prelude Ops.Machine Subjects.Subject Subjects.Behavior Subjects.Async
  Subjects.Family Subjects.SubjectFacts Subjects.FamilyFacts Subjects.Replay Subjects.Connectable.
Require Import Lia.
Local Open Scope nat_scope.

Section Frame.
Context {A : Type} (C : @cls A).
Notation sil := (fun (_ _ : nat) => @nil (@op A)).

(* one instruction of the subject engine does not look at the rest of the continuation nor at the log *)
Lemma step_frame i s m k l :
  step C sil (Cfg s m (i :: k) l) =
  let c := step C sil (Cfg s m [i] []) in Cfg (c_st c) (c_obs c) (c_k c ++ k) (c_rlog c ++ l).
Proof.
  unfold step. cbn [c_k c_st c_obs c_rlog].
  destruct i as [p|o n|o|o sub].
  - unfold step_op. destruct p as [o|o|v|e| |].
    + destruct (m o); [reflexivity|]. destruct (c_subscribe C s o) as [[[s' is] sub]|]; cbn.
      * now rewrite <- app_assoc.
      * reflexivity.
    + destruct (m o) as [os|]; [|reflexivity]. destruct (handle os); [|reflexivity].
      destruct (ado_dispose s os o). reflexivity.
    + destruct (is_disposed s); [reflexivity|]. destruct (is_stopped s); [reflexivity|].
      destruct (c_next C s v). cbn. rewrite ?app_nil_r. reflexivity.
    + destruct (is_disposed s); [reflexivity|]. destruct (is_stopped s); [reflexivity|].
      destruct (c_error C (set_stopped true s) e). cbn. rewrite ?app_nil_r. reflexivity.
    + destruct (is_disposed s); [reflexivity|]. destruct (is_stopped s); [reflexivity|].
      destruct (c_completed C (set_stopped true s)). cbn. rewrite ?app_nil_r. reflexivity.
    + reflexivity.
  - destruct (m o) as [os|]; [|reflexivity]. destruct (a_stopped os); [reflexivity|]. destruct n; reflexivity.
  - destruct (m o) as [os|]; [|reflexivity]. destruct (ado_dispose s os o). reflexivity.
  - destruct (m o) as [os|]; [|reflexivity]. destruct sub as [sb|]; [|reflexivity].
    destruct (sad_set sb s os o). reflexivity.
Qed.
End Frame.

Section View.
Context {A : Type} (pynone : A) (K : kind) (v0 : A).
Notation C := (cls_of pynone K).
Notation sil := (fun (_ _ : nat) => @nil (@op A)).
Notation stepf := (step C sil).
Notation runf := (run C sil).
Notation scfg := (@Subject.cfg A).

(* the subject's side of a run of the connectable machine: the engine is stepped, and a new call is
   made only when the previous one has returned *)
Inductive lazy_run : list (@op A) -> scfg -> Prop :=
| lr_init : lazy_run [] (Cfg (init_state v0) (fun _ => None) [] [])
| lr_step hs sc : lazy_run hs sc -> c_k sc <> [] -> lazy_run hs (stepf sc)
| lr_call hs sc p : lazy_run hs sc -> c_k sc = [] ->
                    lazy_run (hs ++ [p]) (Cfg (c_st sc) (c_obs sc) [IOp p] (c_rlog sc)).

Lemma lazy_run_flat hs sc : lazy_run hs sc -> forall rest,
  reaches pynone K (init_cfg v0 (hs ++ rest))
          (Cfg (c_st sc) (c_obs sc) (c_k sc ++ map IOp rest) (c_rlog sc)).
Proof.
  induction 1 as [|hs sc H IH Hk|hs sc p H IH Hk]; intros rest.
  - apply reaches_refl.
  - eapply reaches_trans; [apply IH|]. destruct sc as [s m k l]. cbn [c_k c_st c_obs c_rlog] in *.
    destruct k as [|i k]; [contradiction|].
    apply reaches_step_eq. change (silent) with sil.
    cbn [app]. rewrite (step_frame C i s m (k ++ map IOp rest) l).
    rewrite (step_frame C i s m k l). cbn [c_k c_st c_obs c_rlog]. now rewrite app_assoc.
  - rewrite <- app_assoc. cbn [app c_k c_st c_obs c_rlog].
    specialize (IH (p :: rest)). rewrite Hk in IH. exact IH.
Qed.

Lemma reaches_final_unique c c1 c2 :
  reaches pynone K c c1 -> reaches pynone K c c2 -> c_k c1 = [] -> c_k c2 = [] -> c1 = c2.
Proof.
  intros [n1 H1] [n2 H2] K1 K2.
  destruct (Nat.le_ge_cases n1 n2) as [L|L].
  - replace n2 with (n1 + (n2 - n1)) in H2 by lia. rewrite run_add, H1, run_done in H2 by exact K1. exact H2.
  - replace n1 with (n2 + (n1 - n2)) in H1 by lia. rewrite run_add, H2, run_done in H1 by exact K2. now symmetry.
Qed.

(* a finished lazy run is the run of the flat history of its calls: its log is the specification's *)
Lemma lazy_run_spec hs sc : lazy_run hs sc -> c_k sc = [] -> rev (c_rlog sc) = spec K v0 hs.
Proof.
  intros H Hk. pose proof (lazy_run_flat hs sc H []) as G. rewrite Hk, app_nil_r in G. cbn [map app] in G.
  destruct (sim_history pynone K hs (init_state v0) (fun _ => None) (Abs [] [] (g_init v0)) [] (R_init K v0))
    as [s' [m' G']].
  pose proof (reaches_final_unique _ _ _ G G' eq_refl eq_refl) as E.
  inversion E as [[E1 E2 E3]]. rewrite E3, app_nil_r, rev_involutive. reflexivity.
Qed.
End View.

(* ---- shape of the continuation when subscribers do not call back (any engine) ---- *)
Section Shape.
Context {A E_st E_in E_op : Type}.
Context (e_exec : E_in -> E_st -> E_st * list E_in * list (@sev A E_op)).
Context (e_call : @sop A -> list E_in).
Context (md : mode) (reach : bool) (cold : list (ev A)).
Notation kinstr := (@kinstr A E_in).
Notation csil := (fun (_ _ : nat) => @nil (@cop A)).
Notation stepk := (kstep e_exec e_call md reach cold csil).

Definition is_KS (i : kinstr) : bool := match i with KS _ => true | _ => false end.
(* instructions that never make a call on the subject *)
Definition quiet (i : kinstr) : bool :=
  match i with
  | KOuter _ false | KDec | KSrcFin _ | KHandle _ | KRet _ | KConnRet _ _ => true
  | _ => false
  end.
Definition noKS (k : list kinstr) : bool := forallb (fun i => negb (is_KS i)) k.
Fixpoint shape (k : list kinstr) : bool :=
  match k with
  | [] => true
  | i :: k' => if is_KS i || quiet i then shape k' else noKS k'
  end.

Lemma noKS_app k1 k2 : noKS (k1 ++ k2) = noKS k1 && noKS k2.
Proof. apply forallb_app. Qed.
Lemma noKS_shape k : noKS k = true -> shape k = true.
Proof.
  induction k as [|i k IH]; [reflexivity|]. cbn. intros H. apply andb_prop in H. destruct H as [H1 H2].
  destruct (is_KS i || quiet i); auto.
Qed.
Lemma shape_app k1 k2 : shape k1 = true -> noKS k2 = true -> shape (k1 ++ k2) = true.
Proof.
  induction k1 as [|i k1 IH]; intros H1 H2; [now apply noKS_shape|].
  cbn in *. destruct (is_KS i || quiet i); [auto|]. rewrite noKS_app, H1, H2. reflexivity.
Qed.
Lemma shape_pre k1 k2 : forallb (fun i => is_KS i || quiet i) k1 = true -> shape k2 = true -> shape (k1 ++ k2) = true.
Proof.
  induction k1 as [|i k1 IH]; intros H1 H2; [exact H2|]. cbn in *. apply andb_prop in H1. destruct H1 as [H1 H3].
  rewrite H1. auto.
Qed.
Lemma pre_KS (l : list E_in) : forallb (fun i : kinstr => is_KS i || quiet i) (map (@KS A E_in) l) = true.
Proof. induction l; cbn; auto. Qed.
Lemma noKS_KOp l : noKS (map (@KOp A E_in) l) = true.
Proof. induction l; cbn; auto. Qed.
Lemma noKS_KSrc cid l : noKS (map (@KSrc A E_in cid) l) = true.
Proof. induction l; cbn; auto. Qed.
Lemma noKS_srcs n l : noKS (map (fun cid => @KSrc A E_in cid n) l) = true.
Proof. induction l; cbn; auto. Qed.

Theorem shape_step c : shape (k_k c) = true -> shape (k_k (stepk c)) = true.
Proof.
  destruct c as [st b m k l]. unfold kstep. cbn [k_k k_bk k_log k_out k_eng].
  destruct k as [|i k]; [auto|]. intros H.
  destruct i as [p|ei|o|o|o|o u| |w|cid w|cid n|cid]; cbn [shape is_KS quiet orb] in H.
  - assert (Hs : shape k = true) by now apply noKS_shape.
    destruct p as [o|o| |j|v|e| |d].
    + destruct (m o); [exact Hs|]. destruct md; cbn [k_k].
      * apply shape_pre; [apply pre_KS|]. cbn. exact Hs.
      * cbn. exact H.
      * cbn. exact H.
    + destruct (m o) as [u|]; [|exact Hs]. destruct (u_handle u); [|exact Hs].
      destruct (is_outer_mode md); cbn [k_k]; [cbn; exact H|]. apply shape_pre; [apply pre_KS|exact Hs].
    + destruct reach; cbn [k_k]; [cbn; exact H|exact Hs].
    + destruct (nth_error (handles b) j) as [[cid|]|]; try exact Hs.
      destruct (comp_dispose cid b). exact Hs.
    + cbn [k_k]. apply noKS_shape. now rewrite noKS_app, noKS_srcs.
    + cbn [k_k]. apply noKS_shape. now rewrite noKS_app, noKS_srcs.
    + cbn [k_k]. apply noKS_shape. now rewrite noKS_app, noKS_srcs.
    + cbn [k_k]. apply shape_pre; [apply pre_KS|exact Hs].
  - destruct (e_exec ei st) as [[st' pushed] evs].
    destruct (fold_left _ evs None) as [[o n]|]; cbn [k_k map app].
    + apply shape_pre; [apply pre_KS|]. destruct (is_terminal n && is_outer_mode md); cbn; exact H.
    + apply shape_pre; [apply pre_KS|exact H].
  - cbn [k_k]. apply shape_pre; [apply pre_KS|].
    match goal with |- context [if ?c then [KConnect ?w] else []] => destruct c end; cbn; [exact H|now apply noKS_shape].
  - destruct (m o) as [u|]; [|exact H]. destruct (u_sad_disposed u); cbn; exact H.
  - destruct (m o) as [u|]; exact H.
  - destruct (m o) as [x|]; [|destruct u; [now apply noKS_shape|exact H]].
    destruct (u_sad_disposed x); [destruct u; [now apply noKS_shape|exact H]|].
    destruct (u_sad_set x); [|destruct u; [now apply noKS_shape|exact H]].
    destruct u; cbn [k_k].
    + apply shape_pre; [apply pre_KS|]. cbn. now apply noKS_shape.
    + cbn. exact H.
  - destruct md as [| |n]; [exact H| |exact H].
    match goal with |- context [if ?c then _ else _] => destruct c end; [|exact H].
    destruct (rc_sub _) as [cid|]; [|exact H]. destruct (comp_dispose cid _). exact H.
  - destruct (has_sub b); cbn [k_k]; [now apply noKS_shape|].
    apply noKS_shape. rewrite noKS_app, noKS_KSrc. cbn. exact H.
  - destruct (if s_sad_disposed (get_conn b cid) then _ else _). exact H.
  - assert (Hs : shape k = true) by now apply noKS_shape.
    destruct (negb (s_live (get_conn b cid))); [exact Hs|]. destruct (s_stopped (get_conn b cid)); [exact Hs|].
    destruct n; cbn [k_k]; (apply shape_pre; [apply pre_KS|]); cbn; auto.
  - destruct (sado_dispose cid (get_conn b cid)). exact H.
Qed.
End Shape.

(* ---- the subject's side of a run of the connectable machine (Subject / Behavior / Async) ---- *)
Section Sim.
Context {A : Type} (pynone : A) (K : kind) (v0 : A).
Context (md : mode) (reach : bool) (cold : list (ev A)).
Notation C := (cls_of pynone K).
Notation sil := (fun (_ _ : nat) => @nil (@op A)).
Notation csil := (fun (_ _ : nat) => @nil (@cop A)).
Notation stepf := (step C sil).
Notation kinstr := (@kinstr A (@instr A)).
Notation kcfg := (@kcfg A (@sync_st A) (@instr A) (@op A)).
Notation cevent := (@cevent A (@op A)).
Notation stepk := (kstep (sync_exec C) sync_call md reach cold csil).
Notation runk := (krun (sync_exec C) sync_call md reach cold csil).

Definition subj_k (k : list kinstr) : list (@instr A) :=
  flat_map (fun i => match i with KS ei => [ei] | _ => [] end) k.
Definition subj_l (l : list cevent) : list (@event A) :=
  flat_map (fun e => match e with CECall p => [EOp p] | CEGot o n => [EGot o n] | _ => [] end) l.
Definition noraise (l : list (@event A)) : list (@event A) :=
  filter (fun e => match e with ERaised _ => false | _ => true end) l.

Lemma subj_k_app k1 k2 : subj_k (k1 ++ k2) = subj_k k1 ++ subj_k k2.
Proof. apply flat_map_app. Qed.
Lemma subj_l_app k1 k2 : subj_l (k1 ++ k2) = subj_l k1 ++ subj_l k2.
Proof. apply flat_map_app. Qed.
Lemma subj_k_KS l : subj_k (map (@KS A _) l) = l.
Proof. induction l; cbn; [reflexivity|]. now f_equal. Qed.
Lemma noKS_subj_k k : noKS k = true -> subj_k k = [].
Proof.
  induction k as [|i k IH]; [reflexivity|]. cbn. intros H. apply andb_prop in H. destruct H as [H1 H2].
  destruct i; cbn in *; try discriminate; auto.
Qed.
Lemma noraise_app l1 l2 : noraise (l1 ++ l2) = noraise l1 ++ noraise l2.
Proof. apply filter_app. Qed.

Lemma subj_l_engine (r : list (@event A)) :
  subj_l (rev (map (fun e => match e with
                             | VOp p => CECall p | VGot o n => CEGot o n | VRaised x => CERaised x
                             end) (map sync_ev (rev r)))) = noraise r.
Proof.
  rewrite map_map, <- map_rev, rev_involutive.
  induction r as [|e r IH]; [reflexivity|]. cbn [map]. change (?x :: ?l) with ([x] ++ l) at 1.
  rewrite subj_l_app, IH. destruct e; reflexivity.
Qed.

Record Q (c : kcfg) (sc : @Subject.cfg A) : Prop := {
  q_st : c_st sc = fst (k_eng c);
  q_obs : c_obs sc = snd (k_eng c);
  q_k : c_k sc = subj_k (k_k c);
  q_l : noraise (c_rlog sc) = subj_l (k_log c) }.

Definition lazy_step (sc sc' : @Subject.cfg A) : Prop :=
  sc' = sc \/ (c_k sc <> [] /\ sc' = stepf sc) \/
  (c_k sc = [] /\ exists p, sc' = Cfg (c_st sc) (c_obs sc) [IOp p] (c_rlog sc)).

Lemma Q_same st b m k l sc b' m' k' l' :
  Q (KCfg st b m k l) sc -> subj_k k' = subj_k k -> subj_l l' = subj_l l ->
  exists sc', Q (KCfg st b' m' k' l') sc' /\ lazy_step sc sc'.
Proof.
  intros [h1 h2 h3 h4] Hk Hl. exists sc. split; [|left; reflexivity].
  constructor; cbn [k_eng k_k k_log] in *; congruence.
Qed.

Lemma Q_call st b m k l sc b' m' k' l' p :
  Q (KCfg st b m k l) sc -> subj_k k = [] -> subj_k k' = [IOp p] -> subj_l l' = subj_l l ->
  exists sc', Q (KCfg st b' m' k' l') sc' /\ lazy_step sc sc'.
Proof.
  intros [h1 h2 h3 h4] H0 Hk Hl. cbn [k_eng k_k k_log] in *.
  exists (Cfg (c_st sc) (c_obs sc) [IOp p] (c_rlog sc)). split.
  - constructor; cbn [k_eng k_k k_log c_st c_obs c_k c_rlog]; congruence.
  - right. right. split; [congruence|]. exists p. reflexivity.
Qed.

Lemma subj_k_cons i k : subj_k (i :: k) = (match i with KS ei => [ei] | _ => [] end) ++ subj_k k.
Proof. reflexivity. Qed.
Ltac sk := repeat first [rewrite subj_k_app | rewrite subj_k_KS | rewrite subj_k_cons]; cbn [app map sync_call].

Lemma subj_l_sado cid c : subj_l (rev (snd (@sado_dispose A (@op A) cid c))) = [].
Proof.
  unfold sado_dispose, src_dispose. cbn [s_sad_disposed s_sad_set s_live].
  destruct (s_sad_disposed c); [reflexivity|]. destruct (s_sad_set c); [|reflexivity].
  destruct (s_live c); reflexivity.
Qed.
Lemma subj_l_comp cid b : subj_l (rev (snd (@comp_dispose A (@op A) cid b))) = [].
Proof.
  unfold comp_dispose. destruct (comp_disposed (get_conn b cid)); [reflexivity|].
  match goal with |- context [sado_dispose cid ?c] => pose proof (subj_l_sado cid c) as H;
    destruct (sado_dispose cid c) as [c2 evs] end. exact H.
Qed.

Theorem sim_step c sc :
  Q c sc -> shape (k_k c) = true -> exists sc', Q (stepk c) sc' /\ lazy_step sc sc'.
Proof.
  destruct c as [st b m k l]. unfold kstep. cbn [k_k k_bk k_log k_out k_eng].
  destruct k as [|i k]; [intros H _; exists sc; split; [exact H|left; reflexivity]|].
  intros H Hs.
  destruct i as [p|ei|o|o|o|o u| |w|cid w|cid n|cid]; cbn [shape is_KS quiet orb] in Hs.
  - (* KOp *)
    pose proof (noKS_subj_k _ Hs) as Hk.
    assert (H0 : subj_k (KOp p :: k) = []) by exact Hk.
    destruct p as [o|o| |j|v|e| |d].
    + destruct (m o); [eapply Q_same; [exact H|reflexivity|reflexivity]|].
      destruct md.
      * eapply (Q_call _ _ _ _ _ _ _ _ _ _ (OSub o)); [exact H|exact H0| |reflexivity].
        sk. now rewrite Hk.
      * eapply Q_same; [exact H|reflexivity|reflexivity].
      * eapply Q_same; [exact H|reflexivity|reflexivity].
    + destruct (m o) as [x|]; [|eapply Q_same; [exact H|reflexivity|reflexivity]].
      destruct (u_handle x); [|eapply Q_same; [exact H|reflexivity|reflexivity]].
      destruct (is_outer_mode md); [eapply Q_same; [exact H|reflexivity|reflexivity]|].
      eapply (Q_call _ _ _ _ _ _ _ _ _ _ (OUnsub o)); [exact H|exact H0| |reflexivity].
      sk. now rewrite Hk.
    + destruct reach; eapply Q_same; try exact H; reflexivity.
    + destruct (nth_error (handles b) j) as [[cid|]|].
      * pose proof (subj_l_comp cid b) as G. destruct (comp_dispose cid b) as [b' evs].
        eapply Q_same; [exact H|reflexivity|]. cbn [snd] in G. now rewrite subj_l_app, G.
      * eapply Q_same; [exact H|reflexivity|reflexivity].
      * eapply Q_same; [exact H|reflexivity|reflexivity].
    + eapply Q_same; [exact H| |reflexivity]. sk. now rewrite (noKS_subj_k _ (noKS_srcs _ _)).
    + eapply Q_same; [exact H| |reflexivity]. sk. now rewrite (noKS_subj_k _ (noKS_srcs _ _)).
    + eapply Q_same; [exact H| |reflexivity]. sk. now rewrite (noKS_subj_k _ (noKS_srcs _ _)).
    + eapply Q_same; [exact H|reflexivity|reflexivity].
  - (* KS *)
    destruct H as [h1 h2 h3 h4]. cbn [k_eng k_k k_log] in *. rewrite subj_k_cons in h3.
    destruct sc as [s mo ks ls]. cbn [c_st c_obs c_k c_rlog] in *. subst s mo ks.
    unfold sync_exec.
    remember (step C sil (Cfg (fst st) (snd st) [ei] [])) as c1 eqn:E1.
    exists (stepf (Cfg (fst st) (snd st) (ei :: subj_k k) ls)). split.
    + rewrite (step_frame C ei (fst st) (snd st) (subj_k k) ls). rewrite <- E1. cbn zeta.
      destruct (fold_left _ (map sync_ev (rev (c_rlog c1))) None) as [[o n]|];
        constructor; cbn [k_eng k_k k_log c_st c_obs c_k c_rlog fst snd]; try reflexivity.
      * sk. destruct (is_terminal n && is_outer_mode md); reflexivity.
      * now rewrite subj_l_app, subj_l_engine, noraise_app, h4.
      * sk. reflexivity.
      * now rewrite subj_l_app, subj_l_engine, noraise_app, h4.
    + right. left. split; [discriminate|reflexivity].
  - (* KInc *)
    pose proof (noKS_subj_k _ Hs) as Hk.
    eapply (Q_call _ _ _ _ _ _ _ _ _ _ (OSub o)); [exact H|exact Hk| |reflexivity].
    sk. match goal with |- context [if ?c then [KConnect ?w] else []] => destruct c end; sk; now rewrite Hk.
  - (* KRet *)
    destruct (m o) as [x|]; [|eapply Q_same; [exact H|reflexivity|reflexivity]].
    destruct (u_sad_disposed x); eapply Q_same; try exact H; reflexivity.
  - (* KHandle *)
    destruct (m o) as [x|]; eapply Q_same; try exact H; reflexivity.
  - (* KOuter *)
    destruct (m o) as [x|]; [|eapply Q_same; [exact H|reflexivity|reflexivity]].
    destruct (u_sad_disposed x); [eapply Q_same; [exact H|reflexivity|reflexivity]|].
    destruct (u_sad_set x); [|eapply Q_same; [exact H|reflexivity|reflexivity]].
    destruct u.
    + pose proof (noKS_subj_k _ Hs) as Hk.
      eapply (Q_call _ _ _ _ _ _ _ _ _ _ (OUnsub o)); [exact H|exact Hk| |reflexivity]. sk. now rewrite Hk.
    + eapply Q_same; [exact H|reflexivity|reflexivity].
  - (* KDec *)
    destruct md as [| |n]; [eapply Q_same; [exact H|reflexivity|reflexivity]| |eapply Q_same; [exact H|reflexivity|reflexivity]].
    match goal with |- context [if ?c then _ else _] => destruct c end; [|eapply Q_same; [exact H|reflexivity|reflexivity]].
    destruct (rc_sub _) as [cid|]; [|eapply Q_same; [exact H|reflexivity|reflexivity]].
    match goal with |- context [comp_dispose cid ?b1] => pose proof (subj_l_comp cid b1) as G;
      destruct (comp_dispose cid b1) as [b' evs] end.
    eapply Q_same; [exact H|reflexivity|]. cbn [snd] in G. now rewrite subj_l_app, G.
  - (* KConnect *)
    destruct (has_sub b); [eapply Q_same; [exact H|reflexivity|reflexivity]|].
    eapply Q_same; [exact H| |reflexivity]. sk. now rewrite (noKS_subj_k _ (noKS_KSrc _ _)).
  - (* KConnRet *)
    destruct (s_sad_disposed (get_conn b cid)).
    + unfold src_dispose. destruct (s_live (get_conn b cid)); eapply Q_same; try exact H; reflexivity.
    + eapply Q_same; [exact H|reflexivity|reflexivity].
  - (* KSrc *)
    pose proof (noKS_subj_k _ Hs) as Hk.
    destruct (negb (s_live (get_conn b cid))); [eapply Q_same; [exact H|reflexivity|reflexivity]|].
    destruct (s_stopped (get_conn b cid)); [eapply Q_same; [exact H|reflexivity|reflexivity]|].
    destruct n as [v|e|].
    + eapply (Q_call _ _ _ _ _ _ _ _ _ _ (ONext v)); [exact H|exact Hk| |reflexivity]. sk. now rewrite Hk.
    + eapply (Q_call _ _ _ _ _ _ _ _ _ _ (OErr e)); [exact H|exact Hk| |reflexivity]. sk. now rewrite Hk.
    + eapply (Q_call _ _ _ _ _ _ _ _ _ _ ODone); [exact H|exact Hk| |reflexivity]. sk. now rewrite Hk.
  - (* KSrcFin *)
    pose proof (subj_l_sado cid (get_conn b cid)) as G.
    destruct (sado_dispose cid (get_conn b cid)) as [c1 evs].
    eapply Q_same; [exact H|reflexivity|]. cbn [snd] in G. now rewrite subj_l_app, G.
Qed.
End Sim.

Section ViewTheorem.
Context {A : Type} (pynone : A) (K : kind) (v0 : A).
Context (md : mode) (reach : bool) (cold : list (ev A)).
Notation C := (cls_of pynone K).
Notation csil := (fun (_ _ : nat) => @nil (@cop A)).
Notation kcfg := (@kcfg A (@sync_st A) (@instr A) (@op A)).
Notation cevent := (@cevent A (@op A)).
Notation stepk := (kstep (sync_exec C) sync_call md reach cold csil).
Notation runk := (krun (sync_exec C) sync_call md reach cold csil).

Lemma lazy_step_run hs sc sc' :
  lazy_run pynone K v0 hs sc -> lazy_step pynone K sc sc' -> exists hs', lazy_run pynone K v0 hs' sc'.
Proof.
  intros H [->|[[Hk ->]|[Hk [p ->]]]].
  - exists hs. exact H.
  - exists hs. now apply lr_step.
  - exists (hs ++ [p]). now apply lr_call.
Qed.

Lemma run_sim n : forall (c : kcfg) sc hs,
  Q c sc -> shape (k_k c) = true -> lazy_run pynone K v0 hs sc ->
  exists sc' hs', Q (runk n c) sc' /\ lazy_run pynone K v0 hs' sc'.
Proof.
  induction n as [|n IH]; intros c sc hs HQ Hs Hl; [exists sc, hs; auto|].
  cbn [krun]. destruct (k_k c) eqn:E; [exists sc, hs; auto|]. rewrite <- E in Hs.
  destruct (sim_step pynone K md reach cold c sc HQ Hs) as [sc1 [HQ1 Hst]].
  destruct (lazy_step_run hs sc sc1 Hl Hst) as [hs1 Hl1].
  apply (IH _ sc1 hs1 HQ1); [|exact Hl1].
  apply shape_step. exact Hs.
Qed.

Lemma subj_l_rev (l : list cevent) : subj_l (rev l) = rev (subj_l l).
Proof.
  induction l as [|e l IH]; [reflexivity|]. cbn [rev]. rewrite subj_l_app, IH.
  change (e :: l) with ([e] ++ l). rewrite subj_l_app, rev_app_distr. f_equal.
  destruct e; reflexivity.
Qed.

Lemma cview_subj o (l : list cevent) : cview o l = view o (subj_l l).
Proof.
  induction l as [|e l IH]; [reflexivity|]. change (e :: l) with ([e] ++ l). rewrite subj_l_app, view_app.
  destruct e; cbn; rewrite IH; try reflexivity. destruct (Nat.eqb o0 o); reflexivity.
Qed.

Lemma view_noraise o (l : list (@event A)) : view o (noraise l) = view o l.
Proof.
  unfold noraise. induction l as [|e l IH]; [reflexivity|]. destruct e; cbn; rewrite ?IH; reflexivity.
Qed.

Lemma noraise_rev (l : list (@event A)) : noraise (rev l) = rev (noraise l).
Proof.
  unfold noraise. induction l as [|e l IH]; [reflexivity|]. cbn [rev]. rewrite filter_app, IH.
  destruct e; cbn; rewrite ?app_nil_r; reflexivity.
Qed.

Definition ops_of_events (l : list (@event A)) : list (@op A) :=
  flat_map (fun e => match e with EOp p => [p] | _ => [] end) l.

Lemma calls_subj (l : list cevent) : calls_of l = ops_of_events (subj_l l).
Proof.
  unfold calls_of, ops_of_events. induction l as [|e l IH]; [reflexivity|].
  change (e :: l) with ([e] ++ l). rewrite subj_l_app, !flat_map_app, IH. destruct e; reflexivity.
Qed.

Lemma ops_noraise (l : list (@event A)) : ops_of_events (noraise l) = ops_of_events l.
Proof.
  unfold ops_of_events, noraise. induction l as [|e l IH]; [reflexivity|]. destruct e; cbn; rewrite ?IH; reflexivity.
Qed.

Lemma ops_got (o : nat) (N : list (ev A)) : ops_of_events (map (@EGot A o) N) = [].
Proof. induction N; cbn; auto. Qed.
Lemma ops_got_all (N : list (ev A)) (L : list nat) :
  ops_of_events (flat_map (fun o => map (@EGot A o) N) L) = [].
Proof.
  induction L as [|x L IH]; [reflexivity|]. cbn [flat_map]. unfold ops_of_events in *.
  rewrite flat_map_app, IH. fold (ops_of_events (map (@EGot A x) N)). now rewrite ops_got.
Qed.

Lemma ops_spec_op (a : @abs A) p : ops_of_events (snd (spec_op K a p)) = [].
Proof.
  unfold spec_op. destruct p as [o|o|v|e| |]; cbn [snd].
  - destruct (mem o (ab_used a)); cbn [snd]; [reflexivity|apply ops_got].
  - reflexivity.
  - unfold ops_of_events. rewrite flat_map_app. fold (ops_of_events (flat_map (fun o => map (@EGot A o) (bcast K (ab_g a) (ONext v))) (ab_subs a))).
    rewrite ops_got_all. destruct (g_status (ab_g a)); reflexivity.
  - unfold ops_of_events. rewrite flat_map_app. fold (ops_of_events (flat_map (fun o => map (@EGot A o) (bcast K (ab_g a) (OErr e))) (ab_subs a))).
    rewrite ops_got_all. destruct (g_status (ab_g a)); reflexivity.
  - unfold ops_of_events. rewrite flat_map_app. fold (ops_of_events (flat_map (fun o => map (@EGot A o) (bcast K (ab_g a) ODone)) (ab_subs a))).
    rewrite ops_got_all. destruct (g_status (ab_g a)); reflexivity.
  - reflexivity.
Qed.

Lemma ops_spec_from : forall (h : list (@op A)) a, ops_of_events (spec_from K a h) = h.
Proof.
  induction h as [|p h IH]; intros a; [reflexivity|]. cbn [spec_from].
  pose proof (ops_spec_op a p) as G.
  destruct (spec_op K a p) as [a' out]. cbn [snd] in G. unfold ops_of_events in *. cbn [flat_map app].
  rewrite flat_map_app, G, IH. reflexivity.
Qed.

Lemma Q_init top : Q (kinit [] md (sync_init v0) top) (Cfg (init_state v0) (fun _ => None) [] []).
Proof.
  constructor; cbn [k_eng k_k k_log kinit c_st c_obs c_k c_rlog sync_init fst snd]; try reflexivity.
  unfold prog. cbn [map app]. symmetry. apply noKS_subj_k.
  rewrite noKS_app. assert (E : noKS (match md with MAuto 0 => [@KConnect A (@instr A) ByAuto] | _ => [] end) = true).
  { destruct md as [| |[|n]]; reflexivity. }
  rewrite E. cbn. induction top; cbn; auto.
Qed.

Lemma shape_init top : shape (k_k (kinit [] md (sync_init v0) top : kcfg)) = true.
Proof.
  cbn [k_k kinit]. unfold prog. cbn [map app]. apply noKS_shape.
  rewrite noKS_app. assert (E : noKS (match md with MAuto 0 => [@KConnect A (@instr A) ByAuto] | _ => [] end) = true).
  { destruct md as [| |[|n]]; reflexivity. }
  rewrite E. cbn. induction top; cbn; auto.
Qed.

(* C24, the multicast view: when a history of top-level calls has been executed, every subscriber
   has received exactly what the subject family's specification [oview] gives it on the sequence of
   calls made on the shared subject (its own subscribe / unsubscribe calls and the source's
   notifications that arrived through the connection) *)
Theorem multicast_view top fuel :
  let c := runk fuel (kinit [] md (sync_init v0) top) in
  k_k c = [] ->
  forall o, cview o (klog_of c) = oview K o Before (g_init v0) (calls_of (klog_of c)).
Proof.
  intros c Hk o.
  destruct (run_sim fuel _ _ [] (Q_init top) (shape_init top) (lr_init pynone K v0)) as [sc [hs [HQ Hl]]].
  fold c in HQ. destruct HQ as [h1 h2 h3 h4]. rewrite Hk in h3. cbn in h3.
  pose proof (lazy_run_spec pynone K v0 hs sc Hl h3) as Hspec.
  assert (E : subj_l (klog_of c) = noraise (spec K v0 hs)).
  { unfold klog_of. rewrite subj_l_rev, <- h4, <- noraise_rev, Hspec. reflexivity. }
  rewrite cview_subj, calls_subj, E, view_noraise, ops_noraise.
  unfold spec at 2. rewrite ops_spec_from. apply observer_view.
Qed.
End ViewTheorem.
