(* C23 -- end-to-end statements for the AsyncSubject on histories of top-level
   calls: what ONE observer receives from the real small-step machine
   ([run_history (async_cls ..)]), stated directly in terms of the calls made,
   without mentioning the abstract specification.  Built on
   [class_observer_view] (FamilyFacts) and the per-observer reading lemmas. *)
From RxVerif Require Import Base.Prelude Ops.Machine Subjects.Subject Subjects.Async Subjects.Family
  Subjects.SubjectFacts Subjects.FamilyFacts.

Section AsyncEnd.
Context {A : Type}.

(* the value of the last on_next call of a history, if any *)
Fixpoint last_value (h : list (@op A)) : option A :=
  match h with
  | [] => None
  | ONext x :: t => match last_value t with Some y => Some y | None => Some x end
  | _ :: t => last_value t
  end.

(* what the property promises at completion *)
Definition final_of (h : list (@op A)) : list (ev A) :=
  match last_value h with Some v => [Next v; Done] | None => [Done] end.

Definition no_unsub (o : nat) (h : list (@op A)) : Prop := forall p, In p h -> p <> OUnsub o.
Definition no_dispose (h : list (@op A)) : Prop := forall p, In p h -> p <> ODispose.

Lemma g_run_app : forall (h1 h2 : list (@op A)) g, g_run g (h1 ++ h2) = g_run (g_run g h1) h2.
Proof. induction h1; intros; cbn; [reflexivity|apply IHh1]. Qed.

Lemma no_end_app_l (h1 h2 : list (@op A)) : no_end (h1 ++ h2) -> no_end h1.
Proof. intros H q Hq; apply H; apply in_or_app; left; exact Hq. Qed.
Lemma no_end_app_r (h1 h2 : list (@op A)) : no_end (h1 ++ h2) -> no_end h2.
Proof. intros H q Hq; apply H; apply in_or_app; right; exact Hq. Qed.

(* an Active observer of a live AsyncSubject receives nothing from calls that
   neither end the subject nor unsubscribe it, and stays Active *)
Lemma async_active_skip o : forall (pre : list (@op A)) g rest,
  no_end pre -> live g = true -> no_unsub o pre ->
  oview KAsync o Active g (pre ++ rest) = oview KAsync o Active (g_run g pre) rest.
Proof.
  induction pre as [|p pre IH]; intros g rest Hne Hl Hnu; [reflexivity|].
  assert (Hne' : no_end pre) by (intros q Hq; apply Hne; right; exact Hq).
  assert (Hnu' : no_unsub o pre) by (intros q Hq; apply Hnu; right; exact Hq).
  pose proof (Hne p (or_introl eq_refl)) as Hp.
  pose proof (Hnu p (or_introl eq_refl)) as Hu.
  assert (Hl' : live (g_step g p) = true).
  { destruct p; cbn in *; try rewrite Hl; try reflexivity; try exact Hl; destruct Hp. }
  cbn [app g_run]. cbn [oview]. rewrite Hl'.
  destruct p; try (destruct Hp; fail).
  - unfold bcast; rewrite Hl; cbn [app]. apply IH; assumption.
  - destruct (Nat.eqb o0 o) eqn:E; [apply Nat.eqb_eq in E; subst; exfalso; apply Hu; reflexivity|apply IH; assumption].
  - unfold bcast; rewrite Hl; cbn [app]. apply IH; assumption.
Qed.

(* the abstract "last value" IS the value of the last on_next call *)
Lemma final_g_run : forall (h : list (@op A)) g, no_end h -> live g = true ->
  final (g_run g h) = match last_value h with Some v => [Next v; Done] | None => final g end.
Proof.
  induction h as [|p h IH]; intros g Hne Hl; [reflexivity|].
  assert (Hne' : no_end h) by (intros q Hq; apply Hne; right; exact Hq).
  pose proof (Hne p (or_introl eq_refl)) as Hp.
  cbn [g_run last_value].
  destruct p as [o|o|v|e| |]; try (destruct Hp; fail); cbn [g_step].
  - apply IH; assumption.
  - apply IH; assumption.
  - rewrite Hl. rewrite IH; [|exact Hne'|reflexivity].
    destruct (last_value h); reflexivity.
Qed.

Lemma final_init_run v0 (h : list (@op A)) : no_end h -> final (g_run (g_init v0) h) = final_of h.
Proof. intros H. unfold final_of. rewrite final_g_run by (exact H || reflexivity). reflexivity. Qed.

(* a subject that has ended stays as it is until it is disposed *)
Lemma g_run_dead : forall (h : list (@op A)) g, live g = false -> no_dispose h -> g_run g h = g.
Proof.
  induction h as [|p h IH]; intros g Hl Hd; [reflexivity|].
  cbn [g_run]. rewrite g_step_dead; [|exact Hl|apply Hd; left; reflexivity].
  apply IH; [exact Hl|intros q Hq; apply Hd; right; exact Hq].
Qed.

(* ---- the machine, seen by one observer: subscribed before the end ---- *)

(* the view of [o] when it subscribes (for the first time) after [pre1], is not
   unsubscribed during [pre2], and the first terminal call [p] follows *)
Lemma async_view_until_end (pynone v0 : A) o pre1 pre2 p post :
  no_end (pre1 ++ pre2) -> no_sub o pre1 -> no_unsub o pre2 ->
  (match p with OErr _ | ODone => True | _ => False end) ->
  exists fuel0, forall fuel, (fuel0 <= fuel)%nat ->
    snd (run_history (async_cls pynone) v0 fuel (pre1 ++ OSub o :: pre2 ++ p :: post, [])) = true /\
    view o (fst (run_history (async_cls pynone) v0 fuel (pre1 ++ OSub o :: pre2 ++ p :: post, []))) =
    bcast KAsync (g_run (g_init v0) (pre1 ++ pre2)) p.
Proof.
  intros Hne Hns Hnu Hp.
  destruct (class_observer_view pynone KAsync v0 (pre1 ++ OSub o :: pre2 ++ p :: post)) as [f0 Hf].
  exists f0. intros fuel Hle. destruct (Hf fuel Hle) as [Hfin Hv].
  change (cls_of pynone KAsync) with (async_cls pynone) in *.
  split; [exact Hfin|]. rewrite Hv.
  pose proof (no_end_app_l _ _ Hne) as Hne1. pose proof (no_end_app_r _ _ Hne) as Hne2.
  rewrite oview_before_skip by exact Hns.
  assert (L1 : live (g_run (g_init v0) pre1) = true) by (apply g_run_no_end; [exact Hne1|reflexivity]).
  rewrite oview_subscribe. rewrite L1. pose proof (proj1 (live_of_status _) L1) as S1.
  unfold greet. rewrite S1. cbn [app].
  rewrite async_active_skip; try assumption.
  rewrite oview_active_end; [|apply g_run_no_end; assumption|exact Hp].
  now rewrite g_run_app.
Qed.

(* completion: exactly [last on_next value; completion], or [completion] alone *)
Theorem async_end_to_end (pynone v0 : A) o pre1 pre2 post :
  no_end (pre1 ++ pre2) -> no_sub o pre1 -> no_unsub o pre2 ->
  exists fuel0, forall fuel, (fuel0 <= fuel)%nat ->
    snd (run_history (async_cls pynone) v0 fuel (pre1 ++ OSub o :: pre2 ++ ODone :: post, [])) = true /\
    view o (fst (run_history (async_cls pynone) v0 fuel (pre1 ++ OSub o :: pre2 ++ ODone :: post, []))) =
    final_of (pre1 ++ pre2).
Proof.
  intros Hne Hns Hnu.
  destruct (async_view_until_end pynone v0 o pre1 pre2 ODone post Hne Hns Hnu I) as [f0 Hf].
  exists f0. intros fuel Hle. destruct (Hf fuel Hle) as [Hfin Hv]. split; [exact Hfin|].
  rewrite Hv. unfold bcast. rewrite g_run_no_end by (exact Hne || reflexivity).
  apply final_init_run. exact Hne.
Qed.

(* error: exactly the error, whatever was emitted before *)
Theorem async_end_to_end_error (pynone v0 : A) o pre1 pre2 e post :
  no_end (pre1 ++ pre2) -> no_sub o pre1 -> no_unsub o pre2 ->
  exists fuel0, forall fuel, (fuel0 <= fuel)%nat ->
    snd (run_history (async_cls pynone) v0 fuel (pre1 ++ OSub o :: pre2 ++ OErr e :: post, [])) = true /\
    view o (fst (run_history (async_cls pynone) v0 fuel (pre1 ++ OSub o :: pre2 ++ OErr e :: post, []))) =
    [Err e].
Proof.
  intros Hne Hns Hnu.
  destruct (async_view_until_end pynone v0 o pre1 pre2 (OErr e) post Hne Hns Hnu I) as [f0 Hf].
  exists f0. intros fuel Hle. destruct (Hf fuel Hle) as [Hfin Hv]. split; [exact Hfin|].
  rewrite Hv. unfold bcast. now rewrite g_run_no_end by (exact Hne || reflexivity).
Qed.

(* ---- subscribed after the end ---- *)
Lemma async_view_late (pynone v0 : A) o pre post :
  no_sub o pre -> live (g_run (g_init v0) pre) = false ->
  exists fuel0, forall fuel, (fuel0 <= fuel)%nat ->
    snd (run_history (async_cls pynone) v0 fuel (pre ++ OSub o :: post, [])) = true /\
    view o (fst (run_history (async_cls pynone) v0 fuel (pre ++ OSub o :: post, []))) =
    greet KAsync (g_run (g_init v0) pre).
Proof.
  intros Hns Hd.
  destruct (class_observer_view pynone KAsync v0 (pre ++ OSub o :: post)) as [f0 Hf].
  exists f0. intros fuel Hle. destruct (Hf fuel Hle) as [Hfin Hv].
  change (cls_of pynone KAsync) with (async_cls pynone) in *.
  split; [exact Hfin|]. rewrite Hv.
  rewrite oview_before_skip by exact Hns. now apply late_subscriber.
Qed.

(* a subscriber arriving after completion (subject not disposed in between) gets
   the same [last on_next value before the completion; completion] immediately,
   and nothing else whatever is called afterwards *)
Theorem async_late_subscriber (pynone v0 : A) o pre1 pre2 post :
  no_end pre1 -> no_dispose pre2 -> no_sub o (pre1 ++ ODone :: pre2) ->
  exists fuel0, forall fuel, (fuel0 <= fuel)%nat ->
    snd (run_history (async_cls pynone) v0 fuel ((pre1 ++ ODone :: pre2) ++ OSub o :: post, [])) = true /\
    view o (fst (run_history (async_cls pynone) v0 fuel ((pre1 ++ ODone :: pre2) ++ OSub o :: post, []))) =
    final_of pre1.
Proof.
  intros Hne Hnd Hns.
  assert (L1 : live (g_run (g_init v0) pre1) = true) by (apply g_run_no_end; [exact Hne|reflexivity]).
  assert (E : g_run (g_init v0) (pre1 ++ ODone :: pre2) =
              G (Ended Done) (g_cur (g_run (g_init v0) pre1)) (g_has (g_run (g_init v0) pre1))).
  { rewrite g_run_app. cbn [g_run g_step]. rewrite L1. apply g_run_dead; [reflexivity|exact Hnd]. }
  destruct (async_view_late pynone v0 o (pre1 ++ ODone :: pre2) post Hns) as [f0 Hf].
  { rewrite E. reflexivity. }
  exists f0. intros fuel Hle. destruct (Hf fuel Hle) as [Hfin Hv]. split; [exact Hfin|].
  rewrite Hv, E. unfold greet. cbn [g_status].
  rewrite <- (final_init_run v0 pre1 Hne). reflexivity.
Qed.

Theorem async_late_subscriber_error (pynone v0 : A) o pre1 e pre2 post :
  no_end pre1 -> no_dispose pre2 -> no_sub o (pre1 ++ OErr e :: pre2) ->
  exists fuel0, forall fuel, (fuel0 <= fuel)%nat ->
    snd (run_history (async_cls pynone) v0 fuel ((pre1 ++ OErr e :: pre2) ++ OSub o :: post, [])) = true /\
    view o (fst (run_history (async_cls pynone) v0 fuel ((pre1 ++ OErr e :: pre2) ++ OSub o :: post, []))) =
    [Err e].
Proof.
  intros Hne Hnd Hns.
  assert (L1 : live (g_run (g_init v0) pre1) = true) by (apply g_run_no_end; [exact Hne|reflexivity]).
  assert (E : g_run (g_init v0) (pre1 ++ OErr e :: pre2) =
              G (Ended (Err e)) (g_cur (g_run (g_init v0) pre1)) (g_has (g_run (g_init v0) pre1))).
  { rewrite g_run_app. cbn [g_run g_step]. rewrite L1. apply g_run_dead; [reflexivity|exact Hnd]. }
  destruct (async_view_late pynone v0 o (pre1 ++ OErr e :: pre2) post Hns) as [f0 Hf].
  { rewrite E. reflexivity. }
  exists f0. intros fuel Hle. destruct (Hf fuel Hle) as [Hfin Hv]. split; [exact Hfin|].
  rewrite Hv, E. reflexivity.
Qed.
End AsyncEnd.
