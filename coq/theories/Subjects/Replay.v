(* ReplaySubject (C22) on a virtual-time scheduler.  Executable model, no proofs.

   Differences from the synchronous subjects (Subjects/Subject.v): every
   subscriber gets a ScheduledObserver [so] which only QUEUES the notification;
   `ensure_active` schedules `so.run` on the subject's scheduler, and each run
   delivers ONE queued notification to the subscriber's AutoDetachObserver and
   re-schedules itself.  The scheduler is a VirtualTimeScheduler whose clock the
   history controls ([RAdvance d] = scheduler.sleep(d)); the driver drains it
   with VirtualTimeScheduler.start() after every top-level operation
   ([RIDrain]).  All actions are scheduled with `schedule(self.run)`, i.e. due at
   the current clock, and the clock never decreases, so the scheduler's priority
   queue ordered by (duetime, insertion count) is a FIFO: [r_sched].

   Not modelled: VirtualTimeScheduler.start's anti-spinning clock bump after
   more than 100 actions at one instant (the harness discards such runs),
   has_faulted (callbacks never raise, see Subject.v), negative buffer sizes
   (the code raises IndexError from deque.popleft).

   History trees, driver rules and the log are those of Subject.v. *)
From RxVerif Require Import Base.Prelude Ops.Machine Subjects.Subject.

Definition out_of_range_exn : Z := -1.   (* k2.LIB_ERRORS["ArgumentOutOfRangeException"] *)
Definition maxsize : Z := 9223372036854775807.

Section Replay.
Context {A : Type}.

Inductive rop :=
| RSub (o : nat) | RUnsub (o : nat) | RNext (v : A) | RErr (e : Z) | RDone | RDispose
| RAdvance (d : Z).       (* scheduler.sleep(d): the virtual clock moves, nothing runs *)

Inductive revent :=
| REOp (p : rop)
| REGot (o : nat) (n : ev A)
| RERaised (e : Z).

Inductive rinstr :=
| RIOp (p : rop)
| RIDeliver (o : nat) (n : ev A)  (* ScheduledObserver.run: work() = self.observer.on_xxx(...) on o's AutoDetachObserver *)
| RIAdoFin (o : nat)              (* `finally: self.dispose()` of AutoDetachObserver.on_error/on_completed *)
| RIResched (o : nat)             (* ScheduledObserver.run: self.scheduler.schedule(self.run) after work() *)
| RIHandle (o : nat)              (* subscribe() returns (after fail()): the driver stores the handle *)
| RIDrain.                        (* VirtualTimeScheduler.start(): the loop *)

(* reactivex/observer/scheduledobserver.py ScheduledObserver.__init__,
   reactivex/disposable/serialdisposable.py (is_disposed, current = the scheduled item) *)
Record sostate := SoState {
  so_stopped : bool;                (* Observer.is_stopped of the ScheduledObserver *)
  so_queue : list (ev A);           (* queue of actions, as the notifications they deliver *)
  so_acquired : bool;
  so_faulted : bool;
  ser_disposed : bool;
  ser_cur : option nat }.           (* id of the scheduled item held by self.disposable *)

(* AutoDetachObserver + its SingleAssignmentDisposable (holding the RemovableDisposable) + driver bookkeeping *)
Record rostate := ROState {
  ra_stopped : bool;
  rsad_disposed : bool;
  rsad_cur : bool;                  (* _subscription.current is the RemovableDisposable *)
  r_handle : bool;
  r_calls : nat;
  r_so : sostate }.

Definition fresh_so := SoState false [] false false false None.
Definition fresh_rostate := ROState false false false false 0 fresh_so.

Definition romap := nat -> option rostate.
Definition rupd (m : romap) (o : nat) (x : rostate) : romap :=
  fun o' => if Nat.eqb o' o then Some x else m o'.

(* reactivex/subject/replaysubject.py ReplaySubject.__init__ (buffer_size None -> sys.maxsize,
   window None -> timedelta.max modelled as [None]), Subject.__init__, and the scheduler:
   VirtualTimeScheduler._clock, _queue *)
Record rstate := RState {
  r_observers : list nat;
  r_stopped : bool;
  r_disposed : bool;
  r_exception : option Z;
  r_queue : list (Z * A);            (* QueueItem(interval, value) *)
  r_bufsize : Z;
  r_window : option Z;
  r_clock : Z;
  r_sched : list (nat * nat * bool); (* (item id, observer whose so.run it is, cancelled) in FIFO order *)
  r_fresh : nat }.                   (* next item id *)

Definition with_observers l (s : rstate) := RState l (r_stopped s) (r_disposed s) (r_exception s) (r_queue s)
  (r_bufsize s) (r_window s) (r_clock s) (r_sched s) (r_fresh s).
Definition with_stopped b (s : rstate) := RState (r_observers s) b (r_disposed s) (r_exception s) (r_queue s)
  (r_bufsize s) (r_window s) (r_clock s) (r_sched s) (r_fresh s).
Definition with_disposed b (s : rstate) := RState (r_observers s) (r_stopped s) b (r_exception s) (r_queue s)
  (r_bufsize s) (r_window s) (r_clock s) (r_sched s) (r_fresh s).
Definition with_exception e (s : rstate) := RState (r_observers s) (r_stopped s) (r_disposed s) e (r_queue s)
  (r_bufsize s) (r_window s) (r_clock s) (r_sched s) (r_fresh s).
Definition with_queue q (s : rstate) := RState (r_observers s) (r_stopped s) (r_disposed s) (r_exception s) q
  (r_bufsize s) (r_window s) (r_clock s) (r_sched s) (r_fresh s).
Definition with_clock c (s : rstate) := RState (r_observers s) (r_stopped s) (r_disposed s) (r_exception s)
  (r_queue s) (r_bufsize s) (r_window s) c (r_sched s) (r_fresh s).
Definition with_sched q n (s : rstate) := RState (r_observers s) (r_stopped s) (r_disposed s) (r_exception s)
  (r_queue s) (r_bufsize s) (r_window s) (r_clock s) q n.

(* ReplaySubject._trim: `while len(self.queue) > self.buffer_size: self.queue.popleft()` *)
Fixpoint trim_count (b : Z) (q : list (Z * A)) : list (Z * A) :=
  match q with
  | [] => []
  | _ :: t => if zlen q >? b then trim_count b t else q
  end.

(* `while self.queue and (now - self.queue[0].interval) > self._window: self.queue.popleft()` *)
Definition too_old (now : Z) (w : option Z) (t0 : Z) : bool :=
  match w with None => false | Some w => now - t0 >? w end.
Fixpoint trim_age (now : Z) (w : option Z) (q : list (Z * A)) : list (Z * A) :=
  match q with
  | [] => []
  | (t0, _) :: t => if too_old now w t0 then trim_age now w t else q
  end.
Definition trim (s : rstate) : rstate :=
  with_queue (trim_age (r_clock s) (r_window s) (trim_count (r_bufsize s) (r_queue s))) s.

(* ScheduledItem.cancel through the disposable returned by schedule() *)
Definition cancel_item (id : nat) (q : list (nat * nat * bool)) : list (nat * nat * bool) :=
  map (fun it => let '(i, o, c) := it in if Nat.eqb i id then (i, o, true) else it) q.
Definition cancel_opt (id : option nat) (s : rstate) : rstate :=
  match id with Some i => with_sched (cancel_item i (r_sched s)) (r_fresh s) s | None => s end.

Definition set_so (os : rostate) (so : sostate) : rostate :=
  ROState (ra_stopped os) (rsad_disposed os) (rsad_cur os) (r_handle os) (r_calls os) so.

(* Observer.on_next / on_error / on_completed of the ScheduledObserver + _on_xxx_core: queue.append(action) *)
Definition so_on (n : ev A) (so : sostate) : sostate :=
  if so_stopped so then so
  else SoState (match n with Next _ => false | _ => true end) (so_queue so ++ [n]) (so_acquired so)
               (so_faulted so) (ser_disposed so) (ser_cur so).

(* ScheduledObserver.ensure_active (+ SerialDisposable.set_disposable) *)
Definition ensure_active (o : nat) (s : rstate) (so : sostate) : rstate * sostate :=
  if negb (so_faulted so) && negb (match so_queue so with [] => true | _ => false end) then
    if so_acquired so then (s, so)
    else
      let id := r_fresh s in
      let s1 := with_sched (r_sched s ++ [(id, o, false)]) (S id) s in        (* scheduler.schedule(self.run) *)
      let so1 := SoState (so_stopped so) (so_queue so) true (so_faulted so) (ser_disposed so) (ser_cur so) in
      if ser_disposed so1 then (cancel_opt (Some id) s1, so1)
      else (cancel_opt (ser_cur so1) s1,
            SoState (so_stopped so1) (so_queue so1) true (so_faulted so1) false (Some id))
  else (s, so).

(* ScheduledObserver.dispose: super().dispose(); self.disposable.dispose() *)
Definition so_dispose (s : rstate) (so : sostate) : rstate * sostate :=
  if ser_disposed so then (s, SoState true (so_queue so) (so_acquired so) (so_faulted so) true (ser_cur so))
  else (cancel_opt (ser_cur so) s,
        SoState true (so_queue so) (so_acquired so) (so_faulted so) true None).

(* reactivex/subject/replaysubject.py RemovableDisposable.dispose *)
Definition removable_dispose (s : rstate) (os : rostate) (o : nat) : rstate * rostate :=
  let '(s1, so1) := so_dispose s (r_so os) in
  (if negb (r_disposed s1) && mem o (r_observers s1) then with_observers (remove1 o (r_observers s1)) s1 else s1,
   set_so os so1).

(* AutoDetachObserver.dispose *)
Definition rado_dispose (s : rstate) (os : rostate) (o : nat) : rstate * rostate :=
  let os1 := ROState true (rsad_disposed os) (rsad_cur os) (r_handle os) (r_calls os) (r_so os) in
  if rsad_disposed os1 then (s, os1)
  else
    let os2 := ROState true true false (r_handle os1) (r_calls os1) (r_so os1) in
    if rsad_cur os1 then removable_dispose s os2 o else (s, os2).

Definition rcalled (stop : bool) (os : rostate) :=
  ROState (ra_stopped os || stop) (rsad_disposed os) (rsad_cur os) (r_handle os) (S (r_calls os)) (r_so os).
Definition rwith_handle (os : rostate) :=
  ROState (ra_stopped os) (rsad_disposed os) (rsad_cur os) true (r_calls os) (r_so os).

(* apply f to the ScheduledObserver of every observer of the snapshot *)
Definition so_each (f : nat -> rstate -> sostate -> rstate * sostate) (snap : list nat)
  (s : rstate) (m : romap) : rstate * romap :=
  fold_left (fun (acc : rstate * romap) o =>
               let '(s, m) := acc in
               match m o with
               | Some os => let '(s', so') := f o s (r_so os) in (s', rupd m o (set_so os so'))
               | None => acc
               end) snap (s, m).

Section Engine.
Context (react : nat -> nat -> list rop).

Record rcfg := RCfg { rc_st : rstate; rc_obs : romap; rc_k : list rinstr; rc_rlog : list revent }.

Definition rstep_op (p : rop) (s : rstate) (m : romap) (k : list rinstr) (l : list revent) : rcfg :=
  let l := REOp p :: l in
  match p with
  | RSub o =>
      match m o with
      | Some _ => RCfg s m k l
      | None =>
          (* ReplaySubject._subscribe_core: so = ScheduledObserver(...); with self.lock: check_disposed() ... *)
          if r_disposed s then
            (* Observable.subscribe: auto_detach_observer.fail(ex) *)
            RCfg s (rupd m o (rcalled true fresh_rostate))
                 (map RIOp (react o 0) ++ RIHandle o :: k) (REGot o (Err disposed_exn) :: l)
          else
            let s1 := trim s in
            let s2 := with_observers (r_observers s1 ++ [o]) s1 in
            let so1 := fold_left (fun so it => so_on (Next (snd it)) so) (r_queue s2) fresh_so in
            let so2 := match r_exception s2 with
                       | Some e => so_on (Err e) so1
                       | None => if r_stopped s2 then so_on Done so1 else so1
                       end in
            let '(s3, so3) := ensure_active o s2 so2 in
            (* auto_detach_observer.subscription = RemovableDisposable(self, so); subscribe() returns *)
            RCfg s3 (rupd m o (ROState false false true true 0 so3)) k l
      end
  | RUnsub o =>
      match m o with
      | Some os => if r_handle os then let '(s', os') := rado_dispose s os o in RCfg s' (rupd m o os') k l
                   else RCfg s m k l
      | None => RCfg s m k l
      end
  | RNext v =>
      if r_disposed s then RCfg s m k (RERaised disposed_exn :: l)
      else if r_stopped s then RCfg s m k l
      else
        (* ReplaySubject._on_next_core *)
        let snap := r_observers s in
        let s1 := trim (with_queue (r_queue s ++ [(r_clock s, v)]) s) in
        let '(s2, m2) := so_each (fun _ s so => (s, so_on (Next v) so)) snap s1 m in
        let '(s3, m3) := so_each ensure_active snap s2 m2 in
        RCfg s3 m3 k l
  | RErr e =>
      if r_disposed s then RCfg s m k (RERaised disposed_exn :: l)
      else if r_stopped s then RCfg s m k l
      else
        (* Observer.on_error: is_stopped = True; ReplaySubject._on_error_core *)
        let snap := r_observers s in
        let s1 := trim (with_exception (Some e) (with_observers [] (with_stopped true s))) in
        let '(s2, m2) := so_each (fun o s so => ensure_active o s (so_on (Err e) so)) snap s1 m in
        RCfg s2 m2 k l
  | RDone =>
      if r_disposed s then RCfg s m k (RERaised disposed_exn :: l)
      else if r_stopped s then RCfg s m k l
      else
        let snap := r_observers s in
        let s1 := trim (with_observers [] (with_stopped true s)) in
        let '(s2, m2) := so_each (fun o s so => ensure_active o s (so_on Done so)) snap s1 m in
        RCfg s2 m2 k l
  | RDispose =>
      (* ReplaySubject.dispose: queue.clear(); Subject.dispose *)
      RCfg (with_stopped true (with_exception None (with_observers [] (with_disposed true (with_queue [] s))))) m k l
  | RAdvance d =>
      (* VirtualTimeScheduler.sleep *)
      if d <? 0 then RCfg s m k (RERaised out_of_range_exn :: l)
      else RCfg (with_clock (r_clock s + d) s) m k l
  end.

Definition rstep (c : rcfg) : rcfg :=
  match rc_k c with
  | [] => c
  | i :: k =>
      let s := rc_st c in let m := rc_obs c in let l := rc_rlog c in
      match i with
      | RIOp p => rstep_op p s m k l
      | RIDrain =>
          (* VirtualTimeScheduler.start: dequeue; `if not item.is_cancelled(): item.invoke()` *)
          match r_sched s with
          | [] => RCfg s m k l
          | (_, o, cancelled) :: rest =>
              let s1 := with_sched rest (r_fresh s) s in
              if cancelled then RCfg s1 m (RIDrain :: k) l
              else match m o with
                   | None => RCfg s1 m (RIDrain :: k) l
                   | Some os =>
                       (* ScheduledObserver.run *)
                       let so := r_so os in
                       match so_queue so with
                       | [] => RCfg s1 (rupd m o (set_so os (SoState (so_stopped so) [] false (so_faulted so)
                                                                (ser_disposed so) (ser_cur so))))
                                    (RIDrain :: k) l
                       | n :: q => RCfg s1 (rupd m o (set_so os (SoState (so_stopped so) q (so_acquired so)
                                                                   (so_faulted so) (ser_disposed so) (ser_cur so))))
                                        (RIDeliver o n :: RIResched o :: RIDrain :: k) l
                       end
                   end
          end
      | RIResched o =>
          RCfg (with_sched (r_sched s ++ [(r_fresh s, o, false)]) (S (r_fresh s)) s) m k l
      | RIDeliver o n =>
          match m o with
          | None => RCfg s m k l
          | Some os =>
              if ra_stopped os then RCfg s m k l
              else match n with
                   | Next _ => RCfg s (rupd m o (rcalled false os)) (map RIOp (react o (r_calls os)) ++ k)
                                    (REGot o n :: l)
                   | _ => RCfg s (rupd m o (rcalled true os))
                               (map RIOp (react o (r_calls os)) ++ RIAdoFin o :: k) (REGot o n :: l)
                   end
          end
      | RIAdoFin o =>
          match m o with
          | None => RCfg s m k l
          | Some os => let '(s', os') := rado_dispose s os o in RCfg s' (rupd m o os') k l
          end
      | RIHandle o =>
          match m o with
          | None => RCfg s m k l
          | Some os => RCfg s (rupd m o (rwith_handle os)) k l
          end
      end
  end.

Fixpoint rrun (fuel : nat) (c : rcfg) : rcfg :=
  match fuel with
  | O => c
  | S f => match rc_k c with [] => c | _ => rrun f (rstep c) end
  end.

(* buffer_size: None -> sys.maxsize *)
Definition rinit_state (bs : option Z) (w : option Z) : rstate :=
  RState [] false false None [] (match bs with Some b => b | None => maxsize end) w 0 [] 0.
Definition rinit_cfg (bs w : option Z) (top : list rop) : rcfg :=
  RCfg (rinit_state bs w) (fun _ => None) (flat_map (fun p => [RIOp p; RIDrain]) top) [].

Definition rlog_of (c : rcfg) : list revent := rev (rc_rlog c).
Definition rfinished (c : rcfg) : bool := match rc_k c with [] => true | _ => false end.

Fixpoint rview (o : nat) (l : list revent) : list (ev A) :=
  match l with
  | [] => []
  | REGot o' n :: t => if Nat.eqb o' o then n :: rview o t else rview o t
  | _ :: t => rview o t
  end.
End Engine.
End Replay.

Arguments RSub {A} o. Arguments RUnsub {A} o. Arguments RNext {A} v. Arguments RErr {A} e.
Arguments RDone {A}. Arguments RDispose {A}. Arguments RAdvance {A} d.
Arguments REOp {A} p. Arguments REGot {A} o n. Arguments RERaised {A} e.

Definition rop_eqb (a b : @rop Z) : bool :=
  match a, b with
  | RSub x, RSub y | RUnsub x, RUnsub y => Nat.eqb x y
  | RNext x, RNext y | RErr x, RErr y | RAdvance x, RAdvance y => x =? y
  | RDone, RDone | RDispose, RDispose => true
  | _, _ => false
  end.

Definition revent_eqb (a b : @revent Z) : bool :=
  match a, b with
  | REOp p, REOp q => rop_eqb p q
  | REGot o n, REGot o' n' => Nat.eqb o o' && evz_eqb n n'
  | RERaised e, RERaised f => e =? f
  | _, _ => false
  end.

Fixpoint rreact_tbl {A} (t : list (nat * list (list (@rop A)))) (o k : nat) : list (@rop A) :=
  match t with
  | [] => []
  | (o', sc) :: r => if Nat.eqb o' o then nth k sc [] else rreact_tbl r o k
  end.

Definition rhistory (A : Type) := (list (@rop A) * list (nat * list (list (@rop A))))%type.

(* configuration: buffer_size (None = unbounded), window in ticks (None = unbounded) *)
Definition run_rhistory {A} (bs w : option Z) (fuel : nat) (h : rhistory A) : list (@revent A) * bool :=
  let c := rrun (rreact_tbl (snd h)) fuel (rinit_cfg bs w (fst h)) in (rlog_of c, rfinished c).
