(* Facts about Core/EventLoop.v (EventLoopScheduler): theorems over ALL schedules -- arbitrary
   lists of moves (thread steps and clock advances), any number of scheduling threads, any
   programs, any action bodies, both settings of exit_if_empty.

   Structure: the step functions are characterised as relations (opstep / loopstep / cstep);
   every theorem is an inductive invariant of [run]:
     invA  thread structure: every live loop thread is the scheduler's _thread; the waiter of the
           condition is parked in wait and conversely
     invD  data: flags of queued items, FIFO of immediate items, conservation (Permutation),
           sortedness of the queue and of the dispatched timed items, due <= clock for what is ready
     invS  three scanners of the log: actions never overlap, an action starts right after its own
           successful is_cancelled() test, no successful test after a cancel
     invT  never early      invI  which thread runs actions, how many threads are started
     invU, invP, invJ  uids / the unlocked _is_disposed test / after dispose() returned
     invH  no lost wake-up, no queued item without a live thread *)
From RxVerif Require Import Base.Prelude Core.EventLoop.
From Coq Require Import Permutation Sorted.
Local Open Scope Z_scope.

(* ---------------------------------------------------------------- part 1 *)

Ltac inv H := inversion H; subst; clear H.

(* ---- lists ------------------------------------------------------------------ *)
Lemma nth_upd_same : forall A (l : list A) k x old,
  nth_error l k = Some old -> nth_error (upd k x l) k = Some x.
Proof.
  induction l as [|y t IH]; intros k x old H; [destruct k; discriminate H|].
  destruct k as [|k']; cbn [upd nth_error] in *; [reflexivity|]. eapply IH, H.
Qed.

Lemma nth_upd_other : forall A (l : list A) k j x,
  j <> k -> nth_error (upd k x l) j = nth_error l j.
Proof.
  induction l as [|y t IH]; intros k j x H; [destruct k; reflexivity|].
  destruct k as [|k'], j as [|j']; cbn [upd nth_error]; try reflexivity; [congruence|].
  apply IH. congruence.
Qed.

Lemma upd_length : forall A (l : list A) k x, length (upd k x l) = length l.
Proof.
  induction l as [|y t IH]; intros k x; [destruct k; reflexivity|].
  destruct k; cbn [upd length]; [reflexivity|]. rewrite IH. reflexivity.
Qed.

Lemma nth_error_lt : forall A (l : list A) k x, nth_error l k = Some x -> (k < length l)%nat.
Proof. intros A l k x H. apply nth_error_Some. congruence. Qed.

(* the thread table after a step: thread k replaced, possibly one thread appended *)
Lemma nth_step_same : forall A (l : list A) k x old ext,
  nth_error l k = Some old -> nth_error (upd k x l ++ ext) k = Some x.
Proof.
  intros A l k x old ext H. rewrite nth_error_app1; [eapply nth_upd_same, H|].
  rewrite upd_length. eapply nth_error_lt, H.
Qed.

Lemma nth_step_other : forall A (l : list A) k j x ext y,
  j <> k -> nth_error (upd k x l ++ ext) j = Some y ->
  nth_error l j = Some y \/ ((length l <= j)%nat /\ nth_error ext (j - length l) = Some y).
Proof.
  intros A l k j x ext y N H. destruct (Nat.lt_ge_cases j (length l)) as [L|L].
  - rewrite nth_error_app1 in H by (rewrite upd_length; exact L). rewrite nth_upd_other in H by exact N.
    left. exact H.
  - rewrite nth_error_app2 in H by (rewrite upd_length; exact L). rewrite upd_length in H.
    right. split; assumption.
Qed.

Lemma nth_step_old : forall A (l : list A) k j x ext y,
  j <> k -> nth_error l j = Some y -> nth_error (upd k x l ++ ext) j = Some y.
Proof.
  intros A l k j x ext y N H. rewrite nth_error_app1 by (rewrite upd_length; eapply nth_error_lt, H).
  rewrite nth_upd_other by exact N. exact H.
Qed.

(* ---- the steps as relations -------------------------------------------------- *)
Definition set_q (s : shared) (rl' q' : list item) (th : option nat) (w : option wait) : shared :=
  Sh (clock s) (disposed s) rl' q' th w (cancelled s) (nuid s).

Inductive opstep (ntid : nat) (s : shared)
  : option opst -> list op -> shared -> option opst -> list op -> list ev -> bool -> Prop :=
| OS_now : forall a r,
    opstep ntid s None (SchedNow a :: r) (bump s) (Some (PS1 (nuid s) a (clock s))) r [ECall (nuid s) a] false
| OS_rel : forall d a r,
    opstep ntid s None (SchedRel d a :: r) (bump s) (Some (PS1 (nuid s) a (clock s + Z.max 0 d))) r
           [ECall (nuid s) a] false
| OS_abs_raise : forall t a r, disposed s = true ->
    opstep ntid s None (SchedAbs t a :: r) (bump s) None r [ECall (nuid s) a; ERaise a] false
| OS_abs_pass : forall t a r, disposed s = false ->
    opstep ntid s None (SchedAbs t a :: r) (bump s) (Some (PS2 (nuid s) a t)) r
           [ECall (nuid s) a; EPass (nuid s)] false
| OS_cancel : forall a r,
    opstep ntid s None (Cancel a :: r)
           (Sh (clock s) (disposed s) (rl s) (q s) (thr s) (wt s) (a :: cancelled s) (nuid s))
           None r [ECancelRet a] false
| OS_dispose_again : forall r, disposed s = true ->
    opstep ntid s None (Dispose :: r) s None r [EDisposeRet] false
| OS_dispose : forall r, disposed s = false ->
    opstep ntid s None (Dispose :: r)
           (Sh (clock s) true (rl s) (q s) (thr s) (notify (wt s)) (cancelled s) (nuid s))
           None r [EDisposeRet] false
| OS_s1_raise : forall u a due todo, disposed s = true ->
    opstep ntid s (Some (PS1 u a due)) todo s None todo [ERaise a] false
| OS_s1_pass : forall u a due todo, disposed s = false ->
    opstep ntid s (Some (PS1 u a due)) todo s (Some (PS2 u a due)) todo [EPass u] false
| OS_s2_imm : forall u a due todo t, due <= clock s -> thr s = Some t ->
    opstep ntid s (Some (PS2 u a due)) todo
           (set_q s (rl s ++ [Item u a due true]) (q s) (thr s) (notify (wt s)))
           None todo [EAcc (Item u a due true); ERet a] false
| OS_s2_imm_spawn : forall u a due todo, due <= clock s -> thr s = None ->
    opstep ntid s (Some (PS2 u a due)) todo
           (set_q s (rl s ++ [Item u a due true]) (q s) (Some ntid) (notify (wt s)))
           None todo [EAcc (Item u a due true); ESpawn ntid; ERet a] true
| OS_s2_timed : forall u a due todo t, clock s < due -> thr s = Some t ->
    opstep ntid s (Some (PS2 u a due)) todo
           (set_q s (rl s) (insert (Item u a due false) (q s)) (thr s) (notify (wt s)))
           None todo [EAcc (Item u a due false); ERet a] false
| OS_s2_timed_spawn : forall u a due todo, clock s < due -> thr s = None ->
    opstep ntid s (Some (PS2 u a due)) todo
           (set_q s (rl s) (insert (Item u a due false) (q s)) (Some ntid) (notify (wt s)))
           None todo [EAcc (Item u a due false); ESpawn ntid; ERet a] true.

Lemma op_step_spec : forall ntid s cur todo s' cur' todo' out sp,
  op_step ntid s cur todo = Some (s', cur', todo', out, sp) ->
  opstep ntid s cur todo s' cur' todo' out sp.
Proof.
  intros ntid s cur todo s' cur' todo' out sp H. unfold op_step in H.
  destruct cur as [[u a due|u a due]|].
  - unfold s1 in H. destruct (disposed s) eqn:D; inv H; constructor; assumption.
  - unfold s2 in H. destruct (due <=? clock s) eqn:I; destruct (thr s) as [t|] eqn:T; inv H.
    + apply Z.leb_le in I. rewrite <- T. eapply OS_s2_imm; eassumption.
    + apply Z.leb_le in I. apply OS_s2_imm_spawn; assumption.
    + apply Z.leb_gt in I. rewrite <- T. eapply OS_s2_timed; eassumption.
    + apply Z.leb_gt in I. apply OS_s2_timed_spawn; assumption.
  - destruct todo as [|[a|d a|t a|a|] r]; try discriminate H.
    + inv H. constructor.
    + inv H. constructor.
    + unfold s1 in H. change (disposed (bump s)) with (disposed s) in H.
      destruct (disposed s) eqn:D; inv H; constructor; assumption.
    + inv H. constructor.
    + destruct (disposed s) eqn:D; inv H; constructor; assumption.
Qed.

Inductive loopstep (eie : bool) (body : nat -> list op) (me ntid : nat) (s : shared)
  : lphase -> shared -> lphase -> list ev -> bool -> Prop :=
| LS_new : loopstep eie body me ntid s LNew s LCollect [] false
| LS_collect_exit : disposed s = true -> loopstep eie body me ntid s LCollect s LExited [EExit] false
| LS_collect : forall ready q', disposed s = false -> collect (clock s) (q s) (rl s) = (ready, q') ->
    loopstep eie body me ntid s LCollect (set_q s [] q' (thr s) (wt s)) (next_phase ready) [] false
| LS_exec_nil : loopstep eie body me ntid s (LExec []) s LWaitSec [] false
| LS_skip : forall i r, mem (it_lbl i) (cancelled s) = true ->
    loopstep eie body me ntid s (LExec (i :: r)) s (next_phase r) [ECheck i true] false
| LS_pick : forall i r, mem (it_lbl i) (cancelled s) = false ->
    loopstep eie body me ntid s (LExec (i :: r)) s (LInvoke i r) [ECheck i false] false
| LS_invoke : forall i r,
    loopstep eie body me ntid s (LInvoke i r) s (LBody i None (body (it_lbl i)) r) [EStart i] false
| LS_body : forall i cur todo r s' cur' todo' out sp,
    opstep ntid s cur todo s' cur' todo' out sp ->
    loopstep eie body me ntid s (LBody i cur todo r) s' (LBody i cur' todo' r) out sp
| LS_end : forall i r,
    loopstep eie body me ntid s (LBody i None [] r) s (next_phase r) [EEnd i] false
| LS_ws_continue : forall x t, rl s = x :: t -> loopstep eie body me ntid s LWaitSec s LCollect [] false
| LS_ws_timed : forall x t, rl s = [] -> q s = x :: t -> clock s < it_due x ->
    loopstep eie body me ntid s LWaitSec
             (set_q s (rl s) (q s) (thr s) (Some (Wait me (Some (it_due x)) false))) LWaiting [] false
| LS_ws_due : forall x t, rl s = [] -> q s = x :: t -> it_due x <= clock s ->
    loopstep eie body me ntid s LWaitSec s LCollect [] false
| LS_ws_exit : rl s = [] -> q s = [] -> eie = true ->
    loopstep eie body me ntid s LWaitSec (set_q s (rl s) (q s) None (wt s)) LExited [EExit] false
| LS_ws_wait : rl s = [] -> q s = [] -> eie = false ->
    loopstep eie body me ntid s LWaitSec
             (set_q s (rl s) (q s) (thr s) (Some (Wait me None false))) LWaiting [] false
| LS_wake : forall w, wt s = Some w -> w_tid w = me -> (w_notified w || timed_out s w) = true ->
    loopstep eie body me ntid s LWaiting (set_q s (rl s) (q s) (thr s) None) LCollect [] false.

Lemma loop_step_spec : forall eie body me ntid s ph s' ph' out sp,
  loop_step eie body me ntid s ph = Some (s', ph', out, sp) ->
  loopstep eie body me ntid s ph s' ph' out sp.
Proof.
  intros eie body me ntid s ph s' ph' out sp H. unfold loop_step in H.
  destruct ph as [| |ready|i r|i cur todo r| | |].
  - inv H. constructor.
  - destruct (disposed s) eqn:D; [inv H; constructor; assumption|].
    destruct (collect (clock s) (q s) (rl s)) as [ready q'] eqn:C. inv H.
    pose proof (LS_collect eie body me ntid s ready q' D C) as L. unfold set_q in L. rewrite D in L. exact L.
  - destruct ready as [|i r]; [inv H; constructor|].
    destruct (mem (it_lbl i) (cancelled s)) eqn:M; inv H; constructor; assumption.
  - inv H. constructor.
  - destruct (op_step ntid s cur todo) as [[[[[s1' c1] t1] o1] sp1]|] eqn:O.
    + inv H. apply LS_body. apply op_step_spec. exact O.
    + unfold op_step in O. destruct cur as [[? ? ?|? ? ?]|]; try discriminate O.
      destruct todo as [|[?|? ?|t0 a0|?|] l0]; try discriminate O.
      * inv H. constructor.
      * destruct (s1 (bump s) (nuid s) a0 t0 l0) as [[[[? ?] ?] ?] ?]. discriminate O.
  - destruct (rl s) as [|x t] eqn:R; [|inv H; eapply LS_ws_continue; eassumption].
    destruct (q s) as [|x t] eqn:Q.
    + destruct eie eqn:E; inv H.
      * rewrite <- R at 1. rewrite <- Q at 1. apply LS_ws_exit; auto.
      * rewrite <- R at 1. rewrite <- Q at 1. apply LS_ws_wait; auto.
    + destruct (it_due x - clock s >? 0) eqn:G; inv H.
      * rewrite <- R at 1. rewrite <- Q at 1. eapply LS_ws_timed; eauto. apply Z.gtb_lt in G. lia.
      * eapply LS_ws_due; eauto. rewrite Z.gtb_ltb in G. apply Z.ltb_ge in G. lia.
  - destruct (wt s) as [w|] eqn:W; [|discriminate H].
    destruct (Nat.eqb (w_tid w) me && (w_notified w || timed_out s w)) eqn:B; [|discriminate H].
    inv H. apply andb_true_iff in B. destruct B as [B1 B2]. apply Nat.eqb_eq in B1.
    eapply LS_wake; eauto.
  - discriminate H.
Qed.

(* ---------------------------------------------------------------- part 2 *)
Section Facts.
Variable eie : bool.
Variable body : nat -> list op.
Notation tstep := (tstep eie body).
Notation mstep := (mstep eie body).
Notation run := (run eie body).

Inductive cstep (c : config) (tid : nat) : config -> Prop :=
| CS_sched : forall cur todo s' cur' todo' out sp,
    nth_error (c_ths c) tid = Some (TSched cur todo) ->
    opstep (length (c_ths c)) (c_sh c) cur todo s' cur' todo' out sp ->
    cstep c tid (Config s' (upd tid (TSched cur' todo') (c_ths c) ++ (if sp then [TLoop LNew] else []))
                        (c_log c ++ stamp tid (clock (c_sh c)) out))
| CS_loop : forall ph s' ph' out sp,
    nth_error (c_ths c) tid = Some (TLoop ph) ->
    loopstep eie body tid (length (c_ths c)) (c_sh c) ph s' ph' out sp ->
    cstep c tid (Config s' (upd tid (TLoop ph') (c_ths c) ++ (if sp then [TLoop LNew] else []))
                        (c_log c ++ stamp tid (clock (c_sh c)) out)).

Lemma tstep_spec : forall c tid, tstep c tid = c \/ cstep c tid (tstep c tid).
Proof.
  intros c tid. unfold EventLoop.tstep.
  destruct (nth_error (c_ths c) tid) as [[cur todo|ph]|] eqn:N; [| |left; reflexivity].
  - destruct (op_step (length (c_ths c)) (c_sh c) cur todo) as [[[[[s' cur'] todo'] out] sp]|] eqn:O;
      [|left; reflexivity].
    right. eapply CS_sched; [exact N|]. apply op_step_spec. exact O.
  - destruct (loop_step eie body tid (length (c_ths c)) (c_sh c) ph) as [[[[s' ph'] out] sp]|] eqn:O;
      [|left; reflexivity].
    right. eapply CS_loop; [exact N|]. apply loop_step_spec. exact O.
Qed.

Lemma run_nil : forall c, run c [] = c.
Proof. reflexivity. Qed.
Lemma run_cons : forall c m s, run c (m :: s) = run (mstep c m) s.
Proof. reflexivity. Qed.
Lemma run_app : forall a b c, run c (a ++ b) = run (run c a) b.
Proof. intros. unfold EventLoop.run. apply fold_left_app. Qed.

Lemma run_invariant : forall P : config -> Prop,
  (forall c tid c', P c -> cstep c tid c' -> P c') ->
  (forall c d, P c -> P (tick c d)) ->
  forall sched c, P c -> P (run c sched).
Proof.
  intros P Hs Ht. induction sched as [|m s IH]; intros c H; [exact H|].
  rewrite run_cons. apply IH. destruct m as [tid|d]; cbn [EventLoop.mstep].
  - destruct (tstep_spec c tid) as [E|E]; [rewrite E; exact H|]. eapply Hs; eassumption.
  - apply Ht. exact H.
Qed.

(* an invariant that may use another, already established one *)
Lemma run_invariant2 : forall P Q : config -> Prop,
  (forall sched c, Q c -> Q (run c sched)) ->
  (forall c tid c', Q c -> P c -> cstep c tid c' -> P c') ->
  (forall c d, Q c -> P c -> P (tick c d)) ->
  forall sched c, Q c -> P c -> P (run c sched).
Proof.
  intros P Q HQ Hs Ht. induction sched as [|m s IH]; intros c Hq H; [exact H|].
  rewrite run_cons. pose proof (HQ [m] c Hq) as Hq'. change (Q (mstep c m)) in Hq'. apply IH; [exact Hq'|].
  destruct m as [tid|d]; cbn [EventLoop.mstep].
  - destruct (tstep_spec c tid) as [E|E]; [rewrite E; exact H|]. exact (Hs c tid _ Hq H E).
  - apply Ht; assumption.
Qed.

(* ======================================================================= *)
(* A. thread structure: every live loop thread is the scheduler's _thread;
      the waiter of the condition is a thread parked in wait, and conversely *)
Definition invA (c : config) : Prop :=
  (forall t, thr (c_sh c) = Some t -> exists ph, nth_error (c_ths c) t = Some (TLoop ph)) /\
  (forall t ph, nth_error (c_ths c) t = Some (TLoop ph) -> ph <> LExited -> thr (c_sh c) = Some t) /\
  (forall w, wt (c_sh c) = Some w -> nth_error (c_ths c) (w_tid w) = Some (TLoop LWaiting)) /\
  (forall t, nth_error (c_ths c) t = Some (TLoop LWaiting) -> exists w, wt (c_sh c) = Some w /\ w_tid w = t).

Lemma notify_some : forall w w', notify w = Some w' -> exists w0, w = Some w0 /\ w_tid w' = w_tid w0.
Proof. intros [[t d n]|] w' H; inv H. eexists. split; reflexivity. Qed.
Lemma notify_of_some : forall w0, exists w', notify (Some w0) = Some w' /\ w_tid w' = w_tid w0 /\
  w_deadline w' = w_deadline w0 /\ w_notified w' = true.
Proof. intros [t d n]. eexists. repeat split. Qed.

(* the effect of a call step on thr / wt *)
Lemma opstep_thr : forall ntid s cur todo s' cur' todo' out sp,
  opstep ntid s cur todo s' cur' todo' out sp ->
  (sp = false /\ thr s' = thr s) \/ (sp = true /\ thr s = None /\ thr s' = Some ntid).
Proof. intros. inv H; cbn; auto. Qed.

Lemma opstep_wt : forall ntid s cur todo s' cur' todo' out sp,
  opstep ntid s cur todo s' cur' todo' out sp -> wt s' = wt s \/ wt s' = notify (wt s).
Proof. intros. inv H; cbn; auto. Qed.

Lemma invA_init : forall t0 progs, invA (init t0 progs).
Proof.
  intros t0 progs. unfold invA, init. cbn [c_sh c_ths sh0 thr wt]. repeat split; try discriminate.
  - intros t ph H. apply nth_error_In in H. apply in_map_iff in H. destruct H as [p [E _]]. discriminate E.
  - intros t H. apply nth_error_In in H. apply in_map_iff in H. destruct H as [p [E _]]. discriminate E.
Qed.

Lemma wt_cases_preserved : forall (ths ths' : list tstate) w w',
  (w' = w \/ w' = notify w) ->
  (forall x, w = Some x -> nth_error ths (w_tid x) = Some (TLoop LWaiting)) ->
  (forall t, nth_error ths t = Some (TLoop LWaiting) -> nth_error ths' t = Some (TLoop LWaiting)) ->
  forall x, w' = Some x -> nth_error ths' (w_tid x) = Some (TLoop LWaiting).
Proof.
  intros ths ths' w w' [->| ->] H1 H2 x E.
  - apply H2, H1, E.
  - apply notify_some in E. destruct E as [w0 [E1 E2]]. rewrite E2. apply H2, H1, E1.
Qed.

Lemma wt_cases_conv : forall w w' t,
  (w' = w \/ w' = notify w) ->
  (exists x, w = Some x /\ w_tid x = t) -> exists x, w' = Some x /\ w_tid x = t.
Proof.
  intros w w' t [->| ->] [x [E1 E2]]; [eauto|]. subst w.
  destruct (notify_of_some x) as [w' [N1 [N2 _]]]. exists w'. split; [exact N1|congruence].
Qed.

Lemma invA_step : forall c tid c', invA c -> cstep c tid c' -> invA c'.
Proof.
  intros c tid c' [A1 [A2 [A3 A4]]] S. inv S.
  - (* a scheduling thread *)
    pose proof (opstep_thr _ _ _ _ _ _ _ _ _ H0) as T. pose proof (opstep_wt _ _ _ _ _ _ _ _ _ H0) as W.
    assert (OLD : forall t y, t <> tid -> nth_error (c_ths c) t = Some y ->
              nth_error (upd tid (TSched cur' todo') (c_ths c) ++ (if sp then [TLoop LNew] else [])) t = Some y)
      by (intros; apply nth_step_old; assumption).
    assert (NT : forall t ph, nth_error (c_ths c) t = Some (TLoop ph) -> t <> tid) by (intros t ph E ->; congruence).
    unfold invA. cbn [c_sh c_ths]. repeat split.
    + intros t E. destruct T as [[-> T]|[-> [T0 T]]]; rewrite T in E.
      * destruct (A1 t E) as [ph P]. exists ph. apply OLD; [eapply NT, P|exact P].
      * inv E. exists LNew. rewrite nth_error_app2 by (rewrite upd_length; lia).
        rewrite upd_length, Nat.sub_diag. reflexivity.
    + intros t ph E L. destruct (Nat.eq_dec t tid) as [->|N].
      { erewrite nth_step_same in E by eassumption. discriminate E. }
      apply nth_step_other in E; [|exact N]. destruct E as [E|[E1 E2]].
      * specialize (A2 t ph E L). destruct T as [[-> T]|[-> [T0 T]]]; congruence.
      * destruct T as [[-> T]|[-> [T0 T]]]; [destruct (t - length (c_ths c))%nat; discriminate E2|].
        rewrite T. f_equal. destruct (t - length (c_ths c))%nat as [|k] eqn:K; [lia|destruct k; discriminate E2].
    + eapply wt_cases_preserved; [exact W|exact A3|]. intros t E. apply OLD; [eapply NT, E|exact E].
    + intros t E. eapply wt_cases_conv; [exact W|]. apply A4. destruct (Nat.eq_dec t tid) as [->|N].
      { erewrite nth_step_same in E by eassumption. discriminate E. }
      apply nth_step_other in E; [|exact N]. destruct E as [E|[E1 E2]]; [exact E|].
      destruct sp; [|destruct (t - length (c_ths c))%nat; discriminate E2].
      destruct (t - length (c_ths c))%nat as [|k]; [discriminate E2|destruct k; discriminate E2].
  - (* a loop thread *)
    rename H into N0. rename H0 into L.
    assert (OLD : forall t y, t <> tid -> nth_error (c_ths c) t = Some y ->
              nth_error (upd tid (TLoop ph') (c_ths c) ++ (if sp then [TLoop LNew] else [])) t = Some y)
      by (intros; apply nth_step_old; assumption).
    assert (SAME : nth_error (upd tid (TLoop ph') (c_ths c) ++ (if sp then [TLoop LNew] else [])) tid
                   = Some (TLoop ph')) by (eapply nth_step_same; exact N0).
    (* summary of the step: how thr and wt change, and which phases are involved *)
    assert (SUM :
      (* 1: thr, wt as after a call step; neither phase is LWaiting; ph live *)
      ((ph <> LExited /\ ph <> LWaiting /\ ph' <> LWaiting /\ ph' <> LExited /\
        ((sp = false /\ thr s' = thr (c_sh c)) \/ (sp = true /\ thr (c_sh c) = None /\ thr s' = Some (length (c_ths c)))) /\
        (wt s' = wt (c_sh c) \/ wt s' = notify (wt (c_sh c)))))
      \/ (* 2: exit because disposed *)
      (ph' = LExited /\ ph <> LWaiting /\ sp = false /\ thr s' = thr (c_sh c) /\ wt s' = wt (c_sh c) /\ disposed (c_sh c) = true)
      \/ (* 3: exit_if_empty *)
      (ph' = LExited /\ ph <> LWaiting /\ sp = false /\ thr s' = None /\ wt s' = wt (c_sh c))
      \/ (* 4: going to wait *)
      (ph' = LWaiting /\ ph <> LWaiting /\ ph <> LExited /\ sp = false /\ thr s' = thr (c_sh c) /\
       exists d, wt s' = Some (Wait tid d false))
      \/ (* 5: waking up *)
      (ph = LWaiting /\ ph' = LCollect /\ sp = false /\ thr s' = thr (c_sh c) /\ wt s' = None)).
    { inv L.
      - left. repeat split; try discriminate; auto.
      - right; left. repeat split; auto; discriminate.
      - left. repeat split; try discriminate; auto; destruct ready; discriminate.
      - left. repeat split; try discriminate; auto.
      - left. repeat split; try discriminate; auto; destruct r; discriminate.
      - left. repeat split; try discriminate; auto.
      - left. repeat split; try discriminate; auto.
      - left. repeat split; try discriminate; [eapply opstep_thr; eassumption|eapply opstep_wt; eassumption].
      - left. repeat split; try discriminate; auto; destruct r; discriminate.
      - left. repeat split; try discriminate; auto.
      - do 3 right; left. repeat split; try discriminate; auto. cbn. eexists; reflexivity.
      - left. repeat split; try discriminate; auto.
      - do 2 right; left. repeat split; auto; discriminate.
      - do 3 right; left. repeat split; try discriminate; auto. cbn. eexists; reflexivity.
      - do 4 right. repeat split; auto. }
    assert (THR : thr (c_sh c) = Some tid \/ ph = LExited).
    { destruct ph; try (left; eapply A2; [exact N0|discriminate]). right. reflexivity. }
    unfold invA. cbn [c_sh c_ths].
    destruct SUM as [[P1 [P2 [P3 [P4 [T W]]]]]|[[-> [P2 [-> [T [W D]]]]]|[[-> [P2 [-> [T W]]]]|
                    [[-> [P2 [P3 [-> [T [d W]]]]]]|[-> [-> [-> [T W]]]]]]]].
    + destruct THR as [THR|THR]; [|contradiction]. repeat split.
      * intros t E. destruct T as [[-> T]|[-> [T0 T]]]; [|congruence]. rewrite T, THR in E. inv E. eauto.
      * intros t ph0 E L0. destruct (Nat.eq_dec t tid) as [->|N]; [destruct T as [[-> T]|[-> [T0 T]]]; congruence|].
        apply nth_step_other in E; [|exact N]. destruct E as [E|[E1 E2]].
        -- specialize (A2 t ph0 E L0). congruence.
        -- destruct T as [[-> T]|[-> [T0 T]]]; [destruct (t - length (c_ths c))%nat; discriminate E2|congruence].
      * eapply wt_cases_preserved; [exact W|exact A3|]. intros t E. apply OLD; [|exact E]. intros ->. congruence.
      * intros t E. eapply wt_cases_conv; [exact W|]. apply A4. destruct (Nat.eq_dec t tid) as [->|N]; [congruence|].
        apply nth_step_other in E; [|exact N]. destruct E as [E|[E1 E2]]; [exact E|].
        destruct sp; [|destruct (t - length (c_ths c))%nat; discriminate E2].
        destruct (t - length (c_ths c))%nat as [|k]; [discriminate E2|destruct k; discriminate E2].
    + cbn [app] in *. rewrite app_nil_r in *. repeat split.
      * intros t E. rewrite T in E. destruct (A1 t E) as [ph0 P]. destruct (Nat.eq_dec t tid) as [->|N]; [eauto|].
        exists ph0. rewrite nth_upd_other by exact N. exact P.
      * intros t ph0 E L0. destruct (Nat.eq_dec t tid) as [->|N]; [congruence|].
        rewrite nth_upd_other in E by exact N. rewrite T. eapply A2; eassumption.
      * intros w E. rewrite W in E. specialize (A3 w E). rewrite nth_upd_other; [exact A3|]. intros Q. rewrite Q in A3.
        rewrite N0 in A3. inv A3. contradiction.
      * intros t E. rewrite W. apply A4. destruct (Nat.eq_dec t tid) as [->|N]; [congruence|].
        rewrite nth_upd_other in E by exact N. exact E.
    + cbn [app] in *. rewrite app_nil_r in *. repeat split.
      * intros t E. congruence.
      * intros t ph0 E L0. destruct (Nat.eq_dec t tid) as [->|N]; [congruence|].
        rewrite nth_upd_other in E by exact N. specialize (A2 t ph0 E L0).
        (* the stepping thread is live, so it is thr; t is another live one *)
        destruct THR as [THR|THR]; [congruence|]. subst ph. inv L.
      * intros w E. rewrite W in E. specialize (A3 w E). rewrite nth_upd_other; [exact A3|]. intros Q. rewrite Q in A3.
        rewrite N0 in A3. inv A3. contradiction.
      * intros t E. rewrite W. apply A4. destruct (Nat.eq_dec t tid) as [->|N]; [congruence|].
        rewrite nth_upd_other in E by exact N. exact E.
    + cbn [app] in *. rewrite app_nil_r in *. destruct THR as [THR|THR]; [|contradiction]. repeat split.
      * intros t E. rewrite T, THR in E. inv E. eauto.
      * intros t ph0 E L0. destruct (Nat.eq_dec t tid) as [->|N]; [congruence|].
        rewrite nth_upd_other in E by exact N. rewrite T. eapply A2; eassumption.
      * intros w E. rewrite W in E. inv E. cbn [w_tid]. exact SAME.
      * intros t E. rewrite W. destruct (Nat.eq_dec t tid) as [->|N]; [eexists; split; reflexivity|].
        rewrite nth_upd_other in E by exact N. destruct (A4 t E) as [w [E1 E2]].
        specialize (A3 w E1). specialize (A2 t LWaiting E ltac:(discriminate)). congruence.
    + cbn [app] in *. rewrite app_nil_r in *. destruct THR as [THR|THR]; [|discriminate]. repeat split.
      * intros t E. rewrite T, THR in E. inv E. eauto.
      * intros t ph0 E L0. destruct (Nat.eq_dec t tid) as [->|N]; [congruence|].
        rewrite nth_upd_other in E by exact N. rewrite T. eapply A2; eassumption.
      * intros w E. congruence.
      * intros t E. destruct (Nat.eq_dec t tid) as [->|N]; [rewrite SAME in E; discriminate E|].
        rewrite nth_upd_other in E by exact N. specialize (A2 t LWaiting E ltac:(discriminate)). congruence.
Qed.

Lemma invA_tick : forall c d, invA c -> invA (tick c d).
Proof. intros c d H. exact H. Qed.

Lemma invA_run : forall sched c, invA c -> invA (run c sched).
Proof. intros. apply run_invariant; auto using invA_tick. intros; eapply invA_step; eassumption. Qed.

End Facts.

(* ---------------------------------------------------------------- part 3 *)
(* ---- merges -------------------------------------------------------------- *)
Inductive merge {A} : list A -> list A -> list A -> Prop :=
| M_nil : merge [] [] []
| M_l : forall x l1 l2 l, merge l1 l2 l -> merge (x :: l1) l2 (x :: l)
| M_r : forall x l1 l2 l, merge l1 l2 l -> merge l1 (x :: l2) (x :: l).

Lemma merge_nil_r : forall A (l : list A), merge l [] l.
Proof. induction l; constructor; assumption. Qed.
Lemma merge_nil_l : forall A (l : list A), merge [] l l.
Proof. induction l; constructor; assumption. Qed.

Lemma merge_app_l : forall A (m l1 l2 l : list A), merge l1 l2 l -> merge (m ++ l1) l2 (m ++ l).
Proof. induction m; intros; cbn; [assumption|]. constructor. apply IHm. assumption. Qed.

Lemma merge_perm : forall A (l1 l2 l : list A), merge l1 l2 l -> Permutation l (l1 ++ l2).
Proof.
  induction 1; cbn; [constructor|constructor; assumption|].
  etransitivity; [apply perm_skip; eassumption|]. apply Permutation_middle.
Qed.

Lemma merge_in : forall A (l1 l2 l : list A) x, merge l1 l2 l -> (In x l <-> In x l1 \/ In x l2).
Proof.
  intros A l1 l2 l x M. pose proof (merge_perm _ _ _ _ M) as P. split; intros H.
  - apply in_app_or. eapply Permutation_in; eassumption.
  - eapply Permutation_in; [symmetry; eassumption|]. apply in_or_app. exact H.
Qed.

Lemma merge_filter_l : forall A (p : A -> bool) (l1 l2 l : list A), merge l1 l2 l ->
  (forall x, In x l2 -> p x = false) -> filter p l = filter p l1.
Proof.
  induction 1; intros H2; cbn; [reflexivity| |].
  - rewrite IHmerge by assumption. reflexivity.
  - rewrite (H2 x) by (left; reflexivity). apply IHmerge. intros y Y. apply H2. right. exact Y.
Qed.

Lemma merge_filter_r : forall A (p : A -> bool) (l1 l2 l : list A), merge l1 l2 l ->
  (forall x, In x l1 -> p x = false) -> filter p l = filter p l2.
Proof.
  induction 1; intros H1; cbn; [reflexivity| |].
  - rewrite (H1 x) by (left; reflexivity). apply IHmerge. intros y Y. apply H1. right. exact Y.
  - rewrite IHmerge by assumption. reflexivity.
Qed.

(* ---- take_lt, collect ------------------------------------------------------ *)
Lemma take_lt_app : forall d l m rest, take_lt d l = (m, rest) -> l = m ++ rest.
Proof.
  induction l as [|r t IH]; intros m rest H; cbn in H; [inv H; reflexivity|].
  destruct (d >? it_due r); [|inv H; reflexivity].
  destruct (take_lt d t) as [m0 rest0]. inv H. cbn. f_equal. apply IH. reflexivity.
Qed.

Definition head_after (time : Z) (l : list item) : Prop :=
  match l with [] => True | y :: _ => time < it_due y end.

Lemma collect_merge : forall time qu rdy ready q',
  collect time qu rdy = (ready, q') ->
  exists taken, qu = taken ++ q' /\ merge rdy taken ready /\
                (forall x, In x taken -> it_due x <= time) /\ head_after time q'.
Proof.
  induction qu as [|x qu IH]; intros rdy ready q' H; cbn in H.
  - inv H. exists []. repeat split; [apply merge_nil_r|intros x []].
  - destruct (take_lt (it_due x) rdy) as [m rest] eqn:T. apply take_lt_app in T. subst rdy.
    destruct (it_due x >? time) eqn:G.
    + inv H. exists []. repeat split; [apply merge_nil_r|intros y []|]. cbn. apply Z.gtb_lt in G. lia.
    + destruct (collect time qu rest) as [r qu''] eqn:C. inv H.
      destruct (IH rest r q' C) as [taken [E [M [D HA]]]]. exists (x :: taken). repeat split.
      * cbn. f_equal. exact E.
      * apply merge_app_l. apply M_r. exact M.
      * intros y [<-|Y]; [|apply D; exact Y]. rewrite Z.gtb_ltb in G. apply Z.ltb_ge in G. exact G.
      * exact HA.
Qed.

(* ---- insert ------------------------------------------------------------------ *)
Lemma insert_perm : forall x l, Permutation (insert x l) (x :: l).
Proof.
  induction l as [|y t IH]; cbn; [reflexivity|]. destruct (it_due x <? it_due y); [reflexivity|].
  etransitivity; [apply perm_skip; exact IH|]. apply perm_swap.
Qed.

Lemma insert_in : forall x l y, In y (insert x l) <-> y = x \/ In y l.
Proof.
  intros x l y. split; intros H.
  - apply (Permutation_in _ (insert_perm x l)) in H. destruct H as [<-|H]; auto.
  - apply (Permutation_in _ (Permutation_sym (insert_perm x l))). destruct H as [->|H]; [left|right]; auto.
Qed.

Definition le_due (a b : item) : Prop := it_due a <= it_due b.

Lemma insert_sorted : forall x l, StronglySorted le_due l -> StronglySorted le_due (insert x l).
Proof.
  induction l as [|y t IH]; intros S; cbn; [repeat constructor|].
  inversion S as [|? ? S' F]; subst. destruct (it_due x <? it_due y) eqn:C.
  - apply Z.ltb_lt in C. constructor; [exact S|]. constructor; [unfold le_due; lia|].
    eapply Forall_impl; [|exact F]. unfold le_due. intros; lia.
  - apply Z.ltb_ge in C. constructor; [apply IH; exact S'|]. apply Forall_forall. intros z Z0.
    apply insert_in in Z0. destruct Z0 as [->|Z0]; [exact C|]. rewrite Forall_forall in F. apply F, Z0.
Qed.

Lemma sorted_app : forall (l1 l2 : list item),
  StronglySorted le_due l1 -> StronglySorted le_due l2 ->
  (forall x y, In x l1 -> In y l2 -> le_due x y) -> StronglySorted le_due (l1 ++ l2).
Proof.
  induction l1 as [|a l1 IH]; intros l2 S1 S2 H; cbn; [exact S2|].
  inversion S1 as [|? ? S1' F]; subst. constructor.
  - apply IH; [exact S1'|exact S2|]. intros x y X Y. apply H; [right; exact X|exact Y].
  - apply Forall_forall. intros z Z0. apply in_app_or in Z0. destruct Z0 as [Z0|Z0].
    + rewrite Forall_forall in F. apply F, Z0.
    + apply H; [left; reflexivity|exact Z0].
Qed.

Lemma sorted_app_l : forall (l1 l2 : list item), StronglySorted le_due (l1 ++ l2) -> StronglySorted le_due l1.
Proof.
  induction l1 as [|a l1 IH]; intros l2 S; [constructor|]. cbn in S. inversion S as [|? ? S' F]; subst.
  constructor; [eapply IH; exact S'|]. rewrite Forall_forall in *. intros z Z0. apply F. apply in_or_app. left. exact Z0.
Qed.

Lemma sorted_app_r : forall (l1 l2 : list item), StronglySorted le_due (l1 ++ l2) -> StronglySorted le_due l2.
Proof. induction l1 as [|a l1 IH]; intros l2 S; [exact S|]. cbn in S. inversion S; subst. apply IH. assumption. Qed.

Lemma sorted_head_le : forall x l y, StronglySorted le_due (x :: l) -> In y (x :: l) -> it_due x <= it_due y.
Proof.
  intros x l y S [<-|Y]; [lia|]. inversion S as [|? ? _ F]; subst. rewrite Forall_forall in F. apply F, Y.
Qed.

Lemma sorted_filter : forall p (l : list item), StronglySorted le_due l -> StronglySorted le_due (filter p l).
Proof.
  induction l as [|a l IH]; intros S; cbn; [constructor|]. inversion S as [|? ? S' F]; subst.
  destruct (p a); [|apply IH; exact S']. constructor; [apply IH; exact S'|].
  rewrite Forall_forall in *. intros z Z0. apply filter_In in Z0. apply F, Z0.
Qed.

(* ---------------------------------------------------------------- part 4 *)
(* ---- the log ----------------------------------------------------------------- *)
Lemma in_stamp : forall tid clk out tid' t e,
  In (tid', t, e) (stamp tid clk out) <-> tid' = tid /\ t = clk /\ In e out.
Proof.
  intros. unfold stamp. rewrite in_map_iff. split.
  - intros [x [E I]]. inv E. auto.
  - intros [-> [-> I]]. exists e. auto.
Qed.

Lemma evs_app : forall a b, evs (a ++ b) = evs a ++ evs b.
Proof. intros. unfold evs. apply map_app. Qed.
Lemma evs_stamp : forall tid clk out, evs (stamp tid clk out) = out.
Proof. intros. unfold evs, stamp. rewrite map_map. cbn. apply map_id. Qed.

(* accepted items, dispatched (= tested for cancellation) items, in log order *)
Fixpoint accs (l : list ev) : list item :=
  match l with [] => [] | EAcc i :: t => i :: accs t | _ :: t => accs t end.
Fixpoint checks (l : list ev) : list item :=
  match l with [] => [] | ECheck i _ :: t => i :: checks t | _ :: t => checks t end.

Lemma accs_app : forall a b, accs (a ++ b) = accs a ++ accs b.
Proof. induction a as [|[] a IH]; intros b; cbn; rewrite ?IH; reflexivity. Qed.
Lemma checks_app : forall a b, checks (a ++ b) = checks a ++ checks b.
Proof. induction a as [|[] a IH]; intros b; cbn; rewrite ?IH; reflexivity. Qed.

(* the items a loop thread has collected and not yet tested *)
Definition tpend (t : tstate) : list item :=
  match t with
  | TLoop (LExec r) | TLoop (LInvoke _ r) | TLoop (LBody _ _ _ r) => r
  | _ => []
  end.

(* a quantity read off the state of the scheduler's thread (default when there is none) *)
Definition at_thr {X} (f : tstate -> X) (d : X) (c : config) : X :=
  match thr (c_sh c) with
  | Some t => match nth_error (c_ths c) t with Some st => f st | None => d end
  | None => d
  end.

Definition inflight (c : config) : list item := at_thr tpend [] c.

Lemma tpend_next : forall r, tpend (TLoop (next_phase r)) = r.
Proof. destruct r; reflexivity. Qed.

(* ---- effect of one call step on the queues ------------------------------------- *)
Inductive enq_eff (s s' : shared) (out : list ev) : Prop :=
| EF_none : rl s' = rl s -> q s' = q s -> accs out = [] -> enq_eff s s' out
| EF_imm : forall it, rl s' = rl s ++ [it] -> q s' = q s -> accs out = [it] -> wt s' = notify (wt s) ->
    it_imm it = true -> it_due it <= clock s -> enq_eff s s' out
| EF_timed : forall it, rl s' = rl s -> q s' = insert it (q s) -> accs out = [it] -> wt s' = notify (wt s) ->
    it_imm it = false -> clock s < it_due it -> enq_eff s s' out.

Lemma opstep_enq : forall ntid s cur todo s' cur' todo' out sp,
  opstep ntid s cur todo s' cur' todo' out sp ->
  enq_eff s s' out /\ checks out = [] /\ clock s' = clock s /\ (disposed s = true -> disposed s' = true).
Proof.
  intros. inv H; cbn; repeat split; auto;
    try (apply EF_none; reflexivity);
    try (eapply EF_imm; cbn; try reflexivity; assumption);
    try (eapply EF_timed; cbn; try reflexivity; assumption).
Qed.

Section Facts.
Variable eie : bool.
Variable body : nat -> list op.
Notation cstep := (cstep eie body).

(* ---- effect of one step of any thread on queues, pending items and the log ------- *)
Inductive deff (c c' : config) (out : list ev) : Prop :=
| DE_none :
    rl (c_sh c') = rl (c_sh c) -> q (c_sh c') = q (c_sh c) -> inflight c' = inflight c ->
    accs out = [] -> checks out = [] -> deff c c' out
| DE_imm : forall it,
    rl (c_sh c') = rl (c_sh c) ++ [it] -> q (c_sh c') = q (c_sh c) -> inflight c' = inflight c ->
    accs out = [it] -> checks out = [] -> wt (c_sh c') = notify (wt (c_sh c)) ->
    it_imm it = true -> it_due it <= clock (c_sh c) -> deff c c' out
| DE_timed : forall it,
    rl (c_sh c') = rl (c_sh c) -> q (c_sh c') = insert it (q (c_sh c)) -> inflight c' = inflight c ->
    accs out = [it] -> checks out = [] -> wt (c_sh c') = notify (wt (c_sh c)) ->
    it_imm it = false -> clock (c_sh c) < it_due it -> deff c c' out
| DE_collect : forall ready q',
    disposed (c_sh c) = false ->
    collect (clock (c_sh c)) (q (c_sh c)) (rl (c_sh c)) = (ready, q') ->
    rl (c_sh c') = [] -> q (c_sh c') = q' -> inflight c = [] -> inflight c' = ready ->
    accs out = [] -> checks out = [] -> wt (c_sh c') = wt (c_sh c) -> deff c c' out
| DE_check : forall i r b,
    rl (c_sh c') = rl (c_sh c) -> q (c_sh c') = q (c_sh c) -> inflight c = i :: r -> inflight c' = r ->
    accs out = [] -> out = [ECheck i b] -> wt (c_sh c') = wt (c_sh c) -> deff c c' out.

Lemma at_thr_sched : forall X (f : tstate -> X) d c tid cur todo s' cur' todo' out sp,
  f (TLoop LNew) = d ->
  invA c -> nth_error (c_ths c) tid = Some (TSched cur todo) ->
  opstep (length (c_ths c)) (c_sh c) cur todo s' cur' todo' out sp ->
  at_thr f d (Config s' (upd tid (TSched cur' todo') (c_ths c) ++ (if sp then [TLoop LNew] else []))
                     (c_log c ++ stamp tid (clock (c_sh c)) out)) = at_thr f d c.
Proof.
  intros X f d c tid cur todo s' cur' todo' out sp FN [A1 _] N O. unfold at_thr. cbn [c_sh c_ths].
  destruct (opstep_thr _ _ _ _ _ _ _ _ _ O) as [[-> T]|[-> [T0 T]]]; rewrite T.
  - destruct (thr (c_sh c)) as [t|] eqn:E; [|reflexivity]. destruct (A1 t eq_refl) as [ph P].
    rewrite P. erewrite nth_step_old; [reflexivity| |exact P]. intros ->. congruence.
  - rewrite T0. rewrite nth_error_app2 by (rewrite upd_length; lia). rewrite upd_length, Nat.sub_diag. exact FN.
Qed.

Lemma at_thr_loop : forall X (f : tstate -> X) d c tid ph s' ph' out sp,
  f (TLoop LExited) = d ->
  invA c -> nth_error (c_ths c) tid = Some (TLoop ph) ->
  loopstep eie body tid (length (c_ths c)) (c_sh c) ph s' ph' out sp ->
  thr (c_sh c) = Some tid /\ at_thr f d c = f (TLoop ph) /\
  at_thr f d (Config s' (upd tid (TLoop ph') (c_ths c) ++ (if sp then [TLoop LNew] else []))
                     (c_log c ++ stamp tid (clock (c_sh c)) out)) = f (TLoop ph').
Proof.
  intros X f d c tid ph s' ph' out sp FE [A1 [A2 _]] N L.
  assert (LIVE : ph <> LExited) by (intros ->; inv L).
  pose proof (A2 tid ph N LIVE) as T. split; [exact T|]. split; [unfold at_thr; rewrite T, N; reflexivity|].
  unfold at_thr. cbn [c_sh c_ths].
  assert (TS : thr s' = Some tid \/ (thr s' = None /\ ph' = LExited)).
  { inv L; cbn; auto. destruct (opstep_thr _ _ _ _ _ _ _ _ _ H) as [[-> T']|[-> [T0 T']]]; [left; congruence|congruence]. }
  destruct TS as [TS|[TS ->]]; rewrite TS; [|symmetry; exact FE].
  erewrite nth_step_same by exact N. reflexivity.
Qed.

Lemma inflight_sched : forall c tid cur todo s' cur' todo' out sp,
  invA c -> nth_error (c_ths c) tid = Some (TSched cur todo) ->
  opstep (length (c_ths c)) (c_sh c) cur todo s' cur' todo' out sp ->
  inflight (Config s' (upd tid (TSched cur' todo') (c_ths c) ++ (if sp then [TLoop LNew] else []))
                   (c_log c ++ stamp tid (clock (c_sh c)) out)) = inflight c.
Proof. intros. eapply at_thr_sched; eauto. Qed.

Lemma inflight_loop : forall c tid ph s' ph' out sp,
  invA c -> nth_error (c_ths c) tid = Some (TLoop ph) ->
  loopstep eie body tid (length (c_ths c)) (c_sh c) ph s' ph' out sp ->
  inflight c = tpend (TLoop ph) /\
  inflight (Config s' (upd tid (TLoop ph') (c_ths c) ++ (if sp then [TLoop LNew] else []))
                   (c_log c ++ stamp tid (clock (c_sh c)) out)) = tpend (TLoop ph').
Proof. intros. eapply (at_thr_loop _ tpend []); eauto. Qed.

Lemma cstep_deff : forall c tid c', invA c -> cstep c tid c' ->
  exists out, c_log c' = c_log c ++ stamp tid (clock (c_sh c)) out /\
              clock (c_sh c') = clock (c_sh c) /\ deff c c' out.
Proof.
  intros c tid c' A S. inv S.
  - exists out. split; [reflexivity|]. pose proof (inflight_sched _ _ _ _ _ _ _ _ _ A H H0) as I.
    destruct (opstep_enq _ _ _ _ _ _ _ _ _ H0) as [E [C [K _]]]. split; [exact K|].
    destruct E.
    + apply DE_none; auto.
    + eapply DE_imm; eauto.
    + eapply DE_timed; eauto.
  - exists out. split; [reflexivity|]. destruct (inflight_loop _ _ _ _ _ _ _ A H H0) as [I1 I2].
    inv H0; try rewrite tpend_next in *; cbn [tpend] in *;
      try (split; [reflexivity|]; apply DE_none; unfold set_q in *; cbn [c_sh rl q wt clock accs checks]; auto; congruence).
    + split; [reflexivity|]. eapply DE_collect; eauto.
    + split; [reflexivity|]. eapply DE_check; eauto.
    + split; [reflexivity|]. eapply DE_check; eauto.
    + destruct (opstep_enq _ _ _ _ _ _ _ _ _ H1) as [E [C [K _]]]. split; [exact K|].
      destruct E.
      * apply DE_none; auto. congruence.
      * eapply DE_imm; eauto. congruence.
      * eapply DE_timed; eauto. congruence.
Qed.
End Facts.

(* ---------------------------------------------------------------- part 5 *)
Definition timed (i : item) : bool := negb (it_imm i).
Definition L (c : config) : list ev := evs (c_log c).

Lemma filter_all : forall A (p : A -> bool) l, (forall x, In x l -> p x = true) -> filter p l = l.
Proof.
  induction l as [|a l IH]; intros H; cbn; [reflexivity|]. rewrite (H a) by (left; reflexivity).
  f_equal. apply IH. intros x X. apply H. right. exact X.
Qed.
Lemma filter_none : forall A (p : A -> bool) l, (forall x, In x l -> p x = false) -> filter p l = [].
Proof.
  induction l as [|a l IH]; intros H; cbn; [reflexivity|]. rewrite (H a) by (left; reflexivity).
  apply IH. intros x X. apply H. right. exact X.
Qed.

Lemma perm_enq_rl : forall (a x y r qq : list item) it,
  Permutation a (x ++ y ++ r ++ qq) -> Permutation (a ++ [it]) (x ++ y ++ (r ++ [it]) ++ qq).
Proof.
  intros a x y r qq it P. etransitivity; [apply Permutation_app_tail; exact P|].
  rewrite <- !app_assoc. do 3 apply Permutation_app_head.
  cbn. apply Permutation_sym, Permutation_cons_append.
Qed.

Lemma perm_enq_q : forall (a x y r qq : list item) it,
  Permutation a (x ++ y ++ r ++ qq) -> Permutation (a ++ [it]) (x ++ y ++ r ++ insert it qq).
Proof.
  intros a x y r qq it P. etransitivity; [apply Permutation_app_tail; exact P|].
  rewrite <- !app_assoc. do 3 apply Permutation_app_head.
  etransitivity; [apply Permutation_sym, Permutation_cons_append|]. apply Permutation_sym, insert_perm.
Qed.

Lemma perm_collect : forall (a x rdy taken ready q' : list item),
  merge rdy taken ready ->
  Permutation a (x ++ rdy ++ taken ++ q') -> Permutation a (x ++ ready ++ q').
Proof.
  intros a x rdy taken ready q' M P. etransitivity; [exact P|]. apply Permutation_app_head.
  rewrite app_assoc. apply Permutation_app_tail. apply Permutation_sym, merge_perm, M.
Qed.

Section Facts.
Variable eie : bool.
Variable body : nat -> list op.
Notation cstep := (cstep eie body).
Notation run := (run eie body).

Definition invD (c : config) : Prop :=
  (forall i, In i (rl (c_sh c)) -> it_imm i = true) /\
  (forall i, In i (q (c_sh c)) -> it_imm i = false) /\
  filter it_imm (accs (L c)) = filter it_imm (checks (L c)) ++ filter it_imm (inflight c) ++ rl (c_sh c) /\
  Permutation (accs (L c)) (checks (L c) ++ inflight c ++ rl (c_sh c) ++ q (c_sh c)) /\
  StronglySorted le_due (q (c_sh c)) /\
  (exists lct, lct <= clock (c_sh c) /\
     (forall i, In i (q (c_sh c)) -> lct < it_due i) /\
     (forall i, In i (filter timed (checks (L c) ++ inflight c)) -> it_due i <= lct) /\
     StronglySorted le_due (filter timed (checks (L c) ++ inflight c))) /\
  (forall i, In i (rl (c_sh c)) -> it_due i <= clock (c_sh c)) /\
  (forall i, In i (inflight c) -> it_due i <= clock (c_sh c)).

Lemma invD_init : forall t0 progs, invD (init t0 progs).
Proof.
  intros. unfold invD, L, inflight, init. cbn. repeat split; try (intros i []); try constructor.
  exists t0. repeat split; try lia; try (intros i []). constructor.
Qed.

Lemma invD_tick : forall c d, invD c -> invD (tick c d).
Proof.
  intros c d (D1 & D2 & D3 & D4 & D5 & (lct & E1 & E2 & E3 & E4) & D7 & D8).
  unfold invD, L, inflight in *. cbn [tick c_sh c_ths c_log rl q thr clock] in *.
  repeat split; auto.
  - exists lct. repeat split; auto. lia.
  - intros i I. specialize (D7 i I). lia.
  - intros i I. specialize (D8 i I). lia.
Qed.

Lemma invD_step : forall c tid c', invA c -> invD c -> cstep c tid c' -> invD c'.
Proof.
  intros c tid c' A (D1 & D2 & D3 & D4 & D5 & (lct & E1 & E2 & E3 & E4) & D7 & D8) S.
  destruct (cstep_deff eie body c tid c' A S) as [out [LG [CK DF]]].
  assert (LE : L c' = L c ++ out) by (unfold L; rewrite LG, evs_app, evs_stamp; reflexivity).
  unfold invD. rewrite LE, CK, accs_app, checks_app.
  destruct DF as [R Q I Ao Co|it R Q I Ao Co W Im Du|it R Q I Ao Co W Im Du|ready q' Dp Cl R Q I0 I Ao Co W|i r b R Q I0 I Ao Co W].
  - rewrite R, Q, I, Ao, Co, !app_nil_r. repeat split; auto. exists lct. repeat split; auto.
  - rewrite R, Q, I, Ao, Co, !app_nil_r. repeat split; auto.
    + intros i X. apply in_app_or in X. destruct X as [X|[<-|[]]]; auto.
    + rewrite filter_app. cbn. rewrite Im, D3, <- !app_assoc. reflexivity.
    + apply perm_enq_rl. exact D4.
    + exists lct. repeat split; auto.
    + intros i X. apply in_app_or in X. destruct X as [X|[<-|[]]]; auto.
  - rewrite R, Q, I, Ao, Co, !app_nil_r. repeat split; auto.
    + intros i X. apply insert_in in X. destruct X as [->|X]; auto.
    + rewrite filter_app. cbn. rewrite Im, app_nil_r. exact D3.
    + apply perm_enq_q. exact D4.
    + apply insert_sorted. exact D5.
    + exists lct. repeat split; auto. intros i X. apply insert_in in X. destruct X as [->|X]; [lia|auto].
  - destruct (collect_merge _ _ _ _ _ Cl) as [taken [EQ [M [TD HA]]]].
    assert (TQ : forall x, In x taken -> In x (q (c_sh c))) by (intros x X; rewrite EQ; apply in_or_app; left; exact X).
    assert (QQ : forall x, In x q' -> In x (q (c_sh c))) by (intros x X; rewrite EQ; apply in_or_app; right; exact X).
    rewrite I0 in *. rewrite R, Q, I, Ao, Co, !app_nil_r in *. cbn [app filter] in D3, D4.
    assert (FR : filter it_imm ready = rl (c_sh c)).
    { rewrite (merge_filter_l _ it_imm _ _ _ M) by (intros x X; apply D2, TQ, X). apply filter_all. exact D1. }
    assert (FT : filter timed ready = taken).
    { rewrite (merge_filter_r _ timed _ _ _ M).
      - apply filter_all. intros x X. unfold timed. rewrite (D2 x (TQ x X)). reflexivity.
      - intros x X. unfold timed. rewrite (D1 x X). reflexivity. }
    repeat split.
    + intros i [].
    + intros i X. apply D2, QQ, X.
    + rewrite FR. rewrite D3. reflexivity.
    + cbn [app]. eapply perm_collect; [exact M|]. rewrite <- EQ. exact D4.
    + rewrite EQ in D5. eapply sorted_app_r, D5.
    + exists (clock (c_sh c)). repeat split; [lia| | |].
      * intros i X. rewrite EQ in D5. apply sorted_app_r in D5. destruct q' as [|y q'']; [destruct X|].
        cbn in HA. pose proof (sorted_head_le _ _ _ D5 X). lia.
      * intros i X. rewrite filter_app, FT in X. apply in_app_or in X. destruct X as [X|X].
        -- specialize (E3 i X). lia.
        -- apply TD, X.
      * rewrite filter_app, FT. apply sorted_app; [exact E4| |].
        -- rewrite EQ in D5. eapply sorted_app_l, D5.
        -- intros x y X Y. specialize (E3 x X). specialize (E2 y (TQ y Y)). unfold le_due. lia.
    + intros i [].
    + intros i X. apply (merge_in _ _ _ _ i M) in X. destruct X as [X|X]; [apply D7, X|apply TD, X].
  - rewrite I0 in *. rewrite R, Q, I, Ao, Co in *. cbn [checks accs] in *. rewrite !app_nil_r.
    assert (EQ1 : forall z : list item, (checks (L c) ++ [i]) ++ r ++ z = checks (L c) ++ (i :: r) ++ z)
      by (intros; rewrite <- app_assoc; reflexivity).
    assert (EQ2 : (checks (L c) ++ [i]) ++ r = checks (L c) ++ i :: r)
      by (rewrite <- app_assoc; reflexivity).
    repeat split; auto.
    + rewrite D3, filter_app. cbn [filter]. destruct (it_imm i); cbn; rewrite <- !app_assoc; reflexivity.
    + rewrite EQ1. exact D4.
    + exists lct. rewrite EQ2. repeat split; auto.
    + intros x X. apply D8. right. exact X.
Qed.

Lemma invAD_run : forall sched c, invA c -> invD c -> invA (run c sched) /\ invD (run c sched).
Proof.
  intros sched c A D. split; [apply invA_run; exact A|].
  apply (run_invariant2 eie body invD invA); auto.
  - intros. apply invA_run. assumption.
  - intros. eapply invD_step; eassumption.
  - intros. apply invD_tick. assumption.
Qed.
End Facts.

(* ---------------------------------------------------------------- part 6 *)
Definition item_eqb (i j : item) : bool :=
  Nat.eqb (it_uid i) (it_uid j) && Nat.eqb (it_lbl i) (it_lbl j) && Z.eqb (it_due i) (it_due j)
  && Bool.eqb (it_imm i) (it_imm j).
Lemma item_eqb_refl : forall i, item_eqb i i = true.
Proof. intros [u a d m]. unfold item_eqb. cbn. rewrite !Nat.eqb_refl, Z.eqb_refl, eqb_reflx. reflexivity. Qed.
Lemma item_eqb_eq : forall i j, item_eqb i j = true -> i = j.
Proof.
  intros [u a d m] [u' a' d' m'] H. unfold item_eqb in H. cbn in H.
  apply andb_true_iff in H. destruct H as [H H4]. apply andb_true_iff in H. destruct H as [H H3].
  apply andb_true_iff in H. destruct H as [H1 H2].
  apply Nat.eqb_eq in H1, H2. apply Z.eqb_eq in H3. apply eqb_prop in H4. subst. reflexivity.
Qed.

(* events made by the code of a call (never by the loop itself) *)
Definition callish (e : ev) : bool :=
  match e with
  | ECall _ _ | EPass _ | EAcc _ | ERet _ | ERaise _ | ECancelRet _ | EDisposeRet | ESpawn _ => true
  | _ => false
  end.

Lemma opstep_callish : forall ntid s cur todo s' cur' todo' out sp,
  opstep ntid s cur todo s' cur' todo' out sp -> forallb callish out = true.
Proof. intros. inv H; reflexivity. Qed.

(* ---- scanner 1: actions never overlap ------------------------------------------- *)
(* state: the action that is running; None = failure *)
Fixpoint ser (o : option item) (l : list ev) : option (option item) :=
  match l with
  | [] => Some o
  | EStart i :: r => match o with None => ser (Some i) r | Some _ => None end
  | EEnd i :: r => match o with Some j => if item_eqb i j then ser None r else None | None => None end
  | _ :: r => ser o r
  end.

Lemma ser_app : forall a b o, ser o (a ++ b) = match ser o a with Some o' => ser o' b | None => None end.
Proof.
  induction a as [|e a IH]; intros b o; [reflexivity|]. destruct e; cbn; try apply IH.
  - destruct o; [reflexivity|apply IH].
  - destruct o as [j|]; [|reflexivity]. destruct (item_eqb it j); [apply IH|reflexivity].
Qed.

Lemma ser_callish : forall l o, forallb callish l = true -> ser o l = Some o.
Proof.
  induction l as [|e l IH]; intros o H; [reflexivity|]. cbn in H. apply andb_true_iff in H. destruct H as [H1 H2].
  destruct e; try discriminate H1; cbn; apply IH; exact H2.
Qed.

(* ---- scanner 2: an action starts only right after its own is_cancelled() -> False ---- *)
(* state: the item that passed the test and has not started yet *)
Fixpoint pick (o : option item) (l : list ev) : option (option item) :=
  match l with
  | [] => Some o
  | ECheck i false :: r => match o with None => pick (Some i) r | Some _ => None end
  | EStart i :: r => match o with Some j => if item_eqb i j then pick None r else None | None => None end
  | _ :: r => pick o r
  end.

Lemma pick_app : forall a b o, pick o (a ++ b) = match pick o a with Some o' => pick o' b | None => None end.
Proof.
  induction a as [|e a IH]; intros b o; [reflexivity|]. destruct e; cbn; try apply IH.
  - destruct c; [apply IH|]. destruct o; [reflexivity|apply IH].
  - destruct o as [j|]; [|reflexivity]. destruct (item_eqb it j); [apply IH|reflexivity].
Qed.

Lemma pick_callish : forall l o, forallb callish l = true -> pick o l = Some o.
Proof.
  induction l as [|e l IH]; intros o H; [reflexivity|]. cbn in H. apply andb_true_iff in H. destruct H as [H1 H2].
  destruct e; try discriminate H1; cbn; apply IH; exact H2.
Qed.

(* ---- scanner 3: no is_cancelled() -> False after the item's disposable was disposed ---- *)
Fixpoint seen_after (seen : list nat) (l : list ev) : list nat :=
  match l with
  | [] => seen
  | ECancelRet a :: r => seen_after (a :: seen) r
  | _ :: r => seen_after seen r
  end.

Fixpoint cancel_ok (seen : list nat) (l : list ev) : bool :=
  match l with
  | [] => true
  | ECancelRet a :: r => cancel_ok (a :: seen) r
  | ECheck i false :: r => negb (mem (it_lbl i) seen) && cancel_ok seen r
  | _ :: r => cancel_ok seen r
  end.

Lemma seen_after_app : forall a b seen, seen_after seen (a ++ b) = seen_after (seen_after seen a) b.
Proof. induction a as [|e a IH]; intros b seen; [reflexivity|]. destruct e; cbn; apply IH. Qed.

Lemma cancel_ok_app : forall a b seen,
  cancel_ok seen (a ++ b) = cancel_ok seen a && cancel_ok (seen_after seen a) b.
Proof.
  induction a as [|e a IH]; intros b seen; [reflexivity|]. destruct e; cbn; try apply IH.
  destruct c; [apply IH|]. rewrite IH. rewrite andb_assoc. reflexivity.
Qed.

Lemma mem_seen_after : forall l seen a, mem a seen = true \/ In (ECancelRet a) l -> mem a (seen_after seen l) = true.
Proof.
  induction l as [|e l IH]; intros seen a H; cbn.
  - destruct H as [H|[]]. exact H.
  - destruct e; try (apply IH; destruct H as [H|[H|H]]; [left; exact H|discriminate H|right; exact H]).
    apply IH. destruct H as [H|[H|H]].
    + left. cbn. rewrite H. apply orb_true_r.
    + inv H. left. cbn. rewrite Nat.eqb_refl. reflexivity.
    + right. exact H.
Qed.

(* what the scanners say about a log, in plain terms *)
Lemma cancel_ok_spec : forall l1 i l2 seen,
  cancel_ok seen (l1 ++ ECheck i false :: l2) = true -> ~ In (ECancelRet (it_lbl i)) l1.
Proof.
  intros l1 i l2 seen H I. rewrite cancel_ok_app in H. apply andb_true_iff in H. destruct H as [_ H].
  cbn in H. apply andb_true_iff in H. destruct H as [H _].
  rewrite (mem_seen_after l1 seen (it_lbl i)) in H by (right; exact I). discriminate H.
Qed.

Lemma pick_spec : forall l1 i l2 o r,
  pick o (l1 ++ EStart i :: l2) = Some r -> o = Some i \/ In (ECheck i false) l1.
Proof.
  induction l1 as [|e l1 IH]; intros i l2 o r H.
  - cbn in H. destruct o as [j|]; [|discriminate H]. destruct (item_eqb i j) eqn:E; [|discriminate H].
    apply item_eqb_eq in E. subst. left. reflexivity.
  - cbn [app] in H. destruct e; cbn in H; try (destruct (IH _ _ _ _ H) as [X|X]; [left; exact X|right; right; exact X]).
    + destruct c.
      * destruct (IH _ _ _ _ H) as [X|X]; [left; exact X|right; right; exact X].
      * destruct o; [discriminate H|]. destruct (IH _ _ _ _ H) as [X|X]; [inv X; right; left; reflexivity|right; right; exact X].
    + destruct o as [j|]; [|discriminate H]. destruct (item_eqb it j); [|discriminate H].
      destruct (IH _ _ _ _ H) as [X|X]; [discriminate X|right; right; exact X].
Qed.

Lemma ser_spec : forall l1 i l2 r,
  ser None (l1 ++ EStart i :: l2) = Some r -> ser None l1 = Some None.
Proof.
  intros l1 i l2 r H. rewrite ser_app in H. destruct (ser None l1) as [[j|]|]; [|reflexivity|discriminate H].
  cbn in H. discriminate H.
Qed.

(* at the end of a log accepted with nothing open: every start has its end, every passed test its start *)
Lemma ser_closed : forall l o i, ser o l = Some None -> In (EStart i) l -> In (EEnd i) l.
Proof.
  induction l as [|e l IH]; intros o i H I; [destruct I|]. destruct I as [->|I].
  - cbn in H. destruct o; [discriminate H|]. clear IH. right.
    (* the open action i is closed by an EEnd i later *)
    revert H. generalize i. induction l as [|e l IH]; intros j H; [discriminate H|].
    destruct e; cbn in H; try (right; eapply IH; exact H).
    + discriminate H.
    + destruct (item_eqb it j) eqn:E; [|discriminate H]. apply item_eqb_eq in E. subst. left. reflexivity.
  - right. destruct e; cbn in H; try (eapply IH; eassumption).
    + destruct o; [discriminate H|]. eapply IH; eassumption.
    + destruct o as [j|]; [|discriminate H]. destruct (item_eqb it j); [|discriminate H]. eapply IH; eassumption.
Qed.

Lemma pick_closed : forall l o i, pick o l = Some None -> In (ECheck i false) l -> In (EStart i) l.
Proof.
  induction l as [|e l IH]; intros o i H I; [destruct I|]. destruct I as [->|I].
  - cbn in H. destruct o; [discriminate H|]. clear IH. right.
    revert H. generalize i. induction l as [|e l IH]; intros j H; [discriminate H|].
    destruct e; cbn in H; try (right; eapply IH; exact H).
    + destruct c; [right; eapply IH; exact H|discriminate H].
    + destruct (item_eqb it j) eqn:E; [|discriminate H]. apply item_eqb_eq in E. subst. left. reflexivity.
  - right. destruct e; cbn in H; try (eapply IH; eassumption).
    + destruct c; [eapply IH; eassumption|]. destruct o; [discriminate H|]. eapply IH; eassumption.
    + destruct o as [j|]; [|discriminate H]. destruct (item_eqb it j); [|discriminate H]. eapply IH; eassumption.
Qed.

(* ---------------------------------------------------------------- part 7 *)
Definition tbody (st : tstate) : option item :=
  match st with TLoop (LBody i _ _ _) => Some i | _ => None end.
Definition tinv (st : tstate) : option item :=
  match st with TLoop (LInvoke i _) => Some i | _ => None end.

Lemma tbody_next : forall r, tbody (TLoop (next_phase r)) = None.
Proof. destruct r; reflexivity. Qed.
Lemma tinv_next : forall r, tinv (TLoop (next_phase r)) = None.
Proof. destruct r; reflexivity. Qed.

Lemma cancel_ok_callish : forall l seen, forallb callish l = true -> cancel_ok seen l = true.
Proof.
  induction l as [|e l IH]; intros seen H; [reflexivity|]. cbn in H. apply andb_true_iff in H. destruct H as [H1 H2].
  destruct e; try discriminate H1; cbn; apply IH; exact H2.
Qed.

Lemma opstep_seen : forall ntid s cur todo s' cur' todo' out sp,
  opstep ntid s cur todo s' cur' todo' out sp -> seen_after (cancelled s) out = cancelled s'.
Proof. intros. inv H; reflexivity. Qed.

Section Facts.
Variable eie : bool.
Variable body : nat -> list op.
Notation cstep := (cstep eie body).
Notation run := (run eie body).

Definition invS (c : config) : Prop :=
  ser None (L c) = Some (at_thr tbody None c) /\
  pick None (L c) = Some (at_thr tinv None c) /\
  cancel_ok [] (L c) = true /\
  seen_after [] (L c) = cancelled (c_sh c).

Lemma invS_init : forall t0 progs, invS (init t0 progs).
Proof. intros. unfold invS, L, at_thr, init. cbn. auto. Qed.

Lemma invS_step : forall c tid c', invA c -> invS c -> cstep c tid c' -> invS c'.
Proof.
  intros c tid c' A (S1 & S2 & S3 & S4) S. inv S.
  - (* a scheduling thread *)
    pose proof (opstep_callish _ _ _ _ _ _ _ _ _ H0) as CL.
    unfold invS, L. cbn [c_log c_sh]. rewrite evs_app, evs_stamp. fold (L c).
    rewrite ser_app, pick_app, cancel_ok_app, seen_after_app, S1, S2, S3, S4.
    rewrite (ser_callish _ _ CL), (pick_callish _ _ CL), (cancel_ok_callish _ _ CL).
    rewrite (opstep_seen _ _ _ _ _ _ _ _ _ H0).
    rewrite !(at_thr_sched _ _ _ c tid cur todo) by (try reflexivity; assumption). auto.
  - (* a loop thread *)
    destruct (at_thr_loop eie body _ tbody None c tid ph s' ph' out sp eq_refl A H H0) as [_ [B1 B2]].
    destruct (at_thr_loop eie body _ tinv None c tid ph s' ph' out sp eq_refl A H H0) as [_ [I1 I2]].
    unfold invS, L. cbn [c_log c_sh]. rewrite evs_app, evs_stamp. fold (L c).
    rewrite ser_app, pick_app, cancel_ok_app, seen_after_app, S1, S2, S3, S4, B1, B2, I1, I2.
    inv H0; rewrite ?tbody_next, ?tinv_next; cbn [tbody tinv ser pick cancel_ok seen_after andb]; rewrite ?item_eqb_refl; auto.
    + (* pick *) rewrite H1. auto.
    + (* a call inside the action *)
      pose proof (opstep_callish _ _ _ _ _ _ _ _ _ H1) as CL.
      rewrite (ser_callish _ _ CL), (pick_callish _ _ CL), (cancel_ok_callish _ _ CL).
      rewrite (opstep_seen _ _ _ _ _ _ _ _ _ H1). auto.
Qed.

Lemma invS_tick : forall c d, invS c -> invS (tick c d).
Proof. intros c d H. exact H. Qed.

Lemma invAS_run : forall sched c, invA c -> invS c -> invS (run c sched).
Proof.
  intros sched c A D. apply (run_invariant2 eie body invS invA); auto.
  - intros. apply invA_run. assumption.
  - intros. eapply invS_step; eassumption.
Qed.
End Facts.

(* ---------------------------------------------------------------- part 8 *)
Lemma callish_in : forall out e, forallb callish out = true -> In e out -> callish e = true.
Proof. intros out e H I. rewrite forallb_forall in H. apply H, I. Qed.

Definition is_spawn (e : ev) : bool := match e with ESpawn _ => true | _ => false end.
Definition nspawn (l : list ev) : nat := length (filter is_spawn l).

Lemma nspawn_app : forall a b, nspawn (a ++ b) = (nspawn a + nspawn b)%nat.
Proof. intros. unfold nspawn. rewrite filter_app, app_length. reflexivity. Qed.

Lemma opstep_spawn : forall ntid s cur todo s' cur' todo' out sp,
  opstep ntid s cur todo s' cur' todo' out sp ->
  nspawn out = (if sp then 1 else 0)%nat /\ (sp = true -> In (ESpawn ntid) out).
Proof. intros. inv H; cbn; split; auto; try discriminate. Qed.

Lemma nspawn_one : forall l a b, (nspawn l <= 1)%nat -> In (ESpawn a) l -> In (ESpawn b) l -> a = b.
Proof.
  induction l as [|e l IH]; intros a b H A B; [destruct A|].
  unfold nspawn in *. cbn [filter] in H. destruct A as [->|A]; destruct B as [B|B].
  - inv B. reflexivity.
  - cbn in H. exfalso. assert (In (ESpawn b) (filter is_spawn l)) by (apply filter_In; split; [exact B|reflexivity]).
    destruct (filter is_spawn l); [destruct H0|cbn in H; lia].
  - subst e. cbn in H. exfalso. assert (In (ESpawn a) (filter is_spawn l)) by (apply filter_In; split; [exact A|reflexivity]).
    destruct (filter is_spawn l); [destruct H0|cbn in H; lia].
  - apply IH; auto. destruct (is_spawn e); cbn in H; lia.
Qed.

Section Facts.
Variable eie : bool.
Variable body : nat -> list op.
Notation cstep := (cstep eie body).
Notation run := (run eie body).

Lemma cstep_clock : forall c tid c', invA c -> cstep c tid c' -> clock (c_sh c') = clock (c_sh c).
Proof. intros c tid c' A S. destruct (cstep_deff eie body c tid c' A S) as [out [_ [K _]]]. exact K. Qed.

(* ---- not early ------------------------------------------------------------------- *)
Definition invT (c : config) : Prop :=
  (forall i, at_thr tinv None c = Some i -> it_due i <= clock (c_sh c)) /\
  (forall tid t i, In (tid, t, EStart i) (c_log c) -> it_due i <= t).

Lemma invT_init : forall t0 progs, invT (init t0 progs).
Proof. intros. unfold invT, at_thr, init. cbn. split; [discriminate|intros ? ? ? []]. Qed.

Lemma invT_tick : forall c d, invT c -> invT (tick c d).
Proof.
  intros c d [T1 T2]. split; [|exact T2]. intros i H. unfold at_thr in *. cbn [tick c_sh c_ths thr clock] in *.
  specialize (T1 i H). lia.
Qed.

Lemma invT_step : forall c tid c', invA c /\ invD c -> invT c -> cstep c tid c' -> invT c'.
Proof.
  intros c tid c' [A D] [T1 T2] S. pose proof (cstep_clock _ _ _ A S) as CK.
  destruct D as (_ & _ & _ & _ & _ & _ & _ & D8). inv S.
  - pose proof (opstep_callish _ _ _ _ _ _ _ _ _ H0) as CL. split.
    + intros i E. rewrite (at_thr_sched _ _ _ c tid cur todo) in E by (try reflexivity; assumption).
      rewrite CK. apply T1, E.
    + intros tid' t i I. cbn [c_log] in I. apply in_app_or in I. destruct I as [I|I]; [eapply T2, I|].
      apply in_stamp in I. destruct I as [_ [_ I]]. pose proof (callish_in _ _ CL I) as X. discriminate X.
  - destruct (at_thr_loop eie body _ tinv None c tid ph s' ph' out sp eq_refl A H H0) as [_ [I1 I2]].
    destruct (at_thr_loop eie body _ tpend [] c tid ph s' ph' out sp eq_refl A H H0) as [_ [P1 _]].
    fold (inflight c) in P1. split.
    + intros i E. rewrite I2 in E. rewrite CK. inv H0; rewrite ?tinv_next in E; cbn [tinv] in E; try discriminate E.
      inv E. apply D8. rewrite P1. left. reflexivity.
    + intros tid' t i I. cbn [c_log] in I. apply in_app_or in I. destruct I as [I|I]; [eapply T2, I|].
      apply in_stamp in I. destruct I as [_ [-> I]].
      inv H0; cbn in I; try (intuition discriminate).
      * destruct I as [I|[]]. inv I. apply T1. rewrite I1. reflexivity.
      * pose proof (callish_in _ _ (opstep_callish _ _ _ _ _ _ _ _ _ H1) I) as X. discriminate X.
Qed.

(* ---- identity of the threads that run actions ------------------------------------- *)
Definition invI (c : config) : Prop :=
  (forall t ph, nth_error (c_ths c) t = Some (TLoop ph) -> In (ESpawn t) (L c)) /\
  (forall tid t e, In (tid, t, e) (c_log c) -> callish e = false -> In (ESpawn tid) (L c)) /\
  (eie = false -> (nspawn (L c) <= 1)%nat /\ (thr (c_sh c) = None -> nspawn (L c) = 0%nat)).

Lemma invI_init : forall t0 progs, invI (init t0 progs).
Proof.
  intros. unfold invI, L, init. cbn. repeat split; auto; try (intros ? ? ? []; fail).
  intros t ph H. apply nth_error_In in H. apply in_map_iff in H. destruct H as [p [E _]]. discriminate E.
Qed.

Lemma invI_step : forall c tid c', invI c -> cstep c tid c' -> invI c'.
Proof.
  intros c tid c' (I1 & I2 & I3) S.
  assert (GROW : forall s' ths' out x, In x (L c) ->
            In x (L (Config s' ths' (c_log c ++ stamp tid (clock (c_sh c)) out)))).
  { intros. unfold L. cbn [c_log]. rewrite evs_app. apply in_or_app. left. assumption. }
  inv S.
  - pose proof (opstep_callish _ _ _ _ _ _ _ _ _ H0) as CL.
    destruct (opstep_spawn _ _ _ _ _ _ _ _ _ H0) as [NS SP].
    repeat split.
    + intros t ph E. cbn [c_ths] in E. destruct (Nat.eq_dec t tid) as [->|N].
      { erewrite nth_step_same in E by eassumption. discriminate E. }
      apply nth_step_other in E; [|exact N]. destruct E as [E|[E1 E2]]; [apply GROW; eapply I1, E|].
      destruct sp; [|destruct (t - length (c_ths c))%nat; discriminate E2].
      assert (t = length (c_ths c)).
      { destruct (t - length (c_ths c))%nat as [|k] eqn:K; [lia|destruct k; discriminate E2]. }
      subst t. unfold L. cbn [c_log]. rewrite evs_app, evs_stamp. apply in_or_app. right. apply SP. reflexivity.
    + intros tid' t e I NC. cbn [c_log] in I. apply in_app_or in I. destruct I as [I|I]; [apply GROW; eapply I2; eassumption|].
      apply in_stamp in I. destruct I as [_ [_ I]]. rewrite (callish_in _ _ CL I) in NC. discriminate NC.
    + unfold L. cbn [c_log c_sh]. rewrite evs_app, evs_stamp, nspawn_app, NS. fold (L c).
      destruct (I3 H1) as [J1 J2]. destruct (opstep_thr _ _ _ _ _ _ _ _ _ H0) as [[-> T]|[-> [T0 T]]]; [lia|].
      rewrite (J2 T0). lia.
    + unfold L. cbn [c_log c_sh]. rewrite evs_app, evs_stamp, nspawn_app, NS. fold (L c).
      destruct (I3 H1) as [J1 J2]. intros T1. destruct (opstep_thr _ _ _ _ _ _ _ _ _ H0) as [[-> T]|[-> [T0 T]]]; [|congruence].
      rewrite T in T1. rewrite (J2 T1). reflexivity.
  - assert (SPW : In (ESpawn tid) (L c)) by (eapply I1; exact H).
    assert (NSP : nspawn out = (if sp then 1 else 0)%nat /\ (sp = true -> In (ESpawn (length (c_ths c))) out)).
    { inv H0; try (split; [reflexivity|discriminate]). eapply opstep_spawn; eassumption. }
    destruct NSP as [NS SP].
    repeat split.
    + intros t ph0 E. cbn [c_ths] in E. destruct (Nat.eq_dec t tid) as [->|N]; [apply GROW; exact SPW|].
      apply nth_step_other in E; [|exact N]. destruct E as [E|[E1 E2]]; [apply GROW; eapply I1, E|].
      destruct sp; [|destruct (t - length (c_ths c))%nat; discriminate E2].
      assert (t = length (c_ths c)).
      { destruct (t - length (c_ths c))%nat as [|k] eqn:K; [lia|destruct k; discriminate E2]. }
      subst t. unfold L. cbn [c_log]. rewrite evs_app, evs_stamp. apply in_or_app. right. apply SP. reflexivity.
    + intros tid' t e I NC. cbn [c_log] in I. apply in_app_or in I. destruct I as [I|I]; [apply GROW; eapply I2; eassumption|].
      apply in_stamp in I. destruct I as [-> _]. apply GROW. exact SPW.
    + unfold L. cbn [c_log c_sh]. rewrite evs_app, evs_stamp, nspawn_app, NS. fold (L c).
      destruct (I3 H1) as [J1 J2]. destruct sp; [|lia].
      inv H0; try discriminate NS. destruct (opstep_thr _ _ _ _ _ _ _ _ _ H2) as [[X T]|[X [T0 T]]]; [discriminate X|].
      rewrite (J2 T0). lia.
    + unfold L. cbn [c_log c_sh]. rewrite evs_app, evs_stamp, nspawn_app, NS. fold (L c).
      destruct (I3 H1) as [J1 J2]. intros T1.
      inv H0; cbn in T1; try (rewrite (J2 T1); reflexivity); try congruence.
      destruct (opstep_thr _ _ _ _ _ _ _ _ _ H2) as [[-> T]|[-> [T0 T]]]; [|congruence].
      rewrite T in T1. rewrite (J2 T1). reflexivity.
Qed.

Lemma invI_run : forall sched c, invI c -> invI (run c sched).
Proof. intros. apply run_invariant; auto. intros; eapply invI_step; eassumption. Qed.

End Facts.

(* ---------------------------------------------------------------- part 9 *)
Lemma nth_after : forall (ths : list tstate) tid st' (sp : bool) t st old,
  nth_error ths tid = Some old ->
  nth_error (upd tid st' ths ++ (if sp then [TLoop LNew] else [])) t = Some st ->
  (t = tid /\ st = st') \/ (t <> tid /\ nth_error ths t = Some st) \/ st = TLoop LNew.
Proof.
  intros ths tid st' sp t st old O H. destruct (Nat.eq_dec t tid) as [->|N].
  - erewrite nth_step_same in H by exact O. inv H. left. auto.
  - apply nth_step_other in H; [|exact N]. destruct H as [H|[H1 H2]]; [right; left; auto|].
    right. right. destruct sp; [|destruct (t - length ths)%nat; discriminate H2].
    destruct (t - length ths)%nat as [|k]; [inv H2; reflexivity|destruct k; discriminate H2].
Qed.

Definition uids_opst (cur : option opst) : list nat :=
  match cur with Some (PS1 u _ _) | Some (PS2 u _ _) => [u] | None => [] end.
Definition topst (st : tstate) : list nat :=
  match st with TSched cur _ => uids_opst cur | TLoop (LBody _ cur _ _) => uids_opst cur | _ => [] end.
Definition ps2_of (cur : option opst) : option nat :=
  match cur with Some (PS2 u _ _) => Some u | _ => None end.
Definition tps2 (st : tstate) : option nat :=
  match st with TSched cur _ => ps2_of cur | TLoop (LBody _ cur _ _) => ps2_of cur | _ => None end.

Lemma accs_in : forall l i, In i (accs l) <-> In (EAcc i) l.
Proof.
  induction l as [|e l IH]; intros i; [split; intros []|].
  destruct e; cbn [accs]; try (rewrite IH; split; [intros H; right; exact H|intros [H|H]; [discriminate H|exact H]]).
  split.
  - intros [H|H]; [subst; left; reflexivity|right; apply IH; exact H].
  - intros [H|H]; [inv H; left; reflexivity|right; apply IH; exact H].
Qed.
Lemma checks_in : forall l i, In i (checks l) <-> exists b, In (ECheck i b) l.
Proof.
  induction l as [|e l IH]; intros i; [split; [intros []|intros [b []]]|].
  destruct e; cbn [checks];
    try (rewrite IH; split; [intros [b H]; exists b; right; exact H|intros [b [H|H]]; [discriminate H|exists b; exact H]]).
  split.
  - intros [H|H]; [subst; exists c; left; reflexivity|]. apply IH in H. destruct H as [b H]. exists b. right. exact H.
  - intros [b [H|H]]; [inv H; left; reflexivity|right; apply IH; exists b; exact H].
Qed.

(* what a call step does to uids / to the ghost events *)
Lemma opstep_uids : forall ntid s cur todo s' cur' todo' out sp,
  opstep ntid s cur todo s' cur' todo' out sp ->
  (nuid s <= nuid s')%nat /\
  (forall u, In u (uids_opst cur') -> (In u (uids_opst cur) \/ (u < nuid s')%nat)) /\
  (forall u a, In (ECall u a) out -> u = nuid s /\ (u < nuid s')%nat) /\
  (forall u, In (EPass u) out -> ps2_of cur' = Some u /\ (In u (uids_opst cur) \/ (u < nuid s')%nat)) /\
  (forall u, ps2_of cur' = Some u -> In (EPass u) out) /\
  (forall i, In (EAcc i) out -> ps2_of cur = Some (it_uid i)) /\
  (disposed s = true -> disposed s' = true /\ forall u, ~ In (EPass u) out) /\
  (In EDisposeRet out -> disposed s' = true).
Proof.
  intros. inv H; cbn; repeat split; try lia; try (intros; intuition (try discriminate; try congruence; try lia); fail).
  all: try (intros u [X|[X|[]]]; inv X; auto; fail).
  all: try (intros u a0 [X|[X|[]]]; inv X; auto; fail).
  all: try (intros u a0 [X|[]]; inv X; auto; fail).
  all: try (intros u [X|[]]; inv X; auto; fail).
  all: try (intros i [X|[X|[X|[]]]]; inv X; auto; fail).
  all: try (intros i [X|[X|[]]]; inv X; auto; fail).
  all: try (intros X; inv X; left; reflexivity).
  all: try congruence.
  all: repeat match goal with H : _ \/ _ |- _ => destruct H as [H|H] | H : False |- _ => destruct H end;
       try discriminate;
       try (match goal with H : _ = _ |- _ => inv H end; cbn; auto; lia).
Qed.

Lemma loopstep_nobody_events : forall eie body me ntid s ph s' ph' out sp,
  loopstep eie body me ntid s ph s' ph' out sp ->
  (forall i cur todo r, ph <> LBody i cur todo r) \/ (exists i r, ph = LBody i None [] r) ->
  nuid s' = nuid s /\ disposed s' = disposed s /\ sp = false /\
  (forall e, In e out -> callish e = false) /\ topst (TLoop ph') = [] /\ tps2 (TLoop ph') = None.
Proof.
  intros. inv H; cbn; repeat split; auto;
    try (intros e [X|[]]; subst; reflexivity); try (intros e []); try (destruct r; reflexivity);
    try (destruct ready; reflexivity).
  all: exfalso; destruct H0 as [H0|[i0 [r0 H0]]]; [eapply H0; reflexivity|inv H0; inv H1].
Qed.

Section Facts.
Variable eie : bool.
Variable body : nat -> list op.
Notation cstep := (cstep eie body).
Notation run := (run eie body).

(* uids are allocated in increasing order; a call in progress carries an allocated uid *)
Definition invU (c : config) : Prop :=
  (forall u a, In (ECall u a) (L c) -> (u < nuid (c_sh c))%nat) /\
  (forall u, In (EPass u) (L c) -> (u < nuid (c_sh c))%nat) /\
  (forall t st u, nth_error (c_ths c) t = Some st -> In u (topst st) -> (u < nuid (c_sh c))%nat).

(* an accepted item passed the unlocked test; dispose() returned => the flag is set *)
Definition invP (c : config) : Prop :=
  (forall t st u, nth_error (c_ths c) t = Some st -> tps2 st = Some u -> In (EPass u) (L c)) /\
  (forall i, In (EAcc i) (L c) -> In (EPass (it_uid i)) (L c)) /\
  (In EDisposeRet (L c) -> disposed (c_sh c) = true).

Lemma invUP_init : forall t0 progs, invU (init t0 progs) /\ invP (init t0 progs).
Proof.
  intros. unfold invU, invP, L, init. cbn. repeat split; try (intros; contradiction).
  - intros t st u H I. apply nth_error_In in H. apply in_map_iff in H. destruct H as [p [<- _]]. destruct I.
  - intros t st u H I. apply nth_error_In in H. apply in_map_iff in H. destruct H as [p [<- _]]. discriminate I.
Qed.

Lemma L_step : forall c tid s' ths' out,
  L (Config s' ths' (c_log c ++ stamp tid (clock (c_sh c)) out)) = L c ++ out.
Proof. intros. unfold L. cbn [c_log]. rewrite evs_app, evs_stamp. reflexivity. Qed.

Lemma invUP_step : forall c tid c', invU c /\ invP c -> cstep c tid c' -> invU c' /\ invP c'.
Proof.
  intros c tid c' [(U1 & U2 & U3) (P1 & P2 & P3)] S. inv S.
  - destruct (opstep_uids _ _ _ _ _ _ _ _ _ H0) as (N & Q1 & Q2 & Q3 & Q4 & Q5 & Q6 & Q7).
    unfold invU, invP. rewrite !L_step. cbn [c_sh c_ths]. repeat split.
    + intros u a I. apply in_app_or in I. destruct I as [I|I]; [specialize (U1 u a I); lia|apply (Q2 u a I)].
    + intros u I. apply in_app_or in I. destruct I as [I|I]; [specialize (U2 u I); lia|].
      destruct (Q3 u I) as [_ [X|X]]; [|exact X]. specialize (U3 tid _ u H X). lia.
    + intros t st u E I. destruct (nth_after _ _ _ _ _ _ _ H E) as [[-> ->]|[[NE E']| ->]].
      * cbn in I. destruct (Q1 u I) as [X|X]; [|exact X]. specialize (U3 tid _ u H X). lia.
      * specialize (U3 t st u E' I). lia.
      * destruct I.
    + intros t st u E I. destruct (nth_after _ _ _ _ _ _ _ H E) as [[-> ->]|[[NE E']| ->]].
      * cbn in I. apply in_or_app. right. apply Q4, I.
      * apply in_or_app. left. eapply P1; eassumption.
      * discriminate I.
    + intros i I. apply in_app_or in I. destruct I as [I|I]; apply in_or_app; left; [apply P2, I|].
      eapply P1; [exact H|]. cbn. apply Q5, I.
    + intros I. apply in_app_or in I. destruct I as [I|I]; [|apply Q7, I].
      destruct Q6 as [Q6 _]; [apply P3, I|exact Q6].
  - assert (CASES : (exists i cur todo r cur' todo', ph = LBody i cur todo r /\ ph' = LBody i cur' todo' r /\
                        opstep (length (c_ths c)) (c_sh c) cur todo s' cur' todo' out sp) \/
                    (nuid s' = nuid (c_sh c) /\ disposed s' = disposed (c_sh c) /\ sp = false /\
                     (forall e, In e out -> callish e = false) /\ topst (TLoop ph') = [] /\ tps2 (TLoop ph') = None)).
    { destruct ph; try (right; eapply loopstep_nobody_events; [eassumption|left; intros; discriminate]).
      inv H0; [left; repeat eexists; eassumption|].
      right. eapply (loopstep_nobody_events eie body tid (length (c_ths c)) (c_sh c)); [apply LS_end|right; eauto]. }
    destruct CASES as [(i & cur & todo & r & cur' & todo' & -> & -> & O)|(NU & DI & -> & CE & TO & TP)].
    + destruct (opstep_uids _ _ _ _ _ _ _ _ _ O) as (N & Q1 & Q2 & Q3 & Q4 & Q5 & Q6 & Q7).
      unfold invU, invP. rewrite !L_step. cbn [c_sh c_ths]. repeat split.
      * intros u a I. apply in_app_or in I. destruct I as [I|I]; [specialize (U1 u a I); lia|apply (Q2 u a I)].
      * intros u I. apply in_app_or in I. destruct I as [I|I]; [specialize (U2 u I); lia|].
        destruct (Q3 u I) as [_ [X|X]]; [|exact X]. specialize (U3 tid _ u H X). lia.
      * intros t st u E I. destruct (nth_after _ _ _ _ _ _ _ H E) as [[-> ->]|[[NE E']| ->]].
        -- cbn in I. destruct (Q1 u I) as [X|X]; [|exact X]. specialize (U3 tid _ u H X). lia.
        -- specialize (U3 t st u E' I). lia.
        -- destruct I.
      * intros t st u E I. destruct (nth_after _ _ _ _ _ _ _ H E) as [[-> ->]|[[NE E']| ->]].
        -- cbn in I. apply in_or_app. right. apply Q4, I.
        -- apply in_or_app. left. eapply P1; eassumption.
        -- discriminate I.
      * intros i0 I. apply in_app_or in I. destruct I as [I|I]; apply in_or_app; left; [apply P2, I|].
        eapply P1; [exact H|]. cbn. apply Q5, I.
      * intros I. apply in_app_or in I. destruct I as [I|I]; [|apply Q7, I].
        destruct Q6 as [Q6 _]; [apply P3, I|exact Q6].
    + assert (NOCALL : forall e, In e out -> callish e = true -> False).
      { intros e I X. rewrite (CE e I) in X. discriminate X. }
      unfold invU, invP. rewrite !L_step. cbn [c_sh c_ths app]. rewrite NU, DI, app_nil_r. repeat split.
      * intros u a I. apply in_app_or in I. destruct I as [I|I]; [apply (U1 u a I)|]. exfalso. eapply NOCALL; [exact I|reflexivity].
      * intros u I. apply in_app_or in I. destruct I as [I|I]; [apply (U2 u I)|]. exfalso. eapply NOCALL; [exact I|reflexivity].
      * intros t st u E I. destruct (Nat.eq_dec t tid) as [->|NE].
        -- erewrite nth_upd_same in E by exact H. inv E. rewrite TO in I. destruct I.
        -- rewrite nth_upd_other in E by exact NE. eapply U3; eassumption.
      * intros t st u E I. apply in_or_app. left. destruct (Nat.eq_dec t tid) as [->|NE].
        -- erewrite nth_upd_same in E by exact H. inv E. rewrite TP in I. discriminate I.
        -- rewrite nth_upd_other in E by exact NE. eapply P1; eassumption.
      * intros i0 I. apply in_app_or in I. destruct I as [I|I]; apply in_or_app; left; [apply P2, I|].
        exfalso. eapply NOCALL; [exact I|reflexivity].
      * intros I. apply in_app_or in I. destruct I as [I|I]; [apply P3, I|]. exfalso. eapply NOCALL; [exact I|reflexivity].
Qed.

Lemma invUP_run : forall sched c, invU c /\ invP c -> invU (run c sched) /\ invP (run c sched).
Proof.
  intros. apply (run_invariant eie body (fun c => invU c /\ invP c)); auto.
  - intros; eapply invUP_step; eassumption.
Qed.

(* ---- after dispose() returned ------------------------------------------------------ *)
(* relative to a base log B and the uid watermark N of the moment dispose() had returned *)
Definition invJ (B : list ev) (N : nat) (c : config) : Prop :=
  disposed (c_sh c) = true /\ (N <= nuid (c_sh c))%nat /\
  exists more, L c = B ++ more /\ (forall u, ~ In (EPass u) more) /\
               (forall u a, In (ECall u a) more -> (N <= u)%nat).

Lemma invJ_step : forall B N c tid c', invJ B N c -> cstep c tid c' -> invJ B N c'.
Proof.
  intros B N c tid c' (J1 & J2 & more & J3 & J4 & J5) S.
  assert (KEY : forall cur todo s' cur' todo' out sp,
            opstep (length (c_ths c)) (c_sh c) cur todo s' cur' todo' out sp ->
            forall ths', invJ B N (Config s' ths' (c_log c ++ stamp tid (clock (c_sh c)) out))).
  { intros cur todo s' cur' todo' out sp O ths'.
    destruct (opstep_uids _ _ _ _ _ _ _ _ _ O) as (NN & Q1 & Q2 & Q3 & Q4 & Q5 & Q6 & Q7).
    destruct (Q6 J1) as [D' NP]. unfold invJ. rewrite L_step. cbn [c_sh]. repeat split; [exact D'|lia|].
    exists (more ++ out). rewrite J3, app_assoc. repeat split.
    - intros u I. apply in_app_or in I. destruct I as [I|I]; [eapply J4, I|eapply NP, I].
    - intros u a I. apply in_app_or in I. destruct I as [I|I]; [eapply J5, I|]. destruct (Q2 u a I) as [-> _]. exact J2. }
  inv S; [eapply KEY; eassumption|].
  destruct ph; try (destruct (loopstep_nobody_events _ _ _ _ _ _ _ _ _ _ H0) as (NU & DI & _ & CE & _);
                    [left; intros; discriminate|];
                    unfold invJ; rewrite L_step; cbn [c_sh]; rewrite NU, DI; repeat split; auto;
                    exists (more ++ out); rewrite J3, app_assoc; repeat split;
                    [intros u I; apply in_app_or in I; destruct I as [I|I]; [eapply J4, I|];
                     specialize (CE _ I); discriminate CE
                    |intros u a I; apply in_app_or in I; destruct I as [I|I]; [eapply J5, I|];
                     specialize (CE _ I); discriminate CE]).
  inv H0; [eapply KEY; eassumption|].
  unfold invJ. rewrite L_step. cbn [c_sh]. repeat split; auto.
  exists (more ++ [EEnd i]). rewrite J3, app_assoc. repeat split.
  - intros u I. apply in_app_or in I. destruct I as [I|[I|[]]]; [eapply J4, I|discriminate I].
  - intros u a I. apply in_app_or in I. destruct I as [I|[I|[]]]; [eapply J5, I|discriminate I].
Qed.

Lemma invJ_run : forall B N sched c, invJ B N c -> invJ B N (run c sched).
Proof.
  intros B N. apply (run_invariant eie body (invJ B N)).
  - intros; eapply invJ_step; eassumption.
  - intros c d H. exact H.
Qed.
End Facts.

(* ---------------------------------------------------------------- part 10 *)
Lemma notify_notified : forall w0 w, notify w0 = Some w -> w_notified w = true.
Proof. intros [[t d n]|] w H; inv H. reflexivity. Qed.

(* summary of a call step for the wake-up invariant *)
Lemma opstep_wake : forall ntid s cur todo s' cur' todo' out sp,
  opstep ntid s cur todo s' cur' todo' out sp ->
  ((rl s' = rl s /\ q s' = q s /\ (wt s' = wt s \/ wt s' = notify (wt s))) \/
   (wt s' = notify (wt s) /\ thr s' <> None)) /\
  (disposed s' = false -> disposed s = false).
Proof.
  intros. inv H; cbn; split; auto; try (right; split; [reflexivity|congruence]); try discriminate.
Qed.

Section Facts.
Variable eie : bool.
Variable body : nat -> list op.
Notation cstep := (cstep eie body).
Notation run := (run eie body).

(* no lost wake-up; no queued item without a thread *)
Definition invH (c : config) : Prop :=
  (forall w, wt (c_sh c) = Some w -> w_notified w = false ->
     rl (c_sh c) = [] /\ forall i, In i (q (c_sh c)) -> exists d, w_deadline w = Some d /\ d <= it_due i) /\
  (thr (c_sh c) = None -> rl (c_sh c) = [] /\ q (c_sh c) = []) /\
  (forall t, thr (c_sh c) = Some t -> disposed (c_sh c) = false ->
     exists ph, nth_error (c_ths c) t = Some (TLoop ph) /\ ph <> LExited).

Lemma invH_init : forall t0 progs, invH (init t0 progs).
Proof. intros. unfold invH, init. cbn. repeat split; discriminate. Qed.

Lemma invH_step : forall c tid c', invA c /\ invD c -> invH c -> cstep c tid c' -> invH c'.
Proof.
  intros c tid c' [A D] (HA & HB & HC) S.
  destruct D as (_ & _ & _ & _ & SQ & _).
  assert (KEY : forall cur todo s' cur' todo' out sp st' old,
            nth_error (c_ths c) tid = Some old -> (forall ph, st' = TLoop ph -> ph <> LExited) ->
            (forall t, thr (c_sh c) = Some t -> t = tid -> exists ph, st' = TLoop ph) ->
            opstep (length (c_ths c)) (c_sh c) cur todo s' cur' todo' out sp ->
            invH (Config s' (upd tid st' (c_ths c) ++ (if sp then [TLoop LNew] else []))
                         (c_log c ++ stamp tid (clock (c_sh c)) out))).
  { intros cur todo s' cur' todo' out sp st' old N LV TT O.
    destruct (opstep_wake _ _ _ _ _ _ _ _ _ O) as [W DM].
    pose proof (opstep_thr _ _ _ _ _ _ _ _ _ O) as T.
    unfold invH. cbn [c_sh c_ths]. refine (conj _ (conj _ _)).
    - intros w E NN. destruct W as [(R & Q & [W|W])|[W _]].
      + rewrite R, Q. rewrite W in E. apply HA; assumption.
      + rewrite W in E. rewrite (notify_notified _ _ E) in NN. discriminate NN.
      + rewrite W in E. rewrite (notify_notified _ _ E) in NN. discriminate NN.
    - intros E. destruct W as [(R & Q & _)|[_ W]]; [|contradiction]. rewrite R, Q.
      destruct T as [[-> T]|[-> [T0 T]]]; [|congruence]. rewrite T in E. apply HB, E.
    - intros t E DD. specialize (DM DD). destruct T as [[-> T]|[-> [T0 T]]].
      + rewrite T in E. destruct (HC t E DM) as [ph [P LVp]]. destruct (Nat.eq_dec t tid) as [->|NE].
        * destruct (TT tid E eq_refl) as [ph' ->]. exists ph'. split; [eapply nth_step_same; exact N|]. eapply LV. reflexivity.
        * exists ph. split; [apply nth_step_old; assumption|exact LVp].
      + rewrite T in E. inv E. exists LNew. split; [|discriminate].
        rewrite nth_error_app2 by (rewrite upd_length; lia). rewrite upd_length, Nat.sub_diag. reflexivity. }
  inv S.
  - eapply KEY; try eassumption; [intros ph X; discriminate X|].
    intros t E ->. destruct A as [A1 _]. destruct (A1 tid E) as [ph P]. congruence.
  - rename H into N. rename H0 into LS.
    assert (THR : thr (c_sh c) = Some tid).
    { destruct A as [_ [A2 _]]. eapply A2; [exact N|]. intros ->. inv LS. }
    inv LS; try (eapply KEY; try eassumption; [intros ph X; inv X; discriminate|intros; eexists; reflexivity]).
    all: unfold invH, set_q; cbn [c_sh c_ths rl q wt thr disposed app]; rewrite ?app_nil_r.
    all: try (refine (conj _ (conj _ _));
              [intros w E NN; apply HA; assumption
              |intros E; apply HB, E
              |intros tt E DD; rewrite THR in E; inv E; eexists; split;
                 [eapply nth_upd_same; exact N|first [discriminate|destruct r; discriminate]]]; fail).
    + (* collect: exit because disposed *)
      refine (conj _ (conj _ _)); [intros w E NN; apply HA; assumption|intros E; apply HB, E|].
      intros tt E DD. congruence.
    + (* collect *)
      destruct (collect_merge _ _ _ _ _ H0) as [taken [EQ _]].
      refine (conj _ (conj _ _)).
      * intros w E NN. destruct (HA w E NN) as [_ X]. split; [reflexivity|]. intros i I. apply X. rewrite EQ.
        apply in_or_app. right. exact I.
      * congruence.
      * intros tt E DD. rewrite THR in E. inv E. eexists. split; [eapply nth_upd_same; exact N|destruct ready; discriminate].
    + (* timed wait *)
      refine (conj _ (conj _ _)).
      * intros w E NN. inv E. split; [assumption|]. intros i I. exists (it_due x). split; [reflexivity|].
        rewrite H0 in SQ. rewrite H0 in I. apply (sorted_head_le _ _ _ SQ I).
      * congruence.
      * intros tt E DD. rewrite THR in E. inv E. eexists. split; [eapply nth_upd_same; exact N|discriminate].
    + (* exit_if_empty *)
      refine (conj _ (conj _ _)); [intros w E NN; apply HA; assumption|auto|discriminate].
    + (* untimed wait *)
      refine (conj _ (conj _ _)).
      * intros w E NN. inv E. split; [assumption|]. intros i I. rewrite H0 in I. destruct I.
      * congruence.
      * intros tt E DD. rewrite THR in E. inv E. eexists. split; [eapply nth_upd_same; exact N|discriminate].
    + (* wake *)
      refine (conj _ (conj _ _)); [discriminate|intros E; apply HB, E|].
      intros tt E DD. rewrite THR in E. inv E. eexists. split; [eapply nth_upd_same; exact N|discriminate].
Qed.
End Facts.

(* ---------------------------------------------------------------- part 11 *)
(* ---- quiescence ------------------------------------------------------------------- *)
(* a thread that cannot take a step: finished, exited, or parked in wait with neither a
   notification nor an expired timeout *)
Definition idle (s : shared) (t : tstate) : bool :=
  match t with
  | TSched None [] => true
  | TLoop LExited => true
  | TLoop LWaiting =>
      match wt s with Some w => negb (w_notified w || timed_out s w) | None => true end
  | _ => false
  end.
Definition quiescent (c : config) : bool := forallb (idle (c_sh c)) (c_ths c).

Section Theorems.
Variable eie : bool.
Variable body : nat -> list op.
Notation cstep := (cstep eie body).
Notation run := (run eie body).
Notation tstep := (tstep eie body).

Lemma quiescent_stutter : forall c, quiescent c = true -> forall tid, tstep c tid = c.
Proof.
  intros c Q tid. unfold EventLoop.tstep. destruct (nth_error (c_ths c) tid) as [st|] eqn:N; [|reflexivity].
  unfold quiescent in Q. rewrite forallb_forall in Q. specialize (Q st (nth_error_In _ _ N)).
  destruct st as [[o|] [|x todo]|ph]; try discriminate Q; [reflexivity|].
  destruct ph; try discriminate Q; [|reflexivity]. cbn in *.
  destruct (wt (c_sh c)) as [w|]; [|reflexivity]. apply negb_true_iff in Q. rewrite Q, andb_false_r. reflexivity.
Qed.

Definition invAll (c : config) : Prop :=
  invA c /\ invD c /\ invS c /\ invT c /\ invI eie c /\ (invU c /\ invP c) /\ invH c.

Lemma invAll_init : forall t0 progs, invAll (init t0 progs).
Proof.
  intros. unfold invAll. refine (conj _ (conj _ (conj _ (conj _ (conj _ (conj (conj _ _) _)))))).
  - apply invA_init.
  - apply invD_init.
  - apply invS_init.
  - apply invT_init.
  - apply invI_init.
  - apply invUP_init.
  - apply invUP_init.
  - apply invH_init.
Qed.

Lemma invAll_run : forall sched c, invAll c -> invAll (run c sched).
Proof.
  apply (run_invariant eie body invAll).
  - intros c tid c' (A & D & S & T & I & UP & H) St. unfold invAll.
    refine (conj _ (conj _ (conj _ (conj _ (conj _ (conj (conj _ _) _)))))).
    + eapply invA_step; eassumption.
    + eapply invD_step; eassumption.
    + eapply invS_step; eassumption.
    + eapply invT_step; [split; eassumption|eassumption|eassumption].
    + eapply invI_step; eassumption.
    + eapply invUP_step; eassumption.
    + eapply invUP_step; eassumption.
    + eapply invH_step; [split; eassumption|eassumption|eassumption].
  - intros c d (A & D & S & T & I & UP & H). unfold invAll.
    refine (conj _ (conj _ (conj _ (conj _ (conj _ (conj (conj _ _) _)))))); auto.
    + apply invD_tick, D.
    + apply invT_tick, T.
    + apply UP.
    + apply UP.
Qed.

Lemma reach : forall t0 progs sched, invAll (run (init t0 progs) sched).
Proof. intros. apply invAll_run, invAll_init. Qed.

(* ======================================================================= *)
(* 1. one thread *)
Theorem el_one_live_loop_thread : forall t0 progs sched t1 t2 ph1 ph2,
  let c := run (init t0 progs) sched in
  nth_error (c_ths c) t1 = Some (TLoop ph1) -> ph1 <> LExited ->
  nth_error (c_ths c) t2 = Some (TLoop ph2) -> ph2 <> LExited -> t1 = t2.
Proof.
  intros t0 progs sched t1 t2 ph1 ph2 c N1 L1 N2 L2. destruct (reach t0 progs sched) as ((_ & A2 & _) & _).
  pose proof (A2 t1 ph1 N1 L1). pose proof (A2 t2 ph2 N2 L2). fold c in H, H0. congruence.
Qed.

(* every event of the loop (is_cancelled test, start, end of an action, exit) is made by a thread
   that _ensure_thread started *)
Theorem el_actions_on_loop_thread : forall t0 progs sched tid t e,
  let c := run (init t0 progs) sched in
  In (tid, t, e) (c_log c) -> callish e = false -> In (ESpawn tid) (L c).
Proof. intros t0 progs sched tid t e c I NC. destruct (reach t0 progs sched) as (_ & _ & _ & _ & (_ & I2 & _) & _). eapply I2; eassumption. Qed.

Theorem el_single_thread : forall t0 progs sched tid1 t1 e1 tid2 t2 e2,
  eie = false ->
  let c := run (init t0 progs) sched in
  In (tid1, t1, e1) (c_log c) -> callish e1 = false ->
  In (tid2, t2, e2) (c_log c) -> callish e2 = false -> tid1 = tid2.
Proof.
  intros t0 progs sched tid1 t1 e1 tid2 t2 e2 E c I1 N1 I2 N2.
  destruct (reach t0 progs sched) as (_ & _ & _ & _ & (_ & J2 & J3) & _). destruct (J3 E) as [J _].
  eapply nspawn_one; [exact J|eapply J2; eassumption|eapply J2; eassumption].
Qed.

(* 2. never two at once: the log is accepted by the scanner [ser]; in particular no action is
   running when another one starts *)
Theorem el_serial : forall t0 progs sched,
  exists o, ser None (L (run (init t0 progs) sched)) = Some o.
Proof. intros. destruct (reach t0 progs sched) as (_ & _ & (S1 & _) & _). eexists. exact S1. Qed.

Theorem el_serial_plain : forall t0 progs sched l1 i l2,
  L (run (init t0 progs) sched) = l1 ++ EStart i :: l2 -> ser None l1 = Some None.
Proof.
  intros t0 progs sched l1 i l2 E. destruct (el_serial t0 progs sched) as [o S]. rewrite E in S.
  eapply ser_spec, S.
Qed.

(* 3. immediately-due actions are tested (and, if not cancelled, run) in submission order:
   the dispatched immediate items are a prefix of the accepted immediate items *)
Theorem el_fifo_immediate : forall t0 progs sched,
  let c := run (init t0 progs) sched in
  exists rest, filter it_imm (accs (L c)) = filter it_imm (checks (L c)) ++ rest.
Proof. intros. destruct (reach t0 progs sched) as (_ & (_ & _ & D3 & _) & _). eexists. exact D3. Qed.

(* 4. timed actions are dispatched in due-time order *)
Theorem el_due_order : forall t0 progs sched,
  StronglySorted le_due (filter timed (checks (L (run (init t0 progs) sched)))).
Proof.
  intros. destruct (reach t0 progs sched) as (_ & (_ & _ & _ & _ & _ & (lct & _ & _ & _ & E4) & _) & _).
  rewrite filter_app in E4. eapply sorted_app_l, E4.
Qed.

(* 5. never early *)
Theorem el_not_early : forall t0 progs sched tid t i,
  In (tid, t, EStart i) (c_log (run (init t0 progs) sched)) -> it_due i <= t.
Proof. intros. destruct (reach t0 progs sched) as (_ & _ & _ & (_ & T2) & _). eapply T2; eassumption. Qed.

(* what is run was accepted, with that due time *)
Theorem el_started_was_accepted : forall t0 progs sched i,
  let c := run (init t0 progs) sched in
  In (EStart i) (L c) -> In (EAcc i) (L c) /\ In (ECheck i false) (L c).
Proof.
  intros t0 progs sched i c I. destruct (reach t0 progs sched) as (_ & (_ & _ & _ & D4 & _) & (_ & S2 & _) & _).
  fold c in D4, S2. destruct (in_split _ _ I) as [l1 [l2 E]]. rewrite E in S2.
  destruct (pick_spec _ _ _ _ _ S2) as [X|X]; [discriminate X|].
  assert (C : In (ECheck i false) (L c)) by (rewrite E; apply in_or_app; left; exact X).
  split; [|exact C]. apply accs_in. eapply Permutation_in; [symmetry; exact D4|].
  apply in_or_app. left. apply checks_in. eexists. exact C.
Qed.

(* 6. cancellation: an action that starts was tested by is_cancelled() earlier, and no dispose()
   of its disposable had returned before that test *)
Theorem el_cancel_before_test : forall t0 progs sched l1 i l2,
  L (run (init t0 progs) sched) = l1 ++ EStart i :: l2 ->
  exists l0 l0', l1 = l0 ++ ECheck i false :: l0' /\ ~ In (ECancelRet (it_lbl i)) l0.
Proof.
  intros t0 progs sched l1 i l2 E. destruct (reach t0 progs sched) as (_ & _ & (_ & S2 & S3 & _) & _).
  rewrite E in S2, S3. destruct (pick_spec _ _ _ _ _ S2) as [X|X]; [discriminate X|].
  destruct (in_split _ _ X) as [l0 [l0' E0]]. exists l0, l0'. split; [exact E0|].
  rewrite E0, <- app_assoc in S3. cbn [app] in S3. eapply cancel_ok_spec, S3.
Qed.

(* 7. dispose *)
Theorem el_dispose_ret_sets_flag : forall t0 progs sched,
  let c := run (init t0 progs) sched in In EDisposeRet (L c) -> disposed (c_sh c) = true.
Proof. intros t0 progs sched c. destruct (reach t0 progs sched) as (_ & _ & _ & _ & _ & (_ & (_ & _ & P3)) & _). exact P3. Qed.

(* once dispose() has returned (state c1), whatever happens next (sched2): no call passes the
   `_is_disposed` test any more (each raises DisposedException at that test), and no call made
   afterwards is ever enqueued, tested or run *)
Theorem el_dispose : forall t0 progs sched1 sched2,
  let c1 := run (init t0 progs) sched1 in
  let c2 := run c1 sched2 in
  disposed (c_sh c1) = true ->
  exists more, L c2 = L c1 ++ more /\
    (forall u, ~ In (EPass u) more) /\
    (forall u a i, In (ECall u a) more -> it_uid i = u ->
       ~ In (EAcc i) (L c2) /\ ~ In (ECheck i false) (L c2) /\ ~ In (EStart i) (L c2)).
Proof.
  intros t0 progs sched1 sched2 c1 c2 D.
  assert (J1 : invJ (L c1) (nuid (c_sh c1)) c1).
  { unfold invJ. repeat split; [exact D|lia|]. exists []. rewrite app_nil_r. split; [reflexivity|]. split; [intros u X; destruct X|intros u a X; destruct X]. }
  pose proof (invJ_run eie body _ _ sched2 c1 J1) as (_ & _ & more & E & NP & NC). fold c2 in E.
  exists more. split; [exact E|]. split; [exact NP|]. intros u a i IC EU.
  destruct (reach t0 progs sched1) as (_ & _ & _ & _ & _ & ((_ & U2 & _) & _) & _). fold c1 in U2.
  pose proof (reach t0 progs (sched1 ++ sched2)) as R2. rewrite run_app in R2. fold c1 in R2. fold c2 in R2.
  destruct R2 as (_ & (_ & _ & _ & D4 & _) & (_ & S2 & _) & _ & _ & (_ & (_ & P2 & _)) & _).
  assert (NOACC : ~ In (EAcc i) (L c2)).
  { intros X. apply P2 in X. rewrite EU, E in X. apply in_app_or in X. destruct X as [X|X]; [|eapply NP, X].
    specialize (U2 u X). specialize (NC u a IC). lia. }
  assert (NOCHK : forall b, ~ In (ECheck i b) (L c2)).
  { intros b X. apply NOACC. apply accs_in. eapply Permutation_in; [symmetry; exact D4|].
    apply in_or_app. left. apply checks_in. eexists. exact X. }
  repeat split; [exact NOACC|apply NOCHK|]. intros X. destruct (in_split _ _ X) as [l1 [l2 E2]]. rewrite E2 in S2.
  destruct (pick_spec _ _ _ _ _ S2) as [Y|Y]; [discriminate Y|]. apply (NOCHK false). rewrite E2. apply in_or_app. left. exact Y.
Qed.

(* 8. nothing is lost; exit_if_empty *)
Theorem el_work_has_thread : forall t0 progs sched,
  let c := run (init t0 progs) sched in
  disposed (c_sh c) = false -> rl (c_sh c) <> [] \/ q (c_sh c) <> [] ->
  exists t ph, thr (c_sh c) = Some t /\ nth_error (c_ths c) t = Some (TLoop ph) /\ ph <> LExited.
Proof.
  intros t0 progs sched c D W. destruct (reach t0 progs sched) as (_ & _ & _ & _ & _ & _ & (_ & H2 & H3)). fold c in H2, H3.
  destruct (thr (c_sh c)) as [t|] eqn:T.
  - destruct (H3 t eq_refl D) as [ph [P LV]]. eauto.
  - destruct (H2 eq_refl) as [R Q]. destruct W; contradiction.
Qed.

Theorem el_exit_only_when_idle : forall t0 progs sched,
  let c := run (init t0 progs) sched in
  thr (c_sh c) = None -> rl (c_sh c) = [] /\ q (c_sh c) = [] /\ inflight c = [].
Proof.
  intros t0 progs sched c T. destruct (reach t0 progs sched) as (_ & _ & _ & _ & _ & _ & (_ & H2 & _)). fold c in H2.
  destruct (H2 T) as [R Q]. repeat split; auto. unfold inflight, at_thr. rewrite T. reflexivity.
Qed.

(* the enqueueing step of a call starts a thread whenever there is none *)
Theorem el_schedule_restarts_thread : forall ntid s u a due todo s' cur' todo' out sp,
  opstep ntid s (Some (PS2 u a due)) todo s' cur' todo' out sp -> thr s = None ->
  sp = true /\ thr s' = Some ntid /\ In (ESpawn ntid) out.
Proof. intros. inv H; try congruence; cbn; auto. Qed.

Lemma quiescent_idle_thr : forall c, quiescent c = true ->
  at_thr tbody None c = None /\ at_thr tinv None c = None /\ inflight c = [].
Proof.
  intros c Q. unfold inflight, at_thr. destruct (thr (c_sh c)) as [t|]; [|auto].
  destruct (nth_error (c_ths c) t) as [st|] eqn:N; [|auto].
  unfold quiescent in Q. rewrite forallb_forall in Q. specialize (Q st (nth_error_In _ _ N)).
  destruct st as [[o|] [|x todo]|ph]; try discriminate Q; auto. destruct ph; try discriminate Q; auto.
Qed.

(* at quiescence, with the clock past every accepted due time and the scheduler not disposed:
   every accepted item has been dispatched (tested), every item that passed the test has run to
   completion, and the queues are empty *)
Theorem el_nothing_lost : forall t0 progs sched,
  let c := run (init t0 progs) sched in
  quiescent c = true -> disposed (c_sh c) = false ->
  (forall i, In (EAcc i) (L c) -> it_due i <= clock (c_sh c)) ->
  Permutation (accs (L c)) (checks (L c)) /\ rl (c_sh c) = [] /\ q (c_sh c) = [] /\
  (forall i, In (ECheck i false) (L c) -> In (EStart i) (L c) /\ In (EEnd i) (L c)).
Proof.
  intros t0 progs sched c Q D DUE.
  destruct (reach t0 progs sched) as ((_ & _ & _ & A4) & (_ & _ & _ & D4 & _) & (S1 & S2 & _) & _ & _ & _ & (H1 & H2 & H3)).
  fold c in A4, D4, S1, S2, H1, H2, H3.
  destruct (quiescent_idle_thr c Q) as (QB & QI & QF). rewrite QB in S1. rewrite QI in S2. rewrite QF in D4.
  assert (EMPTY : rl (c_sh c) = [] /\ q (c_sh c) = []).
  { destruct (thr (c_sh c)) as [t|] eqn:T; [|apply H2; reflexivity].
    destruct (H3 t eq_refl D) as [ph [P LV]].
    assert (I : idle (c_sh c) (TLoop ph) = true).
    { unfold quiescent in Q. rewrite forallb_forall in Q. apply Q. eapply nth_error_In, P. }
    destruct ph; try discriminate I; [|contradiction]. destruct (A4 t P) as [w [W WT]].
    cbn in I. rewrite W in I. apply negb_true_iff, orb_false_iff in I. destruct I as [NN TO].
    destruct (H1 w W NN) as [R X]. split; [exact R|]. destruct (q (c_sh c)) as [|i qq] eqn:QQ; [reflexivity|exfalso].
    destruct (X i (or_introl eq_refl)) as [d [DL LE]]. unfold timed_out in TO. rewrite DL in TO. apply Z.leb_gt in TO.
    assert (In (EAcc i) (L c)).
    { apply accs_in. eapply Permutation_in; [symmetry; exact D4|]. apply in_or_app. right. cbn [app]. rewrite R.
      cbn [app]. left. reflexivity. }
    specialize (DUE i H). lia. }
  destruct EMPTY as [R QQ]. rewrite R, QQ in D4. cbn [app] in D4. rewrite app_nil_r in D4.
  repeat split; auto.
  - eapply pick_closed; eassumption.
  - eapply ser_closed; [exact S1|]. eapply pick_closed; eassumption.
Qed.
End Theorems.

(* ---------------------------------------------------------------- witnesses *)
(* helpers for the concrete witnesses of Props/C31.v *)
Definition nobody (a : nat) : list op := [].
Definition steps (l : list nat) : list move := map MStep l.

Fixpoint index_of (p : ev -> bool) (l : list ev) : option nat :=
  match l with
  | [] => None
  | e :: r => if p e then Some O else match index_of p r with Some k => Some (S k) | None => None end
  end.
Definition is_start_of (a : nat) (e : ev) : bool :=
  match e with EStart i => Nat.eqb (it_lbl i) a | _ => false end.
Definition is_cancelret_of (a : nat) (e : ev) : bool :=
  match e with ECancelRet b => Nat.eqb a b | _ => false end.
Definition is_test_of (a : nat) (e : ev) : bool :=
  match e with ECheck i false => Nat.eqb (it_lbl i) a | _ => false end.
(* p-event strictly before q-event *)
Definition before (p q : ev -> bool) (l : list ev) : bool :=
  match index_of p l, index_of q l with Some x, Some y => Nat.ltb x y | _, _ => false end.

(* the strict reading of "an action cancelled before it starts never runs" is FALSE of the code:
   T0 schedule(1) (3 steps) ; loop thread: start, collect, is_cancelled() -> False ; T0: dispose the
   returned disposable (returns) ; loop thread: invokes action 1 *)
Definition cancel_window_witness : config :=
  run false nobody (init 0 [[SchedNow 1%nat; Cancel 1%nat]]) (steps [0; 0; 0; 1; 1; 1; 0; 1; 1; 1]%nat).

Lemma el_cancel_strict_refuted :
  before (is_test_of 1) (is_cancelret_of 1) (L cancel_window_witness) = true /\
  before (is_cancelret_of 1) (is_start_of 1) (L cancel_window_witness) = true.
Proof. vm_compute. split; reflexivity. Qed.

(* quirk (not part of C31): dispose() while the loop thread is between its two locked blocks loses
   the notification; the thread then waits for ever (it is never ended), although disposed *)
Definition dispose_sleep_witness : config :=
  run false nobody (init 0 [[SchedNow 1%nat]; [Dispose]]) (steps [0; 0; 0; 2; 2; 2; 2; 2; 1; 2]%nat).

Lemma el_dispose_thread_may_sleep_for_ever :
  quiescent dispose_sleep_witness = true /\ disposed (c_sh dispose_sleep_witness) = true /\
  nth_error (c_ths dispose_sleep_witness) 2 = Some (TLoop LWaiting) /\
  wt (c_sh dispose_sleep_witness) = Some (Wait 2 None false).
Proof. vm_compute. repeat split; reflexivity. Qed.
