From RxVerif Require Import Base.Prelude Ops.Machine Core.AutoDetach.

Section Facts.
Context {A : Type}.

Section Ind.
Variable P : call A -> Prop.
Hypothesis H : forall k during raises, Forall P during -> P (Call k during raises).
Fixpoint call_ind' (c : call A) : P c :=
  match c with
  | Call k during r =>
      H k during r
        ((fix go (l : list (call A)) : Forall P l :=
            match l with
            | [] => Forall_nil P
            | x :: t => Forall_cons x (call_ind' x) (go t)
            end) during)
  end.
End Ind.

(* the local fix inside run_call is run_calls *)
Lemma run_list_eq (l : list (call A)) : forall st,
  (fix run_list (st : bool) (l : list (call A)) : bool * list (effect A) :=
     match l with
     | [] => (st, [])
     | c :: t => let '(st1, e1) := run_call st c in
                 let '(st2, e2) := run_list st1 t in (st2, e1 ++ e2)
     end) st l = run_calls st l.
Proof.
  induction l as [|c t IH]; intros st; [reflexivity|].
  cbn [run_calls]. destruct (run_call st c) as [st1 e1]. rewrite IH. reflexivity.
Qed.

Lemma run_call_unfold st k during raises :
  run_call st (Call k during raises) =
  match k return bool * list (effect A) with
  | KNext a =>
      if st then (st, [])
      else let '(st', es) := run_calls st during in
           (st', Deliver (Next a) :: es ++ (if raises then [Raised EXN_CALLBACK] else []))
  | KError e =>
      if st then (st, [])
      else let '(_, es) := run_calls true during in
           (true, Deliver (Err e) :: es ++ [SubDispose] ++ (if raises then [Raised EXN_CALLBACK] else []))
  | KCompleted =>
      if st then (st, [])
      else let '(_, es) := run_calls true during in
           (true, Deliver Done :: es ++ [SubDispose] ++ (if raises then [Raised EXN_CALLBACK] else []))
  | KDispose => (true, [SubDispose])
  | KFail e =>
      if st then (st, [FailReturned false])
      else let '(_, es) := run_calls true during in
           (true, Deliver (Err e) :: es ++ (if raises then [Raised EXN_CALLBACK] else [FailReturned true]))
  end.
Proof. destruct k; cbn [run_call]; rewrite ?run_list_eq; reflexivity. Qed.

Lemma delivered_app (a b : list (effect A)) : delivered (a ++ b) = delivered a ++ delivered b.
Proof.
  induction a as [|e t IH]; [reflexivity|]. destruct e; cbn [app delivered]; now rewrite IH.
Qed.

Definition ended (l : list (ev A)) : bool := existsb is_terminal l.

(* what one call (or a forest) guarantees *)
Definition good (st : bool) (r : bool * list (effect A)) : Prop :=
  let '(st', es) := r in
  (st = true -> delivered es = [] /\ st' = true)
  /\ wellformed (delivered es) = true
  /\ (ended (delivered es) = true -> st' = true).

Lemma wellformed_app_notended (l1 l2 : list (ev A)) :
  wellformed l1 = true -> ended l1 = false -> wellformed l2 = true -> wellformed (l1 ++ l2) = true.
Proof.
  induction l1 as [|e t IH]; intros H1 H2 H3; [exact H3|].
  destruct e; cbn [app wellformed ended existsb is_terminal orb] in *; try discriminate.
  apply IH; assumption.
Qed.

Lemma ended_app (l1 l2 : list (ev A)) : ended (l1 ++ l2) = ended l1 || ended l2.
Proof. unfold ended. apply existsb_app. Qed.

Lemma good_calls (l : list (call A)) :
  Forall (fun c => forall st, good st (run_call st c)) l -> forall st, good st (run_calls st l).
Proof.
  induction 1 as [|c t Hc Ht IH]; intros st.
  - cbn. repeat split; auto; discriminate.
  - cbn [run_calls]. specialize (Hc st). destruct (run_call st c) as [st1 e1].
    specialize (IH st1). destruct (run_calls st1 t) as [st2 e2].
    unfold good in *. destruct Hc as (Hc1 & Hc2 & Hc3). destruct IH as (I1 & I2 & I3).
    rewrite delivered_app.
    split; [|split].
    + intros Hst. destruct (Hc1 Hst) as [Hd Hs1]. destruct (I1 Hs1) as [Hd2 Hs2].
      now rewrite Hd, Hd2.
    + destruct (ended (delivered e1)) eqn:He.
      * destruct (I1 (Hc3 eq_refl)) as [Hd2 _]. now rewrite Hd2, app_nil_r.
      * apply wellformed_app_notended; assumption.
    + rewrite ended_app. intros Hor. apply orb_true_iff in Hor. destruct Hor as [Ho|Ho].
      * destruct (I1 (Hc3 Ho)) as [_ Hs2]. exact Hs2.
      * auto.
Qed.

Lemma delivered_tail_silent (es : list (effect A)) (tl : list (effect A)) :
  delivered tl = [] -> delivered (es ++ tl) = delivered es.
Proof. intros H. now rewrite delivered_app, H, app_nil_r. Qed.

Lemma raised_silent (raises : bool) : @delivered A (if raises then [Raised EXN_CALLBACK] else []) = [].
Proof. destruct raises; reflexivity. Qed.

Theorem good_call (c : call A) : forall st, good st (run_call st c).
Proof.
  induction c as [k during raises IH] using call_ind'. intros st.
  rewrite run_call_unfold.
  pose proof (good_calls during IH) as Hd.
  destruct k as [a|e| | |e].
  - destruct st; [cbn; repeat split; auto; discriminate|].
    specialize (Hd false). destruct (run_calls false during) as [st' es].
    unfold good in *. destruct Hd as (_ & H2 & H3).
    cbn [delivered]. rewrite delivered_tail_silent by apply raised_silent.
    split; [discriminate|]. split; [exact H2|]. exact H3.
  - destruct st; [cbn; repeat split; auto; discriminate|].
    specialize (Hd true). destruct (run_calls true during) as [st' es].
    unfold good in *. destruct Hd as (H1 & _ & _). destruct (H1 eq_refl) as [Hnil _].
    cbn [delivered]. rewrite !delivered_app, Hnil, raised_silent. cbn.
    repeat split; auto; discriminate.
  - destruct st; [cbn; repeat split; auto; discriminate|].
    specialize (Hd true). destruct (run_calls true during) as [st' es].
    unfold good in *. destruct Hd as (H1 & _ & _). destruct (H1 eq_refl) as [Hnil _].
    cbn [delivered]. rewrite !delivered_app, Hnil, raised_silent. cbn.
    repeat split; auto; discriminate.
  - cbn. repeat split; auto; discriminate.
  - destruct st; [cbn; repeat split; auto; discriminate|].
    specialize (Hd true). destruct (run_calls true during) as [st' es].
    unfold good in *. destruct Hd as (H1 & _ & _). destruct (H1 eq_refl) as [Hnil _].
    cbn [delivered]. rewrite delivered_app, Hnil. destruct raises; cbn; repeat split; auto; discriminate.
Qed.

(* C01 at the choke point: whatever is called on the wrapper, in whatever
   nesting, with whichever callbacks raising, the user callbacks see
   Next* (Err|Done)? -- and nothing once stopped *)
Theorem autodetach_grammar (h : list (call A)) (st : bool) :
  wellformed (delivered (snd (run_calls st h))) = true.
Proof.
  pose proof (good_calls h (proj2 (Forall_forall _ _) (fun c _ => good_call c)) st) as G.
  destruct (run_calls st h) as [st' es]. unfold good in G. tauto.
Qed.

Theorem autodetach_silent_once_stopped (h : list (call A)) :
  delivered (snd (run_calls true h)) = [].
Proof.
  pose proof (good_calls h (proj2 (Forall_forall _ _) (fun c _ => good_call c)) true) as G.
  destruct (run_calls true h) as [st' es]. unfold good in G. destruct G as (G1 & _). now apply G1.
Qed.

(* after a terminal delivery the wrapper is stopped: later calls deliver nothing *)
Theorem autodetach_no_call_after_terminal (h1 h2 : list (call A)) :
  ended (delivered (snd (run_calls false h1))) = true ->
  delivered (snd (run_calls (fst (run_calls false h1)) h2)) = [].
Proof.
  intros He.
  pose proof (good_calls h1 (proj2 (Forall_forall _ _) (fun c _ => good_call c)) false) as G.
  destruct (run_calls false h1) as [st' es]. unfold good in G. destruct G as (_ & _ & G3).
  cbn [fst snd] in *. rewrite (G3 He). apply autodetach_silent_once_stopped.
Qed.
End Facts.
